"""C20 — implementation side: what a run does to the parameter object it is given, vs Model.Params; plus direct oracles.

trace tie  : random histories of runs (noise_model None / all-zero strengths / noisy; serial and parallel) on ONE shared
             StrongSimParams / WeakSimParams / AnalogSimParams object through the REAL `simulator.run`, with the trajectory
             back-ends replaced in the simulator namespace (`digital_tjm`, `analog_tjm_1/2`, `mcwf`, `lindblad`) by recorders
             returning correctly shaped dummies.  After every run: trajectories executed (shared-memory call log, works
             across the fork pool), error class, num_traj / shots / len(measurements) left on the object, the `shots` value the
             back-end saw, Observable.results resp. WeakSimParams.results.  The same history goes through `Params.history`.
oracle     : (per history) executed == requested by this call (1 if noise-free, else num_traj at construction resp. shots),
             weak counts sum to shots, noise-free results equal those of a fresh object;
             real back-ends: circuit / MPO / noise model / initial state deep-equal before and after a run; histories with the
             real digital and analog TJM; `np.random.default_rng` called exactly once per trajectory inside the back-end and
             never with a seed; noisy trajectories of one run pairwise distinct, serial and in the fork pool.
"""
from __future__ import annotations

import copy
import multiprocessing
import os
import random
import signal
import sys
import warnings

import numpy as np

import implbase as ib

warnings.simplefilter("ignore")

from qiskit.circuit import QuantumCircuit  # noqa: E402

from mqt.yaqs import simulator  # noqa: E402
from mqt.yaqs.core.data_structures.networks import MPO, MPS  # noqa: E402
from mqt.yaqs.core.data_structures.noise_model import NoiseModel  # noqa: E402
from mqt.yaqs.core.data_structures.simulation_parameters import (  # noqa: E402
    AnalogSimParams,
    Observable,
    StrongSimParams,
    WeakSimParams,
)
from mqt.yaqs.core.libraries.gate_library import X, Z  # noqa: E402


# --------------------------------------------------------------------------------------------------------------
def in_child(fn, arg, timeout=240):
    """run fn(arg) in a forked child with its own process group and a hard kill"""
    ctx = multiprocessing.get_context("fork")
    rd, wr = ctx.Pipe(duplex=False)

    def target():
        os.setsid()
        try:
            wr.send(("ok", fn(arg)))
        except BaseException as e:  # noqa: BLE001
            import traceback

            wr.send(("exc", f"{type(e).__name__}: {e}\n{traceback.format_exc()[-1500:]}"))

    p = ctx.Process(target=target)
    p.start()
    wr.close()
    if rd.poll(timeout):
        try:
            out = rd.recv()
        except EOFError:
            out = ("exc", "child died")
    else:
        out = ("timeout", f"no answer after {timeout}s")
    try:
        os.killpg(p.pid, signal.SIGKILL)
    except (ProcessLookupError, PermissionError):
        pass
    p.join(5)
    return out


# --------------------------------------------------------------------------------------------------------------
# stub back-ends (the same functions of (run r, trajectory i, shots s) as Driver/Params.lean)
# --------------------------------------------------------------------------------------------------------------
LOG_N = multiprocessing.Value("i", 0)           # shared with the fork pool
LOG_IDX = multiprocessing.Array("i", 4096)
LOG_SHOTS = multiprocessing.Array("i", 4096)
RUN = {"r": 0}


def log_call(i, shots):
    with LOG_N.get_lock():
        n = LOG_N.value
        LOG_IDX[n] = int(i)
        LOG_SHOTS[n] = int(shots)
        LOG_N.value = n + 1


def stub_value(r, i):
    return float(100 * r + i + 1)


def stub_counts(r, i, s):
    d = {(i + r) % 4: s - s // 2, (i + r + 1) % 4: s // 2}
    return {k: v for k, v in d.items() if v != 0}


def stub_digital(args):
    i, _state, _noise, sim_params, _circ = args
    if isinstance(sim_params, WeakSimParams):
        log_call(i, sim_params.shots)
        return stub_counts(RUN["r"], i, sim_params.shots)
    log_call(i, -1)
    cols = sim_params.num_mid_measurements + 2 if sim_params.sample_layers else 1
    return np.full((len(sim_params.sorted_observables), cols), stub_value(RUN["r"], i))


def stub_analog(args):
    i, _state, _noise, sim_params, _op = args
    log_call(i, -1)
    cols = len(sim_params.times) if sim_params.sample_timesteps else 1
    return np.full((len(sim_params.sorted_observables), cols), stub_value(RUN["r"], i))


def stub_mcwf(args):
    i, ctx = args
    sim_params = ctx.sim_params
    log_call(i, -1)
    cols = len(sim_params.times) if sim_params.sample_timesteps else 1
    return np.full((len(sim_params.sorted_observables), cols), stub_value(RUN["r"], i))


STUBS = {"digital_tjm": stub_digital, "analog_tjm_1": stub_analog, "analog_tjm_2": stub_analog, "lindblad": stub_analog,
         "mcwf": stub_mcwf}


def noise_of(tok):
    """N -> None; S:a,b -> NoiseModel with these strengths on lowering processes (site k % 2)"""
    if tok == "N":
        return None
    body = tok[2:]
    strengths = [float(x) for x in body.split(",")] if body else []
    return NoiseModel([{"name": "lowering", "sites": [k % 2], "strength": s} for k, s in enumerate(strengths)])


def frac_tok(x):
    return ib.frac(float(x))


def history_child(a):
    """the whole history in one child: REAL simulator.run on a shared parameter object, stub back-ends"""
    kind, num_traj, shots, get_state, solver, order, runs = a
    warnings.simplefilter("ignore")
    os.environ["YAQS_MAX_WORKERS"] = "4"
    saved = {k: getattr(simulator, k) for k in STUBS}
    for k, v in STUBS.items():
        setattr(simulator, k, v)
    try:
        obs = [Observable(Z(), 0), Observable(X(), 1)]
        if kind == "s":
            params = StrongSimParams(obs, num_traj=num_traj, get_state=get_state, show_progress=False)
        elif kind == "w":
            params = WeakSimParams(shots, get_state=get_state, show_progress=False)
        else:
            params = AnalogSimParams(obs, elapsed_time=0.2, dt=0.1, num_traj=num_traj, get_state=get_state, show_progress=False,
                                     solver=solver, order=order)
        state = MPS(2, state="zeros")
        circ = QuantumCircuit(2)
        circ.h(0)
        circ.cx(0, 1)
        ham = MPO.ising(2, 1.0, 0.5)
        blocks = []
        for r, (tok, parallel) in enumerate(runs):
            RUN["r"] = r
            LOG_N.value = 0
            err = "ok"
            try:
                simulator.run(state, circ if kind in "sw" else ham, params, noise_of(tok), parallel=parallel)
            except AssertionError as e:
                err = "getstate" if "Cannot return state" in str(e) else "firstnone"
            except IndexError:
                err = "index"
            n = LOG_N.value
            idx = sorted(LOG_IDX[j] for j in range(n))
            seen = sorted({LOG_SHOTS[j] for j in range(n)})
            rec = {"x": n, "i": idx, "e": err, "nt": int(params.num_traj), "sh": int(getattr(params, "shots", 0)),
                   "ml": len(params.measurements) if kind == "w" else 0, "seen": seen, "r": None, "c": None, "rows": None,
                   "uniform": True}
            if kind == "w":
                res = getattr(params, "results", None)   # whatever the object holds now, also after an exception
                rec["c"] = None if res is None else [[int(k), int(v)] for k, v in res.items()]
            else:
                vals = [np.asarray(o.results, dtype=float).reshape(-1) for o in params.sorted_observables if o.results is not None]
                flat = np.concatenate(vals) if vals else np.zeros(0)
                rec["uniform"] = bool(np.all(flat == flat[0])) if flat.size else True
                rec["r"] = float(flat[0]) if flat.size and np.isfinite(flat[0]) else None
                tr = params.sorted_observables[0].trajectories
                rec["rows"] = None if tr is None else int(tr.shape[0])
            blocks.append(rec)
        return blocks
    finally:
        for k, v in saved.items():
            setattr(simulator, k, v)


def block_text(kind, rec, prev_seen_default):
    seen = rec["seen"]
    if kind == "w":
        seen_tok = str(seen[0]) if len(seen) == 1 else ("mixed" if seen else "-")
    else:
        seen_tok = "0" if rec["x"] else "-"
    parts = ["x", str(rec["x"]), "i", *map(str, rec["i"]), "e", rec["e"], "nt", str(rec["nt"]), "sh", str(rec["sh"]), "ml", str(rec["ml"]),
             "seen", seen_tok, "r", "none" if rec["r"] is None else ib.fmt(rec["r"]), "c"]
    if rec["c"]:
        parts += [f"{k}:{v}" for k, v in rec["c"]]
    return " ".join(parts)


def gen(rng, tier):
    n = {"quick": 70, "thorough": 700, "search": 120}.get(tier, 70)
    yield {"kind": "real-untouched", "mode": "strong", "sub": rng.randrange(1 << 30)}
    yield {"kind": "real-untouched", "mode": "weak", "sub": rng.randrange(1 << 30)}
    for j in range(4):  # TJM order 1, TJM order 2, MCWF, Lindblad
        yield {"kind": "real-untouched", "mode": f"analog{j}", "sub": rng.randrange(1 << 30)}
    yield {"kind": "real-history", "mode": "strong", "sub": rng.randrange(1 << 30)}
    yield {"kind": "real-history", "mode": "weak", "sub": rng.randrange(1 << 30)}
    yield {"kind": "real-history", "mode": "analog", "order": 1, "sub": rng.randrange(1 << 30)}
    yield {"kind": "real-history", "mode": "analog", "order": 2, "sub": rng.randrange(1 << 30)}
    for m in ("weak", "strong", "analog"):
        yield {"kind": "real-refused", "mode": m, "sub": rng.randrange(1 << 30)}
    yield {"kind": "rng-trace", "mode": "analog1", "sub": rng.randrange(1 << 30)}
    yield {"kind": "rng-trace", "mode": "analog2", "sub": rng.randrange(1 << 30)}
    yield {"kind": "rng-trace", "mode": "mcwf", "sub": rng.randrange(1 << 30)}
    yield {"kind": "rng-trace", "mode": "strong", "sub": rng.randrange(1 << 30)}
    yield {"kind": "rng-trace", "mode": "weak", "sub": rng.randrange(1 << 30)}
    yield {"kind": "distinct-rows", "parallel": True, "ntraj": 16, "sub": rng.randrange(1 << 30)}
    yield {"kind": "distinct-rows", "parallel": False, "ntraj": 8, "sub": rng.randrange(1 << 30)}
    yield {"kind": "distinct-shots", "n": 40, "shots": 48}
    for m in ("strong", "analog1", "analog2"):
        yield {"kind": "noise-run", "mode": m, "sub": rng.randrange(1 << 30)}
    for _ in range(3 * n):
        yield {"kind": "noise-init", "sub": rng.randrange(1 << 30)}
        yield {"kind": "noise-sample", "sub": rng.randrange(1 << 30)}
    for _ in range(n):
        yield {"kind": "history", "sub": rng.randrange(1 << 30)}
    if tier == "thorough":
        for _ in range(6):
            yield {"kind": "distinct-rows", "parallel": True, "ntraj": 16, "sub": rng.randrange(1 << 30)}
            yield {"kind": "real-history", "mode": rng.choice(["strong", "weak", "analog"]), "sub": rng.randrange(1 << 30)}


# --------------------------------------------------------------------------------------------------------------
def run_history(inp):
    rng = random.Random(inp["sub"])
    if "runs" in inp:
        kind, num_traj, shots = inp["obj"]["kind"], int(inp["obj"].get("num_traj", 0)), int(inp["obj"].get("shots", 0))
        get_state = bool(inp["obj"].get("get_state", False))
        solver, order = inp["obj"].get("solver", "TJM"), int(inp["obj"].get("order", 1))
        runs = [(str(t), bool(p)) for t, p in inp["runs"]]
    else:
        kind = rng.choice("sswwaa")
        num_traj = rng.choice([1, 2, 3, 5, 7, 9]) if kind != "w" else 0
        shots = rng.choice([1, 1, 2, 3, 5, 8]) if kind == "w" else 0
        if kind == "w" and rng.random() < 0.04:
            shots = 0
        get_state = rng.random() < 0.12
        solver, order = ("TJM", 1)
        if kind == "a":
            solver = rng.choice(["TJM", "TJM", "MCWF", "Lindblad"])
            order = rng.choice([1, 2])
        runs = []
        for _ in range(rng.randrange(2, 6)):
            r = rng.random()
            if r < 0.25:
                tok = "N"
            elif r < 0.40:
                tok = "S:" + ",".join(["0"] * rng.randrange(0, 3))
            elif r < 0.47:
                tok = "S:0,-0.0"
            else:
                tok = "S:" + ",".join(str(rng.choice([0, 0.1, 0.25, 1.5])) for _ in range(rng.randrange(1, 3)))
                if all(float(x) == 0 for x in tok[2:].split(",")):
                    tok = "S:0.1"
            runs.append((tok, rng.random() < 0.25))
    status, blocks = in_child(history_child, (kind, num_traj, shots, get_state, solver, order, runs), timeout=120)
    if status != "ok":
        raise RuntimeError(f"history child {status}: {blocks}")
    lind = 1 if (kind == "a" and solver == "Lindblad") else 0
    noise_toks = []
    for tok, _ in runs:
        noise_toks.append("N" if tok == "N" else "S:" + ",".join(frac_tok(x) for x in tok[2:].split(",") if x != ""))
    req = f"hist new {kind} {num_traj} {shots} {int(get_state)} {lind} | " + " ".join(noise_toks)
    texts = []
    for (tok, _), rec in zip(runs, blocks):
        nf = tok == "N" or all(float(x) == 0 for x in tok[2:].split(",") if x != "")
        texts.append(block_text(kind, rec, (shots if nf else 1)))
    impl = " ; ".join(texts)
    # ---- direct oracle on what the real code did (no model involved)
    probs = []
    for r, ((tok, par), rec) in enumerate(zip(runs, blocks)):
        nf = tok == "N" or all(float(x) == 0 for x in tok[2:].split(",") if x != "")
        single_ = nf or lind == 1
        refusable = (get_state and not single_) or (kind == "w" and nf and shots == 0)
        if rec["e"] != "ok":
            if not refusable:
                probs.append(f"run {r} ({tok}): raised {rec['e']} although the call is acceptable")
            # a refused call must leave the constructor arguments on the object
            if kind == "w" and rec["sh"] != shots:
                probs.append(f"run {r} ({tok}): refused ({rec['e']}) but shots left at {rec['sh']} (constructed with {shots})")
            if kind != "w" and rec["nt"] != num_traj:
                probs.append(f"run {r} ({tok}): refused ({rec['e']}) but num_traj left at {rec['nt']} (constructed with {num_traj})")
            continue
        if refusable:
            probs.append(f"run {r} ({tok}): accepted although get_state={get_state} with a stochastic run / shots={shots}")
            continue
        if kind == "w":
            want = 1 if nf else shots
            if rec["x"] != want or rec["i"] != list(range(want)):
                probs.append(f"run {r} ({tok}, parallel={par}): executed trajectories {rec['i']}, this call asks for {want}")
            tot = sum(v for _, v in rec["c"] or [])
            if tot != shots:
                probs.append(f"run {r} ({tok}): weak counts sum to {tot}, shots = {shots}")
            if rec["sh"] != shots:
                probs.append(f"run {r}: shots left at {rec['sh']} (constructed with {shots})")
            fresh = sorted(stub_counts(r, 0, shots).items())
            if nf and [tuple(x) for x in rec["c"] or []] != fresh:
                probs.append(f"run {r}: noise-free counts {rec['c']} differ from a fresh object's {fresh}")
        else:
            single = nf or lind == 1
            want = 1 if single else num_traj
            if rec["x"] != want or rec["i"] != list(range(want)) or rec["rows"] != want:
                probs.append(f"run {r} ({tok}, parallel={par}): executed trajectories {rec['i']} / {rec['rows']} rows, this call asks for {want}")
            if rec["nt"] != num_traj:
                probs.append(f"run {r}: num_traj left at {rec['nt']} (constructed with {num_traj})")
            if not rec["uniform"]:
                probs.append(f"run {r}: result entries differ although every trajectory returned a constant array")
            mean = sum(stub_value(r, i) for i in range(want)) / want if want else None
            if mean is not None and (rec["r"] is None or abs(rec["r"] - mean) > 1e-9):
                probs.append(f"run {r}: results {rec['r']} but the mean over this run's trajectories is {mean}")
    sig = f"hist:{kind}:{solver if kind == 'a' else ''}:{''.join('f' if (t == 'N' or all(float(x) == 0 for x in t[2:].split(',') if x != '')) else 'n' for t, _ in runs)}:{get_state}:{shots == 0 and kind == 'w'}"
    shapes = {("f" if (t == "N" or all(float(x) == 0 for x in t[2:].split(",") if x != "")) else "n") for t, _ in runs}
    return {"req": req, "impl": impl, "oracle": {"ok": not probs, "detail": "; ".join(probs) or f"{len(runs)} runs consistent with their own arguments"},
            "sig": sig, "nontrivial": len(shapes) == 2, "meta": {"runs": runs, "solver": solver, "order": order},
            **({"key": inp["key"]} if "key" in inp else {})}


# --------------------------------------------------------------------------------------------------------------
# real back-ends
# --------------------------------------------------------------------------------------------------------------
def snapshot_circuit(c):
    return [(inst.operation.name, [float(p) for p in inst.operation.params], [c.find_bit(q).index for q in inst.qubits]) for inst in c.data]


def snapshot_noise(nm):
    if nm is None:
        return None
    out = []
    for p in nm.processes:
        d = {}
        for k, v in p.items():
            if isinstance(v, np.ndarray):
                d[k] = ("arr", v.shape, v.tobytes())
            elif isinstance(v, tuple):
                d[k] = ("tup", tuple(np.asarray(x).tobytes() for x in v))
            else:
                d[k] = copy.deepcopy(v)
        out.append(d)
    return out


def snapshot_tensors(ts):
    return [(t.shape, str(t.dtype), np.ascontiguousarray(t).tobytes()) for t in ts]


def small_circuit(rng, n):
    c = QuantumCircuit(n)
    for q in range(n):
        if rng.random() < 0.6:
            c.h(q)
    for q in range(n - 1):
        c.cx(q, q + 1)
        if rng.random() < 0.5:
            c.rz(round(rng.uniform(0.1, 1.0), 3), q + 1)
    for q in range(0, n - 1, 2):
        c.rxx(0.3, q, q + 1)
    return c


def untouched_child(a):
    mode, sub = a
    rng = random.Random(sub)
    warnings.simplefilter("ignore")
    os.environ["YAQS_MAX_WORKERS"] = "1"
    n = 3
    nm = NoiseModel([{"name": "lowering", "sites": [0], "strength": 0.1}, {"name": "pauli_z", "sites": [2], "strength": 0.05},
                     {"name": "crosstalk_xy", "sites": [0, 2], "strength": 0.02}, {"name": "crosstalk_zz", "sites": [1, 2], "strength": 0.02},
                     {"name": "pauli_x", "sites": [1], "strength": {"distribution": "truncated_normal", "mean": 0.05, "std": 0.01}}])
    state = MPS(n, state="basis", basis_string="".join(rng.choice("01") for _ in range(n)))
    obs = [Observable(Z(), i) for i in range(n)]
    if mode == "strong":
        op = small_circuit(rng, n)
        params = StrongSimParams(obs, num_traj=3, show_progress=False)
    elif mode == "weak":
        op = small_circuit(rng, n)
        op.measure_all()
        params = WeakSimParams(4, show_progress=False)
    else:
        op = MPO.ising(n, 1.0, 0.5)
        solver, order = [("TJM", 1), ("TJM", 2), ("MCWF", 1), ("Lindblad", 1)][int(mode[-1])]
        mode = "analog"
        params = AnalogSimParams(obs, elapsed_time=0.2, dt=0.1, num_traj=3, show_progress=False, order=order, solver=solver)
    probs = []
    for noisy in (False, True):
        before_op = snapshot_circuit(op) if mode != "analog" else snapshot_tensors(op.tensors)
        before_nm = snapshot_noise(nm)
        before_vec = state.to_vec()
        before_shapes = [t.shape for t in state.tensors]
        before_state = snapshot_tensors(state.tensors)
        simulator.run(state, op, params, nm if noisy else None, parallel=False)
        after_op = snapshot_circuit(op) if mode != "analog" else snapshot_tensors(op.tensors)
        if before_op != after_op:
            probs.append(f"{mode}: the {'circuit' if mode != 'analog' else 'Hamiltonian MPO'} passed in was modified by the run (noisy={noisy})")
        if snapshot_noise(nm) != before_nm:
            probs.append(f"{mode}: the noise model passed in was modified by the run (noisy={noisy})")
        after_vec = state.to_vec()
        # simulator.run brings the state into B-canonical form: the tensors may change gauge and global phase, the physical
        # state (ray and norm) must not
        ov = abs(np.vdot(before_vec, after_vec))
        if ([t.shape[0] for t in state.tensors] != [s_[0] for s_ in before_shapes]
                or abs(ov - 1) > 1e-10 or abs(np.linalg.norm(after_vec) - np.linalg.norm(before_vec)) > 1e-10):
            probs.append(f"{mode}: the initial state passed in describes a different state after the run (noisy={noisy}), overlap {ov:.6f}")
        if snapshot_tensors(state.tensors) != before_state:
            pass  # a gauge change by normalize('B') on an already B-normalised product state would show here; informational only
    return probs


def run_untouched(inp):
    status, probs = in_child(untouched_child, (inp["mode"], inp["sub"]))
    if status == "timeout":
        raise RuntimeError("real run timed out")
    if status == "exc":
        probs = [f"real {inp['mode']} run raised {probs}"]
    return {"req": None, "impl": None, "oracle": {"ok": not probs, "detail": "; ".join(probs) or f"{inp['mode']}: operator, noise model and initial state unchanged by a noise-free and a noisy run"},
            "sig": f"untouched:{inp['mode']}"}


def real_history_child(a):
    mode, sub, runs, num_traj, shots, order = a
    rng = random.Random(sub)
    warnings.simplefilter("ignore")
    os.environ["YAQS_MAX_WORKERS"] = "4"
    n = 3
    basis = "".join(rng.choice("01") for _ in range(n))
    nm = NoiseModel([{"name": "pauli_x", "sites": [i], "strength": 0.3} for i in range(n)])
    zero = NoiseModel([{"name": "pauli_x", "sites": [i], "strength": 0.0} for i in range(n)])
    obs = [Observable(Z(), i) for i in range(n)]

    def mk_params():
        if mode == "strong":
            # layer sampling on: the number of result columns depends on the circuit of *this* run
            return StrongSimParams([Observable(Z(), i) for i in range(n)], num_traj=num_traj, show_progress=False, sample_layers=True)
        if mode == "weak":
            return WeakSimParams(shots, show_progress=False)
        return AnalogSimParams([Observable(Z(), i) for i in range(n)], elapsed_time=0.3, dt=0.1, num_traj=num_traj, show_progress=False, order=order)

    def mk_op(nb=0):
        """nb = number of SAMPLE_OBSERVABLES barriers (strong mode): successive runs on the shared object use different circuits"""
        if mode == "analog":
            return MPO.ising(n, 1.0, 0.5)
        c = QuantumCircuit(n)
        c.x(0)                       # deterministic outcome in the computational basis (weak mode is then exact)
        if mode == "strong" and nb >= 1:
            c.barrier(label="SAMPLE_OBSERVABLES")
        c.cx(0, 1)
        if mode == "strong" and nb >= 2:
            c.barrier(label="sample_observables")
        c.rzz(0.4, 1, 2)
        if mode == "weak":
            c.measure_all()
        return c

    del obs
    shared = mk_params()
    state = MPS(n, state="basis", basis_string=basis)
    out = []
    nbs = [rng.choice([2, 1, 0]) for _ in runs]
    if len(set(nbs)) == 1:
        nbs[-1] = (nbs[-1] + 1) % 3
    for run_idx, (kind_tok, parallel) in enumerate(runs):
        noise = {"N": None, "Z": zero, "S": nm}[kind_tok]
        nf = kind_tok != "S"
        op = mk_op(nbs[run_idx])
        simulator.run(state, op, shared, noise, parallel=parallel)
        rec = {"nf": nf, "parallel": parallel}
        if mode == "weak":
            rec["counts"] = {int(k): int(v) for k, v in shared.results.items()}
            rec["shots"] = int(shared.shots)
        else:
            rec["rows"] = int(shared.sorted_observables[0].trajectories.shape[0])
            rec["nt"] = int(shared.num_traj)
            rec["res"] = [np.asarray(o.results, dtype=float).reshape(-1).tolist() for o in shared.observables]
        if nf:
            fr = mk_params()
            simulator.run(MPS(n, state="basis", basis_string=basis), mk_op(nbs[run_idx]), fr, noise, parallel=False)
            if mode == "weak":
                rec["fresh"] = {int(k): int(v) for k, v in fr.results.items()}
            else:
                rec["fresh"] = [np.asarray(o.results, dtype=float).reshape(-1).tolist() for o in fr.observables]
        out.append(rec)
    return out


def run_real_history(inp):
    rng = random.Random(inp["sub"])
    mode = inp["mode"]
    if "runs" in inp:
        runs = [(str(t), bool(p)) for t, p in inp["runs"]]
        num_traj, shots = int(inp.get("num_traj", 7)), int(inp.get("shots", 5))
    else:
        runs = [(rng.choice(["N", "Z", "S", "S"]), rng.random() < 0.3) for _ in range(rng.randrange(3, 5))]
        if all(t == "S" for t, _ in runs):
            runs[rng.randrange(len(runs))] = ("N", False)
        if all(t != "S" for t, _ in runs):
            runs[0] = ("S", False)
        num_traj, shots = rng.choice([3, 5, 7]), rng.choice([3, 5, 6])
    status, recs = in_child(real_history_child, (mode, inp["sub"], runs, num_traj, shots, int(inp.get("order", 1 + inp["sub"] % 2))), timeout=300)
    if status == "timeout":
        raise RuntimeError("real history timed out")
    probs = []
    if status == "exc":
        probs.append(f"real {mode} history {runs} raised {recs}")
        recs = []
    for r, ((tok, par), rec) in enumerate(zip(runs, recs)):
        nf = rec["nf"]
        if mode == "weak":
            tot = sum(rec["counts"].values())
            if tot != shots:
                probs.append(f"run {r} ({tok}): {tot} counts returned for shots={shots}")
            if rec["shots"] != shots:
                probs.append(f"run {r} ({tok}): shots left at {rec['shots']}")
            if nf and rec["counts"] != rec["fresh"]:
                probs.append(f"run {r} ({tok}): noise-free counts {rec['counts']} differ from a fresh object's {rec['fresh']}")
        else:
            want = 1 if nf else num_traj
            if rec["rows"] != want:
                probs.append(f"run {r} ({tok}, parallel={par}): {rec['rows']} trajectories executed, this call asks for {want}")
            if rec["nt"] != num_traj:
                probs.append(f"run {r} ({tok}): num_traj left at {rec['nt']} (constructed with {num_traj})")
            if nf:
                d = max(abs(x - y) for a_, b_ in zip(rec["res"], rec["fresh"]) for x, y in zip(a_, b_))
                if d > 1e-9 or [len(x) for x in rec["res"]] != [len(x) for x in rec["fresh"]]:
                    probs.append(f"run {r} ({tok}): noise-free results differ from a fresh object's by {d:.2e}")
    return {"req": None, "impl": None, "oracle": {"ok": not probs, "detail": "; ".join(probs) or f"real {mode} history {runs}: every run executed what it asked for"},
            "sig": f"real-history:{mode}:{''.join(t for t, _ in runs)}", "meta": {"runs": runs}}


def refused_child(a):
    """get_state=True: a noisy call is refused (AssertionError); the object must then still serve a noise-free call"""
    mode, sub = a
    warnings.simplefilter("ignore")
    os.environ["YAQS_MAX_WORKERS"] = "1"
    n = 2
    nm = NoiseModel([{"name": "pauli_x", "sites": [0], "strength": 0.1}])
    obs = [Observable(Z(), i) for i in range(n)]
    if mode == "analog":
        op = MPO.ising(n, 1.0, 0.5)
        params = AnalogSimParams(obs, elapsed_time=0.2, dt=0.1, num_traj=6, get_state=True, show_progress=False, order=1 + sub % 2)
    else:
        op = QuantumCircuit(n)
        op.x(0)
        op.cx(0, 1)
        if mode == "weak":
            op.measure_all()
            params = WeakSimParams(5, get_state=True, show_progress=False)
        else:
            params = StrongSimParams(obs, num_traj=6, get_state=True, show_progress=False)
    out = {"raised": None}
    try:
        simulator.run(MPS(n, state="zeros"), op, params, nm, parallel=False)
    except AssertionError as e:
        out["raised"] = str(e)
    out["shots_after_refusal"] = int(getattr(params, "shots", -1))
    out["nt_after_refusal"] = int(params.num_traj)
    simulator.run(MPS(n, state="zeros"), op, params, None, parallel=False)
    out["state"] = params.output_state is not None
    if mode == "weak":
        out["counts"] = {int(k): int(v) for k, v in params.results.items()}
    else:
        out["rows"] = int(params.sorted_observables[0].trajectories.shape[0])
        out["nt"] = int(params.num_traj)
    return out


def run_refused(inp):
    mode = inp["mode"]
    status, res = in_child(refused_child, (mode, inp["sub"]))
    if status == "timeout":
        raise RuntimeError("refused-run child timed out")
    probs = []
    if status == "exc":
        probs.append(f"{mode}: {res}")
    else:
        if not res["raised"]:
            probs.append(f"{mode}: a noisy run with get_state=True was not refused")
        if mode == "weak":
            if res["shots_after_refusal"] != 5:
                probs.append(f"weak: refused call left shots = {res['shots_after_refusal']} on WeakSimParams(5)")
            if sum(res["counts"].values()) != 5:
                probs.append(f"weak: noise-free run after a refused call returned {res['counts']} for shots=5")
        else:
            if res["nt_after_refusal"] != 6 or res["nt"] != 6:
                probs.append(f"{mode}: num_traj {res['nt_after_refusal']} after the refusal, {res['nt']} after the next run (constructed with 6)")
            if res["rows"] != 1:
                probs.append(f"{mode}: noise-free run after a refused call executed {res['rows']} trajectories")
        if not res["state"]:
            probs.append(f"{mode}: get_state=True but no output_state after the noise-free run")
    return {"req": None, "impl": None, "oracle": {"ok": not probs, "detail": "; ".join(probs) or f"{mode}: refused call leaves the object usable"},
            "sig": f"real-refused:{mode}", **({"key": inp["key"]} if "key" in inp else {})}


def rng_trace_child(a):
    mode, sub = a
    warnings.simplefilter("ignore")
    os.environ["YAQS_MAX_WORKERS"] = "1"
    n, ntraj = 2, 5
    calls = []
    orig = np.random.default_rng

    def spy(*args, **kw):
        f = sys._getframe(1)  # noqa: SLF001
        calls.append((f.f_code.co_name, os.path.basename(f.f_code.co_filename), len(args) + len(kw),
                      None if not args else repr(args[0])))
        return orig(*args, **kw)

    nm = NoiseModel([{"name": "pauli_x", "sites": [i], "strength": 0.2} for i in range(n)])
    obs = [Observable(Z(), i) for i in range(n)]
    state = MPS(n, state="zeros")
    if mode in ("strong", "weak"):
        op = QuantumCircuit(n)
        op.h(0)
        op.cx(0, 1)
        if mode == "weak":
            op.measure_all()
        params = StrongSimParams(obs, num_traj=ntraj, show_progress=False) if mode == "strong" else WeakSimParams(ntraj, show_progress=False)
    else:
        op = MPO.ising(n, 1.0, 0.5)
        params = AnalogSimParams(obs, elapsed_time=0.2, dt=0.1, num_traj=ntraj, show_progress=False,
                                 order=1 if mode == "analog1" else 2, solver="MCWF" if mode == "mcwf" else "TJM")
    np.random.default_rng = spy
    try:
        simulator.run(state, op, params, nm, parallel=False)
    finally:
        np.random.default_rng = orig
    return calls, ntraj


BACKEND_FN = {"strong": "digital_tjm", "weak": "digital_tjm", "analog1": "analog_tjm_1", "analog2": "analog_tjm_2", "mcwf": "mcwf"}


def run_rng_trace(inp):
    status, res = in_child(rng_trace_child, (inp["mode"], inp["sub"]))
    if status == "timeout":
        raise RuntimeError("rng trace timed out")
    probs = []
    if status == "exc":
        probs.append(f"noisy {inp['mode']} run raised {res}")
    else:
        calls, ntraj = res
        fn = BACKEND_FN[inp["mode"]]
        inside = [c for c in calls if c[0] == fn]
        if len(inside) != ntraj:
            probs.append(f"{fn} created {len(inside)} generators for {ntraj} trajectories")
        seeded = [c for c in calls if c[0] != "sample" and c[2] != 0]
        if seeded:
            probs.append(f"generator created with an explicit seed inside a run: {seeded[:3]}")
        seeded_sample = [c for c in calls if c[0] == "sample" and c[3] not in (None, "None")]
        if seeded_sample:
            probs.append(f"noise_model.sample() seeded: {seeded_sample[:2]}")
    return {"req": None, "impl": None, "oracle": {"ok": not probs, "detail": "; ".join(probs) or f"{inp['mode']}: one unseeded default_rng() per trajectory inside the back-end"},
            "sig": f"rng-trace:{inp['mode']}"}


def distinct_child(a):
    parallel, ntraj, sub = a
    warnings.simplefilter("ignore")
    os.environ["YAQS_MAX_WORKERS"] = "16" if parallel else "1"
    n = 3
    nm = NoiseModel([{"name": "pauli_x", "sites": [i], "strength": 1.5} for i in range(n)])
    obs = [Observable(Z(), i) for i in range(n)]
    params = AnalogSimParams(obs, elapsed_time=4.0, dt=0.1, num_traj=ntraj, show_progress=False, order=1 + sub % 2)
    simulator.run(MPS(n, state="basis", basis_string="100"), MPO.ising(n, 1.0, 0.5), params, nm, parallel=parallel)
    rows = [np.concatenate([np.asarray(o.trajectories[i], dtype=float) for o in obs]).round(9).tolist() for i in range(ntraj)]
    return rows


def run_distinct(inp):
    status, rows = in_child(distinct_child, (inp["parallel"], inp["ntraj"], inp["sub"]), timeout=400)
    if status == "timeout":
        raise RuntimeError("distinct-rows run timed out")
    probs = []
    if status == "exc":
        probs.append(f"noisy analog run raised {rows}")
    else:
        if len(rows) != inp["ntraj"]:
            probs.append(f"{len(rows)} rows for {inp['ntraj']} trajectories")
        seen = {}
        for i, r in enumerate(rows):
            key = tuple(r)
            if key in seen:
                probs.append(f"trajectories {seen[key]} and {i} of one {'parallel' if inp['parallel'] else 'serial'} run are identical (40 noisy steps)")
                break
            seen[key] = i
    return {"req": None, "impl": None, "oracle": {"ok": not probs, "detail": "; ".join(probs) or f"{inp['ntraj']} noisy trajectories pairwise distinct (parallel={inp['parallel']})"},
            "sig": f"distinct:{inp['parallel']}"}



# --------------------------------------------------------------------------------------------------------------
# NoiseModel.__init__ / NoiseModel.sample  vs  Model.NoiseNorm  (value tie + "caller's objects untouched" oracles)
# --------------------------------------------------------------------------------------------------------------
from mqt.yaqs.core.libraries.noise_library import NoiseLibrary  # noqa: E402
from mqt.yaqs.core.data_structures import noise_model as _nm_mod  # noqa: E402

LIB_NAMES = sorted([n for n in dir(NoiseLibrary) if not n.startswith("_")] + list(_nm_mod.PAULI_MAP))
ONE_SITE = ["lowering", "raising", "pauli_x", "pauli_y", "pauli_z", "dephasing", "x", "y", "z"]
TWO_SITE = ["crosstalk_xx", "crosstalk_xy", "crosstalk_zy", "crosstalk_yz", "longrange_crosstalk_xz", "longrange_crosstalk_yy",
            "crosstalk_ab", "crosstalk_x", "longrange_crosstalk_xyz", "lowering_two", "raising_two", "custom_pair", "nosuchprocess"]


def _rand_strength(rng):
    r = rng.random()
    if r < 0.55:
        return rng.choice([0.0, 0.1, 0.25, 1.5, 2, 1e-3])
    kind = rng.choice(["normal", "normal", "lognormal", "truncated_normal", "truncated_normal", "uniform", None])
    d = {"mean": rng.choice([0.1, -0.3, 0.0, 0.5]), "std": rng.choice([0.0, 0.05, 0.2, 1e-9])}
    if kind is not None:
        d["distribution"] = kind
    if rng.random() < 0.15:
        d.pop("std")
    return d


def _rand_proc(rng, L):
    r = rng.random()
    if r < 0.4:
        name, sites = rng.choice(ONE_SITE + ["nosuchprocess"] * (rng.random() < 0.1)), [rng.randrange(L)]
    elif r < 0.95:
        a = rng.randrange(L)
        b = rng.randrange(L)
        name, sites = rng.choice(TWO_SITE), [a, b]
    else:
        name, sites = rng.choice(ONE_SITE), [rng.randrange(L) for _ in range(rng.choice([0, 3]))]
    proc = {"name": name, "sites": sites, "strength": _rand_strength(rng)}
    if rng.random() < 0.25:
        d = 2 ** max(1, len(sites))
        proc["matrix"] = np.arange(d * d, dtype=complex).reshape(d, d) + 1j
    if rng.random() < 0.25:
        proc["factors"] = (np.array([[0, 1], [1, 0]], dtype=complex), np.array([[1, 0], [0, -1j]], dtype=complex))
    return proc


def _strength_tok(st):
    if isinstance(st, dict):
        return f"d:{st.get('distribution', '-')}:{ib.frac(st.get('mean', 0.0))}:{ib.frac(st.get('std', 0.0))}"
    return "v:" + ib.frac(float(st))


def _snap(obj):
    """deep, comparable snapshot of a process list (arrays → bytes)"""
    if isinstance(obj, dict):
        return {k: _snap(v) for k, v in obj.items()}
    if isinstance(obj, (list, tuple)):
        return [type(obj).__name__] + [_snap(v) for v in obj]
    if isinstance(obj, np.ndarray):
        return ("nd", obj.shape, str(obj.dtype), obj.tobytes())
    return obj


class _QueueGen(np.random.Generator):
    """a real Generator whose normal / lognormal return queued values (so the model sees the same variates)"""

    def __init__(self, draws):
        super().__init__(np.random.PCG64(1))
        self._draws = list(draws)

    def normal(self, loc=0.0, scale=1.0, size=None):  # noqa: ARG002
        return self._draws.pop(0)

    def lognormal(self, mean=0.0, sigma=1.0, size=None):  # noqa: ARG002
        return self._draws.pop(0)


def run_noise_init(inp):
    rng = random.Random(inp["sub"])
    L = rng.choice([2, 3, 5])
    procs = [_rand_proc(rng, L) for _ in range(rng.choice([1, 2, 3, 4, 6]))]
    before = _snap(procs)
    err, nm = None, None
    try:
        nm = NoiseModel(procs)
    except AssertionError:
        err = "err:assertion"
    except AttributeError:
        err = "err:attribute"
    probs = []
    if _snap(procs) != before:
        probs.append("NoiseModel(processes) wrote to the caller's process dicts")
    toks = [f"{p['name']};{','.join(str(x) for x in p['sites'])};{_strength_tok(p['strength'])};{int('matrix' in p)};{int('factors' in p)}"
            for p in procs]
    req = "nnorm " + ",".join(LIB_NAMES) + " | " + " ".join(toks)
    if err is not None:
        impl = err
    else:
        outs = []
        for p_in, p in zip(procs, nm.processes):
            sites = p["sites"]
            two_far = len(sites) == 2 and abs(sites[1] - sites[0]) != 1
            if two_far:
                fill = "callerFactors" if "factors" in p_in else "pauliFactors"
                if "factors" not in p:
                    probs.append(f"long-range process {p['name']}@{sites} stored without factors")
                elif "factors" in p_in and p["factors"] is not p_in["factors"]:
                    probs.append("caller's factors replaced")
            else:
                if "matrix" not in p:
                    probs.append(f"process {p['name']}@{sites} stored without matrix")
                    fill = "?"
                elif "matrix" in p_in and p["matrix"] is p_in["matrix"]:
                    fill = "callerMatrix"
                elif len(sites) == 2 and str(p["name"]).startswith("crosstalk_"):
                    a, b = str(p["name"]).rsplit("_", 1)[-1]
                    fill = "kronMatrix" if np.array_equal(p["matrix"], np.kron(_nm_mod.PAULI_MAP[a], _nm_mod.PAULI_MAP[b])) else "wrongkron"
                else:
                    fill = "libMatrix" if np.array_equal(p["matrix"], NoiseModel.get_operator(p["name"])) else "wronglib"
            if p["strength"] is not p_in["strength"] and p["strength"] != p_in["strength"]:
                probs.append(f"strength of {p['name']} changed by the constructor")
            outs.append(f"{p['name']};{','.join(str(x) for x in sites)};{fill};{int('factors' in p)}")
        impl = "ok " + " ".join(outs) if outs else "ok"
    return {"req": req, "impl": impl, "kind": "noise-init",
            "oracle": {"ok": not probs, "detail": "; ".join(probs) or "constructor leaves the caller's dicts alone and stores a usable description"},
            "sig": f"noise-init:{impl.split()[0]}:{len(procs)}:{sorted({len(p['sites']) for p in procs})}", "nontrivial": len(procs) > 1}


def run_noise_sample(inp):
    rng = random.Random(inp["sub"])
    L = 4
    procs = []
    while len(procs) < rng.choice([1, 2, 3, 5]):
        p = _rand_proc(rng, L)
        if p["name"] in ("nosuchprocess", "crosstalk_ab", "crosstalk_x", "longrange_crosstalk_xyz", "custom_pair", "lowering_two", "raising_two") \
                or len(p["sites"]) > 2 or len(p["sites"]) == 0:
            continue
        if isinstance(p["strength"], dict) and abs(p["strength"].get("std", 0.0)) in (1e-9,) and p["strength"].get("distribution") == "truncated_normal" and rng.random() < 0.5:
            p["strength"]["std"] = 0.0
        procs.append(p)
    try:
        nm = NoiseModel(procs)
    except (AssertionError, AttributeError):
        return []
    # what the generator hands back: any real for `normal`, a positive number for `lognormal`
    draws = [rng.choice([0.07, 0.3, 1.25]) if (isinstance(p["strength"], dict) and p["strength"].get("distribution") == "lognormal")
             else rng.choice([-0.2, 0.0, 0.07, 0.3, 1.25]) for p in procs]
    before = _snap(nm.processes)
    # truncated_normal with std > 1e-8 goes through scipy's truncnorm: its variate is not modelled, the model gets what came out
    gen_draws = [d for p, d in zip(procs, draws) if isinstance(p["strength"], dict) and p["strength"].get("distribution") in ("normal", "lognormal")]
    err, out = None, None
    try:
        out = nm.sample(_QueueGen(gen_draws))
    except ValueError:
        err = "err:value"
    probs = []
    if _snap(nm.processes) != before:
        probs.append("sample() wrote to the noise model it was called on")
    model_draws = []
    if out is not None:
        for p_in, p_out, d in zip(nm.processes, out.processes, draws):
            st = p_in["strength"]
            v = p_out["strength"]
            if not isinstance(v, float):
                probs.append(f"sampled strength of {p_out['name']} is {type(v).__name__}, not float")
            elif v < 0 and (isinstance(st, dict) or st >= 0):
                probs.append(f"sampled strength of {p_out['name']} is negative: {v}")
            if isinstance(st, dict) and st.get("distribution") == "truncated_normal" and abs(st.get("std", 0.0)) > 1e-8:
                model_draws.append(float(v))
            else:
                model_draws.append(d)
            for key in ("matrix", "factors"):
                if key in p_in and key in p_out and _snap(p_in[key]) != _snap(p_out[key]):
                    probs.append(f"sample() changed '{key}' of {p_out['name']}")
            if p_out["sites"] != p_in["sites"] or p_out["name"] != p_in["name"]:
                probs.append("sample() changed name/sites")
        if len(out.processes) != len(nm.processes):
            probs.append("sample() changed the number of processes")
    else:
        model_draws = draws
    edge = any(isinstance(p["strength"], dict) and 0 < abs(abs(p["strength"].get("std", 0.0)) - 1e-8) < 1e-12 for p in procs)
    req = "nsample " + " ".join(_strength_tok(p["strength"]) for p in nm.processes) + " | " + " ".join(ib.frac(d) for d in model_draws)
    impl = err if err else "ok " + " ".join(ib.frac(p["strength"]) for p in out.processes)
    return {"req": req, "impl": impl, "kind": "noise-sample", "edge": edge,
            "oracle": {"ok": not probs, "detail": "; ".join(probs) or "sample() returns concrete non-negative floats and leaves its object alone"},
            "sig": f"noise-sample:{impl.split()[0]}:{sorted({(p['strength'].get('distribution', '-') if isinstance(p['strength'], dict) else 'v') for p in procs}, key=str)}"}


def noise_run_child(a):
    """simulator.run with a noise model whose strengths are distributions: the caller's model is left alone, the sampled model is
    stored on sim_params, and every trajectory of the run sees that one sampled model (static disorder)"""
    mode, sub = a
    os.environ["YAQS_MAX_WORKERS"] = "1"
    rng = random.Random(sub)
    L = 3
    procs = [{"name": "lowering", "sites": [0], "strength": {"distribution": "lognormal", "mean": -2.0, "std": 0.3}},
             {"name": "pauli_z", "sites": [2], "strength": 0.05},
             {"name": "crosstalk_xy", "sites": [2, 0], "strength": {"distribution": "truncated_normal", "mean": 0.05, "std": 0.02}}]
    rng.shuffle(procs)
    nm = NoiseModel(procs)
    before = _snap(nm.processes)
    seen = []
    state = MPS(L, state="x+")
    if mode == "strong":
        circ = QuantumCircuit(L)
        circ.h(0); circ.cx(0, 1); circ.cx(1, 2)
        params = StrongSimParams([Observable(Z(), 1)], num_traj=4, show_progress=False)
        real = simulator.digital_tjm

        def spy(args):
            seen.append([p["strength"] for p in args[2].processes])
            return real(args)

        simulator.digital_tjm = spy
        try:
            simulator.run(state, circ, params, nm, parallel=False)
        finally:
            simulator.digital_tjm = real
    else:
        ham = MPO.ising(L, 1.0, 0.5)
        params = AnalogSimParams([Observable(Z(), 1)], elapsed_time=0.2, dt=0.1, num_traj=4, show_progress=False, order=int(mode[-1]))
        name = "analog_tjm_" + mode[-1]
        real = getattr(simulator, name)

        def spy(args):
            seen.append([p["strength"] for p in args[2].processes])
            return real(args)

        setattr(simulator, name, spy)
        try:
            simulator.run(state, ham, params, nm, parallel=False)
        finally:
            setattr(simulator, name, real)
    stored = params.noise_model
    return {"unchanged": _snap(nm.processes) == before, "seen": seen,
            "stored": [p["strength"] for p in stored.processes] if stored is not None else None,
            "names_in": [p["name"] for p in nm.processes], "names_stored": [p["name"] for p in stored.processes] if stored is not None else None,
            "fixed_in": [p["strength"] if not isinstance(p["strength"], dict) else None for p in nm.processes]}


def run_noise_run(inp):
    status, res = in_child(noise_run_child, (inp["mode"], inp["sub"]), timeout=240)
    if status == "timeout":
        raise RuntimeError("noise-run child timed out")
    probs = []
    if status == "exc":
        probs.append(f"{inp['mode']}: {res}")
    else:
        if not res["unchanged"]:
            probs.append("simulator.run wrote to the noise model it was given (distribution strengths replaced)")
        if res["stored"] is None or res["names_stored"] != res["names_in"]:
            probs.append(f"sim_params.noise_model after the run: {res['names_stored']} for {res['names_in']}")
        else:
            if not all(isinstance(v, float) and v >= 0 for v in res["stored"]):
                probs.append(f"sampled strengths {res['stored']}")
            for v, f in zip(res["stored"], res["fixed_in"]):
                if f is not None and v != f:
                    probs.append(f"numeric strength {f} became {v}")
            if len(res["seen"]) != 4:
                probs.append(f"{len(res['seen'])} trajectories ran for num_traj=4")
            if any(s != res["stored"] for s in res["seen"]):
                probs.append(f"trajectories saw strengths {res['seen']} but the run's sampled model has {res['stored']}")
    return {"req": None, "impl": None, "kind": "noise-run",
            "oracle": {"ok": not probs, "detail": "; ".join(probs) or f"{inp['mode']}: one sampled model per run, caller's model untouched"},
            "sig": f"noise-run:{inp['mode']}"}


def distinct_shots_child(a):
    """shots of one measure_shots call are drawn in pool workers: each must use its own randomness"""
    n, shots = a
    warnings.simplefilter("ignore")
    state = MPS(n, state="x+")
    counts = state.measure_shots(shots)
    return {"n": n, "shots": shots, "distinct": len(counts), "total": int(sum(counts.values())), "max": int(max(counts.values()))}


def run_distinct_shots(inp):
    status, res = in_child(distinct_shots_child, (int(inp.get("n", 40)), int(inp.get("shots", 48))), timeout=240)
    if status == "timeout":
        raise RuntimeError("distinct-shots child timed out")
    probs = []
    if status == "exc":
        probs.append(str(res))
    else:
        if res["total"] != res["shots"]:
            probs.append(f"{res['total']} shots returned for {res['shots']}")
        if res["distinct"] != res["shots"]:
            # 2^40 equally likely outcomes: a repeated outcome among 48 independent shots has probability 1e-9
            probs.append(f"{res['shots']} shots of |+>^{res['n']} (2^{res['n']} equally likely outcomes) gave only {res['distinct']} distinct "
                         f"outcomes, one of them {res['max']} times: the pool workers replay the same random stream")
    return {"req": None, "impl": None, "kind": "distinct-shots", "sig": "distinct-shots",
            "oracle": {"ok": not probs, "detail": "; ".join(probs) or f"{res['shots']} pool-drawn shots pairwise distinct"}}

def run(inp):
    res = run_inner(inp)
    if "corpus_file" in inp:
        for r in res if isinstance(res, list) else [res]:
            r["kind"] = "corpus:" + str(r.get("kind", inp["kind"]))
    return res


def run_inner(inp):
    k = inp["kind"]
    if k == "history":
        return run_history(inp)
    if k == "real-untouched":
        return run_untouched(inp)
    if k == "real-history":
        return run_real_history(inp)
    if k == "rng-trace":
        return run_rng_trace(inp)
    if k == "real-refused":
        return run_refused(inp)
    if k == "distinct-rows":
        return run_distinct(inp)
    if k == "distinct-shots":
        return run_distinct_shots(inp)
    if k == "noise-init":
        return run_noise_init(inp)
    if k == "noise-sample":
        return run_noise_sample(inp)
    if k == "noise-run":
        return run_noise_run(inp)
    raise ValueError(k)


if __name__ == "__main__":
    ib.main("C20", gen, run, driver="Params",
            rule="seeded histories of 2-5 runs (noise_model None / all-zero strengths incl. -0.0 and the empty list / noisy; serial or "
                 "fork pool) on one shared Strong/Weak/Analog parameter object (num_traj 1..9, shots 0..8, get_state, solver TJM order "
                 "1/2 / MCWF / Lindblad); distinct = distinct (class, solver, noise-free/noisy pattern, get_state, shots=0) signatures; "
                 "non-trivial = the history mixes noise-free and noisy runs",
            trusted_base=["stub back-ends stand for the trajectory functions: the policy code is exercised unchanged",
                          "OS entropy behind numpy.random.default_rng() (outside any model; checked by trace and duplicate search)"],
            assumptions=["the model's back-end is a function of (run, trajectory index, shots on the object): true for the stubs; for the "
                         "real back-ends the noise-free trajectory is deterministic (checked against a fresh object)"])
