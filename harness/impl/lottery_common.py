"""Shared helpers of harness/impl/C01.py and harness/impl/C03.py (jump lottery, local noise placement).

Everything that is reported as `impl` comes from calls of the real functions of mqt.yaqs (observed through a forced
`Generator` object and wrapped module/class attributes).  The dense numpy/scipy code in here is used for the
model-independent oracles only.
"""
from __future__ import annotations

import contextlib
import copy
import math
import warnings

import numpy as np
import scipy.linalg

import implbase as ib

warnings.simplefilter("ignore")

from mqt.yaqs.core.data_structures.networks import MPS  # noqa: E402
from mqt.yaqs.core.data_structures.noise_model import NoiseModel  # noqa: E402
from mqt.yaqs.core.data_structures.simulation_parameters import AnalogSimParams, Observable, StrongSimParams  # noqa: E402
from mqt.yaqs.core.libraries.gate_library import X, Y, Z  # noqa: E402
from mqt.yaqs.core.methods import dissipation as diss_mod  # noqa: E402
from mqt.yaqs.core.methods import stochastic_process as sp_mod  # noqa: E402

LIB1 = ["lowering", "raising", "pauli_x", "pauli_y", "pauli_z"]
LIB2 = ["raising_two", "lowering_two"]
PAULI2 = [f"crosstalk_{a}{b}" for a in "xyz" for b in "xyz"]

I2 = np.eye(2, dtype=complex)

# largest deviations seen by the oracles on this run (evidence: tolerances are >= 100x these on the clean tree)
DEV = {"align(tol 1e-7)": 0.0, "dp(tol 1e-9)": 0.0, "branch-overlap(tol 1e-7)": 0.0, "mass(tol 1e-9)": 0.0,
       "abs-bound-fraction(tol 1)": 0.0, "min-final-ratio": 99.0, "escalations": 0}


def dev(key, val, op=max):
    DEV[key] = op(DEV[key], float(val))


def margins():
    return {"name": "oracle margins on this run (informational)", "ok": True, "detail": dict(DEV)}


# ----------------------------------------------------------------------------------------------- generators
def random_process_dicts(rng, L, m=None, *, kinds=("1", "1", "adj", "adjp", "lr"), zero_p=0.1, dup_p=0.1,
                         gmin=0.02, gmax=1.0, twin_p=0.12):
    """random user-style process list: whole noise library, random order, unequal strengths, random site orientation"""
    if m is None:
        m = rng.choice([1, 2, 2, 3, 3, 4, 5, 6])
    out = []
    for _ in range(m):
        if out and rng.random() < dup_p:
            out.append(dict(rng.choice(out)))
            continue
        kind = rng.choice(kinds)
        if kind == "lr" and L < 3:
            kind = "adjp"
        if kind in ("adj", "adjp") and L < 2:
            kind = "1"
        g = 0.0 if rng.random() < zero_p else rng.uniform(gmin, gmax)
        if kind == "1":
            out.append({"name": rng.choice(LIB1), "sites": [rng.randrange(L)], "strength": g})
        elif kind == "adj":
            s = rng.randrange(L - 1)
            out.append({"name": rng.choice(LIB2), "sites": rng.choice([[s, s + 1], [s + 1, s]]), "strength": g})
        elif kind == "adjp":
            s = rng.randrange(L - 1)
            out.append({"name": rng.choice(PAULI2), "sites": rng.choice([[s, s + 1], [s + 1, s]]), "strength": g})
        else:
            a = rng.randrange(L - 2)
            b = rng.randrange(a + 2, L)
            out.append({"name": rng.choice(PAULI2), "sites": rng.choice([[a, b], [b, a]]), "strength": g})
    if rng.random() < twin_p:
        # two processes that share their label AND their strength but carry different explicit matrices (anything keyed by
        # (name, strength) instead of by the operator itself confuses them); non-Pauli, so the dissipator is not a scalar
        g = rng.uniform(max(gmin, 0.05), gmax)
        low = np.array([[0, 1], [0, 0]], dtype=complex)
        had = np.array([[1, 1], [1, -1]], dtype=complex) / np.sqrt(2)
        mats = [low, low.T.copy(), had @ low @ had, np.array([[1, 0], [0, 0]], dtype=complex)]
        a, b = rng.sample(range(len(mats)), 2)
        sa, sb = (rng.sample(range(L), 2) if L >= 2 else (0, 0))
        out.append({"name": "jump", "sites": [sa], "strength": g, "matrix": mats[a]})
        out.append({"name": "jump", "sites": [sb], "strength": g, "matrix": mats[b]})
    rng.shuffle(out)
    return out


def random_mps(rng, L, kind=None):
    """2-4 site MPS in the form the simulator maintains (right-canonical 'B' form, centre at site 0, norm 1)"""
    if kind is None:
        kind = rng.choice(["product", "entangled", "entangled", "basis", "mixed"])
    nprng = np.random.default_rng(rng.randrange(1 << 30))
    if kind == "basis":
        bits = "".join(rng.choice("01") for _ in range(L))
        return MPS(L, state="basis", basis_string=bits), f"basis:{bits}"
    if kind == "product":
        tens = []
        for _ in range(L):
            v = nprng.normal(size=2) + 1j * nprng.normal(size=2)
            tens.append((v / np.linalg.norm(v)).reshape(2, 1, 1))
        st = MPS(L, tensors=tens)
    elif kind == "mixed":
        tens = []
        for _ in range(L):
            c = rng.choice(["0", "1", "r", "r"])
            if c == "0":
                v = np.array([1, 0], dtype=complex)
            elif c == "1":
                v = np.array([0, 1], dtype=complex)
            else:
                v = nprng.normal(size=2) + 1j * nprng.normal(size=2)
                v = v / np.linalg.norm(v)
            tens.append(v.reshape(2, 1, 1))
        st = MPS(L, tensors=tens)
    else:
        chi = rng.choice([2, 2, 3, 4])
        dims = [1] + [min(chi, 2 ** min(i, L - i)) for i in range(1, L)] + [1]
        tens = [nprng.normal(size=(2, dims[i], dims[i + 1])) + 1j * nprng.normal(size=(2, dims[i], dims[i + 1]))
                for i in range(L)]
        st = MPS(L, tensors=tens)
    st.normalize("B")
    return st, kind


def analog_params(L, dt, *, order=1, sample=True, get_state=False, elapsed=None, obs=None):
    if obs is None:
        obs = [Observable(Z(), i) for i in range(L)] + [Observable(X(), i) for i in range(L)]
    return AnalogSimParams(obs, elapsed_time=dt if elapsed is None else elapsed, dt=dt, threshold=0.0, order=order,
                           sample_timesteps=sample, get_state=get_state, show_progress=False, max_bond_dim=4096)


def strong_params(L, obs=None, get_state=True):
    if obs is None:
        obs = [Observable(Z(), i) for i in range(L)] + [Observable(X(), i) for i in range(L)]
    return StrongSimParams(obs, num_traj=1, max_bond_dim=4096, threshold=0.0, get_state=get_state, show_progress=False)


# ----------------------------------------------------------------------------------------------- wire format
def to_be(vec, L):
    """`MPS.to_vec()` puts site 0 least significant; the model (and the embedded operators) put site 0 leftmost"""
    return np.asarray(vec).reshape([2] * L).transpose(*reversed(range(L))).reshape(-1)


def cvec_req(v):
    return " ".join(ib.cfrac(z) for z in np.asarray(v).reshape(-1))


def proc_req(proc):
    """`<pauli> <gamma> <nsites> <sites…> m|f <entries…>` — payload and `is_pauli` are what the real process dict holds"""
    sites = list(proc["sites"])
    head = f"{1 if diss_mod.is_pauli(proc) else 0} {ib.frac(float(proc['strength']))} {len(sites)} " + " ".join(str(int(s)) for s in sites)
    if "matrix" in proc:
        return head + " m " + cvec_req(np.asarray(proc["matrix"], dtype=complex))
    fa, fb = proc["factors"]
    return head + " f " + cvec_req(np.asarray(fa, dtype=complex)) + " " + cvec_req(np.asarray(fb, dtype=complex))


def procs_req(processes):
    return " ; ".join(proc_req(p) for p in processes)


def sig(proc):
    return ",".join(str(int(s)) for s in proc["sites"]) + "@" + ib.frac(float(proc["strength"]))


def sigs(processes):
    return "+".join(sig(p) for p in processes) if processes else "-"


def fmts(xs):
    return " ".join(ib.fmt(x) for x in xs)


def cfmts(zs):
    return " ".join(f"{ib.fmt(complex(z).real)} {ib.fmt(complex(z).imag)}" for z in np.asarray(zs).reshape(-1))


# ----------------------------------------------------------------------------------------------- dense reference
def embed_be(proc, L):
    """dense operator of a process, site 0 leftmost (independent of mqt.yaqs.analog.utils)"""
    sites = list(proc["sites"])
    if len(sites) == 1:
        ops = [I2] * L
        ops[sites[0]] = np.asarray(proc["matrix"], dtype=complex)
    elif "matrix" in proc and abs(sites[1] - sites[0]) == 1:
        s = min(sites)
        return np.kron(np.kron(np.eye(2 ** s), np.asarray(proc["matrix"], dtype=complex)), np.eye(2 ** (L - s - 2)))
    else:
        ops = [I2] * L
        ops[sites[0]] = np.asarray(proc["factors"][0], dtype=complex)
        ops[sites[1]] = np.asarray(proc["factors"][1], dtype=complex)
    out = np.array([[1.0 + 0j]])
    for o in ops:
        out = np.kron(out, o)
    return out


def embed_site_op(op, site, L):
    ops = [I2] * L
    ops[site] = np.asarray(op, dtype=complex)
    out = np.array([[1.0 + 0j]])
    for o in ops:
        out = np.kron(out, o)
    return out


def lindbladian(h, ops_gammas, dim):
    """row-major vectorised generator: d/dt vec(rho) = Lv vec(rho)"""
    eye = np.eye(dim)
    lv = -1j * (np.kron(h, eye) - np.kron(eye, h.T))
    for op, g in ops_gammas:
        ldl = op.conj().T @ op
        lv = lv + g * (np.kron(op, op.conj()) - 0.5 * np.kron(ldl, eye) - 0.5 * np.kron(eye, ldl.T))
    return lv


def lindblad_evolve(rho, h, ops_gammas, t):
    dim = rho.shape[0]
    lv = lindbladian(h, ops_gammas, dim)
    return (scipy.linalg.expm(t * lv) @ rho.reshape(-1)).reshape(dim, dim)


def order_check(err_fn, h, floor, what):
    """Richardson test of `error = O(h^2)` at fixed step count, robust against pre-asymptotic sign changes of the error:
    pass as soon as one halving shrinks the error by >= 3; only a *persistent* sub-quadratic ratio (three halvings,
    all < 2.6; a first-order error gives 2) is reported.  Returns (problems, errs, ratios)."""
    errs = [err_fn(h), err_fn(h / 2)]
    ratios = []
    if not all(np.isfinite(errs)):
        return [f"{what}: non-finite error {errs}"], errs, ratios
    if errs[0] <= floor:
        return [], errs, ratios
    for j in range(3):
        ratios.append(errs[-2] / errs[-1] if errs[-1] > 0 else float("inf"))
        if ratios[-1] >= (3.0 if j < 2 else 2.6) or errs[-1] <= floor / 4:
            dev("min-final-ratio", ratios[-1], min)
            return [], errs, ratios
        DEV["escalations"] += 1
        if j < 2:
            errs.append(err_fn(h / 2 ** (j + 2)))
    return [f"{what}: error does not shrink quadratically — errors {['%.3e' % e for e in errs]} at h, h/2, h/4, h/8, "
            f"ratios {['%.2f' % r for r in ratios]} (a first-order error gives 2, quadratic 4)"], errs, ratios


def in_domain(proc, L):
    """process kinds the property speaks about: one site, adjacent pair, Pauli pair at any distance"""
    s = list(proc["sites"])
    if any(x < 0 or x >= L for x in s):
        return False
    if len(s) == 1:
        return "matrix" in proc
    if abs(s[1] - s[0]) == 1:
        return "matrix" in proc
    return diss_mod.is_pauli(proc) and "factors" in proc


def schmidt_edge(vec_be, L, lo=1e-10, hi=3e-6):
    """True if some Schmidt value of the state lies where the simulator's fixed 1e-12 SVD cut (centre shifts) bites"""
    v = np.asarray(vec_be)
    nv = np.linalg.norm(v)
    if nv == 0:
        return True
    for c in range(1, L):
        s = np.linalg.svd(v.reshape(2 ** c, -1), compute_uv=False) / nv
        if np.any((s > lo) & (s < hi)):
            return True
    return False


# ----------------------------------------------------------------------------------------------- forced generator
class SpyFloat(float):
    """value returned by the forced `Generator.random()`: the comparison the code makes is recorded and answered"""

    def __new__(cls, value, owner=None, jump=None):
        obj = float.__new__(cls, value)
        obj.owner = owner
        obj.jump = jump
        return obj

    def _rec(self, kind, other):
        o = float(np.asarray(other))
        if self.owner is not None:
            self.owner.seen.append((kind, o))
        return o

    def __ge__(self, other):  # TJM: `rng.random() >= dp` -> no jump
        o = self._rec("ge", other)
        if self.jump is None:
            return float(self) >= o
        return not self.jump

    def __lt__(self, other):  # MCWF: `r < p_jump` -> jump
        o = self._rec("lt", other)
        if self.jump is None:
            return float(self) < o
        return bool(self.jump)

    def __gt__(self, other):  # not used by the code today; answered consistently so that a changed comparison is observed, not crashed on
        o = self._rec("gt", other)
        if self.jump is None:
            return float(self) > o
        return not self.jump

    def __le__(self, other):
        o = self._rec("le", other)
        if self.jump is None:
            return float(self) <= o
        return bool(self.jump)


class ForcedRng:
    """object passed as `rng`: `random()` returns a fixed value (comparison decided by the value), `choice` returns `k`"""

    def __init__(self, r, k=None):
        self.r, self.k = r, k
        self.seen, self.choices = [], []

    def random(self):
        return SpyFloat(self.r, self, None)

    def choice(self, n, p=None):
        self.choices.append((int(n), [float(x) for x in p]))
        return int(self.k)


class RealCodeError(Exception):
    """the real code raised on an input of the property's domain (reported through the oracle, not as a harness crash)"""

    def __init__(self, script, exc):
        super().__init__(f"real code raised {type(exc).__name__}: {exc} on outcome path {script}")
        self.script = script


class ProbeDone(Exception):
    """raised by a probing ScriptRng from `choice()` once the probability vector has been recorded"""


class ScriptRng:
    """decision script: entry -1 = no jump, k >= 0 = jump and choose index k; beyond the script: no jump.
    With `probe=True` the last scripted jump stops the run (ProbeDone) as soon as `choice(p=…)` has been called."""

    def __init__(self, script, probe=False):
        self.script = list(script)
        self.probe = probe
        self.pos = 0
        self.seen = []
        self.points = []  # one dict per lottery: {"dp":…, "p":… or None}
        self.cur = None

    def random(self):
        d = self.script[self.pos] if self.pos < len(self.script) else -1
        self.cur = {"dp": None, "p": None, "n": None, "want": d, "idx": self.pos}
        self.points.append(self.cur)
        self.pos += 1
        return SpyFloat(0.5, self, d >= 0)

    def choice(self, n, p=None):
        self.cur["p"] = [float(x) for x in p]
        self.cur["n"] = int(n)
        if self.probe and self.cur["idx"] == len(self.script) - 1:
            raise ProbeDone
        return int(self.cur["want"])

    def finish(self):
        # attach the recorded comparison values to the decision points (one comparison per random())
        for pt, (_, val) in zip(self.points, self.seen):
            pt["dp"] = val


@contextlib.contextmanager
def patched_default_rng(factory):
    orig = np.random.default_rng
    np.random.default_rng = lambda *a, **k: factory()
    try:
        yield
    finally:
        np.random.default_rng = orig


@contextlib.contextmanager
def normalize_spy(rec):
    """record the squared norm of the state at every `MPS.normalize` call (= branch state before normalisation)"""
    orig = MPS.normalize

    def spy(self, form="B", decomposition="QR"):
        rec.append((decomposition, float(np.linalg.norm(self.to_vec()) ** 2)))
        return orig(self, form, decomposition)

    MPS.normalize = spy
    try:
        yield
    finally:
        MPS.normalize = orig


def clamp01(x):
    return min(1.0, max(0.0, float(x)))


def enumerate_tree(run, max_leaves=4000, eps=1e-13):
    """exhaustive outcome tree of a real-code run.

    `run(rng)` executes the real code with the given ScriptRng (as `rng=` argument or through a patched
    `numpy.random.default_rng`) and returns its result.
    Returns (leaves, runs, first) with leaves = [(probability, result, script)]; the probabilities are the ones the
    code itself used (`dp` compared with `random()`, `p` handed to `choice`); `first` = first decision point seen."""
    leaves = []
    stats = {"runs": 0, "first": None}

    def rec(prefix, prob):
        rng = ScriptRng(prefix)
        try:
            res = run(rng)
        except RealCodeError:
            raise
        except Exception as e:  # noqa: BLE001
            raise RealCodeError(list(prefix), e) from e
        if not np.all(np.isfinite(np.asarray(res, dtype=complex))):
            raise RealCodeError(list(prefix), ValueError("non-finite result"))
        stats["runs"] += 1
        rng.finish()
        i = len(prefix)
        if len(rng.points) <= i:
            leaves.append((prob, res, list(prefix)))
            return
        if len(leaves) > max_leaves:
            raise RuntimeError("tree too large")
        dp = rng.points[i]["dp"]
        pj = clamp01(dp)
        p = None
        if pj * prob > eps:
            rng2 = ScriptRng(list(prefix) + [0], probe=True)
            try:
                run(rng2)
            except ProbeDone:
                pass
            except Exception as e:  # noqa: BLE001
                raise RealCodeError(list(prefix) + [0], e) from e
            stats["runs"] += 1
            rng2.finish()
            p = rng2.points[i]["p"]
            if stats["first"] is None:
                stats["first"] = {"dp": dp, "p": p}
        if (1 - pj) * prob > eps:
            rec(prefix + [-1], prob * (1 - pj))
        if pj * prob > eps:
            if p is None:  # jump drawn but no process chosen (empty model / MCWF skip): the code carries on without a jump
                rec(prefix + [0], prob * pj)
                return
            for k, pk in enumerate(p):
                if pk * pj * prob > eps:
                    rec(prefix + [k], prob * pj * pk)

    rec([], 1.0)
    return leaves, stats["runs"], stats["first"]


# ----------------------------------------------------------------------------------------------- one lottery, all branches
def lottery_case(state, nm, dt, spar, L, *, kind, tag, branch_edge=True):
    """value tie (a) + whole-step tie (b) for one call site of the jump lottery.

    `state`: MPS as `stochastic_process` receives it (B form, centre 0, squared norm n <= 1).
    Returns the list of case dicts."""
    cases = []
    procs = nm.processes
    m = len(procs)
    psi = to_be(state.to_vec(), L)
    n_ref = float(np.vdot(psi, psi).real)
    preq = procs_req(procs)
    sreq = cvec_req(psi)
    dom = all(in_domain(p, L) for p in procs)

    # ---- real calculate_stochastic_factor / create_probability_distribution
    dp = float(sp_mod.calculate_stochastic_factor(copy.deepcopy(state)))
    try:
        pv = sp_mod.create_probability_distribution(copy.deepcopy(state), nm, dt, spar)
        pv = [float(x) for x in pv]
        impl = f"jp {ib.fmt(dp)} pv {fmts(pv)}"
    except ZeroDivisionError:
        pv = None
        impl = f"jp {ib.fmt(dp)} err"
    except Exception as e:  # noqa: BLE001
        return [{"req": None, "impl": None, "kind": kind + ":lot", "sig": f"lot:raise:{tag}", "edge": False, "nontrivial": True,
                 "oracle": {"ok": not dom, "detail": f"create_probability_distribution raised {type(e).__name__}: {e}"}}]
    # dense reference weights
    ref_w = []
    for p in procs:
        if in_domain(p, L):
            lp = embed_be(p, L) @ psi
            ref_w.append(dt * float(p["strength"]) * float(np.vdot(lp, lp).real))
        else:
            ref_w.append(None)
    oracle = None
    if pv is not None and dom:
        probs = []
        wsum = sum(ref_w)
        if len(pv) != m:
            probs.append(f"probability vector has {len(pv)} entries for {m} processes")
        else:
            if abs(sum(pv) - 1) > 1e-9:
                probs.append(f"probabilities sum to {sum(pv)!r}")
            if any(x < -1e-15 for x in pv):
                probs.append("negative probability")
            for k in range(m):
                want = ref_w[k] / wsum if wsum > 0 else 0.0
                dev("align(tol 1e-7)", abs(pv[k] - want))
                if abs(pv[k] - want) > 1e-7:
                    probs.append(f"entry {k} ({procs[k]['name']}@{procs[k]['sites']} g={procs[k]['strength']}) is "
                                 f"{pv[k]:.9g}, weight of that process / total is {want:.9g}")
                if ref_w[k] <= 1e-26 * max(wsum, 1e-300) and pv[k] > 1e-12:
                    probs.append(f"entry {k}: process has zero weight (L psi = 0 or strength 0) but probability {pv[k]:.3g}")
        dev("dp(tol 1e-9)", abs(dp - (1 - n_ref)))
        if abs(dp - (1 - n_ref)) > 1e-9:
            probs.append(f"jump probability {dp!r} != 1 - <psi|psi> = {1 - n_ref!r}")
        oracle = {"ok": not probs, "detail": "; ".join(probs[:4]) or f"aligned, m={m}, sum={sum(pv):.15g}"}
    nz = 0 if pv is None else sum(1 for x in pv if x > 0)
    cases.append({"req": f"lot {L} {ib.frac(dt)} | {preq} | {sreq}", "impl": impl, "oracle": oracle,
                  "kind": kind + ":lot", "sig": f"lot:{tag}:{L}:{m}:{nz}:{pv is None}", "nontrivial": m >= 2 and pv is not None,
                  "edge": False, "meta": {"pv": pv, "procs": [(p["name"], list(p["sites"]), float(p["strength"])) for p in procs]}})
    if pv is None or len(pv) != m:
        return cases

    # ---- real stochastic_process, every branch forced
    branches = []  # (label, prob, vec_be)
    probs_seen = None
    rec = []
    rng0 = ForcedRng(2.0)  # r >= dp always: no jump
    out0 = sp_mod.stochastic_process(copy.deepcopy(state), nm, dt, spar, rng=rng0)
    dp_seen = rng0.seen[0][1] if rng0.seen else None
    v0 = to_be(out0.to_vec(), L)
    branches.append(("nojump", 1 - clamp01(dp_seen), v0))
    problems = []
    if rng0.choices:
        problems.append("choice() called on the no-jump branch")
    if dp_seen is None or dp_seen != dp:
        problems.append(f"threshold compared with random() is {dp_seen!r}, calculate_stochastic_factor gives {dp!r}")
    if n_ref > 1e-12:
        want = psi / math.sqrt(n_ref)
        if abs(abs(np.vdot(want, v0)) - 1) > 1e-7 or abs(np.linalg.norm(v0) - 1) > 1e-7:
            problems.append("no-jump branch is not the normalised input state")
    edge_avg = schmidt_edge(psi, L)
    for k in range(m):
        if not (pv[k] > 0):
            continue
        rngk = ForcedRng(-1.0, k)  # r < dp whenever dp > -1
        rec = []
        raised = None
        with normalize_spy(rec):
            try:
                outk = sp_mod.stochastic_process(copy.deepcopy(state), nm, dt, spar, rng=rngk)
                if not np.all(np.isfinite(outk.to_vec())):
                    raise FloatingPointError("non-finite state after the jump")
            except ValueError as e:
                raised = str(e)
                if in_domain(procs[k], L):
                    problems.append(f"jump {k} ({procs[k]['name']}@{procs[k]['sites']}) raised ValueError: {e}")
                    continue
            except Exception as e:  # noqa: BLE001
                problems.append(f"jump {k} ({procs[k]['name']}@{procs[k]['sites']}, probability {pv[k]:.3g}) raised {type(e).__name__}: {e}")
                continue
        if raised is not None:
            cases.append({"req": f"bn {L} {k} | {preq} | {sreq}", "impl": "raise", "oracle": None, "kind": kind + ":bn",
                          "sig": f"bn:raise:{tag}", "nontrivial": True, "edge": False})
            continue
        if not rngk.choices:
            problems.append(f"forced jump {k}: choice() not called (dp={dp!r})")
            continue
        nk, pk = rngk.choices[0]
        if probs_seen is None:
            probs_seen = pk
        if nk != m or pk != pv:
            problems.append(f"choice(n={nk}, p=…) differs from create_probability_distribution's return value")
        svd_norms = [x for d, x in rec if d == "SVD"]
        bn = svd_norms[-1] if svd_norms else float("nan")
        vk = to_be(outk.to_vec(), L)
        branches.append((f"jump{k}", clamp01(dp_seen) * pk[k], vk))
        edge_k = False
        if in_domain(procs[k], L):
            lp = embed_be(procs[k], L) @ psi
            nl = float(np.vdot(lp, lp).real)
            edge_k = schmidt_edge(lp, L)
            edge_avg = edge_avg or edge_k
            if nl > 1e-20 and not edge_k:
                dev("branch-overlap(tol 1e-7)", max(abs(abs(np.vdot(lp / math.sqrt(nl), vk)) - 1), abs(np.linalg.norm(vk) - 1)))
                if abs(abs(np.vdot(lp / math.sqrt(nl), vk)) - 1) > 1e-7 or abs(np.linalg.norm(vk) - 1) > 1e-7:
                    problems.append(f"jump {k} ({procs[k]['name']}@{procs[k]['sites']}): branch state is not L_k psi / |L_k psi|")
        cases.append({"req": f"bn {L} {k} | {preq} | {sreq}", "impl": ib.fmt(bn), "oracle": None, "kind": kind + ":bn",
                      "sig": f"bn:{tag}:{L}:{procs[k]['name']}:{len(procs[k]['sites'])}", "nontrivial": True,
                      "edge": bool(edge_k and branch_edge)})
    # ---- whole-step branch average, weighted with the probabilities the code used
    dim = 2 ** L
    rho = np.zeros((dim, dim), dtype=complex)
    for _, pr, v in branches:
        rho += pr * np.outer(v, v.conj())
    total = sum(pr for _, pr, _ in branches)
    dev("mass(tol 1e-9)", abs(total - 1))
    if abs(total - 1) > 1e-9:
        problems.append(f"branch probabilities used by the code sum to {total!r}")
    cases.append({"req": f"avg {L} {ib.frac(dt)} | {preq} | {sreq}", "impl": cfmts(rho),
                  "oracle": {"ok": not problems, "detail": "; ".join(problems[:4]) or f"{len(branches)} branches, mass {total:.15g}"} if dom else None,
                  "kind": kind + ":avg", "sig": f"avg:{tag}:{L}:{m}:{len(branches)}", "nontrivial": len(branches) >= 2,
                  "edge": bool(edge_avg)})
    # ---- the comparison itself: r == dp is "no jump", the float just below is "jump"
    if dp_seen is not None and 1e-9 < dp_seen < 1:
        for r in (dp_seen, float(np.nextafter(dp_seen, 0.0))):
            g = ForcedRng(r, next(k for k in range(m) if pv[k] > 0))
            try:
                sp_mod.stochastic_process(copy.deepcopy(state), nm, dt, spar, rng=g)
                got = "jump" if g.choices else "nojump"
            except Exception:  # noqa: BLE001  (what the chosen jump then does is the business of the `bn`/`avg` cases)
                got = "jump" if g.choices else "raise"
            cases.append({"req": f"branch {ib.frac(r)} {ib.frac(dp_seen)}", "impl": got, "oracle": None,
                          "kind": kind + ":branch", "sig": f"branch:{got}", "nontrivial": True, "edge": False})
    return cases
