"""C11 — implementation side: expectation values / diagnostics equal dense definitions and reach the right object.

value tie  : `sorted_observables` of real AnalogSimParams / StrongSimParams (object identities) vs `sortedObservables`.
trace tie  : the real `MPS.evaluate_observables` with `shift_orthogonality_center_right`, `expect`, `get_entropy`,
             `get_schmidt_spectrum`, `get_cost`, `get_max_bond`, `get_total_bond`, `project_onto_bitstring` observed and
             a recording `results` object: sequence of centre shifts and of (row, object, real centre) writes vs
             `evaluateObservables`; also with a hand-made (unsorted) `sorted_observables` list (`walkraw`).
             The real `simulator.run` (strong and analog) with the backend replaced by a sentinel backend
             (`row k of trajectory j = 1000 j + k`): which object's `trajectories` / `results` received which row vs
             `stitchAll` / `aggregate`.
oracle     : dense state vector (`to_vec`, site k = bit k): every one-site / adjacent two-site expectation (library
             gates and random Hermitian, i.e. complex "Y-type", matrices), overlap, norm, bitstring probability, bond
             entropy, Schmidt spectrum, and the diagnostics — each observable *object* must hold its own value under
             every permutation of the list, through `evaluate_observables` and through real `simulator.run`s
             (strong: vs qiskit `Statevector`; analog: column 0 vs the initial state).
extension  : kinds `schmidt-cut` / `run-entropy` (section "extension: Schmidt data of a cut" below): the matrix the real
             `get_entropy` / `get_schmidt_spectrum` hand to `np.linalg.svd`, the number / array they return and the canonical
             form they are called in, vs `Model/Schmidt.lean` (requests `theta`, `entropy`, `schpad` of driver Attribution) and
             the hypotheses of `cut_factorisation` / `schmidt_from_centre` / `schmidt_values` (spec ties); dense-SVD oracle on
             every cut of random / tiny-Schmidt-value / GHZ-like / zero-padded / unnormalised states, qubits and qutrits.
"""
from __future__ import annotations

import copy
import multiprocessing as mp
import random
import types
import warnings

import numpy as np

import implbase as ib
from mqt.yaqs.core.data_structures.networks import MPS
from mqt.yaqs.core.data_structures.simulation_parameters import AnalogSimParams, Observable, StrongSimParams
from mqt.yaqs.core.libraries import gate_library as gl

warnings.simplefilter("ignore")
np.seterr(all="ignore")

TOL = 1e-8
ONE = ["x", "y", "z", "h", "p0", "p1", "id", "herm"]
TWO = ["xx", "yy", "zz", "cx", "cz", "swap", "herm"]
KTOK = {"l1": "l1", "l2": "l2", "ent": "ent", "sch": "sch", "cost": "cost", "maxb": "maxb", "totb": "totb", "pvm": "pvm"}


# ------------------------------------------------------------------------------------------------ helpers
def rand_state(nprng, L, cap=4, real=False):
    dims = [1] + [min(cap, 2 ** min(k, L - k)) for k in range(1, L)] + [1]
    if L >= 3 and nprng.random() < 0.25:
        # a hand-made MPS with over-complete bonds (larger than the Schmidt rank allows): legal, normalize("B") keeps the left ones,
        # and the diagnostics (max_bond, total_bond, runtime_cost) are those of the state as given
        dims = [1] + [max(cap, 3)] * (L - 1) + [1]
    ts = []
    for i in range(L):
        t = nprng.normal(size=(2, dims[i], dims[i + 1]))
        ts.append(t.astype(complex) if real else t + 1j * nprng.normal(size=(2, dims[i], dims[i + 1])))
    m = MPS(L, tensors=ts, physical_dimensions=[2] * L)
    m.normalize("B")
    return m


def herm(seed, n):
    g = np.random.default_rng(seed)
    a = g.normal(size=(n, n)) + 1j * g.normal(size=(n, n))
    return (a + a.conj().T) / 2


def gate_of(spec):
    k, g = spec["k"], spec.get("gate")
    if k == "l1":
        if g == "herm":
            return gl.BaseGate(herm(spec["hs"], 2))
        return {"x": gl.X, "y": gl.Y, "z": gl.Z, "h": gl.H, "p0": gl.P0, "p1": gl.P1, "id": gl.Id}[g]()
    if k == "l2":
        if g == "herm":
            return gl.BaseGate(herm(spec["hs"], 4))
        return {"xx": gl.XX, "yy": gl.YY, "zz": gl.ZZ, "cx": gl.CX, "cz": gl.CZ, "swap": gl.SWAP}[g]()
    if k == "ent":
        return gl.GateLibrary.entropy()
    if k == "sch":
        return gl.GateLibrary.schmidt_spectrum()
    if k == "cost":
        return gl.GateLibrary.runtime_cost()
    if k == "maxb":
        return gl.GateLibrary.max_bond()
    if k == "totb":
        return gl.GateLibrary.total_bond()
    if k == "pvm":
        return gl.GateLibrary.pvm(spec["bits"])
    raise ValueError(k)


def make_obs(spec):
    k = spec["k"]
    g = gate_of(spec)
    if k == "l1":
        return Observable(g, spec["site"] if spec.get("as_int", True) else [spec["site"]])
    if k in ("l2", "ent", "sch"):
        return Observable(g, [spec["site"], spec["site"] + 1])
    if k == "pvm":
        return Observable(g)
    return Observable(g, 0)


def tok(spec):
    return f"{KTOK[spec['k']]}:{spec.get('site', 0)}"


def site_tensor(v, L):
    """axis k <-> site k"""
    return v.reshape([2] * L).transpose(list(range(L - 1, -1, -1)))


def dense_value(spec, v, L, mps=None):
    psi = site_tensor(v, L)
    k = spec["k"]
    if k == "l1":
        o = np.asarray(gate_of(spec).matrix, dtype=complex)
        i = spec["site"]
        op = np.moveaxis(np.tensordot(o, psi, axes=(1, i)), 0, i)
        return float(np.vdot(psi, op).real)
    if k == "l2":
        o = np.asarray(gate_of(spec).matrix, dtype=complex).reshape(2, 2, 2, 2)  # [si', sj', si, sj], site i most significant
        i = spec["site"]
        op = np.tensordot(o, psi, axes=([2, 3], [i, i + 1]))
        op = np.moveaxis(op, [0, 1], [i, i + 1])
        return float(np.vdot(psi, op).real)
    if k in ("ent", "sch"):
        i = spec["site"]
        s = np.linalg.svd(psi.reshape(2 ** (i + 1), -1), compute_uv=False)
        if k == "sch":
            return s
        p = s**2
        p = p[p > 1e-300] / np.sum(p)
        return float(-np.sum(p * np.log(p)))
    if k == "pvm":
        idx = sum(int(c) << n for n, c in enumerate(spec["bits"]))
        return float(abs(v[idx]) ** 2)
    if k == "cost":
        return float(sum(t.shape[1] ** 3 for t in mps.tensors[1:]))
    if k == "maxb":
        return float(max(max(t.shape[0], t.shape[2]) for t in mps.tensors))
    if k == "totb":
        return float(sum(t.shape[1] for t in mps.tensors[1:]))
    raise ValueError(k)


def value_matches(spec, got, want):
    """returns (ok, deviation)"""
    if spec["k"] == "sch":
        got = np.asarray(got, dtype=float).ravel()
        if got.shape != (500,):
            return False, float("inf")
        n = int(np.sum(~np.isnan(got)))
        if not np.all(np.isnan(got[n:])):
            return False, float("inf")
        w = np.zeros(max(n, len(want)))
        w[: len(want)] = want
        g = np.zeros_like(w)
        g[:n] = got[:n]
        d = float(np.max(np.abs(w - g)))
        return d <= TOL, d
    try:
        d = abs(complex(np.asarray(got).ravel()[0]) - want)
    except (TypeError, ValueError, IndexError):
        return False, float("inf")
    return bool(d <= TOL), float(d)


def random_specs(rng, L, n, allow_sch=True, allow_diag=True, pvm=False):
    if pvm:
        return [{"k": "pvm", "bits": "".join(rng.choice("01") for _ in range(L))} for _ in range(n)]
    specs = []
    for _ in range(n):
        r = rng.random()
        if r < 0.45 or L == 1:
            g = rng.choice(ONE)
            specs.append({"k": "l1", "gate": g, "site": rng.randrange(L), "hs": rng.randrange(1 << 20), "as_int": rng.random() < 0.6})
        elif r < 0.72:
            g = rng.choice(TWO)
            specs.append({"k": "l2", "gate": g, "site": rng.randrange(L - 1), "hs": rng.randrange(1 << 20)})
        elif r < 0.82:
            specs.append({"k": "ent", "site": rng.randrange(L - 1)})
        elif r < 0.88 and allow_sch:
            specs.append({"k": "sch", "site": rng.randrange(L - 1)})
        elif allow_diag:
            specs.append({"k": rng.choice(["cost", "maxb", "totb"])})
        else:
            specs.append({"k": "l1", "gate": "z", "site": rng.randrange(L), "as_int": True})
    return specs


class RecResults:
    def __init__(self, log):
        self.log = log
        self.store = {}

    def __setitem__(self, key, value):
        self.log.append(("W", int(key[0]), value))
        self.store[int(key[0])] = value


def spy_evaluate(mps, params, obs_user):
    """run the real evaluate_observables with its collaborators observed; returns the canonical event string"""
    log = []
    names = ["shift_orthogonality_center_right", "expect", "get_entropy", "get_schmidt_spectrum", "get_cost", "get_max_bond",
             "get_total_bond", "project_onto_bitstring"]
    orig = {n: getattr(MPS, n) for n in names}

    def mk(name):
        f = orig[name]

        def w(self, *a, **kw):
            if name == "shift_orthogonality_center_right":
                log.append(("S", int(a[0]), self is mps))
            else:
                log.append(("E", name, self is mps))
            return f(self, *a, **kw)

        return w

    for n in names:
        setattr(MPS, n, mk(n))
    raised = None
    try:
        res = RecResults(log)
        mps.evaluate_observables(params, res, 0)
    except Exception as e:  # noqa: BLE001  (the real code raised: reported through the tie, never a harness crash)
        raised = type(e).__name__
    finally:
        for n in names:
            setattr(MPS, n, orig[n])
    ids = {id(o): j for j, o in enumerate(obs_user)}
    out, nshift, last_eval = [], 0, None
    for ev in log:
        if ev[0] == "S":
            out.append(f"S{ev[1]}" + ("!self" if ev[2] else ""))
            nshift += 1
        elif ev[0] == "E":
            last_eval = ev
        else:
            row = ev[1]
            oid = ids.get(id(params.sorted_observables[row]), "?")
            if last_eval is None:
                out.append(f"?{row}:{oid}")
            elif last_eval[2]:
                out.append(f"D{row}:{oid}")
            else:
                out.append(f"L{row}:{oid}@{nshift}")
            last_eval = None
    if raised:
        out.append("raised:" + raised)
    return "ev " + " ".join(out), res.store


# ------------------------------------------------------------------------------------------------ kinds
def run_evalobs(inp):
    rng = random.Random(inp["sub"])
    nprng = np.random.default_rng(inp["sub"])
    L = inp["L"]
    mps = rand_state(nprng, L, cap=rng.choice([2, 4]), real=rng.random() < 0.2)
    specs = inp["specs"]
    v = copy.deepcopy(mps).to_vec()
    want = [dense_value(s, v, L, mps) for s in specs]
    out = []
    seen_by_obj = {}
    n_perm = inp.get("perms", 2)
    for pi in range(n_perm):
        order = list(range(len(specs)))
        if pi > 0:
            rng.shuffle(order)
        pspecs = [specs[j] for j in order]
        obs = [make_obs(s) for s in pspecs]
        cls = rng.choice([StrongSimParams, AnalogSimParams])
        params = cls(obs, show_progress=False) if cls is StrongSimParams else cls(obs, elapsed_time=0.1, dt=0.1, show_progress=False)
        ids = {id(o): j for j, o in enumerate(obs)}
        sorted_ids = [ids.get(id(o), "?") for o in params.sorted_observables]
        line = " ".join(tok(s) for s in pspecs)
        out.append({"req": f"sort | {line}", "impl": "sorted " + " ".join(map(str, sorted_ids)), "oracle": None, "kind": "params-sort",
                    "sig": f"sort:{cls.__name__}:{line}", "nontrivial": sorted_ids != list(range(len(obs)))})
        before = [t.copy() for t in mps.tensors]
        trace, _ = spy_evaluate(mps, params, obs)
        # plain run for the values
        res = np.empty((len(obs), 1), dtype=object)
        exc = None
        try:
            mps.evaluate_observables(params, res, 0)
        except Exception as e:  # noqa: BLE001
            exc = f"{type(e).__name__}: {e}"
        probs = []
        worst = 0.0
        if exc:
            probs.append(f"evaluate_observables raised {exc}")
        else:
            for row, o in enumerate(params.sorted_observables):
                j = ids.get(id(o))
                if j is None:
                    probs.append(f"sorted_observables[{row}] is not one of the user's observable objects: the user's objects never receive a value")
                    continue
                ok, d = value_matches(pspecs[j], res[row, 0], want[order[j]])
                worst = max(worst, d if np.isfinite(d) else 0.0)
                if not ok:
                    probs.append(f"object #{j} ({tok(pspecs[j])} {pspecs[j].get('gate', '')}) got {np.asarray(res[row, 0]).ravel()[:3]} in row {row}, "
                                 f"dense value {np.asarray(want[order[j]]).ravel()[:3]}")
                seen_by_obj.setdefault(order[j], []).append(res[row, 0])
        if any(not np.array_equal(a, b) for a, b in zip(before, mps.tensors)):
            probs.append("evaluate_observables modified the state")
        out.append({"req": f"walk | {line}", "impl": trace, "kind": "evaluate-walk",
                    "oracle": {"ok": not probs, "detail": "; ".join(probs)[:600] or f"worst deviation {worst:.2e}"},
                    "sig": f"walk:{line}", "nontrivial": len(obs) > 1})
    return out


def run_walkraw(inp):
    rng = random.Random(inp["sub"])
    nprng = np.random.default_rng(inp["sub"])
    L = inp["L"]
    mps = rand_state(nprng, L, cap=2)
    specs = inp["specs"]
    obs = [make_obs(s) for s in specs]
    params = types.SimpleNamespace(sorted_observables=list(obs))
    trace, _ = spy_evaluate(mps, params, obs)
    line = " ".join(tok(s) for s in specs)
    return {"req": f"walkraw | {line}", "impl": trace, "oracle": None, "kind": "evaluate-walkraw", "sig": f"walkraw:{line}",
            "nontrivial": len(obs) > 1}


def run_values(inp):
    """direct oracles: overlap, norm, bitstring probability, entropy / Schmidt spectrum on the centre bond, expect at the centre"""
    rng = random.Random(inp["sub"])
    nprng = np.random.default_rng(inp["sub"])
    L = inp["L"]
    a = rand_state(nprng, L, cap=rng.choice([1, 2, 4]))
    b = rand_state(nprng, L, cap=rng.choice([1, 2, 4]))
    va, vb = copy.deepcopy(a).to_vec(), copy.deepcopy(b).to_vec()
    probs, worst = [], 0.0

    def chk(name, got, want, tol=TOL):
        nonlocal worst
        d = float(np.max(np.abs(np.asarray(got) - np.asarray(want))))
        worst = max(worst, d)
        if not d <= tol:
            probs.append(f"{name}: got {got}, dense {want}")

    try:
        chk("scalar_product(a,b)", a.scalar_product(b), np.vdot(va, vb))
        chk("scalar_product(a,a)", a.scalar_product(a), 1.0)
        chk("norm()", a.norm(), np.vdot(va, va).real)
        chk("norm(0) at the centre", a.norm(0), np.vdot(va, va).real)
        for _ in range(3):
            bits = "".join(rng.choice("01") for _ in range(L))
            chk(f"project_onto_bitstring({bits})", a.project_onto_bitstring(bits), dense_value({"k": "pvm", "bits": bits}, va, L))
        # unnormalised state: overlap and norm scale, bitstring probability is that of the vector as it is
        c = copy.deepcopy(a)
        c.tensors[0] = c.tensors[0] * 1.5
        vc = copy.deepcopy(c).to_vec()
        chk("norm() of 1.5*psi", c.norm(), np.vdot(vc, vc).real)
        chk("scalar_product(1.5 psi, b)", c.scalar_product(b), np.vdot(vc, vb))
        for i in range(L):
            m = copy.deepcopy(a)
            m.set_canonical_form(i)
            spec1 = {"k": "l1", "gate": rng.choice(ONE), "site": i, "hs": rng.randrange(1 << 20)}
            chk(f"expect({spec1['gate']}@{i}) centre at {i}", m.expect(make_obs(spec1)), dense_value(spec1, va, L))
            if i + 1 < L:
                spec2 = {"k": "l2", "gate": rng.choice(TWO), "site": i, "hs": rng.randrange(1 << 20)}
                chk(f"expect({spec2['gate']}@{i},{i + 1}) centre at {i}", m.expect(make_obs(spec2)), dense_value(spec2, va, L))
                chk(f"local_expect two-site via list sites centre {i}", m.local_expect(make_obs(spec2), [i, i + 1]).real, dense_value(spec2, va, L))
                chk(f"get_entropy([{i},{i + 1}]) centre at {i}", m.get_entropy([i, i + 1]), dense_value({"k": "ent", "site": i}, va, L))
                ok, d = value_matches({"k": "sch"}, m.get_schmidt_spectrum([i, i + 1]), dense_value({"k": "sch", "site": i}, va, L))
                worst = max(worst, d if np.isfinite(d) else 0.0)
                if not ok:
                    probs.append(f"get_schmidt_spectrum([{i},{i + 1}]) centre at {i} differs from the dense spectrum by {d:.3e}")
                m2 = copy.deepcopy(a)
                m2.set_canonical_form(i + 1)
                chk(f"get_entropy([{i},{i + 1}]) centre at {i + 1}", m2.get_entropy([i, i + 1]), dense_value({"k": "ent", "site": i}, va, L))
    except Exception as e:  # noqa: BLE001
        probs.append(f"raised {type(e).__name__}: {e}")
    return {"req": None, "impl": None, "kind": "values", "oracle": {"ok": not probs, "detail": "; ".join(probs)[:600] or f"worst deviation {worst:.2e}"},
            "sig": f"values:{L}:{inp['sub'] % 9973}", "nontrivial": L > 1}


# ------------------------------------------------------------------------------------------------ real runs (child process)
def _child(conn, fn, args):
    try:
        conn.send(fn(*args))
    except BaseException as e:  # noqa: BLE001
        conn.send({"error": f"{type(e).__name__}: {e}"})
    finally:
        conn.close()


def in_child(fn, args, timeout=100):
    ctx = mp.get_context("fork")
    a, b = ctx.Pipe(duplex=False)
    pr = ctx.Process(target=_child, args=(b, fn, args))
    pr.start()
    b.close()
    res = a.recv() if a.poll(timeout) else {"timeout": True}
    pr.join(5)
    if pr.is_alive():
        pr.kill()
        pr.join()
    return res


def build_circuit(spec, L):
    from qiskit import QuantumCircuit

    qc = QuantumCircuit(L)
    for g in spec:
        name, qs, par = g[0], g[1], g[2] if len(g) > 2 else None
        if par is not None:
            getattr(qc, name)(par, *qs)
        else:
            getattr(qc, name)(*qs)
    return qc


def results_of(o):
    r = o.results
    return None if r is None else np.asarray(r)


def _strong_run(circ, L, specs, threshold):
    from mqt.yaqs import simulator

    obs = [make_obs(s) for s in specs]
    sp = StrongSimParams(obs, num_traj=1, threshold=threshold, show_progress=False)
    simulator.run(MPS(L, state="zeros"), build_circuit(circ, L), sp, None, parallel=False)
    return {"results": [results_of(o) for o in obs]}


def run_strong(inp):
    from qiskit.quantum_info import Statevector

    L, circ, specs = inp["L"], inp["circuit"], inp["specs"]
    res = in_child(_strong_run, (circ, L, specs, 1e-16))
    key = inp.get("key")
    if "timeout" in res:
        return {"req": None, "impl": None, "kind": "run-strong", "oracle": {"ok": False, "detail": f"strong simulator.run did not finish: {inp}"},
                "sig": "run-strong-timeout", "key": key}
    probs, worst = [], 0.0
    if "error" in res:
        probs.append(f"strong run raised {res['error']}")
    else:
        v = np.asarray(Statevector(build_circuit(circ, L)).data)  # index = sum q_i 2^i, same as to_vec
        for j, s in enumerate(specs):
            if s["k"] in ("cost", "maxb", "totb"):
                continue
            got = res["results"][j]
            ok, d = value_matches(s, got, dense_value(s, v, L))
            worst = max(worst, d if np.isfinite(d) else 0.0)
            if not ok:
                probs.append(f"object #{j} ({tok(s)} {s.get('gate', '')}).results = {np.asarray(got).ravel()[:3]}, dense {np.asarray(dense_value(s, v, L)).ravel()[:3]}")
    return {"req": None, "impl": None, "kind": "run-strong", "key": key,
            "oracle": {"ok": not probs, "detail": "; ".join(probs)[:700] or f"worst deviation {worst:.2e}"},
            "sig": f"run-strong:{L}:{len(circ)}:{' '.join(tok(s) for s in specs)}", "nontrivial": True}


def _analog_run(seed, L, specs, order, sample):
    from mqt.yaqs import simulator
    from mqt.yaqs.core.data_structures.networks import MPO

    nprng = np.random.default_rng(seed)
    state = rand_state(nprng, L, cap=2)
    v0 = copy.deepcopy(state).to_vec()
    h = MPO.ising(L, 1.0, 0.5)
    obs = [make_obs(s) for s in specs]
    sp = AnalogSimParams(obs, elapsed_time=0.2, dt=0.1, num_traj=1, order=order, sample_timesteps=sample, threshold=1e-16, show_progress=False)
    simulator.run(state, h, sp, None, parallel=False)
    return {"results": [results_of(o) for o in obs], "v0": v0, "shapes": [t.shape for t in state.tensors]}


def run_analog(inp):
    L, specs, order = inp["L"], inp["specs"], inp["order"]
    res = in_child(_analog_run, (inp["sub"], L, specs, order, True))
    key = inp.get("key")
    if "timeout" in res:
        return {"req": None, "impl": None, "kind": "run-analog", "oracle": {"ok": False, "detail": f"analog simulator.run did not finish: {inp}"},
                "sig": "run-analog-timeout", "key": key}
    probs, worst = [], 0.0
    if "error" in res:
        probs.append(f"analog run (order {order}) raised {res['error']}")
    else:
        v0 = res["v0"]
        for j, s in enumerate(specs):
            if s["k"] in ("cost", "maxb", "totb"):
                continue
            got = res["results"][j]
            if s["k"] == "sch":
                got0 = np.asarray(got).ravel()[:500]
            else:
                got0 = np.asarray(got).ravel()[:1]
            ok, d = value_matches(s, got0, dense_value(s, v0, L))
            worst = max(worst, d if np.isfinite(d) else 0.0)
            if not ok:
                probs.append(f"object #{j} ({tok(s)} {s.get('gate', '')}).results[t=0] = {np.asarray(got0).ravel()[:3]}, dense value on the initial state "
                             f"{np.asarray(dense_value(s, v0, L)).ravel()[:3]}")
    return {"req": None, "impl": None, "kind": "run-analog", "key": key,
            "oracle": {"ok": not probs, "detail": "; ".join(probs)[:700] or f"worst deviation {worst:.2e}"},
            "sig": f"run-analog:{L}:{order}:{' '.join(tok(s) for s in specs)}", "nontrivial": True}


def _stitch_run(mode, L, specs, T):
    from mqt.yaqs import simulator
    from mqt.yaqs.core.data_structures.noise_model import NoiseModel

    obs = [make_obs(s) for s in specs]
    nm = NoiseModel([{"name": "pauli_x", "sites": [i], "strength": 0.1} for i in range(L)])
    n = len(obs)

    def fake(args):
        j = args[0]
        return np.array([[1000.0 * j + k] for k in range(n)])

    par = mode.endswith("P")          # the process-pool branch of the front-end (its own stitching loop), run in-process
    mode = mode.rstrip("P")
    if par:
        import concurrent.futures as cf

        class InProcessPool:
            def __init__(self, max_workers=None, mp_context=None, initializer=None, initargs=()):  # noqa: ARG002
                if initializer is not None:
                    initializer(*initargs)

            def __enter__(self):
                return self

            def __exit__(self, *exc):
                return False

            def submit(self, fn, *a, **k):
                f = cf.Future()
                try:
                    f.set_result(fn(*a, **k))
                except BaseException as e:  # noqa: BLE001
                    f.set_exception(e)
                return f

            def shutdown(self, *a, **k):
                pass

        simulator.ProcessPoolExecutor = InProcessPool
        simulator.available_cpus = lambda: 3

    if mode == "strong":
        from qiskit import QuantumCircuit

        sp = StrongSimParams(obs, num_traj=T, show_progress=False)
        simulator.digital_tjm = fake
        qc = QuantumCircuit(L)
        qc.x(0)
        simulator.run(MPS(L, state="zeros"), qc, sp, nm, parallel=par)
    else:
        from mqt.yaqs.core.data_structures.networks import MPO

        order = 1 if mode == "analog1" else 2
        sp = AnalogSimParams(obs, elapsed_time=0.1, dt=0.1, num_traj=T, order=order, sample_timesteps=False, show_progress=False)
        simulator.analog_tjm_1 = fake
        simulator.analog_tjm_2 = fake
        simulator.run(MPS(L, state="zeros"), MPO.ising(L, 1.0, 0.5), sp, nm, parallel=par)
    pos = [next(k for k, so in enumerate(sp.sorted_observables) if so is o) for o in obs]
    return {"traj": [np.asarray(o.trajectories).real.reshape(T, -1)[:, 0].tolist() for o in obs],
            "res": [float(np.asarray(o.results).real.ravel()[0]) for o in obs], "pos": pos}


def run_stitch(inp):
    L, specs, T, mode = inp["L"], inp["specs"], inp["T"], inp["mode"]
    res = in_child(_stitch_run, (mode, L, specs, T))
    line = " ".join(tok(s) for s in specs)
    req = f"stitch {T} | {line}"
    if "timeout" in res or "error" in res:
        return {"req": req, "impl": f"harness-problem {res}", "kind": "stitch", "oracle": {"ok": False, "detail": f"sentinel run failed: {res}"},
                "sig": f"stitch:{mode}:{line}"}
    impl = " ".join(f"t{j}=" + ",".join(str(int(round(x))) for x in tr) for j, tr in enumerate(res["traj"]))
    impl += " " + " ".join(ib.fmt(x) for x in res["res"])
    # direct: the back-end computes row k for the k-th observable of the site-sorted list; object j must receive its own row
    probs = []
    for j, (tr, k) in enumerate(zip(res["traj"], res["pos"])):
        want = [1000.0 * t + k for t in range(T)]
        if [round(x) for x in tr] != [round(x) for x in want]:
            probs.append(f"object #{j} ({tok(specs[j])}, position {k} in the sorted list) holds trajectory values {tr}, its own are {want}")
    return {"req": req, "impl": impl, "oracle": {"ok": not probs, "detail": "; ".join(probs[:2]) or "every object holds its own rows"},
            "kind": f"stitch-{mode}", "sig": f"stitch:{mode}:{T}:{line}", "nontrivial": len(specs) > 1}


def run_d29(inp):
    """known finding D29: a schmidt_spectrum observable cannot go through simulator.run (ValueError in every mode)"""
    out = []
    specs = [{"k": "sch", "site": 0}, {"k": "l1", "gate": "z", "site": 1, "as_int": True}]
    runs = [("strong", _strong_run, ([["h", [0]], ["cx", [0, 1]]], 2, specs, 1e-16)),
            ("analog order 1", _analog_run, (5, 2, specs, 1, True)), ("analog order 2", _analog_run, (5, 2, specs, 2, True))]
    for name, fn, args in runs:
        res = in_child(fn, args)
        ok = "error" not in res and "timeout" not in res
        detail = f"schmidt_spectrum observable through simulator.run ({name}): " + (res.get("error", "timeout") if not ok else "run completed")
        if ok:
            want = np.array([np.sqrt(0.5), np.sqrt(0.5)]) if name == "strong" else dense_value(specs[0], res["v0"], 2)
            ok, d = value_matches(specs[0], np.asarray(res["results"][0]).ravel()[:500], want)
            detail += f", spectrum deviation {d:.2e}"
        out.append({"req": None, "impl": None, "kind": "run-schmidt", "key": "C11:schmidt-strong-valueerror",
                    "oracle": {"ok": bool(ok), "detail": detail}, "sig": f"d29:{name}", "nontrivial": True})
    return out


# ------------------------------------------------------------------------------------------------ extension: Schmidt data of a cut
# (Model/Schmidt.lean, Lemmas/Schmidt*.lean, Props/C11.lean `cut_factorisation` … `schmidt_padding`)
#
# kinds
#   schmidt-cut   one state, every cut (i, i+1): the real `evaluate_observables` on entropy + schmidt_spectrum observables of all
#                 cuts (listing order shuffled) with `np.linalg.svd`, `MPS.get_entropy`, `MPS.get_schmidt_spectrum` observed:
#                   value tie  `theta`    the matrix handed to the SVD  vs  `thetaMat` on the tensors the method saw
#                   value tie  `entropy`  the returned number           vs  `entropyCode` (binary64) on the singular values LAPACK returned
#                   value tie  `schpad`   the returned 500-array        vs  `schmidtPad`
#                   spec ties  the hypotheses / conclusions of `cut_factorisation`, `schmidt_from_centre`, `schmidt_values` on the real
#                              blocks: prefix left-isometric, suffix right-isometric, Psi = P M Q, P^H P = 1, Q Q^H = 1,
#                              Psi Psi^H = P M M^H P^H, Psi^H Psi = Q^H M^H M Q, SVD spec (U diag(s) V = M, isometries, s sorted >= 0,
#                              power traces)
#                   oracle     entropy and spectrum of every cut vs the SVD of the dense vector reshaped at that cut
#   run-entropy   real `simulator.run` (strong circuit vs qiskit Statevector; analog column 0 vs the initial state) with entropy
#                 observables on every cut, listed in shuffled order between local observables
import os
import struct

SCH_TOP = 500
SCH_TOL = 1e-10        # dense oracle of the schmidt-cut kind (largest clean-tree deviation over 6 seeds: 9e-16)
RUN_TOL = 1e-9         # entropy through simulator.run (largest clean-tree deviation over 6 seeds: 2e-15)
SPEC = {}


def spec_note(name, dev, tol, detail=""):
    e = SPEC.setdefault(name, {"name": name, "ok": True, "n": 0, "worst": 0.0, "tol": tol, "detail": ""})
    e["n"] += 1
    dev = float(dev)
    if not np.isfinite(dev):
        dev = float("inf")
    e["worst"] = max(e["worst"], dev)
    if not dev <= tol and e["ok"]:
        e["ok"] = False
        e["detail"] = f"deviation {dev:.3e} > {tol:.1e}: {detail}"[:400]
    return dev <= tol


def schmidt_spec():
    return list(SPEC.values())


def rand_state_d(nprng, L, d, cap):
    dims = [1] + [min(cap, d ** min(k, L - k)) for k in range(1, L)] + [1]
    ts = [nprng.normal(size=(d, dims[i], dims[i + 1])) + 1j * nprng.normal(size=(d, dims[i], dims[i + 1])) for i in range(L)]
    m = MPS(L, tensors=ts, physical_dimensions=[d] * L)
    m.normalize("B")
    return m


def dense_to_mps(psi, L, d):
    """exact (untruncated) left-to-right SVD sweep of a dense tensor with axis k = site k; harness code, then normalised by the real code"""
    ts, rest, chi = [], psi.reshape(1, -1), 1
    for k in range(L - 1):
        m = rest.reshape(chi * d, -1)
        u, sv, vh = np.linalg.svd(m, full_matrices=False)
        new = u.shape[1]
        ts.append(u.reshape(chi, d, new).transpose(1, 0, 2))
        rest, chi = (sv[:, None] * vh), new
    ts.append(rest.reshape(chi, d, 1).transpose(1, 0, 2))
    mps = MPS(L, tensors=[np.ascontiguousarray(t).astype(complex) for t in ts], physical_dimensions=[d] * L)
    mps.normalize("B")
    return mps


def unitary_cols(nprng, n, k):
    a = nprng.normal(size=(n, k)) + 1j * nprng.normal(size=(n, k))
    q, _ = np.linalg.qr(a)
    return q[:, :k]


def schmidt_state(inp):
    """the state of a schmidt-cut case (deterministic in the input)"""
    L, d, fam = inp["L"], inp.get("d", 2), inp["family"]
    nprng = np.random.default_rng(inp["sub"])
    rng = random.Random(inp["sub"])
    if fam == "random":
        return rand_state_d(nprng, L, d, inp.get("cap", 4))
    if fam == "tiny":
        # prescribed Schmidt coefficients on one cut, some of them tiny / exactly zero
        c = inp.get("cut", rng.randrange(L - 1))
        nl, nr = d ** (c + 1), d ** (L - c - 1)
        k = min(nl, nr)
        pool = [1.0, 0.6, 0.3, 1e-3, 1e-5, 1e-7, 1e-9, 1e-11, 1e-13, 0.0, 0.0, 1e-150]
        sv = np.array(([1.0] + [rng.choice(pool) * rng.uniform(0.5, 1.0) for _ in range(k - 1)])[:k])
        sv = sv / np.linalg.norm(sv)
        mat = (unitary_cols(nprng, nl, k) * sv) @ unitary_cols(nprng, nr, k).conj().T
        return dense_to_mps(mat.reshape([d] * L), L, d)
    if fam == "ghz":
        a, b = rng.uniform(0.2, 1.0), rng.uniform(0.2, 1.0) * np.exp(1j * rng.uniform(0, 6.28))
        psi = np.zeros([d] * L, dtype=complex)
        psi[(0,) * L] = a
        psi[(d - 1,) * L] = b
        psi[tuple(rng.randrange(d) for _ in range(L))] += rng.uniform(0.0, 0.3)   # break the mirror symmetry
        return dense_to_mps(psi / np.linalg.norm(psi), L, d)
    if fam == "padded":
        # a product state with zero-padded bonds (qubits only): exact zero singular values
        return MPS(L, state=inp.get("pstate", "y+"), pad=inp.get("cap", 4))
    raise ValueError(fam)


def dense_cut(v, L, d, i):
    psi = v.reshape([d] * L).transpose(list(range(L - 1, -1, -1)))          # axis k <-> site k
    return psi.reshape(d ** (i + 1), -1)


def dense_entropy(sv):
    p = sv.astype(float) ** 2
    p = p / np.sum(p)
    p = p[p > 0]
    return float(-np.sum(p * np.log(p)))


def f64bits(x):
    return struct.unpack("<Q", struct.pack("<d", float(x)))[0]


def spy_cut_calls(mps, params):
    """real evaluate_observables; every get_entropy / get_schmidt_spectrum call with the tensors it saw, the SVD input and output"""
    calls, cur = [], []
    orig_svd = np.linalg.svd
    orig = {n: getattr(MPS, n) for n in ("get_entropy", "get_schmidt_spectrum")}

    def svd_spy(a, *args, **kw):
        out = orig_svd(a, *args, **kw)
        if cur:
            cur[-1]["svd"].append((np.array(a, copy=True), out, dict(kw)))
        return out

    def mk(name):
        f = orig[name]

        def w(self, sites):
            rec = {"name": name, "sites": list(sites), "tensors": [np.array(t, copy=True) for t in self.tensors], "svd": [], "is_self": self is mps}
            cur.append(rec)
            try:
                rec["ret"] = f(self, sites)
            finally:
                cur.pop()
            calls.append(rec)
            return rec["ret"]

        return w

    res = np.empty((len(params.sorted_observables), 1), dtype=object)
    exc = None
    np.linalg.svd = svd_spy
    for n in orig:
        setattr(MPS, n, mk(n))
    try:
        mps.evaluate_observables(params, res, 0)
    except Exception as e:  # noqa: BLE001
        exc = f"{type(e).__name__}: {e}"
    finally:
        np.linalg.svd = orig_svd
        for n in orig:
            setattr(MPS, n, orig[n])
    return calls, res, exc


def cflat(a):
    return " ".join(ib.cfrac(z) for z in np.asarray(a, dtype=complex).ravel())


def cut_spec_ties(rec, psi_cut, d, L, tag):
    """hypotheses and conclusions of cut_factorisation / schmidt_from_centre / schmidt_values on what the real method saw"""
    T, (i, j) = rec["tensors"], rec["sites"]
    tol = 1e-9
    where = f"{tag} cut ({i},{j})"
    for k in range(i):
        g = np.einsum("sla,slb->ab", T[k].conj(), T[k])
        spec_note("hyp: prefix tensors left-isometric (sum_s A[s]^H A[s] = 1)", np.max(np.abs(g - np.eye(g.shape[0]))), tol, f"{where} site {k}")
    for k in range(j + 1, L):
        g = np.einsum("sar,sbr->ab", T[k], T[k].conj())
        spec_note("hyp: suffix tensors right-isometric (sum_s B[s] B[s]^H = 1)", np.max(np.abs(g - np.eye(g.shape[0]))), tol, f"{where} site {k}")
    if not rec["svd"]:
        return
    M = rec["svd"][0][0]
    a, b = T[i], T[j]
    chil, chir = a.shape[1], b.shape[2]
    # the blocks of the real prefix / suffix
    X = np.ones((1, 1), dtype=complex)
    for k in range(i):
        X = np.einsum("al,slr->asr", X, T[k]).reshape(-1, T[k].shape[2])
    Y = np.ones((1, 1), dtype=complex)
    for k in range(L - 1, j, -1):
        Y = np.einsum("slr,rt->lst", T[k], Y).reshape(T[k].shape[1], -1)
    if M.shape != (d * chil, d * chir) or X.shape[1] != chil or Y.shape[0] != chir:
        spec_note("Psi = P M Q (dense vector vs real blocks and the matrix handed to the SVD)", float("inf"), tol, f"{where}: shapes {M.shape} {X.shape} {Y.shape}")
        return
    P = np.einsum("al,st->astl", X, np.eye(d)).reshape(X.shape[0] * d, d * chil)
    Q = np.einsum("rb,ut->urtb", Y, np.eye(d)).reshape(d * chir, d * Y.shape[1])
    spec_note("P^H P = 1", np.max(np.abs(P.conj().T @ P - np.eye(P.shape[1]))), tol, where)
    spec_note("Q Q^H = 1", np.max(np.abs(Q @ Q.conj().T - np.eye(Q.shape[0]))), tol, where)
    spec_note("Psi = P M Q (dense vector vs real blocks and the matrix handed to the SVD)", np.max(np.abs(psi_cut - P @ M @ Q)), tol, where)
    spec_note("Psi Psi^H = P (M M^H) P^H", np.max(np.abs(psi_cut @ psi_cut.conj().T - P @ (M @ M.conj().T) @ P.conj().T)), tol, where)
    spec_note("Psi^H Psi = Q^H (M^H M) Q", np.max(np.abs(psi_cut.conj().T @ psi_cut - Q.conj().T @ (M.conj().T @ M) @ Q)), tol, where)
    out = rec["svd"][0][1]
    sv = np.asarray(out if not isinstance(out, tuple) else out[1], dtype=float)
    ok_sorted = bool(np.all(sv >= 0) and np.all(np.diff(sv) <= 1e-15) and len(sv) == min(M.shape))
    spec_note("SVD spec: s >= 0, descending, min(rows, cols) values", 0.0 if ok_sorted else float("inf"), tol, where)
    G = M @ M.conj().T
    rho = psi_cut @ psi_cut.conj().T
    Gn, rn = np.eye(G.shape[0]), np.eye(rho.shape[0])
    for n in (1, 2, 3):
        Gn, rn = Gn @ G, rn @ rho
        scale_n = max(1.0, float(np.sum(sv ** (2 * n))))      # relative for unnormalised vectors
        spec_note("SVD spec: tr (M M^H)^n = sum s^2n, n = 1..3", abs(np.trace(Gn).real - np.sum(sv ** (2 * n))) / scale_n, tol, f"{where} n={n}")
        spec_note("schmidt_values: tr rho_left^n = sum s^2n, n = 1..3", abs(np.trace(rn).real - np.sum(sv ** (2 * n))) / scale_n, tol, f"{where} n={n}")
    if isinstance(out, tuple):
        u, s2, vh = out
        spec_note("SVD spec: U diag(s) V = M, U^H U = 1, V V^H = 1",
                  max(np.max(np.abs((u * s2) @ vh - M)), np.max(np.abs(u.conj().T @ u - np.eye(u.shape[1]))), np.max(np.abs(vh @ vh.conj().T - np.eye(vh.shape[0])))),
                  tol, where)



def run_schmidt_big(inp):
    """a cut with more Schmidt coefficients than the fixed length of the reported spectrum (500): an 18-qubit full-bond state,
    cut (8, 9) has 512 of them — the report must be the LARGEST 500, and the entropy that of all 512"""
    L, i = 18, 8
    nprng = np.random.default_rng(inp["sub"])
    dims = [min(2 ** k, 2 ** (L - k)) for k in range(L + 1)]
    ts = [nprng.normal(size=(2, dims[k], dims[k + 1])) + 1j * nprng.normal(size=(2, dims[k], dims[k + 1])) for k in range(L)]
    # give the spectrum of the middle cut a wide, strictly decreasing profile (otherwise a random state's 512 values are nearly flat)
    mps = MPS(L, tensors=ts, physical_dimensions=[2] * L)
    mps.normalize("B")
    for k in range(i):
        mps.shift_orthogonality_center_right(k)
    a = mps.tensors[i]
    a = a * np.geomspace(1.0, 1e-3, a.shape[2])[None, None, :]
    mps.tensors[i] = a
    mps.normalize("B")
    v = copy.deepcopy(mps).to_vec()
    sv = np.linalg.svd(dense_cut(v, L, 2, i), compute_uv=False)
    probs = []
    got_s, got_e = np.array([np.nan]), float("nan")
    for which in ("sch", "ent"):   # through the observable path (which first walks the centre onto the cut)
        params = StrongSimParams([make_obs({"k": which, "site": i})], show_progress=False)
        res = np.empty((1, 1), dtype=object)
        try:
            copy.deepcopy(mps).evaluate_observables(params, res, 0)
            if which == "sch":
                got_s = np.asarray(res[0, 0], dtype=float).ravel()
            else:
                got_e = float(res[0, 0])
        except Exception as e:  # noqa: BLE001
            probs.append(f"evaluate_observables({which}) raised {type(e).__name__}: {e}")
    n = len(got_s)
    want = sv[:n]
    fin = ~np.isnan(got_s)
    if fin.sum() != min(n, len(sv)):
        probs.append(f"{int(fin.sum())} reported Schmidt values for a cut with {len(sv)} (fixed length {n})")
    else:
        dev = float(np.max(np.abs(got_s[fin] - want[:fin.sum()])))
        if dev > 1e-9:
            probs.append(f"reported spectrum starts {got_s[:3]}, the {n} largest Schmidt values of the dense vector start {want[:3]} (deviation {dev:.2e})")
    if abs(got_e - dense_entropy(sv)) > 1e-9:
        probs.append(f"entropy {got_e!r} vs dense {dense_entropy(sv)!r}")
    return {"req": None, "impl": None, "kind": "schmidt-big", "sig": "schmidt-big", "nontrivial": True,
            "oracle": {"ok": not probs, "detail": "; ".join(probs)[:600] or f"cut (8,9) of 18 qubits: {len(sv)} Schmidt values, the largest {n} reported"}}

def run_schmidt_cut(inp):
    L, d = inp["L"], inp.get("d", 2)
    rng = random.Random(inp["sub"] ^ 0x5C11)
    mps = schmidt_state(inp)
    if inp.get("scale"):
        # an unnormalised vector c·psi (centre tensor scaled): the spectrum is that of the vector as it is, the entropy that of psi
        mps.tensors[0] = mps.tensors[0] * complex(*inp["scale"])
    v = copy.deepcopy(mps).to_vec()
    before = [t.copy() for t in mps.tensors]
    cuts = inp.get("cuts") or list(range(L - 1))
    specs = [{"k": "ent", "site": c} for c in cuts] + [{"k": "sch", "site": c} for c in cuts]
    if inp.get("with_locals", True):
        specs += [{"k": "l1", "gate": "z", "site": rng.randrange(L), "as_int": True} for _ in range(2)] if d == 2 else []
    rng.shuffle(specs)
    obs = [make_obs(s) for s in specs]
    params = StrongSimParams(obs, show_progress=False)
    calls, res, exc = spy_cut_calls(mps, params)
    tag = f"{inp['family']} L={L} d={d} sub={inp['sub']}" + (" scaled" if inp.get("scale") else "")
    out, probs, worst = [], [], 0.0
    if exc:
        probs.append(f"evaluate_observables raised {exc}")
    if any(not np.array_equal(a, b) for a, b in zip(before, mps.tensors)):
        probs.append("evaluate_observables modified the state")
    ids = {id(o): j for j, o in enumerate(obs)}
    if not exc:
        # direct oracle: every object holds the Schmidt data of its own cut of the dense vector
        for row, o in enumerate(params.sorted_observables):
            sp = specs[ids[id(o)]]
            if sp["k"] not in ("ent", "sch"):
                continue
            sv = np.linalg.svd(dense_cut(v, L, d, sp["site"]), compute_uv=False)
            got = res[row, 0]
            if sp["k"] == "ent":
                want = dense_entropy(sv)
                try:
                    dev = abs(float(got) - want)
                except (TypeError, ValueError):
                    dev = float("inf")
                if not dev <= SCH_TOL:
                    probs.append(f"entropy of cut ({sp['site']},{sp['site'] + 1}): got {got}, dense vector {want:.12g}")
            else:
                ok, dev = value_matches(sp, got, sv)
                if not (ok and dev <= SCH_TOL):
                    probs.append(f"Schmidt spectrum of cut ({sp['site']},{sp['site'] + 1}): got {np.asarray(got).ravel()[:4]}, dense vector {sv[:4]} (deviation {dev:.2e})")
            worst = max(worst, dev if np.isfinite(dev) else 0.0)
    out.append({"req": None, "impl": None, "kind": "schmidt-cut",
                "oracle": {"ok": not probs, "detail": "; ".join(probs)[:700] or f"worst deviation {worst:.2e} over {len(cuts)} cuts"},
                "sig": f"schmidt-cut:{inp['family']}:{L}:{d}:{inp['sub'] % 99991}", "nontrivial": L > 2})
    # ties per call
    n_theta = 0
    for rec in calls:
        i, j = rec["sites"]
        T = rec["tensors"]
        a, b = T[i], T[j]
        bond = a.shape[2]
        short = "ent" if rec["name"] == "get_entropy" else "sch"
        cut_spec_ties(rec, dense_cut(v, L, d, i), d, L, tag)
        sig0 = f"{inp['family']}:{L}:{d}:{i}:{a.shape}:{b.shape}:{inp['sub'] % 99991}"
        sv = None
        if rec["svd"]:
            M, o, _ = rec["svd"][0]
            sv = np.asarray(o if not isinstance(o, tuple) else o[1], dtype=float)
            if M.size <= 160 and n_theta < inp.get("max_theta", 4) and short == "ent":
                n_theta += 1
                req = f"theta {a.shape[0]} {a.shape[1]} {a.shape[2]} {b.shape[0]} {b.shape[2]} | {cflat(a)} | {cflat(b)}"
                out.append({"req": req, "impl": f"theta {M.shape[0]} {M.shape[1]} " + cflat(M), "oracle": None, "kind": "schmidt-theta",
                            "sig": "theta:" + sig0, "nontrivial": bond > 1})
        if short == "ent":
            svs = [] if sv is None else list(sv)
            req = f"entropy {bond} | " + " ".join(str(f64bits(x)) for x in svs)
            try:
                impl = "ent " + ib.frac(float(rec["ret"]))
            except ib.NonFinite:
                impl = "ent nan"
            out.append({"req": req, "impl": impl, "oracle": None, "kind": "schmidt-entropy", "sig": "entropy:" + sig0,
                        "nontrivial": bond > 1})
        else:
            svs = [] if sv is None else list(sv)
            arr = np.asarray(rec["ret"], dtype=float).ravel()
            impl = "pad " + " ".join("nan" if x != x else ib.frac(x) for x in arr)
            out.append({"req": f"schpad {SCH_TOP} {bond} | " + " ".join(ib.frac(x) for x in svs), "impl": impl, "oracle": None,
                        "kind": "schmidt-pad", "sig": "schpad:" + sig0, "nontrivial": bond > 1})
    return out


def _entropy_strong_run(circ, L, specs):
    from mqt.yaqs import simulator

    os.environ["YAQS_MAX_WORKERS"] = "1"
    obs = [make_obs(s) for s in specs]
    sp = StrongSimParams(obs, num_traj=1, threshold=1e-16, show_progress=False)
    simulator.run(MPS(L, state="zeros"), build_circuit(circ, L), sp, None, parallel=False)
    return {"results": [results_of(o) for o in obs]}


def _entropy_analog_run(inp, specs, order):
    from mqt.yaqs import simulator
    from mqt.yaqs.core.data_structures.networks import MPO

    os.environ["YAQS_MAX_WORKERS"] = "1"
    L = inp["L"]
    state = schmidt_state(inp)
    v0 = copy.deepcopy(state).to_vec()
    obs = [make_obs(s) for s in specs]
    sp = AnalogSimParams(obs, elapsed_time=0.2, dt=0.1, num_traj=1, order=order, sample_timesteps=True, threshold=1e-16, show_progress=False)
    simulator.run(state, MPO.ising(L, 1.0, 0.5), sp, None, parallel=False)
    return {"results": [results_of(o) for o in obs], "v0": v0}


def run_entropy_run(inp):
    """entropy observables on every cut through the real simulator.run"""
    L, mode = inp["L"], inp["mode"]
    rng = random.Random(inp["sub"])
    specs = [{"k": "ent", "site": c} for c in range(L - 1)] + [{"k": "l1", "gate": rng.choice(["x", "z"]), "site": rng.randrange(L), "as_int": True}
                                                                for _ in range(2)]
    rng.shuffle(specs)
    if mode == "strong":
        from qiskit.quantum_info import Statevector

        res = in_child(_entropy_strong_run, (inp["circuit"], L, specs))
        ref = None if ("error" in res or "timeout" in res) else np.asarray(Statevector(build_circuit(inp["circuit"], L)).data)
    else:
        res = in_child(_entropy_analog_run, (inp, specs, inp["order"]))
        ref = res.get("v0")
    probs, worst = [], 0.0
    if "timeout" in res:
        probs.append(f"simulator.run ({mode}) did not finish")
    elif "error" in res:
        probs.append(f"simulator.run ({mode}) raised {res['error']}")
    else:
        for jx, sp in enumerate(specs):
            got = np.asarray(res["results"][jx]).ravel()
            got0 = got[-1] if mode == "strong" else got[0]
            if sp["k"] == "ent":
                want = dense_entropy(np.linalg.svd(dense_cut(ref, L, 2, sp["site"]), compute_uv=False))
            else:
                want = dense_value(sp, ref, L)
            dev = abs(complex(got0) - want)
            worst = max(worst, dev if np.isfinite(dev) else 0.0)
            if not dev <= RUN_TOL:
                probs.append(f"object #{jx} ({tok(sp)}).results = {got0}, dense value {want:.12g}")
    return {"req": None, "impl": None, "kind": f"run-entropy-{mode}",
            "oracle": {"ok": not probs, "detail": "; ".join(probs)[:700] or f"worst deviation {worst:.2e}"},
            "sig": f"run-entropy:{mode}:{L}:{inp['sub'] % 99991}", "nontrivial": True}


def entangling_circuit(rng, L):
    spec = []
    for _ in range(rng.randrange(2 * L, 4 * L)):
        if rng.random() < 0.5:
            q = rng.randrange(L - 1)
            spec.append([rng.choice(["cx", "cz"]), [q, q + 1] if rng.random() < 0.7 else [q + 1, q]] if rng.random() < 0.7
                        else [rng.choice(["rxx", "rzz"]), [q, q + 1], round(rng.uniform(0.2, 1.4), 3)])
        else:
            spec.append([rng.choice(["rx", "ry", "rz"]), [rng.randrange(L)], round(rng.uniform(0.1, 3.0), 3)])
    return spec


def gen_schmidt(rng, tier):
    n_cut = {"quick": 60, "thorough": 400, "search": 120}.get(tier, 60)
    n_run = {"quick": 4, "thorough": 24, "search": 8}.get(tier, 4)
    fams = ["random"] * 5 + ["tiny"] * 3 + ["ghz", "padded"]
    for n in range(n_cut):
        fam = fams[n % len(fams)]
        d = 3 if (fam in ("random", "tiny", "ghz") and rng.random() < 0.3) else 2
        L = rng.choice([3, 4, 5]) if d == 3 else rng.choice([3, 4, 5, 6, 7])
        if fam == "tiny" and d == 2:
            L = rng.choice([3, 4, 5, 6])
        inp = {"kind": "schmidt-cut", "family": fam, "L": L, "d": d, "cap": rng.choice([2, 3, 4, 8]), "sub": rng.randrange(1 << 30)}
        if fam == "padded":
            inp["pstate"] = rng.choice(["zeros", "x+", "y+", "Neel"])
            inp["cap"] = rng.choice([2, 4])
        elif rng.random() < 0.3:      # every bond of these families has dimension > 1 (the bond-1 shortcut returns 1.0 whatever the norm)
            r, ph = rng.uniform(0.3, 3.0), rng.uniform(0, 6.28)
            inp["scale"] = [r * np.cos(ph), r * np.sin(ph)]
        yield inp
    for _ in range(n_run):
        L = rng.choice([3, 4, 5, 6])
        yield {"kind": "run-entropy", "mode": "strong", "L": L, "circuit": entangling_circuit(rng, L), "sub": rng.randrange(1 << 30)}
        L = rng.choice([3, 4, 5])
        yield {"kind": "run-entropy", "mode": "analog", "order": rng.choice([1, 2]), "L": L, "d": 2, "family": "random", "cap": 4,
               "sub": rng.randrange(1 << 30)}


# ------------------------------------------------------------------------------------------------ generation
def random_circuit(rng, L):
    spec = []
    for _ in range(rng.randrange(4, 12)):
        r = rng.random()
        if L > 1 and r < 0.45:
            q = rng.randrange(L - 1)
            spec.append([rng.choice(["cx", "cz"]), [q, q + 1]] if rng.random() < 0.8 else ["cx", [q + 1, q]])
        else:
            spec.append([rng.choice(["rx", "ry", "rz"]), [rng.randrange(L)], round(rng.uniform(0.1, 3.0), 3)])
    return spec


def gen(rng, tier):
    n_eval = {"quick": 40, "thorough": 400, "search": 100}.get(tier, 40)
    n_raw = {"quick": 12, "thorough": 80, "search": 10}.get(tier, 12)
    n_val = {"quick": 10, "thorough": 80, "search": 30}.get(tier, 10)
    n_run = {"quick": 5, "thorough": 30, "search": 10}.get(tier, 5)
    n_st = {"quick": 14, "thorough": 60, "search": 12}.get(tier, 8)
    yield {"kind": "d29"}
    yield {"kind": "schmidt-big", "sub": 18}   # one cut with more Schmidt values (512) than the reported spectrum holds (500)
    yield from gen_schmidt(rng, tier)          # extension: Schmidt data of a cut
    for _ in range(n_eval):
        L = rng.choice([2, 3, 4, 5])
        pvm = rng.random() < 0.08
        yield {"kind": "evalobs", "L": L, "specs": random_specs(rng, L, rng.randrange(1, 8), pvm=pvm), "perms": 2, "sub": rng.randrange(1 << 30)}
    for i_st in range(n_st):
        L = rng.choice([2, 3, 4])
        mode = ["strongP", "analog1P", "analog2P", "strong", "analog1", "analog2"][i_st % 6] if i_st < 6 else rng.choice(["strong", "analog1", "analog2", "strongP", "analog1P", "analog2P"])
        yield {"kind": "stitch", "L": L, "mode": mode, "T": rng.choice([1, 2, 3, 5]) if not mode.endswith("P") else rng.choice([2, 3, 5]),
               "specs": random_specs(rng, L, rng.randrange(1, 7), allow_sch=False), "sub": rng.randrange(1 << 30)}
    for _ in range(n_val):
        yield {"kind": "values", "L": rng.choice([1, 2, 3, 4, 5]), "sub": rng.randrange(1 << 30)}
    for _ in range(n_raw):
        L = rng.choice([2, 3, 4])
        yield {"kind": "walkraw", "L": L, "specs": random_specs(rng, L, rng.randrange(2, 6), allow_sch=True), "sub": rng.randrange(1 << 30)}
    for _ in range(n_run):
        L = rng.choice([2, 3, 4])
        yield {"kind": "run-strong", "L": L, "circuit": random_circuit(rng, L), "specs": random_specs(rng, L, rng.randrange(2, 7), allow_sch=False),
               "sub": rng.randrange(1 << 30)}
        order = rng.choice([1, 2])
        yield {"kind": "run-analog", "L": L, "order": order, "specs": random_specs(rng, L, rng.randrange(2, 7), allow_sch=False),
               "sub": rng.randrange(1 << 30)}


def run(inp):
    k = inp["kind"]
    res = {"evalobs": run_evalobs, "walkraw": run_walkraw, "values": run_values, "run-strong": run_strong, "run-analog": run_analog,
           "stitch": run_stitch, "d29": run_d29, "schmidt-cut": run_schmidt_cut, "run-entropy": run_entropy_run, "schmidt-big": run_schmidt_big}[k](inp)
    res = res if isinstance(res, list) else [res]
    for r in res:
        if inp.get("corpus_file"):
            r["kind"] = "corpus:" + str(r.get("kind", k))
        if inp.get("key") and r.get("oracle") is not None:
            r.setdefault("key", inp["key"])
            r["key"] = r["key"] or inp["key"]
    return res


if __name__ == "__main__":
    ib.main("C11", gen, run, driver="Attribution", spec=schmidt_spec,
            rule="random entangled MPS in the simulator's form (L <= 5, bond <= 4) x random mixtures and permutations of observables "
                 "(library one-/two-site gates, random Hermitian complex matrices, entropy, Schmidt spectrum, runtime_cost, max_bond, "
                 "total_bond, pvm lists); hand-made unsorted lists for the raw walk; sentinel-backend runs of the real simulator.run "
                 "(strong, analog order 1/2) x trajectories 1..5; real strong / analog runs. distinct = distinct (kind, list) signatures; "
                 "non-trivial = more than one observable / order changed by the sort. "
                 "Extension (Schmidt data): states L = 3..7 (qubits) / 3..5 (qutrits), bond <= 8, families random complex, prescribed "
                 "Schmidt coefficients down to 1e-13 / 1e-150 / exact 0 on one cut, asymmetric GHZ-like, zero-padded product states, "
                 "30 % scaled by a complex factor; every cut (i, i+1) through evaluate_observables with shuffled entropy + "
                 "schmidt_spectrum (+ local) observables; entropy on every cut through simulator.run (strong, analog order 1/2)",
            trusted_base=["numpy / qiskit dense state vectors in the oracles; LAPACK SVD for the dense Schmidt spectrum",
                          "QR centre shift moves the orthogonality centre one site to the right without changing the state (C10)",
                          "LAPACK SVD of the two-site matrix (U diag(s) V = M, isometries, s real >= 0 descending): hypothesis of "
                          "`schmidt_values`, spec-tied on every matrix seen; C `log` of Lean's Float vs numpy's log (1e-9 relative)",
                          "power traces determine the non-zero spectrum (Newton's identities): cited"],
            assumptions=["an observable object is identified by id(); the model's id is the position in the user's list",
                         "entropy / Schmidt sites are given ascending (sites[0] = min(sites)), as the Observable docs ask",
                         "numeric identity of the site-local contraction with the dense expectation value is decided by the oracle; the "
                         "Lean theorems decide the attribution logic for all lists"])
