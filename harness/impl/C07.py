"""C07 — implementation side: model library (MPO builders, Trotter circuit builders) vs Model.Trotter, plus oracles.

value ties (real function vs model function on the same arguments)
    circ-*    gate list (name, qubits, angle, barriers) of every circuit builder: chains L = 1..9, grids <= 4x4, both
              boundary conditions, seeded parameter sets / step counts;  add_long_range_interaction / add_hopping_term
              / lookup_qiskit_ordering incl. their exceptions
    terms-*   the `terms` argument captured at MPO.from_pauli_sum (class attribute wrapped) when ising / heisenberg /
              hamiltonian run, vs `mpoTerms`
    parse     MPO._parse_pauli_string vs `parseSpec`
    fsm-*     from_pauli_sum(..., n_sweeps=0): bond dimensions, every non-zero tensor entry (dyadic coefficients, exact),
              path sums on random configuration pairs, vs the automaton model `sweep/vals/site0Row`
    blk-*     block structure + path sums of the hand-written tensors of bose_hubbard / coupled_transmon
oracles (model-independent, dense numpy/scipy/qiskit)
    to_matrix() of every builder vs an explicit Kronecker sum (site 0 leftmost); dense vs sparse; compression bound;
    from_matrix round trip; Operator(circuit) vs expm(-iHT) with step halving; 1-D vs 2-D Hubbard on a chain.
extension xt07 (section "Trotter consistency" near the end of this file): kind `trotter-deriv` — the real one-step circuit of all six
    builders: gate list vs the model step (trotter-deriv-step-*), entries of MPO.ising / MPO.heisenberg .to_matrix() vs the automaton path
    sum at the index digits (trotter-deriv-ham-*), and the oracle trotter-deriv-*: generators sum to dt*H, d/d(dt) of the one-step unitary
    at dt = 0 is -iH, the N-step circuit is the N-th power of the step, N-step error ~ 1/N.
"""
from __future__ import annotations

import contextlib
import math
import random
import re
import warnings

import numpy as np
import scipy.linalg as sla

import implbase as ib

warnings.simplefilter("ignore")

from qiskit.circuit import QuantumCircuit  # noqa: E402
from qiskit.circuit.library import CPhaseGate, PhaseGate, RXGate, RXXGate, RYGate, RYYGate, RZGate, RZZGate  # noqa: E402
from qiskit.quantum_info import Operator  # noqa: E402

from mqt.yaqs.core.data_structures.networks import MPO  # noqa: E402
from mqt.yaqs.core.libraries import circuit_library as cl  # noqa: E402
from mqt.yaqs.core.libraries.gate_library import Destroy  # noqa: E402

PAULI = {
    "I": np.eye(2, dtype=complex),
    "X": np.array([[0, 1], [1, 0]], dtype=complex),
    "Y": np.array([[0, -1j], [1j, 0]], dtype=complex),
    "Z": np.array([[1, 0], [0, -1]], dtype=complex),
}
# D20 (coupled_transmon, fixed 201a5d0) and D21 (bose_hubbard length 1, fixed 522fc8a) are plain corpus cases now
KEY_ID = "C07:identity:physdim"

SPEC = {"n": 0, "bad": 0, "worst": 0.0, "detail": ""}


# --------------------------------------------------------------------------------------------- helpers

def dyadic(rng, scale=8):
    return rng.randrange(-3 * scale, 3 * scale + 1) / scale


def param(rng):
    """a rational-friendly or a generic binary64 parameter"""
    r = rng.random()
    if r < 0.35:
        return rng.choice([1, 2, 3, 5, 7, -1, -3]) / rng.choice([1, 2, 4, 8, 16])
    if r < 0.45:
        return 0.0
    if r < 0.52:   # a very weak coupling (e.g. a residual field): still a term of the Hamiltonian, in every conversion
        return rng.choice([-1, 1]) * rng.uniform(1.0, 9.0) * 1e-9
    return rng.uniform(-2.0, 2.0)


def posparam(rng):
    return rng.choice([rng.choice([1, 3, 5]) / rng.choice([8, 16, 32]), rng.uniform(0.01, 0.3)])


def gate_tokens(circ: QuantumCircuit) -> str:
    out = []
    for inst in circ.data:
        op = inst.operation
        if op.name == "barrier":
            out.append("barrier")
            continue
        toks = [op.name] + [str(circ.find_bit(q).index) for q in inst.qubits]
        for p in op.params:
            p = float(p)
            if p == math.pi / 2:
                toks.append("hpi")
            elif p == -math.pi / 2:
                toks.append("-hpi")
            else:
                toks.append(ib.fmt(p))
        out.append(" ".join(toks))
    return " ".join(out) if out else "empty"


def kron_be(ops: dict, dims) -> np.ndarray:
    """site 0 leftmost (most significant)"""
    m = np.eye(1, dtype=complex)
    for i, d in enumerate(dims):
        m = np.kron(m, ops.get(i, np.eye(d, dtype=complex)))
    return m


def pauli_be(ops: dict, n: int) -> np.ndarray:
    return kron_be({i: PAULI[o] for i, o in ops.items()}, [2] * n)


def pauli_le(ops: dict, n: int) -> np.ndarray:
    """qiskit convention: qubit 0 rightmost (least significant)"""
    m = np.eye(1, dtype=complex)
    for q in range(n - 1, -1, -1):
        m = np.kron(m, PAULI[ops.get(q, "I")])
    return m


def ok(probs, detail=""):
    return {"ok": not probs, "detail": "; ".join(probs) if probs else detail}


def cstr(z) -> str:
    z = complex(z)
    return f"{ib.frac(z.real)} {ib.frac(z.imag)}"


def cfmt(z) -> str:
    z = complex(z)
    return f"{ib.fmt(z.real)} {ib.fmt(z.imag)}"


@contextlib.contextmanager
def capture_from_pauli_sum(rec):
    orig = MPO.from_pauli_sum

    def spy(self, *, terms, length, **kw):
        rec.append((list(terms), length, dict(kw)))
        return orig(self, terms=terms, length=length, **kw)

    MPO.from_pauli_sum = spy
    try:
        yield
    finally:
        MPO.from_pauli_sum = orig


TOKEN = re.compile(r"([IXYZ])\s*(\d+)", re.IGNORECASE)


def spec_tokens(spec: str) -> str:
    return " ".join(f"{o.upper()} {int(s)}" for o, s in TOKEN.findall(spec))


def terms_string(terms) -> str:
    if not terms:
        return "empty"
    return " ; ".join((cstr(c) + " " + spec_tokens(sp)).strip() for c, sp in terms)


# --------------------------------------------------------------------------------------------- generators

def gen(rng, tier):
    quick = tier == "quick"
    search = tier == "search"

    def sub():
        return rng.randrange(1 << 30)

    # ---- oracles that decide the property directly come first (budget) ----
    yield {"kind": "gatespec", "sub": sub()}
    for b in ("ising", "heis"):
        for L in ([1, 2, 3, 4, 5, 6] if quick else [1, 2, 3, 4, 5, 6, 7]):
            for per in (False, True):
                yield {"kind": "trotter", "builder": b, "L": L, "per": per, "sub": sub()}
    for b in ("ising2d", "heis2d"):
        for (R, C) in ([(2, 2), (2, 3), (3, 2), (1, 3)] if quick else [(1, 1), (1, 4), (2, 2), (2, 3), (3, 2), (4, 2), (3, 3)]):
            yield {"kind": "trotter", "builder": b, "R": R, "C": C, "sub": sub()}
    for L in (1, 2, 3):
        yield {"kind": "trotter", "builder": "fh1d", "L": L, "sub": sub()}
    for (lx, ly) in ([(2, 1), (1, 2), (3, 1), (2, 2)]):
        yield {"kind": "trotter", "builder": "fh2d", "Lx": lx, "Ly": ly, "sub": sub()}
    for lx in (2, 3):
        yield {"kind": "hubcross", "Lx": lx, "sub": sub()}

    n_fsm = {"quick": 120, "thorough": 1500, "search": 200}.get(tier, 120)
    n_misc = {"quick": 12, "thorough": 150, "search": 40}.get(tier, 12)

    for L in range(1, 8 if quick else 10):
        for per in (False, True):
            for b in ("ising", "heis"):
                yield {"kind": "ham", "builder": b, "L": L, "per": per, "sub": sub()}
    for _ in range(n_misc):
        yield {"kind": "ham", "builder": "generic", "L": rng.randrange(0, 7), "per": rng.random() < 0.5, "sub": sub()}
    for which in ("bh", "ct"):
        for L in range(1, 8 if quick else 10):
            yield {"kind": "blk", "which": which, "L": L, "sub": sub()}
    for _ in range(n_fsm):
        yield {"kind": "fsm", "sub": sub()}
    for _ in range(n_misc):
        yield {"kind": "frommat", "sub": sub()}
        yield {"kind": "misc", "sub": sub()}
    if search:
        return
    # ---- gate-list ties ----
    steps = lambda: rng.choice([1, 1, 2, 3])  # noqa: E731
    for _rep in range(1 if quick else 4):
        for L in range(1, 10 if quick else 13):
            for per in (False, True):
                yield {"kind": "circ", "builder": "ising", "L": L, "per": per, "steps": steps(), "sub": sub()}
                yield {"kind": "circ", "builder": "heis", "L": L, "per": per, "steps": steps(), "sub": sub()}
            yield {"kind": "circ", "builder": "fh1d", "L": L, "n": rng.choice([1, 2, 3]), "steps": rng.choice([1, 2]), "sub": sub()}
        for R in range(1, 5 if quick else 6):
            for C in range(1, 5 if quick else 6):
                yield {"kind": "circ", "builder": "ising2d", "R": R, "C": C, "steps": steps(), "sub": sub()}
                yield {"kind": "circ", "builder": "heis2d", "R": R, "C": C, "steps": steps(), "sub": sub()}
                if R * C <= 16:
                    yield {"kind": "circ", "builder": "fh2d", "R": R, "C": C, "n": rng.choice([1, 2]),
                           "steps": 1 if R * C > 6 else rng.choice([1, 2]), "sub": sub()}
    for _ in range(20 if quick else 200):
        yield {"kind": "lri", "sub": sub()}
    for _ in range(25 if quick else 200):
        yield {"kind": "parse", "sub": sub()}


# --------------------------------------------------------------------------------------------- circuits (ties)

def run_circ(inp):
    rng = random.Random(inp["sub"])
    b = inp["builder"]
    st = inp["steps"]
    dt = posparam(rng)
    if b == "ising":
        J, g = param(rng), param(rng)
        c = cl.create_ising_circuit(inp["L"], J, g, dt, st, periodic=inp["per"])
        req = f"circ ising {inp['L']} {int(inp['per'])} {st} | {ib.fracs([J, g, dt])}"
        sig = f"ising:{inp['L']}:{inp['per']}"
    elif b == "heis":
        Jx, Jy, Jz, h = param(rng), param(rng), param(rng), param(rng)
        c = cl.create_heisenberg_circuit(inp["L"], Jx, Jy, Jz, h, dt, st, periodic=inp["per"])
        req = f"circ heis {inp['L']} {int(inp['per'])} {st} | {ib.fracs([Jx, Jy, Jz, h, dt])}"
        sig = f"heis:{inp['L']}:{inp['per']}"
    elif b == "ising2d":
        J, g = param(rng), param(rng)
        c = cl.create_2d_ising_circuit(inp["R"], inp["C"], J, g, dt, st)
        req = f"circ ising2d {inp['R']} {inp['C']} {st} | {ib.fracs([J, g, dt])}"
        sig = f"ising2d:{inp['R']}x{inp['C']}"
    elif b == "heis2d":
        Jx, Jy, Jz, h = param(rng), param(rng), param(rng), param(rng)
        c = cl.create_2d_heisenberg_circuit(inp["R"], inp["C"], Jx, Jy, Jz, h, dt, st)
        req = f"circ heis2d {inp['R']} {inp['C']} {st} | {ib.fracs([Jx, Jy, Jz, h, dt])}"
        sig = f"heis2d:{inp['R']}x{inp['C']}"
    elif b == "fh1d":
        u, t, mu = param(rng), param(rng), param(rng)
        c = cl.create_1d_fermi_hubbard_circuit(inp["L"], u, t, mu, inp["n"], dt, st)
        req = f"circ fh1d {inp['L']} {inp['n']} {st} | {ib.fracs([u, t, mu, dt])}"
        sig = f"fh1d:{inp['L']}:{inp['n']}"
    elif b == "fh2d":
        u, t, mu = param(rng), param(rng), param(rng)
        # Lx = number of columns, Ly = number of rows
        c = cl.create_2d_fermi_hubbard_circuit(inp["C"], inp["R"], u, t, mu, inp["n"], dt, st)
        req = f"circ fh2d {inp['C']} {inp['R']} {inp['n']} {st} | {ib.fracs([u, t, mu, dt])}"
        sig = f"fh2d:{inp['C']}x{inp['R']}:{inp['n']}"
    else:
        raise ValueError(b)
    impl = gate_tokens(c)
    return {"req": req, "impl": impl, "oracle": None, "sig": sig + f":{st}", "nontrivial": len(c.data) > 1,
            "kind": "circ-" + b}


def run_lri(inp):
    rng = random.Random(inp["sub"])
    nq = rng.randrange(2, 8)
    mode = rng.choice(["lri", "lri", "hop", "lookup"])
    if mode == "lookup":
        p = rng.randrange(0, 20)
        s = rng.choice(["↑", "↓", "↑", "↓", "x"])
        code = {"↑": 0, "↓": 1}.get(s, 2)
        try:
            impl = str(cl.lookup_qiskit_ordering(p, s))
        except ValueError:
            impl = "ValueError"
        return {"req": f"lookup {p} {code}", "impl": impl, "oracle": None, "sig": f"lookup:{code}", "kind": "lookup"}
    i, j = rng.randrange(nq), rng.randrange(nq)
    if rng.random() < 0.7 and i > j:
        i, j = j, i
    alpha = param(rng)
    pre = [rng.randrange(nq) for _ in range(rng.randrange(0, 3))]
    circ = QuantumCircuit(nq)
    for q in pre:
        circ.x(q)
    pre_s = " ".join(map(str, pre))
    if mode == "hop":
        try:
            cl.add_hopping_term(circ, i, j, alpha)
            impl = gate_tokens(circ)
        except IndexError:
            impl = "IndexError"
        except ValueError:
            impl = "ValueError"
        return {"req": f"hop {i} {j} | {ib.frac(alpha)} | {pre_s}", "impl": impl, "oracle": None,
                "sig": f"hop:{j - i}", "kind": "hop", "nontrivial": i < j}
    op = rng.choice(["X", "Y", "x", "y", "X", "Y", "Z", "xx"])
    try:
        cl.add_long_range_interaction(circ, i, j, op, alpha)
        impl = gate_tokens(circ)
    except IndexError:
        impl = "IndexError"
    except ValueError:
        impl = "ValueError"
    # model-independent: the block is exp(-i alpha/2 P_i Z..Z P_j) applied after the pre-existing gates
    oracle = None
    if impl not in ("IndexError", "ValueError") and not pre:
        # (on a non-empty circuit the code prepends its first half to the *front of the whole circuit*; the builders only
        #  ever call it on a fresh circuit, so only that documented use is judged here — the tie covers the other case)
        o = op.upper()
        gen_ops = {i: o, j: o}
        for k in range(i + 1, j):
            gen_ops[k] = "Z"
        pre_u = np.eye(2**nq, dtype=complex)
        for q in pre:
            pre_u = pauli_le({q: "X"}, nq) @ pre_u
        ref = sla.expm(-1j * alpha / 2 * pauli_le(gen_ops, nq)) @ pre_u
        d = float(np.linalg.norm(Operator(circ).data - ref, 2))
        oracle = ok([f"add_long_range_interaction({i},{j},{op},{alpha}) differs from exp(-i a/2 P Z..Z P) by {d:.2e}"] if d > 1e-9 else [],
                    f"dev {d:.1e}")
    return {"req": f"lri {i} {j} {op} | {ib.frac(alpha)} | {pre_s}", "impl": impl, "oracle": oracle,
            "sig": f"lri:{op}:{j - i}:{len(pre)}", "kind": "lri", "nontrivial": i < j}


# --------------------------------------------------------------------------------------------- Hamiltonian builders

def dense_pauli_sum(terms, L):
    """terms: list of (coeff, {site: op})"""
    H = np.zeros((2**L, 2**L), dtype=complex)
    for c, ops in terms:
        H = H + complex(c) * pauli_be(ops, L)
    return H


def check_dense_sparse(mpo, probs, name):
    dense = mpo.to_matrix()
    sp = mpo.to_sparse_matrix()
    if sp.shape != dense.shape:
        probs.append(f"{name}: sparse shape {sp.shape} != dense shape {dense.shape}")
        return dense
    d = float(np.linalg.norm(sp.toarray() - dense))
    if d > 1e-10 * (1 + float(np.linalg.norm(dense))):
        probs.append(f"{name}: to_sparse_matrix differs from to_matrix by {d:.2e}")
    return dense


def run_ham(inp):
    rng = random.Random(inp["sub"])
    L, per, b = inp["L"], inp["per"], inp["builder"]
    bc = "periodic" if per else "open"
    rec, exc, mpo = [], None, None
    out = []
    if b == "ising":
        J, g = param(rng), param(rng)
        with capture_from_pauli_sum(rec):
            try:
                mpo = MPO.ising(L, J, g, bc=bc)
            except ValueError:
                exc = "ValueError"
        req = f"isingterms {L} {int(per)} | {ib.fracs([J, g])}"
        ref = [(-g, {i: "X"}) for i in range(L)] + [(-J, {i: "Z", i + 1: "Z"}) for i in range(L - 1)]
        if per and L >= 2:
            ref.append((-J, {0: "Z", L - 1: "Z"}))
    elif b == "heis":
        Jx, Jy, Jz = param(rng), param(rng), param(rng)
        h = rng.choice([0.0, param(rng), param(rng)])
        with capture_from_pauli_sum(rec):
            try:
                mpo = MPO.heisenberg(L, Jx, Jy, Jz, h, bc=bc)
            except ValueError:
                exc = "ValueError"
        req = f"heisterms {L} {int(per)} | {ib.fracs([Jx, Jy, Jz, h])}"
        ref = [(-h, {i: "Z"}) for i in range(L)]
        bonds = [(i, i + 1) for i in range(L - 1)] + ([(0, L - 1)] if per and L >= 2 else [])
        for (i, j) in bonds:
            ref += [(-Jx, {i: "X", j: "X"}), (-Jy, {i: "Y", j: "Y"}), (-Jz, {i: "Z", j: "Z"})]
    else:
        labels = ["I", "X", "Y", "Z"]
        two = [(complex(dyadic(rng), rng.choice([0, 0, dyadic(rng)])), rng.choice(labels), rng.choice(labels))
               for _ in range(rng.randrange(0, 3))]
        one = [(complex(dyadic(rng), rng.choice([0, 0, dyadic(rng)])), rng.choice(labels)) for _ in range(rng.randrange(0, 3))]
        two_in = [(c if c.imag else c.real, a.lower() if rng.random() < 0.3 else a, bb) for c, a, bb in two]
        with capture_from_pauli_sum(rec):
            try:
                mpo = MPO.hamiltonian(length=L, two_body=two_in, one_body=one, bc=bc, n_sweeps=rng.choice([0, 2]))
            except ValueError:
                exc = "ValueError"
        s2 = " ; ".join(f"{cstr(c)} {a} {bb}" for c, a, bb in two) or "none"
        s1 = " ; ".join(f"{cstr(c)} {a}" for c, a in one) or "none"
        req = f"terms {L} {int(per)} | {s2} | {s1}"
        ref = []
        bonds = list(range(L)) if per else list(range(L - 1))
        for c, a, bb in two:
            for i in bonds:
                j = (i + 1) % L if L else 0
                ref.append((c, {i: a, j: bb}) if i != j else (c, None))
        for c, a in one:
            ref += [(c, {i: a}) for i in range(L)]
    if rec:
        impl = terms_string(rec[0][0])
    else:
        impl = exc or "none"
    out.append({"req": req, "impl": impl, "oracle": None, "sig": f"terms:{b}:{L}:{per}:{impl[:5]}", "kind": "terms-" + b,
                "nontrivial": bool(rec) and len(rec[0][0]) > 0})
    # oracle: the dense matrix is the documented sum
    probs = []
    degenerate = (L == 0) or any(o is None for _, o in ref) or (b in ("ising", "heis") and L == 1 and per)  # L = 0, or L = 1 periodic with a two-body term: the code raises
    if degenerate:
        if exc != "ValueError":
            probs.append(f"{b}(L={L}, bc={bc}) should raise ValueError, got {type(mpo).__name__}")
        detail = "raises ValueError as documented"
    elif exc:
        probs.append(f"{b}(L={L}, bc={bc}) raised {exc}")
        detail = ""
    else:
        dense = check_dense_sparse(mpo, probs, b)
        Href = dense_pauli_sum(ref, L)
        d = float(np.linalg.norm(dense - Href))
        if d > 1e-9 * (1 + float(np.linalg.norm(Href))):
            probs.append(f"{b}(L={L}, bc={bc}).to_matrix() differs from the documented sum by {d:.3e}")
        detail = f"dev {d:.1e}"
    out.append({"req": None, "impl": None, "oracle": ok(probs, detail), "kind": "ham-dense", "sig": f"hamdense:{b}:{L}:{per}"})
    return out


def run_parse(inp):
    rng = random.Random(inp["sub"])
    n = rng.randrange(0, 5)
    sites = [rng.randrange(0, 9) for _ in range(n)]
    if rng.random() < 0.6:
        sites = list(dict.fromkeys(sites))
    toks = [(rng.choice("IXYZ"), s) for s in sites]
    sep = rng.choice([" ", ", ", ",", "  "])
    spec = sep.join((o.lower() if rng.random() < 0.3 else o) + (" " if rng.random() < 0.2 else "") +
                    ("0" if rng.random() < 0.1 else "") + str(s) for o, s in toks)
    if rng.random() < 0.2:
        spec = " " + spec + " "
    try:
        d = MPO._parse_pauli_string(spec)  # noqa: SLF001
        impl = " ".join(f"{k} {v}" for k, v in d.items()) or "empty"
    except ValueError:
        impl = "ValueError"
    req = "parse | " + (" ".join(f"{o} {s}" for o, s in toks) or "none")
    return {"req": req, "impl": impl, "oracle": None, "sig": f"parse:{n}:{impl == 'ValueError'}", "kind": "parse",
            "nontrivial": n > 0}


# --------------------------------------------------------------------------------------------- from_pauli_sum automaton

def random_terms(rng, L, exact):
    """list of (coeff, [(op, site)…]) with repeats, identities, zero/complex coefficients, long range"""
    T = rng.choice([0, 1, 2, 3, 4, 5, 6, 8, 10, 12])
    terms = []
    for _ in range(T):
        if terms and rng.random() < 0.2:
            c0, toks = rng.choice(terms)
            toks = list(toks)
            if rng.random() < 0.5:
                rng.shuffle(toks)
        else:
            k = rng.choice([0, 1, 1, 2, 2, 2, 3, 4])
            k = min(k, L)
            sites = rng.sample(range(L), k)
            if rng.random() < 0.5:
                sites.sort()
            toks = [(rng.choice("IXYZ" if rng.random() < 0.3 else "XYZ"), s) for s in sites]
        r = rng.random()
        if r < 0.1:
            c = 0.0
        elif exact:
            c = complex(dyadic(rng), rng.choice([0, 0, dyadic(rng)]))
        else:
            c = complex(rng.uniform(-2, 2), rng.choice([0, 0, rng.uniform(-2, 2)]))
            if r > 0.9:
                c *= 1e-5
        if isinstance(c, complex) and c.imag == 0 and rng.random() < 0.7:
            c = c.real
        terms.append((c, toks))
    return terms


def spec_of(rng, toks):
    sep = rng.choice([" ", " ", ", "])
    return sep.join(f"{o.lower() if rng.random() < 0.15 else o}{s}" for o, s in toks)


def term_req(terms):
    return " ; ".join((cstr(c) + " " + " ".join(f"{o} {s}" for o, s in toks)).strip() for c, toks in terms) or "none"


def path_value(tensors, sig, sigp):
    v = tensors[0][sig[0], sigp[0], 0, :]
    for i in range(1, len(tensors)):
        v = v @ tensors[i][sig[i], sigp[i], :, :]
    return v[0]


def run_fsm(inp):
    rng = random.Random(inp["sub"])
    L = rng.choice([1, 2, 2, 3, 3, 4, 4, 5, 6, 7])
    exact = rng.random() < 0.5
    terms = random_terms(rng, L, exact)
    bad = None
    if terms and rng.random() < 0.08:
        k = rng.randrange(len(terms))
        c, toks = terms[k]
        if rng.random() < 0.5:
            toks = [*toks, ("X", L + rng.randrange(0, 2))]
            bad = "range"
        elif toks:
            toks = [*toks, (rng.choice("XYZ"), toks[0][1])]
            bad = "dup"
        terms[k] = (c, toks)
    py_terms = [(c, spec_of(rng, toks)) for c, toks in terms]
    treq = term_req(terms)
    out = []
    mpo = MPO()
    exc = None
    try:
        mpo.from_pauli_sum(terms=py_terms, length=L, n_sweeps=0)
    except ValueError:
        exc = "ValueError"
    if exc:
        out.append({"req": f"fsmdims {L} | {treq}", "impl": exc, "oracle": ok([] if bad else [f"from_pauli_sum raised on valid terms {py_terms}"]),
                    "sig": f"fsm:err:{bad}", "kind": "fsm-dims"})
        return out
    ts = mpo.tensors
    dims = [t.shape[2] for t in ts] + [ts[-1].shape[3]]
    out.append({"req": f"fsmdims {L} | {treq}", "impl": " ".join(map(str, dims)), "oracle": ok(["invalid term accepted"] if bad else []),
                "sig": f"fsmdims:{L}:{dims}", "kind": "fsm-dims", "nontrivial": max(dims) > 1})
    if exact:
        ent = []
        for i, t in enumerate(ts):
            for a in range(2):
                for b in range(2):
                    for l in range(t.shape[2]):
                        for r in range(t.shape[3]):
                            x = t[a, b, l, r]
                            if x != 0:
                                ent.append(f"{i} {a} {b} {l} {r} {cstr(x)}")
        out.append({"req": f"fsmtensor {L} | {treq}", "impl": " ".join(ent) or "empty", "oracle": None,
                    "sig": f"fsmtensor:{L}:{len(ent)}", "kind": "fsm-tensor", "nontrivial": len(ent) > 4})
    cfgs = []
    for _ in range(6):
        s = [rng.randrange(2) for _ in range(L)]
        sp = [x ^ (rng.random() < 0.35) for x in s]
        cfgs.append((s, [int(x) for x in sp]))
    vals = [path_value(ts, s, sp) for s, sp in cfgs]
    out.append({"req": f"fsmpath {L} | {treq} | " + " ; ".join(" ".join(map(str, s + sp)) for s, sp in cfgs),
                "impl": " ".join(cfmt(v) for v in vals), "oracle": None, "sig": f"fsmpath:{L}:{len(terms)}:{inp['sub'] % 97}",
                "kind": "fsm-path", "nontrivial": any(abs(v) > 0 for v in vals)})
    # ---- oracles: dense definition, dense/sparse, compression
    probs = []
    ref = dense_pauli_sum([(c, {s: o for o, s in toks}) for c, toks in terms], L)
    scale = 1 + float(np.linalg.norm(ref)) + sum(abs(complex(c)) for c, _ in terms)
    dense0 = check_dense_sparse(mpo, probs, "from_pauli_sum(n_sweeps=0)")
    d0 = float(np.linalg.norm(dense0 - ref))
    if d0 > 1e-10 * scale:
        probs.append(f"from_pauli_sum(n_sweeps=0).to_matrix() differs from the Kronecker sum by {d0:.3e} (L={L}, terms={py_terms})")
    tol = rng.choice([1e-12, 1e-12, 1e-9, 1e-6])
    m2 = MPO()
    m2.from_pauli_sum(terms=py_terms, length=L, tol=tol, n_sweeps=rng.choice([1, 2, 2, 3]))
    dense2 = check_dense_sparse(m2, probs, "from_pauli_sum(compressed)")
    d2 = float(np.linalg.norm(dense2 - ref))
    maxd = max(dims)
    bound = (1e-10 + tol * 50 * L * maxd * 2**L) * scale
    if d2 > bound:
        probs.append(f"compression (tol={tol}) changed the operator by {d2:.3e} > {bound:.3e} (L={L}, terms={py_terms})")
    dims2 = [t.shape[2] for t in m2.tensors] + [m2.tensors[-1].shape[3]]
    if any(x > y for x, y in zip(dims2, dims)):
        probs.append(f"compression increased a bond: {dims} -> {dims2}")
    out.append({"req": None, "impl": None, "oracle": ok(probs, f"dev0 {d0:.1e} dev2 {d2:.1e} tol {tol} dims {dims}->{dims2}"),
                "kind": "fsm-dense", "sig": f"fsmdense:{L}:{len(terms)}:{tol}:{dims2}"})
    return out


# --------------------------------------------------------------------------------------------- hand-written tables

BLK_ORDER = ["id", "hloc", "adag", "a", "-Jadag", "-Ja", "hq", "gxq", "hr", "xr"]


def classify(block, refs):
    if not np.any(block):
        return "0"
    for name, m in refs:
        if m.shape == block.shape and np.allclose(block, m, atol=1e-13, rtol=0):
            return name
    return "?"


def bh_dense(L, d, omega, J, U):
    a = np.diag(np.sqrt(np.arange(1, d)), 1).astype(complex)
    ad = a.conj().T
    n = ad @ a
    h = omega * n + 0.5 * U * n @ (n - np.eye(d))
    H = np.zeros((d**L, d**L), dtype=complex)
    for i in range(L):
        H += kron_be({i: h}, [d] * L)
    for i in range(L - 1):
        H += -J * (kron_be({i: ad, i + 1: a}, [d] * L) + kron_be({i: a, i + 1: ad}, [d] * L))
    return H


def ct_dense(L, dq, dr, wq, wr, al, g):
    dims = [dq if i % 2 == 0 else dr for i in range(L)]
    H = np.zeros((int(np.prod(dims)),) * 2, dtype=complex)
    xs = []
    for i, d in enumerate(dims):
        a = np.diag(np.sqrt(np.arange(1, d)), 1).astype(complex)
        n = a.conj().T @ a
        h = wq * n + (al / 2) * n @ (n - np.eye(d)) if i % 2 == 0 else wr * n
        H += kron_be({i: h}, dims)
        xs.append(a + a.conj().T)
    for i in range(L - 1):
        H += g * kron_be({i: xs[i], i + 1: xs[i + 1]}, dims)
    return H


def run_blk(inp):
    rng = random.Random(inp["sub"])
    which, L = inp["which"], inp["L"]
    out = []
    probs = []
    if which == "bh":
        d = rng.choice([x for x in (2, 3, 4) if x**L <= 1100] or [2])  # keep the dense reference small
        omega, J, U = rng.uniform(0.3, 1.5), rng.uniform(0.2, 0.9), rng.uniform(0.1, 0.8)
        mpo = MPO.bose_hubbard(L, d, omega, J, U)
        a = Destroy(d).matrix.astype(complex)
        ad = Destroy(d).dag().matrix.astype(complex)
        n = ad @ a
        eye = np.eye(d, dtype=complex)
        refs_site = [[("id", eye), ("hloc", 0.5 * U * (n @ (n - eye)) + omega * n), ("adag", ad), ("a", a), ("-Jadag", -J * ad),
                      ("-Ja", -J * a)]] * L
        dims = [d] * L
        try:
            href = bh_dense(L, d, omega, J, U)
            dense = mpo.to_matrix()
            dd = float(np.linalg.norm(dense - href))
            if dd > 1e-10 * (1 + float(np.linalg.norm(href))):
                probs.append(f"bose_hubbard(L={L}, d={d}).to_matrix() differs from sum h_i - J(hop) by {dd:.3e}")
            check_dense_sparse(mpo, probs, "bose_hubbard")
        except ValueError as e:
            probs.append(f"bose_hubbard(L={L}, d={d}).to_matrix() raised ValueError: {e}; shapes {[t.shape for t in mpo.tensors]}")
    else:
        cands = [(x, y) for x in (2, 3) for y in (2, 3, 4) if x ** ((L + 1) // 2) * y ** (L // 2) <= 1100]
        dq, dr = rng.choice(cands or [(2, 2)])  # keep the dense reference small
        wq, wr, al, g = rng.uniform(0.5, 1.5), rng.uniform(0.5, 1.5), -rng.uniform(0.05, 0.4), rng.uniform(0.1, 0.6)
        mpo = MPO.coupled_transmon(L, dq, dr, wq, wr, al, g)
        b = Destroy(dq).matrix.astype(complex)
        a = Destroy(dr).matrix.astype(complex)
        nq, nr = b.conj().T @ b, a.conj().T @ a
        idq, idr = np.eye(dq, dtype=complex), np.eye(dr, dtype=complex)
        rq = [("id", idq), ("hq", wq * nq + (al / 2) * nq @ (nq - idq)), ("gxq", g * (b + b.conj().T))]
        rr = [("id", idr), ("hr", wr * nr), ("xr", a + a.conj().T)]
        refs_site = [rq if i % 2 == 0 else rr for i in range(L)]
        dims = [dq if i % 2 == 0 else dr for i in range(L)]
        try:
            href = ct_dense(L, dq, dr, wq, wr, al, g)
            dense = mpo.to_matrix()
            dd = float(np.linalg.norm(dense - href))
            if dd > 1e-10 * (1 + float(np.linalg.norm(href))):
                probs.append(f"coupled_transmon(L={L}, dq={dq}, dr={dr}).to_matrix() differs from the documented chain by {dd:.3e} "
                             f"(|H| = {float(np.linalg.norm(href)):.3e})")
        except ValueError as e:
            probs.append(f"coupled_transmon(L={L}).to_matrix() raised ValueError: {e}; shapes {[t.shape for t in mpo.tensors]}")
    ts = mpo.tensors
    parts = []
    for i, t in enumerate(ts):
        syms = [classify(t[:, :, l, r], refs_site[i]) for l in range(t.shape[2]) for r in range(t.shape[3])]
        parts.append(f"{t.shape[2]}x{t.shape[3]} " + " ".join(syms))
    out.append({"req": f"blk {which} {L}", "impl": " | ".join(parts), "oracle": None, "sig": f"blk:{which}:{L}", "kind": "blk-shape"})
    # path sum at a random configuration pair, block values read off the reference matrices
    for _ in range(3):
        s = [rng.randrange(dims[i]) for i in range(L)]
        sp = [(x + rng.choice([0, 0, 1, -1])) % dims[i] for i, x in enumerate(s)]
        vals = []
        for i in range(L):
            rd = dict(refs_site[i])
            vals.append(" ".join(ib.frac(complex(rd[nm][s[i], sp[i]]).real) if nm in rd else "0" for nm in BLK_ORDER))
        req = f"blkpath {which} {L} | " + " | ".join(vals)
        if ts[0].shape[2] == 1 and ts[-1].shape[3] == 1:
            v = ts[0][s[0], sp[0], 0, :]
            for i in range(1, L):
                v = v @ ts[i][s[i], sp[i], :, :]
            impl = ib.fmt(complex(v[0]).real)
        else:
            impl = "err"
        out.append({"req": req, "impl": impl, "oracle": None, "sig": f"blkpath:{which}:{L}:{s}:{sp}", "kind": "blk-path",
                    "nontrivial": impl not in ("err", "0.0")})
    c = {"req": None, "impl": None, "oracle": ok(probs, "matches the documented Hamiltonian"), "kind": "blk-dense",
         "sig": f"blkdense:{which}:{L}"}
    out.append(c)
    return out


# --------------------------------------------------------------------------------------------- from_matrix, misc builders

def run_frommat(inp):
    rng = random.Random(inp["sub"])
    nprng = np.random.default_rng(inp["sub"])
    d = rng.choice([1, 2, 2, 2, 3])
    n = 1 if d == 1 else rng.choice([1, 2, 3, 4] if d == 2 else [1, 2, 3])
    dim = d**n
    kind = rng.choice(["dense", "dense", "real", "product", "zero", "hermitian"])
    m = nprng.normal(size=(dim, dim)) + 1j * nprng.normal(size=(dim, dim))
    if kind == "real":
        m = m.real.copy()
    elif kind == "product":
        m = np.eye(1)
        for _ in range(n):
            m = np.kron(m, nprng.normal(size=(d, d)))
    elif kind == "zero":
        m = np.zeros((dim, dim))
    elif kind == "hermitian":
        m = m + m.conj().T
    cutoff = rng.choice([1e-12, 1e-12, 0.0, 1e-14])
    mpo = MPO.from_matrix(m, d, cutoff=cutoff)
    probs = []
    back = mpo.to_matrix()
    dd = float(np.linalg.norm(back - m))
    if back.shape != m.shape:
        probs.append(f"from_matrix round trip shape {back.shape} != {m.shape}")
    elif dd > 1e-9 * (1 + float(np.linalg.norm(m))):
        probs.append(f"from_matrix(M, d={d}, cutoff={cutoff}).to_matrix() differs from M by {dd:.3e} (n={n}, kind={kind})")
    if mpo.length != n:
        probs.append(f"from_matrix inferred length {mpo.length}, expected {n}")
    if d > 1 or n == 1:
        check_dense_sparse(mpo, probs, "from_matrix")
    return {"req": None, "impl": None, "oracle": ok(probs, f"dev {dd:.1e}"), "kind": "frommat", "sig": f"frommat:{d}:{n}:{kind}:{cutoff}"}


def run_misc(inp):
    rng = random.Random(inp["sub"])
    nprng = np.random.default_rng(inp["sub"])
    which = inp.get("which") or rng.choice(["identity", "custom", "fsm", "compress", "empty"])
    probs = []
    key = None
    if which == "identity":
        L = rng.randrange(1, 6)
        d = inp.get("d") or rng.choice([2, 2, 3])
        m = MPO()
        m.identity(L, physical_dimension=d)
        dense = m.to_matrix()
        if dense.shape != (d**L, d**L) or np.linalg.norm(dense - np.eye(d**L)) > 1e-12:
            probs.append(f"identity(L={L}, physical_dimension={d}).to_matrix() has shape {dense.shape}, expected the {d**L}x{d**L} identity")
            key = KEY_ID
        else:
            check_dense_sparse(m, probs, "identity")
    elif which in ("custom", "fsm"):
        L = rng.randrange(2, 5)
        d = rng.choice([2, 3])
        D = rng.choice([1, 2, 3])
        if which == "fsm":
            left = nprng.normal(size=(1, D, d, d)) + 0j
            inner = nprng.normal(size=(D, D, d, d)) + 0j
            right = nprng.normal(size=(D, 1, d, d)) + 0j
            blocks = [left] + [inner] * (L - 2) + [right]
            m = MPO()
            m.finite_state_machine(L, left.copy(), inner.copy(), right.copy())
        else:
            bd = [1] + [rng.choice([1, 2, 3]) for _ in range(L - 1)] + [1]
            blocks = [nprng.normal(size=(bd[i], bd[i + 1], d, d)) + 1j * nprng.normal(size=(bd[i], bd[i + 1], d, d)) for i in range(L)]
            m = MPO()
            m.custom([b.copy() for b in blocks], transpose=True)
        # explicit sum over bond paths of Kronecker products
        ref = np.zeros((d**L, d**L), dtype=complex)
        import itertools

        ranges = [range(blocks[i].shape[1]) for i in range(L - 1)]
        for path in itertools.product(*ranges):
            idx = (0, *path, 0)
            mat = np.eye(1, dtype=complex)
            for i in range(L):
                mat = np.kron(mat, blocks[i][idx[i], idx[i + 1]])
            ref += mat
        dense = check_dense_sparse(m, probs, which)
        dd = float(np.linalg.norm(dense - ref))
        if dd > 1e-10 * (1 + float(np.linalg.norm(ref))):
            probs.append(f"{which}(L={L}, d={d}).to_matrix() differs from the path sum of Kronecker products by {dd:.3e}")
        if m.length != L or m.physical_dimension != d:
            probs.append(f"{which}: length/physical_dimension = {m.length}/{m.physical_dimension}, expected {L}/{d}")
    elif which == "compress":
        # compress() on a builder's MPO in every direction schedule keeps the operator within a tol-scaled bound
        L = rng.randrange(2, 6)
        J, g = rng.uniform(-1.5, 1.5), rng.uniform(-1.5, 1.5)
        m = MPO.heisenberg(L, J, g, rng.uniform(-1, 1), rng.uniform(-1, 1), bc=rng.choice(["open", "periodic"]), n_sweeps=0) \
            if L > 1 else MPO.ising(L, J, g, n_sweeps=0)
        before = m.to_matrix()
        tol = rng.choice([1e-12, 1e-9, 1e-6])
        directions = rng.choice(["lr", "rl", "lr_rl", "rl_lr"])
        dims0 = [t.shape[3] for t in m.tensors]
        m.compress(tol=tol, n_sweeps=rng.choice([1, 2]), directions=directions)
        after = check_dense_sparse(m, probs, "compress")
        dd = float(np.linalg.norm(after - before))
        bound = (1e-10 + tol * 50 * L * max(dims0) * 2**L) * (1 + float(np.linalg.norm(before)))
        if dd > bound:
            probs.append(f"compress(tol={tol}, {directions}) changed the operator by {dd:.3e} > {bound:.3e}")
    else:
        L = rng.randrange(1, 5)
        m = MPO()
        m.from_pauli_sum(terms=[], length=L)
        dense = check_dense_sparse(m, probs, "empty")
        if dense.shape != (2**L, 2**L) or np.any(dense):
            probs.append("from_pauli_sum(terms=[]) is not the zero operator")
    c = {"req": None, "impl": None, "oracle": ok(probs, which), "kind": "misc-" + which, "sig": f"misc:{which}:{inp['sub'] % 13}"}
    if key:
        c["key"] = key
    return c


# --------------------------------------------------------------------------------------------- Trotter convergence (oracle)

def my_snake(r, c, ncols):
    return r * ncols + (c if r % 2 == 0 else ncols - 1 - c)


def grid_bonds(R, C):
    b = []
    for r in range(R):
        for c in range(C):
            if c + 1 < C:
                b.append((my_snake(r, c, C), my_snake(r, c + 1, C)))
            if r + 1 < R:
                b.append((my_snake(r, c, C), my_snake(r + 1, c, C)))
    return b


def chain_bonds(L, per):
    b = [(i, i + 1) for i in range(L - 1)]
    if per and L > 1:
        b.append((0, L - 1))
    return b


def spin_h(n, bonds, coup, field):
    """- sum_bonds sum_P coup[P] P_i P_j - sum_i sum_P field[P] P_i   (qiskit qubit order)"""
    H = np.zeros((2**n, 2**n), dtype=complex)
    for (i, j) in bonds:
        for p, c in coup.items():
            if i == j:
                continue
            H -= c * pauli_le({i: p, j: p}, n)
    for i in range(n):
        for p, c in field.items():
            H -= c * pauli_le({i: p}, n)
    return H


def fh_h_1d(L, u, t, mu):
    n = 2 * L
    eye = np.eye(2**n, dtype=complex)
    H = np.zeros_like(eye)
    for q in range(n):
        H += -0.5 * mu * (eye - pauli_le({q: "Z"}, n))
    for j in range(L):
        H += 0.25 * u * (eye - pauli_le({j: "Z"}, n)) @ (eye - pauli_le({L + j: "Z"}, n))
    for j in range(L - 1):
        for off in (0, L):
            H += -0.5 * t * (pauli_le({off + j: "X", off + j + 1: "X"}, n) + pauli_le({off + j: "Y", off + j + 1: "Y"}, n))
    return H


def fh_h_2d(Lx, Ly, u, t, mu):
    ns = Lx * Ly
    n = 2 * ns
    eye = np.eye(2**n, dtype=complex)
    H = np.zeros_like(eye)
    for q in range(n):
        H += -0.5 * mu * (eye - pauli_le({q: "Z"}, n))
    for p in range(ns):
        H += 0.25 * u * (eye - pauli_le({2 * p: "Z"}, n)) @ (eye - pauli_le({2 * p + 1: "Z"}, n))
    bonds = []
    for y in range(Ly):
        for x in range(Lx):
            p = y * Lx + x
            if x + 1 < Lx:
                bonds.append((p, p + 1))
            if y + 1 < Ly:
                bonds.append((p, p + Lx))
    for (p1, p2) in bonds:
        for s in (0, 1):
            q1, q2 = 2 * p1 + s, 2 * p2 + s
            for o in ("X", "Y"):
                ops = {q1: o, q2: o}
                for k in range(q1 + 1, q2):
                    ops[k] = "Z"
                H += -0.5 * t * pauli_le(ops, n)
    return H, bonds


def halving(build, H, T, n0, order, what):
    """errors at n0, 2 n0, 4 n0 steps; ratio check"""
    U = sla.expm(-1j * H * T)
    errs = []
    for n in (n0, 2 * n0, 4 * n0):
        errs.append(float(np.linalg.norm(Operator(build(n)).data - U, 2)))
    probs = []
    need = 1.8 if order == 1 else 3.0
    detail = f"errors {errs[0]:.2e} {errs[1]:.2e} {errs[2]:.2e} (order {order})"
    if errs[0] < 1e-9:  # commuting terms: exact at every step count
        if max(errs) > 1e-8:
            probs.append(f"{what}: exact at {n0} steps but error {max(errs):.2e} after refinement")
        return probs, detail
    r1 = errs[0] / max(errs[1], 1e-300)
    r2 = errs[1] / max(errs[2], 1e-300)
    if errs[2] > 1e-9 and (r2 < need or r1 < need * 0.8):
        probs.append(f"{what}: Trotter error does not shrink with the step as order {order}: {detail}, ratios {r1:.2f} {r2:.2f}")
    if errs[2] > 0.5 * errs[0] + 1e-9 or errs[2] > 0.6:
        probs.append(f"{what}: error stays large: {detail}")
    return probs, detail + f" ratios {r1:.2f} {r2:.2f}"


def coup(rng):
    return rng.choice([-1, 1]) * rng.uniform(0.3, 1.2)


def run_trotter(inp):
    rng = random.Random(inp["sub"])
    b = inp["builder"]
    T = rng.uniform(0.3, 0.6)
    n0 = 4
    order = 1
    if b in ("ising", "heis"):
        L, per = inp["L"], inp["per"]
        bonds = chain_bonds(L, per)
        if L == 2 and per:
            bonds = [(0, 1), (0, 1)]  # both builders count the wrap bond of a 2-chain twice
        if b == "ising":
            J, g = coup(rng), coup(rng)
            H = spin_h(L, bonds, {"Z": J}, {"X": g})
            build = lambda n: cl.create_ising_circuit(L, J, g, T / n, n, periodic=per)  # noqa: E731
            mpo = None if (L == 1 and per) else MPO.ising(L, J, g, bc="periodic" if per else "open")
        else:
            Jx, Jy, Jz, h = coup(rng), coup(rng), coup(rng), coup(rng)
            H = spin_h(L, bonds, {"X": Jx, "Y": Jy, "Z": Jz}, {"Z": h})
            build = lambda n: cl.create_heisenberg_circuit(L, Jx, Jy, Jz, h, T / n, n, periodic=per)  # noqa: E731
            mpo = None if (L == 1 and per) else MPO.heisenberg(L, Jx, Jy, Jz, h, bc="periodic" if per else "open")
        what = f"{b}(L={L}, periodic={per})"
        probs, detail = halving(build, H, T, n0, order, what)
        # the Hamiltonian builder of the same name is the same operator (site 0 leftmost vs qiskit order: reverse the qubits)
        # (L = 1 periodic: the MPO builder raises ValueError — bond (0,0) —, mirrored by the terms tie)
        hm = mpo.to_matrix() if mpo is not None else None
        perm = np.array([int(format(k, f"0{L}b")[::-1], 2) for k in range(2**L)])
        dd = float(np.linalg.norm(hm[np.ix_(perm, perm)] - H)) if hm is not None else 0.0
        if dd > 1e-9 * (1 + float(np.linalg.norm(H))):
            probs.append(f"{what}: MPO.{'ising' if b == 'ising' else 'heisenberg'} differs from the circuit's Hamiltonian by {dd:.2e}")
        sig = f"trotter:{b}:{L}:{per}"
    elif b in ("ising2d", "heis2d"):
        R, C = inp["R"], inp["C"]
        nq = R * C
        bonds = grid_bonds(R, C)
        if b == "ising2d":
            J, g = coup(rng), coup(rng)
            H = spin_h(nq, bonds, {"Z": J}, {"X": g})
            build = lambda n: cl.create_2d_ising_circuit(R, C, J, g, T / n, n)  # noqa: E731
        else:
            Jx, Jy, Jz, h = coup(rng), coup(rng), coup(rng), coup(rng)
            H = spin_h(nq, bonds, {"X": Jx, "Y": Jy, "Z": Jz}, {"Z": h})
            build = lambda n: cl.create_2d_heisenberg_circuit(R, C, Jx, Jy, Jz, h, T / n, n)  # noqa: E731
        what = f"{b}({R}x{C})"
        probs, detail = halving(build, H, T, n0, order, what)
        sig = f"trotter:{b}:{R}x{C}"
    elif b == "fh1d":
        L = inp["L"]
        u, t, mu = coup(rng), coup(rng), coup(rng)
        H = fh_h_1d(L, u, t, mu)
        order = 2 if L <= 2 else 1  # the even/odd hopping layers are not symmetrised
        ts = rng.choice([1, 2])
        build = lambda n: cl.create_1d_fermi_hubbard_circuit(L, u, t, mu, n, T / ts, ts)  # noqa: E731
        what = f"fermi_hubbard_1d(L={L}, timesteps={ts})"
        probs, detail = halving(build, H, T, 2, order, what)
        sig = f"trotter:fh1d:{L}"
    else:
        Lx, Ly = inp["Lx"], inp["Ly"]
        u, t, mu = coup(rng), coup(rng), coup(rng)
        H, bonds = fh_h_2d(Lx, Ly, u, t, mu)
        order = 2 if len(bonds) <= 1 else 1
        ts = rng.choice([1, 2])
        build = lambda n: cl.create_2d_fermi_hubbard_circuit(Lx, Ly, u, t, mu, n, T / ts, ts)  # noqa: E731
        what = f"fermi_hubbard_2d(Lx={Lx}, Ly={Ly}, timesteps={ts})"
        probs, detail = halving(build, H, T, 2, order, what)
        sig = f"trotter:fh2d:{Lx}x{Ly}"
    return {"req": None, "impl": None, "oracle": ok(probs, detail), "kind": "trotter-" + b, "sig": sig}


def run_hubcross(inp):
    """1-D and 2-D Hubbard circuits on a chain describe the same fermionic model: the qubit orders (0↑ 1↑ … 0↓ 1↓ …) and
    (0↑ 0↓ 1↑ 1↓ …) differ by a permutation of Jordan–Wigner modes, i.e. a product of fermionic swaps."""
    rng = random.Random(inp["sub"])
    Lx = inp["Lx"]
    u = inp.get("u", None) or coup(rng)
    t = inp.get("t", None) or coup(rng)
    mu = inp.get("mu", None) or coup(rng)
    T = inp.get("T", 0.5)
    n = 2 * Lx
    nsteps = 8
    c1 = cl.create_1d_fermi_hubbard_circuit(Lx, u, t, mu, nsteps, T, 1)
    c2 = cl.create_2d_fermi_hubbard_circuit(Lx, 1, u, t, mu, nsteps, T, 1)
    U1, U2 = Operator(c1).data, Operator(c2).data
    probs = []
    # each against its own documented Hamiltonian
    H1 = fh_h_1d(Lx, u, t, mu)
    H2, _ = fh_h_2d(Lx, 1, u, t, mu)
    e1 = float(np.linalg.norm(U1 - sla.expm(-1j * H1 * T), 2))
    e2 = float(np.linalg.norm(U2 - sla.expm(-1j * H2 * T), 2))
    lim = 0.05 if Lx == 2 else 0.4  # second order on two sites, first order beyond (measured: 1e-3 / 4e-2)
    if e1 > lim:
        probs.append(f"1-D Hubbard circuit (L={Lx}, u={u:.3f}, t={t:.3f}, mu={mu:.3f}) is {e1:.3e} away from exp(-iHT) of its docstring H")
    if e2 > lim:
        probs.append(f"2-D Hubbard circuit ({Lx}x1, u={u:.3f}, t={t:.3f}, mu={mu:.3f}) is {e2:.3e} away from exp(-iHT) of its docstring H")
    # fermionic reordering: sort the 2-D mode order into the 1-D one by adjacent transpositions
    order2 = [(p, s) for p in range(Lx) for s in (0, 1)]            # mode carried by qubit k in the 2-D circuit
    target = [(p, 0) for p in range(Lx)] + [(p, 1) for p in range(Lx)]
    F = np.eye(2**n, dtype=complex)
    cur = list(order2)
    fswap = np.array([[1, 0, 0, 0], [0, 0, 1, 0], [0, 1, 0, 0], [0, 0, 0, -1]], dtype=complex)
    for i in range(n):
        for k in range(n - 1 - i):
            if target.index(cur[k]) > target.index(cur[k + 1]):
                cur[k], cur[k + 1] = cur[k + 1], cur[k]
                qc = QuantumCircuit(n)
                qc.unitary(fswap, [k, k + 1])
                F = Operator(qc).data @ F
    dH = float(np.linalg.norm(F @ H2 @ F.conj().T - H1))
    if dH > 1e-9:
        probs.append(f"harness: fermionic reordering of the documented Hamiltonians failed ({dH:.2e})")
    dU = float(np.linalg.norm(F @ U2 @ F.conj().T - U1, 2))
    if dU > 1e-9:  # gate by gate the two circuits are conjugate under the fermionic swaps (measured 5e-15)
        probs.append(f"1-D and 2-D Hubbard circuits on a {Lx}-site chain differ by {dU:.3e} after reordering the modes "
                     f"(u={u:.3f}, t={t:.3f}, mu={mu:.3f})")
    return {"req": None, "impl": None, "oracle": ok(probs, f"e1 {e1:.2e} e2 {e2:.2e} cross {dU:.2e}"), "kind": "hubcross", "sig": f"hubcross:{Lx}"}


def run_gatespec(inp):
    """spec tie of the qiskit gate conventions the angle theorems assume"""
    rng = random.Random(inp["sub"])
    th = rng.uniform(-2, 2)
    X, Y, Z, I2 = PAULI["X"], PAULI["Y"], PAULI["Z"], PAULI["I"]
    checks = [
        ("rx", Operator(RXGate(th)).data, sla.expm(-1j * th / 2 * X)),
        ("ry", Operator(RYGate(th)).data, sla.expm(-1j * th / 2 * Y)),
        ("rz", Operator(RZGate(th)).data, sla.expm(-1j * th / 2 * Z)),
        ("rxx", Operator(RXXGate(th)).data, sla.expm(-1j * th / 2 * np.kron(X, X))),
        ("ryy", Operator(RYYGate(th)).data, sla.expm(-1j * th / 2 * np.kron(Y, Y))),
        ("rzz", Operator(RZZGate(th)).data, sla.expm(-1j * th / 2 * np.kron(Z, Z))),
        ("p", Operator(PhaseGate(th)).data, sla.expm(1j * th / 2 * (I2 - Z))),
        ("cp", Operator(CPhaseGate(th)).data, sla.expm(1j * th / 4 * np.kron(I2 - Z, I2 - Z))),
    ]
    for name, a, b in checks:
        d = float(np.linalg.norm(a - b))
        SPEC["n"] += 1
        SPEC["worst"] = max(SPEC["worst"], d)
        if d > 1e-12:
            SPEC["bad"] += 1
            SPEC["detail"] = f"{name}({th}) deviates from its assumed exponential form by {d:.2e}"
    return {"req": None, "impl": None, "oracle": None, "kind": "gatespec", "sig": "gatespec", "nontrivial": False}


# --------------------------------------------------------------------------------------------- dispatch

def run(inp):
    res = _run(inp)
    if "corpus_file" in inp:  # keep the corpus marker although the sub-cases carry their own kind
        res = [dict(r, kind="corpus:" + str(r.get("kind", inp["kind"]))) for r in (res if isinstance(res, list) else [res])]
    return res


def _run(inp):
    k = inp["kind"]
    if k == "circ":
        return run_circ(inp)
    if k == "lri":
        return run_lri(inp)
    if k == "ham":
        return run_ham(inp)
    if k == "parse":
        return run_parse(inp)
    if k == "fsm":
        return run_fsm(inp)
    if k == "blk":
        return run_blk(inp)
    if k == "frommat":
        return run_frommat(inp)
    if k == "misc":
        return run_misc(inp)
    if k == "trotter":
        return run_trotter(inp)
    if k == "hubcross":
        return run_hubcross(inp)
    if k == "gatespec":
        return run_gatespec(inp)
    raise ValueError(k)


def spec():
    return [{"name": "qiskit gate conventions: rx/ry/rz/rxx/ryy/rzz(θ) = exp(-iθ/2 G), p(θ) = exp(iθ/2 (I-Z)), cp(θ) = exp(iθ/4 (I-Z)(I-Z))",
             "ok": SPEC["bad"] == 0, "n": SPEC["n"], "worst_residual": SPEC["worst"], "detail": SPEC["detail"]}]


# ============================================================================================= extension: MPO conversions
# (model `lean/YaqsModel/Model/MpoConv.lean`, theorems `to_matrix_entry`, `dense_eq_sparse`, `from_matrix_roundtrip_exact`,
#  `from_matrix_step_error`, `compress_sweep_invariant`, `compress_terminates_shapes` of Props/C07.lean)
#
# value ties   conv-tomat / conv-tomatpath / conv-tosparse : every entry of the real to_matrix / to_sparse_matrix of random small
#              rational MPOs (mixed bond dimensions, zero blocks, physical dimension 2 and 3) vs the model's contraction loop, the
#              bond path sum at the digits of the row / column index, and the block-wise Kronecker accumulation
#              conv-custom / conv-rotate / conv-identity / conv-tomps / conv-valid : the index maps of the small helpers
#              conv-plan : the `_compress_one_sweep` calls `compress` makes (trace), incl. its ValueErrors
# replay ties  conv-frommat : the real from_matrix with np.linalg.svd wrapped; the model replays it from (u, s, vh) of every call:
#              every matrix handed to SVD and every tensor compared entrywise; conv-frommat-err : its ValueErrors
#              conv-sweep : one real `_compress_one_sweep` likewise (every two-site matrix, every tensor after the sweep)
# spec tie     LAPACK SVD on every matrix these two functions decompose (reconstruction, isometries, order)
# oracles      dense = sparse; from_matrix error^2 = sum of discarded weights; two-site block changes by exactly the discarded
#              weight in every step of a sweep; bond dimensions after a sweep within [1, cap], chain valid.

SVDSPEC = {"n": 0, "bad": 0, "worst": 0.0, "detail": ""}
EXT_KINDS = {"conv", "convfm", "convfmerr", "convsweep", "convplan", "convops", "convct"}


def gen_ext(rng, tier):
    quick = tier == "quick"

    def sub():
        return rng.randrange(1 << 30)

    n = {"quick": 30, "thorough": 300, "search": 60}.get(tier, 30)
    for _ in range(n + n // 3):
        yield {"kind": "conv", "sub": sub()}
    for _ in range(n):
        yield {"kind": "convfm", "sub": sub()}
        yield {"kind": "convsweep", "sub": sub()}
    for dirs in ("lr", "rl", "lr_rl", "rl_lr", "both", "LR", ""):
        for ns in (0, 1, 2, 3, -1):
            if dirs in ("lr", "rl", "lr_rl", "rl_lr") or ns in (1, -1):
                yield {"kind": "convplan", "ns": ns, "dirs": dirs, "sub": sub()}
    for _ in range(12 if quick else 40):
        yield {"kind": "convfmerr", "sub": sub()}
        yield {"kind": "convops", "sub": sub()}
        yield {"kind": "convops", "sub": sub()}


def cexact(z) -> str:
    return cstr(z)


def arr_tokens(a) -> str:
    return " ".join(cexact(z) for z in np.asarray(a, dtype=complex).reshape(-1))


def site_tokens(t) -> str:
    """tensor in the MPO layout (d, d, Dl, Dr)"""
    return f"{t.shape[0]} {t.shape[2]} {t.shape[3]} " + arr_tokens(t)


def show_site(t) -> str:
    return f"t {t.shape[0]} {t.shape[2]} {t.shape[3]} " + arr_tokens(t)


def show_mat(m) -> str:
    m = np.asarray(m)
    return f"m {m.shape[0]} {m.shape[1]} " + arr_tokens(m)


def dec_tokens(u, s, vh) -> str:
    return f"{u.shape[0]} {len(s)} {vh.shape[1]} {arr_tokens(u)} {ib.fracs([float(v) for v in s])} {arr_tokens(vh)}"


@contextlib.contextmanager
def capture_svd(rec, hook=None):
    """wrap np.linalg.svd: record (matrix, u, s, vh) of every call and spec-tie the result"""
    orig = np.linalg.svd

    def wrapper(a, *args, **kw):
        if hook is not None:
            hook()
        u, s, vh = orig(a, *args, **kw)
        a = np.array(a, dtype=complex)
        scale = max(1.0, float(np.linalg.norm(a)))
        e1 = float(np.linalg.norm(u @ np.diag(s) @ vh - a)) / scale
        e2 = float(np.linalg.norm(u.conj().T @ u - np.eye(u.shape[1])))
        e3 = float(np.linalg.norm(vh @ vh.conj().T - np.eye(vh.shape[0])))
        good = e1 < 1e-9 and e2 < 1e-9 and e3 < 1e-9 and bool(np.all(s >= 0)) and bool(np.all(np.diff(s) <= 1e-13 * scale))
        SVDSPEC["n"] += 1
        SVDSPEC["worst"] = max(SVDSPEC["worst"], e1, e2, e3)
        if not good:
            SVDSPEC["bad"] += 1
            SVDSPEC["detail"] = f"recon {e1:.2e} UhU {e2:.2e} VVh {e3:.2e} s={s[:6]}"
        rec.append((a, np.array(u), np.array(s, dtype=float), np.array(vh)))
        return u, s, vh

    np.linalg.svd = wrapper
    try:
        yield
    finally:
        np.linalg.svd = orig


def rational_mpo(rng, L, d, bd, complex_=True, zero_blocks=True):
    """tensors in the caller layout (left, right, phys, phys) with small dyadic entries (all float arithmetic on them exact)"""
    blocks = []
    for i in range(L):
        t = np.zeros((bd[i], bd[i + 1], d, d), dtype=complex)
        for l in range(bd[i]):
            for r in range(bd[i + 1]):
                if zero_blocks and bd[i] * bd[i + 1] > 1 and rng.random() < 0.25:
                    continue
                for a in range(d):
                    for b in range(d):
                        if rng.random() < 0.25:
                            continue
                        re = rng.randrange(-6, 7) / 4
                        im = rng.randrange(-4, 5) / 4 if complex_ and rng.random() < 0.4 else 0.0
                        t[l, r, a, b] = complex(re, im)
        blocks.append(t)
    return blocks


def run_conv(inp):
    rng = random.Random(inp["sub"])
    d = rng.choice([2, 2, 3])
    L = rng.choice([1, 2, 2, 3, 3, 4] if d == 2 else [1, 2, 2, 3])
    bd = [1] + [rng.choice([1, 2, 2, 3]) for _ in range(L - 1)] + [1]
    blocks = rational_mpo(rng, L, d, bd)
    # tensors of very different scale (a tiny coupling, or a gauge that puts 2^-30 on one tensor and 2^30 on another): the
    # conversions must not treat a block as zero because its entries are small — power-of-two factors keep every entry exact
    r_scale = rng.random()
    if r_scale < 0.2:
        blocks[0] = blocks[0] * 2.0**-30
        if L >= 2 and rng.random() < 0.6:
            blocks[-1] = blocks[-1] * 2.0**30
    transpose = rng.random() < 0.7
    m = MPO()
    if transpose:
        m.custom([b.copy() for b in blocks], transpose=True)
    else:
        m.custom([np.transpose(b, (2, 3, 0, 1)).copy() for b in blocks], transpose=False)
    out = []
    k = rng.randrange(L)
    if transpose:
        out.append({"req": f"custom {d} {bd[k]} {bd[k + 1]} | {arr_tokens(blocks[k])}", "impl": show_site(m.tensors[k]), "oracle": None,
                    "kind": "conv-custom", "sig": f"custom:{d}:{bd[k]}:{bd[k + 1]}"})
    sites = " | ".join(site_tokens(t) for t in m.tensors)
    dense = m.to_matrix()
    sparse = m.to_sparse_matrix()
    probs = []
    dd = float(np.linalg.norm(sparse.toarray() - dense)) if sparse.shape == dense.shape else float("inf")
    if dd > 1e-12:
        probs.append(f"to_sparse_matrix differs from to_matrix by {dd:.2e} on a rational MPO (d={d}, bonds={bd})")
    # model-independent: entry at (row, col) is the bond path sum at the big-endian digits of row / col
    for _ in range(4):
        sg = [rng.randrange(d) for _ in range(L)]
        sp = [rng.randrange(d) for _ in range(L)]
        row = int("".join(map(str, sg)), d) if L else 0
        col = int("".join(map(str, sp)), d) if L else 0
        v = np.ones((1,), dtype=complex)
        for i in range(L):
            v = v @ blocks[i][:, :, sg[i], sp[i]]
        if abs(dense[row, col] - v[0]) > 1e-12:
            probs.append(f"to_matrix()[{row},{col}] = {dense[row, col]} but the bond path sum at digits {sg},{sp} is {v[0]}")
    sig = f"{d}:{bd}:{transpose}"
    nz = bool(np.any(dense))
    out.append({"req": f"tomat | {sites}", "impl": show_mat(dense), "oracle": ok(probs, f"dense-sparse {dd:.1e}"), "kind": "conv-tomat",
                "sig": "tomat:" + sig, "nontrivial": nz})
    out.append({"req": f"tomatpath | {sites}", "impl": show_mat(dense), "oracle": None, "kind": "conv-tomatpath", "sig": "tomatpath:" + sig,
                "nontrivial": nz})
    out.append({"req": f"tosparse {m.physical_dimension} {m.length} | {sites}", "impl": show_mat(sparse.toarray()), "oracle": None,
                "kind": "conv-tosparse", "sig": "tosparse:" + sig, "nontrivial": nz})
    return out


def run_convfm(inp):
    rng = random.Random(inp["sub"])
    nprng = np.random.default_rng(inp["sub"])
    d = rng.choice([2, 2, 2, 3])
    n = rng.choice([1, 2, 3, 3, 4] if d == 2 else [1, 2, 2, 3])
    dim = d**n
    kind = rng.choice(["dense", "dense", "dyadic", "lowrank", "product", "zero", "mpo"])
    if kind == "dense":
        m = nprng.normal(size=(dim, dim)) + 1j * nprng.normal(size=(dim, dim))
    elif kind == "dyadic":
        m = nprng.integers(-4, 5, size=(dim, dim)) / 4 + 1j * (nprng.integers(-2, 3, size=(dim, dim)) / 2)
    elif kind == "lowrank":
        r = rng.choice([1, 2])
        m = sum(np.outer(nprng.normal(size=dim), nprng.normal(size=dim)) for _ in range(r)) + 0j
    elif kind == "product":
        m = np.eye(1)
        for _ in range(n):
            m = np.kron(m, nprng.normal(size=(d, d)))
        m = m + 0j
    elif kind == "zero":
        m = np.zeros((dim, dim), dtype=complex)
    else:
        L = n
        bd = [1] + [rng.choice([1, 2]) for _ in range(L - 1)] + [1]
        mm = MPO()
        mm.custom(rational_mpo(rng, L, d, bd, zero_blocks=False), transpose=True)
        m = mm.to_matrix()
    cutoff = rng.choice([1e-12, 1e-12, 0.0, 1e-14, 0.3, 1.0])
    cap = rng.choice([None, None, None, 1, 2, 3])
    rec = []
    with capture_svd(rec):
        mpo = MPO.from_matrix(m, d, max_bond=cap, cutoff=cutoff)
    req = (f"frommat {d} {dim} {dim} {ib.frac(cutoff)} {'none' if cap is None else cap} | {arr_tokens(m)}"
           + "".join(" | " + dec_tokens(u, s, vh) for (_, u, s, vh) in rec))
    impl = " ".join([show_mat(x) for (x, _, _, _) in rec] + [show_site(t) for t in mpo.tensors])
    # oracle: squared change = sum over the steps of the discarded weights (exact round trip when nothing is discarded)
    probs = []
    back = mpo.to_matrix()
    bonds = [t.shape[3] for t in mpo.tensors[:-1]]
    disc = sum(float(np.sum(s[r:] ** 2)) for (_, _, s, _), r in zip(rec, bonds))
    err2 = float(np.linalg.norm(back - m) ** 2) if back.shape == m.shape else float("nan")
    scale = 1 + float(np.linalg.norm(m) ** 2)
    if back.shape != m.shape:
        probs.append(f"from_matrix round trip shape {back.shape} != {m.shape}")
    elif len(rec) == len(bonds) and abs(err2 - disc) > 1e-9 * scale:
        probs.append(f"from_matrix(d={d}, n={n}, cutoff={cutoff}, max_bond={cap}, {kind}): |M - back|^2 = {err2:.6e} but the discarded "
                     f"weights add up to {disc:.6e}")
    if mpo.length != n or len(mpo.tensors) != n:
        probs.append(f"from_matrix returned length {mpo.length} / {len(mpo.tensors)} tensors for n = {n}")
    return {"req": req, "impl": impl, "oracle": ok(probs, f"err2 {err2:.2e} discarded {disc:.2e} bonds {bonds}"), "kind": "conv-frommat",
            "sig": f"frommat:{d}:{n}:{kind}:{cutoff}:{cap}:{bonds}", "nontrivial": n > 1}


def run_convfmerr(inp):
    rng = random.Random(inp["sub"])
    mode = rng.choice(["nonsquare", "d0", "d1", "nonpower", "one", "ok"])
    if mode == "nonsquare":
        d, rows, cols = 2, rng.choice([2, 4]), rng.choice([3, 8])
    elif mode == "d0":
        d, rows, cols = rng.choice([0, -1]), 2, 2
    elif mode == "d1":
        d = 1
        rows = cols = rng.choice([1, 1, 2, 3])
    elif mode == "nonpower":
        d = rng.choice([2, 3])
        rows = cols = rng.choice([3, 5, 6, 7, 10, 12]) if d == 2 else rng.choice([2, 4, 6, 8, 10])
    elif mode == "one":
        d, rows, cols = rng.choice([2, 3]), 1, 1
    else:
        d = rng.choice([2, 3])
        rows = cols = d
    m = np.arange(rows * cols, dtype=float).reshape(rows, cols) / 4
    try:
        mpo = MPO.from_matrix(m, d)
        impl = show_site(mpo.tensors[0]) if len(mpo.tensors) == 1 else f"len {len(mpo.tensors)}"
    except ValueError:
        impl = "ValueError"
    dd = max(d, 0)
    return {"req": f"frommat {dd} {rows} {cols} 1/1000000000000 none | {arr_tokens(m)}", "impl": impl, "oracle": None,
            "kind": "conv-frommat-err", "sig": f"fmerr:{mode}:{d}:{rows}:{cols}", "nontrivial": impl == "ValueError"}


def two_site_matrix(a, b):
    th = np.einsum("stlr,uvrw->lstuvw", a, b)
    d, dl, dr = a.shape[0], a.shape[2], b.shape[3]
    return th.reshape(dl * d * d, d * d * dr)


def run_convsweep(inp):
    rng = random.Random(inp["sub"])
    nprng = np.random.default_rng(inp["sub"])
    d = rng.choice([2, 2, 3])
    L = rng.choice([1, 2, 3, 3, 4] if d == 2 else [2, 3])
    src = rng.choice(["random", "random", "dyadic", "heis"])
    if src == "heis" and d == 2 and L >= 2:
        m = MPO.heisenberg(L, rng.uniform(-1, 1), rng.uniform(-1, 1), rng.uniform(-1, 1), rng.uniform(-1, 1), n_sweeps=0)
    else:
        bd = [1] + [rng.choice([1, 2, 3]) for _ in range(L - 1)] + [1]
        if src == "dyadic":
            blocks = rational_mpo(rng, L, d, bd, zero_blocks=False)
        else:
            blocks = [nprng.normal(size=(bd[i], bd[i + 1], d, d)) + 1j * nprng.normal(size=(bd[i], bd[i + 1], d, d)) for i in range(L)]
        m = MPO()
        m.custom(blocks, transpose=True)
    direction = rng.choice(["lr", "rl"])
    tol = rng.choice([1e-12, 1e-12, 1e-9, 0.1, 0.5, 2.0])
    cap = rng.choice([None, None, 1, 2])
    before = [t.copy() for t in m.tensors]
    dense_before = m.to_matrix()
    rec, snaps = [], []
    with capture_svd(rec, hook=lambda: snaps.append([t.copy() for t in m.tensors])):
        m._compress_one_sweep(direction=direction, tol=tol, max_bond_dim=cap)  # noqa: SLF001
    snaps.append([t.copy() for t in m.tensors])
    req = (f"sweep {direction} {ib.frac(tol)} {'none' if cap is None else cap} | " + " | ".join(site_tokens(t) for t in before)
           + " | decs" + "".join(" | " + dec_tokens(u, s, vh) for (_, u, s, vh) in rec))
    impl = " ".join([show_mat(x) for (x, _, _, _) in rec] + [show_site(t) for t in m.tensors])
    # oracles
    probs = []
    order = list(range(L - 1)) if direction == "lr" else list(range(L - 2, -1, -1))
    # (a different number / order of SVD calls is a matter for the tie, not a property failure: the per-step checks below
    #  need to know which bond a call belongs to and are skipped then)
    aligned = len(rec) == len(order)
    total_disc = 0.0 if aligned else float("nan")
    for j, (k, (x, u, s, vh)) in enumerate(zip(order, rec) if aligned else []):
        after = snaps[j + 1]
        keep = after[k].shape[3]
        new = two_site_matrix(after[k], after[k + 1])
        diff2 = float(np.linalg.norm(x - new) ** 2)
        disc = float(np.sum(s[keep:] ** 2))
        total_disc += disc
        if abs(diff2 - disc) > 1e-9 * (1 + float(np.linalg.norm(x) ** 2)):
            probs.append(f"step {j} (bond {k},{k + 1}) of the {direction} sweep changed the two-site block by {diff2:.6e}, discarded weight {disc:.6e}")
        if keep < 1 or (cap is not None and keep > max(cap, 1)) or keep > len(s):
            probs.append(f"step {j}: kept {keep} of {len(s)} values with cap {cap}")
        for i, (t0, t1) in enumerate(zip(snaps[j], after)):
            if i not in (k, k + 1) and (t0.shape != t1.shape or np.any(t0 != t1)):
                probs.append(f"step {j} (bond {k},{k + 1}) modified tensor {i}")
    try:
        m.check_if_valid_mpo()
        if m.tensors[0].shape[2] != before[0].shape[2] or m.tensors[-1].shape[3] != before[-1].shape[3]:
            probs.append("outer bond changed by the sweep")
    except AssertionError:
        probs.append("MPO invalid after the sweep")
    dense_after = m.to_matrix()
    dd = float(np.linalg.norm(dense_after - dense_before))
    if aligned and total_disc < 1e-20 and dd > 1e-9 * (1 + float(np.linalg.norm(dense_before))):
        probs.append(f"nothing was discarded but the {direction} sweep changed the operator by {dd:.3e}")
    bonds = [t.shape[3] for t in m.tensors[:-1]]
    return {"req": req, "impl": impl, "oracle": ok(probs, f"change {dd:.2e} discarded {total_disc:.2e} bonds {bonds}"),
            "kind": "conv-sweep", "sig": f"sweep:{d}:{L}:{src}:{direction}:{tol}:{cap}:{bonds}", "nontrivial": L > 1}


def run_convplan(inp):
    rng = random.Random(inp["sub"])
    n_sweeps = inp["ns"] if "ns" in inp else rng.choice([0, 1, 1, 2, 3, -1])
    directions = inp["dirs"] if "dirs" in inp else rng.choice(["lr", "rl", "lr_rl", "rl_lr", "lr_rl", "rl_lr", "both", "LR", ""])
    m = MPO.ising(rng.choice([1, 2, 3]), 1.0, 0.5, n_sweeps=0)
    calls = []
    orig = MPO._compress_one_sweep  # noqa: SLF001

    def spy(self, *, direction, tol, max_bond_dim):
        calls.append(direction)
        return orig(self, direction=direction, tol=tol, max_bond_dim=max_bond_dim)

    MPO._compress_one_sweep = spy  # noqa: SLF001
    try:
        try:
            m.compress(n_sweeps=n_sweeps, directions=directions)
            impl = " ".join(calls) or "empty"
        except ValueError:
            impl = "ValueError"
    finally:
        MPO._compress_one_sweep = orig  # noqa: SLF001
    dtok = directions if directions else "-"
    return {"req": f"plan {n_sweeps} {dtok}", "impl": impl, "oracle": None, "kind": "conv-plan", "sig": f"plan:{n_sweeps}:{directions}",
            "nontrivial": bool(calls)}


def run_convops(inp):
    rng = random.Random(inp["sub"])
    mode = rng.choice(["rotate", "rotate", "identity", "tomps", "valid", "valid"])
    d = rng.choice([2, 3])
    if mode == "rotate":
        bd = [rng.choice([1, 2, 3]), rng.choice([1, 2])]
        t = np.transpose(rational_mpo(rng, 1, d, bd, zero_blocks=False)[0], (2, 3, 0, 1)).copy()
        conj = rng.random() < 0.5
        m = MPO()
        m.tensors = [t.copy()]
        m.rotate(conjugate=conj)
        return {"req": f"rotate {int(conj)} | {site_tokens(t)}", "impl": show_site(m.tensors[0]), "oracle": None, "kind": "conv-rotate",
                "sig": f"rotate:{d}:{bd}:{conj}"}
    if mode == "identity":
        L = rng.randrange(0, 5)
        m = MPO()
        m.identity(L, physical_dimension=d)
        impl = " ".join(show_site(t) for t in m.tensors) or "empty"
        return {"req": f"identity {L} {d}", "impl": impl, "oracle": None, "kind": "conv-identity", "sig": f"identity:{L}:{d}", "nontrivial": L > 0}
    if mode == "tomps":
        bd = [rng.choice([1, 2]), rng.choice([1, 2, 3])]
        t = np.transpose(rational_mpo(rng, 1, d, bd, zero_blocks=False)[0], (2, 3, 0, 1)).copy()
        m = MPO()
        m.tensors = [t.copy()]
        m.length = 1
        mps = m.to_mps()
        x = mps.tensors[0]
        impl = f"p {x.shape[0]} {x.shape[1]} {x.shape[2]} " + arr_tokens(x)
        return {"req": f"tomps | {site_tokens(t)}", "impl": impl, "oracle": None, "kind": "conv-tomps", "sig": f"tomps:{d}:{bd}"}
    L = rng.randrange(0, 5)
    bd = [rng.choice([1, 2]) for _ in range(L + 1)]
    shapes = [(d, bd[i] if rng.random() < 0.8 else bd[i] + 1, bd[i + 1]) for i in range(L)]
    m = MPO()
    m.tensors = [np.zeros((dd, dd, l, r), dtype=complex) for (dd, l, r) in shapes]
    try:
        impl = "1" if m.check_if_valid_mpo() else "0"
    except AssertionError:
        impl = "AssertionError"
    except IndexError:
        impl = "IndexError"
    req = "valid" + "".join(f" | {dd} {l} {r}" for (dd, l, r) in shapes)
    return {"req": req, "impl": impl, "oracle": None, "kind": "conv-valid", "sig": f"valid:{L}:{impl}", "nontrivial": L > 1}


KEY_CT = "C07:transmon:object-dtype"


def run_convct(inp):
    """NOT generated (it fails on the tree as it is): `MPO.coupled_transmon` returns tensors of dtype object, so
    `to_sparse_matrix()` raises for every length and `compress()` raises for every length > 1.  Run it through a corpus file
    `{"kind": "convct", "L": 3, "dq": 2, "dr": 2}` once the finding is registered under KEY_CT."""
    L, dq, dr = inp.get("L", 3), inp.get("dq", 2), inp.get("dr", 2)
    m = MPO.coupled_transmon(L, dq, dr, 1.0, 0.9, -0.2, 0.3)
    dense = np.asarray(m.to_matrix(), dtype=complex)
    probs = []
    try:
        sp = m.to_sparse_matrix()
        dd = float(np.linalg.norm(sp.toarray() - dense))
        if dd > 1e-10 * (1 + float(np.linalg.norm(dense))):
            probs.append(f"coupled_transmon({L},{dq},{dr}): sparse and dense conversions differ by {dd:.2e}")
    except Exception as e:  # noqa: BLE001
        probs.append(f"coupled_transmon({L},{dq},{dr}).to_sparse_matrix() raised {type(e).__name__}: {str(e)[:80]} "
                     f"(tensor dtype {m.tensors[0].dtype})")
    try:
        m.compress(tol=1e-12)
        dd = float(np.linalg.norm(np.asarray(m.to_matrix(), dtype=complex) - dense))
        if dd > 1e-9 * (1 + float(np.linalg.norm(dense))):
            probs.append(f"coupled_transmon({L},{dq},{dr}).compress(tol=1e-12) changed the operator by {dd:.2e}")
    except Exception as e:  # noqa: BLE001
        probs.append(f"coupled_transmon({L},{dq},{dr}).compress() raised {type(e).__name__}: {str(e)[:80]}")
    return {"req": None, "impl": None, "oracle": ok(probs, "sparse / compress fine"), "kind": "conv-transmon", "key": KEY_CT,
            "sig": f"convct:{L}:{dq}:{dr}"}


def run_ext(inp):
    k = inp["kind"]
    if k == "convct":
        return run_convct(inp)
    if k == "conv":
        return run_conv(inp)
    if k == "convfm":
        return run_convfm(inp)
    if k == "convfmerr":
        return run_convfmerr(inp)
    if k == "convsweep":
        return run_convsweep(inp)
    if k == "convplan":
        return run_convplan(inp)
    if k == "convops":
        return run_convops(inp)
    raise ValueError(k)


# ============================================================================================= extension xt07: Trotter consistency
# (theorems `product_formula_deriv`, `product_formula_second_order`, `trotter_converges`, `ising_step_consistent`, …,
#  `ising_trotter_converges`, …, `circuit_unitary_is_power` of Props/C07.lean; lemma files Lemmas/TrotterLimit|Matrix|Pauli.lean)
#
# kind `trotter-deriv` — for every circuit builder (Ising, Heisenberg, 2-D Ising, 2-D Heisenberg, 1-D and 2-D Fermi–Hubbard; small
# sizes) the REAL builder's one-step circuit is turned into its unitary U(dt) with qiskit `Operator` for dt, dt/2, dt/4 and
#   value tie   trotter-deriv-step-*  the gate list of that very one-step circuit vs the model's step (driver request `circ … 1`): the
#               unitary that is differentiated below is the unitary of the gate list the theorems talk about
#               trotter-deriv-ham-*   (chains) entries of the REAL `MPO.ising / MPO.heisenberg(...).to_matrix()` — the H used below — vs the
#               path sum of the model's automaton for the terms captured at `from_pauli_sum`, at the digits of (row, column): the tie of
#               `ising_circuit_mpo_same_hamiltonian` / `heisenberg_circuit_mpo_same_hamiltonian` (driver request `fsmpath`)
#   oracle      trotter-deriv-*       the derivative the theorem states is the derivative the code has:
#               (a) spin builders: Σ (θ_k/2)·P_k over the rotation gates of the real step = dt·H  (`…_step_generators` + `genSum_eq_ham`
#                   on the real gate list; H = MPO.ising / MPO.heisenberg .to_matrix() where a builder of the same name exists, an
#                   explicit Kronecker sum otherwise);
#               (b) ‖(U(dt) − 1)/dt + iH‖ halves with dt (ratio ≥ 1.6) and (c) its twice Richardson-extrapolated limit is −iH;
#               (d) the real N-step circuit is the N-th power of the real one-step circuit (`circuit_unitary_is_power`) and the
#                   N-step error ‖U(T/N)^N − exp(−iHT)‖ shrinks ∝ 1/N or faster (ratio ≥ 1.6): the global claim `…_trotter_converges`
#   spec tie    the explicit constants of the theorems on the real unitaries (they follow from the gate conventions alone):
#               ‖U(dt) − 1 + iG‖ ≤ e^s − 1 − s,  ‖U(dt) − exp(−iG)‖ ≤ s²e^s,  ‖U(T/N)^N − exp(−iNG)‖ ≤ N·s²e^s  with G = Σ c_k P_k, s = Σ|c_k|

XT_KINDS = {"trotterderiv"}
XTSPEC = {"n": 0, "bad": 0, "worst": 0.0, "detail": ""}
XT_OBS = {"gensum": 0.0, "limit": 0.0, "power": 0.0, "ratio_min": 99.0, "gratio_min": 99.0}
ROT_AXES = {"rx": "X", "ry": "Y", "rz": "Z", "rxx": "XX", "ryy": "YY", "rzz": "ZZ"}


def gen_xt(rng, tier):
    quick = tier == "quick"

    def sub():
        return rng.randrange(1 << 30)

    for _rep in range(2 if quick else 4):
        for b in ("ising", "heis"):
            for L in ([1, 2, 3, 4, 5, 6] if quick else [1, 2, 3, 4, 5, 6, 7]):
                for per in (False, True):
                    yield {"kind": "trotterderiv", "builder": b, "L": L, "per": per, "sub": sub()}
        for b in ("ising2d", "heis2d"):
            for (R, C) in ([(1, 2), (2, 2), (2, 3), (3, 2), (1, 4)] if quick else [(1, 1), (1, 2), (1, 4), (2, 2), (2, 3), (3, 2), (4, 2), (3, 3)]):
                yield {"kind": "trotterderiv", "builder": b, "R": R, "C": C, "sub": sub()}
    for L in (1, 2, 3):
        yield {"kind": "trotterderiv", "builder": "fh1d", "L": L, "sub": sub()}
    for (lx, ly) in [(1, 1), (2, 1), (1, 2), (3, 1), (2, 2)]:
        yield {"kind": "trotterderiv", "builder": "fh2d", "Lx": lx, "Ly": ly, "sub": sub()}


def real_rotation_gens(circ):
    """[(pauli dict, c)] with gate = exp(-i c P) for every gate of the real circuit, in circuit order; None if the circuit contains a
    gate that is not a Pauli rotation (Fermi–Hubbard builders)"""
    out = []
    for inst in circ.data:
        op = inst.operation
        if op.name == "barrier":
            continue
        if op.name not in ROT_AXES:
            return None
        qs = [circ.find_bit(q).index for q in inst.qubits]
        out.append(({q: ROT_AXES[op.name][k] for k, q in enumerate(qs)}, float(op.params[0]) / 2))
    return out


def xt_setup(inp, rng):
    """(one_step(dt) -> real circuit, n_step(T, N) -> real circuit, dense documented H in qiskit order, request builder, what, sig)"""
    b = inp["builder"]
    if b in ("ising", "heis"):
        L, per = inp["L"], inp["per"]
        bonds = chain_bonds(L, per)
        rec = []
        if L == 2 and per:
            bonds = [(0, 1), (0, 1)]  # both builders count the wrap bond of a 2-chain twice
        if b == "ising":
            J, g = coup(rng), coup(rng)
            H = spin_h(L, bonds, {"Z": J}, {"X": g})
            one = lambda dt: cl.create_ising_circuit(L, J, g, dt, 1, periodic=per)  # noqa: E731
            many = lambda T, N: cl.create_ising_circuit(L, J, g, T / N, N, periodic=per)  # noqa: E731
            req = lambda dt: f"circ ising {L} {int(per)} 1 | {ib.fracs([J, g, dt])}"  # noqa: E731
            with capture_from_pauli_sum(rec):
                mpo = None if (L == 1 and per) else MPO.ising(L, J, g, bc="periodic" if per else "open")
        else:
            Jx, Jy, Jz = coup(rng), coup(rng), coup(rng)
            h = 0.0 if (inp.get("h0") or rng.random() < 0.25) else coup(rng)
            H = spin_h(L, bonds, {"X": Jx, "Y": Jy, "Z": Jz}, {"Z": h})
            one = lambda dt: cl.create_heisenberg_circuit(L, Jx, Jy, Jz, h, dt, 1, periodic=per)  # noqa: E731
            many = lambda T, N: cl.create_heisenberg_circuit(L, Jx, Jy, Jz, h, T / N, N, periodic=per)  # noqa: E731
            req = lambda dt: f"circ heis {L} {int(per)} 1 | {ib.fracs([Jx, Jy, Jz, h, dt])}"  # noqa: E731
            with capture_from_pauli_sum(rec):
                mpo = None if (L == 1 and per) else MPO.heisenberg(L, Jx, Jy, Jz, h, bc="periodic" if per else "open")
        hsrc = "explicit Kronecker sum"
        ham_case = None
        if mpo is not None:  # the Hamiltonian builder of the same name IS the documented Hamiltonian (site 0 leftmost -> qiskit order)
            hm = np.asarray(mpo.to_matrix(), dtype=complex)
            if rec:  # entries of the real to_matrix() vs the automaton path sum of the captured terms at the digits of (row, column)
                pairs = []
                for _ in range(6):
                    i = rng.randrange(2**L)
                    r = rng.random()
                    j = i if r < 0.3 else (i ^ (1 << rng.randrange(L)) if r < 0.7 else rng.randrange(2**L))
                    pairs.append((i, j))
                digs = lambda k: [int(x) for x in format(k, f"0{L}b")]  # noqa: E731  (site 0 most significant)
                ham_case = {"req": f"fsmpath {L} | {terms_string(rec[0][0]) if rec[0][0] else 'none'} | " + " ; ".join(" ".join(map(str, digs(i) + digs(j))) for i, j in pairs),
                            "impl": " ".join(cfmt(hm[i, j]) for i, j in pairs), "oracle": None, "kind": "trotter-deriv-ham-" + b,
                            "sig": f"tderivham:{b}:{L}:{per}", "nontrivial": any(abs(hm[i, j]) > 0 for i, j in pairs)}
            perm = np.array([int(format(k, f"0{L}b")[::-1], 2) for k in range(2**L)])
            Hm = hm[np.ix_(perm, perm)]
            dd = float(np.linalg.norm(Hm - H))
            if dd > 1e-9 * (1 + float(np.linalg.norm(H))):
                return None, (f"{b}(L={L}, periodic={per}): MPO builder of the same name differs from the documented Hamiltonian by {dd:.2e}", ham_case)
            H = Hm
            hsrc = "MPO." + ("ising" if b == "ising" else "heisenberg") + ".to_matrix()"
        return (one, many, H, req, f"{b}(L={L}, periodic={per})", f"{b}:{L}:{per}", hsrc, ham_case), None
    if b in ("ising2d", "heis2d"):
        R, C = inp["R"], inp["C"]
        nq = R * C
        bonds = grid_bonds(R, C)
        if b == "ising2d":
            J, g = coup(rng), coup(rng)
            H = spin_h(nq, bonds, {"Z": J}, {"X": g})
            one = lambda dt: cl.create_2d_ising_circuit(R, C, J, g, dt, 1)  # noqa: E731
            many = lambda T, N: cl.create_2d_ising_circuit(R, C, J, g, T / N, N)  # noqa: E731
            req = lambda dt: f"circ ising2d {R} {C} 1 | {ib.fracs([J, g, dt])}"  # noqa: E731
        else:
            Jx, Jy, Jz = coup(rng), coup(rng), coup(rng)
            h = 0.0 if (inp.get("h0") or rng.random() < 0.25) else coup(rng)
            H = spin_h(nq, bonds, {"X": Jx, "Y": Jy, "Z": Jz}, {"Z": h})
            one = lambda dt: cl.create_2d_heisenberg_circuit(R, C, Jx, Jy, Jz, h, dt, 1)  # noqa: E731
            many = lambda T, N: cl.create_2d_heisenberg_circuit(R, C, Jx, Jy, Jz, h, T / N, N)  # noqa: E731
            req = lambda dt: f"circ heis2d {R} {C} 1 | {ib.fracs([Jx, Jy, Jz, h, dt])}"  # noqa: E731
        return (one, many, H, req, f"{b}({R}x{C})", f"{b}:{R}x{C}", "explicit Kronecker sum", None), None
    u, t, mu = coup(rng), coup(rng), coup(rng)
    split = rng.random() < 0.5  # N sub-steps either as num_trotter_steps = N, timesteps = 1 or the other way round
    if b == "fh1d":
        L = inp["L"]
        H = fh_h_1d(L, u, t, mu)
        one = lambda dt: cl.create_1d_fermi_hubbard_circuit(L, u, t, mu, 1, dt, 1)  # noqa: E731
        many = (lambda T, N: cl.create_1d_fermi_hubbard_circuit(L, u, t, mu, N, T, 1)) if split else \
            (lambda T, N: cl.create_1d_fermi_hubbard_circuit(L, u, t, mu, 1, T / N, N))  # noqa: E731
        req = lambda dt: f"circ fh1d {L} 1 1 | {ib.fracs([u, t, mu, dt])}"  # noqa: E731
        return (one, many, H, req, f"fermi_hubbard_1d(L={L})", f"fh1d:{L}:{split}", "explicit Kronecker sum", None), None
    Lx, Ly = inp["Lx"], inp["Ly"]
    H, _ = fh_h_2d(Lx, Ly, u, t, mu)
    one = lambda dt: cl.create_2d_fermi_hubbard_circuit(Lx, Ly, u, t, mu, 1, dt, 1)  # noqa: E731
    many = (lambda T, N: cl.create_2d_fermi_hubbard_circuit(Lx, Ly, u, t, mu, N, T, 1)) if split else \
        (lambda T, N: cl.create_2d_fermi_hubbard_circuit(Lx, Ly, u, t, mu, 1, T / N, N))  # noqa: E731
    req = lambda dt: f"circ fh2d {Lx} {Ly} 1 1 | {ib.fracs([u, t, mu, dt])}"  # noqa: E731
    return (one, many, H, req, f"fermi_hubbard_2d(Lx={Lx}, Ly={Ly})", f"fh2d:{Lx}x{Ly}:{split}", "explicit Kronecker sum", None), None


def xt_spec(name, value, bound):
    """a consequence of the theorems and the gate conventions alone: `value ≤ bound`"""
    XTSPEC["n"] += 1
    slack = value - bound * (1 + 1e-9) - 1e-11
    XTSPEC["worst"] = max(XTSPEC["worst"], slack)
    if slack > 0:
        XTSPEC["bad"] += 1
        XTSPEC["detail"] = f"{name}: {value:.6e} exceeds the theorem's bound {bound:.6e}"


def run_trotter_deriv(inp):
    rng = random.Random(inp["sub"])
    b = inp["builder"]
    setup, bad = xt_setup(inp, rng)
    if setup is None:
        msg, ham_case = bad
        return [{"req": None, "impl": None, "oracle": ok([msg]), "kind": "trotter-deriv-" + b, "sig": f"tderiv:{b}:mpo"}] + ([ham_case] if ham_case else [])
    one, many, H, req, what, sig, hsrc, ham_case = setup
    dim = H.shape[0]
    eye = np.eye(dim, dtype=complex)
    hn = float(np.linalg.norm(H, 2))
    dt0 = 0.05 / max(1.0, hn)
    probs = []
    # ---- the step whose unitary is differentiated is the model's step (value tie) ----
    c0 = one(dt0)
    tie = {"req": req(dt0), "impl": gate_tokens(c0), "oracle": None, "kind": "trotter-deriv-step-" + b, "sig": f"tderivstep:{sig}",
           "nontrivial": len(c0.data) > 1}
    # ---- (a) generators of the real step sum to dt * H ----
    gens = real_rotation_gens(c0)
    if b in ("ising", "heis", "ising2d", "heis2d") and gens is None:
        probs.append(f"{what}: the step contains a gate that is not a Pauli rotation")
    nq = c0.num_qubits
    G = None
    if gens is not None:
        G = np.zeros((dim, dim), dtype=complex)
        for ops, c in gens:
            G += c * pauli_le(ops, nq)
        dg = float(np.linalg.norm(G - dt0 * H, 2))
        XT_OBS["gensum"] = max(XT_OBS["gensum"], dg / (dt0 * (1 + hn)))
        if dg > 1e-9 * dt0 * (1 + hn):
            probs.append(f"{what}: the generators of one circuit step (dt={dt0:.4g}) sum to an operator that differs from dt*H by "
                         f"{dg:.3e} (relative {dg / (dt0 * (1 + hn)):.3e}); H from {hsrc}")
    # ---- (b), (c) derivative of the real one-step unitary at dt = 0 ----
    Ds, errs, U0 = [], [], None
    for k in range(3):
        dt = dt0 / 2**k
        U = Operator(c0 if k == 0 else one(dt)).data
        if k == 0:
            U0 = U
        D = (U - eye) / dt
        Ds.append(D)
        errs.append(float(np.linalg.norm(D + 1j * H, 2)))
    detail = f"|(U(dt)-1)/dt + iH| = {errs[0]:.3e} {errs[1]:.3e} {errs[2]:.3e} at dt = {dt0:.4g}, /2, /4"
    if hn < 1e-12:
        if max(errs) > 1e-9:
            probs.append(f"{what}: H = 0 but the step is not the identity ({detail})")
    else:
        r1, r2 = errs[0] / max(errs[1], 1e-300), errs[1] / max(errs[2], 1e-300)
        XT_OBS["ratio_min"] = min(XT_OBS["ratio_min"], r1, r2)
        detail += f" ratios {r1:.3f} {r2:.3f}"
        if r1 < 1.6 or r2 < 1.6:
            probs.append(f"{what}: (U(dt) - 1)/dt does not approach -iH of the documented Hamiltonian as dt is halved: {detail}")
        R1a, R1b = 2 * Ds[1] - Ds[0], 2 * Ds[2] - Ds[1]
        lim = (4 * R1b - R1a) / 3
        dl = float(np.linalg.norm(lim + 1j * H, 2)) / (1 + hn)
        XT_OBS["limit"] = max(XT_OBS["limit"], dl)
        detail += f" limit-dev {dl:.2e}"
        if dl > 2e-3:
            probs.append(f"{what}: the derivative of the one-step unitary at dt = 0 (Richardson limit of the three step sizes) differs "
                         f"from -iH by {dl:.3e} (relative to 1 + |H|); H from {hsrc}")
    # ---- spec: the theorems' explicit constants on the real unitary ----
    if G is not None:
        s = float(sum(abs(c) for _, c in gens))
        xt_spec(f"{what} |U - 1 + iG|", float(np.linalg.norm(U0 - eye + 1j * G, 2)), math.exp(s) - 1 - s)
        xt_spec(f"{what} |U - exp(-iG)|", float(np.linalg.norm(U0 - sla.expm(-1j * G), 2)), s * s * math.exp(s))
    # ---- (d) N steps: power of the step, error ∝ 1/N ----
    T = rng.uniform(0.3, 0.6)
    n0 = 4
    Uex = sla.expm(-1j * H * T)
    gerrs = []
    for N in (n0, 2 * n0, 4 * n0):
        c1 = one(T / N)
        U1 = Operator(c1).data
        UN = np.linalg.matrix_power(U1, N)
        if N == n0:
            Ureal = Operator(many(T, N)).data
            dp = float(np.linalg.norm(Ureal - UN, 2))
            XT_OBS["power"] = max(XT_OBS["power"], dp)
            if dp > 1e-9:
                probs.append(f"{what}: the circuit of {N} steps is not the {N}-th power of its one-step circuit (differs by {dp:.3e})")
            g1 = real_rotation_gens(c1)
            if g1 is not None:
                s1 = float(sum(abs(c) for _, c in g1))
                G1 = np.zeros((dim, dim), dtype=complex)
                for ops, c in g1:
                    G1 += c * pauli_le(ops, nq)
                xt_spec(f"{what} |U^N - exp(-iNG)|", float(np.linalg.norm(UN - sla.expm(-1j * N * G1), 2)), N * s1 * s1 * math.exp(s1))
        gerrs.append(float(np.linalg.norm(UN - Uex, 2)))
    detail += f"; N-step errors {gerrs[0]:.2e} {gerrs[1]:.2e} {gerrs[2]:.2e} (T={T:.3f}, N={n0},{2 * n0},{4 * n0})"
    if gerrs[0] < 1e-9:  # commuting terms: exact at every step count
        if max(gerrs) > 1e-8:
            probs.append(f"{what}: exact at {n0} steps but error {max(gerrs):.2e} after refinement")
    else:
        q1, q2 = gerrs[0] / max(gerrs[1], 1e-300), gerrs[1] / max(gerrs[2], 1e-300)
        XT_OBS["gratio_min"] = min(XT_OBS["gratio_min"], q1, q2)
        detail += f" ratios {q1:.2f} {q2:.2f}"
        if gerrs[2] > 1e-9 and (q1 < 1.6 or q2 < 1.6):
            probs.append(f"{what}: the N-step error does not shrink like 1/N: {gerrs[0]:.3e} {gerrs[1]:.3e} {gerrs[2]:.3e}, ratios {q1:.2f} {q2:.2f}")
        if gerrs[2] > 0.5:
            probs.append(f"{what}: the N-step error stays large: {gerrs[2]:.3e} at N = {4 * n0}")
    orc = {"req": None, "impl": None, "oracle": ok(probs, detail), "kind": "trotter-deriv-" + b, "sig": f"tderiv:{sig}"}
    return [tie, orc] + ([ham_case] if ham_case else [])


# ============================================================================================= extension xh07: Fermi–Hubbard generators
# (theorems `p_gate_generators`, `cp_gate_generators`, `cnot_ladder_conjugation`, `hopping_block_unitary`, `hubbard1d_step_generators`,
#  `hubbard2d_step_generators`, `jordan_wigner_image`, `hubbard_hamiltonian_is_jordan_wigner`, `hubbard1d_step_consistent`, … of
#  Props/C07.lean; model `Model/TrotterHubbard.lean`, lemma files Lemmas/TrotterKron|TrotterHubbardGates|TrotterHubbard.lean)
#
# kind `hubgens`   one REAL sub-step of create_1d / create_2d_fermi_hubbard_circuit (first len/n gates of the real circuit):
#   trace tie  hubbard-gens-*     every real gate / hopping block read as generators (p -> (1, -θ/2), (Z, θ/2); cp -> four; rxx/ryy -> one;
#                                 the block  B(i) B(j) cx(j-1,j)…cx(i,j) rz_j(α) cx… B†(i) B†(j)  -> (P_i Z…Z P_j, α/2)) in circuit order vs the
#                                 model's `fh1dGens` / `fh2dGens` (driver `fhgens`): the list `hubbard?d_step_generators` talks about
#              hubbard-merged-*   the same generators summed per Pauli string vs the model (driver `fhmerged`)
#   oracle     hubbard-gens-*     (a) the product of exp(-i c P) over the generators read off the real gates IS the unitary of the real
#                                 sub-step (qiskit `Operator`) — validates the reading, and is `circMat = stepUnitary` on the real code;
#                                 (b) they sum to (dt/n)·H with H the Jordan–Wigner matrix built INDEPENDENTLY from fermionic operators
# kind `hubderiv`  `trotter-deriv` for the two Hubbard builders with that independent H_JW as the dense reference (sizes 1-D L = 1..3,
#                  2-D up to 2x2 / 3x1 / 1x3): hubbard-deriv-step-* (gate-list tie), hubbard-deriv-* (derivative of the real one-step
#                  unitary at dt = 0 is -i H_JW; N-step circuit = power; N-step error shrinks), and
#   spec tie   hubbard-terms-*    the Pauli decomposition of that H_JW vs the model's `hubbard1dTerms` / `hubbard2dTerms` (driver `fhterms`)
# kind `hubhop`    the hopping block for distances 1..5: qiskit `Operator` of the REAL `add_hopping_term` / `add_long_range_interaction`
#                  output vs exp(-i α/2 XZ…ZX)·exp(-i α/2 YZ…ZY) resp. exp(-i α/2 PZ…ZP) (oracle hubbard-hop / hubbard-lri) and the
#                  generators read off its gate list vs the model (`hopgens`, `lrigen`; incl. the IndexError branch)
# spec tie         qiskit's p / cp / cx / ry(±π/2) / rx(±π/2) matrices and qubit order = the explicit Kronecker forms of `gateMat`

XH_KINDS = {"hubgens", "hubderiv", "hubhop", "hubgatespec"}
XHSPEC = {"n": 0, "bad": 0, "worst": 0.0, "detail": ""}
XH_OBS = {"unitary": 0.0, "gensum": 0.0, "hop": 0.0, "car": 0.0}
SIGMA_MINUS = np.array([[0, 1], [0, 0]], dtype=complex)   # |0><1| : annihilates the occupied state |1>, n = (1 - Z)/2


def gen_xh(rng, tier):
    quick = tier == "quick"

    def sub():
        return rng.randrange(1 << 30)

    yield {"kind": "hubgatespec", "sub": sub()}
    for _rep in range(1 if quick else 3):
        for L in (1, 2, 3):
            yield {"kind": "hubderiv", "builder": "fh1d", "L": L, "sub": sub()}
        for (lx, ly) in [(1, 1), (2, 1), (1, 2), (3, 1), (1, 3), (2, 2)]:
            yield {"kind": "hubderiv", "builder": "fh2d", "Lx": lx, "Ly": ly, "sub": sub()}
        for L in (1, 2, 3, 4):
            for n in (1, 2):
                yield {"kind": "hubgens", "builder": "fh1d", "L": L, "n": n, "sub": sub()}
        for (lx, ly) in [(1, 1), (2, 1), (1, 2), (3, 1), (1, 3), (2, 2), (4, 1)]:
            yield {"kind": "hubgens", "builder": "fh2d", "Lx": lx, "Ly": ly, "n": rng.choice([1, 2, 3]), "sub": sub()}
        for d in (1, 2, 3, 4, 5):
            for _ in range(2 if quick else 6):
                yield {"kind": "hubhop", "d": d, "sub": sub()}
        for _ in range(4):
            yield {"kind": "hubhop", "d": -rng.randrange(0, 3), "sub": sub()}


def kron_le(ops: dict, n: int) -> np.ndarray:
    """qiskit convention (qubit 0 least significant) for arbitrary one-qubit matrices"""
    m = np.eye(1, dtype=complex)
    for q in range(n - 1, -1, -1):
        m = np.kron(m, ops.get(q, PAULI["I"]))
    return m


def jw_annihilators(n):
    """c_q = Z_0 … Z_{q-1} σ⁻_q for q = 0..n-1 (Jordan–Wigner order = qubit order), as dense matrices in qiskit's qubit order"""
    out = []
    for q in range(n):
        ops = {k: PAULI["Z"] for k in range(q)}
        ops[q] = SIGMA_MINUS
        out.append(kron_le(ops, n))
    return out


def jw_hubbard(n, up, dn, sites, bonds, u, t, mu):
    """H = -t Σ_{<pq>σ} (c†_{pσ} c_{qσ} + h.c.) + u Σ_p n_{p↑} n_{p↓} - μ Σ_{pσ} n_{pσ} from fermionic operators only"""
    c = jw_annihilators(n)
    cd = [x.conj().T for x in c]
    # the operators are fermionic modes (checked, recorded)
    worst = 0.0
    eye = np.eye(2**n)
    for p in range(n):
        for q in range(n):
            worst = max(worst, float(np.abs(c[p] @ cd[q] + cd[q] @ c[p] - (eye if p == q else 0)).max()),
                        float(np.abs(c[p] @ c[q] + c[q] @ c[p]).max()))
    XH_OBS["car"] = max(XH_OBS["car"], worst)
    num = [cd[q] @ c[q] for q in range(n)]
    H = np.zeros((2**n, 2**n), dtype=complex)
    for (p, q) in bonds:
        for layout in (up, dn):
            a, b = layout(p), layout(q)
            H += -t * (cd[a] @ c[b] + cd[b] @ c[a])
    for p in sites:
        H += u * (num[up(p)] @ num[dn(p)])
        H += -mu * (num[up(p)] + num[dn(p)])
    return H


def jw_h_1d(L, u, t, mu):
    return jw_hubbard(2 * L, lambda j: j, lambda j: L + j, range(L), [(j, j + 1) for j in range(L - 1)], u, t, mu)


def lattice_bonds(Lx, Ly):
    bonds = []
    for y in range(Ly):
        for x in range(Lx):
            p = y * Lx + x
            if x + 1 < Lx:
                bonds.append((p, p + 1))
            if y + 1 < Ly:
                bonds.append((p, p + Lx))
    return bonds


def jw_h_2d(Lx, Ly, u, t, mu):
    bonds = lattice_bonds(Lx, Ly)
    return jw_hubbard(2 * Lx * Ly, lambda p: 2 * p, lambda p: 2 * p + 1, range(Lx * Ly), bonds, u, t, mu), bonds


def pauli_decompose(M, n, tol=1e-13):
    """{string: coefficient} with M = Σ coeff · P, string[k] = Pauli label on qubit k; M in qiskit order (qubit n-1 most significant)"""
    out = {}

    def rec(block, q, suffix):
        if float(np.abs(block).max()) <= tol:
            return
        if q < 0:
            out[suffix] = complex(block[0, 0])
            return
        h = block.shape[0] // 2
        A, B, C, D = block[:h, :h], block[:h, h:], block[h:, :h], block[h:, h:]
        rec((A + D) / 2, q - 1, "I" + suffix)
        rec((A - D) / 2, q - 1, "Z" + suffix)
        rec((B + C) / 2, q - 1, "X" + suffix)
        rec(1j * (B - C) / 2, q - 1, "Y" + suffix)

    rec(np.asarray(M, dtype=complex), n - 1, "")
    return out


def string_matrix(s):
    """dense matrix (qiskit order) of the Pauli string s, s[k] on qubit k"""
    return pauli_le({k: o for k, o in enumerate(s) if o != "I"}, len(s))


def exp_pauli(s, c):
    """exp(-i c P) for the Pauli string s"""
    P = string_matrix(s)
    return math.cos(c) * np.eye(P.shape[0], dtype=complex) - 1j * math.sin(c) * P


def zstr(n, qs):
    return "".join("Z" if k in qs else "I" for k in range(n))


def hopstr(n, i, j, o):
    return "".join(o if k in (i, j) else ("Z" if i < k < j else "I") for k in range(n))


def read_generators(circ, data=None):
    """[(string, c)] in circuit order with every gate / hopping block of the REAL circuit read as exp(-i c P) factors.
    Raises ValueError when a stretch of gates is not one of the shapes the library emits."""
    n = circ.num_qubits
    data = list(circ.data) if data is None else list(data)
    qs_of = lambda inst: [circ.find_bit(q).index for q in inst.qubits]  # noqa: E731
    out = []
    k = 0
    while k < len(data):
        inst = data[k]
        op = inst.operation
        nm = op.name
        qs = qs_of(inst)
        if nm == "barrier":
            k += 1
            continue
        if nm in ROT_AXES and not (nm in ("ry", "rx") and abs(abs(float(op.params[0])) - math.pi / 2) < 1e-15):
            ax = ROT_AXES[nm]
            if len(set(qs)) != len(qs):
                raise ValueError("repeated qubit")
            out.append(("".join(ax[qs.index(q)] if q in qs else "I" for q in range(n)), float(op.params[0]) / 2))
            k += 1
            continue
        if nm == "p":
            th = float(op.params[0])
            out += [(zstr(n, []), -th / 2), (zstr(n, qs), th / 2)]
            k += 1
            continue
        if nm == "cp":
            th = float(op.params[0])
            a, b = qs
            out += [(zstr(n, []), -th / 4), (zstr(n, [a]), th / 4), (zstr(n, [b]), th / 4), (zstr(n, [a, b]), -th / 4)]
            k += 1
            continue
        if nm in ("ry", "rx"):
            # basis change (+π/2 on i and j), ladder cx(k, j) k = j-1 … i, rz_j(α), ladder back, basis change back (-π/2)
            def basis(idx, sign):
                g = data[idx]
                if g.operation.name != nm or float(g.operation.params[0]) != sign * math.pi / 2:
                    raise ValueError(f"gate {idx}: expected {nm}({'+' if sign > 0 else '-'}pi/2)")
                return qs_of(g)[0]
            if k + 1 >= len(data):
                raise ValueError("truncated block")
            i, j = basis(k, 1), basis(k + 1, 1)
            m = k + 2
            down = []
            while m < len(data) and data[m].operation.name == "cx":
                down.append(tuple(qs_of(data[m])))
                m += 1
            if m >= len(data) or data[m].operation.name != "rz" or qs_of(data[m]) != [j]:
                raise ValueError("block: rz on the target expected after the ladder")
            alpha = float(data[m].operation.params[0])
            m += 1
            up_ = []
            while m < len(data) and data[m].operation.name == "cx" and len(up_) < len(down):
                up_.append(tuple(qs_of(data[m])))
                m += 1
            if not (i < j) or down != [(c, j) for c in range(j - 1, i - 1, -1)] or up_ != down[::-1]:
                raise ValueError(f"block ({i},{j}): ladder {down} / {up_} is not cx(k, {j}) for k = {j - 1}..{i} and back")
            if m + 1 >= len(data) or basis(m, -1) != i or basis(m + 1, -1) != j:
                raise ValueError("block: closing basis change")
            out.append((hopstr(n, i, j, "X" if nm == "ry" else "Y"), alpha / 2))
            k = m + 2
            continue
        raise ValueError(f"gate {nm} is not a gate of the Hubbard builders")
    return out


def gens_tokens(gens):
    return " ; ".join(f"{ib.fmt(c)} {s}" for s, c in gens) if gens else "empty"


def merged_tokens(gens):
    acc = {}
    for s, c in gens:
        acc[s] = acc.get(s, 0.0) + c
    items = sorted((s, c) for s, c in acc.items() if c != 0.0)
    return " ; ".join(f"{ib.fmt(c)} {s}" for s, c in items) if items else "empty"


def hparam(rng):
    """rational-friendly, zero, or generic; never so small that a merged coefficient is decided by rounding"""
    r = rng.random()
    if r < 0.3:
        return rng.choice([1, 2, 3, 5, 7, -1, -3]) / rng.choice([1, 2, 4, 8])
    if r < 0.4:
        return 0.0
    return rng.choice([-1, 1]) * rng.uniform(0.2, 1.5)


def run_hubgens(inp):
    rng = random.Random(inp["sub"])
    b = inp["builder"]
    n = inp["n"]
    u, t, mu = hparam(rng), hparam(rng), hparam(rng)
    dt = posparam(rng)
    if b == "fh1d":
        L = inp["L"]
        nq = 2 * L
        circ = cl.create_1d_fermi_hubbard_circuit(L, u, t, mu, n, dt, 1)
        H = jw_h_1d(L, u, t, mu)
        head = f"1d {L} {n}"
        what = f"fermi_hubbard_1d(L={L}, n={n})"
        sig = f"{b}:{L}:{n}"
    else:
        Lx, Ly = inp["Lx"], inp["Ly"]
        nq = 2 * Lx * Ly
        circ = cl.create_2d_fermi_hubbard_circuit(Lx, Ly, u, t, mu, n, dt, 1)
        H, _ = jw_h_2d(Lx, Ly, u, t, mu)
        head = f"2d {Lx} {Ly} {n}"
        what = f"fermi_hubbard_2d(Lx={Lx}, Ly={Ly}, n={n})"
        sig = f"{b}:{Lx}x{Ly}:{n}"
    data = list(circ.data)
    probs = []
    if len(data) % n != 0:
        probs.append(f"{what}: {len(data)} gates are not {n} equal sub-steps")
    sub_data = data[: len(data) // n]
    pars = ib.fracs([u, t, mu, dt])
    try:
        gens = read_generators(circ, sub_data)
        impl_g, impl_m = gens_tokens(gens), merged_tokens(gens)
    except ValueError as e:
        gens = None
        impl_g = impl_m = "unreadable: " + str(e).replace(" ", "_")
    out = [{"req": f"fhgens {head} | {pars}", "impl": impl_g, "oracle": None, "kind": "hubbard-gens-" + b, "sig": "hubgens:" + sig,
            "nontrivial": True},
           {"req": f"fhmerged {head} | {pars}", "impl": impl_m, "oracle": None, "kind": "hubbard-merged-" + b, "sig": "hubmerged:" + sig,
            "nontrivial": True}]
    detail = ""
    sub_c = QuantumCircuit(nq)
    for inst in sub_data:
        sub_c.append(inst.operation, [circ.find_bit(q).index for q in inst.qubits])
    U = Operator(sub_c).data
    if gens is None:
        probs.append(f"{what}: a stretch of the real sub-step is none of p / cp / rxx / ryy / hopping block: {impl_g}")
    else:
        V = np.eye(2**nq, dtype=complex)
        for s, c in gens:  # circuit order: later gates multiply from the left
            V = exp_pauli(s, c) @ V
        du = float(np.linalg.norm(U - V, 2))
        XH_OBS["unitary"] = max(XH_OBS["unitary"], du)
        if du > 1e-9:  # observed <= 4e-15
            probs.append(f"{what} (u={u}, t={t}, mu={mu}, dt={dt}): the unitary of the real sub-step differs by {du:.3e} from the product of "
                         f"exp(-i c P) over its gates read as generators")
        G = np.zeros((2**nq, 2**nq), dtype=complex)
        for s, c in gens:
            G += c * string_matrix(s)
        tau = dt / n
        hn = float(np.linalg.norm(H, 2))
        dg = float(np.linalg.norm(G - tau * H, 2))
        XH_OBS["gensum"] = max(XH_OBS["gensum"], dg / (tau * (1 + hn)))
        if dg > 1e-9 * tau * (1 + hn):  # observed <= 3e-16 relative
            probs.append(f"{what} (u={u}, t={t}, mu={mu}, dt={dt}): the generators of one sub-step sum to an operator that differs from "
                         f"(dt/n)·H_JW by {dg:.3e} (relative {dg / (tau * (1 + hn)):.3e}); H_JW = -t Σ(c†c + h.c.) + u Σ n↑n↓ - μ Σ n "
                         f"built from Jordan–Wigner fermionic operators")
        detail = f"|U - Π exp(-icP)| {du:.1e}, |Σ cP - τH_JW|/τ(1+|H|) {dg / (tau * (1 + hn)):.1e}, {len(gens)} generators"
    # all n sub-steps of the real circuit are the same gate list
    toks = [gate_tokens_of(circ, data[k * len(sub_data):(k + 1) * len(sub_data)]) for k in range(n)] if sub_data else []
    if any(tk != toks[0] for tk in toks):
        probs.append(f"{what}: the {n} sub-steps of the real circuit are not identical gate lists")
    out.append({"req": None, "impl": None, "oracle": ok(probs, detail), "kind": "hubbard-gens-" + b, "sig": "hubgens-oracle:" + sig})
    return out


def gate_tokens_of(circ, data):
    c = QuantumCircuit(circ.num_qubits)
    for inst in data:
        c.append(inst.operation, [circ.find_bit(q).index for q in inst.qubits])
    return gate_tokens(c)


def run_hubderiv(inp):
    """`run_trotter_deriv` with the Jordan–Wigner matrix built from fermionic operators as the documented Hamiltonian, plus the tie of
    the model's Pauli term list to the Pauli decomposition of that matrix"""
    rng = random.Random(inp["sub"])
    b = inp["builder"]
    g = globals()
    saved = (g["fh_h_1d"], g["fh_h_2d"])
    g["fh_h_1d"], g["fh_h_2d"] = jw_h_1d, jw_h_2d
    try:
        res = run_trotter_deriv(dict(inp, kind="trotterderiv"))
    finally:
        g["fh_h_1d"], g["fh_h_2d"] = saved
    out = []
    for r in res:
        r = dict(r)
        r["kind"] = str(r["kind"]).replace("trotter-deriv", "hubbard-deriv")
        r["sig"] = "jw:" + str(r.get("sig", ""))
        if r.get("oracle") is not None:
            r["oracle"] = dict(r["oracle"], detail="H = Jordan–Wigner matrix from fermionic operators; " + str(r["oracle"].get("detail", "")))
        out.append(r)
    # spec tie of the model's Hamiltonian: Pauli decomposition of H_JW (own parameters)
    u, t, mu = hparam(rng), hparam(rng), hparam(rng)
    if b == "fh1d":
        L = inp["L"]
        nq = 2 * L
        H = jw_h_1d(L, u, t, mu)
        Hdoc = fh_h_1d(L, u, t, mu)
        req = f"fhterms 1d {L} | {ib.fracs([u, t, mu])}"
        sig = f"fh1d:{L}"
    else:
        Lx, Ly = inp["Lx"], inp["Ly"]
        nq = 2 * Lx * Ly
        H, _ = jw_h_2d(Lx, Ly, u, t, mu)
        Hdoc, _ = fh_h_2d(Lx, Ly, u, t, mu)
        req = f"fhterms 2d {Lx} {Ly} | {ib.fracs([u, t, mu])}"
        sig = f"fh2d:{Lx}x{Ly}"
    dec = pauli_decompose(H, nq)
    items = sorted(dec.items())
    worst_im = max((abs(c.imag) for _, c in items), default=0.0)
    impl = " ; ".join(f"{ib.fmt(c.real)} {s}" for s, c in items) if items else "empty"
    # the docstring's Pauli form is the same operator (both references of the harness agree)
    dd = float(np.linalg.norm(H - Hdoc, 2))
    xh_spec(f"Jordan–Wigner matrix vs the docstring's Pauli form ({sig})", dd + worst_im, 1e-10)
    out.append({"req": req, "impl": impl, "oracle": None, "kind": "hubbard-terms-" + b, "sig": "hubterms:" + sig, "nontrivial": len(items) > 1})
    return out


def xh_spec(name, value, bound):
    XHSPEC["n"] += 1
    XHSPEC["worst"] = max(XHSPEC["worst"], value)
    if value > bound:
        XHSPEC["bad"] += 1
        XHSPEC["detail"] = f"{name}: {value:.3e} exceeds {bound:.1e}"


def run_hubhop(inp):
    rng = random.Random(inp["sub"])
    d = inp["d"]
    out = []
    alpha = hparam(rng) or 0.37
    if d <= 0:  # error branch: i >= j
        nq = rng.randrange(2, 6)
        j = rng.randrange(0, nq)
        i = min(nq - 1, j - d)
        circ = QuantumCircuit(nq)
        try:
            cl.add_hopping_term(circ, i, j, alpha)
            impl = gens_tokens(read_generators(circ))
        except IndexError:
            impl = "IndexError"
        return [{"req": f"hopgens {nq} {i} {j} | {ib.frac(alpha)}", "impl": impl, "oracle": None, "kind": "hubbard-hop",
                 "sig": f"hubhop:err:{i >= j}", "nontrivial": False}]
    nq = d + 1 + rng.randrange(0, 3)
    i = rng.randrange(0, nq - d)
    j = i + d
    # --- add_hopping_term ---
    circ = QuantumCircuit(nq)
    cl.add_hopping_term(circ, i, j, alpha)
    U = Operator(circ).data
    ref = exp_pauli(hopstr(nq, i, j, "Y"), alpha / 2) @ exp_pauli(hopstr(nq, i, j, "X"), alpha / 2)
    dev = float(np.linalg.norm(U - ref, 2))
    XH_OBS["hop"] = max(XH_OBS["hop"], dev)
    probs = []
    if dev > 1e-9:  # observed <= 3e-15
        probs.append(f"add_hopping_term(circ[{nq}], {i}, {j}, {alpha}): Operator differs from exp(-i a/2 XZ..ZX)·exp(-i a/2 YZ..ZY) by {dev:.3e} "
                     f"(distance {d})")
    try:
        impl = gens_tokens(read_generators(circ))
    except ValueError as e:
        impl = "unreadable: " + str(e).replace(" ", "_")
    out.append({"req": f"hopgens {nq} {i} {j} | {ib.frac(alpha)}", "impl": impl, "oracle": ok(probs, f"dev {dev:.1e}"), "kind": "hubbard-hop",
                "sig": f"hubhop:{d}:{nq}", "nontrivial": True})
    # --- add_long_range_interaction, both outer operators ---
    for o in ("X", "Y"):
        c2 = QuantumCircuit(nq)
        cl.add_long_range_interaction(c2, i, j, o if rng.random() < 0.5 else o.lower(), alpha)
        U2 = Operator(c2).data
        dev2 = float(np.linalg.norm(U2 - exp_pauli(hopstr(nq, i, j, o), alpha / 2), 2))
        XH_OBS["hop"] = max(XH_OBS["hop"], dev2)
        p2 = []
        if dev2 > 1e-9:
            p2.append(f"add_long_range_interaction(circ[{nq}], {i}, {j}, {o}, {alpha}): Operator differs from exp(-i a/2 {o}Z..Z{o}) by {dev2:.3e} "
                      f"(distance {d})")
        try:
            impl2 = gens_tokens(read_generators(c2))
        except ValueError as e:
            impl2 = "unreadable: " + str(e).replace(" ", "_")
        out.append({"req": f"lrigen {nq} {i} {j} {o} | {ib.frac(alpha)}", "impl": impl2, "oracle": ok(p2, f"dev {dev2:.1e}"),
                    "kind": "hubbard-lri", "sig": f"hublri:{o}:{d}:{nq}", "nontrivial": True})
    return out


def run_hubgatespec(inp):
    """spec tie: qiskit's matrices and qubit order are the explicit Kronecker forms `gateMat` uses for p, cp, cx, ry(±π/2), rx(±π/2)"""
    rng = random.Random(inp["sub"])
    from qiskit.circuit.library import CXGate
    th = rng.uniform(-2, 2)
    hs = 1 / math.sqrt(2)
    P0 = np.array([[1, 0], [0, 0]], dtype=complex)
    P1 = np.array([[0, 0], [0, 1]], dtype=complex)
    ph = np.diag([1, np.exp(1j * th)])
    one = [
        ("p", PhaseGate(th), ph),
        ("ry(+pi/2)", RYGate(math.pi / 2), hs * np.array([[1, -1], [1, 1]], dtype=complex)),
        ("ry(-pi/2)", RYGate(-math.pi / 2), hs * np.array([[1, 1], [-1, 1]], dtype=complex)),
        ("rx(+pi/2)", RXGate(math.pi / 2), hs * np.array([[1, -1j], [-1j, 1]], dtype=complex)),
        ("rx(-pi/2)", RXGate(-math.pi / 2), hs * np.array([[1, 1j], [1j, 1]], dtype=complex)),
    ]
    nq = 3
    for name, gate, m in one:
        xh_spec(f"{name} matrix", float(np.abs(Operator(gate).data - m).max()), 1e-12)
        q = rng.randrange(nq)
        c = QuantumCircuit(nq)
        c.append(gate, [q])
        xh_spec(f"{name} on qubit {q} of {nq}", float(np.abs(Operator(c).data - kron_le({q: m}, nq)).max()), 1e-12)
    for (a, b) in [(0, 1), (1, 0), (0, 2), (2, 0), (1, 2)]:
        c = QuantumCircuit(nq)
        c.append(CXGate(), [a, b])
        xh_spec(f"cx({a},{b})", float(np.abs(Operator(c).data - (kron_le({a: P0}, nq) + kron_le({a: P1, b: PAULI['X']}, nq))).max()), 1e-12)
        c = QuantumCircuit(nq)
        c.append(CPhaseGate(th), [a, b])
        xh_spec(f"cp({a},{b})", float(np.abs(Operator(c).data - (kron_le({a: P0}, nq) + kron_le({a: P1, b: ph}, nq))).max()), 1e-12)
    return {"req": None, "impl": None, "oracle": None, "kind": "hubbard-gatespec", "sig": "hubgatespec", "nontrivial": False}


def run_xh(inp):
    k = inp["kind"]
    if k == "hubgens":
        return run_hubgens(inp)
    if k == "hubderiv":
        return run_hubderiv(inp)
    if k == "hubhop":
        return run_hubhop(inp)
    if k == "hubgatespec":
        return run_hubgatespec(inp)
    raise ValueError(k)


def gen_all(rng, tier):
    yield from gen(rng, tier)
    yield from gen_ext(rng, tier)
    yield from gen_xt(rng, tier)
    yield from gen_xh(rng, tier)


def run_all(inp):
    if inp["kind"] in XH_KINDS:
        res = run_xh(inp)
        if "corpus_file" in inp:
            res = [dict(r, kind="corpus:" + str(r.get("kind", inp["kind"]))) for r in (res if isinstance(res, list) else [res])]
        return res
    if inp["kind"] in XT_KINDS:
        res = run_trotter_deriv(inp)
        if "corpus_file" in inp:
            res = [dict(r, kind="corpus:" + str(r.get("kind", inp["kind"]))) for r in (res if isinstance(res, list) else [res])]
        return res
    if inp["kind"] in EXT_KINDS:
        res = run_ext(inp)
        if "corpus_file" in inp:
            res = [dict(r, kind="corpus:" + str(r.get("kind", inp["kind"]))) for r in (res if isinstance(res, list) else [res])]
        return res
    return run(inp)


def spec_all():
    return spec() + [{"name": "LAPACK SVD on every matrix from_matrix / _compress_one_sweep decompose: u diag(s) vh = x, uᴴu = 1, vh vhᴴ = 1, "
                              "s sorted non-negative", "ok": SVDSPEC["bad"] == 0, "n": SVDSPEC["n"], "worst_residual": SVDSPEC["worst"],
                      "detail": SVDSPEC["detail"]},
                     {"name": "explicit constants of product_formula_second_order / trotter_converges on the real one-step and N-step unitaries of "
                              "the spin builders (|U - 1 + iG| <= e^s - 1 - s, |U - exp(-iG)| <= s^2 e^s, |U^N - exp(-iNG)| <= N s^2 e^s; G, s from the "
                              "real gate list); observed on this run: " + ", ".join(f"{k}={v:.3g}" for k, v in XT_OBS.items()),
                      "ok": XTSPEC["bad"] == 0, "n": XTSPEC["n"], "worst_residual": XTSPEC["worst"], "detail": XTSPEC["detail"]},
                     {"name": "xh07: qiskit's p / cp / cx / ry(±pi/2) / rx(±pi/2) matrices and qubit order are the explicit Kronecker forms of "
                              "`gateMat` (|0><0|_a ⊗ 1 + |1><1|_a ⊗ G_b, site = qubit); the harness's Jordan–Wigner matrix equals the docstring's "
                              "Pauli form; observed on this run: " + ", ".join(f"{k}={v:.3g}" for k, v in XH_OBS.items()),
                      "ok": XHSPEC["bad"] == 0, "n": XHSPEC["n"], "worst_residual": XHSPEC["worst"], "detail": XHSPEC["detail"]}]



# ======================================================================================================================
# xs07 extension: the palindromic (Strang) arrangement of the two Fermi–Hubbard builders — oracle kind `strang`
# (theorems `strang_local_error`, `strang_global`, `c07_hubbard_second_order`, `c07_hubbard2d_second_order`).  No new tie: the circuit
# structure the theorems are about is already tied by xh07's `hubbard-*` kinds.  The oracle checks, on the REAL circuits and against the
# dense documented Hamiltonian H = D + K (D = chemical potential + onsite, diagonal; K = hopping), exactly what the theorems claim:
#   (1) 1-D: one real sub-step = e^{-i(τ/2)D} · M(τ) · e^{-i(τ/2)D} with M(τ) the product of the hopping factors (even bonds, then odd bonds)
#   (2) ‖sub-step − e^{-iτH}‖ ≤ B(τ) := defect(τ) + σ³/3·e^σ, σ = |τ|(‖D‖+‖K‖), defect = 0 when there is at most one bond (the hopping
#       generators commute), else τ² s² e^{|τ|s}, s = Σ‖hopping generators‖ = 2·#bonds·|t|
#   (3) ‖n-sub-step circuit − e^{-i nτ H}‖ ≤ n·B(τ)
#   (4) RECORDS the observed local order log2(err(τ)/err(τ/2)); for ≤ 1 bond the theorem says O(τ³), so the ratio must be ≥ 6 (→ 8);
#       for more bonds the code is first order globally (hopping layers not symmetrised) — recorded, ratio ≈ 4, not demanded.
# ======================================================================================================================
XS_KINDS = {"strang"}
XS_OBS = {"max_err_over_bound": 0.0, "min_local_ratio_exact_middle": float("inf"), "max_local_ratio_inexact_middle": 0.0}


def gen_xs(rng, tier):
    quick = tier == "quick"

    def sub():
        return rng.randrange(1 << 30)

    for _rep in range(1 if quick else 4):
        for L in (1, 2, 2, 3):
            yield {"kind": "strang", "builder": "fh1d", "L": L, "sub": sub()}
        for (lx, ly) in [(1, 1), (2, 1), (1, 2), (3, 1), (2, 2)]:
            yield {"kind": "strang", "builder": "fh2d", "Lx": lx, "Ly": ly, "sub": sub()}


def run_strang(inp):
    rng = random.Random(inp["sub"])
    b = inp["builder"]
    u, t, mu = coup(rng), coup(rng), coup(rng)
    tau = rng.choice([-1, 1]) * rng.uniform(0.004, 0.012)
    n = rng.choice([2, 3])
    if b == "fh1d":
        L = inp["L"]
        nb = max(L - 1, 0)
        H, D, K = fh_h_1d(L, u, t, mu), fh_h_1d(L, u, 0.0, mu), fh_h_1d(L, 0.0, t, 0.0)
        build = lambda nn, dt: cl.create_1d_fermi_hubbard_circuit(L, u, t, mu, nn, dt, 1)  # noqa: E731
        what, sig = f"fermi_hubbard_1d(L={L})", f"strang:fh1d:{L}"
    else:
        Lx, Ly = inp["Lx"], inp["Ly"]
        (H, bonds), (D, _), (K, _) = fh_h_2d(Lx, Ly, u, t, mu), fh_h_2d(Lx, Ly, u, 0.0, mu), fh_h_2d(Lx, Ly, 0.0, t, 0.0)
        nb = len(bonds)
        build = lambda nn, dt: cl.create_2d_fermi_hubbard_circuit(Lx, Ly, u, t, mu, nn, dt, 1)  # noqa: E731
        what, sig = f"fermi_hubbard_2d({Lx}x{Ly})", f"strang:fh2d:{Lx}x{Ly}"
    probs = []
    if np.abs(D - np.diag(np.diag(D))).max() > 0 or np.linalg.norm(H - D - K, 2) > 1e-12:
        probs.append("harness: H = D + K with D diagonal failed")
    nD, nK = float(np.linalg.norm(D, 2)), float(np.linalg.norm(K, 2))
    s = 2.0 * nb * abs(t)
    exact_mid = nb <= 1

    def bound(tt):
        sg = abs(tt) * (nD + nK)
        defect = 0.0 if exact_mid else tt * tt * s * s * math.exp(abs(tt) * s)
        return defect + sg**3 / 3.0 * math.exp(sg)

    def sub_err(tt):
        return float(np.linalg.norm(Operator(build(1, tt)).data - sla.expm(-1j * tt * H), 2))

    U1 = Operator(build(1, tau)).data
    e1, e2 = sub_err(tau), sub_err(tau / 2)
    B1 = bound(tau)
    if e1 > B1 * (1 + 1e-9) + 1e-12:
        probs.append(f"{what}: one sub-step at tau={tau:.4g} is {e1:.3e} from exp(-i tau H), above the proved bound {B1:.3e} "
                     f"({'cubic Strang term only: <= 1 bond' if exact_mid else 'hopping-product defect + cubic Strang term'})")
    Un = Operator(build(n, n * tau)).data
    en = float(np.linalg.norm(Un - sla.expm(-1j * n * tau * H), 2))
    if en > n * B1 * (1 + 1e-9) + 1e-12:
        probs.append(f"{what}: {n} sub-steps at tau={tau:.4g} are {en:.3e} from exp(-i n tau H), above n x bound = {n * B1:.3e}")
    if float(np.linalg.norm(Un - np.linalg.matrix_power(U1, n), 2)) > 1e-10:
        probs.append(f"{what}: the {n}-sub-step circuit is not the {n}-th power of one sub-step")
    ratio = e1 / e2 if e2 > 1e-13 else float("nan")
    if B1 > 0:
        XS_OBS["max_err_over_bound"] = max(XS_OBS["max_err_over_bound"], e1 / B1, en / (n * B1))
    if exact_mid:
        if e2 > 1e-11:
            XS_OBS["min_local_ratio_exact_middle"] = min(XS_OBS["min_local_ratio_exact_middle"], ratio)
            if ratio < 6.0:
                probs.append(f"{what}: <= 1 bond, the palindromic sub-step must be third-order accurate locally, but err(tau)/err(tau/2) = "
                             f"{ratio:.2f} (errors {e1:.3e} {e2:.3e}, tau={tau:.4g})")
    elif e2 > 1e-13:
        XS_OBS["max_local_ratio_inexact_middle"] = max(XS_OBS["max_local_ratio_inexact_middle"], ratio)
    if b == "fh1d":
        # clause 1 of c07_hubbard_second_order on the real circuit (operator order: later gates to the left; W is diagonal)
        L = inp["L"]
        nq = 2 * L
        W = np.diag(np.exp(-0.5j * tau * np.diag(D)))

        def layer(js):
            m = np.eye(2**nq, dtype=complex)
            for j in js:
                for off in (0, L):
                    g = -0.5 * t * (pauli_le({off + j: "X", off + j + 1: "X"}, nq) + pauli_le({off + j: "Y", off + j + 1: "Y"}, nq))
                    m = sla.expm(-1j * tau * g) @ m
            return m

        M = layer([j for j in range(L - 1) if j % 2 == 1]) @ layer([j for j in range(L - 1) if j % 2 == 0])
        dstruct = float(np.linalg.norm(U1 - W @ M @ W, 2))
        if dstruct > 1e-10:
            probs.append(f"{what}: the real sub-step is not e^(-i tau/2 D) * (odd hopping layer * even hopping layer) * e^(-i tau/2 D): "
                         f"{dstruct:.3e} (tau={tau:.4g}) — the arrangement is not the palindrome the theorem is about")
    order = math.log2(ratio) if ratio == ratio and ratio > 0 else float("nan")
    detail = (f"tau={tau:.4g} bonds={nb} err(tau)={e1:.3e} bound={B1:.3e} err(tau/2)={e2:.3e} observed local order {order:.2f} "
              f"({'<= 1 bond, exact middle: third order proved' if exact_mid else '> 1 bond, hopping layers not symmetrised: proved bound is second order locally; higher is observed when the layers happen to commute, e.g. 2x2'}); "
              f"{n} sub-steps {en:.3e} <= {n * B1:.3e}")
    return {"req": None, "impl": None, "oracle": ok(probs, detail), "kind": "strang-" + b, "sig": sig + f":{n}"}


_gen_all_xh = gen_all
_run_all_xh = run_all
_spec_all_xh = spec_all


def gen_all(rng, tier):  # noqa: F811
    yield from _gen_all_xh(rng, tier)
    yield from gen_xs(rng, tier)


def run_all(inp):  # noqa: F811
    if inp["kind"] in XS_KINDS:
        res = run_strang(inp)
        if "corpus_file" in inp:
            res = dict(res, kind="corpus:" + str(res.get("kind", inp["kind"])))
        return res
    return _run_all_xh(inp)


def spec_all():  # noqa: F811
    return _spec_all_xh() + [{"name": "xs07: explicit constants of strang_local_error / c07_hubbard_second_order on the real Hubbard sub-steps "
                                      "(err <= defect + sigma^3/3 e^sigma); observed on this run: "
                                      + ", ".join(f"{k}={v:.3g}" for k, v in XS_OBS.items()),
                              "ok": True, "n": 1, "worst_residual": XS_OBS["max_err_over_bound"], "detail": ""}]


if __name__ == "__main__":
    ib.main("C07", gen_all, run_all, driver="Trotter",
            rule="gate lists of all circuit builders (chains L=1..9 x both bc, grids <= 4x4, seeded parameters/steps); terms captured "
                 "at from_pauli_sum for ising/heisenberg/hamiltonian; random Pauli term lists (repeats, identities, zero/complex "
                 "coefficients, long range, invalid) -> pre-compression bond dims, tensor entries, path sums; hand-written tables; "
                 "distinct = distinct (builder, size, bc, step/shape) signatures; extension: to_matrix / to_sparse_matrix entries of random "
                 "rational MPOs (d = 2, 3, mixed bonds, zero blocks) vs contraction loop, bond path sum at the index digits and Kronecker "
                 "accumulation; from_matrix and one compression sweep replayed from the captured SVD factors (every SVD input, every tensor); "
                 "extension xt07 (trotter-deriv): the real one-step circuit of all six builders (chains L=1..5 x both bc, grids <= 6 sites, "
                 "Hubbard <= 4 sites) -> gate list vs model step, generators summing to dt*H, derivative of the one-step unitary at dt=0 "
                 "against -iH (MPO.ising / MPO.heisenberg .to_matrix() or explicit Kronecker sum), N-step circuit = power of the step, "
                 "N-step error ~ 1/N; extension xh07 (hubbard-*): one real sub-step of both Hubbard builders (1-D L=1..4, 2-D up to 2x2 / 4x1; "
                 "n = 1..3) read gate by gate / block by block as generators vs the model's fh1dGens / fh2dGens, their product vs the real "
                 "unitary, their sum vs (dt/n) H_JW with H_JW built from Jordan–Wigner fermionic operators; derivative of the real one-step "
                 "unitary against that H_JW; hopping block of the real add_hopping_term / add_long_range_interaction for distances 1..5 "
                 "against exp(-i a/2 PZ..ZP)",
            trusted_base=["qiskit gate conventions (spec-tied each run)", "numpy/scipy dense linear algebra and qiskit Operator in the oracles",
                          "Trotter convergence is a theorem for the four spin builders (ising_trotter_converges, …); for the two "
                          "Fermi–Hubbard builders the analytic limit is measured (step halving, derivative at dt = 0), not proved",
                          "xh07: it is now a theorem for the two Fermi–Hubbard builders as well (hubbard1d/2d_step_consistent, "
                          "hubbard1d/2d_trotter_converges, first-order bound); the second-order accuracy of the palindromic arrangement is "
                          "measured only",
                          "xs07: the second-order accuracy of the palindromic arrangement is now a theorem as far as the code is symmetric "
                          "(strang_local_error, strang_global, c07_hubbard_second_order: Strang step around the hopping product; the "
                          "hopping layers themselves are not symmetrised, so beyond one bond the builders are first order — proved bound, "
                          "measured order recorded by the `strang` oracle)"],
            assumptions=["parameters handed to the model are the binary64 values the builders received, as exact rationals",
                         "±pi/2 of the basis-change rotations is compared symbolically"],
            spec=spec_all)
