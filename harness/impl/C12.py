"""C12 — implementation side: sampling of an MPS follows the Born rule; weak runs return the shots asked.

trace tie  : the real `MPS.measure_single_shot` runs with a recording stand-in for `numpy.random.Generator`
             (public `rng=` parameter): it records every `p=` vector handed to `choice` and returns a forced outcome.
             All 2^L forced branches of entangled states in the simulator's form (L <= 5, three bases) are compared
             with `Model.Born.measureSingleShot` on the *same tensors* shipped as exact rationals, including the
             returned key (`encode`) and the place where a branch through a probability-0 outcome dies.
             `MPS.measure`: recorded centre shifts, `p` vector, and the new site tensor vs `measureSite`.
value tie  : the key returned for long product chains (up to 70 sites) vs `encode`.
spec tie   : `Generator.choice(p=...)` never returns an index whose probability is 0.
oracle     : product of the recorded conditionals == |<sigma| R^{(x)L} |psi>|^2 / |psi|^2 from `to_vec()`
             (vector index = returned key, i.e. key bit i = site i); `measure` leaves Pi_a psi / |Pi_a psi|;
             real weak `simulator.run`: counts sum to `shots`, key bit i = qubit i (vs qiskit `Statevector`),
             no key of Born probability 0.
"""
from __future__ import annotations

import copy
import multiprocessing as mp
import random
import warnings

import numpy as np

import implbase as ib
from mqt.yaqs.core.data_structures.networks import MPS

warnings.simplefilter("ignore")
np.seterr(all="ignore")

ROT = {
    "Z": np.eye(2, dtype=complex),
    "X": np.array([[1, 1], [1, -1]], dtype=complex) / np.sqrt(2),
    "Y": np.array([[1, -1j], [1, 1j]], dtype=complex) / np.sqrt(2),
}
SPEC = {"n": 0, "bad": 0}


class ForcedGenerator:
    """stand-in for numpy.random.Generator: records the `p=` vectors, returns the forced outcomes"""

    def __init__(self, forced, on_call=None):
        self.forced = list(forced)
        self.calls = []
        self.on_call = on_call

    def choice(self, a, p=None, **kw):  # noqa: ARG002
        p = np.array(p, dtype=float)
        if self.on_call is not None:
            self.on_call()
        if np.any(np.isnan(p)):
            # the real Generator raises ValueError("probabilities contain NaN")
            msg = "probabilities contain NaN"
            raise ValueError(msg)
        k = len(self.calls)
        self.calls.append(p)
        if k >= len(self.forced):
            msg = "no forced outcome left"
            raise IndexError(msg)
        return self.forced[k]


# ------------------------------------------------------------------------------------------------ states
def random_mps(rng, nprng, L, kind):
    """MPS in the simulator's form (right-canonical, centre at site 0, normalised) or an exact structured chain"""
    if kind == "random":
        cap = rng.choice([1, 2, 2, 3, 4, 4])
        dims = [1]
        for k in range(1, L):
            dims.append(min(cap, 2 ** min(k, L - k), rng.choice([cap, cap, max(1, cap - 1)])))
        dims.append(1)
        ts = [nprng.normal(size=(2, dims[i], dims[i + 1])) + 1j * nprng.normal(size=(2, dims[i], dims[i + 1])) for i in range(L)]
        m = MPS(L, tensors=ts, physical_dimensions=[2] * L)
        m.normalize("B")
        return m
    if kind == "real":
        dims = [1] + [min(2, 2 ** min(k, L - k)) for k in range(1, L)] + [1]
        ts = [nprng.normal(size=(2, dims[i], dims[i + 1])).astype(complex) for i in range(L)]
        m = MPS(L, tensors=ts, physical_dimensions=[2] * L)
        m.normalize("B")
        return m
    if kind == "ghz":  # unnormalised |0..0> + i^k |1..1>, exact small entries: zero branches are exact zeros
        if L == 1:
            ts = [np.array([[[1.0]], [[0.5j]]], dtype=complex)]
        else:
            first = np.zeros((2, 1, 2), dtype=complex)
            first[0, 0, 0] = 1
            first[1, 0, 1] = rng.choice([1, 1j, -1, 0.5])
            mid = np.zeros((2, 2, 2), dtype=complex)
            mid[0, 0, 0] = 1
            mid[1, 1, 1] = 1
            last = np.zeros((2, 2, 1), dtype=complex)
            last[0, 0, 0] = 1
            last[1, 1, 0] = 1
            ts = [first] + [mid.copy() for _ in range(L - 2)] + [last]
        return MPS(L, tensors=ts, physical_dimensions=[2] * L)
    if kind == "basis":  # product basis state with a few |+>, |i> factors, bond dimension 1, exact entries
        ts = []
        for _ in range(L):
            v = rng.choice([(1, 0), (0, 1), (1, 0), (0.5, 0.5), (0.5, 0.5j), (0.5, -0.5)])
            ts.append(np.array(v, dtype=complex).reshape(2, 1, 1))
        return MPS(L, tensors=ts, physical_dimensions=[2] * L)
    raise ValueError(kind)


def ship_site(t):
    """`l r e…` — tensor (2, l, r) in C order, entries as exact rationals"""
    t = np.asarray(t, dtype=complex)
    _, l, r = t.shape
    return f"{l} {r} " + " ".join(ib.cfrac(z) for z in t.reshape(-1))


def dense_rotated(mps, basis):
    """amplitudes <sigma| R^{(x)L} |psi> indexed by sum sigma_k 2^k (site k = bit k of the index)"""
    L = mps.length
    v = copy.deepcopy(mps).to_vec()
    psi = v.reshape([2] * L)  # axis 0 <-> most significant bit of the index
    r = ROT[basis]
    for ax in range(L):
        psi = np.moveaxis(np.tensordot(r, psi, axes=(1, ax)), 0, ax)
    return psi.reshape(-1), float(np.vdot(v, v).real)


# ------------------------------------------------------------------------------------------------ kinds
def run_shot(inp):
    rng = random.Random(inp["sub"])
    nprng = np.random.default_rng(inp["sub"])
    L, kind = inp["L"], inp["state"]
    mps = random_mps(rng, nprng, L, kind)
    out = []
    seg = " | ".join(ship_site(t) for t in mps.tensors)
    dense = {b: dense_rotated(mps, b) for b in inp["bases"]}
    for basis in inp["bases"]:
        amps, nrm = dense[basis]
        for code in range(2**L):
            sigma = [(code >> k) & 1 for k in range(L)]
            gen = ForcedGenerator(sigma)
            before = [t.copy() for t in mps.tensors]
            status, key = "done", None
            try:
                key = mps.measure_single_shot(basis=basis if rng.random() < 0.7 else basis.lower(), rng=gen)
            except ValueError:
                status = "dead"
            except Exception as e:  # noqa: BLE001  (reported through tie and oracle, never a harness crash)
                status = "raised:" + type(e).__name__
            ps = gen.calls
            impl = " ".join(f"{ib.fmt(p[0])} {ib.fmt(p[1])}" for p in ps) + (f" ; done {key}" if status == "done" else f" ; {status}")
            req = f"shot {basis} | {' '.join(map(str, sigma))} | {seg}"
            forced_p = [float(p[c]) for p, c in zip(ps, sigma)]
            edge = any(0.0 < q < 1e-12 for q in forced_p)
            prob = float(np.prod(forced_p)) if forced_p else 0.0
            probs = []
            if any(not np.array_equal(a, b) for a, b in zip(before, mps.tensors)):
                probs.append("measure_single_shot modified the state it samples from")
            if status == "done":
                born = abs(amps[key]) ** 2 / nrm if 0 <= key < 2**L else -1.0
                if abs(prob - born) > 1e-9:
                    probs.append(f"product of conditionals {prob:.12g} != Born probability {born:.12g} of returned key {key} "
                                 f"(forced outcomes per site {sigma}, basis {basis})")
                if any(abs(float(p[0] + p[1]) - 1) > 1e-9 for p in ps):
                    probs.append("a p= vector does not sum to 1")
            else:
                born = abs(amps[code]) ** 2 / nrm
                if status != "dead":
                    probs.append(f"measure_single_shot {status} on branch {sigma}, basis {basis}")
                if born > 1e-9:
                    probs.append(f"branch {sigma} of Born probability {born:.3g} cannot be sampled (loop died after {len(ps)} sites)")
            out.append({"req": req, "impl": impl, "edge": bool(edge), "kind": f"shot-{kind}",
                        "oracle": {"ok": not probs, "detail": "; ".join(probs) or f"prod={prob:.6g} born={born:.6g}"},
                        "sig": f"shot:{kind}:{L}:{basis}:{code}:{status}:{inp['sub'] % 97}", "nontrivial": L > 1,
                        "input": dict(inp, branch=code, basis=basis)})
    return out


def run_measure(inp):
    rng = random.Random(inp["sub"])
    nprng = np.random.default_rng(inp["sub"])
    L, kind = inp["L"], inp["state"]
    mps0 = random_mps(rng, nprng, L, kind)
    if kind in ("ghz", "basis"):
        mps0.normalize("B")
    site, basis, a = inp["site"], inp["basis"], inp["outcome"]
    out = []
    mps = copy.deepcopy(mps0)
    shifts = []
    centre = {}
    orig_shift = MPS.shift_orthogonality_center_right

    def spy_shift(self, current, decomposition="QR"):
        shifts.append(int(current))
        return orig_shift(self, current, decomposition)

    def grab():
        if 0 <= site < L:
            centre["t"] = mps.tensors[site].copy()

    gen = ForcedGenerator([a], on_call=grab)
    MPS.shift_orthogonality_center_right = spy_shift
    exc, ret = None, None
    try:
        ret = mps.measure(site, basis=basis, rng=gen)
    except ValueError as e:
        exc = "ValueError"
        if "NaN" in str(e):
            exc = "nan"
    except Exception as e:  # noqa: BLE001
        exc = "raised:" + type(e).__name__
    finally:
        MPS.shift_orthogonality_center_right = orig_shift
    # 1. the call protocol: shifts issued / ValueError
    out.append({"req": f"mcall {L} {site}", "impl": ("err ValueError" if exc == "ValueError" else "ok " + " ".join(map(str, shifts))).strip(),
                "oracle": None, "kind": "measure-call", "sig": f"mcall:{L}:{site}", "nontrivial": 0 < site < L})
    if exc and exc.startswith("raised:"):
        out.append({"req": None, "impl": None, "kind": "measure", "oracle": {"ok": False, "detail": f"MPS.measure {exc} (site {site}, basis {basis})"},
                    "sig": f"measure-raised:{exc}"})
        return out
    if exc == "ValueError" or not gen.calls:
        return out
    p = gen.calls[0]
    t_new = mps.tensors[site]
    # hypothesis of `measure_global` (Props/C12.lean): `measure` replaces tensors[site] only, so the other tensors are the
    # ones present at the `choice` call — sites left of `site` must be left-isometric, sites right of it right-isometric
    canon_hypothesis(mps, site, L)
    edge = bool(0.0 < p[a] < 1e-12)
    scale = np.sqrt(p[a])
    if p[a] == 0.0 and bool(np.all(np.isnan(t_new) | np.isinf(t_new) | (t_new == 0))):
        impl = "dead"  # 1/sqrt(0): the code writes a NaN tensor
    else:
        impl = f"{ib.fmt(p[0])} {ib.fmt(p[1])} {ib.fmt(p[a])} ; " + " ".join(
            f"{ib.fmt((z * scale).real)} {ib.fmt((z * scale).imag)}" for z in t_new.reshape(-1))
    req = f"measure {basis} {a} | {ship_site(centre['t'])}"
    # oracle on the dense vector
    probs = []
    if not edge and p[a] > 0.0:
        v0 = copy.deepcopy(mps0).to_vec()
        v1 = copy.deepcopy(mps).to_vec()
        r = ROT[basis.upper()]
        proj1 = r.conj().T @ np.diag([1.0 if k == a else 0.0 for k in range(2)]) @ r
        psi = v0.reshape([2] * L)
        ax = L - 1 - site  # axis 0 <-> site L-1
        want = np.moveaxis(np.tensordot(proj1, psi, axes=(1, ax)), 0, ax).reshape(-1)
        pa = float(np.vdot(want, want).real / np.vdot(v0, v0).real)
        if abs(pa - p[a]) > 1e-9:
            probs.append(f"p[{a}] handed to choice = {p[a]:.12g}, Born probability of the outcome = {pa:.12g}")
        if abs(p[0] + p[1] - 1) > 1e-9:
            probs.append("p does not sum to 1")
        if pa > 1e-12:
            want = want / np.sqrt(np.vdot(want, want).real) * np.sqrt(np.vdot(v0, v0).real)
            d = float(np.linalg.norm(v1 - want))
            if d > 1e-8:
                probs.append(f"state after measure differs from the normalised projection by {d:.3e}")
        if ret != a:
            probs.append(f"returned {ret}, generator chose {a}")
    out.append({"req": req, "impl": impl, "edge": edge, "kind": "measure",
                "oracle": {"ok": not probs, "detail": "; ".join(probs) or f"p={p.tolist()}"},
                "sig": f"measure:{kind}:{L}:{site}:{basis}:{a}:{inp['sub'] % 97}", "nontrivial": True})
    return out


def run_encode(inp):
    rng = random.Random(inp["sub"])
    L = inp["L"]
    ts = [np.array([0.5, rng.choice([0.5, -0.5, 0.5j])], dtype=complex).reshape(2, 1, 1) for _ in range(L)]
    mps = MPS(L, tensors=ts, physical_dimensions=[2] * L)
    sigma = [rng.randrange(2) for _ in range(L)]
    if inp.get("pattern") == "ones":
        sigma = [1] * L
    elif inp.get("pattern") == "last":
        sigma = [0] * (L - 1) + [1]
    gen = ForcedGenerator(sigma)
    key = mps.measure_single_shot("Z", rng=gen)
    want = sum(b << i for i, b in enumerate(sigma))
    ok = all(((key >> i) & 1) == sigma[i] for i in range(L)) and key < 2**L
    return {"req": "encode | " + " ".join(map(str, sigma)), "impl": str(key), "kind": "encode",
            "oracle": {"ok": ok, "detail": f"key {key} want {want}"}, "sig": f"encode:{L}:{key % 1009}", "nontrivial": L > 2}


# ------------------------------------------------------------------------------------------------ weak runs (oracle only)
def build_circuit(spec, L):
    from qiskit import QuantumCircuit

    qc = QuantumCircuit(L)
    for g in spec:
        name, qs, par = g[0], g[1], g[2] if len(g) > 2 else None
        if name in ("rx", "ry", "rz"):
            getattr(qc, name)(par, qs[0])
        elif name == "barrier":
            qc.barrier()
        elif name == "measure_all":
            qc.measure_all()
        else:
            getattr(qc, name)(*qs)
    return qc


def _weak_child(conn, spec, L, shots, noise, basis_state):
    try:
        import warnings as w

        w.simplefilter("ignore")
        from mqt.yaqs import simulator
        from mqt.yaqs.core.data_structures.noise_model import NoiseModel
        from mqt.yaqs.core.data_structures.simulation_parameters import WeakSimParams

        qc = build_circuit(spec, L)
        sp = WeakSimParams(shots=shots, show_progress=False)
        nm = None
        if noise:
            procs = [{"name": noise[0], "sites": [i], "strength": noise[1]} for i in range(L)]
            if len(noise) > 2 and noise[2] == "mixed":   # one zero-strength process among non-zero ones: still a noisy run
                procs.insert(0, {"name": "pauli_z", "sites": [0], "strength": 0.0})
            nm = NoiseModel(procs)
        state = MPS(L, state="basis", basis_string=basis_state) if basis_state else MPS(L, state="zeros")
        simulator.run(state, qc, sp, nm, parallel=False)
        conn.send({"results": {int(k): int(v) for k, v in sp.results.items()}, "shots_after": int(sp.shots)})
    except BaseException as e:  # noqa: BLE001
        conn.send({"error": f"{type(e).__name__}: {e}"})
    finally:
        conn.close()


def run_weak(inp):
    from qiskit.quantum_info import Statevector

    L, spec, shots, noise = inp["L"], inp["circuit"], inp["shots"], inp.get("noise")
    ctx = mp.get_context("fork")
    a, b = ctx.Pipe(duplex=False)
    pr = ctx.Process(target=_weak_child, args=(b, spec, L, shots, noise, inp.get("basis_state")), daemon=False)
    pr.start()
    b.close()
    res = a.recv() if a.poll(90) else None
    if res is None:
        pr.kill()
        pr.join()
        return {"req": None, "impl": None, "kind": "weak", "oracle": {"ok": False, "detail": f"weak simulator.run did not finish within 90 s: {inp}"},
                "sig": f"weak-timeout:{L}:{shots}", "key": None}
    pr.join(10)
    if pr.is_alive():
        pr.kill()
    probs = []
    if "error" in res:
        probs.append(f"weak run raised {res['error']}")
        counts = {}
    else:
        counts = res["results"]
        tot = sum(counts.values())
        if tot != shots:
            probs.append(f"counts sum to {tot}, {shots} shots were asked")
        if res["shots_after"] != shots:
            probs.append(f"sim_params.shots is {res['shots_after']} after the run, was {shots}")
        if any(k < 0 or k >= 2**L for k in counts):
            probs.append(f"key outside 0..2^L-1: {sorted(counts)}")
        if list(counts) != sorted(counts):
            probs.append("results not sorted by key")
        if not noise or noise[1] == 0.0:
            qc = build_circuit([g for g in spec if g[0] not in ("measure_all",)], L)
            init = inp.get("basis_state")
            sv = Statevector.from_label(init[::-1]) if init else Statevector.from_label("0" * L)
            pv = np.abs(np.asarray(sv.evolve(qc).data)) ** 2  # index = sum q_i 2^i
            bad = {k: v for k, v in counts.items() if 0 <= k < 2**L and pv[k] < 1e-12}
            if bad:
                probs.append(f"outcomes of Born probability 0 were returned: {bad} (probabilities {np.round(pv, 6).tolist()})")
    return {"req": None, "impl": None, "kind": "weak",
            "oracle": {"ok": not probs, "detail": "; ".join(probs) or f"counts={counts}"},
            "sig": f"weak:{L}:{shots}:{bool(noise)}:{len(spec)}:{inp.get('basis_state')}", "nontrivial": True}


def _weak_seq_child(conn, spec, L, shots, noises):
    try:
        import warnings as w

        w.simplefilter("ignore")
        from mqt.yaqs import simulator
        from mqt.yaqs.core.data_structures.noise_model import NoiseModel
        from mqt.yaqs.core.data_structures.simulation_parameters import WeakSimParams

        sp = WeakSimParams(shots=shots, show_progress=False)
        outs = []
        for noise in noises:
            nm = NoiseModel([{"name": noise[0], "sites": [i], "strength": noise[1]} for i in range(L)]) if noise else None
            simulator.run(MPS(L, state="zeros"), build_circuit(spec, L), sp, nm, parallel=False)
            outs.append({"results": {int(k): int(v) for k, v in sp.results.items()}, "shots_after": int(sp.shots)})
        conn.send({"runs": outs})
    except BaseException as e:  # noqa: BLE001
        conn.send({"error": f"{type(e).__name__}: {e}"})
    finally:
        conn.close()


def run_weak_seq(inp):
    """several weak runs on the *same* WeakSimParams object (D14: stale measurements of a noisy run were summed in)"""
    L, spec, shots, noises = inp["L"], inp["circuit"], inp["shots"], inp["noises"]
    ctx = mp.get_context("fork")
    a, b = ctx.Pipe(duplex=False)
    pr = ctx.Process(target=_weak_seq_child, args=(b, spec, L, shots, noises))
    pr.start()
    b.close()
    res = a.recv() if a.poll(120) else {"error": "timeout"}
    pr.join(5)
    if pr.is_alive():
        pr.kill()
    probs = []
    if "error" in res:
        probs.append(f"weak run sequence raised {res['error']}")
    else:
        for n, r in enumerate(res["runs"]):
            tot = sum(r["results"].values())
            if tot != shots:
                probs.append(f"run {n} ({'noisy' if noises[n] else 'noise-free'}): counts sum to {tot}, {shots} shots were asked")
            if r["shots_after"] != shots:
                probs.append(f"run {n}: sim_params.shots is {r['shots_after']} afterwards")
    return {"req": None, "impl": None, "kind": "weak-seq", "oracle": {"ok": not probs, "detail": "; ".join(probs) or str(res)[:300]},
            "sig": f"weak-seq:{L}:{shots}:{[bool(x) for x in noises]}", "nontrivial": True}


def run_spec_choice(inp):
    g = np.random.default_rng(inp["sub"])
    bad = 0
    for p in ([0.0, 1.0], [1.0, 0.0], [0.0, 0.3, 0.7, 0.0]):
        draws = g.choice(len(p), size=2000, p=p)
        SPEC["n"] += 2000
        bad += int(sum(1 for d in draws if p[int(d)] == 0.0))
    SPEC["bad"] += bad
    return {"req": None, "impl": None, "kind": "spec-choice", "oracle": None, "sig": "spec-choice", "nontrivial": False}


# ------------------------------------------------------------------------------------------------ weak-e2e (extension xk12)
# What a noise-free weak run RETURNS (Props/C12.lean `shot_distribution`, `weak_counts`): the REAL `simulator.run` in weak mode
# with every `np.random.default_rng()` replaced by a recording generator that walks forced branches, the process pool of
# `measure_shots` replaced by an in-process one (trusted base: concurrent.futures), `MPS.measure_shots` /
# `MPS.measure_single_shot` wrapped (they run unchanged; the wrappers record the chain handed over and the key returned).
E2E = {"n": 0, "bad": 0, "worst": 0.0, "detail": "", "fid_n": 0, "fid_bad": 0, "fid_worst": 0.0, "fid_detail": ""}
E2E_ZERO = 1e-12


def _weak_e2e_child(conn, spec, L, shots, codes, basis_state):
    try:
        import concurrent.futures as cf
        import os
        import sys
        import warnings as w

        w.simplefilter("ignore")
        os.environ["YAQS_MAX_WORKERS"] = "1"
        sys.stderr = open(os.devnull, "w")  # tqdm bar of measure_shots
        from mqt.yaqs import simulator
        from mqt.yaqs.core.data_structures import networks as nw
        from mqt.yaqs.core.data_structures.simulation_parameters import WeakSimParams

        rec = {"gens": [], "ms_calls": [], "keys": []}
        real_default_rng = np.random.default_rng
        fallback = real_default_rng(12345)

        class Gen:
            """recording generator: shot j follows the forced code `codes[j]` wherever the forced outcome is possible"""

            def __init__(self):
                self.ps, self.bits, self.idx = [], [], None

            def choice(self, a, p=None, **kw):  # noqa: ARG002
                p = np.array(p, dtype=float)
                if self.idx is None:
                    self.idx = len(rec["gens"])
                    rec["gens"].append(self)
                want = (codes[self.idx % len(codes)] >> len(self.ps)) & 1
                c = want if p[want] > E2E_ZERO else 1 - want
                self.ps.append([float(p[0]), float(p[1])])
                self.bits.append(int(c))
                return c

            def __getattr__(self, name):
                return getattr(fallback, name)

        class SyncPool:
            def __init__(self, *a, **k):
                pass

            def __enter__(self):
                return self

            def __exit__(self, *a):
                return False

            def submit(self, fn, *a, **k):
                fut = cf.Future()
                try:
                    fut.set_result(fn(*a, **k))
                except BaseException as e:  # noqa: BLE001
                    fut.set_exception(e)
                return fut

        orig_ms, orig_ss = nw.MPS.measure_shots, nw.MPS.measure_single_shot

        def spy_ms(self, shots, basis="Z"):
            rec["ms_calls"].append({"shots": int(shots), "basis": str(basis), "tensors": [np.array(t) for t in self.tensors]})
            return orig_ms(self, shots, basis)

        def spy_ss(self, basis="Z", rng=None):
            r = orig_ss(self, basis, rng)
            rec["keys"].append(int(r))
            return r

        np.random.default_rng = lambda *a, **k: Gen()
        cf.ProcessPoolExecutor = SyncPool
        nw.MPS.measure_shots, nw.MPS.measure_single_shot = spy_ms, spy_ss
        qc = build_circuit(spec, L)
        sp = WeakSimParams(shots=shots, show_progress=False)
        state = MPS(L, state="basis", basis_string=basis_state) if basis_state else MPS(L, state="zeros")
        simulator.run(state, qc, sp, None, parallel=False)
        conn.send({"results": [(int(k), int(v)) for k, v in sp.results.items()],
                   "shots_after": int(sp.shots),
                   "gens": [{"ps": g.ps, "bits": g.bits} for g in rec["gens"]],
                   "keys": rec["keys"],
                   "ms_calls": [{"shots": c["shots"], "basis": c["basis"]} for c in rec["ms_calls"]],
                   "tensors": [t for t in rec["ms_calls"][0]["tensors"]] if rec["ms_calls"] else None})
    except BaseException as e:  # noqa: BLE001
        conn.send({"error": f"{type(e).__name__}: {e}"})
    finally:
        conn.close()


def run_weak_e2e(inp):
    from collections import Counter

    from qiskit.quantum_info import Statevector

    L, spec, shots = inp["L"], inp["circuit"], inp["shots"]
    init = inp.get("basis_state")
    codes = inp.get("codes") or list(range(2**L))
    ctx = mp.get_context("fork")
    a, b = ctx.Pipe(duplex=False)
    pr = ctx.Process(target=_weak_e2e_child, args=(b, spec, L, shots, codes, init), daemon=False)
    pr.start()
    b.close()
    res = a.recv() if a.poll(90) else None
    if res is None:
        pr.kill()
        pr.join()
        return {"req": None, "impl": None, "kind": "weak-e2e", "sig": f"weak-e2e-timeout:{L}:{shots}",
                "oracle": {"ok": False, "detail": f"noise-free weak simulator.run did not finish within 90 s: {inp}"}}
    pr.join(10)
    if pr.is_alive():
        pr.kill()
    if "error" in res:
        return {"req": None, "impl": None, "kind": "weak-e2e", "sig": f"weak-e2e-raised:{L}:{shots}",
                "oracle": {"ok": False, "detail": f"noise-free weak run raised {res['error']} on {inp}"}}
    # reference: qiskit Statevector of the same circuit; its strings are little-endian (rightmost character = qubit 0), so
    # int(string, 2) = sum_i q_i 2^i, the key convention claimed by `shot_distribution`
    qc = build_circuit([g for g in spec if g[0] != "measure_all"], L)
    sv = (Statevector.from_label(init[::-1]) if init else Statevector.from_label("0" * L)).evolve(qc)
    pd = {int(k, 2): float(v) for k, v in sv.probabilities_dict().items()}
    pv = [pd.get(k, 0.0) for k in range(2**L)]
    if any(E2E_ZERO / 10 < q < 1e-9 for q in pv):
        return {"req": None, "impl": None, "kind": "weak-e2e", "edge": True, "oracle": None, "sig": f"weak-e2e-edge:{L}"}
    support = {k for k in range(2**L) if pv[k] >= 1e-9}
    counts = dict(res["results"])
    gens, keys = res["gens"], res["keys"]
    probs = []
    worst = 0.0
    # (c) totals, and the histogram is the histogram of the keys the shots returned
    if sum(counts.values()) != shots:
        probs.append(f"counts sum to {sum(counts.values())}, {shots} shots were asked")
    if res["shots_after"] != shots:
        probs.append(f"sim_params.shots is {res['shots_after']} after the run, was {shots}")
    if [c["shots"] for c in res["ms_calls"]] != [shots]:
        probs.append(f"measure_shots calls {res['ms_calls']}, expected one call with shots={shots}")
    if len(keys) != shots or len(gens) != shots:
        probs.append(f"{len(keys)} single shots were taken with {len(gens)} generators, {shots} shots were asked")
    if dict(Counter(keys)) != counts:
        probs.append(f"returned counts {counts} are not the histogram of the keys the shots returned {dict(Counter(keys))}")
    if [k for k, _ in res["results"]] != sorted(counts):
        probs.append("results not sorted by key")
    # (a) key bit i = outcome of qubit i; keys inside the support of the Statevector distribution
    for j, (g, k) in enumerate(zip(gens, keys)):
        want = sum(c << i for i, c in enumerate(g["bits"]))
        if len(g["bits"]) != L or k != want:
            probs.append(f"shot {j}: generator outcomes per qubit {g['bits']} but returned key {k} (bit i of the key must be the "
                         f"outcome of qubit i: {want})")
            break
    bad = {k: v for k, v in counts.items() if not (0 <= k < 2**L) or pv[k] < E2E_ZERO}
    if bad:
        probs.append(f"keys of Statevector probability 0 were returned: {bad} (probabilities_dict {pd})")
    exhaustive = set(codes) >= set(range(2**L)) and shots >= 2**L
    if exhaustive and not probs and set(counts) != support:
        probs.append(f"forcing every branch returned the keys {sorted(counts)}, the Statevector support is {sorted(support)}")
    # (b) product of the conditionals handed to `choice` along the branch = Statevector probability of the returned key
    for j, (g, k) in enumerate(zip(gens, keys)):
        prod = float(np.prod([p[c] for p, c in zip(g["ps"], g["bits"])]))
        if 0 <= k < 2**L:
            worst = max(worst, abs(prod - pv[k]))
            if abs(prod - pv[k]) > 1e-10:
                probs.append(f"shot {j}: product of conditionals {prod:.12g} != |<key {k}|U|psi0>|^2 = {pv[k]:.12g} "
                             f"(outcomes per qubit {g['bits']})")
                break
    out = [{"req": None, "impl": None, "kind": "weak-e2e",
            "oracle": {"ok": not probs, "detail": "; ".join(probs[:3]) or f"counts={counts} worst={worst:.2e}"},
            "sig": f"weak-e2e:{L}:{shots}:{len(spec)}:{sorted(support)}:{init}", "nontrivial": L > 1 and len(support) < 2**L,
            "input": inp}]
    # hypotheses of `shot_distribution` on the chain handed to measure_shots: right-canonical from site 1 on, norm 1, and it
    # represents U_c psi0 (fidelity with the Statevector; `MPS.to_vec` index = sum_i s_i 2^i)
    ts = res["tensors"]
    if ts is not None:
        for jsite, t in enumerate(ts):
            t = np.asarray(t)
            if jsite == 0:
                dev = abs(float(np.sum(np.abs(t) ** 2)) - 1.0)
            else:
                g_ = np.einsum("sab,scb->ac", t, t.conj())
                dev = float(np.max(np.abs(g_ - np.eye(g_.shape[0]))))
            E2E["n"] += 1
            E2E["worst"] = max(E2E["worst"], dev)
            if not dev <= 1e-9:
                E2E["bad"] += 1
                E2E["detail"] = f"L={L} circuit {spec}: site {jsite} of the chain handed to measure_shots deviates by {dev:.3e}"
        vec = MPS(L, tensors=[np.array(t) for t in ts], physical_dimensions=[2] * L).to_vec()
        fid = abs(np.vdot(np.asarray(sv.data), vec)) ** 2
        E2E["fid_n"] += 1
        E2E["fid_worst"] = max(E2E["fid_worst"], abs(fid - 1.0))
        if not abs(fid - 1.0) <= 1e-9:
            E2E["fid_bad"] += 1
            E2E["fid_detail"] = f"L={L} circuit {spec}: |<U_c psi0|chain>|^2 = {fid:.12g}"
        # trace tie: the model's loop on the SAME final tensors, along every branch the real shots walked
        seg = " | ".join(ship_site(t) for t in ts)
        seen = set()
        for g, k in zip(gens, keys):
            bits = tuple(g["bits"])
            if bits in seen or len(bits) != L:
                continue
            seen.add(bits)
            forced_p = [p[c] for p, c in zip(g["ps"], bits)]
            edge = any(q < 1e-9 for q in forced_p) or any(E2E_ZERO / 100 < min(p) < 1e-9 for p in g["ps"])
            out.append({"req": f"shot Z | {' '.join(map(str, bits))} | {seg}",
                        "impl": " ".join(f"{ib.fmt(p[0])} {ib.fmt(p[1])}" for p in g["ps"]) + f" ; done {k}",
                        "edge": bool(edge), "kind": "weak-e2e-shot", "oracle": None,
                        "sig": f"weak-e2e-shot:{L}:{len(spec)}:{k}:{inp.get('sub', 0) % 97}", "nontrivial": L > 1})
    return out


E2E_FIXED = [
    # asymmetric circuits: the bit order of the key matters
    {"L": 2, "circuit": [["x", [0]]]},
    {"L": 3, "circuit": [["x", [0]], ["measure_all", []]]},
    {"L": 4, "circuit": [["x", [0]], ["h", [3]]]},
    {"L": 3, "circuit": [["h", [0]], ["cx", [0, 1]], ["x", [2]], ["barrier", []], ["z", [0]]]},
    {"L": 4, "circuit": [["x", [1]], ["cx", [1, 2]], ["ry", [0], 0.7]], "basis_state": "0001"},
]


def gen_weak_e2e(rng, tier):
    n = {"quick": 8, "thorough": 60, "search": 16}.get(tier, 8)
    for f in E2E_FIXED:
        L = f["L"]
        yield dict(f, kind="weak-e2e", shots=2**L + rng.randrange(0, 3), basis_state=f.get("basis_state"), sub=rng.randrange(1 << 30))
    yield {"kind": "weak-e2e", "L": 3, "circuit": [["x", [0]], ["h", [1]]], "shots": 1, "codes": [rng.randrange(8)],
           "basis_state": None, "sub": rng.randrange(1 << 30)}
    for _ in range(n):
        L = rng.choice([2, 3, 3, 4, 4, 5])
        spec = random_circuit(rng, L)
        if rng.random() < 0.5:   # make it asymmetric under qubit reversal
            spec.insert(rng.randrange(len(spec) + 1), ["x", [0]])
        yield {"kind": "weak-e2e", "L": L, "circuit": spec, "shots": 2**L + rng.choice([0, 0, 1, 3]),
               "basis_state": None if rng.random() < 0.75 else "".join(rng.choice("01") for _ in range(L)),
               "sub": rng.randrange(1 << 30)}


# ------------------------------------------------------------------------------------------------ generation
def random_circuit(rng, L):
    spec = []
    style = rng.choice(["clifford-det", "ghz", "generic", "generic"])
    if style == "clifford-det":  # deterministic outcome: exactly one key has non-zero probability
        for _ in range(rng.randrange(1, 6)):
            if L > 1 and rng.random() < 0.5:
                q = rng.randrange(L - 1)
                spec.append(["cx", [q, q + 1]] if rng.random() < 0.5 else ["cx", [q + 1, q]])
            else:
                spec.append(["x", [rng.randrange(L)]])
    elif style == "ghz":
        spec.append(["h", [0]])
        for q in range(L - 1):
            spec.append(["cx", [q, q + 1]])
        for _ in range(rng.randrange(0, 3)):
            spec.append(["x", [rng.randrange(L)]])
    else:
        for _ in range(rng.randrange(2, 8)):
            r = rng.random()
            if L > 1 and r < 0.4:
                q = rng.randrange(L - 1)
                spec.append([rng.choice(["cx", "cz"]), [q, q + 1]])
            elif r < 0.7:
                spec.append([rng.choice(["rx", "ry", "rz"]), [rng.randrange(L)], round(rng.uniform(0.1, 3.0), 3)])
            else:
                spec.append([rng.choice(["h", "x", "z", "sx", "y"]), [rng.randrange(L)]])
    if rng.random() < 0.3:
        spec.insert(rng.randrange(len(spec) + 1), ["barrier", []])
    if rng.random() < 0.3:
        spec.append(["measure_all", []])
    return spec


def gen(rng, tier):
    n_states = {"quick": 7, "thorough": 60, "search": 16}.get(tier, 7)
    n_meas = {"quick": 40, "thorough": 400, "search": 80}.get(tier, 40)
    n_weak = {"quick": 7, "thorough": 40, "search": 12}.get(tier, 7)
    yield {"kind": "spec-choice", "sub": rng.randrange(1 << 30)}
    # one small exhaustive block first: L = 1, 2 with every state kind
    for L, kind in [(1, "random"), (2, "random"), (2, "ghz"), (3, "ghz"), (3, "basis")]:
        yield {"kind": "shot", "L": L, "state": kind, "bases": ["Z", "X", "Y"], "sub": rng.randrange(1 << 30)}
    yield from gen_weak_e2e(random.Random(f"weak-e2e:{rng.getstate()[1][:4]}"), tier)   # own stream: the other kinds keep their inputs
    for i in range(n_meas):
        L = rng.choice([1, 2, 3, 4, 5])
        site = rng.randrange(L) if rng.random() < 0.9 else rng.choice([-1, L, L + 2])
        yield {"kind": "measure", "L": L, "state": rng.choice(["random", "random", "real", "ghz", "basis"]), "site": site,
               "basis": rng.choice(["Z", "X", "Y", "x", "y"]), "outcome": rng.randrange(2), "sub": rng.randrange(1 << 30)}
    for i in range(n_states):
        L = rng.choice([3, 4, 4, 5, 5])
        kind = rng.choice(["random", "random", "random", "real", "ghz"])
        bases = ["Z", "X", "Y"] if L < 5 else rng.sample(["Z", "X", "Y"], 2)
        yield {"kind": "shot", "L": L, "state": kind, "bases": bases, "sub": rng.randrange(1 << 30)}
    for i in range(8):
        yield {"kind": "encode", "L": rng.choice([1, 2, 5, 17, 33, 64, 70]), "pattern": rng.choice(["rand", "rand", "ones", "last"]),
               "sub": rng.randrange(1 << 30)}
    yield {"kind": "weak-seq", "L": 2, "circuit": random_circuit(rng, 2), "shots": rng.choice([3, 6]),
           "noises": rng.choice([[["pauli_x", 0.2], None], [None, ["pauli_z", 0.1], None], [None, None]])}
    yield {"kind": "weak", "L": 2, "circuit": random_circuit(rng, 2), "shots": 5, "noise": ["pauli_x", 0.2, "mixed"], "basis_state": None}
    trng = random.Random(f"tally:{rng.getstate()[1][:4]}")   # own stream: the other kinds keep their inputs
    for i in range({"quick": 12, "thorough": 120, "search": 24}.get(tier, 12)):
        L = trng.choice([1, 2, 3, 5])
        n = trng.choice([1, 2, 3, 5, 9, 30]) if i else 1
        pool = [trng.randrange(2**L) for _ in range(trng.choice([1, 2, 3, 6]))]
        yield {"kind": "tally", "L": L, "keys": [trng.choice(pool) for _ in range(n)], "basis": trng.choice(["Z", "X", "Y"])}
    for b, st in (("X", "x+"), ("X", "x-"), ("Y", "y+"), ("Y", "y-"), ("Z", "ones")):
        yield {"kind": "shots1", "L": rng.choice([1, 2, 3]), "basis": b, "state": st}
    # a noise model whose strengths are all zero is the noise-free policy (one trajectory, `shots` samples) in every layer
    yield {"kind": "weak", "L": 2, "circuit": random_circuit(rng, 2), "shots": 6, "noise": ["pauli_x", 0.0], "basis_state": None}
    for i in range(n_weak):
        L = rng.choice([1, 2, 3, 4])
        noise = None
        if rng.random() < 0.45:
            noise = [rng.choice(["pauli_x", "pauli_z", "lowering"]), rng.choice([0.01, 0.2, 0.0])]
        yield {"kind": "weak", "L": L, "circuit": random_circuit(rng, L), "shots": rng.choice([1, 2, 7, 23]) if noise else rng.choice([1, 2, 9, 40]),
               "noise": noise, "basis_state": None if rng.random() < 0.7 else "".join(rng.choice("01") for _ in range(L))}


def run_shots1(inp):
    """measure_shots(1, basis): the single-shot path must sample in the requested basis (product eigenstates: one certain key)"""
    L, basis, st = inp["L"], inp["basis"], inp["state"]
    want = {"x+": 0, "y+": 0, "x-": 2**L - 1, "y-": 2**L - 1, "ones": 2**L - 1}[st]
    probs, seen = [], {}
    for shots in (1, 1, 1, 4):
        res = MPS(L, state=st).measure_shots(shots, basis=basis)
        seen[shots] = dict(res)
        if sum(res.values()) != shots:
            probs.append(f"measure_shots({shots}, basis={basis}) returned {sum(res.values())} outcomes")
        if set(res) != {want}:
            probs.append(f"measure_shots({shots}, basis={basis}) on the {st} product state of {L} sites returned {dict(res)}; the only outcome of non-zero Born probability is {want}")
    return {"req": None, "impl": None, "kind": "shots1", "oracle": {"ok": not probs, "detail": "; ".join(probs[:2]) or str(seen)},
            "sig": f"shots1:{L}:{basis}:{st}", "nontrivial": True}


def run_tally(inp):
    """`measure_shots(shots > 1)`: the histogram the real method builds from the keys its shots return, tied to `tally`
    (the worker pool is replaced by an in-process executor whose futures log the order in which their results are read,
    and `measure_single_shot` by a stub returning the forced keys)"""
    import concurrent.futures as cf
    from mqt.yaqs.core.data_structures.networks import MPS
    keys = list(inp["keys"])
    L = inp["L"]
    mps = MPS(L, state="zeros")
    order, pending = [], list(keys)

    class _Future(cf.Future):
        def result(self, timeout=None):
            r = super().result(timeout)
            order.append(r)
            return r

    class _Pool:
        def __init__(self, *a, **k):
            pass

        def __enter__(self):
            return self

        def __exit__(self, *a):
            return False

        def submit(self, fn, *a, **k):
            f = _Future()
            f.set_result(fn(*a, **k))
            return f

    calls = []

    def stub(basis="Z", rng=None):
        calls.append(basis)
        return pending.pop(0)

    real_pool = cf.ProcessPoolExecutor
    cf.ProcessPoolExecutor = _Pool
    mps.measure_single_shot = stub
    try:
        res = mps.measure_shots(len(keys), inp["basis"])
    finally:
        cf.ProcessPoolExecutor = real_pool
    if len(keys) == 1:
        order = list(keys)
    impl = " ".join(f"{k}:{c}" for k, c in res.items()) + f" ; {sum(res.values())}"
    probs = []
    if sorted(order) != sorted(keys):
        probs.append(f"results read {sorted(order)} but the shots returned {sorted(keys)}")
    if calls != [inp["basis"]] * len(keys):
        probs.append(f"measure_single_shot called with {calls}, want {len(keys)} x {inp['basis']}")
    for k in set(keys):
        if res.get(k) != keys.count(k):
            probs.append(f"count of key {k} is {res.get(k)}, {keys.count(k)} shots returned it")
    if set(res) != set(keys) or sum(res.values()) != len(keys):
        probs.append(f"histogram {res} for keys {keys}")
    return {"req": "tally | " + " ".join(map(str, order)), "impl": impl, "kind": "tally", "edge": len(set(keys)) == 1,
            "oracle": {"ok": not probs, "detail": "; ".join(probs) or f"{len(keys)} shots, {len(res)} keys"},
            "sig": f"tally:{len(keys)}:{len(set(keys))}:{inp['basis']}", "nontrivial": len(keys) > len(set(keys)) > 1}


def run(inp):
    k = inp["kind"]
    if k == "tally":
        return run_tally(inp)
    if k == "shots1":
        return run_shots1(inp)
    if k == "shot":
        return run_shot(inp)
    if k == "measure":
        return run_measure(inp)
    if k == "encode":
        return run_encode(inp)
    if k == "weak":
        return run_weak(inp)
    if k == "weak-seq":
        return run_weak_seq(inp)
    if k == "spec-choice":
        return run_spec_choice(inp)
    if k == "weak-e2e":
        return run_weak_e2e(inp)
    raise ValueError(k)


CANON = {"n": 0, "bad": 0, "worst": 0.0, "detail": ""}


def canon_hypothesis(mps, site, L):
    """mixed-canonical form around the measured site on the real tensors (inputs come in right-canonical, centre 0)"""
    for j in range(L):
        if j == site:
            continue
        t = np.asarray(mps.tensors[j])
        if j < site:
            g = np.einsum("sab,sac->bc", t.conj(), t)
        else:
            g = np.einsum("sab,scb->ac", t, t.conj())
        dev = float(np.max(np.abs(g - np.eye(g.shape[0]))))
        CANON["n"] += 1
        CANON["worst"] = max(CANON["worst"], dev)
        if not dev <= 1e-9:
            CANON["bad"] += 1
            CANON["detail"] = f"L={L} measured site {site}: site {j} is not {'left' if j < site else 'right'}-isometric (deviation {dev:.3e})"


def spec():
    return [{"name": "Generator.choice(p=...) never returns an index of probability 0", "ok": SPEC["bad"] == 0, "n": SPEC["n"]},
            {"name": "hypothesis of measure_global: when MPS.measure(site) calls choice, every site left of `site` is left-isometric "
                     "and every site right of it is right-isometric (input right-canonical with centre 0)",
             "ok": CANON["bad"] == 0, "n": CANON["n"], "worst_residual": CANON["worst"], "detail": CANON["detail"]},
            {"name": "hypothesis of shot_distribution / weak_counts: the chain a noise-free weak run hands to measure_shots is "
                     "right-canonical from site 1 on and has norm 1",
             "ok": E2E["bad"] == 0, "n": E2E["n"], "worst_residual": E2E["worst"], "detail": E2E["detail"]},
            {"name": "hypothesis of shot_distribution (Represents): the chain handed to measure_shots is U_c psi0 "
                     "(fidelity with the qiskit Statevector, to_vec index = sum_i s_i 2^i)",
             "ok": E2E["fid_bad"] == 0, "n": E2E["fid_n"], "worst_residual": E2E["fid_worst"], "detail": E2E["fid_detail"]}]


if __name__ == "__main__":
    ib.main("C12", gen, run, driver="Born",
            rule="entangled MPS in the simulator's form (random complex / real, bond <= 4, GHZ-like and product chains with exact "
                 "zeros) x all 2^L forced branches (L <= 5) x bases Z/X/Y; measure: L x site (incl. invalid) x basis x outcome; "
                 "long product chains for the key; real weak simulator.run (deterministic, GHZ, generic circuits, with/without "
                 "noise). distinct = distinct (state, L, basis, branch, status) signatures; non-trivial = more than one site",
            trusted_base=["numpy.random.Generator.choice draws index k with probability p[k] (spec-tied: never an index with p = 0)",
                          "numpy / qiskit dense state vectors in the oracles",
                          "sqrt-free representation: the model carries squared scale factors (1/sqrt(2) of the X/Y rotations, "
                          "1/sqrt(p) of the renormalisation)"],
            assumptions=["tensors handed to the model are the complex128 values the implementation held, as exact rationals",
                         "counts_total (weak counts add up to shots for every run history) is a theorem of the C20 run-policy "
                         "model; here the real run is checked by the oracle only"],
            spec=spec)
