"""C04 — implementation side: the real equivalence checker vs Model.Verdict, plus direct oracles.

value tie   : `MPO.check_if_identity(f)` on MPOs built with `MPO.from_matrix` from diagonal-phase unitaries of
              prescribed overlap (n = 1..6, overlaps 1-10^-k, fidelities straddling them, and fidelities exactly
              on / one ulp around the overlap the code computed) vs `verdict t n f`, where `t = |trace|` is the
              value the real `MPS.scalar_product` returned (wrapped), shipped as an exact rational.
              `select_starting_point`, `check_longest_gate`, `get_temporal_zone` on the real (partially consumed)
              DAGs seen inside real `iterate` runs vs `startIts/startOdd`, `longest`, `zone`.
trace tie   : real `iterate` with `apply_temporal_zone`, `convert_dag_to_tensor_algorithm`,
              `apply_long_range_layer` wrapped: the sequence "long-range gate g removed from circuit c" /
              "zone of circuit c at sites (m, m+1) consumed gates {ids}" vs the model's event list.
oracles     : (numeric tie) dense matrix of the final MPO vs U1 U2^dagger from qiskit `Operator`;
              order in which gates were applied respects every wire of the circuit and uses every gate once;
              the loop ends within len(c1)+len(c2) rounds (bound of theorem `iterate_terminates`);
              `equivalence_checker.run(c1, c2, threshold, fidelity)` vs the exact overlap |tr(U1^dag U2)|/2^n:
              equal-up-to-phase pairs must be equivalent, overlap < f-1e-6 must be "not equivalent",
              overlap > f+1e-6 must be "equivalent", both argument orders, incl. long-range gates and swaps.
extension   : value ties of the tensor contractions (`apply_gate`, `apply_temporal_zone`, `update_mpo`, `decompose_theta`,
              the einsums of `apply_long_range_layer`, `MPS.scalar_product` / `MPO.check_if_identity`) against
              Model/MpoUpdate.lean on exact inputs — kinds `t-*`, see the block "EXTENSION (x04)" below.
extension 2 : end to end (kind `e2e`, block "EXTENSION (xc04)"): real `iterate` on nearest-neighbour pairs with every `update_mpo`
              recorded — the chain-level model `CheckerChain.runSteps` is tied step by step (`iter` event list + `update` per step +
              `idtrace` on the final chain), the final operator is U1.U2^dagger with the order asserted, the scalar is tr(U1^dagger U2).
"""
from __future__ import annotations

import math
import random
import warnings

import numpy as np

import implbase as ib

warnings.simplefilter("ignore")

from qiskit import QuantumCircuit  # noqa: E402
from qiskit.converters import circuit_to_dag  # noqa: E402
from qiskit.dagcircuit import DAGOpNode  # noqa: E402
from qiskit.quantum_info import Operator  # noqa: E402

from mqt.yaqs.core.data_structures import networks as networks_mod  # noqa: E402
from mqt.yaqs.core.data_structures.networks import MPO  # noqa: E402
from mqt.yaqs.digital import equivalence_checker as ec  # noqa: E402
from mqt.yaqs.digital.utils import dag_utils as du  # noqa: E402
from mqt.yaqs.digital.utils import mpo_utils as mu  # noqa: E402

ONEQ = ["h", "x", "y", "z", "sx", "rx", "ry", "rz", "p", "id", "u"]
NPAR = {"rx": 1, "ry": 1, "rz": 1, "p": 1, "u": 3, "cp": 1, "rxx": 1, "ryy": 1, "rzz": 1}
TWOQ = ["cx", "cz", "swap", "cp", "rxx", "ryy", "rzz"]
EPS_MARGIN = 1e-6          # the property's "numerical noise" margin for the verdict oracles
NUM_TOL = 1e-7             # final MPO vs U1 U2^dag; largest deviation seen on the clean tree: 2e-13 (thr 1e-13), 4e-10 (thr 1e-10)


WORST = {"numeric_n": 0, "numeric_dev": 0.0, "numeric_rel_tol": 0.0, "overlap_n": 0, "overlap_dev": 0.0}


class LoopBound(Exception):
    """raised by the round counter when `iterate` exceeds the bound of theorem `iterate_terminates`"""


# ----------------------------------------------------------------------------------------------------------------
# circuits as JSON-able instruction lists  [name, [qubits], [params]]
# ----------------------------------------------------------------------------------------------------------------
def build(n, instrs, phase=0.0):
    qc = QuantumCircuit(n)
    for name, qs, ps in instrs:
        getattr(qc, name)(*ps, *qs)
    qc.global_phase = phase
    return qc


def unitary(n, instrs, phase=0.0):
    """dense unitary in the MPO's convention (site 0 = most significant = leftmost Kronecker factor)"""
    return Operator(build(n, instrs, phase).reverse_bits()).data


def _angle(rng):
    # mostly ordinary angles; sometimes the tiny ones of a QFT tail / small Trotter step (6e-4 … 3e-6), where a long-range gate's
    # second operator-Schmidt value sits just above the gate library's cut-off
    if rng.random() < 0.1:
        return rng.choice([-1, 1]) * 10.0 ** (-rng.uniform(3.2, 5.5))
    return rng.uniform(-3.1, 3.1)


def rand_instrs(rng, n, m, plong=0.35, p1=0.4, two=None):
    out = []
    for _ in range(m):
        if n < 2 or rng.random() < p1:
            g = rng.choice(ONEQ)
            out.append([g, [rng.randrange(n)], [_angle(rng) for _ in range(NPAR.get(g, 0))]])
        else:
            g = rng.choice(two or TWOQ)
            if n > 2 and rng.random() < plong:
                a, b = rng.sample(range(n), 2)
            else:
                a = rng.randrange(n - 1)
                b = a + 1
                if rng.random() < 0.5:
                    a, b = b, a
            out.append([g, [a, b], [_angle(rng) for _ in range(NPAR.get(g, 0))]])
    return out


def resynth(rng, instrs, p=0.6):
    """an equivalent circuit (up to a global phase): gate identities, inserted inverse pairs, commuting reorder"""
    out = []
    for name, qs, ps in instrs:
        r = rng.random()
        if r > p:
            out.append([name, qs, ps])
        elif name == "swap":
            a, b = qs
            out += [["cx", [a, b], []], ["cx", [b, a], []], ["cx", [a, b], []]]
        elif name == "cz":
            a, b = qs
            out += [["h", [b], []], ["cx", [a, b], []], ["h", [b], []]] if rng.random() < 0.5 else [["cz", [b, a], []]]
        elif name == "cx":
            a, b = qs
            out += [["h", [b], []], ["cz", [a, b], []], ["h", [b], []]]
        elif name == "rz":
            out.append(["p", qs, ps])                       # differs by a global phase
        elif name == "p":
            out.append(["rz", qs, ps])
        elif name == "x":
            out += [["h", qs, []], ["z", qs, []], ["h", qs, []]]
        elif name == "z":
            out.append(["p", qs, [math.pi]])
        elif name == "y":
            out.append(["ry", qs, [math.pi]])               # -i Y
        elif name == "cp":
            out.append(["cp", [qs[1], qs[0]], ps])
        elif name == "rzz":
            a, b = qs
            out += [["cx", [a, b], []], ["rz", [b], ps], ["cx", [a, b], []]]
        elif name == "rxx":
            a, b = qs
            out += [["h", [a], []], ["h", [b], []], ["rzz", [a, b], ps], ["h", [a], []], ["h", [b], []]]
        else:
            out.append([name, qs, ps])
        if rng.random() < 0.15:                              # inverse pair, possibly long-range
            n_q = 1 + max(max(q) for _, q, _ in instrs)
            if n_q >= 2 and rng.random() < 0.6:
                a, b = rng.sample(range(n_q), 2)
                g = rng.choice(["cx", "cz", "swap"])
                out += [[g, [a, b], []], [g, [a, b], []]]
            else:
                q = rng.randrange(n_q)
                t = rng.uniform(-3, 3)
                out += [["rx", [q], [t]], ["rx", [q], [-t]]]
    if rng.random() < 0.5:                                   # random wire-respecting reorder
        rest, lin = list(out), []
        while rest:
            busy, front = set(), []
            for k, (_, qs, _) in enumerate(rest):
                if not (set(qs) & busy):
                    front.append(k)
                busy |= set(qs)
            lin.append(rest.pop(rng.choice(front)))
        out = lin
    return out


def gate_tokens(instrs):
    return " ".join(",".join(str(q) for q in qs) for _, qs, _ in instrs) or "-"


# ----------------------------------------------------------------------------------------------------------------
# instrumentation of the real code
# ----------------------------------------------------------------------------------------------------------------
class Spy:
    """wraps module attributes of mpo_utils / networks for one run; restores them afterwards"""

    def __init__(self, d1=None, d2=None, max_rounds=None, subties=False):
        self.d1, self.d2 = d1, d2
        self.events, self.applied = [], {0: [], 1: [], 2: []}
        self.traces, self.rounds, self.max_rounds = [], 0, max_rounds
        self.subties, self.sub = subties, []
        self.conj = None
        self.ids = {}
        for c, d in ((1, d1), (2, d2)):
            if d is not None:
                for k, nd in enumerate(sorted(d.op_nodes(), key=lambda x: x._node_id)):  # noqa: SLF001
                    self.ids[c, nd._node_id] = k  # noqa: SLF001
        self.saved = []

    def which(self, dag):
        return 1 if dag is self.d1 else 2 if dag is self.d2 else 0

    def remaining(self, dag):
        """remaining instructions of a real DAG in circuit order: [(original id, [qubits])]"""
        c = self.which(dag)
        nodes = sorted(dag.op_nodes(), key=lambda x: x._node_id)  # noqa: SLF001
        return [(self.ids.get((c, nd._node_id), -1), [q._index for q in nd.qargs]) for nd in nodes]  # noqa: SLF001

    def patch(self, mod, name, fn):
        self.saved.append((mod, name, getattr(mod, name)))
        setattr(mod, name, fn)

    def __enter__(self):
        o_atz, o_conv, o_lr, o_layer = mu.apply_temporal_zone, mu.convert_dag_to_tensor_algorithm, mu.apply_long_range_layer, mu.apply_layer
        o_ssp, o_clg, o_gtz = mu.select_starting_point, mu.check_longest_gate, mu.get_temporal_zone
        o_sp = networks_mod.MPS.scalar_product
        spy = self

        def tick():
            spy.rounds += 1
            if spy.max_rounds is not None and spy.rounds > spy.max_rounds:
                raise LoopBound

        def atz(theta, dag, qubits, *, conjugate=False):
            c = spy.which(dag)
            before = {x._node_id for x in dag.op_nodes()}  # noqa: SLF001
            r = o_atz(theta, dag, qubits, conjugate=conjugate)
            after = {x._node_id for x in dag.op_nodes()}  # noqa: SLF001
            spy.events.append(f"z{c}:{qubits[0]}:" + ",".join(str(k) for k in sorted(spy.ids.get((c, i), -1) for i in before - after)))
            return r

        def conv(x):
            if isinstance(x, DAGOpNode):
                c = 2 if spy.conj else 1
                spy.events.append(f"g{c}:{spy.ids.get((c, x._node_id), -1)}")  # noqa: SLF001
                spy.applied[c].append((x.op.name, tuple(q._index for q in x.qargs), tuple(float(p) for p in x.op.params)))  # noqa: SLF001
            else:
                c = spy.zone_c
                for nd in x.op_nodes():
                    if nd.op.name in {"measure", "barrier"}:
                        continue
                    spy.applied[c].append((nd.op.name, tuple(q._index for q in nd.qargs), tuple(float(p) for p in nd.op.params)))  # noqa: SLF001
            return o_conv(x)

        def gtz(dag, qubits):
            spy.zone_c = spy.which(dag)
            rem = spy.remaining(dag) if spy.subties else None
            new = o_gtz(dag, qubits)
            if spy.subties:
                left = {i for i, _ in spy.remaining(dag)}
                pos = {oid: k for k, (oid, _) in enumerate(rem)}
                taken = sorted(pos[i] for i, _ in rem if i not in left)
                rest = sorted(pos[i] for i in left)
                req = f"zone {min(qubits)} | " + (" ".join(",".join(map(str, qs)) for _, qs in rem) or "-")
                impl = "t:" + ",".join(map(str, taken)) + " r:" + ",".join(map(str, rest))
                # the zone circuit must respect the wires: per wire a prefix of what was there, in order
                ok, det = True, ""
                seq = [tuple(q._index for q in nd.qargs) for nd in new.op_nodes()]  # noqa: SLF001
                for w in {q for _, qs in rem for q in qs}:
                    had = [tuple(qs) for _, qs in rem if w in qs]
                    got = [qs for qs in seq if w in qs]
                    if had[: len(got)] != got:
                        ok, det = False, f"zone on {qubits}: wire {w} had {had} but zone applies {got}"
                spy.sub.append({"req": req, "impl": impl, "kind": "zone", "oracle": {"ok": ok, "detail": det or "zone respects wires"},
                                "sig": f"zone:{len(rem)}:{len(taken)}:{min(qubits)}", "nontrivial": 0 < len(taken) < len(rem)})
            return new

        def lr(mpo, a, b, t, *, conjugate):
            tick()
            spy.conj = conjugate
            return o_lr(mpo, a, b, t, conjugate=conjugate)

        def layer(*a, **k):
            tick()
            return o_layer(*a, **k)

        def ssp(n, dag):
            r = o_ssp(n, dag)
            if spy.subties:
                rem = spy.remaining(dag)
                spy.sub.append({"req": f"start {n} | " + (" ".join(",".join(map(str, qs)) for _, qs in rem) or "-"),
                                "impl": "its " + " ".join(map(str, list(r[0]) + list(r[1]))), "kind": "start", "oracle": None,
                                "sig": f"start:{n}:{list(r[0])[:1]}", "nontrivial": bool(rem)})
            return r

        def clg(dag):
            r = o_clg(dag)
            if spy.subties:
                rem = spy.remaining(dag)
                spy.sub.append({"req": "longest | " + (" ".join(",".join(map(str, qs)) for _, qs in rem) or "-"), "impl": str(int(r)),
                                "kind": "longest", "oracle": None, "sig": f"longest:{len(rem)}:{int(r)}", "nontrivial": int(r) > 1})
            return r

        def sp(self_, other, sites=None):
            r = o_sp(self_, other, sites)
            spy.traces.append(r)
            return r

        for mod, name, fn in ((mu, "apply_temporal_zone", atz), (mu, "convert_dag_to_tensor_algorithm", conv),
                              (mu, "apply_long_range_layer", lr), (mu, "apply_layer", layer), (mu, "select_starting_point", ssp),
                              (mu, "check_longest_gate", clg), (mu, "get_temporal_zone", gtz), (networks_mod.MPS, "scalar_product", sp)):
            self.patch(mod, name, fn)
        self.zone_c = 0
        return self

    def __exit__(self, *exc):
        for mod, name, orig in reversed(self.saved):
            setattr(mod, name, orig)
        return False


def wire_order_problems(instrs, applied):
    """every wire sees exactly its own gates, in circuit order (=> each gate once, dependency-respecting)"""
    want = [(nm, tuple(qs), tuple(float(p) for p in ps)) for nm, qs, ps in instrs]
    probs = []
    if len(applied) != len(want):
        probs.append(f"{len(applied)} gates applied, circuit has {len(want)}")
    for w in sorted({q for _, qs, _ in want for q in qs} | {q for _, qs, _ in applied for q in qs}):
        a = [g for g in want if w in g[1]]
        b = [g for g in applied if w in g[1]]
        if a != b:
            probs.append(f"wire {w}: circuit order {[g[0] for g in a]} but applied {[g[0] for g in b]}")
            break
    return probs


def verdict_case(t, n, f, got, kind, sig, oracle=None, key=None):
    c = {"req": f"verdict {ib.frac(t)} {n} {ib.frac(f)}", "impl": "1" if got else "0", "kind": kind, "oracle": oracle,
         "sig": sig, "nontrivial": True}
    if key:
        c["key"] = key
    return c


# ----------------------------------------------------------------------------------------------------------------
# case kinds
# ----------------------------------------------------------------------------------------------------------------
def run_diag(inp):
    """value tie of check_if_identity on from_matrix MPOs of prescribed overlap"""
    rng = random.Random(inp["sub"])
    n = inp.get("n") or rng.choice([1, 2, 3, 4, 5, 6])
    k = inp.get("k") or rng.choice([1, 2, 3, 4, 6, 8, 10, 12])
    dim = 2**n
    target = 1.0 - 10.0 ** (-k)
    style = rng.choice(["pm", "pm", "one", "rand"])
    if style == "pm":                       # half +theta, half -theta: |tr|/dim = cos(theta)
        th = math.acos(target)
        signs = [1] * (dim // 2) + [-1] * (dim // 2)
        rng.shuffle(signs)
        ph = np.array([s * th for s in signs])
    elif style == "one":                    # a single deviating phase
        ph = np.zeros(dim)
        # |dim-1+e^{ia}| / dim = target
        x = ((target * dim) ** 2 - (dim - 1) ** 2 - 1) / (2 * (dim - 1)) if dim > 1 else target
        ph[rng.randrange(dim)] = math.acos(max(-1.0, min(1.0, x)))
    else:
        ph = np.array([rng.gauss(0, math.sqrt(2 * 10.0 ** (-k))) for _ in range(dim)])
    alpha = rng.uniform(-math.pi, math.pi)
    umat = np.diag(np.exp(1j * (ph + alpha)))
    true_ov = abs(np.trace(umat)) / dim
    mpo = MPO.from_matrix(umat, 2, cutoff=rng.choice([0.0, 1e-12]))
    with Spy() as spy:                       # dry run to learn the |trace| the code computes
        mpo.check_if_identity(0.5)
    t = np.abs(spy.traces[-1])
    ov = float(t) / dim
    fids = [target, true_ov, ov, float(np.nextafter(ov, 2.0)), float(np.nextafter(ov, -1.0)), 1 - 1e-13,
            ov + 10.0 ** (-rng.choice([3, 6, 9, 12])), ov - 10.0 ** (-rng.choice([3, 6, 9, 12])), rng.random()]
    out = []
    for f in fids:
        if not (0.0 < f):
            continue
        with Spy() as spy:
            got = bool(mpo.check_if_identity(f))
        t = np.abs(spy.traces[-1])
        oracle = None
        if true_ov < f - 1e-9 or true_ov > f + 1e-9:
            want = true_ov > f
            oracle = {"ok": got == want, "detail": f"dense overlap {true_ov!r} fidelity {f!r}: check_if_identity says {got}"}
        out.append(verdict_case(t, n, f, got, "diag", f"diag:{n}:{k}:{got}:{'eq' if f == ov else 'gt' if f > ov else 'lt'}", oracle))
    return out


def run_pair(inp, instr1, instr2, n, thr, label, tie=True):
    """one real `iterate` run on (c1, c2): trace tie, value sub-ties, numeric tie, order oracle, termination bound"""
    qc1, qc2 = build(n, instr1), build(n, instr2)
    d1, d2 = circuit_to_dag(qc1), circuit_to_dag(qc2)
    mpo = MPO()
    mpo.identity(n)
    bound = len(instr1) + len(instr2)
    exc = None
    with Spy(d1, d2, max_rounds=bound + 2, subties=tie) as spy:
        try:
            mu.iterate(mpo, d1, d2, thr)
        except AssertionError:
            exc = "assert"
        except LoopBound:
            exc = "fuel"
    out = []
    impl = exc or " ".join(spy.events + ["done"])
    probs = []
    if exc == "fuel":
        probs.append(f"iterate still running after {bound + 2} rounds (theorem iterate_terminates bounds it by {bound})")
    elif exc == "assert" and n >= 2:
        probs.append("iterate raised AssertionError on a well-formed pair")
    elif exc is None:
        if spy.rounds > bound:
            probs.append(f"{spy.rounds} rounds > len c1 + len c2 = {bound}")
        probs += ["circuit 1: " + p for p in wire_order_problems(instr1, spy.applied[1])]
        probs += ["circuit 2: " + p for p in wire_order_problems(instr2, spy.applied[2])]
        ref = unitary(n, instr1) @ unitary(n, instr2).conj().T
        dev = float(np.linalg.norm(mpo.to_matrix() - ref))
        tol = NUM_TOL + 1e4 * thr * max(1, bound)
        WORST["numeric_n"] += 1
        WORST["numeric_dev"] = max(WORST["numeric_dev"], dev)
        WORST["numeric_rel_tol"] = max(WORST["numeric_rel_tol"], dev / tol)
        if dev > tol:
            probs.append(f"final MPO differs from U1 U2^dag by {dev:.3e} (> {tol:.1e}) at threshold {thr}")
    nlr = sum(1 for e in spy.events if e.startswith("g"))
    out.append({"req": f"iter {n} | {gate_tokens(instr1)} | {gate_tokens(instr2)}" if tie else None, "impl": impl if tie else None,
                "kind": label, "oracle": {"ok": not probs, "detail": "; ".join(probs) or f"rounds {spy.rounds} lr {nlr}"},
                "sig": f"{label}:{n}:{len(instr1)}:{len(instr2)}:{nlr}:{spy.rounds}", "nontrivial": bound > 0})
    # keep a bounded, deterministic sample of the value sub-ties (distinct requests only)
    seen, kept = set(), []
    for s in spy.sub:
        if s["req"] not in seen:
            seen.add(s["req"])
            kept.append(s)
    rr = random.Random(inp.get("sub", 0))
    rr.shuffle(kept)
    out += sorted(kept[:12], key=lambda s: s["req"])
    return out


def run_iter(inp):
    rng = random.Random(inp["sub"])
    if "c1" in inp:
        n, i1, i2 = inp["n"], inp["c1"], inp["c2"]
    else:
        n = rng.choice([2, 2, 3, 4, 5, 6])
        style = rng.choice(["mixed", "mixed", "long", "local", "swapnet", "empty1"])
        plong = {"mixed": 0.35, "long": 0.9, "local": 0.0, "swapnet": 0.5, "empty1": 0.4}[style]
        two = ["swap", "cx", "cz"] if style == "swapnet" else None
        i1 = rand_instrs(rng, n, rng.randrange(0, 14), plong, 0.35, two)
        i2 = rand_instrs(rng, n, rng.randrange(0, 14), plong, 0.35, two)
        if style == "empty1":
            i1 = []
    thr = inp.get("threshold") or rng.choice([1e-13, 1e-13, 1e-12, 1e-10])
    return run_pair(inp, i1, i2, n, thr, "iter")


def run_n1(inp):
    """one qubit: `select_starting_point` asserts num_qubits > 1 (tied to the model's `assert`)"""
    rng = random.Random(inp["sub"])
    i1 = rand_instrs(rng, 1, rng.randrange(0, 3))
    i2 = rand_instrs(rng, 1, rng.randrange(0, 3))
    return run_pair(inp, i1, i2, 1, 1e-13, "iter-n1")


def checker(n, i1, i2, thr, f, ph1=0.0, ph2=0.0):
    """the public entry point with the trace recorded and the loop bounded"""
    with Spy(max_rounds=len(i1) + len(i2) + 2) as spy:
        try:
            got = bool(ec.run(build(n, i1, ph1), build(n, i2, ph2), threshold=thr, fidelity=f)["equivalent"])
        except LoopBound:
            return None, None
    return got, np.abs(spy.traces[-1])


def overlap(n, i1, i2):
    return float(abs(np.trace(unitary(n, i1).conj().T @ unitary(n, i2)))) / 2**n


def run_equal(inp):
    """(i) equal up to a global phase: must be reported equivalent, both orders"""
    rng = random.Random(inp["sub"])
    n = rng.choice([2, 3, 4, 5, 6])
    i1 = rand_instrs(rng, n, rng.randrange(1, 12), rng.choice([0.0, 0.4, 0.9]))
    i2 = resynth(rng, i1)
    thr = rng.choice([1e-13, 1e-13, 1e-12])
    f = rng.choice([1 - 1e-9, 1 - 1e-6, 0.999, 1 - 1e-11])
    ph = rng.uniform(-3, 3)
    ov = overlap(n, i1, i2)
    out = []
    for a, b, tag in ((i1, i2, "12"), (i2, i1, "21")):
        got, t = checker(n, a, b, thr, f, 0.0, ph)
        if got is None:
            out.append({"req": None, "impl": None, "kind": "equal", "oracle": {"ok": False, "detail": "checker did not terminate within len c1 + len c2 + 2 rounds"}})
            continue
        ok = got is True if ov > f + EPS_MARGIN else True
        det = f"n={n} exact overlap {ov!r} fidelity {f!r} order {tag}: checker says {got}, code saw |trace|/2^n = {float(t) / 2**n!r}"
        WORST["overlap_n"] += 1
        WORST["overlap_dev"] = max(WORST["overlap_dev"], abs(float(t) / 2**n - ov))
        if abs(float(t) / 2**n - ov) > 1e-7:
            ok, det = False, det + " — the overlap the checker computed is off"
        out.append(verdict_case(t, n, f, got, "equal", f"equal:{n}:{tag}:{got}", {"ok": ok, "detail": det}))
    return out


def run_eps(inp):
    """(ii) c2 = c1' + rz(eps) with the overlap swept across the fidelity; both argument orders"""
    rng = random.Random(inp["sub"])
    if "c1" in inp:
        n, i1, f, thr = inp["n"], inp["c1"], inp["fidelity"], inp.get("threshold", 1e-13)
        i2s = [("corpus", inp["c1"] + [inp["extra"]])]
    else:
        n = rng.choice([2, 3, 4, 5, 6])
        i1 = rand_instrs(rng, n, rng.randrange(1, 10), rng.choice([0.0, 0.4, 0.9]))
        base = resynth(rng, i1) if rng.random() < 0.6 else list(i1)
        f = rng.choice([0.9, 0.99, 0.999, 0.9999, 1 - 1e-5, 0.5])
        thr = rng.choice([1e-13, 1e-13, 1e-12, 1e-10])
        i2s = []
        for side in (+1, -1, +1, -1):
            d = rng.choice([3e-6, 1e-5, 1e-4, 0.02 * (1 - f), 0.3 * (1 - f), 0.049 / 2**n, 0.02 / 2**n])
            ov = f + side * d
            if not 0.0 < ov < 1.0:
                continue
            eps = 2 * math.acos(ov)
            g = rng.choice(["rz", "rz", "p", "rx", "rzz"]) if n > 1 else "rz"
            if g == "rzz":
                a, b = rng.sample(range(n), 2)
                extra = ["rzz", [a, b], [eps]]
            else:
                extra = [g, [rng.randrange(n)], [eps]]
            pos = rng.choice([len(base), len(base), rng.randrange(len(base) + 1)])
            i2s.append((f"{side:+d}", base[:pos] + [extra] + base[pos:]))
    out = []
    for tag, i2 in i2s:
        ov = overlap(n, i1, i2)
        for a, b, order in ((i1, i2, "12"), (i2, i1, "21")):
            got, t = checker(n, a, b, thr, f)
            if got is None:
                out.append({"req": None, "impl": None, "kind": "eps", "oracle": {"ok": False, "detail": "checker did not terminate"}})
                continue
            if ov < f - EPS_MARGIN:
                ok = got is False
            elif ov > f + EPS_MARGIN:
                ok = got is True
            else:
                ok = True
            WORST["overlap_n"] += 1
            WORST["overlap_dev"] = max(WORST["overlap_dev"], abs(float(t) / 2**n - ov))
            det = (f"n={n} exact overlap |tr(U1^dag U2)|/2^n = {ov!r}, fidelity {f!r}, threshold {thr}, order {order}: "
                   f"checker says {'equivalent' if got else 'not equivalent'} (|trace|/2^n seen by the code: {float(t) / 2**n!r})")
            out.append(verdict_case(t, n, f, got, "eps", f"eps:{n}:{tag}:{order}:{got}:{f}", {"ok": ok, "detail": det},
                                    key=inp.get("key")))
    return out


def run_random_pair(inp):
    """unrelated circuits: fidelity placed around their exact overlap"""
    rng = random.Random(inp["sub"])
    n = rng.choice([2, 3, 4])
    i1 = rand_instrs(rng, n, rng.randrange(1, 8), 0.4)
    i2 = list(i1) + rand_instrs(rng, n, rng.randrange(1, 3), 0.4, 0.8)
    ov = overlap(n, i1, i2)
    out = []
    for f in (ov + 1e-4, ov - 1e-4, ov + 0.05, max(ov - 0.05, 1e-3)):
        if not 0 < f:
            continue
        for a, b, order in ((i1, i2, "12"), (i2, i1, "21")):
            got, t = checker(n, a, b, 1e-13, f)
            if got is None:
                out.append({"req": None, "impl": None, "kind": "randpair", "oracle": {"ok": False, "detail": "checker did not terminate"}})
                continue
            ok = (got is False) if ov < f - EPS_MARGIN else (got is True) if ov > f + EPS_MARGIN else True
            out.append(verdict_case(t, n, f, got, "randpair", f"randpair:{n}:{order}:{got}",
                                    {"ok": ok, "detail": f"n={n} exact overlap {ov!r} fidelity {f!r} order {order}: checker says {got}"}))
    return out


# ================================================================================================================
# EXTENSION (x04): the tensor contractions of the MPO build as index algebra — value ties against Model/MpoUpdate.lean
# ================================================================================================================
# kinds (all value ties on exact rational / exact binary64 inputs, bond dimensions 1..3):
#   t-applygate      real `apply_gate` on duck-typed gates (BaseGate with rational matrix / tensor; name "I"; wrong sites;
#                    interaction 3) x conjugate / not, one-site on either site / two-site       vs `applyGate`
#   t-applygate-lib  real `apply_gate` on the gate objects `convert_dag_to_tensor_algorithm` builds (both site orders)
#   t-zone           real `apply_temporal_zone` on a real DAG (gates captured)                   vs `zoneApply`
#   t-update         real `update_mpo` inside a rational MPO: the merged theta (`t-thetaof`), the matrix handed to the SVD,
#                    the kept rank and the two tensors written back                              vs `updateTheta`, `thetaMatrix`, `decomposeTheta`
#   t-decomp         real `decompose_theta` on rational theta, thresholds between the singular values
#   t-lr             real `apply_long_range_layer`: every reshaped einsum handed to `apply_temporal_zone` (pair / hanging,
#                    both orientations)                                                          vs `lrPairTop/Bottom`, `lrHang*`
#   t-sp             real `MPS.scalar_product` on rational MPS                                   vs `scalarProduct`
#   t-idtrace        real `MPO.check_if_identity`: the scalar it computes (captured) and its decision vs `identityTrace`, `identityDecision`
# oracles (model-independent, dense numpy / qiskit): top update = G.Theta, bottom update = Theta.G^dagger on the two sites for
# every pair of bond indices; zone = ordered product; update = embedded products on the whole chain; split-then-merge changes
# theta by exactly the discarded weight; captured trace = conj(tr(to_matrix())).
import contextlib  # noqa: E402

import opt_einsum as oe  # noqa: E402

from mqt.yaqs.core.data_structures.networks import MPS  # noqa: E402
from mqt.yaqs.core.libraries.gate_library import BaseGate  # noqa: E402

TWORST = {"exact_dev": 0.0, "lib_dev": 0.0, "update_rel": 0.0, "split_rel": 0.0, "trace_dev": 0.0, "n": 0,
          "svd_n": 0, "svd_worst": 0.0, "svd_bad": 0, "svd_detail": ""}
T_EXACT_TOL = 1e-11        # rational inputs: every float operation is exact; observed deviation 0.0
T_LIB_TOL = 1e-9           # library gates (binary64 entries): observed <= 4e-15


def rat_tensor(rng, shape, den=4, span=4, zero_p=0.15, real=False):
    """complex tensor with entries (k + i m)/den, |k|,|m| <= span — dyadic, so the contractions below are exact in binary64"""
    a = np.zeros(shape, dtype=np.complex128)
    for idx in np.ndindex(*shape):
        if rng.random() < zero_p:
            continue
        a[idx] = complex(rng.randint(-span, span) / den, 0 if real else rng.randint(-span, span) / den)
    return a


def centries(arr):
    """entries of an array, read one by one by explicit index (last index fastest), as exact rationals `re im`"""
    arr = np.asarray(arr)
    return " ".join(ib.cfrac(arr[idx]) for idx in np.ndindex(*arr.shape))


def site_tokens(t):
    t = np.asarray(t)
    return f"{t.shape[0]} {t.shape[2]} {t.shape[3]} {centries(t)}".strip()


def msite_tokens(t):
    t = np.asarray(t)
    return f"{t.shape[0]} {t.shape[1]} {t.shape[2]} {centries(t)}".strip()


def gate_part(g):
    inter = int(g.interaction)
    sites = ",".join(str(int(s)) for s in g.sites) or "-"
    if inter == 1:
        ent = centries(np.asarray(g.matrix))
    elif inter == 2:
        ent = centries(np.asarray(g.tensor))
    else:
        ent = ""
    return f"{1 if g.name == 'I' else 0} {inter} {sites} {ent}".strip()


def blocks(theta):
    """theta[a,e,l,b,f,r] -> array [l, r] of 4x4 operators on the two sites (row (a,e), column (b,f))"""
    th = np.asarray(theta)
    return th.transpose(2, 5, 0, 1, 3, 4).reshape(th.shape[2], th.shape[5], 4, 4)


def full_op(g, site0):
    """the 4x4 operator a gate object stands for on sites (site0, site0+1), from the attribute `apply_gate` reads"""
    if g.name == "I":
        return np.eye(4, dtype=complex)
    if int(g.interaction) == 1:
        m = np.asarray(g.matrix, dtype=complex)
        return np.kron(m, np.eye(2)) if g.sites[0] == site0 else np.kron(np.eye(2), m)
    return np.asarray(g.tensor, dtype=complex).reshape(4, 4)


def product_oracle(old, new, ops, conj, tol, what):
    """new = (ops_k ... ops_1) . old  (top)   or   old . ops_1^dag ... ops_k^dag  (bottom), per pair of bond indices"""
    u = np.eye(4, dtype=complex)
    for o in ops:
        u = o @ u
    bo, bn = blocks(old), blocks(new)
    want = bo @ u.conj().T if conj else u @ bo
    dev = float(np.abs(bn - want).max()) if bn.size else 0.0
    return dev, {"ok": dev <= tol, "detail": f"{what}: max |new - {'old.G^dagger' if conj else 'G.old'}| over the two-site blocks = {dev:.2e}"}


def duck_gate(rng, kind, s0):
    """a BaseGate the real `apply_gate` accepts, with independent rational `matrix` and `tensor`"""
    if kind in ("one0", "one1", "id1", "wrong1"):
        g = BaseGate(rat_tensor(rng, (2, 2)))
        g.tensor = rat_tensor(rng, (2, 2))                 # never read for a one-site gate
        g.sites = [{"one0": s0, "one1": s0 + 1, "id1": rng.choice([s0, s0 + 1]), "wrong1": s0 + rng.choice([-1, 2, 5]) if s0 > 0 else s0 + 2}[kind]]
        if kind == "id1":
            g.name = "I"
    elif kind in ("two", "two-rev", "id2", "wrong2"):
        g = BaseGate(rat_tensor(rng, (4, 4)))              # never read for a two-site gate
        g.tensor = rat_tensor(rng, (2, 2, 2, 2))
        g.sites = {"two": [s0, s0 + 1], "two-rev": [s0 + 1, s0], "id2": [s0, s0 + 1], "wrong2": rng.choice([[s0, s0 + 2], [s0 + 3, s0 + 1]])}[kind]
        if kind == "id2":
            g.name = "I"
    else:                                                  # three-qubit gate: `assert gate.interaction in {1, 2}`
        g = BaseGate(np.eye(8, dtype=complex))
        g.sites = [s0, s0 + 1, s0 + 2]
    return g


def run_t_applygate(inp):
    rng = random.Random(inp["sub"])
    out = []
    for kind in ("one0", "one1", "two", "two-rev", "id1", "id2", "wrong1", "wrong2", "three"):
        if kind in ("wrong1", "wrong2", "three", "id1", "id2") and rng.random() < 0.5:
            continue
        for conj in (False, True):
            dl, dr = rng.randint(1, 3), rng.randint(1, 3)
            s0 = rng.randrange(0, 4)
            g = duck_gate(rng, kind, s0)
            theta = rat_tensor(rng, (2, 2, dl, 2, 2, dr))
            req = f"applygate 2 {dl} {dr} {s0} {s0 + 1} {int(conj)} | {gate_part(g)} | {centries(theta)}"
            try:
                new = mu.apply_gate(g, theta.copy(), s0, s0 + 1, conjugate=conj)
                impl = centries(new)
                if np.asarray(new).shape != theta.shape:
                    orc = {"ok": False, "detail": f"apply_gate changed the shape {theta.shape} -> {np.asarray(new).shape}"}
                else:
                    dev, orc = product_oracle(theta, new, [full_op(g, s0)], conj, T_EXACT_TOL, f"apply_gate {kind} conjugate={conj}")
                    TWORST["exact_dev"] = max(TWORST["exact_dev"], dev)
            except AssertionError:
                impl = "assert"
                orc = {"ok": kind in ("wrong1", "wrong2", "three"), "detail": f"apply_gate raised AssertionError for a {kind} gate on sites {g.sites} at ({s0},{s0 + 1})"}
            out.append({"req": req, "impl": impl, "kind": "t-applygate", "oracle": orc, "sig": f"t-applygate:{kind}:{int(conj)}:{dl}{dr}",
                        "nontrivial": kind not in ("id1", "id2")})
    return out


T_LIB_1Q = ["h", "x", "y", "z", "sx", "rx", "ry", "rz", "p", "id", "u"]
T_LIB_2Q = ["cx", "cz", "swap", "cp", "rxx", "ryy", "rzz"]


def lib_instr(rng, name, n):
    ps = [rng.uniform(-3.1, 3.1) for _ in range(NPAR.get(name, 0))]
    if name in T_LIB_1Q:
        return [name, [rng.choice([n, n + 1])], ps]
    return [name, [n, n + 1] if rng.random() < 0.5 else [n + 1, n], ps]


def local_unitary(instrs, n):
    """product of the instructions as a 4x4 operator on sites (n, n+1), site n most significant (qiskit reference)"""
    return unitary(2, [[nm, [q - n for q in qs], ps] for nm, qs, ps in instrs])


def run_t_applygate_lib(inp):
    rng = random.Random(inp["sub"])
    out = []
    names = rng.sample(T_LIB_1Q, 3) + rng.sample(T_LIB_2Q, 4)
    for name in names:
        n = rng.randrange(0, 3)
        ins = lib_instr(rng, name, n)
        qc = build(n + 2, [ins])
        g = du.convert_dag_to_tensor_algorithm(circuit_to_dag(qc))[0]
        conj = rng.random() < 0.5
        dl, dr = rng.randint(1, 3), rng.randint(1, 3)
        theta = rat_tensor(rng, (2, 2, dl, 2, 2, dr))
        new = mu.apply_gate(g, theta.copy(), n, n + 1, conjugate=conj)
        dev, orc = product_oracle(theta, new, [local_unitary([ins], n)], conj, T_LIB_TOL, f"apply_gate {name} on {ins[1]} conjugate={conj} vs qiskit")
        TWORST["lib_dev"] = max(TWORST["lib_dev"], dev)
        out.append({"req": f"applygate 2 {dl} {dr} {n} {n + 1} {int(conj)} | {gate_part(g)} | {centries(theta)}", "impl": centries(new),
                    "kind": "t-applygate-lib", "oracle": orc, "sig": f"t-applygate-lib:{name}:{ins[1][0] < ins[1][-1]}:{int(conj)}", "nontrivial": True})
    return out


@contextlib.contextmanager
def patched(pairs):
    saved = [(m, n, getattr(m, n)) for m, n, _ in pairs]
    for m, n, f in pairs:
        setattr(m, n, f)
    try:
        yield
    finally:
        for m, n, o in reversed(saved):
            setattr(m, n, o)


class ZoneRec:
    """records, per call of the real `apply_temporal_zone`: input theta, sites, conjugate flag, the gate objects
    `convert_dag_to_tensor_algorithm` returned, the instructions of the zone, output theta"""

    def __init__(self, hook=None):
        self.calls, self.hook = [], hook

    def patches(self):
        o_atz, o_conv, o_gtz = mu.apply_temporal_zone, mu.convert_dag_to_tensor_algorithm, mu.get_temporal_zone
        rec = self

        def atz(theta, dag, qubits, *, conjugate=False):
            c = {"theta": np.array(theta), "n": int(qubits[0]), "conj": bool(conjugate), "gates": [], "instrs": []}
            if rec.hook is not None:
                rec.hook(c)
            rec.calls.append(c)
            r = o_atz(theta, dag, qubits, conjugate=conjugate)
            c["out"] = np.array(r)
            return r

        def conv(x):
            r = o_conv(x)
            if rec.calls and not isinstance(x, DAGOpNode):
                rec.calls[-1]["gates"] = list(r)
            return r

        def gtz(dag, qubits):
            z = o_gtz(dag, qubits)
            if rec.calls:
                rec.calls[-1]["instrs"] = [[nd.op.name, [q._index for q in nd.qargs], [float(p) for p in nd.op.params]]  # noqa: SLF001
                                           for nd in z.op_nodes() if nd.op.name not in {"measure", "barrier"}]
            return z

        return [(mu, "apply_temporal_zone", atz), (mu, "convert_dag_to_tensor_algorithm", conv), (mu, "get_temporal_zone", gtz)]


def zone_instrs(rng, nq, n, m):
    """instructions on nq qubits, most of them inside (n, n+1), some outside / straddling (they close the cone)"""
    out = []
    for _ in range(m):
        r = rng.random()
        if r < 0.45:
            out.append(lib_instr(rng, rng.choice(T_LIB_1Q), n))
        elif r < 0.85 or nq == 2:
            out.append(lib_instr(rng, rng.choice(T_LIB_2Q), n))
        elif r < 0.93:
            q = rng.choice([x for x in range(nq) if x not in (n, n + 1)])
            nm = rng.choice(["h", "rz"])
            out.append([nm, [q], [rng.uniform(-3, 3)] if nm == "rz" else []])
        else:
            a = rng.choice([n, n + 1])
            b = rng.choice([x for x in range(nq) if x not in (n, n + 1)])
            out.append(["cx", [a, b], []])
    return out


def run_t_zone(inp):
    rng = random.Random(inp["sub"])
    nq = rng.choice([2, 3, 4])
    n = rng.randrange(0, nq - 1)
    instrs = zone_instrs(rng, nq, n, rng.randrange(0, 7))
    dag = circuit_to_dag(build(nq, instrs))
    conj = rng.random() < 0.5
    dl, dr = rng.randint(1, 3), rng.randint(1, 3)
    theta = rat_tensor(rng, (2, 2, dl, 2, 2, dr))
    rec = ZoneRec()
    with patched(rec.patches()):
        new = mu.apply_temporal_zone(theta.copy(), dag, [n, n + 1], conjugate=conj)
    c = rec.calls[0]
    gs = c["gates"]
    dev, orc = product_oracle(theta, new, [local_unitary([i], n) for i in c["instrs"]], conj, T_LIB_TOL * max(1, len(gs)),
                              f"apply_temporal_zone ({len(gs)} gates) conjugate={conj} vs qiskit")
    TWORST["lib_dev"] = max(TWORST["lib_dev"], dev)
    if len(gs) != len(c["instrs"]):
        orc = {"ok": False, "detail": f"zone has {len(c['instrs'])} instructions but {len(gs)} gate objects were applied"}
    req = f"zone 2 {dl} {dr} {n} {int(conj)} {len(gs)} | " + "".join(gate_part(g) + " | " for g in gs) + centries(theta)
    return {"req": req, "impl": centries(new), "kind": "t-zone", "oracle": orc, "sig": f"t-zone:{nq}:{n}:{len(gs)}:{int(conj)}:{dl}{dr}",
            "nontrivial": len(gs) > 0}


@contextlib.contextmanager
def t_capture_svd(rec):
    """wrap np.linalg.svd: record (matrix, u, s, vh) of every call; spec-tie the result (the hypotheses of `split_then_merge`)"""
    orig = np.linalg.svd

    def wrapper(a, *args, **kw):
        u, s, vh = orig(a, *args, **kw)
        a = np.array(a, dtype=complex)
        scale = max(1.0, float(np.linalg.norm(a)))
        e1 = float(np.linalg.norm(u @ np.diag(s) @ vh - a)) / scale
        e2 = float(np.linalg.norm(u.conj().T @ u - np.eye(u.shape[1])))
        e3 = float(np.linalg.norm(vh @ vh.conj().T - np.eye(vh.shape[0])))
        good = e1 < 1e-9 and e2 < 1e-9 and e3 < 1e-9 and bool(np.all(s >= 0)) and bool(np.all(np.diff(s) <= 1e-13 * scale))
        TWORST["svd_n"] += 1
        TWORST["svd_worst"] = max(TWORST["svd_worst"], e1, e2, e3)
        if not good:
            TWORST["svd_bad"] += 1
            TWORST["svd_detail"] = f"recon {e1:.2e} UhU {e2:.2e} VVh {e3:.2e} s={s[:6]}"
        rec.append((a, np.array(u), np.array(s, dtype=float), np.array(vh)))
        return u, s, vh

    np.linalg.svd = wrapper
    try:
        yield
    finally:
        np.linalg.svd = orig


def rational_chain(rng, length, maxb=3):
    dims = [1] + [rng.randint(1, maxb) for _ in range(length - 1)] + [1]
    return [rat_tensor(rng, (2, 2, dims[i], dims[i + 1])) for i in range(length)]


def custom_mpo(ts):
    m = MPO()
    m.custom([np.array(t) for t in ts], transpose=False)
    return m


def embed(u4, n, length):
    return np.kron(np.kron(np.eye(2**n), u4), np.eye(2 ** (length - n - 2)))


def dec_parts(u, s, vh):
    return f"{centries(u)} | {ib.fracs([float(v) for v in s])} | {centries(vh)}"


def decomp_impl(tm, left, right):
    left, right = np.asarray(left), np.asarray(right)
    return (f"tm {tm.shape[0]} {tm.shape[1]} {centries(tm)} | keep {left.shape[3]} | {site_tokens(left)} | {site_tokens(right)}")


def pick_threshold(rng, svals):
    """thresholds on both sides of the singular values the real code will see (computed here only to place them)"""
    s = sorted((float(x) for x in svals), reverse=True)
    r = rng.random()
    if r < 0.4 or not s:
        return rng.choice([1e-13, 1e-12, 1e-10])
    if r < 0.8 and len(s) > 1:
        k = rng.randrange(len(s) - 1)
        return 0.5 * (s[k] + s[k + 1]) if s[k] > s[k + 1] else 1e-13
    if r < 0.9:
        return s[0] * 2 + 1.0          # everything discarded
    return s[-1] * 0.5 if s[-1] > 0 else 1e-13


def run_t_update(inp):
    rng = random.Random(inp["sub"])
    length = rng.choice([2, 2, 3, 4])
    n = rng.randrange(0, length - 1)
    ts = rational_chain(rng, length)
    i1 = zone_instrs(rng, length, n, rng.randrange(0, 5))
    i2 = zone_instrs(rng, length, n, rng.randrange(0, 5))
    d1, d2 = circuit_to_dag(build(length, i1)), circuit_to_dag(build(length, i2))
    mpo = custom_mpo(ts)
    old = mpo.to_matrix()
    a_t, b_t = np.array(mpo.tensors[n]), np.array(mpo.tensors[n + 1])
    # place the threshold relative to the spectrum of the block the code will split (the exact block, dense reference)
    probe = custom_mpo(ts)
    thr_mode = rng.random()
    rec, svds = ZoneRec(), []
    # first pass on a copy only to learn the spectrum (so that the threshold can be put between singular values)
    if thr_mode < 0.45:
        with t_capture_svd(svds):
            mu.update_mpo(probe, circuit_to_dag(build(length, i1)), circuit_to_dag(build(length, i2)), [n, n + 1], 0.0)
        thr = pick_threshold(rng, svds[-1][2])     # the last SVD is decompose_theta's (gate constructors call np.linalg.svd too)
        svds = []
    else:
        thr = rng.choice([1e-13, 1e-12, 1e-10])
    with patched(rec.patches()), t_capture_svd(svds):
        mu.update_mpo(mpo, d1, d2, [n, n + 1], thr)
    tm, u, s, vh = svds[-1]
    c1, c2 = rec.calls[0], rec.calls[1]
    left, right = np.asarray(mpo.tensors[n]), np.asarray(mpo.tensors[n + 1])
    keep = left.shape[3]
    out = []
    # (a) the merged theta
    out.append({"req": f"thetaof | {site_tokens(a_t)} | {site_tokens(b_t)}", "impl": " ".join(map(str, c1["theta"].shape)) + " " + centries(c1["theta"]),
                "kind": "t-thetaof", "oracle": None, "sig": f"t-thetaof:{a_t.shape[2]}{a_t.shape[3]}{b_t.shape[3]}", "nontrivial": True})
    # (b) the whole update
    probs = []
    if not (c1["conj"] is False and c2["conj"] is True and len(rec.calls) == 2):
        probs.append(f"update_mpo called apply_temporal_zone with conjugate flags {[c['conj'] for c in rec.calls]}")
    u1 = np.eye(4, dtype=complex)
    for ins in c1["instrs"]:
        u1 = local_unitary([ins], n) @ u1
    u2 = np.eye(4, dtype=complex)
    for ins in c2["instrs"]:
        u2 = local_unitary([ins], n) @ u2
    exact = embed(u1, n, length) @ old @ embed(u2, n, length).conj().T
    new = mpo.to_matrix() if keep > 0 else np.zeros_like(old)
    scale = max(1.0, float(np.linalg.norm(exact)))
    disc = float(np.sum(s[keep:] ** 2))
    if keep == len(s) or disc <= 1e-24:
        rel = float(np.linalg.norm(new - exact)) / scale
        TWORST["update_rel"] = max(TWORST["update_rel"], rel)
        if rel > 1e-8:
            probs.append(f"update_mpo at ({n},{n + 1}), nothing discarded: chain differs from U1.old.U2^dagger by {rel:.2e} (relative)")
    elif length == 2:
        got = float(np.linalg.norm(new - exact) ** 2)
        rel = abs(got - disc) / max(1.0, float(np.linalg.norm(exact) ** 2))
        TWORST["split_rel"] = max(TWORST["split_rel"], rel)
        if rel > 1e-8:
            probs.append(f"update_mpo with truncation: squared change {got:.6e} is not the discarded weight {disc:.6e}")
    req = (f"update 2 {n} {len(s)} {ib.frac(thr)} {len(c1['gates'])} {len(c2['gates'])} | {site_tokens(a_t)} | {site_tokens(b_t)} | "
           + "".join(gate_part(g) + " | " for g in c1["gates"] + c2["gates"]) + dec_parts(u, s, vh))
    out.append({"req": req, "impl": decomp_impl(tm, left, right), "kind": "t-update",
                "oracle": {"ok": not probs, "detail": "; ".join(probs) or f"update = U1.old.U2^dagger (kept {keep}/{len(s)})"},
                "sig": f"t-update:{length}:{n}:{len(c1['gates'])}:{len(c2['gates'])}:{keep}/{len(s)}", "nontrivial": len(c1["gates"]) + len(c2["gates"]) > 0})
    return out


def run_t_decomp(inp):
    rng = random.Random(inp["sub"])
    dl, dr = rng.randint(1, 3), rng.randint(1, 3)
    theta = rat_tensor(rng, (2, 2, dl, 2, 2, dr), zero_p=rng.choice([0.1, 0.5, 0.8]))
    if rng.random() < 0.1:
        theta[:] = 0
    svals = np.linalg.svd(np.transpose(theta, (0, 3, 2, 1, 4, 5)).reshape(4 * dl, 4 * dr), compute_uv=False)
    thr = pick_threshold(rng, svals)
    svds = []
    with t_capture_svd(svds):
        left, right = mu.decompose_theta(theta.copy(), thr)
    tm, u, s, vh = svds[0]
    left, right = np.asarray(left), np.asarray(right)
    keep = left.shape[3]
    merged = oe.contract("abcd, efdg->aecbfg", left, right)
    got = float(np.linalg.norm(merged - theta) ** 2)
    disc = float(np.sum(s[keep:] ** 2))
    rel = abs(got - disc) / max(1.0, float(np.linalg.norm(theta) ** 2))
    TWORST["split_rel"] = max(TWORST["split_rel"], rel)
    probs = []
    if rel > 1e-9:
        probs.append(f"decompose_theta then merge: squared change {got:.6e} is not the discarded weight {disc:.6e} (threshold {thr!r}, kept {keep}/{len(s)})")
    if keep != int(np.sum(s > thr)):
        probs.append(f"kept {keep} values, {int(np.sum(s > thr))} are above the threshold")
    req = f"decomp 2 {dl} {dr} {len(s)} {ib.frac(thr)} | {centries(theta)} | {dec_parts(u, s, vh)}"
    return {"req": req, "impl": decomp_impl(tm, left, right), "kind": "t-decomp",
            "oracle": {"ok": not probs, "detail": "; ".join(probs) or f"split then merge = discarded weight (kept {keep}/{len(s)})"},
            "sig": f"t-decomp:{dl}{dr}:{keep}/{len(s)}", "nontrivial": 0 < keep}


def run_t_lr(inp):
    rng = random.Random(inp["sub"])
    span = rng.choice([3, 3, 4, 5])                       # number of sites the gate MPO covers
    length = span + rng.randrange(0, 2)
    lo = rng.randrange(0, length - span + 1)
    a, b = (lo, lo + span - 1) if rng.random() < 0.5 else (lo + span - 1, lo)
    name = rng.choice(["cx", "cx", "cz", "cp", "rzz", "rxx", "ryy"])
    ps = [rng.uniform(0.2, 2.8)] if name in NPAR else []
    conj = rng.random() < 0.5
    ts = rational_chain(rng, length)
    mpo = custom_mpo(ts)
    old = mpo.to_matrix()
    qc, empty = build(length, [[name, [a, b], ps]]), QuantumCircuit(length)
    d1, d2 = (circuit_to_dag(empty), circuit_to_dag(qc)) if conj else (circuit_to_dag(qc), circuit_to_dag(empty))
    made = []

    class RecMPO(MPO):
        def __init__(self, *x, **k):
            super().__init__(*x, **k)
            made.append(self)

    segs = []

    def hook(c):
        if c["conj"] is False and made:
            segs.append({"q": c["n"], "theta": c["theta"], "W": [None if t is None else np.array(t) for t in mpo.tensors],
                         "G": [None if t is None else np.array(t) for t in made[-1].tensors]})

    rec = ZoneRec(hook)
    with patched(rec.patches() + [(mu, "MPO", RecMPO)]):
        mu.apply_long_range_layer(mpo, d1, d2, 1e-13, conjugate=conj)
    out = []
    which = "bottom" if conj else "top"
    for k, sg in enumerate(segs):
        th = sg["theta"]
        q = sg["q"]
        hanging = (2 * k == span - 1)
        if hanging:
            req = f"lrhang {which} | {site_tokens(sg['G'][span - 1])} | {site_tokens(sg['W'][q + 1])} | {site_tokens(sg['W'][q])}"
        else:
            req = (f"lrpair {which} | {site_tokens(sg['G'][2 * k])} | {site_tokens(sg['G'][2 * k + 1])} | "
                   f"{site_tokens(sg['W'][q])} | {site_tokens(sg['W'][q + 1])}")
        out.append({"req": req, "impl": " ".join(map(str, th.shape)) + " " + centries(th), "kind": "t-lr", "oracle": None,
                    "sig": f"t-lr:{which}:{'hang' if hanging else 'pair'}:{span}:{th.shape[2]}:{th.shape[5]}", "nontrivial": True})
    g_full = unitary(length, [[name, [a, b], ps]])
    want = old @ g_full.conj().T if conj else g_full @ old
    rel = float(np.linalg.norm(mpo.to_matrix() - want)) / max(1.0, float(np.linalg.norm(want)))
    TWORST["update_rel"] = max(TWORST["update_rel"], rel)
    nseg = (span + 1) // 2
    probs = []
    if rel > 1e-8:
        probs.append(f"apply_long_range_layer({name} on ({a},{b}), {length} sites, conjugate={conj}): chain differs from "
                     f"{'old.G^dagger' if conj else 'G.old'} by {rel:.2e} (relative)")
    if len(segs) != nseg:
        probs.append(f"{len(segs)} two-site updates for a gate MPO on {span} sites (expected {nseg})")
    out.append({"req": None, "impl": None, "kind": "t-lr-dense", "oracle": {"ok": not probs, "detail": "; ".join(probs) or "long-range layer = dense product"},
                "sig": f"t-lr-dense:{name}:{span}:{int(conj)}:{a < b}", "nontrivial": True})
    return out


def rational_mps(rng, length, p, maxb=3):
    dims = [1] + [rng.randint(1, maxb) for _ in range(length - 1)] + [1]
    return [rat_tensor(rng, (p, dims[i], dims[i + 1])) for i in range(length)]


def dense_mps(ts):
    v = np.ones((1, 1), dtype=complex)
    for t in ts:
        v = np.einsum("xl,plr->xpr", v, t).reshape(-1, t.shape[2])
    return v.reshape(-1)


def run_t_sp(inp):
    rng = random.Random(inp["sub"])
    length = rng.choice([1, 2, 3, 4])
    p = rng.choice([2, 2, 4])
    ta, tb = rational_mps(rng, length, p), rational_mps(rng, length, p)
    a = MPS(length, [t.copy() for t in ta], physical_dimensions=p)
    b = MPS(length, [t.copy() for t in tb], physical_dimensions=p)
    got = a.scalar_product(b)
    ref = np.vdot(dense_mps(ta), dense_mps(tb))
    dev = abs(complex(got) - complex(ref))
    TWORST["trace_dev"] = max(TWORST["trace_dev"], dev)
    req = f"sp {length} | " + " | ".join(msite_tokens(t) for t in ta) + " | " + " | ".join(msite_tokens(t) for t in tb)
    return {"req": req, "impl": ib.cfrac(got), "kind": "t-sp", "oracle": {"ok": dev <= T_EXACT_TOL, "detail": f"scalar_product vs dense <a|b>: {dev:.2e}"},
            "sig": f"t-sp:{length}:{p}:" + "".join(str(t.shape[2]) for t in ta) + ":" + "".join(str(t.shape[2]) for t in tb), "nontrivial": True}


def run_t_idtrace(inp):
    rng = random.Random(inp["sub"])
    length = rng.choice([1, 2, 3, 4])
    ts = rational_chain(rng, length)
    if rng.random() < 0.3:                                 # near-identity operators: large traces, decisions that can go both ways
        for t in ts:
            for x in range(min(t.shape[2], t.shape[3])):
                t[0, 0, x, x] += 1
                t[1, 1, x, x] += 1
    mpo = custom_mpo(ts)
    dense_tr = complex(np.trace(mpo.to_matrix()))
    ov = abs(dense_tr) / 2**length
    fids = [rng.uniform(0.01, 0.99), ov * (1 + 1e-3), ov * (1 - 1e-3), ov + 1e-9, ov - 1e-9, 0.5 * ov + 1e-3]
    out = []
    for f in fids:
        if not 0.0 < f:
            continue
        with Spy() as spy:
            got = bool(mpo.check_if_identity(f))
        tr = complex(spy.traces[-1])
        dev = abs(tr - dense_tr.conjugate())
        TWORST["trace_dev"] = max(TWORST["trace_dev"], dev)
        probs = []
        if dev > T_EXACT_TOL:
            probs.append(f"check_if_identity computed the scalar {tr!r}, conj(tr(to_matrix())) = {dense_tr.conjugate()!r}")
        edge = abs(ov - f) <= 1e-12 * max(1.0, ov)
        if not edge and got != (ov >= f):
            probs.append(f"|tr|/2^n = {ov!r}, fidelity {f!r}: check_if_identity says {got}")
        req = f"idtrace {ib.frac(f)} | " + " | ".join(site_tokens(t) for t in mpo.tensors)
        out.append({"req": req, "impl": f"tr {ib.cfrac(tr)} dec {int(got)}", "kind": "t-idtrace", "edge": edge,
                    "oracle": {"ok": not probs, "detail": "; ".join(probs) or "trace = conj(tr(to_matrix())), decision = |tr|/2^n >= f"},
                    "sig": f"t-idtrace:{length}:{int(got)}:" + "".join(str(t.shape[3]) for t in ts), "nontrivial": abs(dense_tr) > 0})
    return out


def real_code_raised(fn):
    """an exception that escapes from inside mqt.yaqs on one of these well-formed inputs is an observation about the code
    (a failing input), not a harness error; anything raised by the harness itself is re-raised"""
    import functools
    import traceback as tb

    @functools.wraps(fn)
    def wrapper(inp):
        try:
            return fn(inp)
        except ib.NonFinite:
            raise
        except Exception as e:  # noqa: BLE001
            frames = tb.extract_tb(e.__traceback__)
            inside = [f for f in frames if "/mqt/yaqs/" in f.filename.replace("\\", "/")]
            if not inside:
                raise
            f = inside[-1]
            return {"req": None, "impl": None, "kind": inp["kind"] + "-raised", "sig": f"{inp['kind']}-raised:{type(e).__name__}:{f.name}",
                    "oracle": {"ok": False, "detail": f"the real code raised {type(e).__name__}: {str(e)[:200]} in {f.name} "
                                                      f"({f.filename.split('/mqt/yaqs/')[-1]}:{f.lineno}) on a well-formed input of kind {inp['kind']}"}}

    return wrapper


T_RUNNERS = {"t-applygate": run_t_applygate, "t-applygate-lib": run_t_applygate_lib, "t-zone": run_t_zone, "t-update": run_t_update,
             "t-decomp": run_t_decomp, "t-lr": run_t_lr, "t-sp": run_t_sp, "t-idtrace": run_t_idtrace}
T_RUNNERS = {k: real_code_raised(f) for k, f in T_RUNNERS.items()}


def gen_tensor(rng, tier):
    counts = {"quick": (40, 20, 80, 90, 60, 40, 60, 30), "thorough": (300, 150, 600, 600, 400, 300, 400, 200),
              "search": (60, 30, 100, 100, 60, 40, 80, 40)}
    c = counts.get(tier, counts["quick"])
    plan = []
    for k, m in zip(("t-applygate", "t-applygate-lib", "t-zone", "t-update", "t-decomp", "t-lr", "t-sp", "t-idtrace"), c):
        plan += [k] * m
    rng.shuffle(plan)
    for k in plan:
        yield {"kind": k, "sub": rng.randrange(1 << 30)}


def t_spec():
    return [{"name": "tensor ties: dense oracles (exact inputs: apply_gate = G.Theta / Theta.G^dagger; library gates vs qiskit; update / long-range layer "
                     "vs embedded products; split-then-merge = discarded weight; trace = conj(tr(to_matrix())))", "ok": True,
             "worst_exact_deviation": TWORST["exact_dev"], "worst_library_gate_deviation": TWORST["lib_dev"],
             "worst_update_relative_deviation": TWORST["update_rel"], "worst_split_weight_relative_deviation": TWORST["split_rel"],
             "worst_trace_deviation": TWORST["trace_dev"], "tolerances": {"exact": T_EXACT_TOL, "library": T_LIB_TOL, "update": 1e-8, "split": 1e-9}},
            {"name": "np.linalg.svd spec on every call made during the tensor ties — decompose_theta's flattened blocks and the gate constructors' (U diag(s) Vh = M, UhU = 1, VhVhh = 1, s sorted >= 0): the hypotheses of split_then_merge",
             "ok": TWORST["svd_bad"] == 0, "n": TWORST["svd_n"], "worst": TWORST["svd_worst"], "detail": TWORST["svd_detail"]}]


def gen_base(rng, tier):
    # numba / einsum warm-up happens in the first real call; important kinds first
    counts = {"quick": (80, 600, 4, 150, 250, 60), "thorough": (600, 6000, 10, 1500, 2500, 600), "search": (20, 300, 2, 200, 500, 100)}
    nd, ni, n1, ne, nx, nr = counts.get(tier, counts["quick"])
    plan = (["eps"] * nx + ["iter"] * ni + ["diag"] * nd + ["equal"] * ne + ["randpair"] * nr + ["n1"] * n1)
    # interleave deterministically so that a budget cut keeps every kind
    rng.shuffle(plan)
    for k in plan:
        yield {"kind": k, "sub": rng.randrange(1 << 30)}


# ================================================================================================================
# EXTENSION (xc04): end to end — the chain-level run of `iterate` (Model/CheckerChain.lean, Props/C04.lean Part D)
# ================================================================================================================
# kind `e2e` (one real `iterate` on a random pair of nearest-neighbour circuits, n = 2..5, 1..10 gates each, tiny threshold):
#   * the run goes through `run_pair` (label "e2e"): trace tie of the event list against `iter`, sub-ties, wire-order oracle,
#     loop bound, final MPO vs U1.U2^dagger — nothing of that is duplicated here; around it every real `update_mpo` is recorded
#     (all tensors before / after, the gate objects and instructions of its two zones, the SVD `decompose_theta` received)
#   * `e2e-update`: a sample of those updates through the driver's `update` request (`updateThetaM` + `decomposeTheta`, the
#     step function of `CheckerChain.updateMpo`) on the binary64 tensors the code held at that moment
#   * `e2e-chain` (oracle, no model): first chain = `MPO.identity`; each update touches only tensors m, m+1 and the next one
#     starts from exactly the tensors the previous one left (so the per-update ties chain up to `runSteps`); per update
#     to_matrix(after) = embed(U1 zone).to_matrix(before).embed(U2 zone)^dagger (C04.27 on the real code); `gate.sites` /
#     `gate.interaction` = the instruction's qubits (hypothesis `NNCircuit`); the event list has no long-range step; spec tie of
#     `ExactSteps`: kept part of every SVD reproduces the block handed to it
#   * `e2e-order` (oracle): to_matrix(final) = U1.U2^dagger with the ORDER asserted — compared against the four other
#     conventions (U2.U1^dagger, U1^dagger.U2, U2^dagger.U1, U1.U2^T) whenever they differ — and the swapped call gives U2.U1^dagger
#   * `e2e-idtrace`: `check_if_identity` on the final chain through the driver's `idtrace` request; the captured scalar must be
#     tr(U1^dagger U2) as a complex number (C04.30), not only in modulus
#   * `e2e-verdict`: `verdict |trace| n f` for fidelities around |tr(U1^dagger U2)|/2^n, with the dense oracle
E2E = {"n": 0, "updates": 0, "tied_updates": 0, "order_dev": 0.0, "order_discriminating": 0, "step_dev": 0.0, "scalar_dev": 0.0,
       "exact_rel": 0.0, "exact_bad": 0, "exact_detail": "", "gateobj_bad": 0, "max_bond": 1, "chain_bad": 0, "chain_detail": "",
       "scalar_bad": 0, "scalar_detail": ""}
E2E_SCALAR_TOL = 1e-8      # captured scalar vs tr(U1^dag U2); largest deviation seen on the clean tree over seeds 0..5: 3e-14
E2E_STEP_TOL = 1e-8        # per update, relative; seen: 2e-15
E2E_MAX_TIE_ENTRIES = 1024 # rows*cols of the block handed to the SVD, for the updates sent to the driver


class UpdateRec:
    """records every call of the real `update_mpo` made while it is installed (nests with `Spy`, `ZoneRec`)"""

    def __init__(self):
        self.updates, self.svds, self.zones, self.mpo = [], [], ZoneRec(), None

    def patches(self):
        o_upd = mu.update_mpo
        rec = self

        def upd(mpo, dag1, dag2, qubits, threshold):
            rec.mpo = mpo
            rec.dags = (dag1, dag2)
            u = {"m": int(qubits[0]), "thr": float(threshold), "before": [np.array(t) for t in mpo.tensors],
                 "z0": len(rec.zones.calls), "s0": len(rec.svds)}
            r = o_upd(mpo, dag1, dag2, qubits, threshold)
            u["after"] = [np.array(t) for t in mpo.tensors]
            u["zones"] = rec.zones.calls[u["z0"]:]
            for z in u["zones"]:
                z["circuit"] = 1 if z.get("dag") is dag1 else 2 if z.get("dag") is dag2 else (2 if z["conj"] else 1)
            u["svd"] = rec.svds[-1] if len(rec.svds) > u["s0"] else None
            rec.updates.append(u)
            return r

        zp = self.zones.patches()
        inner = dict((name, fn) for _, name, fn in zp)["apply_temporal_zone"]

        def atz(theta, dag, qubits, *, conjugate=False):      # on top of ZoneRec's wrapper: remember which DAG the zone came from
            k = len(rec.zones.calls)
            r = inner(theta, dag, qubits, conjugate=conjugate)
            if len(rec.zones.calls) > k:
                rec.zones.calls[k]["dag"] = dag
            return r

        return [(mod, name, atz if name == "apply_temporal_zone" else fn) for mod, name, fn in zp] + [(mu, "update_mpo", upd)]


def nn_instrs(rng, n, m):
    return rand_instrs(rng, n, m, plong=0.0, p1=0.4)


def run_e2e(inp):
    rng = random.Random(inp["sub"])
    if "c1" in inp:
        n, i1, i2 = inp["n"], inp["c1"], inp["c2"]
    else:
        n = rng.choice([2, 3, 3, 4, 4, 5])
        i1 = nn_instrs(rng, n, rng.randrange(1, 11))
        i2 = nn_instrs(rng, n, rng.randrange(1, 11))
        if rng.random() < 0.25:                             # an equivalent pair: the trace is large and the verdict can be "equivalent"
            i2 = [g for g in resynth(rng, i1) if len(g[1]) == 1 or abs(g[1][0] - g[1][1]) == 1]
            if rng.random() < 0.5:
                i2 = i2 + [["rz", [rng.randrange(n)], [rng.choice([1e-3, 0.05, 0.4])]]]
    thr = inp.get("threshold") or rng.choice([1e-13, 1e-14])
    rec = UpdateRec()
    with patched(rec.patches()), t_capture_svd(rec.svds):
        out = run_pair(inp, i1, i2, n, thr, "e2e")
    main = out[0]
    if rec.mpo is None or "done" not in str(main.get("impl", "")):
        return out                                           # run_pair's oracle already reports what went wrong
    mpo = rec.mpo
    E2E["n"] += 1
    E2E["updates"] += len(rec.updates)
    u1, u2 = unitary(n, i1), unitary(n, i2)
    dim = 2**n
    # ---------------------------------------------------------------- chain bookkeeping (spec ties) + per-update dense oracle
    # `probs`  : the operator is wrong (a statement about the property's mechanism, model-independent)            -> oracle
    # `sprobs` : the run is not shaped the way `CheckerChain.runSteps` assumes (which is not by itself a wrong verdict) -> spec tie
    probs, sprobs = [], []
    ident = [np.expand_dims(np.eye(2, dtype=complex), (2, 3)) for _ in range(n)]
    prev = ident
    if any(e.startswith("g") for e in str(main["impl"]).split()):
        sprobs.append("a nearest-neighbour pair took the long-range branch of iterate")
    for k, u in enumerate(rec.updates):
        m = u["m"]
        if len(u["before"]) != n or any(a.shape != b.shape or not np.array_equal(a, b) for a, b in zip(u["before"], prev)):
            sprobs.append(f"update {k} at ({m},{m + 1}) does not start from the tensors the previous update left")
            break
        for j in range(n):
            if j not in (m, m + 1) and not np.array_equal(u["before"][j], u["after"][j]):
                sprobs.append(f"update {k} at ({m},{m + 1}) changed tensor {j}")
        prev = u["after"]
        zs = u["zones"]
        if not (len(zs) == 2 and zs[0]["conj"] is False and zs[1]["conj"] is True and zs[0]["n"] == m and zs[1]["n"] == m):
            sprobs.append(f"update {k}: zones applied with (site, conjugate) = {[(z['n'], z['conj']) for z in zs]}")
        for z in zs:
            if len(z["gates"]) != len(z["instrs"]):
                sprobs.append(f"update {k}: {len(z['instrs'])} instructions but {len(z['gates'])} gate objects")
            for g, ins in zip(z["gates"], z["instrs"]):
                if [int(q) for q in g.sites] != [int(q) for q in ins[1]] or int(g.interaction) != len(ins[1]):
                    E2E["gateobj_bad"] += 1
                    sprobs.append(f"gate object for {ins[0]} on {ins[1]} has sites {list(g.sites)} interaction {g.interaction}")
        # whatever the call structure: gates of circuit 1 (recognised by the DAG they were taken from) from the left in the order
        # taken, adjoints of the gates of circuit 2 from the right
        a1, a2 = np.eye(4, dtype=complex), np.eye(4, dtype=complex)
        for z in zs:
            for ins in z["instrs"]:
                if z.get("circuit", 2 if z["conj"] else 1) == 1:
                    a1 = local_unitary([ins], m) @ a1
                else:
                    a2 = local_unitary([ins], m) @ a2
        old_m, new_m = custom_mpo(u["before"]).to_matrix(), custom_mpo(u["after"]).to_matrix()
        want = embed(a1, m, n) @ old_m @ embed(a2, m, n).conj().T
        rel = float(np.linalg.norm(new_m - want)) / max(1.0, float(np.linalg.norm(want)))
        E2E["step_dev"] = max(E2E["step_dev"], rel)
        if rel > E2E_STEP_TOL + 1e4 * thr:
            probs.append(f"update {k} at ({m},{m + 1}): chain differs from embed(U1 zone).old.embed(U2 zone)^dagger by {rel:.2e} (relative)")
        if u["svd"] is not None:                              # spec tie of `ExactSteps` (no truncation)
            tm, uu, ss, vh = u["svd"]
            keep = u["after"][m].shape[3]
            kept = (uu[:, :keep] * ss[:keep]) @ vh[:keep]
            er = float(np.linalg.norm(kept - tm)) / max(1.0, float(np.linalg.norm(tm)))
            E2E["exact_rel"] = max(E2E["exact_rel"], er)
            E2E["max_bond"] = max(E2E["max_bond"], keep)
            if er > 1e-9:
                E2E["exact_bad"] += 1
                E2E["exact_detail"] = f"update {k}: kept {keep}/{len(ss)}, ||kept - block|| / ||block|| = {er:.2e}, threshold {thr}"
    if rec.updates and any(not np.array_equal(a, np.asarray(b)) for a, b in zip(prev, mpo.tensors)):
        sprobs.append("the final tensors are not those the last update_mpo left")
    if rec.updates and any(not np.array_equal(a, b) for a, b in zip(rec.updates[0]["before"], ident)):
        sprobs.append("the first update does not start from MPO.identity")
    if sprobs:
        E2E["chain_bad"] += 1
        E2E["chain_detail"] = f"n={n} c1={i1} c2={i2}: " + "; ".join(sprobs[:3])
    out.append({"req": None, "impl": None, "kind": "e2e-chain", "oracle": {"ok": not probs, "detail": "; ".join(probs[:4]) or
                f"{len(rec.updates)} updates, each = embed(U1 zone).old.embed(U2 zone)^dagger"},
                "sig": f"e2e-chain:{n}:{len(i1)}:{len(i2)}:{len(rec.updates)}", "nontrivial": len(rec.updates) > 0})
    # ---------------------------------------------------------------- a sample of the updates through the driver
    cand = [u for u in rec.updates if u["svd"] is not None and len(u["zones"]) == 2
            and u["svd"][0].shape[0] * u["svd"][0].shape[1] <= E2E_MAX_TIE_ENTRIES]
    busy = [u for u in cand if u["zones"][0]["gates"] or u["zones"][1]["gates"]]
    idle = [u for u in cand if not (u["zones"][0]["gates"] or u["zones"][1]["gates"])]
    rr = random.Random(inp["sub"] + 1)
    rr.shuffle(busy)
    rr.shuffle(idle)
    for u in busy[:4] + idle[:1]:
        m = u["m"]
        tm, uu, ss, vh = u["svd"]
        g1, g2 = u["zones"][0]["gates"], u["zones"][1]["gates"]
        a_t, b_t = u["before"][m], u["before"][m + 1]
        req = (f"update 2 {m} {len(ss)} {ib.frac(u['thr'])} {len(g1)} {len(g2)} | {site_tokens(a_t)} | {site_tokens(b_t)} | "
               + "".join(gate_part(g) + " | " for g in g1 + g2) + dec_parts(uu, ss, vh))
        E2E["tied_updates"] += 1
        out.append({"req": req, "impl": decomp_impl(tm, u["after"][m], u["after"][m + 1]), "kind": "e2e-update", "oracle": None,
                    "sig": f"e2e-update:{n}:{m}:{len(g1)}:{len(g2)}:{a_t.shape[2]}{a_t.shape[3]}{b_t.shape[3]}:{u['after'][m].shape[3]}",
                    "nontrivial": len(g1) + len(g2) > 0})
    # ---------------------------------------------------------------- the ORDER of the product
    final = mpo.to_matrix()
    ref = u1 @ u2.conj().T
    tol = NUM_TOL + 1e4 * thr * max(1, len(i1) + len(i2))
    dev = float(np.linalg.norm(final - ref))
    E2E["order_dev"] = max(E2E["order_dev"], dev)
    alts = {"U2.U1^dagger": u2 @ u1.conj().T, "U1^dagger.U2": u1.conj().T @ u2, "U2^dagger.U1": u2.conj().T @ u1, "U1.U2^T": u1 @ u2.T,
            "conj(U1).U2^dagger": u1.conj() @ u2.conj().T}
    disc = [k for k, a in alts.items() if float(np.linalg.norm(a - ref)) > 1e-3]
    oprobs = []
    if dev > tol:
        near = [k for k, a in alts.items() if float(np.linalg.norm(final - a)) <= tol]
        oprobs.append(f"to_matrix() of the final MPO differs from U1.U2^dagger by {dev:.3e} (> {tol:.1e})" + (f"; it equals {near[0]}" if near else ""))
    mpo_sw = MPO()
    mpo_sw.identity(n)
    mu.iterate(mpo_sw, circuit_to_dag(build(n, i2)), circuit_to_dag(build(n, i1)), thr)
    dev_sw = float(np.linalg.norm(mpo_sw.to_matrix() - u2 @ u1.conj().T))
    E2E["order_dev"] = max(E2E["order_dev"], dev_sw)
    if dev_sw > tol:
        oprobs.append(f"swapped call: to_matrix() differs from U2.U1^dagger by {dev_sw:.3e}")
    if len(disc) == len(alts):
        E2E["order_discriminating"] += 1
    out.append({"req": None, "impl": None, "kind": "e2e-order", "oracle": {"ok": not oprobs, "detail": "; ".join(oprobs) or
                f"final MPO = U1.U2^dagger (dev {dev:.1e}); distinguishable from {len(disc)}/{len(alts)} other conventions"},
                "sig": f"e2e-order:{n}:{len(disc)}", "nontrivial": len(disc) == len(alts)})
    # ---------------------------------------------------------------- the scalar and the verdict
    want_tr = complex(np.trace(u1.conj().T @ u2))
    ov = abs(want_tr) / dim
    fids = [f for f in (ov * (1 - 1e-3), ov * (1 + 1e-3), ov + 1e-5, ov - 1e-5, 0.5, rng.uniform(0.05, 0.999)) if f > 0.0]
    for f in fids:
        with Spy() as spy:
            got = bool(mpo.check_if_identity(f))
        tr = complex(spy.traces[-1])
        sdev = abs(tr - want_tr)
        E2E["scalar_dev"] = max(E2E["scalar_dev"], sdev)
        vprobs = []
        if sdev > E2E_SCALAR_TOL * dim:                      # spec tie of C04.30's identification of the scalar (phase included);
            E2E["scalar_bad"] += 1                           # only a wrong MODULUS is a wrong verdict, and that is the oracle below
            E2E["scalar_detail"] = (f"n={n} c1={i1} c2={i2}: check_if_identity computed the scalar {tr!r}; tr(U1^dagger U2) = {want_tr!r}"
                                    + (" (it is the complex conjugate)" if abs(tr - want_tr.conjugate()) <= E2E_SCALAR_TOL * dim else ""))
        if abs(abs(tr) - abs(want_tr)) > E2E_SCALAR_TOL * dim:
            vprobs.append(f"check_if_identity computed a scalar of modulus {abs(tr)!r}; |tr(U1^dagger U2)| = {abs(want_tr)!r}")
        if abs(ov - f) > EPS_MARGIN and got != (ov > f):
            vprobs.append(f"|tr(U1^dagger U2)|/2^n = {ov!r}, fidelity {f!r}: check_if_identity says {got}")
        orc = {"ok": not vprobs, "detail": "; ".join(vprobs) or f"scalar = tr(U1^dagger U2) (dev {sdev:.1e}); verdict {got} at f={f!r}, overlap {ov!r}"}
        t = np.abs(spy.traces[-1])
        edge = abs(float(t) / dim - f) <= 1e-12 * max(1.0, f)
        out.append(dict(verdict_case(t, n, f, got, "e2e-verdict", f"e2e-verdict:{n}:{got}:{'gt' if f > ov else 'lt'}", orc), edge=edge))
    f0 = fids[inp["sub"] % 2] if len(fids) > 1 else fids[0]   # just below / just above the overlap: both decisions occur
    with Spy() as spy:
        got0 = bool(mpo.check_if_identity(f0))
    tr0 = complex(spy.traces[-1])
    if sum(np.asarray(t).size for t in mpo.tensors) <= 1200:
        out.append({"req": f"idtrace {ib.frac(f0)} | " + " | ".join(site_tokens(t) for t in mpo.tensors), "impl": f"tr {ib.cfrac(tr0)} dec {int(got0)}",
                    "kind": "e2e-idtrace", "oracle": None, "edge": abs(abs(tr0) / dim - f0) <= 1e-9 * max(1.0, f0),
                    "sig": f"e2e-idtrace:{n}:{int(got0)}:" + "".join(str(np.asarray(t).shape[3]) for t in mpo.tensors), "nontrivial": abs(tr0) > 0})
    return out


def e2e_spec():
    return [{"name": "e2e: final MPO of the real iterate = U1.U2^dagger with the order asserted (five other conventions told apart), swapped call = U2.U1^dagger; "
                     "per update to_matrix(after) = embed(U1 zone).to_matrix(before).embed(U2 zone)^dagger; captured scalar = tr(U1^dagger U2) as a complex number",
             "ok": True, "runs": E2E["n"], "updates": E2E["updates"], "updates_sent_to_driver": E2E["tied_updates"],
             "order_discriminating_runs": E2E["order_discriminating"], "worst_final_deviation": E2E["order_dev"],
             "worst_update_relative_deviation": E2E["step_dev"], "worst_scalar_deviation": E2E["scalar_dev"], "largest_bond": E2E["max_bond"],
             "tolerances": {"final": "NUM_TOL + 1e4*thr*gates", "update": E2E_STEP_TOL, "scalar": f"{E2E_SCALAR_TOL}*2^n"}},
            {"name": "e2e: hypothesis ExactSteps of iterate_represents_product / checker_correct on the real runs — the kept part u[:, :keep].diag(s[:keep]).vh[:keep] "
                     "of every SVD inside decompose_theta reproduces the block handed to it (nothing but numerically zero singular values is discarded)",
             "ok": E2E["exact_bad"] == 0, "n": E2E["updates"], "worst_relative_residual": E2E["exact_rel"], "detail": E2E["exact_detail"]},
            {"name": "e2e: the real run has the shape CheckerChain.runSteps assumes — starts from MPO.identity, no long-range step, every update_mpo reads and "
                     "writes only tensors m, m+1 and starts from what the previous one left, zone of circuit 1 plain then zone of circuit 2 conjugated, gate objects "
                     "carry the instruction's qubits (hypothesis NNCircuit)",
             "ok": E2E["chain_bad"] == 0, "n": E2E["n"], "detail": E2E["chain_detail"]},
            {"name": "e2e: the scalar check_if_identity computes is tr(U1^dagger U2) as a complex number (C04.30 checker_correct: conj(tr(U1.U2^dagger)))",
             "ok": E2E["scalar_bad"] == 0, "n": E2E["n"], "worst_deviation": E2E["scalar_dev"], "detail": E2E["scalar_detail"]}]


def gen_e2e(rng, tier):
    m = {"quick": 80, "thorough": 800, "search": 120}.get(tier, 80)
    for _ in range(m):
        yield {"kind": "e2e", "sub": rng.randrange(1 << 30)}


# ================================================================================================================
# EXTENSION (xl04): long-range gates and swaps at chain level (Model/CheckerChain.lean `lrMul` / `lrLayer` / `runStepsLR`,
#                   Props/C04.lean Part E)
# ================================================================================================================
# kind `e2e-lr` (one real `iterate` on a random pair WITH long-range two-qubit gates and swaps: n = 3..6, distances 2..5, both
# orientations, the long-range gates in circuit 1, circuit 2 or both, several in a row, hitting an MPO that already has bonds > 1;
# thresholds 1e-13 / 1e-14).  The run goes through `run_pair` (label "e2e-lr": event list vs `iter`, sub-ties, wire order, loop
# bound, final MPO); around it every real `apply_long_range_layer` is recorded: all tensors before / after, the gate object and
# its `mpo_tensors` (copied when `convert_dag_to_tensor_algorithm` returns them, i.e. before `rotate`), the two temporal zones of
# every pair update, the block handed to every `decompose_theta` and what the SVD returned.
#   * `e2e-lr-layer` (oracle, no model): per layer  to_matrix(after) = Z1 . G . to_matrix(before) . Z2^dagger  (gate of circuit 1)
#     resp.  Z1 . to_matrix(before) . G^dagger . Z2^dagger  (gate of circuit 2), G = qiskit Operator of the single gate on the
#     register, Z1 / Z2 the embedded zone products of the layer's pair updates
#   * `e2e-lr-tie`: up to three layers per run through the driver's `lrlayer` request (`lrGateTensors`, `lrMul`, `lrLayer`):
#     the matrix handed to every SVD of the layer, every kept rank, the tensors of the span afterwards; one `lrblocks` per run (the merged blocks of the stacked chain `lrMul`
#     = the recorded inputs of the first `apply_temporal_zone` of every non-hanging pair)
#   * `e2e-lr-order` (oracle): to_matrix(final) = U1.U2^dagger with the order asserted, swapped call = U2.U1^dagger
#   * `e2e-lr-verdict` / `e2e-lr-idtrace`: the scalar of `check_if_identity` = tr(U1^dagger U2); verdict around the overlap
#   * spec ties (hypotheses of C04.40 / C04.41): `GateMpoOK` (to_matrix of gate.mpo_tensors = gate.tensor on the END sites of the
#     span), gate.tensor in site order = qiskit's operator, `SymLR` (the 4x4 matrix is symmetric), `ExactBlocks` (kept part of every
#     SVD reproduces its block), the run has the shape `runStepsLR` assumes (each layer starts from what the previous call left,
#     touches only its span, one pair update per entry of `lrPairs`, zone of circuit 1 plain then zone of circuit 2 conjugated)
ELR = {"n": 0, "layers": 0, "layers_top": 0, "layers_bottom": 0, "tied_layers": 0, "skipped_big": 0, "layer_dev": 0.0, "order_dev": 0.0,
       "scalar_dev": 0.0, "gatempo_dev": 0.0, "gatempo_bad": 0, "gatempo_detail": "", "sym_dev": 0.0, "sym_bad": 0, "sym_detail": "",
       "exact_rel": 0.0, "exact_bad": 0, "exact_detail": "", "shape_bad": 0, "shape_detail": "", "max_bond": 1, "max_span": 0,
       "swap_layers": 0, "bonded_layers": 0, "row_layers": 0, "scalar_bad": 0, "scalar_detail": "", "order_discriminating": 0}
ELR_STEP_TOL = 1e-8        # per layer, relative; largest seen on the clean tree over seeds 0..7: 3e-15
ELR_MAX_TIE_ENTRIES = 2048 # rows*cols of the largest block of a layer sent to the driver


class LayerRec(UpdateRec):
    """UpdateRec + every call of the real `apply_long_range_layer` (gate object, gate-MPO tensors, zones, splits)"""

    def __init__(self):
        super().__init__()
        self.layers, self.splits, self.gates = [], [], []

    def patches(self):
        base = super().patches()
        o_lr, o_dec = mu.apply_long_range_layer, mu.decompose_theta
        inner_conv = dict((name, fn) for _, name, fn in base)["convert_dag_to_tensor_algorithm"]
        rec = self

        def conv(x):
            r = inner_conv(x)
            if isinstance(x, DAGOpNode):
                g = r[0]
                rec.gates.append({"gate": g, "mpo": [np.array(t) for t in g.mpo_tensors], "tensor": np.array(g.tensor),
                                  "instr": [x.op.name, [q._index for q in x.qargs], [float(p) for p in x.op.params]]})  # noqa: SLF001
            return r

        def dec(theta, threshold):
            k = len(rec.svds)
            r = o_dec(theta, threshold)
            rec.splits.append({"theta": np.array(theta), "svd": rec.svds[-1] if len(rec.svds) > k else None,
                               "out": (np.array(r[0]), np.array(r[1]))})
            return r

        def lr(mpo, dag1, dag2, threshold, *, conjugate):
            rec.mpo = mpo
            c = {"conj": bool(conjugate), "thr": float(threshold), "before": [np.array(t) for t in mpo.tensors],
                 "z0": len(rec.zones.calls), "p0": len(rec.splits), "g0": len(rec.gates), "u0": len(rec.updates)}
            r = o_lr(mpo, dag1, dag2, threshold, conjugate=conjugate)
            c["after"] = [np.array(t) for t in mpo.tensors]
            c["zones"] = rec.zones.calls[c["z0"]:]
            for z in c["zones"]:
                z["circuit"] = 1 if z.get("dag") is dag1 else 2 if z.get("dag") is dag2 else (2 if z["conj"] else 1)
            c["splits"] = rec.splits[c["p0"]:]
            c["gobj"] = rec.gates[c["g0"]] if len(rec.gates) > c["g0"] else None
            c["order"] = len(rec.layers) + len(rec.updates)
            rec.layers.append(c)
            return r

        return ([(m, n, conv if n == "convert_dag_to_tensor_algorithm" else f) for m, n, f in base]
                + [(mu, "decompose_theta", dec), (mu, "apply_long_range_layer", lr)])


def embed_ends(g4, span):
    """two-site tensor g4[a,b,c,e] on the END sites of `span` sites, identity in between"""
    mid = 2 ** (span - 2)
    return np.einsum("abce,mn->ambcne", np.asarray(g4, dtype=complex), np.eye(mid)).reshape(4 * mid, 4 * mid)


def lr_gate(rng, n, dist=None, name=None):
    name = name or rng.choice(TWOQ)
    dist = dist or rng.randrange(2, n)
    a = rng.randrange(0, n - dist)
    b = a + dist
    if rng.random() < 0.5:
        a, b = b, a
    return [name, [a, b], [_angle(rng) for _ in range(NPAR.get(name, 0))]]


def lr_pair(rng):
    n = rng.choice([3, 3, 4, 4, 5, 5, 6])
    style = rng.choice(["lr1", "lr2", "both", "row", "bonds", "swap", "mixed", "equiv"])
    few = lambda k: nn_instrs(rng, n, rng.randrange(0, k))      # noqa: E731
    if style == "lr1":
        i1, i2 = few(4) + [lr_gate(rng, n)] + few(4), few(6)
    elif style == "lr2":
        i1, i2 = few(6), few(4) + [lr_gate(rng, n)] + few(4)
    elif style == "both":
        i1, i2 = few(3) + [lr_gate(rng, n)] + few(3), few(3) + [lr_gate(rng, n)] + few(3)
    elif style == "row":                                        # several long-range gates in a row, in one circuit or in both
        row = [lr_gate(rng, n) for _ in range(rng.randrange(2, 4))]
        other = [lr_gate(rng, n) for _ in range(rng.randrange(0, 3))]
        i1, i2 = (few(2) + row + few(2), few(2) + other) if rng.random() < 0.5 else (few(2) + other, few(2) + row + few(2))
    elif style == "bonds":                                      # the long-range gate hits an MPO that already has bonds > 1
        ent = [[rng.choice(["cx", "rzz", "rxx", "cp"]), [q, q + 1] if rng.random() < 0.5 else [q + 1, q], []] for q in range(n - 1)]
        for g in ent:
            g[2] = [_angle(rng) for _ in range(NPAR.get(g[0], 0))]
        one = [[rng.choice(["h", "rx", "ry", "sx"]), [q], []] for q in range(n)]
        for g in one:
            g[2] = [_angle(rng) for _ in range(NPAR.get(g[0], 0))]
        pre = one + ent + few(2)
        if rng.random() < 0.5:
            i1, i2 = pre + [lr_gate(rng, n, dist=n - 1)] + few(2), few(3)
        else:
            i1, i2 = pre, few(2) + [lr_gate(rng, n, dist=n - 1)] + few(2)
    elif style == "swap":
        sw = [lr_gate(rng, n, name="swap") for _ in range(rng.randrange(1, 3))]
        i1, i2 = (few(3) + sw + few(2), few(3) + [lr_gate(rng, n, name=rng.choice(["swap", "cx"]))]) if rng.random() < 0.5 else \
                 (few(4), few(2) + sw + few(2))
    elif style == "mixed":
        i1 = rand_instrs(rng, n, rng.randrange(1, 9), plong=0.5, p1=0.35)
        i2 = rand_instrs(rng, n, rng.randrange(1, 9), plong=0.5, p1=0.35)
    else:                                                       # an equivalent pair (the verdict can be "equivalent")
        i1 = few(3) + [lr_gate(rng, n)] + few(3) + ([lr_gate(rng, n)] if rng.random() < 0.5 else [])
        i2 = resynth(rng, i1)
        if rng.random() < 0.5:
            i2 = i2 + [["rz", [rng.randrange(n)], [rng.choice([1e-3, 0.05, 0.4])]]]
    return n, i1, i2, style


def layer_steps(c):
    """the pair updates of one recorded layer: [(m, zone of circuit 1, zone of circuit 2, split)] or None if the call is not shaped that way"""
    zs, sp = c["zones"], c["splits"]
    if len(zs) != 2 * len(sp):
        return None
    steps = []
    for k, d in enumerate(sp):
        z1, z2 = zs[2 * k], zs[2 * k + 1]
        if not (z1["conj"] is False and z2["conj"] is True and z1["n"] == z2["n"] and d["svd"] is not None):
            return None
        steps.append((z1["n"], z1, z2, d))
    return steps


def run_e2e_lr(inp):
    rng = random.Random(inp["sub"])
    if "c1" in inp:
        n, i1, i2, style = inp["n"], inp["c1"], inp["c2"], "corpus"
    else:
        n, i1, i2, style = lr_pair(rng)
    thr = inp.get("threshold") or rng.choice([1e-13, 1e-14])
    rec = LayerRec()
    with patched(rec.patches()), t_capture_svd(rec.svds):
        out = run_pair(inp, i1, i2, n, thr, "e2e-lr")
    main = out[0]
    if rec.mpo is None or "done" not in str(main.get("impl", "")):
        return out
    mpo = rec.mpo
    ELR["n"] += 1
    ELR["layers"] += len(rec.layers)
    u1, u2 = unitary(n, i1), unitary(n, i2)
    dim = 2**n
    probs, sprobs = [], []
    # ---------------------------------------------------------------- every call (layer or update) starts from what the previous one left
    ident = [np.expand_dims(np.eye(2, dtype=complex), (2, 3)) for _ in range(n)]
    # updates made INSIDE a layer do not exist (apply_long_range_layer does not call update_mpo); chain the outer calls
    prev = ident
    outer = []
    for c in rec.layers:
        outer.append((c["u0"], 0, c))
    for k, u in enumerate(rec.updates):
        outer.append((k, 1, u))
    outer.sort(key=lambda t: (t[0], t[1]))
    for _, kind, c in outer:
        if len(c["before"]) != n or any(a.shape != b.shape or not np.array_equal(a, b) for a, b in zip(c["before"], prev)):
            sprobs.append(f"a {'layer' if kind == 0 else 'update'} does not start from the tensors the previous call left")
            break
        prev = c["after"]
    if outer and any(not np.array_equal(a, np.asarray(b)) for a, b in zip(prev, mpo.tensors)):
        sprobs.append("the final tensors are not those the last call left")
    # ---------------------------------------------------------------- per layer: dense oracle + spec ties
    tie_cands = []
    lossy = 0.0                                                 # largest |to_matrix(gate MPO) - gate| of this run (split_tensor's 1e-6 cut)
    for li, c in enumerate(rec.layers):
        g = c["gobj"]
        if g is None:
            sprobs.append(f"layer {li}: no gate object was built")
            continue
        name, qs, ps = g["instr"]
        lo, hi = min(qs), max(qs)
        span = hi - lo + 1
        ELR["max_span"] = max(ELR["max_span"], span)
        ELR["layers_bottom" if c["conj"] else "layers_top"] += 1
        ELR["swap_layers"] += name == "swap"
        ELR["bonded_layers"] += any(t.shape[2] > 1 or t.shape[3] > 1 for t in c["before"][lo:hi + 1])
        steps = layer_steps(c)
        want_pairs = [lo + i for i in range(span) if i != span - 1 and i % 2 == 0] + ([hi - 1] if span % 2 == 1 else [])
        if steps is None or [s[0] for s in steps] != want_pairs:
            sprobs.append(f"layer {li} ({name} on {qs}): pair updates at {None if steps is None else [s[0] for s in steps]}, expected {want_pairs}")
            steps = None
        for j in range(n):
            if not (lo <= j <= hi) and not np.array_equal(c["before"][j], c["after"][j]):
                sprobs.append(f"layer {li} ({name} on {qs}) changed tensor {j} outside its span")
        gobj = g["gate"]
        if [int(q) for q in gobj.sites] != [int(q) for q in qs] or int(gobj.interaction) != 2 or gobj.name == "I":
            sprobs.append(f"gate object for {name} on {qs} has sites {list(gobj.sites)} interaction {gobj.interaction} name {gobj.name}")
        # GateMpoOK: the gate-MPO tensors are a chain over the span whose operator is gate.tensor on the END sites
        if len(g["mpo"]) != span or g["mpo"][0].shape[2] != 1 or g["mpo"][-1].shape[3] != 1:
            ELR["gatempo_bad"] += 1
            ELR["gatempo_detail"] = f"{name} on {qs}: {len(g['mpo'])} gate-MPO tensors for a span of {span} sites, outer bonds {g['mpo'][0].shape[2]}, {g['mpo'][-1].shape[3]}"
        else:
            gm_mat = custom_mpo(g["mpo"]).to_matrix()
            dev = float(np.abs(gm_mat - embed_ends(g["tensor"], span)).max())
            g_full = unitary(n, [g["instr"]])
            dev2 = float(np.abs(np.kron(np.kron(np.eye(2**lo), embed_ends(g["tensor"], span)), np.eye(2 ** (n - hi - 1))) - g_full).max())
            ELR["gatempo_dev"] = max(ELR["gatempo_dev"], dev, dev2)
            lossy = max(lossy, dev if 1e-9 < dev <= 2e-6 else 0.0)   # only the documented cut of split_tensor loosens an oracle, never a larger deviation
            # split_tensor drops operator-Schmidt values <= 1e-6: a gate within 1e-6 of a product operator is represented to that accuracy only
            if dev > 2e-6 or dev2 > 1e-9:
                ELR["gatempo_bad"] += 1
                ELR["gatempo_detail"] = (f"{name}{ps} on {qs}: |to_matrix(gate.mpo_tensors) - gate.tensor on the end sites| = {dev:.2e}, "
                                         f"|gate.tensor on the register - qiskit| = {dev2:.2e}")
        g4 = np.asarray(g["tensor"], dtype=complex).reshape(4, 4)
        sdev = float(np.abs(g4 - g4.T).max())
        ELR["sym_dev"] = max(ELR["sym_dev"], sdev)
        if sdev > 1e-12:
            ELR["sym_bad"] += 1
            ELR["sym_detail"] = f"{name} on {qs}: stored 4x4 matrix is not symmetric (|G - G^T| = {sdev:.2e})"
        # dense oracle
        g_full = unitary(n, [g["instr"]])
        z1, z2 = np.eye(dim, dtype=complex), np.eye(dim, dtype=complex)
        for z in c["zones"]:
            for ins in z["instrs"]:
                e = embed(local_unitary([ins], z["n"]), z["n"], n)
                if z.get("circuit", 2 if z["conj"] else 1) == 1:
                    z1 = e @ z1
                else:
                    z2 = e @ z2
        old_m, new_m = custom_mpo(c["before"]).to_matrix(), custom_mpo(c["after"]).to_matrix()
        want = z1 @ (old_m @ g_full.conj().T if c["conj"] else g_full @ old_m) @ z2.conj().T
        rel = float(np.linalg.norm(new_m - want)) / max(1.0, float(np.linalg.norm(want)))
        ELR["layer_dev"] = max(ELR["layer_dev"], rel)
        if rel > ELR_STEP_TOL + 1e4 * thr + 100 * lossy:
            alt = z1 @ (old_m @ g_full.T if c["conj"] else g_full.conj() @ old_m) @ z2.conj().T
            near = " (it equals the variant with conj(G) / G^T in place of G^dagger / G)" if float(np.linalg.norm(new_m - alt)) <= 1e-7 else ""
            probs.append(f"layer {li}: {name}{ps} on {qs}, conjugate={c['conj']}, chain bonds before {[t.shape[3] for t in c['before'][:-1]]}: to_matrix(after) "
                         f"differs from {'Z1.before.G^dagger.Z2^dagger' if c['conj'] else 'Z1.G.before.Z2^dagger'} by {rel:.2e} (relative){near}")
        if steps is not None:
            biggest = 0
            for m, za, zb, d in steps:
                tm, uu, ss, vh = d["svd"]
                keep = d["out"][0].shape[3]
                kept = (uu[:, :keep] * ss[:keep]) @ vh[:keep]
                er = float(np.linalg.norm(kept - tm)) / max(1.0, float(np.linalg.norm(tm)))
                ELR["exact_rel"] = max(ELR["exact_rel"], er)
                ELR["max_bond"] = max(ELR["max_bond"], keep)
                biggest = max(biggest, tm.shape[0] * tm.shape[1])
                if er > 1e-9:
                    ELR["exact_bad"] += 1
                    ELR["exact_detail"] = f"layer {li} pair {m}: kept {keep}/{len(ss)}, ||kept - block|| / ||block|| = {er:.2e}, threshold {thr}"
                for z in (za, zb):
                    for gg, ins in zip(z["gates"], z["instrs"]):
                        if [int(q) for q in gg.sites] != [int(q) for q in ins[1]] or int(gg.interaction) != len(ins[1]):
                            sprobs.append(f"layer {li}: gate object for {ins[0]} on {ins[1]} has sites {list(gg.sites)}")
            if biggest <= ELR_MAX_TIE_ENTRIES:
                tie_cands.append((li, c, g, steps))
            else:
                ELR["skipped_big"] += 1
    if len(rec.layers) >= 2:
        ELR["row_layers"] += sum(1 for a, b in zip(rec.layers, rec.layers[1:]) if b["u0"] == a["u0"])
    if sprobs:
        ELR["shape_bad"] += 1
        ELR["shape_detail"] = f"n={n} c1={i1} c2={i2}: " + "; ".join(sprobs[:3])
    out.append({"req": None, "impl": None, "kind": "e2e-lr-layer", "oracle": {"ok": not probs, "detail": "; ".join(probs[:3]) or
                f"{len(rec.layers)} long-range layers, each = zones . (G.before | before.G^dagger)"},
                "sig": f"e2e-lr-layer:{n}:{style}:{sum(1 for c in rec.layers if not c['conj'])}:{sum(1 for c in rec.layers if c['conj'])}",
                "nontrivial": len(rec.layers) > 0})
    # ---------------------------------------------------------------- layers through the driver
    rr = random.Random(inp["sub"] + 2)
    rr.shuffle(tie_cands)
    tie_cands.sort(key=lambda t: -len(t[3]) if rr.random() < 0.5 else 0)
    for li, c, g, steps in tie_cands[:3]:
        name, qs, ps = g["instr"]
        lo, hi = min(qs), max(qs)
        span = hi - lo + 1
        parts, impl = [], []
        for m, za, zb, d in steps:
            tm, uu, ss, vh = d["svd"]
            g1, g2 = za["gates"], zb["gates"]
            parts.append(f"{m} {len(g1)} {len(g2)} {len(ss)} | " + "".join(gate_part(x) + " | " for x in g1 + g2) + dec_parts(uu, ss, vh))
            impl.append(f"tm {tm.shape[0]} {tm.shape[1]} {centries(tm)} | keep {d['out'][0].shape[3]}")
        req = (f"lrlayer {2 if c['conj'] else 1} 2 {ib.frac(c['thr'])} {qs[0]} {qs[1]} {span} {n} {len(steps)} | "
               + " | ".join(site_tokens(t) for t in g["mpo"]) + " | " + " | ".join(site_tokens(t) for t in c["before"]) + " | " + " | ".join(parts))
        ELR["tied_layers"] += 1
        out.append({"req": req, "impl": " | ".join(impl + ["chain"] + [site_tokens(t) for t in c["after"][lo:hi + 1]]), "kind": "e2e-lr-tie", "oracle": None,
                    "sig": f"e2e-lr-tie:{n}:{name}:{span}:{int(c['conj'])}:{qs[0] < qs[1]}:" + "".join(str(t.shape[3]) for t in c["before"][lo:hi]),
                    "nontrivial": True})
    if tie_cands:
        # the stacked chain `lrMul` itself: the block the real pair einsum + reshape hands to apply_temporal_zone (its recorded input), for
        # every pair of the layer except the hanging one (whose left tensor is already re-compressed)
        li, c, g, steps = tie_cands[0]
        name, qs, ps = g["instr"]
        lo, hi = min(qs), max(qs)
        span = hi - lo + 1
        blocks = [za["theta"] for k, (m, za, zb, d) in enumerate(steps) if not (span % 2 == 1 and k == len(steps) - 1)]
        if blocks and sum(b.size for b in blocks) <= 4096:
            out.append({"req": f"lrblocks {2 if c['conj'] else 1} 2 {lo} {span} {n} | " + " | ".join(site_tokens(t) for t in g["mpo"]) + " | "
                        + " | ".join(site_tokens(t) for t in c["before"]),
                        "impl": " | ".join(" ".join(map(str, b.shape)) + " " + centries(b) for b in blocks), "kind": "e2e-lr-stack",
                        "oracle": None, "sig": f"e2e-lr-stack:{n}:{name}:{span}:{int(c['conj'])}:{len(blocks)}", "nontrivial": True})
    # ---------------------------------------------------------------- the ORDER of the product, both argument orders
    final = mpo.to_matrix()
    ref = u1 @ u2.conj().T
    tol = NUM_TOL + 1e4 * thr * max(1, len(i1) + len(i2)) + 100 * lossy * dim
    dev = float(np.linalg.norm(final - ref))
    alts = {"U2.U1^dagger": u2 @ u1.conj().T, "U1^dagger.U2": u1.conj().T @ u2, "U2^dagger.U1": u2.conj().T @ u1, "U1.U2^T": u1 @ u2.T,
            "conj(U1).U2^dagger": u1.conj() @ u2.conj().T}
    disc = [k for k, a in alts.items() if float(np.linalg.norm(a - ref)) > 1e-3]
    oprobs = []
    if dev > tol:
        near = [k for k, a in alts.items() if float(np.linalg.norm(final - a)) <= tol]
        oprobs.append(f"to_matrix() of the final MPO differs from U1.U2^dagger by {dev:.3e} (> {tol:.1e})" + (f"; it equals {near[0]}" if near else ""))
    mpo_sw = MPO()
    mpo_sw.identity(n)
    mu.iterate(mpo_sw, circuit_to_dag(build(n, i2)), circuit_to_dag(build(n, i1)), thr)
    dev_sw = float(np.linalg.norm(mpo_sw.to_matrix() - u2 @ u1.conj().T))
    if dev_sw > tol:
        oprobs.append(f"swapped call: to_matrix() differs from U2.U1^dagger by {dev_sw:.3e}")
    ELR["order_dev"] = max(ELR["order_dev"], dev, dev_sw)
    if len(disc) == len(alts):
        ELR["order_discriminating"] += 1
    out.append({"req": None, "impl": None, "kind": "e2e-lr-order", "oracle": {"ok": not oprobs, "detail": "; ".join(oprobs) or
                f"final MPO = U1.U2^dagger (dev {dev:.1e}), swapped call = U2.U1^dagger (dev {dev_sw:.1e}); distinguishable from {len(disc)}/{len(alts)} other conventions"},
                "sig": f"e2e-lr-order:{n}:{len(disc)}", "nontrivial": len(disc) == len(alts)})
    # ---------------------------------------------------------------- the scalar and the verdict, both argument orders
    want_tr = complex(np.trace(u1.conj().T @ u2))
    ov = abs(want_tr) / dim
    stol = E2E_SCALAR_TOL * dim + 100 * lossy * dim
    fids = [f for f in (ov * (1 - 1e-3), ov * (1 + 1e-3), ov + 1e-5, 0.5) if f > 0.0]
    for which, m_, wtr in (("12", mpo, want_tr), ("21", mpo_sw, want_tr.conjugate())):
        for f in fids[: (4 if which == "12" else 2)]:
            with Spy() as spy:
                got = bool(m_.check_if_identity(f))
            tr = complex(spy.traces[-1])
            sdev = abs(tr - wtr)
            ELR["scalar_dev"] = max(ELR["scalar_dev"], sdev)
            vprobs = []
            if sdev > stol:
                ELR["scalar_bad"] += 1
                ELR["scalar_detail"] = f"n={n} c1={i1} c2={i2} order {which}: check_if_identity computed {tr!r}; expected {wtr!r}"
            if abs(abs(tr) - abs(wtr)) > stol:
                vprobs.append(f"order {which}: check_if_identity computed a scalar of modulus {abs(tr)!r}; |tr(U1^dagger U2)| = {abs(wtr)!r}")
            if abs(ov - f) > EPS_MARGIN + 100 * lossy and got != (ov > f):
                vprobs.append(f"order {which}: |tr(U1^dagger U2)|/2^n = {ov!r}, fidelity {f!r}: check_if_identity says {got}")
            orc = {"ok": not vprobs, "detail": "; ".join(vprobs) or f"order {which}: scalar = tr(U1^dagger U2) (dev {sdev:.1e}); verdict {got} at f={f!r}, overlap {ov!r}"}
            t = np.abs(spy.traces[-1])
            edge = abs(float(t) / dim - f) <= 1e-12 * max(1.0, f)
            out.append(dict(verdict_case(t, n, f, got, "e2e-lr-verdict", f"e2e-lr-verdict:{n}:{which}:{got}:{'gt' if f > ov else 'lt'}", orc), edge=edge))
    f0 = fids[inp["sub"] % 2] if len(fids) > 1 else fids[0]
    with Spy() as spy:
        got0 = bool(mpo.check_if_identity(f0))
    tr0 = complex(spy.traces[-1])
    if sum(np.asarray(t).size for t in mpo.tensors) <= 1200:
        out.append({"req": f"idtrace {ib.frac(f0)} | " + " | ".join(site_tokens(t) for t in mpo.tensors), "impl": f"tr {ib.cfrac(tr0)} dec {int(got0)}",
                    "kind": "e2e-lr-idtrace", "oracle": None, "edge": abs(abs(tr0) / dim - f0) <= 1e-9 * max(1.0, f0),
                    "sig": f"e2e-lr-idtrace:{n}:{int(got0)}:" + "".join(str(np.asarray(t).shape[3]) for t in mpo.tensors), "nontrivial": abs(tr0) > 0})
    return out


def e2e_lr_spec():
    return [{"name": "e2e-lr: per long-range layer of the real iterate to_matrix(after) = Z1.G.to_matrix(before).Z2^dagger (gate of circuit 1) resp. "
                     "Z1.to_matrix(before).G^dagger.Z2^dagger (gate of circuit 2), G = qiskit Operator of the single gate; final MPO = U1.U2^dagger, swapped call = "
                     "U2.U1^dagger; scalar = tr(U1^dagger U2) in both argument orders",
             "ok": True, "runs": ELR["n"], "layers": ELR["layers"], "layers_from_circuit_1": ELR["layers_top"], "layers_from_circuit_2": ELR["layers_bottom"],
             "swap_layers": ELR["swap_layers"], "layers_on_bonds_gt_1": ELR["bonded_layers"], "layers_directly_after_another_layer": ELR["row_layers"],
             "largest_span": ELR["max_span"], "largest_bond": ELR["max_bond"], "layers_sent_to_driver": ELR["tied_layers"], "layers_too_big_for_the_driver": ELR["skipped_big"],
             "order_discriminating_runs": ELR["order_discriminating"], "worst_layer_relative_deviation": ELR["layer_dev"], "worst_final_deviation": ELR["order_dev"],
             "worst_scalar_deviation": ELR["scalar_dev"], "tolerances": {"layer": ELR_STEP_TOL, "final": "NUM_TOL + 1e4*thr*gates", "scalar": f"{E2E_SCALAR_TOL}*2^n"}},
            {"name": "e2e-lr: hypothesis GateMpoOK of long_range_layer_chain / iterate_represents_product_lr on the real runs — to_matrix of gate_.mpo_tensors "
                     "(split_tensor's SVD + extend_gate) is gate.tensor on the END sites of the span, identity in between, and gate.tensor on the register is "
                     "qiskit's operator of the gate (both orientations); split_tensor cuts operator-Schmidt values <= 1e-6, so 2e-6 is allowed for the first",
             "ok": ELR["gatempo_bad"] == 0, "n": ELR["layers"], "worst_deviation": ELR["gatempo_dev"], "detail": ELR["gatempo_detail"]},
            {"name": "e2e-lr: hypothesis SymLR (library_two_qubit_gates_symmetric) — the stored 4x4 matrix of every long-range gate object is symmetric",
             "ok": ELR["sym_bad"] == 0, "n": ELR["layers"], "worst_deviation": ELR["sym_dev"], "detail": ELR["sym_detail"]},
            {"name": "e2e-lr: hypothesis ExactBlocks — the kept part of every SVD inside a long-range layer reproduces the block handed to it",
             "ok": ELR["exact_bad"] == 0, "n": ELR["layers"], "worst_relative_residual": ELR["exact_rel"], "detail": ELR["exact_detail"]},
            {"name": "e2e-lr: the real run has the shape CheckerChain.runStepsLR assumes — every layer / update starts from what the previous call left, a layer "
                     "touches only the tensors of its span, one pair update per entry of lrPairs (hanging site last), zone of circuit 1 plain then zone of circuit 2 "
                     "conjugated, gate objects carry the instruction's qubits (hypothesis LRCircuit)",
             "ok": ELR["shape_bad"] == 0, "n": ELR["n"], "detail": ELR["shape_detail"]},
            {"name": "e2e-lr: the scalar check_if_identity computes is tr(U1^dagger U2) as a complex number, in both argument orders (checker_correct_lr, checker_swap_lr)",
             "ok": ELR["scalar_bad"] == 0, "n": ELR["n"], "worst_deviation": ELR["scalar_dev"], "detail": ELR["scalar_detail"]}]


def gen_e2e_lr(rng, tier):
    m = {"quick": 70, "thorough": 700, "search": 120}.get(tier, 70)
    for _ in range(m):
        yield {"kind": "e2e-lr", "sub": rng.randrange(1 << 30)}


def gen(rng, tier):
    """the original kinds keep their random stream; the tensor kinds (cheap) are drawn afterwards and run first"""
    base = list(gen_base(rng, tier))
    tens = list(gen_tensor(rng, tier))
    e2e = list(gen_e2e(rng, tier))                          # drawn last: the streams of the older kinds are unchanged
    e2e_lr = list(gen_e2e_lr(rng, tier))                    # (xl04) drawn after everything else, for the same reason
    yield from tens
    yield from e2e
    yield from e2e_lr
    yield from base


def run(inp):
    res = run_kind(inp)
    if isinstance(res, dict):                                # (xl04) `real_code_raised` returns one case, not a list: a real-code exception on a
        res = [res]                                          # corpus input used to crash here (harness error instead of a failing input)
    if "corpus_file" in inp:
        for r in res:
            r["kind"] = "corpus:" + str(r.get("kind", ""))
    return res


def spec():
    return [{"name": "numeric tie: final MPO of the real iterate vs U1 U2^dag (qiskit Operator)", "ok": True, "n": WORST["numeric_n"],
             "worst_deviation": WORST["numeric_dev"], "worst_deviation_over_tolerance": WORST["numeric_rel_tol"]},
            {"name": "overlap |trace|/2^n computed by the checker vs exact |tr(U1^dag U2)|/2^n", "ok": True, "n": WORST["overlap_n"],
             "worst_deviation": WORST["overlap_dev"], "margin_used_by_oracles": EPS_MARGIN}] + t_spec() + e2e_spec() + e2e_lr_spec()


def run_kind(inp):
    k = inp["kind"]
    if k in T_RUNNERS:
        return T_RUNNERS[k](inp)
    if k == "e2e":
        return real_code_raised(run_e2e)(inp)
    if k == "e2e-lr":
        return real_code_raised(run_e2e_lr)(inp)
    if k == "diag":
        return run_diag(inp)
    if k == "iter":
        return run_iter(inp)
    if k == "n1":
        return run_n1(inp)
    if k == "equal":
        return run_equal(inp)
    if k == "eps":
        return run_eps(inp)
    if k == "randpair":
        return run_random_pair(inp)
    raise ValueError(k)


if __name__ == "__main__":
    ib.main("C04", gen, run, driver="Verdict",
            rule="verdict: from_matrix MPOs of diagonal-phase unitaries (n=1..6, overlap 1-10^-k, three phase patterns) x fidelities "
                 "on / one ulp off / 1e-3..1e-12 around the overlap the code computed; full checker runs on (c1, resynthesised c1 + "
                 "rz/p/rx/rzz(eps)) with the overlap swept across the fidelity, both orders; iterate: random pairs over "
                 "{h,x,y,z,sx,rx,ry,rz,p,id,u,cx,cz,swap,cp,rxx,ryy,rzz}, n=2..6, local / long-range / swap-network / empty-circuit styles, "
                 "thresholds 1e-13..1e-10; sub-ties on the partially consumed DAGs seen inside the runs; distinct = distinct "
                 "(kind, n, lengths, #long-range steps, rounds / verdict, side) signatures; "
                 "tensor ties (t-*): real apply_gate (duck gates with rational matrix/tensor: one-site on either site, two-site in both "
                 "site orders, name 'I', wrong sites, interaction 3; library gates) x conjugate, apply_temporal_zone on real DAGs, update_mpo "
                 "inside rational chains (merged theta, matrix handed to the SVD, kept rank, tensors written back; thresholds between the "
                 "singular values), decompose_theta, every reshaped einsum of apply_long_range_layer (pair / hanging, both orientations, gate "
                 "MPO on 3..5 sites), MPS.scalar_product, check_if_identity's scalar and decision; bond dimensions 1..3; "
                 "end to end (e2e): random nearest-neighbour pairs (n=2..5, 1..10 gates each, a quarter of them resynthesised equivalents "
                 "+- a small rz), thresholds 1e-13/1e-14: event list vs iter, up to five recorded update_mpo calls per run vs update, the "
                 "final chain vs idtrace, verdict at six fidelities around the exact overlap; oracles: updates chain up from MPO.identity, "
                 "each update = embedded zone products, final = U1.U2^dagger (order asserted against five other conventions, swapped call), "
                 "scalar = tr(U1^dagger U2); "
                 "end to end with long-range gates (e2e-lr): random pairs with two-qubit gates and swaps at distance 2..5 in either orientation, in circuit 1, "
                 "circuit 2 or both, several in a row, on chains that already have bonds > 1, equivalent resynthesised pairs (n=3..6, thresholds 1e-13/1e-14): "
                 "event list vs iter, every real apply_long_range_layer recorded — up to three layers per run vs lrlayer (block handed to every SVD, kept ranks, "
                 "tensors of the span), the merged blocks of the stacked chain vs lrblocks, final chain vs idtrace; oracles: each layer = zones.(G.before | before.G^dagger), final = "
                 "U1.U2^dagger and swapped call = U2.U1^dagger, scalar = tr(U1^dagger U2) in both argument orders",
            trusted_base=["qiskit Operator (dense reference unitary) and numpy in the oracles",
                          "qiskit circuit_to_dag / layers / remove_op_node modelled as the wire-dependency front of an instruction list (trace-tied)",
                          "tensor numerics of the MPO build (apply_gate, decompose_theta, long-range gate MPO) modelled-not-verified: numeric tie only",
                          "extension: the index algebra of those contractions is now modelled (Model/MpoUpdate.lean) and value-tied; what stays "
                          "outside is LAPACK's SVD (spec-tied on every matrix decompose_theta hands to it) and binary64 rounding",
                          "end to end (Part D): the theorems assume untruncated splits (ExactSteps), nearest-neighbour circuits and gate objects carrying "
                          "the instruction's qubits (NNCircuit) — all three spec-tied on every e2e run; long-range gates stay numeric-tie only",
                          "long-range layers (Part E): the theorems assume that gate_.mpo_tensors represent the gate on the end sites of its span (GateMpoOK; "
                          "from an exact split by gate_mpo_is_gate_on_ends, the split being LAPACK's SVD of the 4x4 gate with singular values <= 1e-6 cut), "
                          "symmetric long-range gates in the second circuit (SymLR; proved for the library's tables) and untruncated splits (ExactBlocks) — "
                          "all spec-tied on every e2e-lr run"],
            assumptions=["t handed to the model is the binary64 |trace| the real scalar_product returned, as an exact rational",
                         "barriers / measurements / one-qubit registers are outside the iterate model (n = 1 is tied to the model's `assert`)"],
            spec=spec)
