"""C04 — implementation side: the real equivalence checker vs Model.Verdict, plus direct oracles.

value tie   : `MPO.check_if_identity(f)` on MPOs built with `MPO.from_matrix` from diagonal-phase unitaries of
              prescribed overlap (n = 1..6, overlaps 1-10^-k, fidelities straddling them, and fidelities exactly
              on / one ulp around the overlap the code computed) vs `verdict t n f`, where `t = |trace|` is the
              value the real `MPS.scalar_product` returned (wrapped), shipped as an exact rational.
              `select_starting_point`, `check_longest_gate`, `get_temporal_zone` on the real (partially consumed)
              DAGs seen inside real `iterate` runs vs `startIts/startOdd`, `longest`, `zone`.
trace tie   : real `iterate` with `apply_temporal_zone`, `convert_dag_to_tensor_algorithm`,
              `apply_long_range_layer` wrapped: the sequence "long-range gate g removed from circuit c" /
              "zone of circuit c at sites (m, m+1) consumed gates {ids}" vs the model's event list.
oracles     : (numeric tie) dense matrix of the final MPO vs U1 U2^dagger from qiskit `Operator`;
              order in which gates were applied respects every wire of the circuit and uses every gate once;
              the loop ends within len(c1)+len(c2) rounds (bound of theorem `iterate_terminates`);
              `equivalence_checker.run(c1, c2, threshold, fidelity)` vs the exact overlap |tr(U1^dag U2)|/2^n:
              equal-up-to-phase pairs must be equivalent, overlap < f-1e-6 must be "not equivalent",
              overlap > f+1e-6 must be "equivalent", both argument orders, incl. long-range gates and swaps.
"""
from __future__ import annotations

import math
import random
import warnings

import numpy as np

import implbase as ib

warnings.simplefilter("ignore")

from qiskit import QuantumCircuit  # noqa: E402
from qiskit.converters import circuit_to_dag  # noqa: E402
from qiskit.dagcircuit import DAGOpNode  # noqa: E402
from qiskit.quantum_info import Operator  # noqa: E402

from mqt.yaqs.core.data_structures import networks as networks_mod  # noqa: E402
from mqt.yaqs.core.data_structures.networks import MPO  # noqa: E402
from mqt.yaqs.digital import equivalence_checker as ec  # noqa: E402
from mqt.yaqs.digital.utils import dag_utils as du  # noqa: E402
from mqt.yaqs.digital.utils import mpo_utils as mu  # noqa: E402

ONEQ = ["h", "x", "y", "z", "sx", "rx", "ry", "rz", "p", "id", "u"]
NPAR = {"rx": 1, "ry": 1, "rz": 1, "p": 1, "u": 3, "cp": 1, "rxx": 1, "ryy": 1, "rzz": 1}
TWOQ = ["cx", "cz", "swap", "cp", "rxx", "ryy", "rzz"]
EPS_MARGIN = 1e-6          # the property's "numerical noise" margin for the verdict oracles
NUM_TOL = 1e-7             # final MPO vs U1 U2^dag; largest deviation seen on the clean tree: 2e-13 (thr 1e-13), 4e-10 (thr 1e-10)


WORST = {"numeric_n": 0, "numeric_dev": 0.0, "numeric_rel_tol": 0.0, "overlap_n": 0, "overlap_dev": 0.0}


class LoopBound(Exception):
    """raised by the round counter when `iterate` exceeds the bound of theorem `iterate_terminates`"""


# ----------------------------------------------------------------------------------------------------------------
# circuits as JSON-able instruction lists  [name, [qubits], [params]]
# ----------------------------------------------------------------------------------------------------------------
def build(n, instrs, phase=0.0):
    qc = QuantumCircuit(n)
    for name, qs, ps in instrs:
        getattr(qc, name)(*ps, *qs)
    qc.global_phase = phase
    return qc


def unitary(n, instrs, phase=0.0):
    """dense unitary in the MPO's convention (site 0 = most significant = leftmost Kronecker factor)"""
    return Operator(build(n, instrs, phase).reverse_bits()).data


def rand_instrs(rng, n, m, plong=0.35, p1=0.4, two=None):
    out = []
    for _ in range(m):
        if n < 2 or rng.random() < p1:
            g = rng.choice(ONEQ)
            out.append([g, [rng.randrange(n)], [rng.uniform(-3.1, 3.1) for _ in range(NPAR.get(g, 0))]])
        else:
            g = rng.choice(two or TWOQ)
            if n > 2 and rng.random() < plong:
                a, b = rng.sample(range(n), 2)
            else:
                a = rng.randrange(n - 1)
                b = a + 1
                if rng.random() < 0.5:
                    a, b = b, a
            out.append([g, [a, b], [rng.uniform(-3.1, 3.1) for _ in range(NPAR.get(g, 0))]])
    return out


def resynth(rng, instrs, p=0.6):
    """an equivalent circuit (up to a global phase): gate identities, inserted inverse pairs, commuting reorder"""
    out = []
    for name, qs, ps in instrs:
        r = rng.random()
        if r > p:
            out.append([name, qs, ps])
        elif name == "swap":
            a, b = qs
            out += [["cx", [a, b], []], ["cx", [b, a], []], ["cx", [a, b], []]]
        elif name == "cz":
            a, b = qs
            out += [["h", [b], []], ["cx", [a, b], []], ["h", [b], []]] if rng.random() < 0.5 else [["cz", [b, a], []]]
        elif name == "cx":
            a, b = qs
            out += [["h", [b], []], ["cz", [a, b], []], ["h", [b], []]]
        elif name == "rz":
            out.append(["p", qs, ps])                       # differs by a global phase
        elif name == "p":
            out.append(["rz", qs, ps])
        elif name == "x":
            out += [["h", qs, []], ["z", qs, []], ["h", qs, []]]
        elif name == "z":
            out.append(["p", qs, [math.pi]])
        elif name == "y":
            out.append(["ry", qs, [math.pi]])               # -i Y
        elif name == "cp":
            out.append(["cp", [qs[1], qs[0]], ps])
        elif name == "rzz":
            a, b = qs
            out += [["cx", [a, b], []], ["rz", [b], ps], ["cx", [a, b], []]]
        elif name == "rxx":
            a, b = qs
            out += [["h", [a], []], ["h", [b], []], ["rzz", [a, b], ps], ["h", [a], []], ["h", [b], []]]
        else:
            out.append([name, qs, ps])
        if rng.random() < 0.15:                              # inverse pair, possibly long-range
            n_q = 1 + max(max(q) for _, q, _ in instrs)
            if n_q >= 2 and rng.random() < 0.6:
                a, b = rng.sample(range(n_q), 2)
                g = rng.choice(["cx", "cz", "swap"])
                out += [[g, [a, b], []], [g, [a, b], []]]
            else:
                q = rng.randrange(n_q)
                t = rng.uniform(-3, 3)
                out += [["rx", [q], [t]], ["rx", [q], [-t]]]
    if rng.random() < 0.5:                                   # random wire-respecting reorder
        rest, lin = list(out), []
        while rest:
            busy, front = set(), []
            for k, (_, qs, _) in enumerate(rest):
                if not (set(qs) & busy):
                    front.append(k)
                busy |= set(qs)
            lin.append(rest.pop(rng.choice(front)))
        out = lin
    return out


def gate_tokens(instrs):
    return " ".join(",".join(str(q) for q in qs) for _, qs, _ in instrs) or "-"


# ----------------------------------------------------------------------------------------------------------------
# instrumentation of the real code
# ----------------------------------------------------------------------------------------------------------------
class Spy:
    """wraps module attributes of mpo_utils / networks for one run; restores them afterwards"""

    def __init__(self, d1=None, d2=None, max_rounds=None, subties=False):
        self.d1, self.d2 = d1, d2
        self.events, self.applied = [], {0: [], 1: [], 2: []}
        self.traces, self.rounds, self.max_rounds = [], 0, max_rounds
        self.subties, self.sub = subties, []
        self.conj = None
        self.ids = {}
        for c, d in ((1, d1), (2, d2)):
            if d is not None:
                for k, nd in enumerate(sorted(d.op_nodes(), key=lambda x: x._node_id)):  # noqa: SLF001
                    self.ids[c, nd._node_id] = k  # noqa: SLF001
        self.saved = []

    def which(self, dag):
        return 1 if dag is self.d1 else 2 if dag is self.d2 else 0

    def remaining(self, dag):
        """remaining instructions of a real DAG in circuit order: [(original id, [qubits])]"""
        c = self.which(dag)
        nodes = sorted(dag.op_nodes(), key=lambda x: x._node_id)  # noqa: SLF001
        return [(self.ids.get((c, nd._node_id), -1), [q._index for q in nd.qargs]) for nd in nodes]  # noqa: SLF001

    def patch(self, mod, name, fn):
        self.saved.append((mod, name, getattr(mod, name)))
        setattr(mod, name, fn)

    def __enter__(self):
        o_atz, o_conv, o_lr, o_layer = mu.apply_temporal_zone, mu.convert_dag_to_tensor_algorithm, mu.apply_long_range_layer, mu.apply_layer
        o_ssp, o_clg, o_gtz = mu.select_starting_point, mu.check_longest_gate, mu.get_temporal_zone
        o_sp = networks_mod.MPS.scalar_product
        spy = self

        def tick():
            spy.rounds += 1
            if spy.max_rounds is not None and spy.rounds > spy.max_rounds:
                raise LoopBound

        def atz(theta, dag, qubits, *, conjugate=False):
            c = spy.which(dag)
            before = {x._node_id for x in dag.op_nodes()}  # noqa: SLF001
            r = o_atz(theta, dag, qubits, conjugate=conjugate)
            after = {x._node_id for x in dag.op_nodes()}  # noqa: SLF001
            spy.events.append(f"z{c}:{qubits[0]}:" + ",".join(str(k) for k in sorted(spy.ids.get((c, i), -1) for i in before - after)))
            return r

        def conv(x):
            if isinstance(x, DAGOpNode):
                c = 2 if spy.conj else 1
                spy.events.append(f"g{c}:{spy.ids.get((c, x._node_id), -1)}")  # noqa: SLF001
                spy.applied[c].append((x.op.name, tuple(q._index for q in x.qargs), tuple(float(p) for p in x.op.params)))  # noqa: SLF001
            else:
                c = spy.zone_c
                for nd in x.op_nodes():
                    if nd.op.name in {"measure", "barrier"}:
                        continue
                    spy.applied[c].append((nd.op.name, tuple(q._index for q in nd.qargs), tuple(float(p) for p in nd.op.params)))  # noqa: SLF001
            return o_conv(x)

        def gtz(dag, qubits):
            spy.zone_c = spy.which(dag)
            rem = spy.remaining(dag) if spy.subties else None
            new = o_gtz(dag, qubits)
            if spy.subties:
                left = {i for i, _ in spy.remaining(dag)}
                pos = {oid: k for k, (oid, _) in enumerate(rem)}
                taken = sorted(pos[i] for i, _ in rem if i not in left)
                rest = sorted(pos[i] for i in left)
                req = f"zone {min(qubits)} | " + (" ".join(",".join(map(str, qs)) for _, qs in rem) or "-")
                impl = "t:" + ",".join(map(str, taken)) + " r:" + ",".join(map(str, rest))
                # the zone circuit must respect the wires: per wire a prefix of what was there, in order
                ok, det = True, ""
                seq = [tuple(q._index for q in nd.qargs) for nd in new.op_nodes()]  # noqa: SLF001
                for w in {q for _, qs in rem for q in qs}:
                    had = [tuple(qs) for _, qs in rem if w in qs]
                    got = [qs for qs in seq if w in qs]
                    if had[: len(got)] != got:
                        ok, det = False, f"zone on {qubits}: wire {w} had {had} but zone applies {got}"
                spy.sub.append({"req": req, "impl": impl, "kind": "zone", "oracle": {"ok": ok, "detail": det or "zone respects wires"},
                                "sig": f"zone:{len(rem)}:{len(taken)}:{min(qubits)}", "nontrivial": 0 < len(taken) < len(rem)})
            return new

        def lr(mpo, a, b, t, *, conjugate):
            tick()
            spy.conj = conjugate
            return o_lr(mpo, a, b, t, conjugate=conjugate)

        def layer(*a, **k):
            tick()
            return o_layer(*a, **k)

        def ssp(n, dag):
            r = o_ssp(n, dag)
            if spy.subties:
                rem = spy.remaining(dag)
                spy.sub.append({"req": f"start {n} | " + (" ".join(",".join(map(str, qs)) for _, qs in rem) or "-"),
                                "impl": "its " + " ".join(map(str, list(r[0]) + list(r[1]))), "kind": "start", "oracle": None,
                                "sig": f"start:{n}:{list(r[0])[:1]}", "nontrivial": bool(rem)})
            return r

        def clg(dag):
            r = o_clg(dag)
            if spy.subties:
                rem = spy.remaining(dag)
                spy.sub.append({"req": "longest | " + (" ".join(",".join(map(str, qs)) for _, qs in rem) or "-"), "impl": str(int(r)),
                                "kind": "longest", "oracle": None, "sig": f"longest:{len(rem)}:{int(r)}", "nontrivial": int(r) > 1})
            return r

        def sp(self_, other, sites=None):
            r = o_sp(self_, other, sites)
            spy.traces.append(r)
            return r

        for mod, name, fn in ((mu, "apply_temporal_zone", atz), (mu, "convert_dag_to_tensor_algorithm", conv),
                              (mu, "apply_long_range_layer", lr), (mu, "apply_layer", layer), (mu, "select_starting_point", ssp),
                              (mu, "check_longest_gate", clg), (mu, "get_temporal_zone", gtz), (networks_mod.MPS, "scalar_product", sp)):
            self.patch(mod, name, fn)
        self.zone_c = 0
        return self

    def __exit__(self, *exc):
        for mod, name, orig in reversed(self.saved):
            setattr(mod, name, orig)
        return False


def wire_order_problems(instrs, applied):
    """every wire sees exactly its own gates, in circuit order (=> each gate once, dependency-respecting)"""
    want = [(nm, tuple(qs), tuple(float(p) for p in ps)) for nm, qs, ps in instrs]
    probs = []
    if len(applied) != len(want):
        probs.append(f"{len(applied)} gates applied, circuit has {len(want)}")
    for w in sorted({q for _, qs, _ in want for q in qs} | {q for _, qs, _ in applied for q in qs}):
        a = [g for g in want if w in g[1]]
        b = [g for g in applied if w in g[1]]
        if a != b:
            probs.append(f"wire {w}: circuit order {[g[0] for g in a]} but applied {[g[0] for g in b]}")
            break
    return probs


def verdict_case(t, n, f, got, kind, sig, oracle=None, key=None):
    c = {"req": f"verdict {ib.frac(t)} {n} {ib.frac(f)}", "impl": "1" if got else "0", "kind": kind, "oracle": oracle,
         "sig": sig, "nontrivial": True}
    if key:
        c["key"] = key
    return c


# ----------------------------------------------------------------------------------------------------------------
# case kinds
# ----------------------------------------------------------------------------------------------------------------
def run_diag(inp):
    """value tie of check_if_identity on from_matrix MPOs of prescribed overlap"""
    rng = random.Random(inp["sub"])
    n = inp.get("n") or rng.choice([1, 2, 3, 4, 5, 6])
    k = inp.get("k") or rng.choice([1, 2, 3, 4, 6, 8, 10, 12])
    dim = 2**n
    target = 1.0 - 10.0 ** (-k)
    style = rng.choice(["pm", "pm", "one", "rand"])
    if style == "pm":                       # half +theta, half -theta: |tr|/dim = cos(theta)
        th = math.acos(target)
        signs = [1] * (dim // 2) + [-1] * (dim // 2)
        rng.shuffle(signs)
        ph = np.array([s * th for s in signs])
    elif style == "one":                    # a single deviating phase
        ph = np.zeros(dim)
        # |dim-1+e^{ia}| / dim = target
        x = ((target * dim) ** 2 - (dim - 1) ** 2 - 1) / (2 * (dim - 1)) if dim > 1 else target
        ph[rng.randrange(dim)] = math.acos(max(-1.0, min(1.0, x)))
    else:
        ph = np.array([rng.gauss(0, math.sqrt(2 * 10.0 ** (-k))) for _ in range(dim)])
    alpha = rng.uniform(-math.pi, math.pi)
    umat = np.diag(np.exp(1j * (ph + alpha)))
    true_ov = abs(np.trace(umat)) / dim
    mpo = MPO.from_matrix(umat, 2, cutoff=rng.choice([0.0, 1e-12]))
    with Spy() as spy:                       # dry run to learn the |trace| the code computes
        mpo.check_if_identity(0.5)
    t = np.abs(spy.traces[-1])
    ov = float(t) / dim
    fids = [target, true_ov, ov, float(np.nextafter(ov, 2.0)), float(np.nextafter(ov, -1.0)), 1 - 1e-13,
            ov + 10.0 ** (-rng.choice([3, 6, 9, 12])), ov - 10.0 ** (-rng.choice([3, 6, 9, 12])), rng.random()]
    out = []
    for f in fids:
        if not (0.0 < f):
            continue
        with Spy() as spy:
            got = bool(mpo.check_if_identity(f))
        t = np.abs(spy.traces[-1])
        oracle = None
        if true_ov < f - 1e-9 or true_ov > f + 1e-9:
            want = true_ov > f
            oracle = {"ok": got == want, "detail": f"dense overlap {true_ov!r} fidelity {f!r}: check_if_identity says {got}"}
        out.append(verdict_case(t, n, f, got, "diag", f"diag:{n}:{k}:{got}:{'eq' if f == ov else 'gt' if f > ov else 'lt'}", oracle))
    return out


def run_pair(inp, instr1, instr2, n, thr, label, tie=True):
    """one real `iterate` run on (c1, c2): trace tie, value sub-ties, numeric tie, order oracle, termination bound"""
    qc1, qc2 = build(n, instr1), build(n, instr2)
    d1, d2 = circuit_to_dag(qc1), circuit_to_dag(qc2)
    mpo = MPO()
    mpo.identity(n)
    bound = len(instr1) + len(instr2)
    exc = None
    with Spy(d1, d2, max_rounds=bound + 2, subties=tie) as spy:
        try:
            mu.iterate(mpo, d1, d2, thr)
        except AssertionError:
            exc = "assert"
        except LoopBound:
            exc = "fuel"
    out = []
    impl = exc or " ".join(spy.events + ["done"])
    probs = []
    if exc == "fuel":
        probs.append(f"iterate still running after {bound + 2} rounds (theorem iterate_terminates bounds it by {bound})")
    elif exc == "assert" and n >= 2:
        probs.append("iterate raised AssertionError on a well-formed pair")
    elif exc is None:
        if spy.rounds > bound:
            probs.append(f"{spy.rounds} rounds > len c1 + len c2 = {bound}")
        probs += ["circuit 1: " + p for p in wire_order_problems(instr1, spy.applied[1])]
        probs += ["circuit 2: " + p for p in wire_order_problems(instr2, spy.applied[2])]
        ref = unitary(n, instr1) @ unitary(n, instr2).conj().T
        dev = float(np.linalg.norm(mpo.to_matrix() - ref))
        tol = NUM_TOL + 1e4 * thr * max(1, bound)
        WORST["numeric_n"] += 1
        WORST["numeric_dev"] = max(WORST["numeric_dev"], dev)
        WORST["numeric_rel_tol"] = max(WORST["numeric_rel_tol"], dev / tol)
        if dev > tol:
            probs.append(f"final MPO differs from U1 U2^dag by {dev:.3e} (> {tol:.1e}) at threshold {thr}")
    nlr = sum(1 for e in spy.events if e.startswith("g"))
    out.append({"req": f"iter {n} | {gate_tokens(instr1)} | {gate_tokens(instr2)}" if tie else None, "impl": impl if tie else None,
                "kind": label, "oracle": {"ok": not probs, "detail": "; ".join(probs) or f"rounds {spy.rounds} lr {nlr}"},
                "sig": f"{label}:{n}:{len(instr1)}:{len(instr2)}:{nlr}:{spy.rounds}", "nontrivial": bound > 0})
    # keep a bounded, deterministic sample of the value sub-ties (distinct requests only)
    seen, kept = set(), []
    for s in spy.sub:
        if s["req"] not in seen:
            seen.add(s["req"])
            kept.append(s)
    rr = random.Random(inp.get("sub", 0))
    rr.shuffle(kept)
    out += sorted(kept[:12], key=lambda s: s["req"])
    return out


def run_iter(inp):
    rng = random.Random(inp["sub"])
    if "c1" in inp:
        n, i1, i2 = inp["n"], inp["c1"], inp["c2"]
    else:
        n = rng.choice([2, 2, 3, 4, 5, 6])
        style = rng.choice(["mixed", "mixed", "long", "local", "swapnet", "empty1"])
        plong = {"mixed": 0.35, "long": 0.9, "local": 0.0, "swapnet": 0.5, "empty1": 0.4}[style]
        two = ["swap", "cx", "cz"] if style == "swapnet" else None
        i1 = rand_instrs(rng, n, rng.randrange(0, 14), plong, 0.35, two)
        i2 = rand_instrs(rng, n, rng.randrange(0, 14), plong, 0.35, two)
        if style == "empty1":
            i1 = []
    thr = inp.get("threshold") or rng.choice([1e-13, 1e-13, 1e-12, 1e-10])
    return run_pair(inp, i1, i2, n, thr, "iter")


def run_n1(inp):
    """one qubit: `select_starting_point` asserts num_qubits > 1 (tied to the model's `assert`)"""
    rng = random.Random(inp["sub"])
    i1 = rand_instrs(rng, 1, rng.randrange(0, 3))
    i2 = rand_instrs(rng, 1, rng.randrange(0, 3))
    return run_pair(inp, i1, i2, 1, 1e-13, "iter-n1")


def checker(n, i1, i2, thr, f, ph1=0.0, ph2=0.0):
    """the public entry point with the trace recorded and the loop bounded"""
    with Spy(max_rounds=len(i1) + len(i2) + 2) as spy:
        try:
            got = bool(ec.run(build(n, i1, ph1), build(n, i2, ph2), threshold=thr, fidelity=f)["equivalent"])
        except LoopBound:
            return None, None
    return got, np.abs(spy.traces[-1])


def overlap(n, i1, i2):
    return float(abs(np.trace(unitary(n, i1).conj().T @ unitary(n, i2)))) / 2**n


def run_equal(inp):
    """(i) equal up to a global phase: must be reported equivalent, both orders"""
    rng = random.Random(inp["sub"])
    n = rng.choice([2, 3, 4, 5, 6])
    i1 = rand_instrs(rng, n, rng.randrange(1, 12), rng.choice([0.0, 0.4, 0.9]))
    i2 = resynth(rng, i1)
    thr = rng.choice([1e-13, 1e-13, 1e-12])
    f = rng.choice([1 - 1e-9, 1 - 1e-6, 0.999, 1 - 1e-11])
    ph = rng.uniform(-3, 3)
    ov = overlap(n, i1, i2)
    out = []
    for a, b, tag in ((i1, i2, "12"), (i2, i1, "21")):
        got, t = checker(n, a, b, thr, f, 0.0, ph)
        if got is None:
            out.append({"req": None, "impl": None, "kind": "equal", "oracle": {"ok": False, "detail": "checker did not terminate within len c1 + len c2 + 2 rounds"}})
            continue
        ok = got is True if ov > f + EPS_MARGIN else True
        det = f"n={n} exact overlap {ov!r} fidelity {f!r} order {tag}: checker says {got}, code saw |trace|/2^n = {float(t) / 2**n!r}"
        WORST["overlap_n"] += 1
        WORST["overlap_dev"] = max(WORST["overlap_dev"], abs(float(t) / 2**n - ov))
        if abs(float(t) / 2**n - ov) > 1e-7:
            ok, det = False, det + " — the overlap the checker computed is off"
        out.append(verdict_case(t, n, f, got, "equal", f"equal:{n}:{tag}:{got}", {"ok": ok, "detail": det}))
    return out


def run_eps(inp):
    """(ii) c2 = c1' + rz(eps) with the overlap swept across the fidelity; both argument orders"""
    rng = random.Random(inp["sub"])
    if "c1" in inp:
        n, i1, f, thr = inp["n"], inp["c1"], inp["fidelity"], inp.get("threshold", 1e-13)
        i2s = [("corpus", inp["c1"] + [inp["extra"]])]
    else:
        n = rng.choice([2, 3, 4, 5, 6])
        i1 = rand_instrs(rng, n, rng.randrange(1, 10), rng.choice([0.0, 0.4, 0.9]))
        base = resynth(rng, i1) if rng.random() < 0.6 else list(i1)
        f = rng.choice([0.9, 0.99, 0.999, 0.9999, 1 - 1e-5, 0.5])
        thr = rng.choice([1e-13, 1e-13, 1e-12, 1e-10])
        i2s = []
        for side in (+1, -1, +1, -1):
            d = rng.choice([3e-6, 1e-5, 1e-4, 0.02 * (1 - f), 0.3 * (1 - f), 0.049 / 2**n, 0.02 / 2**n])
            ov = f + side * d
            if not 0.0 < ov < 1.0:
                continue
            eps = 2 * math.acos(ov)
            g = rng.choice(["rz", "rz", "p", "rx", "rzz"]) if n > 1 else "rz"
            if g == "rzz":
                a, b = rng.sample(range(n), 2)
                extra = ["rzz", [a, b], [eps]]
            else:
                extra = [g, [rng.randrange(n)], [eps]]
            pos = rng.choice([len(base), len(base), rng.randrange(len(base) + 1)])
            i2s.append((f"{side:+d}", base[:pos] + [extra] + base[pos:]))
    out = []
    for tag, i2 in i2s:
        ov = overlap(n, i1, i2)
        for a, b, order in ((i1, i2, "12"), (i2, i1, "21")):
            got, t = checker(n, a, b, thr, f)
            if got is None:
                out.append({"req": None, "impl": None, "kind": "eps", "oracle": {"ok": False, "detail": "checker did not terminate"}})
                continue
            if ov < f - EPS_MARGIN:
                ok = got is False
            elif ov > f + EPS_MARGIN:
                ok = got is True
            else:
                ok = True
            WORST["overlap_n"] += 1
            WORST["overlap_dev"] = max(WORST["overlap_dev"], abs(float(t) / 2**n - ov))
            det = (f"n={n} exact overlap |tr(U1^dag U2)|/2^n = {ov!r}, fidelity {f!r}, threshold {thr}, order {order}: "
                   f"checker says {'equivalent' if got else 'not equivalent'} (|trace|/2^n seen by the code: {float(t) / 2**n!r})")
            out.append(verdict_case(t, n, f, got, "eps", f"eps:{n}:{tag}:{order}:{got}:{f}", {"ok": ok, "detail": det},
                                    key=inp.get("key")))
    return out


def run_random_pair(inp):
    """unrelated circuits: fidelity placed around their exact overlap"""
    rng = random.Random(inp["sub"])
    n = rng.choice([2, 3, 4])
    i1 = rand_instrs(rng, n, rng.randrange(1, 8), 0.4)
    i2 = list(i1) + rand_instrs(rng, n, rng.randrange(1, 3), 0.4, 0.8)
    ov = overlap(n, i1, i2)
    out = []
    for f in (ov + 1e-4, ov - 1e-4, ov + 0.05, max(ov - 0.05, 1e-3)):
        if not 0 < f:
            continue
        for a, b, order in ((i1, i2, "12"), (i2, i1, "21")):
            got, t = checker(n, a, b, 1e-13, f)
            if got is None:
                out.append({"req": None, "impl": None, "kind": "randpair", "oracle": {"ok": False, "detail": "checker did not terminate"}})
                continue
            ok = (got is False) if ov < f - EPS_MARGIN else (got is True) if ov > f + EPS_MARGIN else True
            out.append(verdict_case(t, n, f, got, "randpair", f"randpair:{n}:{order}:{got}",
                                    {"ok": ok, "detail": f"n={n} exact overlap {ov!r} fidelity {f!r} order {order}: checker says {got}"}))
    return out


def gen(rng, tier):
    # numba / einsum warm-up happens in the first real call; important kinds first
    counts = {"quick": (80, 600, 4, 150, 250, 60), "thorough": (600, 6000, 10, 1500, 2500, 600), "search": (20, 300, 2, 200, 500, 100)}
    nd, ni, n1, ne, nx, nr = counts.get(tier, counts["quick"])
    plan = (["eps"] * nx + ["iter"] * ni + ["diag"] * nd + ["equal"] * ne + ["randpair"] * nr + ["n1"] * n1)
    # interleave deterministically so that a budget cut keeps every kind
    rng.shuffle(plan)
    for k in plan:
        yield {"kind": k, "sub": rng.randrange(1 << 30)}


def run(inp):
    res = run_kind(inp)
    if "corpus_file" in inp:
        for r in res:
            r["kind"] = "corpus:" + str(r.get("kind", ""))
    return res


def spec():
    return [{"name": "numeric tie: final MPO of the real iterate vs U1 U2^dag (qiskit Operator)", "ok": True, "n": WORST["numeric_n"],
             "worst_deviation": WORST["numeric_dev"], "worst_deviation_over_tolerance": WORST["numeric_rel_tol"]},
            {"name": "overlap |trace|/2^n computed by the checker vs exact |tr(U1^dag U2)|/2^n", "ok": True, "n": WORST["overlap_n"],
             "worst_deviation": WORST["overlap_dev"], "margin_used_by_oracles": EPS_MARGIN}]


def run_kind(inp):
    k = inp["kind"]
    if k == "diag":
        return run_diag(inp)
    if k == "iter":
        return run_iter(inp)
    if k == "n1":
        return run_n1(inp)
    if k == "equal":
        return run_equal(inp)
    if k == "eps":
        return run_eps(inp)
    if k == "randpair":
        return run_random_pair(inp)
    raise ValueError(k)


if __name__ == "__main__":
    ib.main("C04", gen, run, driver="Verdict",
            rule="verdict: from_matrix MPOs of diagonal-phase unitaries (n=1..6, overlap 1-10^-k, three phase patterns) x fidelities "
                 "on / one ulp off / 1e-3..1e-12 around the overlap the code computed; full checker runs on (c1, resynthesised c1 + "
                 "rz/p/rx/rzz(eps)) with the overlap swept across the fidelity, both orders; iterate: random pairs over "
                 "{h,x,y,z,sx,rx,ry,rz,p,id,u,cx,cz,swap,cp,rxx,ryy,rzz}, n=2..6, local / long-range / swap-network / empty-circuit styles, "
                 "thresholds 1e-13..1e-10; sub-ties on the partially consumed DAGs seen inside the runs; distinct = distinct "
                 "(kind, n, lengths, #long-range steps, rounds / verdict, side) signatures",
            trusted_base=["qiskit Operator (dense reference unitary) and numpy in the oracles",
                          "qiskit circuit_to_dag / layers / remove_op_node modelled as the wire-dependency front of an instruction list (trace-tied)",
                          "tensor numerics of the MPO build (apply_gate, decompose_theta, long-range gate MPO) modelled-not-verified: numeric tie only"],
            assumptions=["t handed to the model is the binary64 |trace| the real scalar_product returned, as an exact rational",
                         "barriers / measurements / one-qubit registers are outside the iterate model (n = 1 is tied to the model's `assert`)"],
            spec=spec)
