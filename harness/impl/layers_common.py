"""Shared by impl/C02.py and impl/C16.py — circuits, request lines for Driver/Layers.lean, and the observed run of the
REAL `simulator.run` / `digital_tjm` in a forked child with a hard kill timeout.

Circuit spec (JSON-able):  {"n": width, "init": "zeros"|"ones"|"x+"|…|"basis:0101", "ops": [op, …]}
    op = {"op": "g1", "name": "rx", "q": 1, "params": [0.3]}
       | {"op": "g2", "name": "cp", "a": 2, "b": 1, "params": [0.7]}        (a = qargs[0], b = qargs[1])
       | {"op": "m", "q": 0, "c": 0}
       | {"op": "b", "qs": [0, 2], "label": None | " sample_observables\n"}

Every real run happens in a child process (fork) that is killed after `timeout` seconds: a run that does not come back
is an *observation* ("does not terminate"), reported through the oracle, never a harness failure.
"""
from __future__ import annotations

import multiprocessing as mp
import os
import time
import traceback
import warnings

import numpy as np

warnings.simplefilter("ignore")

from qiskit import QuantumCircuit  # noqa: E402
from qiskit.circuit.library import (  # noqa: E402
    CPhaseGate, CXGate, CZGate, HGate, IGate, PhaseGate, RXGate, RXXGate, RYGate, RYYGate, RZGate, RZZGate,
    SXGate, U2Gate, UGate, XGate, YGate, ZGate,
)
from qiskit.converters import circuit_to_dag  # noqa: E402
from qiskit.quantum_info import Statevector  # noqa: E402

# one BLAS / numba thread per simulator call (`available_cpus()` honours this knob): the children run side by side
os.environ.setdefault("YAQS_MAX_WORKERS", "1")
# import the package in the parent so that forked children start with it loaded
import mqt.yaqs.simulator  # noqa: E402,F401
import mqt.yaqs.digital.digital_tjm  # noqa: E402,F401

G1 = {"x": (XGate, 0), "y": (YGate, 0), "z": (ZGate, 0), "h": (HGate, 0), "sx": (SXGate, 0), "id": (IGate, 0),
      "rx": (RXGate, 1), "ry": (RYGate, 1), "rz": (RZGate, 1), "p": (PhaseGate, 1), "u": (UGate, 3), "u2": (U2Gate, 2)}
G2 = {"cx": (CXGate, 0), "cz": (CZGate, 0), "cp": (CPhaseGate, 1), "rxx": (RXXGate, 1), "ryy": (RYYGate, 1),
      "rzz": (RZZGate, 1)}
SAMPLE = "SAMPLE_OBSERVABLES"
PY_WS = [" ", "\t", "\n", "\r", "\x0b", "\x0c", "\x1c", "\x1d", "\x1e", "\x1f"]
INITS = ["zeros", "ones", "x+", "x-", "y+", "y-", "Neel", "wall"]
RUN_TIMEOUT = float(os.environ.get("VERIF_RUN_TIMEOUT", "45"))


# ----------------------------------------------------------------------------------------------- labels
def label_strict(label) -> bool:
    """labelled SAMPLE_OBSERVABLES, case-insensitive (the property's wording)"""
    return label is not None and str(label).upper() == SAMPLE


def label_padded(label) -> bool:
    """…with surrounding whitespace (Python `str.strip`) — what the repaired code accepts in both places"""
    return label is not None and str(label).strip().upper() == SAMPLE


def random_label(rng, want: str):
    """want = 'strict' | 'padded' | 'other' | 'none'"""
    if want == "none":
        return None
    if want == "other":
        return rng.choice(["", "foo", "SAMPLE OBSERVABLES", "sample_observables_2", "SAMPLE_OBSERVABLE", "x SAMPLE_OBSERVABLES",
                           "sample-observables", "None", " ", "SAMPLE_ OBSERVABLES"])
    core = "".join(ch.upper() if rng.random() < 0.5 else ch.lower() for ch in SAMPLE)
    if want == "strict":
        return core
    pre = "".join(rng.choice(PY_WS) for _ in range(rng.randrange(0, 3)))
    post = "".join(rng.choice(PY_WS) for _ in range(rng.randrange(0, 3)))
    if not pre and not post:
        post = rng.choice(PY_WS)
    return pre + core + post


# ----------------------------------------------------------------------------------------------- circuits
def random_gate(rng, n, kinds="both"):
    if n >= 2 and (kinds == "two" or (kinds == "both" and rng.random() < 0.5)):
        name = rng.choice(sorted(G2))
        q = rng.randrange(n - 1)
        a, b = (q, q + 1) if rng.random() < 0.5 else (q + 1, q)
        params = [rng.uniform(-3.2, 3.2) for _ in range(G2[name][1])]
        return {"op": "g2", "name": name, "a": a, "b": b, "params": params}
    name = rng.choice(sorted(G1))
    params = [rng.uniform(-3.2, 3.2) for _ in range(G1[name][1])]
    return {"op": "g1", "name": name, "q": rng.randrange(n), "params": params}


def random_marker(rng, n, p_label=0.35):
    r = rng.random()
    if r < 0.3:
        return {"op": "m", "q": rng.randrange(n), "c": rng.randrange(n)}
    if r < 0.3 + p_label:
        want = rng.choice(["strict", "strict", "padded", "padded"])
        full = rng.random() < 0.7
        qs = list(range(n)) if full else sorted(rng.sample(range(n), rng.randrange(1, n)))
        if full and rng.random() < 0.3:
            rng.shuffle(qs)
        return {"op": "b", "qs": qs, "label": random_label(rng, want)}
    want = rng.choice(["none", "none", "other"])
    k = rng.randrange(1, n + 1)
    return {"op": "b", "qs": rng.sample(range(n), k), "label": random_label(rng, want)}


def random_circuit(rng, nmin=2, nmax=6, max_ops=12, p_marker=0.3, p_label=0.35, init=None):
    n = rng.randrange(nmin, nmax + 1)
    m = rng.randrange(1, max_ops + 1)
    ops = []
    for _ in range(m):
        ops.append(random_marker(rng, n, p_label) if rng.random() < p_marker else random_gate(rng, n))
    if init is None:
        init = rng.choice(INITS + ["basis:" + "".join(rng.choice("01") for _ in range(n))])
    return {"n": n, "init": init, "ops": ops}


def is_marker(op) -> bool:
    return op["op"] in ("m", "b")


def drop_ops(ops, drop):
    """drop = None | 'plain' (measurements and barriers that are not sampling barriers) | 'all' (every marker)"""
    if drop is None:
        return list(ops)
    out = []
    for op in ops:
        if op["op"] == "m":
            continue
        if op["op"] == "b" and (drop == "all" or not label_padded(op.get("label"))):
            continue
        out.append(op)
    return out


def build_circuit(spec, drop=None) -> QuantumCircuit:
    n = spec["n"]
    qc = QuantumCircuit(n, n)
    for op in drop_ops(spec["ops"], drop):
        if op["op"] == "g1":
            cls, _ = G1[op["name"]]
            qc.append(cls(*op["params"]), [op["q"]])
        elif op["op"] == "g2":
            cls, _ = G2[op["name"]]
            qc.append(cls(*op["params"]), [op["a"], op["b"]])
        elif op["op"] == "m":
            qc.measure(op["q"], op["c"])
        else:
            qc.barrier(*op["qs"], label=op.get("label"))
    return qc


def gate_key(name, params):
    return (str(name), tuple(float(p) for p in params))


def tag_table(ops):
    tags = {}
    for op in ops:
        if op["op"] in ("g1", "g2"):
            tags.setdefault(gate_key(op["name"], op["params"]), len(tags) + 1)
    return tags


def op_tokens(op, tags) -> str:
    if op["op"] == "g1":
        return f"g1 {tags[gate_key(op['name'], op['params'])]} {op['q']}"
    if op["op"] == "g2":
        return f"g2 {tags[gate_key(op['name'], op['params'])]} {op['a']} {op['b']}"
    if op["op"] == "m":
        return f"m {op['q']} {op['c']}"
    lab = op.get("label")
    tok = "-" if lab is None else "L" + ",".join(str(ord(ch)) for ch in str(lab))
    return f"b {tok} " + " ".join(str(q) for q in op["qs"])


def request(head: str, ops, tags=None) -> str:
    tags = tag_table(ops) if tags is None else tags
    return " | ".join([head] + [op_tokens(op, tags) for op in ops])


def ascii_labels(ops) -> bool:
    return all(op["op"] != "b" or op.get("label") is None or all(ord(ch) < 128 for ch in str(op["label"])) for op in ops)


# ----------------------------------------------------------------------------------------------- reference (qiskit)
_SITE = {"zeros": [1, 0], "ones": [0, 1], "x+": [2 ** -0.5, 2 ** -0.5], "x-": [2 ** -0.5, -(2 ** -0.5)],
         "y+": [2 ** -0.5, 1j * 2 ** -0.5], "y-": [2 ** -0.5, -1j * 2 ** -0.5]}
PAULI = {"X": np.array([[0, 1], [1, 0]], dtype=complex), "Y": np.array([[0, -1j], [1j, 0]], dtype=complex),
         "Z": np.array([[1, 0], [0, -1]], dtype=complex)}


def site_states(n, init):
    """per-site single-qubit vectors of the supported product states (written down independently of MPS.__init__)"""
    out = []
    for i in range(n):
        if init.startswith("basis:"):
            v = [1, 0] if init[6 + i] == "0" else [0, 1]
        elif init == "Neel":
            v = [0, 1] if i % 2 == 0 else [1, 0]
        elif init == "wall":
            v = [1, 0] if i < n // 2 else [0, 1]
        else:
            v = _SITE[init]
        out.append(np.array(v, dtype=complex))
    return out


def initial_vector(n, init):
    """little-endian: qubit 0 is the least significant bit of the index"""
    vec = np.array([1.0 + 0j])
    for s in site_states(n, init):
        vec = np.kron(s, vec)
    return vec


def gate_only_circuit(spec, upto=None) -> QuantumCircuit:
    qc = QuantumCircuit(spec["n"])
    for op in spec["ops"][: (len(spec["ops"]) if upto is None else upto)]:
        if op["op"] == "g1":
            qc.append(G1[op["name"]][0](*op["params"]), [op["q"]])
        elif op["op"] == "g2":
            qc.append(G2[op["name"]][0](*op["params"]), [op["a"], op["b"]])
    return qc


def reference_state(spec, upto=None) -> np.ndarray:
    sv = Statevector(initial_vector(spec["n"], spec["init"])).evolve(gate_only_circuit(spec, upto))
    return np.asarray(sv.data)


def observable_list(n):
    """[(label, sites, matrix)] : all 1-site Paulis and all adjacent 2-site Pauli pairs; matrix = kron(P_i, P_{i+1})"""
    out = []
    for i in range(n):
        for p in "XYZ":
            out.append((p, [i], PAULI[p]))
    for i in range(n - 1):
        for a in "XYZ":
            for b in "XYZ":
                out.append((a + b, [i, i + 1], np.kron(PAULI[a], PAULI[b])))
    return out


def reference_expectations(n, vec):
    """<P> for the observables of `observable_list`, from a dense little-endian state vector"""
    psi = np.asarray(vec).reshape([2] * n)  # axis k <-> qubit n-1-k
    vals = []
    for lab, sites, _ in observable_list(n):
        phi = psi
        for ch, s in zip(lab, sites):
            ax = n - 1 - s
            phi = np.moveaxis(np.tensordot(PAULI[ch], phi, axes=([1], [ax])), 0, ax)
        vals.append(float(np.real(np.vdot(psi, phi))))
    return vals


# ----------------------------------------------------------------------------------------------- the observed run
def _do_run(job):
    """Runs in the child.  Observes the REAL simulator: module attributes wrapped, nothing replaced."""
    from mqt.yaqs import simulator as sim_mod
    from mqt.yaqs.core.data_structures.networks import MPS
    from mqt.yaqs.core.data_structures.simulation_parameters import Observable, StrongSimParams, WeakSimParams
    from mqt.yaqs.core.libraries.gate_library import BaseGate, GateLibrary
    from mqt.yaqs.digital import digital_tjm as dt_mod

    spec, mode = job["spec"], job["mode"]
    n = spec["n"]
    segments = []          # one list of events per digital_tjm invocation
    gens, wins = [], []
    o1, o2 = dt_mod.apply_single_qubit_gate, dt_mod.apply_two_qubit_gate
    ogen, owin = dt_mod.construct_generator_mpo, dt_mod.apply_window
    oeval, oshots, otjm = MPS.evaluate_observables, MPS.measure_shots, sim_mod.digital_tjm

    def cur():
        if not segments:
            segments.append([])
        return segments[-1]

    def s1(state, node):
        cur().append(["a1", node.op.name, [float(p) for p in node.op.params], [q._index for q in node.qargs]])  # noqa: SLF001
        return o1(state, node)

    def s2(state, node, sp):
        cur().append(["a2", node.op.name, [float(p) for p in node.op.params], [q._index for q in node.qargs]])  # noqa: SLF001
        return o2(state, node, sp)

    def sgen(gate, length):
        mpo, first, last = ogen(gate, length)
        try:
            m = [bool(np.allclose(mpo.tensors[gate.sites[k]][:, :, 0, 0], gate.generator[k])) for k in (0, 1)]
            others = all(np.allclose(mpo.tensors[s][:, :, 0, 0], np.eye(2)) for s in range(length) if s not in gate.sites)
        except Exception:  # noqa: BLE001
            m, others = [False, False], False
        gens.append([list(gate.sites), int(first), int(last), m[0], m[1], bool(others), int(length)])
        return mpo, first, last

    def swin(state, mpo, first, last, wsize):
        out = owin(state, mpo, first, last, wsize)
        wins.append([int(state.length), int(first), int(last), int(wsize), [int(out[2][0]), int(out[2][1])], int(out[0].length)])
        return out

    def seval(self, sp, results, column_index=0):
        cur().append(["e", int(column_index), int(results.shape[1])])
        return oeval(self, sp, results, column_index)

    def sshots(self, shots, *a, **k):
        cur().append(["shots", int(shots)])
        return oshots(self, shots, *a, **k)

    def stjm(args):
        segments.append([])
        return otjm(args)

    dt_mod.apply_single_qubit_gate, dt_mod.apply_two_qubit_gate = s1, s2
    dt_mod.construct_generator_mpo, dt_mod.apply_window = sgen, swin
    MPS.evaluate_observables, MPS.measure_shots, sim_mod.digital_tjm = seval, sshots, stjm

    qc = build_circuit(spec, job.get("drop"))
    obs = []
    for lab, sites, mat in observable_list(n):
        if len(sites) == 1:
            obs.append(Observable(getattr(GateLibrary, lab.lower())(), sites[0]))
        else:
            obs.append(Observable(BaseGate(mat), list(sites)))
    init = spec["init"]
    if init.startswith("basis:"):
        state = MPS(n, state="basis", basis_string=init[6:])
    else:
        state = MPS(n, state=init)
    ntraj = int(job.get("num_traj", 1))
    if mode == "weak":
        params = WeakSimParams(shots=int(job.get("shots", 1)), max_bond_dim=4096, threshold=1e-15, get_state=True,
                               show_progress=False)
    else:
        params = StrongSimParams(obs, num_traj=ntraj, max_bond_dim=4096, threshold=1e-15, get_state=True,
                                 sample_layers=(mode == "ss"), show_progress=False)
    out = {"exc": None}
    t0 = time.time()
    try:
        sim_mod.run(state, qc, params, None, parallel=bool(job.get("parallel", True)))
    except BaseException as e:  # noqa: BLE001
        out["exc"] = f"{type(e).__name__}: {e}"[:300]
    out["run_s"] = time.time() - t0
    out["segments"] = segments
    out["gens"], out["wins"] = gens, wins
    out["num_mid"] = int(getattr(params, "num_mid_measurements", 0)) if mode != "weak" else 0
    out["num_traj_after"] = int(getattr(params, "num_traj", -1))
    if mode != "weak" and out["exc"] is None:
        out["results"] = [[float(x) for x in np.asarray(o.results).ravel()] for o in params.observables]
    if mode == "weak" and out["exc"] is None:
        out["weak_results"] = {int(k): int(v) for k, v in getattr(params, "results", {}).items()}
    st = getattr(params, "output_state", None)
    if st is not None and out["exc"] is None:
        try:
            v = np.asarray(st.to_vec())
            out["vec"] = [[float(z.real), float(z.imag)] for z in v]
        except Exception as e:  # noqa: BLE001
            out["vec_exc"] = repr(e)[:200]
    return out


def _child(conn, job):
    try:
        res = _do_run(job)
    except BaseException:  # noqa: BLE001
        res = {"crash": traceback.format_exc()[-2000:]}
    try:
        conn.send(res)
    finally:
        conn.close()
        os._exit(0)


_SEEN = {"hangs": 0, "slowest": 0.0}   # over the whole implementation stage


def run_many(jobs, timeout=None, max_parallel=None):
    """Run the jobs in forked children, at most `max_parallel` at a time; each child is SIGKILLed `timeout` seconds
    after its start.  Result per job: the child's dict, or {"hang": True, "timeout": t}."""
    timeout = RUN_TIMEOUT if timeout is None else timeout
    max_parallel = max_parallel or int(os.environ.get("VERIF_RUN_PARALLEL", "0")) or max(1, min(6, (os.cpu_count() or 2) // 2))
    ctx = mp.get_context("fork")
    results = [None] * len(jobs)
    pending = list(range(len(jobs)))
    running = {}

    def limit():
        # after three children had to be killed, the remaining ones get 10x the slowest completed run (at least 8 s):
        # keeps a check on a non-terminating tree within minutes without making a loaded machine look like a hang
        return timeout if _SEEN["hangs"] < 3 else min(timeout, max(8.0, 10.0 * _SEEN["slowest"]))

    while pending or running:
        while pending and len(running) < max_parallel:
            i = pending.pop(0)
            parent, child = ctx.Pipe(duplex=False)
            p = ctx.Process(target=_child, args=(child, jobs[i]), daemon=True)
            p.start()
            child.close()
            running[i] = (p, parent, time.time())
        done = []
        for i, (p, conn, t0) in running.items():
            if conn.poll(0):
                try:
                    results[i] = conn.recv()
                    _SEEN["slowest"] = max(_SEEN["slowest"], time.time() - t0)
                except (EOFError, OSError):
                    results[i] = {"crash": "child died without an answer"}
                done.append(i)
            elif not p.is_alive():
                if conn.poll(0.05):
                    try:
                        results[i] = conn.recv()
                    except (EOFError, OSError):
                        results[i] = {"crash": "child died without an answer"}
                else:
                    results[i] = {"crash": f"child exited rc={p.exitcode} without an answer"}
                done.append(i)
            elif time.time() - t0 > limit():
                p.kill()
                results[i] = {"hang": True, "timeout": round(time.time() - t0, 1)}
                _SEEN["hangs"] += 1
                done.append(i)
        for i in done:
            p, conn, _ = running.pop(i)
            p.join(2)
            conn.close()
        if not done:
            time.sleep(0.005)
    return results


# ----------------------------------------------------------------------------------------------- canonical answers
def events_string(res, spec, mode, drop=None):
    """The implementation's answer to `run new <mode> | …`, from what the real run did (first digital_tjm invocation)."""
    if res.get("hang"):
        return "hang"
    if res.get("crash"):
        return "crash"
    tags = tag_table(spec["ops"])
    segs = res.get("segments") or [[]]
    seg = segs[0]
    toks = []
    ncols = 0
    for ev in seg:
        if ev[0] == "a1":
            toks.append(f"a1:{tags.get(gate_key(ev[1], ev[2]), 999999)}:{ev[3][0]}")
        elif ev[0] == "a2":
            toks.append(f"a2:{tags.get(gate_key(ev[1], ev[2]), 999999)}:{ev[3][0]}:{ev[3][1]}")
        elif ev[0] == "e":
            toks.append(f"e{ev[1]}")
            ncols = max(ncols, ev[2])
        elif ev[0] == "shots":
            toks.append("shots")
    s = " ".join([f"cols={ncols}"] + toks)
    if res.get("exc"):
        s += " exc=" + res["exc"].split(":")[0]
    if len(segs) > 1:
        s += f" invocations={len(segs)}"
    return s


def vec_of(res):
    v = res.get("vec")
    if v is None:
        return None
    return np.array([complex(a, b) for a, b in v])


def dag_nodes_tokens(nodes, tags):
    """real DAGOpNodes → the driver's instruction tokens"""
    out = []
    for nd in nodes:
        name = nd.op.name
        qs = [q._index for q in nd.qargs]  # noqa: SLF001
        if name == "measure":
            out.append(f"m:{qs[0]}:{nd.cargs[0]._index}")  # noqa: SLF001
        elif name == "barrier":
            out.append(("sb:" if label_padded(getattr(nd.op, "label", None)) else "b:") + ",".join(map(str, qs)))
        elif len(qs) == 1:
            out.append(f"g1:{tags.get(gate_key(name, nd.op.params), 999999)}:{qs[0]}")
        else:
            out.append(f"g2:{tags.get(gate_key(name, nd.op.params), 999999)}:{qs[0]}:{qs[1]}")
    return out


def program_order_key(spec):
    """token → list of program positions (to print a front layer in program order)"""
    tags = tag_table(spec["ops"])
    pos = {}
    for i, op in enumerate(spec["ops"]):
        if op["op"] == "g1":
            t = f"g1:{tags[gate_key(op['name'], op['params'])]}:{op['q']}"
        elif op["op"] == "g2":
            t = f"g2:{tags[gate_key(op['name'], op['params'])]}:{op['a']}:{op['b']}"
        elif op["op"] == "m":
            t = f"m:{op['q']}:{op['c']}"
        else:
            t = ("sb:" if label_padded(op.get("label")) else "b:") + ",".join(map(str, op["qs"]))
        pos.setdefault(t, []).append(i)
    return pos


__all__ = [n for n in dir() if not n.startswith("_")] + ["circuit_to_dag"]
