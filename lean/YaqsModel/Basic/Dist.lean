/-
  Finite (sub-)distributions with rational weights — core Lean only, no Mathlib.

  `Dist α = List (Rat × α)`: a list of (weight, outcome) pairs.  Nothing forces the weights to be
  non-negative or to sum to one; those are *theorems* about particular distributions (the jump lottery
  of `Model/Lottery.lean`, the Born chain of C12), not part of the type.  `expect`, `bind` and the law
  of total expectation `expect_bind` are what the outcome trees of C01/C03 are built from.
-/
namespace Yaqs

abbrev Dist (α : Type) := List (Rat × α)

namespace Dist

variable {α β : Type}

/-- total weight -/
def mass : Dist α → Rat
  | [] => 0
  | (p, _) :: d => p + mass d

/-- weighted sum of `f` over the outcomes -/
def expect : Dist α → (α → Rat) → Rat
  | [], _ => 0
  | (p, a) :: d, f => p * f a + expect d f

/-- point mass -/
def point (a : α) : Dist α := [(1, a)]

/-- multiply every weight by `c` -/
def scale (c : Rat) : Dist α → Dist α
  | [] => []
  | (p, a) :: d => (c * p, a) :: scale c d

/-- sequential composition: draw `a` from `d`, then draw from `f a` -/
def bind : Dist α → (α → Dist β) → Dist β
  | [], _ => []
  | (p, a) :: d, f => scale p (f a) ++ bind d f

/-- push-forward -/
def mapD (g : α → β) : Dist α → Dist β
  | [] => []
  | (p, a) :: d => (p, g a) :: mapD g d

/-- every weight is non-negative -/
def NonNeg : Dist α → Prop
  | [] => True
  | (p, _) :: d => 0 ≤ p ∧ NonNeg d

/-- `m`-fold composition of a state-dependent step: the outcome tree of depth `m`, flattened to its leaves -/
def tree {σ : Type} (step : σ → Dist σ) : Nat → σ → Dist σ
  | 0, s => point s
  | m + 1, s => bind (step s) (tree step m)

theorem mass_eq_expect_one (d : Dist α) : mass d = expect d (fun _ => 1) := by
  induction d with
  | nil => rfl
  | cons x d ih => obtain ⟨p, a⟩ := x; simp only [mass, expect, ih]; grind

theorem expect_append (d e : Dist α) (f : α → Rat) : expect (d ++ e) f = expect d f + expect e f := by
  induction d with
  | nil => simp only [List.nil_append, expect]; grind
  | cons x d ih => obtain ⟨p, a⟩ := x; simp only [List.cons_append, expect, ih]; grind

theorem expect_scale (c : Rat) (d : Dist α) (f : α → Rat) : expect (scale c d) f = c * expect d f := by
  induction d with
  | nil => simp only [scale, expect]; grind
  | cons x d ih => obtain ⟨p, a⟩ := x; simp only [scale, expect, ih]; grind

/-- **law of total expectation**: the expectation over a two-stage draw is the expectation over the first
    stage of the conditional expectations of the second. -/
theorem expect_bind (d : Dist α) (f : α → Dist β) (g : β → Rat) :
    expect (bind d f) g = expect d (fun a => expect (f a) g) := by
  induction d with
  | nil => rfl
  | cons x d ih =>
    obtain ⟨p, a⟩ := x
    simp only [bind, expect, expect_append, expect_scale, ih]

theorem mass_bind (d : Dist α) (f : α → Dist β) : mass (bind d f) = expect d (fun a => mass (f a)) := by
  rw [mass_eq_expect_one, expect_bind]
  congr 1
  funext a
  exact (mass_eq_expect_one (f a)).symm

theorem expect_congr (d : Dist α) (f g : α → Rat) (h : ∀ a, f a = g a) : expect d f = expect d g := by
  have : f = g := funext h
  rw [this]

theorem expect_const_mul (d : Dist α) (c : Rat) (f : α → Rat) :
    expect d (fun a => c * f a) = c * expect d f := by
  induction d with
  | nil => simp only [expect]; grind
  | cons x d ih => obtain ⟨p, a⟩ := x; simp only [expect, ih]; grind

theorem expect_add (d : Dist α) (f g : α → Rat) :
    expect d (fun a => f a + g a) = expect d f + expect d g := by
  induction d with
  | nil => simp only [expect]; grind
  | cons x d ih => obtain ⟨p, a⟩ := x; simp only [expect, ih]; grind

/-- if every second-stage distribution has mass one, composition keeps the mass of the first stage -/
theorem mass_bind_of_mass_one (d : Dist α) (f : α → Dist β) (h : ∀ a, mass (f a) = 1) :
    mass (bind d f) = mass d := by
  rw [mass_bind, mass_eq_expect_one d]
  exact expect_congr d _ _ h

theorem mass_point (a : α) : mass (point a) = 1 := by
  simp only [point, mass]; grind

theorem expect_point (a : α) (f : α → Rat) : expect (point a) f = f a := by
  simp only [point, expect]; grind

theorem nonNeg_append (d e : Dist α) : NonNeg (d ++ e) ↔ NonNeg d ∧ NonNeg e := by
  induction d with
  | nil => simp [NonNeg]
  | cons x d ih => obtain ⟨p, a⟩ := x; simp only [List.cons_append, NonNeg, ih, and_assoc]

theorem nonNeg_scale (c : Rat) (hc : 0 ≤ c) (d : Dist α) (hd : NonNeg d) : NonNeg (scale c d) := by
  induction d with
  | nil => trivial
  | cons x d ih =>
    obtain ⟨p, a⟩ := x
    exact ⟨Rat.mul_nonneg hc hd.1, ih hd.2⟩

theorem nonNeg_bind (d : Dist α) (f : α → Dist β) (hd : NonNeg d) (hf : ∀ a, NonNeg (f a)) :
    NonNeg (bind d f) := by
  induction d with
  | nil => trivial
  | cons x d ih =>
    obtain ⟨p, a⟩ := x
    simp only [bind, nonNeg_append]
    exact ⟨nonNeg_scale p hd.1 _ (hf a), ih hd.2⟩

theorem mass_mapD (g : α → β) (d : Dist α) : mass (mapD g d) = mass d := by
  induction d with
  | nil => rfl
  | cons x d ih => obtain ⟨p, a⟩ := x; simp only [mapD, mass, ih]

theorem expect_mapD (g : α → β) (d : Dist α) (f : β → Rat) : expect (mapD g d) f = expect d (fun a => f (g a)) := by
  induction d with
  | nil => rfl
  | cons x d ih => obtain ⟨p, a⟩ := x; simp only [mapD, expect, ih]

theorem nonNeg_mapD (g : α → β) (d : Dist α) (h : NonNeg d) : NonNeg (mapD g d) := by
  induction d with
  | nil => trivial
  | cons x d ih => obtain ⟨p, a⟩ := x; exact ⟨h.1, ih h.2⟩

/-- the path probabilities of an outcome tree of any depth sum to one -/
theorem mass_tree {σ : Type} (step : σ → Dist σ) (h : ∀ s, mass (step s) = 1) (m : Nat) (s : σ) :
    mass (tree step m s) = 1 := by
  induction m generalizing s with
  | zero => exact mass_point s
  | succ m ih =>
    simp only [tree]
    rw [mass_bind_of_mass_one _ _ (fun a => ih a)]
    exact h s

theorem nonNeg_tree {σ : Type} (step : σ → Dist σ) (h : ∀ s, NonNeg (step s)) (m : Nat) (s : σ) :
    NonNeg (tree step m s) := by
  induction m generalizing s with
  | zero => simp only [tree, point, NonNeg]; exact ⟨by grind, trivial⟩
  | succ m ih => exact nonNeg_bind _ _ (h s) (fun a => ih a)

/-- tower property along the tree: the depth-`m+1` expectation is the one-step expectation of the
    depth-`m` expectations -/
theorem expect_tree_succ {σ : Type} (step : σ → Dist σ) (m : Nat) (s : σ) (g : σ → Rat) :
    expect (tree step (m + 1) s) g = expect (step s) (fun s' => expect (tree step m s') g) := by
  simp only [tree, expect_bind]

end Dist
end Yaqs
