/-
  Line-protocol helpers shared by all drivers (core Lean only, no Mathlib).
  Numbers travel as exact rationals `num/den` (or plain integers); every binary64 value is a
  dyadic rational, so the harness ships `float.as_integer_ratio()` and nothing is rounded on the way in.
-/
namespace Yaqs

def words (s : String) : List String :=
  (s.splitOn " ").filter (· ≠ "")

def parseInt? (s : String) : Option Int := s.toInt?

def parseNat? (s : String) : Option Nat := s.toNat?

/-- `"3/4"`, `"-3/4"`, `"5"` -/
def parseRat? (s : String) : Option Rat :=
  match s.splitOn "/" with
  | [n] => (n.toInt?).map (fun i => (i : Rat))
  | [n, d] =>
    match n.toInt?, d.toNat? with
    | some i, some k => if k = 0 then none else some ((i : Rat) / (k : Rat))
    | _, _ => none
  | _ => none

def parseAll? {α} (f : String → Option α) : List String → Option (List α)
  | [] => some []
  | x :: xs => do
    let a ← f x
    let as ← parseAll? f xs
    pure (a :: as)

/-- split a token list at every `"|"` token -/
def splitBar (ws : List String) : List (List String) :=
  let rec go (acc : List String) (out : List (List String)) : List String → List (List String)
    | [] => (acc.reverse :: out).reverse
    | w :: rest => if w = "|" then go [] (acc.reverse :: out) rest else go (w :: acc) out rest
  go [] [] ws

def showRat (q : Rat) : String :=
  if q.den = 1 then toString q.num else toString q.num ++ "/" ++ toString q.den

def showBool (b : Bool) : String := if b then "1" else "0"

def joinWith (sep : String) (xs : List String) : String := sep.intercalate xs

/-- generic stdin loop: one request line in, one reply line out -/
partial def lineLoop (h : IO.FS.Stream) (f : String → String) : IO Unit := do
  let line ← h.getLine
  if line.isEmpty then return ()
  let l := line.trimAscii.toString
  IO.println (f l)
  lineLoop h f

end Yaqs
