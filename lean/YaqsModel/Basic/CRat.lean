/-
  Gaussian rationals ℚ(i): the exact number type of every dense model (core Lean only, no Mathlib).
  A binary64 complex number is a pair of dyadic rationals, so the harness can hand the model exactly the
  numbers the implementation saw.  The `CommRing`/`StarRing` structure is proved in `Lemmas/CRat.lean`.
-/
namespace Yaqs

structure CRat where
  re : Rat
  im : Rat
deriving DecidableEq, Repr

namespace CRat

def ofRat (q : Rat) : CRat := ⟨q, 0⟩

/-- the imaginary unit -/
def I : CRat := ⟨0, 1⟩

instance : Zero CRat := ⟨⟨0, 0⟩⟩
instance : One CRat := ⟨⟨1, 0⟩⟩
instance : Inhabited CRat := ⟨⟨0, 0⟩⟩

def add (z w : CRat) : CRat := ⟨z.re + w.re, z.im + w.im⟩
def neg (z : CRat) : CRat := ⟨-z.re, -z.im⟩
def sub (z w : CRat) : CRat := ⟨z.re - w.re, z.im - w.im⟩
def mul (z w : CRat) : CRat := ⟨z.re * w.re - z.im * w.im, z.re * w.im + z.im * w.re⟩

instance : Add CRat := ⟨add⟩
instance : Neg CRat := ⟨neg⟩
instance : Sub CRat := ⟨sub⟩
instance : Mul CRat := ⟨mul⟩

/-- complex conjugate -/
def conj (z : CRat) : CRat := ⟨z.re, -z.im⟩

/-- squared modulus `|z|²` (a rational) -/
def normSq (z : CRat) : Rat := z.re * z.re + z.im * z.im

/-- scaling by a rational -/
def smul (q : Rat) (z : CRat) : CRat := ⟨q * z.re, q * z.im⟩

@[simp] theorem zero_re : (0 : CRat).re = 0 := rfl
@[simp] theorem zero_im : (0 : CRat).im = 0 := rfl
@[simp] theorem one_re : (1 : CRat).re = 1 := rfl
@[simp] theorem one_im : (1 : CRat).im = 0 := rfl
@[simp] theorem I_re : I.re = 0 := rfl
@[simp] theorem I_im : I.im = 1 := rfl
@[simp] theorem add_re (z w : CRat) : (z + w).re = z.re + w.re := rfl
@[simp] theorem add_im (z w : CRat) : (z + w).im = z.im + w.im := rfl
@[simp] theorem neg_re (z : CRat) : (-z).re = -z.re := rfl
@[simp] theorem neg_im (z : CRat) : (-z).im = -z.im := rfl
@[simp] theorem sub_re (z w : CRat) : (z - w).re = z.re - w.re := rfl
@[simp] theorem sub_im (z w : CRat) : (z - w).im = z.im - w.im := rfl
@[simp] theorem mul_re (z w : CRat) : (z * w).re = z.re * w.re - z.im * w.im := rfl
@[simp] theorem mul_im (z w : CRat) : (z * w).im = z.re * w.im + z.im * w.re := rfl
@[simp] theorem conj_re (z : CRat) : (conj z).re = z.re := rfl
@[simp] theorem conj_im (z : CRat) : (conj z).im = -z.im := rfl
@[simp] theorem ofRat_re (q : Rat) : (ofRat q).re = q := rfl
@[simp] theorem ofRat_im (q : Rat) : (ofRat q).im = 0 := rfl

theorem ext {z w : CRat} (hr : z.re = w.re) (hi : z.im = w.im) : z = w := by
  cases z; cases w; simp_all

end CRat
end Yaqs
