/-
  Gaussian rationals ℚ(i) for the dense models of C12 (core Lean only, no Mathlib).

  Every binary64 value is a dyadic rational, so every complex128 tensor entry the implementation holds is an
  element of this type; the harness ships `float.as_integer_ratio()` of real and imaginary part.
  The ring / star-ring structure is proved in `Lemmas/Born.lean`.
  (Own file/namespace `Yaqs.CB` so that it cannot clash with another builder's `Basic/CRat.lean`.)
-/
namespace Yaqs.CB

structure CRat where
  re : Rat
  im : Rat
  deriving DecidableEq, Repr

namespace CRat

instance : Zero CRat := ⟨⟨0, 0⟩⟩
instance : One CRat := ⟨⟨1, 0⟩⟩
instance : Add CRat := ⟨fun a b => ⟨a.re + b.re, a.im + b.im⟩⟩
instance : Neg CRat := ⟨fun a => ⟨-a.re, -a.im⟩⟩
instance : Sub CRat := ⟨fun a b => ⟨a.re - b.re, a.im - b.im⟩⟩
instance : Mul CRat := ⟨fun a b => ⟨a.re * b.re - a.im * b.im, a.re * b.im + a.im * b.re⟩⟩

/-- the imaginary unit -/
def I : CRat := ⟨0, 1⟩

/-- embedding of ℚ -/
def ofRat (q : Rat) : CRat := ⟨q, 0⟩

/-- complex conjugate (`np.conj`) -/
def conj (a : CRat) : CRat := ⟨a.re, -a.im⟩

/-- `|a|²` as a rational -/
def normSq (a : CRat) : Rat := a.re * a.re + a.im * a.im

/-- multiplication by a rational scalar -/
def smulQ (q : Rat) (a : CRat) : CRat := ⟨q * a.re, q * a.im⟩

@[simp] theorem zero_re : (0 : CRat).re = 0 := rfl
@[simp] theorem zero_im : (0 : CRat).im = 0 := rfl
@[simp] theorem one_re : (1 : CRat).re = 1 := rfl
@[simp] theorem one_im : (1 : CRat).im = 0 := rfl
@[simp] theorem add_re (a b : CRat) : (a + b).re = a.re + b.re := rfl
@[simp] theorem add_im (a b : CRat) : (a + b).im = a.im + b.im := rfl
@[simp] theorem neg_re (a : CRat) : (-a).re = -a.re := rfl
@[simp] theorem neg_im (a : CRat) : (-a).im = -a.im := rfl
@[simp] theorem sub_re (a b : CRat) : (a - b).re = a.re - b.re := rfl
@[simp] theorem sub_im (a b : CRat) : (a - b).im = a.im - b.im := rfl
@[simp] theorem mul_re (a b : CRat) : (a * b).re = a.re * b.re - a.im * b.im := rfl
@[simp] theorem mul_im (a b : CRat) : (a * b).im = a.re * b.im + a.im * b.re := rfl
@[simp] theorem conj_re (a : CRat) : (conj a).re = a.re := rfl
@[simp] theorem conj_im (a : CRat) : (conj a).im = -a.im := rfl
@[simp] theorem ofRat_re (q : Rat) : (ofRat q).re = q := rfl
@[simp] theorem ofRat_im (q : Rat) : (ofRat q).im = 0 := rfl

theorem ext {a b : CRat} (hr : a.re = b.re) (hi : a.im = b.im) : a = b := by
  cases a; cases b; simp_all

end CRat
end Yaqs.CB
