/-
  Gaussian rationals ℚ(i) for the tomography model (core Lean only, no Mathlib).
  `Rat` is in core; every binary64 the implementation produces is a dyadic rational, so the
  correspondence check ships `float.as_integer_ratio()` pairs and nothing is rounded on the way in.
  The ring / star-ring instances are proved in `Lemmas/Tomo.lean`.
-/
namespace Yaqs

/-- a Gaussian rational `re + i·im` -/
structure CRatT where
  re : Rat
  im : Rat
deriving DecidableEq, Repr

namespace CRatT

def zero : CRatT := ⟨0, 0⟩
def one : CRatT := ⟨1, 0⟩
/-- the imaginary unit -/
def I : CRatT := ⟨0, 1⟩
def ofRat (q : Rat) : CRatT := ⟨q, 0⟩
def add (a b : CRatT) : CRatT := ⟨a.re + b.re, a.im + b.im⟩
def neg (a : CRatT) : CRatT := ⟨-a.re, -a.im⟩
def sub (a b : CRatT) : CRatT := ⟨a.re - b.re, a.im - b.im⟩
def mul (a b : CRatT) : CRatT := ⟨a.re * b.re - a.im * b.im, a.re * b.im + a.im * b.re⟩
/-- complex conjugate (`numpy.conj`) -/
def conj (a : CRatT) : CRatT := ⟨a.re, -a.im⟩
/-- `|a|²` -/
def normSq (a : CRatT) : Rat := a.re * a.re + a.im * a.im
/-- multiplication by a rational scalar -/
def rsmul (q : Rat) (a : CRatT) : CRatT := ⟨q * a.re, q * a.im⟩

instance : Zero CRatT := ⟨zero⟩
instance : One CRatT := ⟨one⟩
instance : Add CRatT := ⟨add⟩
instance : Neg CRatT := ⟨neg⟩
instance : Sub CRatT := ⟨sub⟩
instance : Mul CRatT := ⟨mul⟩
instance : Inhabited CRatT := ⟨zero⟩

/-- `1/2` -/
def half : CRatT := ⟨1/2, 0⟩
/-- `i/2` -/
def halfI : CRatT := ⟨0, 1/2⟩

end CRatT

/-- finite sum over `Fin n`, first index first (`f 0 + (f 1 + …)`) -/
def fsum {α : Type} [Zero α] [Add α] : (n : Nat) → (Fin n → α) → α
  | 0, _ => 0
  | n + 1, f => f 0 + fsum n (fun i => f i.succ)

end Yaqs
