/-
  Gaussian rationals ℚ(i) for the dense MPS model (core Lean only, no Mathlib).

  Every binary64 number is a dyadic rational, so the tensors the implementation holds are elements of
  ℚ(i) and the model computes on them without rounding.  The ring laws are proved in
  `Lemmas/Mps.lean` (instance `CommRing CRat`), not here.

  Lives in its own namespace `Yaqs.Mps` so that it cannot clash with a shared `Basic/CRat.lean`.
-/
namespace Yaqs.Mps

structure CRat where
  re : Rat
  im : Rat
deriving DecidableEq, Repr, Inhabited

namespace CRat

def zero : CRat := ⟨0, 0⟩
def one : CRat := ⟨1, 0⟩
def add (a b : CRat) : CRat := ⟨a.re + b.re, a.im + b.im⟩
def neg (a : CRat) : CRat := ⟨-a.re, -a.im⟩
def sub (a b : CRat) : CRat := ⟨a.re - b.re, a.im - b.im⟩
def mul (a b : CRat) : CRat := ⟨a.re * b.re - a.im * b.im, a.re * b.im + a.im * b.re⟩
def conj (a : CRat) : CRat := ⟨a.re, -a.im⟩
def normSq (a : CRat) : Rat := a.re * a.re + a.im * a.im
def ofRat (q : Rat) : CRat := ⟨q, 0⟩

instance : Zero CRat := ⟨zero⟩
instance : One CRat := ⟨one⟩
instance : Add CRat := ⟨add⟩
instance : Neg CRat := ⟨neg⟩
instance : Sub CRat := ⟨sub⟩
instance : Mul CRat := ⟨mul⟩

end CRat
end Yaqs.Mps
