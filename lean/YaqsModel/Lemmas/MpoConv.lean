import YaqsModel.Model.MpoConv
import YaqsModel.Lemmas.Index
import Mathlib.Algebra.BigOperators.Ring.Finset
import Mathlib.Algebra.BigOperators.Fin
import Mathlib.Tactic.Ring
import Mathlib.Tactic.Linarith
import YaqsModel.Props.C09

/-! helper lemmas for `Model.MpoConv` (C07 extension): path sums, `to_matrix`, `to_sparse_matrix`, `from_matrix`,
    one step of a compression sweep -/
namespace Yaqs.MpoConv
open Yaqs.Index
open Finset

section semiring
variable {K : Type} [CommSemiring K]

theorem sumTo_eq_sum (n : Nat) (f : Nat → K) : sumTo n f = ∑ i ∈ range n, f i := by
  induction n with
  | zero => simp [sumTo]
  | succ n ih => rw [sumTo, ih, Finset.sum_range_succ]

theorem sumTo_congr (n : Nat) (f g : Nat → K) (h : ∀ i, i < n → f i = g i) : sumTo n f = sumTo n g := by
  rw [sumTo_eq_sum, sumTo_eq_sum]
  exact Finset.sum_congr rfl fun i hi => h i (Finset.mem_range.mp hi)

theorem sumTo_one (f : Nat → K) : sumTo 1 f = f 0 := by simp [sumTo]

theorem vals_cons (t : Site K) (ts : List (Site K)) (a b : Nat) (σ σ' : List Nat) (l : Nat) :
    vals (t :: ts) (a :: σ) (b :: σ') l = ∑ r ∈ range t.dr, t.e a b l r * vals ts σ σ' r := by
  simp [vals, sumTo_eq_sum]

/-! ### div / mod of a two-digit index -/

theorem mul_add_div' (i d a : Nat) (h : a < d) : (i * d + a) / d = i := by
  have hd : 0 < d := by omega
  rw [Nat.mul_comm, Nat.mul_add_div hd, Nat.div_eq_of_lt h]; rfl

theorem mul_add_mod' (i d a : Nat) (h : a < d) : (i * d + a) % d = a := by
  rw [Nat.mul_comm, Nat.mul_add_mod, Nat.mod_eq_of_lt h]

/-! ### `to_matrix` -/

/-- invariant of the loop of `to_matrix`: after the remaining tensors are absorbed, the entry at the extended
    row / column index is the old entry contracted with the path values of the remaining chain -/
theorem foldl_denseStep_entry : ∀ (ts : List (Site K)) (m : Acc K) (i j c : Nat) (σ σ' : List Nat),
    chainFrom m.dr ts = true → lastDr m.dr ts = 1 →
    Valid (physDims ts) σ → Valid (physDims ts) σ' →
    (ts.foldl denseStep m).e (kronIdxFrom i (physDims ts) σ) (kronIdxFrom j (physDims ts) σ') c 0
      = ∑ x ∈ range m.dr, m.e i j c x * vals ts σ σ' x
  | [], m, i, j, c, [], [], _, hl, _, _ => by
    simp only [lastDr] at hl
    simp [physDims, kronIdxFrom, vals, hl]
  | t :: ts, m, i, j, c, a :: σ, b :: σ', hc, hl, hv, hv' => by
    simp only [chainFrom, Bool.and_eq_true, decide_eq_true_eq] at hc
    simp only [physDims, List.map_cons] at hv hv'
    simp only [physDims, List.map_cons, List.foldl_cons, kronIdxFrom]
    have ih := foldl_denseStep_entry ts (denseStep m t) (i * t.d + a) (j * t.d + b) c σ σ' hc.2 hl hv.2 hv'.2
    simp only [physDims] at ih
    rw [ih]
    simp only [denseStep, sumTo_eq_sum, mul_add_div' _ _ _ hv.1, mul_add_div' _ _ _ hv'.1,
      mul_add_mod' _ _ _ hv.1, mul_add_mod' _ _ _ hv'.1]
    simp only [vals_cons, Finset.sum_mul, Finset.mul_sum]
    rw [Finset.sum_comm]
    apply Finset.sum_congr rfl; intro x _
    apply Finset.sum_congr rfl; intro g _
    ring
  | [], _, _, _, _, _ :: _, _, _, _, h, _ => absurd h (by simp [physDims, Valid])
  | [], _, _, _, _, [], _ :: _, _, _, _, h => absurd h (by simp [physDims, Valid])
  | _ :: _, _, _, _, _, [], _, _, _, h, _ => absurd h (by simp [physDims, Valid])
  | _ :: _, _, _, _, _, _ :: _, [], _, _, _, h => absurd h (by simp [physDims, Valid])

theorem foldl_denseStep_shape (ts : List (Site K)) (m : Acc K) :
    (ts.foldl denseStep m).rows = m.rows * dimProd (physDims ts) ∧
    (ts.foldl denseStep m).cols = m.cols * dimProd (physDims ts) ∧
    (ts.foldl denseStep m).dl = m.dl ∧ (ts.foldl denseStep m).dr = lastDr m.dr ts := by
  induction ts generalizing m with
  | nil => simp [physDims, dimProd, lastDr]
  | cons t ts ih =>
    simp only [List.foldl_cons, physDims, List.map_cons, dimProd, lastDr]
    obtain ⟨h1, h2, h3, h4⟩ := ih (denseStep m t)
    simp only [physDims] at h1 h2
    refine ⟨?_, ?_, ?_, ?_⟩
    · rw [h1]; simp [denseStep, Nat.mul_assoc]
    · rw [h2]; simp [denseStep, Nat.mul_assoc]
    · rw [h3]; rfl
    · rw [h4]; rfl

/-- **`to_matrix`, every length, any bond dimensions**: on a well-formed chain the code's contraction / reshape loop
    returns a matrix whose entry at `(kronIdx σ, kronIdx σ')` — site 0 the most significant digit — is the bond path sum -/
theorem toMatrixCode_entry (ts : List (Site K)) (σ σ' : List Nat) (hw : wellFormed ts = true)
    (hv : Valid (physDims ts) σ) (hv' : Valid (physDims ts) σ') :
    ∃ M, toMatrixCode ts = some M ∧ M.rows = dimProd (physDims ts) ∧ M.cols = dimProd (physDims ts) ∧
      M.e (kronIdx (physDims ts) σ) (kronIdx (physDims ts) σ') = toMatrixEntry ts σ σ' := by
  cases ts with
  | nil => simp [wellFormed] at hw
  | cons t ts =>
    cases σ with
    | nil => exact absurd hv (by simp [physDims, Valid])
    | cons a σ =>
      cases σ' with
      | nil => exact absurd hv' (by simp [physDims, Valid])
      | cons b σ' =>
        have hw' := hw
        simp only [wellFormed, Bool.and_eq_true, decide_eq_true_eq] at hw'
        obtain ⟨⟨h1, hc⟩, hl⟩ := hw'
        simp only [physDims, List.map_cons] at hv hv'
        refine ⟨⟨(denseAcc t ts).rows, (denseAcc t ts).cols, fun i j => (denseAcc t ts).e i j 0 0⟩,
          by simp only [toMatrixCode, hw, if_true], ?_, ?_, ?_⟩
        · exact (foldl_denseStep_shape ts (accOfSite t)).1
        · exact (foldl_denseStep_shape ts (accOfSite t)).2.1
        · have key := foldl_denseStep_entry ts (accOfSite t) a b 0 σ σ' hc hl hv.2 hv'.2
          simp only [physDims] at key
          simp only [denseAcc, physDims, List.map_cons, kronIdx, kronIdxFrom, Nat.zero_mul, Nat.zero_add, toMatrixEntry]
          rw [key, vals_cons]
          rfl

/-! ### `to_sparse_matrix` -/

section sparse
variable [DecidableEq K]

/-- the matrix stored under key `al`, zero when the key is absent -/
def spVal (c : SpAcc K) (al i j : Nat) : K := if c.present al then c.e al i j else 0

theorem blockZero_entry (t : Site K) (al be a b : Nat) (h : blockZero t al be = true) (ha : a < t.d) (hb : b < t.d) :
    t.e a b al be = 0 := by
  simp only [blockZero, List.all_eq_true, List.mem_range, decide_eq_true_eq] at h
  exact h a ha b hb

theorem contrib_false_term (c : SpAcc K) (t : Site K) (be al i j a b : Nat) (ha : a < t.d) (hb : b < t.d)
    (h : contrib c t be al = false) : spVal c al i j * t.e a b al be = 0 := by
  simp only [contrib, Bool.and_eq_false_iff, Bool.not_eq_false'] at h
  rcases h with h | h
  · simp [spVal, h]
  · rw [blockZero_entry t al be a b h ha hb, mul_zero]

/-- one tensor of the sparse loop: skipping absent keys and zero blocks does not change the sum -/
theorem spStep_val (c : SpAcc K) (t : Site K) (be i j : Nat) (hbe : be < t.dr) (hi : i % t.d < t.d) (hj : j % t.d < t.d) :
    spVal (spStep c t) be i j = ∑ al ∈ range t.dl, spVal c al (i / t.d) (j / t.d) * t.e (i % t.d) (j % t.d) al be := by
  unfold spVal
  simp only [spStep, hbe, decide_true, Bool.true_and, sumTo_eq_sum]
  by_cases hp : (List.range t.dl).any (contrib c t be) = true
  · rw [if_pos hp]
    apply Finset.sum_congr rfl
    intro al _
    by_cases hc : contrib c t be al = true
    · have : c.present al = true := by
        simp only [contrib, Bool.and_eq_true] at hc; exact hc.1
      simp [hc, this]
    · have hc' : contrib c t be al = false := by simpa using hc
      have := contrib_false_term c t be al (i / t.d) (j / t.d) _ _ hi hj hc'
      simp only [spVal] at this
      simp [hc', this]
  · rw [if_neg hp]
    symm
    apply Finset.sum_eq_zero
    intro al hal
    have hc' : contrib c t be al = false := by
      simp only [List.any_eq_true, List.mem_range, not_exists, not_and, Bool.not_eq_true] at hp
      exact hp al (Finset.mem_range.mp hal)
    have := contrib_false_term c t be al (i / t.d) (j / t.d) _ _ hi hj hc'
    simpa only [spVal] using this

/-- invariant of the loop of `to_sparse_matrix` (same shape as `foldl_denseStep_entry`) -/
theorem foldl_spStep_entry : ∀ (ts : List (Site K)) (c : SpAcc K) (n i j : Nat) (σ σ' : List Nat),
    chainFrom n ts = true → lastDr n ts = 1 →
    Valid (physDims ts) σ → Valid (physDims ts) σ' →
    spVal (ts.foldl spStep c) 0 (kronIdxFrom i (physDims ts) σ) (kronIdxFrom j (physDims ts) σ')
      = ∑ al ∈ range n, spVal c al i j * vals ts σ σ' al
  | [], c, n, i, j, [], [], _, hl, _, _ => by
    simp only [lastDr] at hl
    simp [physDims, kronIdxFrom, vals, hl]
  | t :: ts, c, n, i, j, a :: σ, b :: σ', hc, hl, hv, hv' => by
    simp only [chainFrom, Bool.and_eq_true, decide_eq_true_eq] at hc
    simp only [physDims, List.map_cons] at hv hv'
    simp only [lastDr] at hl
    simp only [physDims, List.map_cons, List.foldl_cons, kronIdxFrom]
    have ih := foldl_spStep_entry ts (spStep c t) t.dr (i * t.d + a) (j * t.d + b) σ σ' hc.2 hl hv.2 hv'.2
    simp only [physDims] at ih
    rw [ih, ← hc.1]
    have hstep : ∀ be ∈ range t.dr, spVal (spStep c t) be (i * t.d + a) (j * t.d + b) * vals ts σ σ' be
        = (∑ al ∈ range t.dl, spVal c al i j * t.e a b al be) * vals ts σ σ' be := by
      intro be hbe
      rw [spStep_val c t be _ _ (Finset.mem_range.mp hbe) (Nat.mod_lt _ (by have := hv.1; omega)) (Nat.mod_lt _ (by have := hv.1; omega)),
        mul_add_div' _ _ _ hv.1, mul_add_div' _ _ _ hv'.1, mul_add_mod' _ _ _ hv.1, mul_add_mod' _ _ _ hv'.1]
    rw [Finset.sum_congr rfl hstep]
    simp only [vals_cons, Finset.sum_mul, Finset.mul_sum]
    rw [Finset.sum_comm]
    apply Finset.sum_congr rfl; intro x _
    apply Finset.sum_congr rfl; intro g _
    ring
  | [], _, _, _, _, _ :: _, _, _, _, h, _ => absurd h (by simp [physDims, Valid])
  | [], _, _, _, _, [], _ :: _, _, _, _, h => absurd h (by simp [physDims, Valid])
  | _ :: _, _, _, _, _, [], _, _, _, h, _ => absurd h (by simp [physDims, Valid])
  | _ :: _, _, _, _, _, _ :: _, [], _, _, _, h => absurd h (by simp [physDims, Valid])

theorem foldl_spStep_shape (ts : List (Site K)) (c : SpAcc K) :
    (ts.foldl spStep c).rows = c.rows * dimProd (physDims ts) ∧
    (ts.foldl spStep c).cols = c.cols * dimProd (physDims ts) := by
  induction ts generalizing c with
  | nil => simp [physDims, dimProd]
  | cons t ts ih =>
    simp only [List.foldl_cons, physDims, List.map_cons, dimProd]
    obtain ⟨h1, h2⟩ := ih (spStep c t)
    simp only [physDims] at h1 h2
    exact ⟨by rw [h1]; simp [spStep, Nat.mul_assoc], by rw [h2]; simp [spStep, Nat.mul_assoc]⟩

/-- **`to_sparse_matrix`**: the entry at `(kronIdx σ, kronIdx σ')` of what the block-wise Kronecker accumulation returns
    is the bond path sum (the zero matrix returned when key 0 is absent included) -/
theorem toSparseCode_entry (pd len : Nat) (ts : List (Site K)) (σ σ' : List Nat) (hw : wellFormed ts = true)
    (hv : Valid (physDims ts) σ) (hv' : Valid (physDims ts) σ') :
    (toSparseCode pd len ts).e (kronIdx (physDims ts) σ) (kronIdx (physDims ts) σ') = toMatrixEntry ts σ σ' := by
  have hentry : ∀ i j, (toSparseCode pd len ts).e i j = spVal (spAcc ts) 0 i j := by
    intro i j
    unfold toSparseCode spVal
    by_cases hp : (spAcc ts).present 0 = true <;> simp [hp]
  rw [hentry]
  cases ts with
  | nil => simp [wellFormed] at hw
  | cons t ts =>
    simp only [wellFormed, Bool.and_eq_true, decide_eq_true_eq] at hw
    obtain ⟨⟨h1, hc⟩, hl⟩ := hw
    have hchain : chainFrom 1 (t :: ts) = true := by simp [chainFrom, h1, hc]
    have key := foldl_spStep_entry (t :: ts) spInit 1 0 0 σ σ' hchain (by simpa [lastDr] using hl) hv hv'
    simp only [spAcc, kronIdx]
    rw [key]
    simp [spVal, spInit, toMatrixEntry]

end sparse

/-! ### `from_matrix` -/

theorem two_digit_lt (a d b e : Nat) (ha : a < d) (hb : b < e) : a * e + b < d * e := by
  have : (a + 1) * e ≤ d * e := Nat.mul_le_mul_right _ ha
  nlinarith

omit [CommSemiring K] in
/-- the regrouping of step `k` read at a composite index: row `(a, b, l)`, column `(i, j)` -/
theorem fmX_apply (d lr rest : Nat) (rem : Rem K) (a b l i j : Nat) (hb : b < d) (hl : l < lr) (hj : j < rest) :
    fmX d lr rest rem ((a * d + b) * lr + l) (i * rest + j) = rem l (a * rest + i) (b * rest + j) := by
  simp only [fmX, mul_add_div' _ _ _ hl, mul_add_mod' _ _ _ hl, mul_add_div' _ _ _ hb, mul_add_mod' _ _ _ hb,
    mul_add_div' _ _ _ hj, mul_add_mod' _ _ _ hj]

/-- SVD spec as far as the exact round trip needs it: at every step the kept columns / values / rows reconstruct the
    matrix that was handed to `np.linalg.svd` (`x = u[:, :r] · diag(s[:r]) · vh[:r]`; nothing but zeros was cut) -/
def ExactDecs (d : Nat) (cutoff : Rat) (maxB : Option Nat) : Nat → Nat → Rem K → List (Dec K) → Prop
  | 0, _, _, _ => True
  | m + 1, lr, rem, dec :: decs =>
    (∀ i, i < d * d * lr → ∀ j, j < d ^ (m + 1) * d ^ (m + 1) →
      fmX d lr (d ^ (m + 1)) rem i j
        = ∑ p ∈ range (Rank.keepFromMatrix dec.s cutoff maxB), dec.U i p * (dec.sv p * dec.Vh p j)) ∧
    ExactDecs d cutoff maxB m (Rank.keepFromMatrix dec.s cutoff maxB) (fmRem (d ^ (m + 1)) dec.sv dec.Vh) decs
  | _ + 1, _, _, [] => False

/-- induction over the splitting steps: each step is "regroup ∘ (U·S·V) ∘ regroup⁻¹ = id" on the remainder -/
theorem fromMatrixGo_vals (d : Nat) (cutoff : Rat) (maxB : Option Nat) :
    ∀ (m lr : Nat) (rem : Rem K) (decs : List (Dec K)) (σ σ' : List Nat),
    ExactDecs d cutoff maxB m lr rem decs →
    Valid (List.replicate (m + 1) d) σ → Valid (List.replicate (m + 1) d) σ' → ∀ l, l < lr →
    vals (fromMatrixGo d cutoff maxB m lr rem decs) σ σ' l
      = rem l (kronIdx (List.replicate (m + 1) d) σ) (kronIdx (List.replicate (m + 1) d) σ')
  | 0, lr, rem, decs, [a], [b], _, _, _, l, _ => by
    simp [fromMatrixGo, vals, fmLast, sumTo_one, kronIdx, kronIdxFrom]
  | m + 1, lr, rem, dec :: decs, a :: σ, b :: σ', hx, hv, hv', l, hl => by
    rw [List.replicate_succ] at hv hv' ⊢
    obtain ⟨hspec, hrest⟩ := hx
    have ih := fromMatrixGo_vals d cutoff maxB m (Rank.keepFromMatrix dec.s cutoff maxB)
      (fmRem (d ^ (m + 1)) dec.sv dec.Vh) decs σ σ' hrest hv.2 hv'.2
    have hk := kronIdx_lt hv.2
    have hk' := kronIdx_lt hv'.2
    rw [dimProd_replicate] at hk hk'
    rw [kronIdx_cons _ _ hv.2, kronIdx_cons _ _ hv'.2, dimProd_replicate]
    simp only [fromMatrixGo, vals_cons, fmSite]
    have hsum : ∀ p ∈ range (Rank.keepFromMatrix dec.s cutoff maxB),
        dec.U ((a * d + b) * lr + l) p * vals (fromMatrixGo d cutoff maxB m (Rank.keepFromMatrix dec.s cutoff maxB)
          (fmRem (d ^ (m + 1)) dec.sv dec.Vh) decs) σ σ' p
        = dec.U ((a * d + b) * lr + l) p * (dec.sv p * dec.Vh p
          (kronIdx (List.replicate (m + 1) d) σ * d ^ (m + 1) + kronIdx (List.replicate (m + 1) d) σ')) := by
      intro p hp
      rw [ih p (Finset.mem_range.mp hp)]
      rfl
    rw [Finset.sum_congr rfl hsum, ← hspec _ (by
        have := two_digit_lt (a * d + b) (d * d) l lr (two_digit_lt a d b d hv.1 hv'.1) hl
        exact this) _ (two_digit_lt _ _ _ _ hk hk'),
      fmX_apply d lr _ rem a b l _ _ hv'.1 hl hk']
  | 0, _, _, _, [], _, _, h, _, _, _ => absurd h (by simp [Valid])
  | 0, _, _, _, _ :: _ :: _, _, _, h, _, _, _ => absurd h (by simp [Valid])
  | 0, _, _, _, [_], [], _, _, h, _, _ => absurd h (by simp [Valid])
  | 0, _, _, _, [_], _ :: _ :: _, _, _, h, _, _ => absurd h (by simp [Valid])
  | _ + 1, _, _, [], _, _, h, _, _, _, _ => absurd h (by simp [ExactDecs])
  | _ + 1, _, _, _ :: _, [], _, _, h, _, _, _ => absurd h (by simp [List.replicate_succ, Valid])
  | _ + 1, _, _, _ :: _, _ :: _, [], _, _, h, _, _ => absurd h (by simp [List.replicate_succ, Valid])

theorem findPow_some (d rows : Nat) : ∀ (fuel k n : Nat), findPow d rows fuel k = some n → d ^ n = rows ∧ k ≤ n
  | 0, _, _, h => by simp [findPow] at h
  | fuel + 1, k, n, h => by
    simp only [findPow] at h
    split at h
    · rename_i he
      simp only [Option.some.injEq] at h
      subst h
      exact ⟨he, le_refl _⟩
    · split at h
      · simp at h
      · have := findPow_some d rows fuel (k + 1) n h
        exact ⟨this.1, by omega⟩

theorem findPow_complete (d rows : Nat) (hd : 2 ≤ d) : ∀ (fuel k n : Nat), k ≤ n → n - k < fuel → d ^ n = rows →
    findPow d rows fuel k = some n
  | 0, _, _, _, h, _ => by omega
  | fuel + 1, k, n, hk, hf, he => by
    simp only [findPow]
    by_cases h1 : d ^ k = rows
    · rw [if_pos h1]
      have : k = n := Nat.pow_right_injective hd (h1.trans he.symm)
      rw [this]
    · rw [if_neg h1]
      have hlt : k < n := by
        rcases Nat.lt_or_ge k n with h | h
        · exact h
        · exfalso; apply h1; rw [show k = n by omega]; exact he
      have hle : d ^ k ≤ rows := he ▸ Nat.pow_le_pow_right (by omega) hk
      rw [if_neg (by omega)]
      exact findPow_complete d rows hd fuel (k + 1) n hlt (by omega) he

/-- `from_matrix` accepts exactly the square matrices of side `d ^ n`, `n ≥ 1` (for `d = 1`: the `1 × 1` matrix) -/
theorem inferN_eq_some_iff (d rows cols n : Nat) :
    inferN d rows cols = some n ↔ 1 ≤ d ∧ rows = cols ∧ 1 ≤ n ∧ rows = d ^ n ∧ (d = 1 → n = 1) := by
  unfold inferN
  by_cases h0 : d = 0
  · simp [h0]
  by_cases hsq : rows = cols
  swap
  · simp [h0, hsq]
  by_cases h1 : d = 1
  · subst h1
    by_cases hr : rows = 1
    · simp [hr, ← hsq]
      constructor
      · intro h; subst h; simp
      · intro h; exact h.2.symm
    · simp [hr, ← hsq]
  · have hd : 2 ≤ d := by omega
    simp only [h0, if_false, hsq, ne_eq, not_true_eq_false, h1]
    constructor
    · intro h
      have := findPow_some d cols _ _ _ h
      exact ⟨by omega, trivial, this.2, this.1.symm, fun h => h.elim⟩
    · rintro ⟨_, _, hn, he, _⟩
      apply findPow_complete d cols hd _ _ _ hn _ he.symm
      have : n < d ^ n := Nat.lt_pow_self (by omega)
      omega

/-! ### one step of a compression sweep -/

omit [CommSemiring K] in
theorem lastDr_append (n : Nat) (xs ys : List (Site K)) : lastDr n (xs ++ ys) = lastDr (lastDr n xs) ys := by
  induction xs generalizing n with
  | nil => rfl
  | cons t ts ih => simp only [List.cons_append, lastDr]; exact ih t.dr

omit [CommSemiring K] in
theorem chainFrom_append (n : Nat) (xs ys : List (Site K)) :
    chainFrom n (xs ++ ys) = (chainFrom n xs && chainFrom (lastDr n xs) ys) := by
  induction xs generalizing n with
  | nil => simp [chainFrom, lastDr]
  | cons t ts ih => simp only [List.cons_append, chainFrom, lastDr, ih t.dr, Bool.and_assoc]

/-- gauge argument (the list-model analogue of C10's `two_site_replace`): replacing two neighbouring tensors by two
    others with the same two-site contraction (at the physical indices the configuration selects, for every left bond
    index the chain can reach and every right bond index) leaves every path value unchanged -/
theorem vals_two_site_replace (a b a' b' : Site K) (post : List (Site K)) (hdr : b'.dr = b.dr) :
    ∀ (pre : List (Site K)) (σ σ' : List Nat) (n : Nat), lastDr n pre = a.dl →
    (∀ l, l < a.dl → ∀ w, w < b.dr →
      ∑ r ∈ range a.dr, a.e ((σ.drop pre.length).headD 0) ((σ'.drop pre.length).headD 0) l r
          * b.e ((σ.drop (pre.length + 1)).headD 0) ((σ'.drop (pre.length + 1)).headD 0) r w
        = ∑ p ∈ range a'.dr, a'.e ((σ.drop pre.length).headD 0) ((σ'.drop pre.length).headD 0) l p
          * b'.e ((σ.drop (pre.length + 1)).headD 0) ((σ'.drop (pre.length + 1)).headD 0) p w) →
    ∀ l, l < n → vals (pre ++ a :: b :: post) σ σ' l = vals (pre ++ a' :: b' :: post) σ σ' l
  | [], σ, σ', n, hn, h, l, hl => by
    simp only [lastDr] at hn
    subst hn
    simp only [List.nil_append, vals, sumTo_eq_sum, List.length_nil, List.drop_zero, Nat.zero_add, List.drop_one] at h ⊢
    simp only [Finset.mul_sum, hdr]
    rw [Finset.sum_comm, Finset.sum_comm (s := range a'.dr)]
    apply Finset.sum_congr rfl
    intro w hw
    have := h l hl w (Finset.mem_range.mp hw)
    simp only [← mul_assoc, ← Finset.sum_mul, this]
  | t :: pre, σ, σ', n, hn, h, l, _ => by
    simp only [lastDr] at hn
    simp only [List.cons_append, vals, sumTo_eq_sum]
    apply Finset.sum_congr rfl
    intro r hr
    congr 1
    apply vals_two_site_replace a b a' b' post hdr pre σ.tail σ'.tail t.dr hn _ r (Finset.mem_range.mp hr)
    intro l hl w hw
    have e : ∀ (τ : List Nat) (k : Nat), List.drop k τ.tail = List.drop (k + 1) τ := by
      intro τ k; cases τ <;> simp
    have := h l hl w hw
    simpa only [List.length_cons, e] using this

/-- where `compressStep` writes: the two tensors of the bond, nothing else -/
theorem compressStep_append (tol : Rat) (maxB : Option Nat) (pre post : List (Site K)) (a b : Site K) (dec : Dec K) :
    compressStep tol maxB (pre ++ a :: b :: post) pre.length dec
      = pre ++ cLeft a (Rank.keepCompress dec.s tol maxB) dec.U
          :: cRight a b (Rank.keepCompress dec.s tol maxB) dec.sv dec.Vh :: post := by
  unfold compressStep
  have h1 : (pre ++ a :: b :: post)[pre.length]? = some a := by simp
  have h2 : (pre ++ a :: b :: post)[pre.length + 1]? = some b := by
    rw [List.getElem?_append_right (by omega)]; simp
  rw [h1, h2]
  simp

/-- the two-site block at a composite index -/
theorem theta_apply (a b : Site K) (l s t u v w : Nat) (hs : s < a.d) (ht : t < a.d) (hv : v < a.d) (hw : w < b.dr) :
    theta a b ((l * a.d + s) * a.d + t) ((u * a.d + v) * b.dr + w)
      = ∑ r ∈ range a.dr, a.e s t l r * b.e u v r w := by
  simp only [theta, sumTo_eq_sum, mul_add_div' _ _ _ ht, mul_add_mod' _ _ _ ht, mul_add_div' _ _ _ hs,
    mul_add_mod' _ _ _ hs, mul_add_div' _ _ _ hw, mul_add_mod' _ _ _ hw, mul_add_div' _ _ _ hv, mul_add_mod' _ _ _ hv]

/-- the two-site block of the tensors a compression step writes back is `u[:, :keep] · diag(s[:keep]) · vh[:keep]`
    (no hypothesis: pure index arithmetic of the two reshapes) -/
theorem theta_new (a b : Site K) (keep : Nat) (U Vh : Nat → Nat → K) (sv : Nat → K) (i j : Nat) :
    theta (cLeft a keep U) (cRight a b keep sv Vh) i j = ∑ p ∈ range keep, U i p * (sv p * Vh p j) := by
  simp only [theta, cLeft, cRight, sumTo_eq_sum]
  apply Finset.sum_congr rfl
  intro p _
  have h1 : (i / a.d / a.d * a.d + i / a.d % a.d) * a.d + i % a.d = i := by
    rw [Nat.div_add_mod' (i / a.d) a.d, Nat.div_add_mod' i a.d]
  have h2 : (j / b.dr / a.d * a.d + j / b.dr % a.d) * b.dr + j % b.dr = j := by
    rw [Nat.div_add_mod' (j / b.dr) a.d, Nat.div_add_mod' j b.dr]
  rw [h1, h2]

/-- **one SVD step of a compression sweep, untruncated spec**: if the kept columns / values / rows reconstruct the
    two-site matrix that was handed to `np.linalg.svd`, the path sum at every valid configuration pair is unchanged -/
theorem compressStep_vals (tol : Rat) (maxB : Option Nat) (pre post : List (Site K)) (a b : Site K) (dec : Dec K)
    (hd : b.d = a.d)
    (hspec : ∀ i, i < a.dl * a.d * a.d → ∀ j, j < a.d * a.d * b.dr →
      theta a b i j = ∑ p ∈ range (Rank.keepCompress dec.s tol maxB), dec.U i p * (dec.sv p * dec.Vh p j))
    (σ σ' : List Nat) (hv : Valid (physDims (pre ++ a :: b :: post)) σ) (hv' : Valid (physDims (pre ++ a :: b :: post)) σ')
    (n : Nat) (hn : lastDr n pre = a.dl) (l : Nat) (hl : l < n) :
    vals (compressStep tol maxB (pre ++ a :: b :: post) pre.length dec) σ σ' l
      = vals (pre ++ a :: b :: post) σ σ' l := by
  rw [compressStep_append]
  symm
  apply vals_two_site_replace a b (cLeft a (Rank.keepCompress dec.s tol maxB) dec.U)
    (cRight a b (Rank.keepCompress dec.s tol maxB) dec.sv dec.Vh) post rfl pre σ σ' n hn _ l hl
  intro l hl w hw
  -- the physical digits the configuration selects at the two sites are in range
  have hdig : ∀ (ds τ : List Nat) (k : Nat), Valid ds τ → k < ds.length → (τ.drop k).headD 0 < ds.getD k 0 := by
    intro ds
    induction ds with
    | nil => intro τ k _ hk; simp at hk
    | cons d ds ih =>
      intro τ k hτ hk
      cases τ with
      | nil => exact absurd hτ (by simp [Valid])
      | cons x τ =>
        cases k with
        | zero => simpa using hτ.1
        | succ k =>
          simp only [List.drop_succ_cons, List.getD_cons_succ]
          exact ih τ k hτ.2 (by simpa using hk)
  have hlen : pre.length + 1 < (physDims (pre ++ a :: b :: post)).length := by simp [physDims]
  have g0 : (physDims (pre ++ a :: b :: post)).getD pre.length 0 = a.d := by
    simp [physDims, List.getD_eq_getElem?_getD]
  have g1 : (physDims (pre ++ a :: b :: post)).getD (pre.length + 1) 0 = a.d := by
    simp only [physDims, List.map_append, List.map_cons, List.getD_eq_getElem?_getD]
    rw [List.getElem?_append_right (by simp)]
    simp [hd]
  have s0 := hdig _ σ pre.length hv (by omega)
  have t0 := hdig _ σ' pre.length hv' (by omega)
  have u0 := hdig _ σ (pre.length + 1) hv hlen
  have v0 := hdig _ σ' (pre.length + 1) hv' hlen
  rw [g0] at s0 t0
  rw [g1] at u0 v0
  rw [← theta_apply a b l _ _ _ _ w s0 t0 v0 hw,
    hspec _ (two_digit_lt _ _ _ _ (two_digit_lt _ _ _ _ hl s0) t0) _ (two_digit_lt _ _ _ _ (two_digit_lt _ _ _ _ u0 v0) hw)]
  simp only [cLeft, cRight]

/-! ### shapes after a sweep -/

omit [CommSemiring K] in
theorem bondDims_append_two (pre post : List (Site K)) (a b : Site K) :
    bondDims (pre ++ a :: b :: post)
      = (match pre with | [] => a.dl | t :: _ => t.dl) :: (pre.map (·.dr) ++ a.dr :: b.dr :: post.map (·.dr)) := by
  cases pre <;> simp [bondDims]

/-- a step at bond `(k, k+1)` changes exactly entry `k + 1` of the bond vector, to `keepCompress` of the spectrum -/
theorem compressStep_bondDims (tol : Rat) (maxB : Option Nat) (pre post : List (Site K)) (a b : Site K) (dec : Dec K) :
    bondDims (compressStep tol maxB (pre ++ a :: b :: post) pre.length dec)
      = (bondDims (pre ++ a :: b :: post)).set (pre.length + 1) (Rank.keepCompress dec.s tol maxB) := by
  rw [compressStep_append, bondDims_append_two, bondDims_append_two]
  simp only [cLeft, cRight, List.set_cons_succ]
  rw [List.set_append]
  cases pre <;> simp

/-- a step keeps the chain valid (`check_if_valid_mpo`), the physical dimensions and the length -/
theorem compressStep_chain (tol : Rat) (maxB : Option Nat) (pre post : List (Site K)) (a b : Site K) (dec : Dec K) (n : Nat)
    (h : chainFrom n (pre ++ a :: b :: post) = true) :
    chainFrom n (compressStep tol maxB (pre ++ a :: b :: post) pre.length dec) = true ∧
    lastDr n (compressStep tol maxB (pre ++ a :: b :: post) pre.length dec) = lastDr n (pre ++ a :: b :: post) := by
  rw [compressStep_append]
  simp only [chainFrom_append, chainFrom, lastDr_append, lastDr, cLeft, cRight, Bool.and_eq_true, decide_eq_true_eq] at h ⊢
  exact ⟨⟨h.1, h.2.1, trivial, h.2.2.2⟩, trivial⟩

omit [CommSemiring K] in
theorem split_at (ts : List (Site K)) (k : Nat) (hk : k + 1 < ts.length) :
    ∃ pre a b post, ts = pre ++ a :: b :: post ∧ pre.length = k := by
  refine ⟨ts.take k, ts[k], ts[k + 1], ts.drop (k + 2), ?_, by simp; omega⟩
  conv_lhs => rw [← List.take_append_drop k ts]
  rw [List.drop_eq_getElem_cons (by omega), List.drop_eq_getElem_cons (by omega)]

theorem compressStep_length (tol : Rat) (maxB : Option Nat) (ts : List (Site K)) (k : Nat) (dec : Dec K) :
    (compressStep tol maxB ts k dec).length = ts.length := by
  unfold compressStep
  split <;> simp

omit [CommSemiring K] in
theorem bondDims_length (ts : List (Site K)) (h : ts ≠ []) : (bondDims ts).length = ts.length + 1 := by
  cases ts with
  | nil => exact absurd rfl h
  | cons t ts => simp [bondDims]

/-- a whole sweep (any list of bonds, each in range) keeps the chain valid, the outer bond and the length -/
theorem compressFold_chain (tol : Rat) (maxB : Option Nat) : ∀ (ks : List Nat) (decs : List (Dec K)) (ts : List (Site K)) (n : Nat),
    chainFrom n ts = true → (∀ k ∈ ks, k + 1 < ts.length) →
    chainFrom n (compressFold tol maxB ts ks decs) = true ∧
    lastDr n (compressFold tol maxB ts ks decs) = lastDr n ts ∧
    (compressFold tol maxB ts ks decs).length = ts.length
  | [], _, ts, n, h, _ => by simp [compressFold, h]
  | _ :: _, [], ts, n, h, _ => by simp [compressFold, h]
  | k :: ks, dec :: decs, ts, n, h, hk => by
    simp only [compressFold]
    obtain ⟨pre, a, b, post, rfl, hlen⟩ := split_at ts k (hk k (by simp))
    subst hlen
    obtain ⟨h1, h2⟩ := compressStep_chain tol maxB pre post a b dec n h
    have hl := compressStep_length tol maxB (pre ++ a :: b :: post) pre.length dec
    obtain ⟨i1, i2, i3⟩ := compressFold_chain tol maxB ks decs
      (compressStep tol maxB (pre ++ a :: b :: post) pre.length dec) n h1 (fun k' hk' => by rw [hl]; exact hk k' (by simp [hk']))
    exact ⟨i1, i2.trans h2, i3.trans hl⟩

/-- bond vector after a sweep: entry `i` is `keepCompress` of the spectrum of the SVD call made at bond `i - 1`
    (each bond is visited at most once), every other entry is untouched -/
theorem compressFold_bondDims (tol : Rat) (maxB : Option Nat) : ∀ (ks : List Nat) (decs : List (Dec K)) (ts : List (Site K)),
    ks.Nodup → (∀ k ∈ ks, k + 1 < ts.length) → ∀ i,
    (bondDims (compressFold tol maxB ts ks decs)).getD i 0 =
      match (ks.zip decs).find? (fun kd => kd.1 + 1 = i) with
      | some kd => Rank.keepCompress kd.2.s tol maxB
      | none => (bondDims ts).getD i 0
  | [], _, ts, _, _, i => by simp [compressFold]
  | _ :: _, [], ts, _, _, i => by simp [compressFold]
  | k :: ks, dec :: decs, ts, hnd, hk, i => by
    simp only [compressFold]
    rw [List.nodup_cons] at hnd
    obtain ⟨pre, a, b, post, rfl, hlen⟩ := split_at ts k (hk k (by simp))
    subst hlen
    have hl := compressStep_length tol maxB (pre ++ a :: b :: post) pre.length dec
    rw [compressFold_bondDims tol maxB ks decs (compressStep tol maxB (pre ++ a :: b :: post) pre.length dec) hnd.2 (fun k' hk' => by rw [hl]; exact hk k' (by simp [hk'])) i,
      compressStep_bondDims]
    simp only [List.zip_cons_cons, List.find?_cons]
    by_cases hi : pre.length + 1 = i
    · subst hi
      have hnone : (ks.zip decs).find? (fun kd => decide (kd.1 + 1 = pre.length + 1)) = none := by
        rw [List.find?_eq_none]
        intro kd hkd
        have := (List.of_mem_zip hkd).1
        simp only [decide_eq_true_eq]
        intro hc
        exact hnd.1 ((show kd.1 = pre.length by omega) ▸ this)
      have hb : pre.length + 1 < (bondDims (pre ++ a :: b :: post)).length := by
        rw [bondDims_length _ (by simp)]; simp
      rw [hnone]
      simp [List.getD_eq_getElem?_getD, hb]
    · have hne : ¬ (pre.length + 1 = i) := hi
      simp only [hne, decide_false]
      cases (ks.zip decs).find? (fun kd => decide (kd.1 + 1 = i)) with
      | some kd => rfl
      | none => simp [List.getD_eq_getElem?_getD, hne]

omit [CommSemiring K] in
/-- the `j`-th SVD call of a sweep is the one found for its bond -/
theorem find_zip_nodup {β : Type} : ∀ (ks : List Nat) (ds : List β) (j : Nat) (hj : j < ks.length) (hj' : j < ds.length),
    ks.Nodup → (ks.zip ds).find? (fun kd => kd.1 + 1 = ks[j] + 1) = some (ks[j], ds[j])
  | k :: ks, d :: ds, 0, _, _, _ => by simp
  | k :: ks, d :: ds, j + 1, hj, hj', hnd => by
    rw [List.nodup_cons] at hnd
    have hjk : j < ks.length := by simpa using hj
    have hne : decide (k + 1 = ks[j] + 1) = false := by
      simp only [decide_eq_false_iff_not]
      intro h
      exact hnd.1 ((show k = ks[j] by omega) ▸ List.getElem_mem hjk)
    simp only [List.zip_cons_cons, List.find?_cons, List.getElem_cons_succ, hne]
    exact find_zip_nodup ks ds j hjk (by simpa using hj') hnd.2

/-- untruncated SVD spec along a whole sweep: at every step the tensors of the bond exist, have the same physical
    dimension, and the kept part of the decomposition reconstructs the two-site matrix handed to `np.linalg.svd` -/
def ExactSweep (tol : Rat) (maxB : Option Nat) : List (Site K) → List Nat → List (Dec K) → Prop
  | ts, k :: ks, dec :: decs =>
    (∃ a b, ts[k]? = some a ∧ ts[k + 1]? = some b ∧ b.d = a.d ∧
      ∀ i, i < a.dl * a.d * a.d → ∀ j, j < a.d * a.d * b.dr →
        theta a b i j = ∑ p ∈ range (Rank.keepCompress dec.s tol maxB), dec.U i p * (dec.sv p * dec.Vh p j)) ∧
    ExactSweep tol maxB (compressStep tol maxB ts k dec) ks decs
  | _, _, _ => True

theorem compressStep_physDims (tol : Rat) (maxB : Option Nat) (pre post : List (Site K)) (a b : Site K) (dec : Dec K)
    (hd : b.d = a.d) :
    physDims (compressStep tol maxB (pre ++ a :: b :: post) pre.length dec) = physDims (pre ++ a :: b :: post) := by
  rw [compressStep_append]
  simp [physDims, cLeft, cRight, hd]

/-- **whole sweep, untruncated spec**: the path sums (hence every matrix entry) are unchanged -/
theorem compressFold_vals (tol : Rat) (maxB : Option Nat) : ∀ (ks : List Nat) (decs : List (Dec K)) (ts : List (Site K))
    (n : Nat) (σ σ' : List Nat), chainFrom n ts = true → ExactSweep tol maxB ts ks decs →
    Valid (physDims ts) σ → Valid (physDims ts) σ' → ∀ l, l < n →
    vals (compressFold tol maxB ts ks decs) σ σ' l = vals ts σ σ' l
  | [], _, ts, _, _, _, _, _, _, _, _, _ => by simp [compressFold]
  | _ :: _, [], ts, _, _, _, _, _, _, _, _, _ => by simp [compressFold]
  | k :: ks, dec :: decs, ts, n, σ, σ', hc, hx, hv, hv', l, hl => by
    simp only [compressFold]
    obtain ⟨⟨a, b, ha, hb, hd, hspec⟩, hrest⟩ := hx
    have hk : k + 1 < ts.length := by
      rcases Nat.lt_or_ge (k + 1) ts.length with h | h
      · exact h
      · rw [List.getElem?_eq_none h] at hb; exact absurd hb (by simp)
    obtain ⟨pre, a', b', post, rfl, hlen⟩ := split_at ts k hk
    subst hlen
    have ea : a' = a := by simpa using ha
    have eb : b' = b := by
      rw [List.getElem?_append_right (by omega)] at hb
      simpa using hb
    subst ea eb
    have hc' := hc
    rw [chainFrom_append] at hc'
    simp only [chainFrom, Bool.and_eq_true, decide_eq_true_eq] at hc'
    have hn : lastDr n pre = a'.dl := hc'.2.1.symm
    obtain ⟨h1, _⟩ := compressStep_chain tol maxB pre post a' b' dec n hc
    have hp := compressStep_physDims tol maxB pre post a' b' dec hd
    rw [compressFold_vals tol maxB ks decs (compressStep tol maxB (pre ++ a' :: b' :: post) pre.length dec) n σ σ' h1 hrest
      (hp ▸ hv) (hp ▸ hv') l hl]
    exact compressStep_vals tol maxB pre post a' b' dec hd hspec σ σ' hv hv' n hn l hl

omit [CommSemiring K] in
theorem sweepOrder_nodup (dir : Dir) (L : Nat) : (sweepOrder dir L).Nodup := by
  cases dir <;> simp [sweepOrder, List.nodup_range]

omit [CommSemiring K] in
theorem sweepOrder_mem (dir : Dir) (L k : Nat) (h : k ∈ sweepOrder dir L) : k + 1 < L := by
  cases dir <;> simp [sweepOrder] at h <;> omega

end semiring

/-! ### truncation error (Mathlib matrices; the SVD enters as the spec of `Lemmas/SplitAlgebra`, C09) -/

section ring
open Matrix Yaqs.Split
variable {K : Type} [CommRing K] [StarRing K]

/-- a Nat-indexed array read as a Mathlib matrix of the given shape -/
def toMat (R C : Nat) (f : Nat → Nat → K) : Matrix (Fin R) (Fin C) K := fun i j => f i j

theorem frobSq_add_of_orth {m n : Type} [Fintype m] [Fintype n] (A B : Matrix m n K) (h : Aᴴ * B = 0) :
    frobSq (A + B) = frobSq A + frobSq B := by
  have h' : Bᴴ * A = 0 := by
    have := congrArg conjTranspose h
    simpa [conjTranspose_mul] using this
  unfold frobSq
  rw [conjTranspose_add, Matrix.add_mul, Matrix.mul_add, Matrix.mul_add, h, h']
  simp [trace_add]

theorem frobSq_isometry_mul {m n k : Type} [Fintype m] [Fintype n] [Fintype k] [DecidableEq k]
    (Q : Matrix m k K) (hQ : Qᴴ * Q = 1) (Y : Matrix k n K) : frobSq (Q * Y) = frobSq Y := by
  unfold frobSq
  rw [conjTranspose_mul, Matrix.mul_assoc, ← Matrix.mul_assoc Qᴴ, hQ, Matrix.one_mul]

/-- **one splitting step followed by any further approximation of the remainder**: from the SVD spec
    `X = U diag(s) V`, `UᴴU = 1`, `VVᴴ = 1`, keeping the columns selected by the injection `e` and replacing the exact
    remainder `(diag(s) V)[kept rows]` by any `Rt` costs exactly the discarded weight plus the error made on the
    remainder — the already fixed left factor is an isometry and the two error parts are orthogonal. -/
theorem split_then_approx_error {m n k k' : Type} [Fintype m] [Fintype n] [Fintype k] [Fintype k']
    [DecidableEq k] [DecidableEq k'] (U : Matrix m k K) (V : Matrix k n K) (s : k → K)
    (hU : Uᴴ * U = 1) (hV : V * Vᴴ = 1) (e : k' → k) (he : Function.Injective e)
    (kept : k → Prop) [DecidablePred kept] (hk : ∀ i, kept i ↔ ∃ j, e j = i) (Rt : Matrix k' n K) :
    frobSq (U * diagonal s * V - U.submatrix id e * Rt)
      = (∑ i, if kept i then 0 else star (s i) * s i) + frobSq ((diagonal s * V).submatrix e id - Rt) := by
  have hUk : U * diagonal (maskKept kept s) * V = U.submatrix id e * (diagonal s * V).submatrix e id := by
    ext a c
    rw [Matrix.mul_apply, Matrix.mul_apply]
    symm
    apply Fintype.sum_of_injective e he
    · intro i hi
      have : ¬ kept i := fun hc => hi ((hk i).mp hc)
      simp [Matrix.mul_diagonal, maskKept, this]
    · intro j
      have : kept (e j) := (hk _).mpr ⟨j, rfl⟩
      simp [Matrix.mul_diagonal, Matrix.diagonal_mul, maskKept, this, mul_assoc]
  have hsplit : U * diagonal s * V - U.submatrix id e * Rt
      = U * diagonal (maskDropped kept s) * V + U.submatrix id e * ((diagonal s * V).submatrix e id - Rt) := by
    rw [← sub_masked U V s kept, hUk, Matrix.mul_sub]
    exact (sub_add_sub_cancel _ _ _).symm
  have hiso := isometry_submatrix U hU e he
  have horth : (U * diagonal (maskDropped kept s) * V)ᴴ * (U.submatrix id e * ((diagonal s * V).submatrix e id - Rt)) = 0 := by
    have h1 : (diagonal (maskDropped kept s))ᴴ * (Uᴴ * U.submatrix id e) = 0 := by
      have : Uᴴ * U.submatrix id e = (Uᴴ * U).submatrix id e := by
        ext i j; simp [Matrix.mul_apply, Matrix.submatrix_apply]
      rw [this, hU, diagonal_conjTranspose]
      ext i j
      simp only [Matrix.diagonal_mul, Matrix.submatrix_apply, id_eq, Matrix.one_apply, Matrix.zero_apply, Pi.star_apply]
      by_cases hij : i = e j
      · have : kept i := (hk _).mpr ⟨j, hij.symm⟩
        simp [maskDropped, this]
      · simp [hij]
    simp only [conjTranspose_mul, Matrix.mul_assoc]
    rw [← Matrix.mul_assoc Uᴴ, ← Matrix.mul_assoc (diagonal (maskDropped kept s))ᴴ, h1]
    simp
  rw [hsplit, frobSq_add_of_orth _ _ horth, frobSq_isometry_mul _ hiso, ← sub_masked U V s kept,
    c09_split_error U V s hU hV kept]

omit [StarRing K] in
/-- a prefix-truncated product `u[:, :keep] · diag(s[:keep]) · vh[:keep]` as a masked full product -/
theorem toMat_truncated (R C kf keep : Nat) (hkeep : keep ≤ kf) (U Vh : Nat → Nat → K) (sv : Nat → K) :
    toMat R C (fun i j => ∑ p ∈ Finset.range keep, U i p * (sv p * Vh p j))
      = toMat R kf U * diagonal (maskKept (fun p : Fin kf => (p : Nat) < keep) (fun p : Fin kf => sv p)) * toMat kf C Vh := by
  ext i j
  rw [Matrix.mul_apply]
  simp only [Matrix.mul_diagonal]
  simp only [toMat, maskKept]
  rw [Fin.sum_univ_eq_sum_range (fun p => U i p * (if p < keep then sv p else 0) * Vh p j) kf]
  rw [← Finset.sum_subset (Finset.range_subset_range.mpr hkeep)]
  · apply Finset.sum_congr rfl
    intro p hp
    simp [Finset.mem_range.mp hp, mul_assoc]
  · intro p _ hp
    have : ¬ p < keep := fun h => hp (Finset.mem_range.mpr h)
    simp [this]

/-- **one SVD step of a compression sweep, with truncation**: from the SVD spec of the two-site matrix, the two-site block
    of the tensors written back differs from the old one by exactly the discarded singular weight (C09 `c09_split_error`
    applied to the reshape `theta`) -/
theorem compressStep_block_error (a b : Site K) (dec : Dec K) (kf keep : Nat) (hkeep : keep ≤ kf)
    (hspec : toMat (a.dl * a.d * a.d) (a.d * a.d * b.dr) (theta a b)
      = toMat (a.dl * a.d * a.d) kf dec.U * diagonal (fun p : Fin kf => dec.sv p) * toMat kf (a.d * a.d * b.dr) dec.Vh)
    (hU : (toMat (a.dl * a.d * a.d) kf dec.U)ᴴ * toMat (a.dl * a.d * a.d) kf dec.U = 1)
    (hV : toMat kf (a.d * a.d * b.dr) dec.Vh * (toMat kf (a.d * a.d * b.dr) dec.Vh)ᴴ = 1) :
    frobSq (toMat (a.dl * a.d * a.d) (a.d * a.d * b.dr) (theta a b)
        - toMat (a.dl * a.d * a.d) (a.d * a.d * b.dr) (theta (cLeft a keep dec.U) (cRight a b keep dec.sv dec.Vh)))
      = ∑ p : Fin kf, if (p : Nat) < keep then 0 else star (dec.sv p) * dec.sv p := by
  have hnew : toMat (a.dl * a.d * a.d) (a.d * a.d * b.dr) (theta (cLeft a keep dec.U) (cRight a b keep dec.sv dec.Vh))
      = toMat (a.dl * a.d * a.d) (a.d * a.d * b.dr) (fun i j => ∑ p ∈ Finset.range keep, dec.U i p * (dec.sv p * dec.Vh p j)) := by
    ext i j
    simp only [toMat, theta_new]
  rw [hnew, toMat_truncated _ _ kf keep hkeep, hspec]
  exact c09_split_error _ _ _ hU hV _

/-! ### `from_matrix` with truncation: the squared change is the sum of the discarded weights -/

theorem sum_range_mul {M : Type} [AddCommMonoid M] (n m : Nat) (g : Nat → M) :
    ∑ k ∈ Finset.range (n * m), g k = ∑ i ∈ Finset.range n, ∑ j ∈ Finset.range m, g (i * m + j) := by
  induction n with
  | zero => simp
  | succ n ih => rw [Nat.succ_mul, Finset.sum_range_add, ih, Finset.sum_range_succ]

/-- `|x|²` -/
def sqAbs (x : K) : K := star x * x

/-- squared Frobenius distance of two remainders of shape `(lr, N, N)` -/
def frob3 (lr N : Nat) (F G : Rem K) : K :=
  ∑ l ∈ Finset.range lr, ∑ i ∈ Finset.range N, ∑ j ∈ Finset.range N, sqAbs (F l i j - G l i j)

/-- what a chain of `n` sites of physical dimension `d` stands for, as a remainder: left bond index, row, column -/
def recon (ts : List (Site K)) (n d : Nat) : Rem K :=
  fun l i j => vals ts (unflat (List.replicate n d) i) (unflat (List.replicate n d) j) l

/-- discarded weight of one split: `Σ_{p ≥ keep} |s_p|²` over the `kf` singular values -/
def discWeight (kf keep : Nat) (sv : Nat → K) : K :=
  ∑ p ∈ Finset.range kf, if p < keep then 0 else sqAbs (sv p)

/-- the full SVD spec at every splitting step of `from_matrix` (`kf = len(s)` singular values, of which `keepFromMatrix`
    are kept): `x = u diag(s) vh`, `uᴴu = 1`, `vh vhᴴ = 1` -/
def SvdDecs (d : Nat) (cutoff : Rat) (maxB : Option Nat) : Nat → Nat → Rem K → List (Dec K) → Prop
  | 0, _, _, _ => True
  | m + 1, lr, rem, dec :: decs =>
    toMat (d * d * lr) (d ^ (m + 1) * d ^ (m + 1)) (fmX d lr (d ^ (m + 1)) rem)
      = toMat (d * d * lr) dec.s.length dec.U * diagonal (fun p : Fin dec.s.length => dec.sv p)
          * toMat dec.s.length (d ^ (m + 1) * d ^ (m + 1)) dec.Vh ∧
    (toMat (d * d * lr) dec.s.length dec.U)ᴴ * toMat (d * d * lr) dec.s.length dec.U = 1 ∧
    toMat dec.s.length (d ^ (m + 1) * d ^ (m + 1)) dec.Vh * (toMat dec.s.length (d ^ (m + 1) * d ^ (m + 1)) dec.Vh)ᴴ = 1 ∧
    Rank.keepFromMatrix dec.s cutoff maxB ≤ dec.s.length ∧
    SvdDecs d cutoff maxB m (Rank.keepFromMatrix dec.s cutoff maxB) (fmRem (d ^ (m + 1)) dec.sv dec.Vh) decs
  | _ + 1, _, _, [] => False

/-- sum over the steps of the discarded weights -/
def totalDisc (cutoff : Rat) (maxB : Option Nat) : List (Dec K) → K
  | [] => 0
  | dec :: decs => discWeight dec.s.length (Rank.keepFromMatrix dec.s cutoff maxB) dec.sv + totalDisc cutoff maxB decs

theorem frobSq_toMat (R C : Nat) (X Y : Nat → Nat → K) :
    frobSq (toMat R C X - toMat R C Y) = ∑ r ∈ Finset.range R, ∑ c ∈ Finset.range C, sqAbs (X r c - Y r c) := by
  unfold frobSq
  simp only [Matrix.trace, Matrix.diag, Matrix.mul_apply, Matrix.conjTranspose_apply, Matrix.sub_apply, toMat]
  rw [Fin.sum_univ_eq_sum_range (fun c => ∑ r : Fin R, star (X r c - Y r c) * (X r c - Y r c)) C, Finset.sum_comm,
    Fin.sum_univ_eq_sum_range (fun r => ∑ c ∈ Finset.range C, star (X r c - Y r c) * (X r c - Y r c)) R]
  rfl

/-- regrouping a remainder into the matrix handed to SVD only permutes its entries -/
theorem frob3_regroup (d lr rest : Nat) (F G : Rem K) :
    frob3 lr (d * rest) F G
      = ∑ r ∈ Finset.range (d * d * lr), ∑ c ∈ Finset.range (rest * rest),
          sqAbs (fmX d lr rest F r c - fmX d lr rest G r c) := by
  let h : Nat → Nat → Nat → Nat → Nat → K := fun l a i b j =>
    sqAbs (F l (a * rest + i) (b * rest + j) - G l (a * rest + i) (b * rest + j))
  have hL : frob3 lr (d * rest) F G
      = ∑ l ∈ Finset.range lr, ∑ a ∈ Finset.range d, ∑ i ∈ Finset.range rest, ∑ b ∈ Finset.range d,
          ∑ j ∈ Finset.range rest, h l a i b j := by
    unfold frob3
    apply Finset.sum_congr rfl; intro l _
    rw [sum_range_mul d rest]
    apply Finset.sum_congr rfl; intro a _
    apply Finset.sum_congr rfl; intro i _
    rw [sum_range_mul d rest]
  have hR : ∑ r ∈ Finset.range (d * d * lr), ∑ c ∈ Finset.range (rest * rest),
        sqAbs (fmX d lr rest F r c - fmX d lr rest G r c)
      = ∑ a ∈ Finset.range d, ∑ b ∈ Finset.range d, ∑ l ∈ Finset.range lr, ∑ i ∈ Finset.range rest,
          ∑ j ∈ Finset.range rest, h l a i b j := by
    rw [sum_range_mul (d * d) lr, sum_range_mul d d]
    apply Finset.sum_congr rfl; intro a _
    apply Finset.sum_congr rfl; intro b hb
    apply Finset.sum_congr rfl; intro l hl
    rw [sum_range_mul rest rest]
    apply Finset.sum_congr rfl; intro i _
    apply Finset.sum_congr rfl; intro j hj
    rw [fmX_apply d lr rest F a b l i j (Finset.mem_range.mp hb) (Finset.mem_range.mp hl) (Finset.mem_range.mp hj),
      fmX_apply d lr rest G a b l i j (Finset.mem_range.mp hb) (Finset.mem_range.mp hl) (Finset.mem_range.mp hj)]
  rw [hL, hR, Finset.sum_comm]
  apply Finset.sum_congr rfl; intro a _
  rw [Finset.sum_comm (s := Finset.range d) (t := Finset.range lr)]
  apply Finset.sum_congr rfl; intro l _
  exact Finset.sum_comm

omit [StarRing K] in
theorem unflat_cons_apply (d : Nat) (ds : List Nat) (a i : Nat) (ha : a < d) (hi : i < dimProd ds) :
    unflat (d :: ds) (a * dimProd ds + i) = a :: unflat ds i := by
  simp only [unflat, mul_add_div' _ _ _ hi, mul_add_mod' _ _ _ hi, Nat.mod_eq_of_lt ha]

omit [StarRing K] in
/-- the chain built from step `k` on, read in the grouping of step `k`: kept columns of `u` times what the rest of the
    chain stands for -/
theorem fmX_recon_succ (d lr m keep : Nat) (U : Nat → Nat → K) (tail : List (Site K)) (r c : Nat)
    (hr : r < d * d * lr) (hc : c < d ^ (m + 1) * d ^ (m + 1)) :
    fmX d lr (d ^ (m + 1)) (recon (fmSite d lr keep U :: tail) (m + 2) d) r c
      = ∑ p ∈ Finset.range keep, U r p * recon tail (m + 1) d p (c / d ^ (m + 1)) (c % d ^ (m + 1)) := by
  have hlr : 0 < lr := by
    rcases Nat.eq_zero_or_pos lr with h | h
    · subst h; simp at hr
    · exact h
  have hrest : 0 < d ^ (m + 1) := by
    rcases Nat.eq_zero_or_pos (d ^ (m + 1)) with h | h
    · rw [h] at hc; simp at hc
    · exact h
  have hq : r / lr < d * d := (Nat.div_lt_iff_lt_mul hlr).mpr hr
  have hd : 0 < d := by
    rcases Nat.eq_zero_or_pos d with h | h
    · subst h; simp at hq
    · exact h
  have ha : r / lr / d < d := (Nat.div_lt_iff_lt_mul hd).mpr hq
  have hb : r / lr % d < d := Nat.mod_lt _ hd
  have hi : c / d ^ (m + 1) < d ^ (m + 1) := (Nat.div_lt_iff_lt_mul hrest).mpr hc
  have hj : c % d ^ (m + 1) < d ^ (m + 1) := Nat.mod_lt _ hrest
  have hP : dimProd (List.replicate (m + 1) d) = d ^ (m + 1) := dimProd_replicate _ _
  simp only [fmX, recon]
  rw [show List.replicate (m + 2) d = d :: List.replicate (m + 1) d from List.replicate_succ]
  rw [← hP, unflat_cons_apply d _ _ _ ha (hP ▸ hi), unflat_cons_apply d _ _ _ hb (hP ▸ hj), vals_cons]
  simp only [fmSite]
  have e1 : (r / lr / d * d + r / lr % d) * lr + r % lr = r := by
    rw [Nat.div_add_mod' (r / lr) d, Nat.div_add_mod' r lr]
  rw [e1]

/-- **`from_matrix` with truncation, all steps**: the squared Frobenius distance between the remainder and what the
    chain built from it stands for is the sum of the discarded weights of the remaining steps -/
theorem fromMatrixGo_error (d : Nat) (cutoff : Rat) (maxB : Option Nat) :
    ∀ (m lr : Nat) (rem : Rem K) (decs : List (Dec K)), decs.length = m → SvdDecs d cutoff maxB m lr rem decs →
    frob3 lr (d ^ (m + 1)) rem (recon (fromMatrixGo d cutoff maxB m lr rem decs) (m + 1) d) = totalDisc cutoff maxB decs
  | 0, lr, rem, decs, hlen, _ => by
    have : decs = [] := List.length_eq_zero_iff.mp hlen
    subst this
    simp only [totalDisc, frob3, Nat.zero_add, pow_one]
    apply Finset.sum_eq_zero; intro l _
    apply Finset.sum_eq_zero; intro i hi
    apply Finset.sum_eq_zero; intro j hj
    have hi' := Finset.mem_range.mp hi
    have hj' := Finset.mem_range.mp hj
    simp [recon, fromMatrixGo, vals, fmLast, sumTo, unflat, dimProd, Nat.mod_eq_of_lt hi', Nat.mod_eq_of_lt hj', sqAbs]
  | m + 1, lr, rem, dec :: decs, hlen, hx => by
    obtain ⟨hspec, hU, hV, hkeep, hrest⟩ := hx
    have ih := fromMatrixGo_error d cutoff maxB m (Rank.keepFromMatrix dec.s cutoff maxB)
      (fmRem (d ^ (m + 1)) dec.sv dec.Vh) decs (by simpa using hlen) hrest
    -- abbreviations
    generalize hk : Rank.keepFromMatrix dec.s cutoff maxB = keep at *
    generalize htail : fromMatrixGo d cutoff maxB m keep (fmRem (d ^ (m + 1)) dec.sv dec.Vh) decs = tail at *
    have hgo : fromMatrixGo d cutoff maxB (m + 1) lr rem (dec :: decs) = fmSite d lr keep dec.U :: tail := by
      simp only [fromMatrixGo, hk, htail]
    rw [hgo, show d ^ (m + 1 + 1) = d * d ^ (m + 1) by rw [pow_succ, Nat.mul_comm], frob3_regroup]
    -- the chain in the grouping of this step is `u[:, :keep] · Rt`
    set Rt : Nat → Nat → K := fun p c => recon tail (m + 1) d p (c / d ^ (m + 1)) (c % d ^ (m + 1)) with hRt
    have hchain : ∀ r ∈ Finset.range (d * d * lr), ∀ c ∈ Finset.range (d ^ (m + 1) * d ^ (m + 1)),
        sqAbs (fmX d lr (d ^ (m + 1)) rem r c - fmX d lr (d ^ (m + 1)) (recon (fmSite d lr keep dec.U :: tail) (m + 1 + 1) d) r c)
          = sqAbs (fmX d lr (d ^ (m + 1)) rem r c - ∑ p ∈ Finset.range keep, dec.U r p * Rt p c) := by
      intro r hr c hc
      rw [fmX_recon_succ d lr m keep dec.U tail r c (Finset.mem_range.mp hr) (Finset.mem_range.mp hc)]
    rw [Finset.sum_congr rfl fun r hr => Finset.sum_congr rfl fun c hc => hchain r hr c hc]
    rw [← frobSq_toMat (d * d * lr) (d ^ (m + 1) * d ^ (m + 1)) (fmX d lr (d ^ (m + 1)) rem)
      (fun r c => ∑ p ∈ Finset.range keep, dec.U r p * Rt p c)]
    have hprod : toMat (d * d * lr) (d ^ (m + 1) * d ^ (m + 1)) (fun r c => ∑ p ∈ Finset.range keep, dec.U r p * Rt p c)
        = (toMat (d * d * lr) dec.s.length dec.U).submatrix id (Fin.castLE hkeep) * toMat keep (d ^ (m + 1) * d ^ (m + 1)) Rt := by
      ext r c
      rw [Matrix.mul_apply]
      simp only [toMat, Matrix.submatrix_apply, id_eq, Fin.val_castLE]
      rw [Fin.sum_univ_eq_sum_range (fun p => dec.U r p * Rt p c) keep]
    rw [hprod, hspec,
      split_then_approx_error _ _ _ hU hV (Fin.castLE hkeep) (Fin.castLE_injective hkeep)
        (fun i : Fin dec.s.length => (i : Nat) < keep)
        (by
          intro i
          constructor
          · intro h; exact ⟨⟨i, h⟩, by ext; rfl⟩
          · rintro ⟨j, rfl⟩; exact j.isLt)]
    -- the two summands
    have hdisc : (∑ i : Fin dec.s.length, if (i : Nat) < keep then 0 else star (dec.sv i) * dec.sv i)
        = discWeight dec.s.length keep dec.sv := by
      unfold discWeight sqAbs
      rw [Fin.sum_univ_eq_sum_range (fun p => if p < keep then 0 else star (dec.sv p) * dec.sv p) dec.s.length]
    have hrem : ((diagonal fun p : Fin dec.s.length => dec.sv p) * toMat dec.s.length (d ^ (m + 1) * d ^ (m + 1)) dec.Vh).submatrix
          (Fin.castLE hkeep) id
        = toMat keep (d ^ (m + 1) * d ^ (m + 1)) (fun p c => dec.sv p * dec.Vh p c) := by
      ext p c
      simp [toMat, Matrix.diagonal_mul]
    rw [hdisc, hrem, frobSq_toMat]
    simp only [totalDisc, hk]
    congr 1
    rw [← ih]
    unfold frob3
    apply Finset.sum_congr rfl; intro p _
    rw [sum_range_mul]
    apply Finset.sum_congr rfl; intro i _
    apply Finset.sum_congr rfl; intro j hj
    have hj' := Finset.mem_range.mp hj
    simp only [hRt, fmRem, mul_add_div' _ _ _ hj', mul_add_mod' _ _ _ hj']
  | _ + 1, _, _, [], hlen, _ => by simp at hlen

end ring

end Yaqs.MpoConv
