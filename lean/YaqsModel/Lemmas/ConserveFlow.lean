import Mathlib.Analysis.Normed.Algebra.MatrixExponential
import Mathlib.Analysis.Complex.Basic
import Mathlib.LinearAlgebra.Matrix.Hermitian

/-!
The exact flow of a Hermitian generator (Mathlib's genuine matrix exponential): `U = exp(-(t·i)•K)` is unitary and commutes
with `K`.  Used by `Props/C05.lean` (`herm_flow_unitary`, `herm_flow_energy`): what `update_site` / `update_bond`
compute when the Krylov exponential is exact (C19) and the dense effective Hamiltonian is Hermitian (C19.6).
-/
namespace Yaqs.Conserve
open Matrix

variable {n : Type*} [Fintype n] [DecidableEq n]

/-- `exp(-(t·i)•K)` — the map applied by `expm_krylov(H_eff, v, t)` in exact arithmetic -/
noncomputable def flow (K : Matrix n n ℂ) (t : ℝ) : Matrix n n ℂ := NormedSpace.exp (-((t : ℂ) * Complex.I) • K)

theorem flow_conjTranspose (K : Matrix n n ℂ) (hK : Kᴴ = K) (t : ℝ) : (flow K t)ᴴ = flow K (-t) := by
  unfold flow
  rw [← Matrix.exp_conjTranspose, Matrix.conjTranspose_smul, hK]
  congr 2
  simp

theorem flow_add (K : Matrix n n ℂ) (s t : ℝ) : flow K (s + t) = flow K s * flow K t := by
  unfold flow
  rw [← Matrix.exp_add_of_commute]
  · congr 1
    push_cast
    rw [← add_smul]
    congr 1
    ring
  · exact (Commute.refl K).smul_left _ |>.smul_right _

theorem flow_zero (K : Matrix n n ℂ) : flow K 0 = 1 := by
  unfold flow
  simp

/-- `Uᴴ U = 1` -/
theorem flow_unitary (K : Matrix n n ℂ) (hK : Kᴴ = K) (t : ℝ) : (flow K t)ᴴ * flow K t = 1 := by
  rw [flow_conjTranspose K hK, ← flow_add, neg_add_cancel, flow_zero]

/-- `U Uᴴ = 1` -/
theorem flow_unitary' (K : Matrix n n ℂ) (hK : Kᴴ = K) (t : ℝ) : flow K t * (flow K t)ᴴ = 1 := by
  rw [flow_conjTranspose K hK, ← flow_add, add_neg_cancel, flow_zero]

set_option backward.isDefEq.respectTransparency false in
/-- `K` commutes with its own exponential -/
theorem flow_commute (K : Matrix n n ℂ) (t : ℝ) : Commute K (flow K t) := by
  unfold flow
  have h : Commute K (-((t : ℂ) * Complex.I) • K) := (Commute.refl K).smul_right _
  exact open scoped Matrix.Norms.Operator in h.exp_right

/-- `Uᴴ K U = K` -/
theorem flow_conj_gen (K : Matrix n n ℂ) (hK : Kᴴ = K) (t : ℝ) : (flow K t)ᴴ * K * flow K t = K := by
  rw [Matrix.mul_assoc, (flow_commute K t).eq, ← Matrix.mul_assoc, flow_unitary K hK, Matrix.one_mul]

omit [DecidableEq n] in
/-- `‖M v‖² = v† (Mᴴ M) v` and `⟨M v, K M v⟩ = v† (Mᴴ K M) v` -/
theorem quad_mulVec (M K : Matrix n n ℂ) (v : n → ℂ) :
    star (M *ᵥ v) ⬝ᵥ (K *ᵥ (M *ᵥ v)) = star v ⬝ᵥ ((Mᴴ * K * M) *ᵥ v) := by
  rw [Matrix.star_mulVec, Matrix.dotProduct_mulVec, Matrix.vecMul_vecMul, Matrix.dotProduct_mulVec,
    Matrix.vecMul_vecMul, ← Matrix.dotProduct_mulVec, Matrix.mul_assoc]

theorem normSq_mulVec (M : Matrix n n ℂ) (v : n → ℂ) :
    star (M *ᵥ v) ⬝ᵥ (M *ᵥ v) = star v ⬝ᵥ ((Mᴴ * M) *ᵥ v) := by
  have := quad_mulVec M 1 v
  simpa using this

end Yaqs.Conserve
