import YaqsModel.Model.SweepBonds

/-! helper lemmas for Model.SweepBonds (kept apart from the property theorems of Props/C08.lean) -/
namespace Yaqs.SweepBonds
open Yaqs.Bonds

theorem getD_set (bs : List Nat) (i j v : Nat) :
    (bs.set i v).getD j 1 = if i = j ∧ i < bs.length then v else bs.getD j 1 := by
  simp only [List.getD_eq_getElem?_getD, List.getElem?_set]
  by_cases hij : i = j
  · subst hij
    by_cases hl : i < bs.length
    · simp [hl]
    · simp [hl]
  · simp [hij]

theorem applyX_eq_set (c : Cfg) (bs : List Nat) (o : XOp) :
    ∃ v, applyX c bs o = bs.set o.bond v := by
  cases o with
  | base o => exact ⟨newBond c bs o, rfl⟩
  | qrl i d => exact ⟨_, rfl⟩
  | grow i v => exact ⟨v, rfl⟩

theorem length_applyX (c : Cfg) (bs : List Nat) (o : XOp) : (applyX c bs o).length = bs.length := by
  obtain ⟨v, h⟩ := applyX_eq_set c bs o
  rw [h]; simp

theorem length_runX (c : Cfg) (ops : List XOp) : ∀ bs, (runX c bs ops).length = bs.length := by
  induction ops with
  | nil => intro bs; rfl
  | cons o os ih => intro bs; simp only [runX, List.foldl_cons] at ih ⊢; rw [ih, length_applyX]

theorem runX_nil (c : Cfg) (bs : List Nat) : runX c bs [] = bs := rfl

theorem runX_cons (c : Cfg) (bs : List Nat) (o : XOp) (os : List XOp) :
    runX c bs (o :: os) = runX c (applyX c bs o) os := rfl

theorem runX_append (c : Cfg) (bs : List Nat) (a b : List XOp) :
    runX c bs (a ++ b) = runX c (runX c bs a) b := by
  simp [runX, List.foldl_append]

/-- on ops of Model.Bonds the extended run is the run of Model.Bonds -/
theorem runX_base (c : Cfg) (ops : List Bonds.Op) : ∀ bs, runX c bs (ops.map XOp.base) = Bonds.run c bs ops := by
  induction ops with
  | nil => intro bs; rfl
  | cons o os ih => intro bs; simp only [List.map_cons, runX_cons, applyX, ih]; rfl

/-- an op only touches its own bond -/
theorem applyX_other (c : Cfg) (bs : List Nat) (o : XOp) (j : Nat) (h : o.bond ≠ j) :
    (applyX c bs o).getD j 1 = bs.getD j 1 := by
  obtain ⟨v, hv⟩ := applyX_eq_set c bs o
  rw [hv, getD_set]; simp [h]

/-! ### filling in the numerical data -/

theorem fillFrom_append (ext : Nat → Ext) : ∀ (a b : List XOp) (k : Nat),
    fillFrom ext k (a ++ b) = fillFrom ext k a ++ fillFrom ext (k + a.length) b := by
  intro a
  induction a with
  | nil => intro b k; simp [fillFrom]
  | cons o os ih =>
    intro b k
    simp only [List.cons_append, fillFrom, ih, List.length_cons]
    have : k + 1 + os.length = k + (os.length + 1) := by omega
    rw [this]

theorem length_fillFrom (ext : Nat → Ext) : ∀ (a : List XOp) (k : Nat), (fillFrom ext k a).length = a.length := by
  intro a
  induction a with
  | nil => intro k; rfl
  | cons o os ih => intro k; simp [fillFrom, ih]

theorem mem_fillFrom (ext : Nat → Ext) : ∀ (a : List XOp) (k : Nat) (o : XOp),
    o ∈ fillFrom ext k a → ∃ o' ∈ a, ∃ n, o = o'.fill (ext n) := by
  intro a
  induction a with
  | nil => intro k o h; simp [fillFrom] at h
  | cons x xs ih =>
    intro k o h
    simp only [fillFrom, List.mem_cons] at h
    rcases h with h | h
    · exact ⟨x, by simp, k, h⟩
    · obtain ⟨o', ho', n, he⟩ := ih (k + 1) o h
      exact ⟨o', by simp [ho'], n, he⟩

theorem fill_bond (e : Ext) (o : XOp) : (o.fill e).bond = o.bond := by
  cases o with
  | base b => cases b <;> rfl
  | qrl i d => rfl
  | grow i v => rfl

theorem isSweep_fill (e : Ext) (o : XOp) (h : o.IsSweep) : (o.fill e).IsSweep := by
  cases o with
  | base b => cases b <;> simp_all [XOp.fill, XOp.IsSweep]
  | qrl i d => exact h
  | grow i v => exact h

theorem isSweep_fillFrom (ext : Nat → Ext) (a : List XOp) (k : Nat) (h : ∀ o ∈ a, o.IsSweep) :
    ∀ o ∈ fillFrom ext k a, o.IsSweep := by
  intro o ho
  obtain ⟨o', ho', n, he⟩ := mem_fillFrom ext a k o ho
  rw [he]; exact isSweep_fill (ext n) o' (h o' ho')

theorem isSweep_shift (w : Nat) (o : XOp) (h : o.IsSweep) : (o.shift w).IsSweep := by
  cases o with
  | base b => cases b <;> simp_all [XOp.shift, XOp.IsSweep]
  | qrl i d => exact h
  | grow i v => exact h

/-! ### the skeletons of the TDVP sweeps consist of splits and QR shifts only -/

theorem isSweep_opBond (dir : Dir) (phys : Nat → Nat) (op : Sweep.Op) : ∀ o ∈ opBond dir phys op, o.IsSweep := by
  intro o ho
  cases op with
  | split p r => simp only [opBond, List.mem_singleton] at ho; subst ho; trivial
  | bond b cc =>
    cases dir <;> (simp only [opBond, List.mem_singleton] at ho; subst ho; trivial)
  | site i cc => simp [opBond] at ho
  | pair p cc => simp [opBond] at ho
  | trunc => simp [opBond] at ho

theorem isSweep_bondOps (dir : Dir) (phys : Nat → Nat) (ops : List Sweep.Op) :
    ∀ o ∈ bondOps dir phys ops, o.IsSweep := by
  intro o ho
  simp only [bondOps, List.mem_flatMap] at ho
  obtain ⟨op, _, h⟩ := ho
  exact isSweep_opBond dir phys op o h

theorem isSweep_ldtdvpSk (L : Nat) (phys : Nat → Nat) (dLR dRL : Nat → Bool) (digital : Bool) :
    ∀ o ∈ ldtdvpSk L phys dLR dRL digital, o.IsSweep := by
  intro o ho
  unfold ldtdvpSk at ho
  split at ho
  · exact isSweep_bondOps _ _ _ o ho
  · split at ho
    · exact isSweep_bondOps _ _ _ o ho
    · rcases List.mem_append.mp ho with h | h
      · exact isSweep_bondOps _ _ _ o h
      · exact isSweep_bondOps _ _ _ o h

theorem isSweep_twoSiteSk (L : Nat) (phys : Nat → Nat) (digital : Bool) (ops : List XOp)
    (h : twoSiteSk L phys digital = some ops) : ∀ o ∈ ops, o.IsSweep := by
  unfold twoSiteSk at h
  cases hs : Sweep.twoSite L digital with
  | none => simp [hs] at h
  | some l =>
    simp only [hs, Option.map_some, Option.some.injEq] at h
    subst h
    exact isSweep_bondOps _ _ _

theorem isSweep_singleSiteSk (L : Nat) (phys : Nat → Nat) (digital : Bool) :
    ∀ o ∈ singleSiteSk L phys digital, o.IsSweep := by
  intro o ho
  unfold singleSiteSk at ho
  split at ho
  · exact isSweep_bondOps _ _ _ o ho
  · rcases List.mem_append.mp ho with h | h
    · exact isSweep_bondOps _ _ _ o h
    · exact isSweep_bondOps _ _ _ o h

theorem isSweep_qrRightSk (phys : Nat → Nat) (n : Nat) : ∀ o ∈ qrRightSk phys n, o.IsSweep := by
  intro o ho
  simp only [qrRightSk, List.mem_map] at ho
  obtain ⟨i, _, rfl⟩ := ho
  trivial

theorem isSweep_qrLeftSk (phys : Nat → Nat) (L : Nat) : ∀ o ∈ qrLeftSk phys L, o.IsSweep := by
  intro o ho
  simp only [qrLeftSk, List.mem_map] at ho
  obtain ⟨i, _, rfl⟩ := ho
  trivial

theorem isSweep_gateSk (L : Nat) (phys : Nat → Nat) (first last : Nat) : ∀ o ∈ gateSk L phys first last, o.IsSweep := by
  intro o ho
  simp only [gateSk] at ho
  rcases List.mem_append.mp ho with h | h
  · exact isSweep_qrRightSk _ _ o h
  · obtain ⟨o', ho', rfl⟩ := List.mem_map.mp h
    apply isSweep_shift
    cases hs : twoSiteSk (min (last + 1) (L - 1) - (first - 1) + 1) (fun i => phys (first - 1 + i)) true with
    | none => simp [hs] at ho'
    | some l =>
      simp only [hs, Option.getD_some] at ho'
      exact isSweep_twoSiteSk _ _ _ l hs o' ho'

/-- `apply_dissipation` without noise and `stochastic_process` without a jump (or scheduled jumps): QR shifts and
    splits only -/
theorem isSweep_dissSk_quiet (L : Nat) (phys : Nat → Nat) (n2 : Nat → Nat) :
    ∀ o ∈ dissSk L phys false n2, o.IsSweep := by
  intro o ho
  simp only [dissSk, List.mem_flatMap] at ho
  obtain ⟨i, _, h⟩ := ho
  simp only [dissSite, Bool.false_eq_true, ↓reduceIte, List.mem_singleton] at h
  subst h; trivial

theorem isSweep_jumpSk_none (L : Nat) (phys : Nat → Nat) : ∀ o ∈ jumpSk L phys .none, o.IsSweep := by
  intro o ho; simp [jumpSk] at ho

theorem isSweep_jumpSk_sched (L : Nat) (phys : Nat → Nat) (ps : List Nat) :
    ∀ o ∈ jumpSk L phys (.sched ps), o.IsSweep := by
  intro o ho
  simp only [jumpSk] at ho
  rcases List.mem_append.mp ho with h | h
  · obtain ⟨p, _, rfl⟩ := List.mem_map.mp h
    trivial
  · exact isSweep_qrLeftSk _ _ o h

/-! ### hypotheses along a list -/

theorem allOkX_append (c : Cfg) : ∀ (a b : List XOp) (bs : List Nat),
    AllOkX c bs (a ++ b) ↔ AllOkX c bs a ∧ AllOkX c (runX c bs a) b := by
  intro a
  induction a with
  | nil => intro b bs; simp [AllOkX, runX]
  | cons o os ih =>
    intro b bs
    simp only [List.cons_append, AllOkX, ih, runX_cons]
    constructor
    · rintro ⟨h1, h2, h3⟩; exact ⟨⟨h1, h2⟩, h3⟩
    · rintro ⟨⟨h1, h2⟩, h3⟩; exact ⟨h1, h2, h3⟩

theorem opOkX_of_isSweep (bs : List Nat) (o : XOp) (h : o.IsSweep) : OpOkX bs o := by
  cases o with
  | base b => cases b <;> simp_all [XOp.IsSweep, OpOkX, OpOk]
  | qrl i d => trivial
  | grow i v => exact h

theorem allOkX_of_isSweep (c : Cfg) : ∀ (ops : List XOp) (bs : List Nat), (∀ o ∈ ops, o.IsSweep) → AllOkX c bs ops := by
  intro ops
  induction ops with
  | nil => intro bs _; trivial
  | cons o os ih =>
    intro bs h
    exact ⟨opOkX_of_isSweep bs o (h o (by simp)), ih _ (fun x hx => h x (by simp [hx]))⟩

/-! ### the loops that read the decisions off the current bond vector coincide with C05's loops -/

/-- bond `i` is not touched before the visit of site `i`: the left-to-right loop reading the current bond vector is
    the translation of `Sweep.lrLoop` with the decisions computed from the bond vector at the start of the sweep -/
theorem autoLR_eq (c : Cfg) (L : Nat) (phys : Nat → Nat) (ext : Nat → Ext) (h : Rat) (init : List Nat) :
    ∀ (n i : Nat) (lock : Bool) (k : Nat) (cur : List Nat), (∀ j, i ≤ j → cur.getD j 1 = init.getD j 1) →
      autoLR c L phys ext n i lock k cur =
        fillFrom ext k (bondOps .lr phys (Sweep.lrLoop L (fun j => Sweep.capped (seenLR L init j) c.maxB) h n i lock)) := by
  intro n
  induction n with
  | zero => intro i lock k cur _; simp [autoLR, Sweep.lrLoop, bondOps, fillFrom]
  | succ n ih =>
    intro i lock k cur hag
    have hseen : seenLR L cur i = seenLR L init i := by
      unfold seenLR; rw [hag i (Nat.le_refl i)]
    have hnext : ∀ (o : XOp), o.bond = i → ∀ j, i + 1 ≤ j → (applyX c cur o).getD j 1 = init.getD j 1 := by
      intro o ho j hj
      rw [applyX_other c cur o j (by omega)]
      exact hag j (by omega)
    unfold autoLR Sweep.lrLoop
    simp only [hseen]
    by_cases hd : (Sweep.capped (seenLR L init i) c.maxB || lock) = true
    · simp only [hd, ↓reduceIte]
      by_cases hi : i = L - 1
      · simp only [hi, ne_eq, not_true_eq_false, ↓reduceIte, bondOps, List.flatMap_cons, opBond, List.nil_append]
        have := ih (L - 1 + 1) (lock || decide (L - 1 = L - 2)) k cur (by intro j hj; exact hag j (by omega))
        simpa [bondOps, hi] using this
      · simp only [ne_eq, hi, not_false_eq_true, ↓reduceIte, bondOps, List.flatMap_cons, opBond,
          List.nil_append, List.cons_append, fillFrom, XOp.fill]
        congr 1
        have := ih (i + 1) (lock || decide (i = L - 2)) (k + 1) (applyX c cur (XOp.base (.qr i (phys i))))
          (hnext _ rfl)
        simpa [bondOps] using this
    · simp only [hd, Bool.false_eq_true, ↓reduceIte]
      by_cases hi : i = L - 1
      · simp only [hi, ↓reduceIte]
        have := ih (L - 1 + 1) lock k cur (by intro j hj; exact hag j (by omega))
        simpa [bondOps, hi] using this
      · simp only [hi, ↓reduceIte]
        by_cases hi2 : i = L - 2
        · simp only [hi2, ↓reduceIte, bondOps, List.flatMap_cons, opBond, List.nil_append, List.cons_append,
            fillFrom, XOp.fill]
          congr 1
          have := ih (i + 1) lock (k + 1) (applyX c cur (XOp.base (.split i (ext k).s))) (hnext _ rfl)
          simpa [bondOps, hi2] using this
        · simp only [hi2, ↓reduceIte, bondOps, List.flatMap_cons, opBond, List.nil_append, List.cons_append,
            fillFrom, XOp.fill]
          congr 1
          have := ih (i + 1) lock (k + 1) (applyX c cur (XOp.base (.split i (ext k).s))) (hnext _ rfl)
          simpa [bondOps] using this

/-- the mirror image: bond `i-1` is not touched before the visit of site `i` in the right-to-left loop -/
theorem autoRL_eq (c : Cfg) (phys : Nat → Nat) (ext : Nat → Ext) (h : Rat) (init : List Nat) :
    ∀ (n : Nat) (lock : Bool) (k : Nat) (cur : List Nat), (∀ j, j + 1 < n → cur.getD j 1 = init.getD j 1) →
      autoRL c phys ext n lock k cur =
        fillFrom ext k (bondOps .rl phys (Sweep.rlLoop (fun j => Sweep.capped (seenRL init j) c.maxB) h n lock)) := by
  intro n
  induction n with
  | zero => intro lock k cur _; simp [autoRL, Sweep.rlLoop, bondOps, fillFrom]
  | succ i ih =>
    intro lock k cur hag
    have hseen : seenRL cur i = seenRL init i := by
      unfold seenRL
      by_cases h0 : i = 0
      · simp [h0]
      · simp only [h0, ↓reduceIte]; exact hag (i - 1) (by omega)
    have hnext : ∀ (o : XOp), o.bond = i - 1 → ∀ j, j + 1 < i → (applyX c cur o).getD j 1 = init.getD j 1 := by
      intro o ho j hj
      rw [applyX_other c cur o j (by omega)]
      exact hag j (by omega)
    unfold autoRL Sweep.rlLoop
    simp only [hseen]
    by_cases hd : (Sweep.capped (seenRL init i) c.maxB || lock) = true
    · simp only [hd, ↓reduceIte]
      by_cases hi : i = 0
      · simp only [hi, ne_eq, not_true_eq_false, ↓reduceIte, bondOps, List.flatMap_cons, opBond, List.nil_append]
        have := ih (lock || decide (0 = 1)) k cur (by intro j hj; omega)
        simpa [bondOps, hi] using this
      · simp only [ne_eq, hi, not_false_eq_true, ↓reduceIte, bondOps, List.flatMap_cons, opBond,
          List.nil_append, List.cons_append, fillFrom, XOp.fill]
        have hsub : i - 1 + 1 = i := by omega
        rw [hsub]
        congr 1
        have := ih (lock || decide (i = 1)) (k + 1) (applyX c cur (XOp.qrl (i - 1) (phys i))) (hnext _ rfl)
        simpa [bondOps] using this
    · simp only [hd, Bool.false_eq_true, ↓reduceIte]
      by_cases hi : i = 0
      · simp only [hi, ↓reduceIte]
        have := ih lock k cur (by intro j hj; omega)
        simpa [bondOps, hi] using this
      · simp only [hi, ↓reduceIte, bondOps, List.flatMap_cons, opBond, List.nil_append, List.cons_append,
          List.flatMap_append, fillFrom, XOp.fill]
        congr 1
        have := ih lock (k + 1) (applyX c cur (XOp.base (.split (i - 1) (ext k).s))) (hnext _ rfl)
        by_cases hi1 : i = 1
        · simpa [bondOps, hi1, opBond] using this
        · simpa [bondOps, hi1, opBond] using this

/-- `local_dynamic_tdvp` with the decisions read off the current bond vector is the translation of C05's
    `Sweep.ldtdvpD` for the decisions `capped (seenLR …)` / `capped (seenRL …)`, where the right-to-left half sees the
    bond vector left behind by the left-to-right half -/
theorem ldtdvpAuto_eq (c : Cfg) (L : Nat) (phys : Nat → Nat) (digital : Bool) (ext : Nat → Ext) (bs : List Nat) :
    ldtdvpAuto c L phys digital ext bs =
      fillFrom ext 0 (ldtdvpSk L phys (fun i => Sweep.capped (seenLR L bs i) c.maxB)
        (fun i => Sweep.capped (seenRL (runX c bs (fillFrom ext 0 (bondOps .lr phys
          (Sweep.ldtdvpLR L (fun i => Sweep.capped (seenLR L bs i) c.maxB) (1 / 2))))) i) c.maxB) digital) := by
  by_cases hL : L = 1
  · subst hL
    cases digital <;>
      simp [ldtdvpAuto, ldtdvpSk, Sweep.singleSite, Sweep.ssLR, Sweep.ssRL, bondOps, opBond, fillFrom]
  · unfold ldtdvpAuto ldtdvpSk
    simp only [hL, ↓reduceIte]
    cases digital with
    | true =>
      simp only [↓reduceIte]
      exact autoLR_eq c L phys ext 1 bs L 0 false 0 bs (fun _ _ => rfl)
    | false =>
      simp only [Bool.false_eq_true, ↓reduceIte]
      have h1 := autoLR_eq c L phys ext (1 / 2) bs L 0 false 0 bs (fun _ _ => rfl)
      rw [fillFrom_append, h1]
      congr 1
      rw [length_fillFrom, Nat.zero_add]
      exact autoRL_eq c phys ext (1 / 2) _ L false _ _ (fun _ _ => rfl)

/-! ### positivity of the bond dimensions along a sweep -/

/-- skeleton ops whose physical dimension is positive -/
def PosSk : XOp → Prop
  | .base (.split _ _) => True
  | .base (.qr _ d) => 1 ≤ d
  | .qrl _ d => 1 ≤ d
  | _ => False

theorem posSk_bondOps (dir : Dir) (phys : Nat → Nat) (hphys : ∀ i, 1 ≤ phys i) (ops : List Sweep.Op) :
    ∀ o ∈ bondOps dir phys ops, PosSk o := by
  intro o ho
  simp only [bondOps, List.mem_flatMap] at ho
  obtain ⟨op, _, h⟩ := ho
  cases op with
  | split p r => simp only [opBond, List.mem_singleton] at h; subst h; trivial
  | bond b cc =>
    cases dir <;> (simp only [opBond, List.mem_singleton] at h; subst h; exact hphys _)
  | site i cc => simp [opBond] at h
  | pair p cc => simp [opBond] at h
  | trunc => simp [opBond] at h

end Yaqs.SweepBonds
