import YaqsModel.Lemmas.Tomo
import Mathlib.Data.Complex.Basic

/-! transport of the dual-frame argument along a star-preserving ring homomorphism `ℚ(i) → K` (e.g. into ℂ) -/
open Matrix

namespace Yaqs.Tomo
open Yaqs CRatT

section Transport
variable {K : Type*} [CommRing K] [StarRing K] (φ : CRatT →+* K) (hφ : ∀ z, φ (star z) = star (φ z))
include hφ

theorem biorth_map {n : Type*} [Fintype n] [DecidableEq n] (D B : Matrix n n CRatT) (c : CRatT)
    (h : trace (Dᴴ * B) = c) : trace ((D.map φ)ᴴ * B.map φ) = φ c := by
  rw [← conjTranspose_map φ (fun z => hφ z), ← Matrix.map_mul, ← AddMonoidHom.map_trace, h]

/-- prediction by dual-frame contraction for combs with values in any commutative star ring `K ⊇ ℚ(i)` -/
theorem predict_sum_field {ι n : Type*} [Fintype ι] [DecidableEq ι] [Fintype n] [DecidableEq n]
    (B D : ι → Matrix n n CRatT) (hcard : Fintype.card ι = Fintype.card (n × n))
    (hbi : ∀ a b, trace ((D a)ᴴ * B b) = if a = b then 1 else 0)
    {k : Nat} (comb : MultilinearMap K (fun _ : Fin k => Matrix n n K) K) (J : Fin k → Matrix n n K) :
    ∑ r : Fin k → ι, (∏ t, trace (((D (r t)).map φ)ᴴ * J t)) * comb (fun t => (B (r t)).map φ) = comb J := by
  have hbi' : ∀ a b, trace (((D a).map φ)ᴴ * (B b).map φ) = if a = b then 1 else 0 := by
    intro a b
    rw [biorth_map φ hφ (D a) (B b) _ (hbi a b)]
    split <;> simp
  have hexp : ∀ t, J t = ∑ a, trace (((D a).map φ)ᴴ * J t) • (B a).map φ := fun t =>
    frame_expansion (fun a => (B a).map φ) (fun a => (D a).map φ) hcard hbi' (J t)
  conv_rhs => rw [show J = fun t => ∑ a, trace (((D a).map φ)ᴴ * J t) • (B a).map φ from funext hexp]
  rw [comb.map_sum]
  refine Finset.sum_congr rfl fun r _ => ?_
  rw [comb.map_smul_univ, smul_eq_mul]

end Transport

/-- the embedding `ℚ(i) → ℂ` -/
noncomputable def toComplex : CRatT →+* ℂ where
  toFun z := ⟨(z.re : ℝ), (z.im : ℝ)⟩
  map_one' := by apply Complex.ext <;> simp
  map_zero' := by apply Complex.ext <;> simp
  map_mul' a b := by apply Complex.ext <;> simp
  map_add' a b := by apply Complex.ext <;> simp

theorem toComplex_star (z : CRatT) : toComplex (star z) = star (toComplex z) := by
  apply Complex.ext <;> simp [toComplex]

end Yaqs.Tomo
