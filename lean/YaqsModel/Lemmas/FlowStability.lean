import YaqsModel.Lemmas.ConsistencyFlow
import Mathlib.Analysis.SpecialFunctions.Exponential

/-!
# Lemmas.FlowStability — a stability constant of the exact Lindblad flow, proved

`‖exp X‖ ≤ e^{‖X‖}` in a real Banach algebra with `‖1‖ ≤ 1`, hence `‖exp(t𝓛) M‖ ≤ e^{t‖𝓛‖}·‖M‖` for the Lindblad flow of
`Lemmas/ConsistencyFlow.lean` in the operator norm of `Matrix n n ℂ` (`Matrix.Norms.Operator`), and
`e^{x} ≤ 1 + 2x` on `[0, 1]`, so that `K = 2‖𝓛‖` is a stability constant of the form the accumulation theorem asks for
whenever `dt·‖𝓛‖ ≤ 1`.
-/
namespace Yaqs.Consistency

open NormedSpace
open scoped Nat

/-- `‖exp X‖ ≤ e^{‖X‖}` (power series, term by term) -/
theorem norm_exp_le_exp_norm {𝔸 : Type*} [NormedRing 𝔸] [NormedAlgebra ℝ 𝔸] [CompleteSpace 𝔸] (h1 : ‖(1 : 𝔸)‖ ≤ 1) (X : 𝔸) :
    ‖exp X‖ ≤ Real.exp ‖X‖ := by
  have hs : HasSum (fun n : ℕ => ((n ! : ℝ)⁻¹) • X ^ n) (exp X) := exp_series_hasSum_exp' (𝕂 := ℝ) X
  have hn : Summable fun n : ℕ => ‖((n ! : ℝ)⁻¹) • X ^ n‖ := norm_expSeries_summable' (𝕂 := ℝ) X
  have hr : HasSum (fun n : ℕ => ((n ! : ℝ)⁻¹) • ‖X‖ ^ n) (exp ‖X‖) := exp_series_hasSum_exp' (𝕂 := ℝ) ‖X‖
  have hpow : ∀ n : ℕ, ‖X ^ n‖ ≤ ‖X‖ ^ n := by
    intro n
    rcases Nat.eq_zero_or_pos n with rfl | hpos
    · simpa using h1
    · exact norm_pow_le' X hpos
  have hterm : ∀ n : ℕ, ‖((n ! : ℝ)⁻¹) • X ^ n‖ ≤ ((n ! : ℝ)⁻¹) • ‖X‖ ^ n := by
    intro n
    rw [norm_smul, smul_eq_mul, Real.norm_of_nonneg (by positivity)]
    exact mul_le_mul_of_nonneg_left (hpow n) (by positivity)
  calc ‖exp X‖ = ‖∑' n : ℕ, ((n ! : ℝ)⁻¹) • X ^ n‖ := by rw [hs.tsum_eq]
    _ ≤ ∑' n : ℕ, ‖((n ! : ℝ)⁻¹) • X ^ n‖ := norm_tsum_le_tsum_norm hn
    _ ≤ ∑' n : ℕ, ((n ! : ℝ)⁻¹) • ‖X‖ ^ n := hn.tsum_le_tsum hterm hr.summable
    _ = Real.exp ‖X‖ := by rw [hr.tsum_eq, Real.exp_eq_exp_ℝ]

/-- `e^x ≤ 1 + 2x` on `[0, 1]` -/
theorem exp_le_one_add_two_mul {x : ℝ} (h0 : 0 ≤ x) (h1 : x ≤ 1) : Real.exp x ≤ 1 + 2 * x := by
  have h := Real.exp_bound' h0 h1 (n := 2) (by norm_num)
  simp only [Finset.sum_range_succ, Finset.sum_range_zero, Nat.factorial] at h
  norm_num at h
  nlinarith [h, mul_nonneg h0 h0, mul_le_mul_of_nonneg_left h1 h0]

section flow
open Matrix Yaqs.MasterEq
open scoped Matrix.Norms.Operator

variable {n : Type} [Fintype n] [DecidableEq n]

set_option backward.isDefEq.respectTransparency false in
/-- the exact flow grows at most like `e^{t‖𝓛‖}` in the operator norm of matrices -/
theorem lindFlow_norm_le (H : Matrix n n ℂ) (Ls : List (Proc (Matrix n n ℂ))) (t : ℝ) (ht : 0 ≤ t) (M : Matrix n n ℂ) :
    ‖lindFlow H Ls t M‖ ≤ Real.exp (t * ‖lindCLM H Ls‖) * ‖M‖ := by
  have h1 : ‖(1 : Matrix n n ℂ →L[ℝ] Matrix n n ℂ)‖ ≤ 1 := ContinuousLinearMap.norm_id_le
  have h2 := norm_exp_le_exp_norm h1 (t • lindCLM H Ls)
  rw [norm_smul, Real.norm_of_nonneg ht] at h2
  calc ‖lindFlow H Ls t M‖ ≤ ‖lindFlow H Ls t‖ * ‖M‖ := ContinuousLinearMap.le_opNorm _ _
    _ ≤ Real.exp (t * ‖lindCLM H Ls‖) * ‖M‖ := mul_le_mul_of_nonneg_right h2 (norm_nonneg _)

set_option backward.isDefEq.respectTransparency false in
/-- **stability constant**: for `0 ≤ dt` with `dt·‖𝓛‖ ≤ 1`, `‖exp(dt𝓛) M‖ ≤ (1 + (2‖𝓛‖)·dt)·‖M‖` -/
theorem lindFlow_stable (H : Matrix n n ℂ) (Ls : List (Proc (Matrix n n ℂ))) (dt : ℝ) (hdt : 0 ≤ dt)
    (hsmall : dt * ‖lindCLM H Ls‖ ≤ 1) (M : Matrix n n ℂ) :
    ‖lindFlow H Ls dt M‖ ≤ (1 + (2 * ‖lindCLM H Ls‖) * dt) * ‖M‖ := by
  have h := lindFlow_norm_le H Ls dt hdt M
  have h2 := exp_le_one_add_two_mul (mul_nonneg hdt (norm_nonneg (lindCLM H Ls))) hsmall
  calc ‖lindFlow H Ls dt M‖ ≤ Real.exp (dt * ‖lindCLM H Ls‖) * ‖M‖ := h
    _ ≤ (1 + 2 * (dt * ‖lindCLM H Ls‖)) * ‖M‖ := mul_le_mul_of_nonneg_right h2 (norm_nonneg _)
    _ = (1 + (2 * ‖lindCLM H Ls‖) * dt) * ‖M‖ := by ring

end flow

end Yaqs.Consistency
