import YaqsModel.Lemmas.Strang
import YaqsModel.Lemmas.TrotterHubbard

/-!
# Lemmas.StrangHubbard — the palindromic Fermi–Hubbard sub-step as a Strang step (xs07 extension of C07)

The sub-step of `create_1d_fermi_hubbard_circuit` / `create_2d_fermi_hubbard_circuit` is
`½ chem, ½ onsite, hop, ½ onsite, ½ chem` (`secondOrderGens A B C τ`, xh07).  The chemical-potential and onsite generators are
strings of `I`/`Z` — diagonal matrices, which commute — so each outer half block is *exactly* `exp((τ/2)·D)`, `D = Σ(A ++ B)`
(`half_block_exact`).  The hopping block in the middle is a product over bonds in circuit order (not symmetrised); it is the exact
flow `exp(τ·K)` only if its generators commute.  `hubbard_strang_local` bounds the sub-step against `exp(τ(D+K))` by the cubic Strang
term plus the defect of the middle block, which xt07's first-order bound controls quadratically.
-/
namespace Yaqs.Trotter

open Matrix NormedSpace Yaqs.TrotterLimit Yaqs.Strang

noncomputable section

section diag
variable {n : Type*} [Fintype n] [DecidableEq n]

/-- a diagonal matrix -/
def IsDiag (M : Matrix n n ℂ) : Prop := ∃ v : n → ℂ, M = Matrix.diagonal v

theorem IsDiag.commute {M N : Matrix n n ℂ} (hM : IsDiag M) (hN : IsDiag N) : Commute M N := by
  obtain ⟨v, rfl⟩ := hM
  obtain ⟨w, rfl⟩ := hN
  unfold Commute SemiconjBy
  rw [Matrix.diagonal_mul_diagonal, Matrix.diagonal_mul_diagonal]
  congr 1
  funext i
  exact mul_comm _ _

omit [Fintype n] in
theorem isDiag_list_sum (l : List (Matrix n n ℂ)) (h : ∀ M ∈ l, IsDiag M) : IsDiag l.sum := by
  induction l with
  | nil => exact ⟨0, by simp⟩
  | cons a l ih =>
    obtain ⟨v, hv⟩ := h a List.mem_cons_self
    obtain ⟨w, hw⟩ := ih fun M hM => h M (List.mem_cons_of_mem _ hM)
    exact ⟨fun i => v i + w i, by rw [List.sum_cons, hv, hw, Matrix.diagonal_add]⟩

/-- a product of exponentials of diagonal matrices is the exponential of the sum -/
theorem prod_exp_diag (l : List (Matrix n n ℂ)) (h : ∀ M ∈ l, IsDiag M) : (l.map exp).prod = exp l.sum := by
  induction l with
  | nil => simp
  | cons a l ih =>
    have hl : ∀ M ∈ l, IsDiag M := fun M hM => h M (List.mem_cons_of_mem _ hM)
    rw [List.map_cons, List.prod_cons, List.sum_cons, ih hl,
      Matrix.exp_add_of_commute _ _ ((h a List.mem_cons_self).commute (isDiag_list_sum l hl))]

/-- a product of exponentials of pairwise commuting matrices is the exponential of the sum -/
theorem prod_exp_commute (l : List (Matrix n n ℂ)) (h : l.Pairwise Commute) : (l.map exp).prod = exp l.sum := by
  induction l with
  | nil => simp
  | cons a l ih =>
    rw [List.pairwise_cons] at h
    rw [List.map_cons, List.prod_cons, List.sum_cons, ih h.2,
      Matrix.exp_add_of_commute _ _ (Commute.list_sum_right _ _ h.1)]

end diag

/-- every Pauli string of the generator list is a diagonal matrix -/
def DiagGens (N : Nat) (gens : List (List Op × Rat)) : Prop := ∀ g ∈ gens, IsDiag (pauliMat N g.1)

theorem DiagGens.append {N : Nat} {a b : List (List Op × Rat)} (ha : DiagGens N a) (hb : DiagGens N b) :
    DiagGens N (a ++ b) := by
  intro g hg
  rcases List.mem_append.mp hg with h | h
  · exact ha g h
  · exact hb g h

theorem DiagGens.scale {N : Nat} {a : List (List Op × Rat)} (ha : DiagGens N a) (c : Rat) :
    DiagGens N (a.map (scaleGen c)) := by
  intro g hg
  obtain ⟨g', hg', rfl⟩ := List.mem_map.mp hg
  exact ha g' hg'

theorem isDiag_zString_nil (N : Nat) : IsDiag (pauliMat N (zString N [])) :=
  ⟨fun _ => 1, by rw [pauliMat_zString_nil]; exact Matrix.diagonal_one.symm⟩

theorem isDiag_zString_one (N q : Nat) : IsDiag (pauliMat N (zString N [q])) := ⟨_, pauliMat_zString_one N q⟩

theorem isDiag_zString_two (N a b : Nat) (hab : a ≠ b) : IsDiag (pauliMat N (zString N [a, b])) :=
  ⟨_, pauliMat_zString_two N a b hab⟩

/-- the chemical-potential terms are diagonal -/
theorem chemTerms_diag (N : Nat) (up dn : Nat → Nat) (sites : List Nat) (mu : Rat) :
    DiagGens N (chemTerms N up dn sites mu) := by
  intro g hg
  unfold chemTerms numberTerms at hg
  simp only [List.mem_flatMap, List.mem_append, List.mem_cons, List.not_mem_nil, or_false] at hg
  obtain ⟨j, _, (h | h) | (h | h)⟩ := hg <;> rw [h]
  · exact isDiag_zString_nil N
  · exact isDiag_zString_one N _
  · exact isDiag_zString_nil N
  · exact isDiag_zString_one N _

/-- the onsite terms are diagonal (mode layout with `↑[j] ≠ ↓[j]`) -/
theorem onsiteTerms_diag (N : Nat) (up dn : Nat → Nat) (sites : List Nat) (u : Rat) (h : ∀ j ∈ sites, up j ≠ dn j) :
    DiagGens N (onsiteTerms N up dn sites u) := by
  intro g hg
  unfold onsiteTerms densityTerms at hg
  simp only [List.mem_flatMap, List.mem_cons, List.not_mem_nil, or_false] at hg
  obtain ⟨j, hj, h1 | h1 | h1 | h1⟩ := hg <;> rw [h1]
  · exact isDiag_zString_nil N
  · exact isDiag_zString_one N _
  · exact isDiag_zString_one N _
  · exact isDiag_zString_two N _ _ (h j hj)

theorem genMat_isDiag (N : Nat) (g : List Op × Rat) (h : IsDiag (pauliMat N g.1)) : IsDiag (genMat N g) := by
  obtain ⟨v, hv⟩ := h
  refine ⟨fun i => (-(((g.2 : ℝ) : ℂ)) * Complex.I) * v i, ?_⟩
  unfold genMat
  rw [hv]
  ext i j
  by_cases hij : i = j <;> simp [Matrix.diagonal, hij]

/-- **a block of diagonal generators is the exact flow of their sum** -/
theorem stepUnitary_diag (N : Nat) (gens : List (List Op × Rat)) (h : DiagGens N gens) :
    stepUnitary N gens = exp (genSum N gens) := by
  unfold stepUnitary genSum
  have e : (gens.map fun g => exp (genMat N g)) = (gens.map (genMat N)).map exp := by
    rw [List.map_map]; rfl
  rw [e]
  apply prod_exp_diag
  intro M hM
  obtain ⟨g, hg, rfl⟩ := List.mem_map.mp hM
  exact genMat_isDiag N g (h g hg)

theorem genSum_skew (N : Nat) (gens : List (List Op × Rat)) : (genSum N gens)ᴴ = -genSum N gens := by
  unfold genSum
  apply skew_list_sum
  intro A hA
  obtain ⟨g, _, rfl⟩ := List.mem_map.mp hA
  exact genMat_skew N g

/-- the outer half blocks `½A ½B` and `½B ½A` of the palindromic arrangement are both exactly `exp((τ/2)·Σ(A ++ B))` when the
    `A`, `B` generators are diagonal — this is what makes the arrangement symmetric although the lists are not reversed term by term -/
theorem half_block_exact (N : Nat) (A B : List (List Op × Rat)) (hA : DiagGens N A) (hB : DiagGens N B) (τ : Rat) :
    stepUnitary N (A.map (scaleGen (τ / 2)) ++ B.map (scaleGen (τ / 2)))
        = exp (((((τ : ℚ) : ℝ) : ℂ) / 2) • genSum N (A ++ B)) ∧
    stepUnitary N (B.map (scaleGen (τ / 2)) ++ A.map (scaleGen (τ / 2)))
        = exp (((((τ : ℚ) : ℝ) : ℂ) / 2) • genSum N (A ++ B)) := by
  have hc : (((τ / 2 : ℚ) : ℝ)) • genSum N (A ++ B) = ((((τ : ℚ) : ℝ) : ℂ) / 2) • genSum N (A ++ B) := by
    rw [real_smul_eq_complex]; push_cast; rfl
  constructor
  · rw [stepUnitary_diag N _ ((hA.scale _).append (hB.scale _)), genSum_append, genSum_map_scale, genSum_map_scale,
      ← smul_add, ← genSum_append, hc]
  · rw [stepUnitary_diag N _ ((hB.scale _).append (hA.scale _)), genSum_append, genSum_map_scale, genSum_map_scale,
      ← smul_add, add_comm, ← genSum_append, hc]

section l2
open scoped Matrix.Norms.L2Operator

/-- **the palindromic sub-step against the exact flow**: with diagonal `A`, `B` (chemical potential, onsite) and any middle list `C`
    (hopping), `D = Σ(A ++ B)`, `K = ΣC`, `σ = |τ|(‖D‖ + ‖K‖)`:
    * the sub-step is `e^{(τ/2)D} · M(τ) · e^{(τ/2)D}` with `M(τ)` the product of the hopping factors in circuit order,
    * `‖step − e^{τ(D+K)}‖ ≤ ‖M(τ) − e^{τK}‖ + σ³/3 · e^σ`, and
    * `‖M(τ) − e^{τK}‖ ≤ τ² s² e^{|τ|s}`, `s = Σ‖C_k‖` (xt07's bound for the unsymmetrised inner product). -/
theorem hubbard_strang_local (N : Nat) (A B C : List (List Op × Rat)) (hA : DiagGens N A) (hB : DiagGens N B) (τ : Rat) :
    stepUnitary N (secondOrderGens A B C τ)
        = exp (((((τ : ℚ) : ℝ) : ℂ) / 2) • genSum N (A ++ B)) * stepUnitary N (C.map (scaleGen τ))
          * exp (((((τ : ℚ) : ℝ) : ℂ) / 2) • genSum N (A ++ B)) ∧
    ‖stepUnitary N (secondOrderGens A B C τ) - exp ((((τ : ℚ) : ℝ) : ℂ) • genSum N (A ++ B ++ C))‖
      ≤ ‖stepUnitary N (C.map (scaleGen τ)) - exp ((((τ : ℚ) : ℝ) : ℂ) • genSum N C)‖
        + (|((τ : ℚ) : ℝ)| * (‖genSum N (A ++ B)‖ + ‖genSum N C‖)) ^ 3 / 3
            * Real.exp (|((τ : ℚ) : ℝ)| * (‖genSum N (A ++ B)‖ + ‖genSum N C‖)) ∧
    ‖stepUnitary N (C.map (scaleGen τ)) - exp ((((τ : ℚ) : ℝ) : ℂ) • genSum N C)‖
      ≤ ((τ : ℚ) : ℝ) ^ 2 * ((C.map (genMat N)).map norm).sum ^ 2
          * Real.exp (|((τ : ℚ) : ℝ)| * ((C.map (genMat N)).map norm).sum) := by
  obtain ⟨h1, h2⟩ := half_block_exact N A B hA hB τ
  have hstruct : stepUnitary N (secondOrderGens A B C τ)
        = exp (((((τ : ℚ) : ℝ) : ℂ) / 2) • genSum N (A ++ B)) * stepUnitary N (C.map (scaleGen τ))
          * exp (((((τ : ℚ) : ℝ) : ℂ) / 2) • genSum N (A ++ B)) := by
    unfold secondOrderGens
    rw [List.append_assoc (A.map _ ++ B.map _ ++ C.map _), stepUnitary_append, stepUnitary_append, h1, h2]
  refine ⟨hstruct, ?_, ?_⟩
  · rw [hstruct, genSum_append (N) (A ++ B) C]
    have hτ2 : (((τ : ℚ) : ℝ) : ℂ) / 2 = ((((τ : ℚ) : ℝ) / 2 : ℝ) : ℂ) := by push_cast; rfl
    have hW : ‖exp (((((τ : ℚ) : ℝ) : ℂ) / 2) • genSum N (A ++ B))‖ ≤ 1 := by
      rw [hτ2]
      exact l2_norm_le_one_of_unitary (exp_skew_unitary (skew_real_smul (genSum_skew N _) _))
    have h := strang_inexact_middle_smul l2_norm_one_le (((τ : ℚ) : ℝ) : ℂ) (genSum N (A ++ B)) (genSum N C)
      (stepUnitary N (C.map (scaleGen τ))) hW
    rw [Complex.norm_real, Real.norm_eq_abs] at h
    exact h
  · have h := prodExp_second_order (C.map (genMat N)) ((τ : ℚ) : ℝ)
    rw [stepUnitary_scale]
    unfold stepCurve
    rw [real_smul_eq_complex] at h
    exact h

/-- when the middle generators commute pairwise (e.g. no bond, or a single bond per spin species) the middle block is the exact flow -/
theorem middle_exact_of_commute (N : Nat) (C : List (List Op × Rat)) (τ : Rat)
    (hC : ((C.map (scaleGen τ)).map (genMat N)).Pairwise Commute) :
    stepUnitary N (C.map (scaleGen τ)) = exp ((((τ : ℚ) : ℝ) : ℂ) • genSum N C) := by
  have e : stepUnitary N (C.map (scaleGen τ)) = (((C.map (scaleGen τ)).map (genMat N)).map exp).prod := by
    unfold stepUnitary; simp only [List.map_map, Function.comp_def]
  rw [e, prod_exp_commute _ hC]
  have := genSum_map_scale N τ C
  unfold genSum at this ⊢
  rw [this, real_smul_eq_complex]

theorem stepUnitary_norm_le_one (N : Nat) (gens : List (List Op × Rat)) : ‖stepUnitary N gens‖ ≤ 1 := by
  unfold stepUnitary
  apply norm_list_prod_le_one gens (fun g => exp (genMat N g)) l2_norm_one_le
  intro g _
  exact l2_norm_le_one_of_unitary (exp_skew_unitary (genMat_skew N g))

/-- `m` palindromic sub-steps against `m` exact steps: the local defects add (all factors unitary) -/
theorem hubbard_strang_global (N : Nat) (A B C : List (List Op × Rat)) (hA : DiagGens N A) (hB : DiagGens N B) (τ : Rat)
    (m : ℕ) :
    ‖stepUnitary N (secondOrderGens A B C τ) ^ m - exp (m • ((((τ : ℚ) : ℝ) : ℂ) • genSum N (A ++ B ++ C)))‖
      ≤ m * (‖stepUnitary N (C.map (scaleGen τ)) - exp ((((τ : ℚ) : ℝ) : ℂ) • genSum N C)‖
        + (|((τ : ℚ) : ℝ)| * (‖genSum N (A ++ B)‖ + ‖genSum N C‖)) ^ 3 / 3
            * Real.exp (|((τ : ℚ) : ℝ)| * (‖genSum N (A ++ B)‖ + ‖genSum N C‖))) := by
  rw [Matrix.exp_nsmul]
  have hE : ‖exp ((((τ : ℚ) : ℝ) : ℂ) • genSum N (A ++ B ++ C))‖ ≤ 1 :=
    l2_norm_le_one_of_unitary (exp_skew_unitary (skew_real_smul (genSum_skew N _) _))
  exact (norm_pow_sub_pow_le _ _ (stepUnitary_norm_le_one N _) hE m).trans
    (mul_le_mul_of_nonneg_left (hubbard_strang_local N A B C hA hB τ).2.1 (Nat.cast_nonneg m))

/-! ### the two builders -/

/-- chemical-potential, onsite and hopping term lists of the 1-D builder (`↑[j] = j`, `↓[j] = L + j`) -/
def fh1dChemT (L : Nat) (mu : Rat) := chemTerms (2 * L) (fun j => j) (fun j => L + j) (List.range L) mu
def fh1dOnsiteT (L : Nat) (u : Rat) := onsiteTerms (2 * L) (fun j => j) (fun j => L + j) (List.range L) u
def fh1dHopT (L : Nat) (t : Rat) := hopTerms (2 * L) (fun j => j) (fun j => L + j) (fh1dBonds L) t
/-- the same for the 2-D builder (`↑[p] = 2p`, `↓[p] = 2p + 1`) -/
def fh2dChemT (Lx Ly : Nat) (mu : Rat) :=
  chemTerms (2 * (Lx * Ly)) (fun p => 2 * p) (fun p => 2 * p + 1) (List.range (Lx * Ly)) mu
def fh2dOnsiteT (Lx Ly : Nat) (u : Rat) :=
  onsiteTerms (2 * (Lx * Ly)) (fun p => 2 * p) (fun p => 2 * p + 1) (List.range (Lx * Ly)) u
def fh2dHopT (Lx Ly : Nat) (t : Rat) :=
  hopTerms (2 * (Lx * Ly)) (fun p => 2 * p) (fun p => 2 * p + 1) (fh2dBonds Lx Ly) t

theorem fh1d_diag (L : Nat) (u mu : Rat) : DiagGens (2 * L) (fh1dChemT L mu) ∧ DiagGens (2 * L) (fh1dOnsiteT L u) :=
  ⟨chemTerms_diag _ _ _ _ _, onsiteTerms_diag _ _ _ _ _ fun j hj => by
    have := List.mem_range.mp hj
    show j ≠ L + j
    omega⟩

theorem fh2d_diag (Lx Ly : Nat) (u mu : Rat) :
    DiagGens (2 * (Lx * Ly)) (fh2dChemT Lx Ly mu) ∧ DiagGens (2 * (Lx * Ly)) (fh2dOnsiteT Lx Ly u) :=
  ⟨chemTerms_diag _ _ _ _ _, onsiteTerms_diag _ _ _ _ _ fun p _ => by
    show 2 * p ≠ 2 * p + 1
    omega⟩

theorem fh1d_genSum (L : Nat) (u t mu : Rat) :
    genSum (2 * L) (fh1dChemT L mu ++ fh1dOnsiteT L u ++ fh1dHopT L t) = (-Complex.I) • hubbardJW1d L u t mu := by
  rw [genSum_eq_ham]
  have h2 := hubbard1d_jw L u t mu
  unfold hubbard1dTerms hubbardTerms at h2
  unfold fh1dChemT fh1dOnsiteT fh1dHopT hubbardJW1d
  rw [h2]

theorem fh2d_genSum (Lx Ly : Nat) (u t mu : Rat) :
    genSum (2 * (Lx * Ly)) (fh2dChemT Lx Ly mu ++ fh2dOnsiteT Lx Ly u ++ fh2dHopT Lx Ly t)
      = (-Complex.I) • hubbardJW2d Lx Ly u t mu := by
  rw [genSum_eq_ham]
  have h2 := hubbard2d_jw Lx Ly u t mu
  unfold hubbard2dTerms hubbardTerms at h2
  unfold fh2dChemT fh2dOnsiteT fh2dHopT hubbardJW2d
  rw [h2]

theorem fh1d_substep_palindrome (L : Nat) (u t mu dt : Rat) (n : Nat) (hn : n ≠ 0) :
    circMat (2 * L) (fh1dSubstep L u t mu dt n)
      = stepUnitary (2 * L) (secondOrderGens (fh1dChemT L mu) (fh1dOnsiteT L u) (fh1dHopT L t) (dt / n)) := by
  rw [fh1d_substep_matrix, fh1dGens_structure L u t mu dt n hn]
  rfl

theorem fh2d_substep_palindrome (Lx Ly : Nat) (u t mu dt : Rat) (n : Nat) (hn : n ≠ 0) :
    circMat (2 * (Lx * Ly)) (fh2dSubstep Lx Ly u t mu dt n)
      = stepUnitary (2 * (Lx * Ly))
          (secondOrderGens (fh2dChemT Lx Ly mu) (fh2dOnsiteT Lx Ly u) (fh2dHopT Lx Ly t) (dt / n)) := by
  rw [fh2d_substep_matrix, fh2dGens_structure Lx Ly u t mu dt n hn]
  rfl

theorem fh1d_circuit_pow (L : Nat) (u t mu dt : Rat) (n steps : Nat) :
    circMat (2 * L) (fh1dCircuit L u t mu dt n steps) = circMat (2 * L) (fh1dSubstep L u t mu dt n) ^ (n * steps) := by
  unfold fh1dCircuit
  rw [circMat_repeat]

theorem fh2d_circuit_pow (Lx Ly : Nat) (u t mu dt : Rat) (n steps : Nat) :
    circMat (2 * (Lx * Ly)) (fh2dCircuit Lx Ly u t mu dt n steps)
      = circMat (2 * (Lx * Ly)) (fh2dSubstep Lx Ly u t mu dt n) ^ (n * steps) := by
  unfold fh2dCircuit
  rw [circMat_repeat, Nat.mul_comm steps n]

end l2

end

end Yaqs.Trotter
