import YaqsModel.Model.Heff
import YaqsModel.Lemmas.Heff
import Mathlib.Data.List.GetD
import Mathlib.Data.List.Range
import Mathlib.Tactic.Ring
import Mathlib.Tactic.Linarith

/-! Refinement of the executable `rightBlocksLoop` (`Model/Heff.lean`, run by `Driver/Krylov.lean`, request `rightchain`) to the
    function-level `rightEnvChain` the theorems `env_update_assoc` / `heff_hermitian_chain` of `Props/C19.lean` are about
    (xp19 extension).  The loop materialises every block as a row-major array (as numpy does) and reads the next block's input back
    from that array; on the index range a block is read on, that round trip is the identity. -/
namespace Yaqs.Heff

/-! ### reading a materialised tensor back -/

theorem flatMap_const_length {α : Type*} (f : ℕ → List α) (L : ℕ) (hL : ∀ i, (f i).length = L) :
    ∀ d0, ((List.range d0).flatMap f).length = d0 * L := by
  intro d0
  induction d0 with
  | zero => simp
  | succ d0 ih => rw [List.range_succ, List.flatMap_append, List.length_append, ih]; simp [hL]; ring

/-- entry `i·L + r` of the concatenation of `d0` chunks of length `L` is entry `r` of chunk `i` -/
theorem getElem?_flatMap_const {α : Type*} (f : ℕ → List α) (L : ℕ) (hL : ∀ i, (f i).length = L) :
    ∀ d0 i r, i < d0 → r < L → ((List.range d0).flatMap f)[i * L + r]? = (f i)[r]? := by
  intro d0
  induction d0 with
  | zero => intro i r hi; omega
  | succ d0 ih =>
    intro i r hi hr
    rw [List.range_succ, List.flatMap_append]
    have hlen := flatMap_const_length f L hL d0
    by_cases hid : i < d0
    · have hlt : i * L + r < ((List.range d0).flatMap f).length := by
        rw [hlen]
        have : (i + 1) * L ≤ d0 * L := Nat.mul_le_mul_right L hid
        have h2 : (i + 1) * L = i * L + L := by ring
        omega
      rw [List.getElem?_append_left hlt]
      exact ih i r hid hr
    · have hi' : i = d0 := by omega
      subst hi'
      have hge : ((List.range i).flatMap f).length ≤ i * L + r := by rw [hlen]; omega
      rw [List.getElem?_append_right hge, hlen]
      simp

theorem entries3_getElem? {α : Type*} (d0 d1 d2 : ℕ) (t : ℕ → ℕ → ℕ → α) (i j k : ℕ) (hi : i < d0) (hj : j < d1)
    (hk : k < d2) : (entries3 d0 d1 d2 t)[flat3 d1 d2 i j k]? = some (t i j k) := by
  unfold entries3 flat3
  have hin : ∀ i', ((List.range d1).flatMap fun j => (List.range d2).map fun k => t i' j k).length = d1 * d2 :=
    fun i' => flatMap_const_length _ d2 (fun j => by simp) d1
  have hidx : (i * d1 + j) * d2 + k = i * (d1 * d2) + (j * d2 + k) := by ring
  have hr : j * d2 + k < d1 * d2 := by
    have : (j + 1) * d2 ≤ d1 * d2 := Nat.mul_le_mul_right d2 hj
    have h2 : (j + 1) * d2 = j * d2 + d2 := by ring
    omega
  rw [hidx, getElem?_flatMap_const _ (d1 * d2) hin d0 i (j * d2 + k) hi hr,
    getElem?_flatMap_const _ d2 (fun j => by simp) d1 j k hj hk]
  simp [hk]

/-- the round trip array → tensor is the identity on the index range of the shape -/
theorem ofFlat3_entries3 (d0 d1 d2 : ℕ) (t : ℕ → ℕ → ℕ → CRat) (i j k : ℕ) (hi : i < d0) (hj : j < d1) (hk : k < d2) :
    ofFlat3 d1 d2 (entries3 d0 d1 d2 t).toArray i j k = t i j k := by
  unfold ofFlat3
  rw [Array.getD_eq_getD_getElem?, List.getElem?_toArray, entries3_getElem? d0 d1 d2 t i j k hi hj hk]
  rfl

/-! ### `update_right_environment` only reads its block on the index range of its shape -/

theorem sumTo_congr {α : Type*} [Zero α] [Add α] (f g : ℕ → α) : ∀ n, (∀ i, i < n → f i = g i) → sumTo n f = sumTo n g := by
  intro n
  induction n with
  | zero => intro _; rfl
  | succ n ih =>
    intro h
    rw [sumTo, sumTo, ih (fun i hi => h i (by omega)), h n (by omega)]

theorem updateRight_congr {α : Type*} [Zero α] [Add α] [Mul α] (cj : α → α) (d : SiteDims) (R R' : ℕ → ℕ → ℕ → α)
    (W : ℕ → ℕ → ℕ → ℕ → α) (ket bra : ℕ → ℕ → ℕ → α)
    (h : ∀ b r B, b < d.b → r < d.r → B < d.bb → R b r B = R' b r B) :
    updateRight cj d R W ket bra = updateRight cj d R' W ket bra := by
  funext a l A'
  unfold updateRight
  simp only
  refine sumTo_congr _ _ _ (fun o _ => ?_)
  refine sumTo_congr _ _ _ (fun B hB => ?_)
  congr 1
  refine sumTo_congr _ _ _ (fun p _ => ?_)
  refine sumTo_congr _ _ _ (fun r hr => ?_)
  congr 1
  refine sumTo_congr _ _ _ (fun b hb => ?_)
  rw [h b r B hb hr hB]

/-! ### the loop -/

/-- shape of `right_blocks[i]`: the right legs of site `i` for the last site, the left legs of site `i + 1` otherwise
    (equal to the right legs of site `i` when the chain's dimensions match) -/
def blockShape (s : Site CRat) : List (Site CRat) → ℕ × ℕ × ℕ
  | [] => (s.d.b, s.d.r, s.d.bb)
  | t :: _ => (t.d.a, t.d.l, t.d.aa)

/-- **refinement**: for a chain with matching bond dimensions, `rightBlocksLoop` returns, site by site, the row-major array
    of `rightEnvChain` over the sites to the right of that site, with the identity boundary block -/
theorem rightBlocksLoop_spec : ∀ (rest : List (Site CRat)) (s : Site CRat), ChainDims (s :: rest) →
    rightBlocksLoop (s :: rest) =
      (blockShape s rest,
        (entries3 (blockShape s rest).1 (blockShape s rest).2.1 (blockShape s rest).2.2
          (rightEnvChain CRat.conj idEnv rest)).toArray) :: rightBlocksLoop rest := by
  intro rest
  induction rest with
  | nil => intro s _; rfl
  | cons t rest' ih =>
    intro s hd
    obtain ⟨_, _, _, hd'⟩ := hd
    have e := ih t hd'
    -- the block read back from the array agrees with the function on the range `update_right_environment` reads
    have key : updateRight CRat.conj t.d
        (ofFlat3 (blockShape t rest').2.1 (blockShape t rest').2.2
          (entries3 (blockShape t rest').1 (blockShape t rest').2.1 (blockShape t rest').2.2
            (rightEnvChain CRat.conj idEnv rest')).toArray) t.W t.ket t.ket =
        updateRight CRat.conj t.d (rightEnvChain CRat.conj idEnv rest') t.W t.ket t.ket := by
      refine updateRight_congr _ _ _ _ _ _ _ (fun b r B hb hr hB => ?_)
      cases rest' with
      | nil => exact ofFlat3_entries3 _ _ _ _ b r B hb hr hB
      | cons t' rest'' =>
        obtain ⟨h1, h2, h3, _⟩ := hd'
        simp only [blockShape]
        exact ofFlat3_entries3 _ _ _ _ b r B (h1 ▸ hb) (h2 ▸ hr) (h3 ▸ hB)
    rw [rightBlocksLoop, e]
    dsimp only
    rw [key]
    rfl

/-! ### the remaining input / output conventions of the driver -/

theorem entries2_getElem? {α : Type*} (d0 d1 : ℕ) (t : ℕ → ℕ → α) (i j : ℕ) (hi : i < d0) (hj : j < d1) :
    (entries2 d0 d1 t)[flat2 d1 i j]? = some (t i j) := by
  unfold entries2 flat2
  rw [getElem?_flatMap_const _ d1 (fun i => by simp) d0 i j hi hj]
  simp [hj]

theorem ofFlat2_entries2 (d0 d1 : ℕ) (t : ℕ → ℕ → CRat) (i j : ℕ) (hi : i < d0) (hj : j < d1) :
    ofFlat2 d1 (entries2 d0 d1 t).toArray i j = t i j := by
  unfold ofFlat2
  rw [Array.getD_eq_getD_getElem?, List.getElem?_toArray, entries2_getElem? d0 d1 t i j hi hj]
  rfl

theorem flat4_lt (d0 d1 d2 d3 i j k m : ℕ) (hi : i < d0) (hj : j < d1) (hk : k < d2) (hm : m < d3) :
    flat4 d1 d2 d3 i j k m < d0 * d1 * d2 * d3 := by
  have h1 := flat2_lt d0 d1 i j hi hj
  have h2 := flat2_lt (d0 * d1) d2 (flat2 d1 i j) k h1 hk
  have h3 := flat2_lt (d0 * d1 * d2) d3 (flat2 d2 (flat2 d1 i j) k) m h2 hm
  simpa [flat4, flat2] using h3

/-- a matrix applied to the one-hot vector `e_col` is its column `col` -/
theorem matVec_oneHot (n : ℕ) (M : ℕ → ℕ → CRat) (col row : ℕ) (hc : col < n) :
    matVec n M (oneHot col) row = M row col := by
  unfold matVec oneHot
  rw [sumTo_eq_sum]
  simp only [mul_ite, mul_one, mul_zero]
  rw [Finset.sum_ite_eq' (Finset.range n) col, if_pos (Finset.mem_range.mpr hc)]

end Yaqs.Heff
