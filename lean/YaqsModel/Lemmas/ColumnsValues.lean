import YaqsModel.Lemmas.ColumnsDense
import YaqsModel.Props.C11
import YaqsModel.Lemmas.LocalOp
import YaqsModel.Lemmas.CRat

/-!
# The value written for an observable is `⟨ψ|O|ψ⟩` of the dense state (C16 extension, helper lemmas)

Glue between C11 (`local_expect_dense*`: the site-local contraction equals the dense overlap), C14 / `Lemmas/LocalOp`
(`Psi`, `act`, `Represents`: an operation on the chain acts on the dense state as an embedded operator) and the column
states of `Lemmas/ColumnsDense.lean`.  States here are the matrix-valued amplitudes `Psi n ts` of a chain (one matrix over
the two boundary bonds per configuration; in the code the boundary bonds have dimension one and the single entry is the
amplitude), operators act through `LocalOp.act`.
-/
namespace Yaqs.ColumnValues

open Matrix Yaqs.Embed Yaqs.Layers Yaqs.LocalOp

variable {K : Type*} [CommRing K] {ι : Type*} [Fintype ι] [DecidableEq ι]

/-- dense operators acting on matrix-valued amplitudes -/
def actAction (n : Nat) : OpAction (Matrix (Fin n → Fin 2) (Fin n → Fin 2) K) ((Fin n → Fin 2) → Matrix ι ι K) where
  app := act
  app_one := act_one
  app_mul := act_mul

/-! ## the MPS follows the dense state -/

/-- what one event does to the chain: `apply g` is the code's gate application (`apply_single_qubit_gate` /
    `apply_two_qubit_gate`) -/
def mpsStep (apply : Instr → List (Mps.Alg.Site (Fin 2) ι K) → List (Mps.Alg.Site (Fin 2) ι K))
    (ts : List (Mps.Alg.Site (Fin 2) ι K)) : Event → List (Mps.Alg.Site (Fin 2) ι K)
  | .app1 t q => apply (.gate1 t q) ts
  | .app2 t a b => apply (.gate2 t a b) ts
  | _ => ts

def mpsAfter (apply : Instr → List (Mps.Alg.Site (Fin 2) ι K) → List (Mps.Alg.Site (Fin 2) ι K))
    (ts : List (Mps.Alg.Site (Fin 2) ι K)) (evs : List Event) : List (Mps.Alg.Site (Fin 2) ι K) :=
  evs.foldl (mpsStep apply) ts

/-- if every gate application is exact (`Represents`), the dense state of the chain after any sequence of events is the
    state the event semantics of `ColumnsDense` computes -/
theorem mps_tracks (n : Nat) (apply : Instr → List (Mps.Alg.Site (Fin 2) ι K) → List (Mps.Alg.Site (Fin 2) ι K))
    (sem : Instr → Matrix (Fin n → Fin 2) (Fin n → Fin 2) K) (G : List Instr)
    (hrep : ∀ g ∈ G, g.isGate = true → Represents n (apply g) (sem g))
    (evs : List Event) (hev : ∀ e ∈ evs, e.isApp = true → ∃ g ∈ G, g.isGate = true ∧ Event.ofInstr g = some e)
    (ts : List (Mps.Alg.Site (Fin 2) ι K)) (hlen : ts.length = n) :
    (mpsAfter apply ts evs).length = n ∧
      Psi n (mpsAfter apply ts evs) = finalState (actAction n) sem (Psi n ts) evs := by
  induction evs generalizing ts with
  | nil => exact ⟨hlen, rfl⟩
  | cons e r ih =>
    have hr : ∀ e' ∈ r, e'.isApp = true → ∃ g ∈ G, g.isGate = true ∧ Event.ofInstr g = some e' :=
      fun e' he' => hev e' (by simp [he'])
    cases e with
    | app1 t q =>
      obtain ⟨g, hgG, hgg, hge⟩ := hev (.app1 t q) (by simp) rfl
      have : g = .gate1 t q := by cases g <;> simp_all [Event.ofInstr]
      subst this
      obtain ⟨h1, h2⟩ := hrep _ hgG hgg ts hlen
      have := ih hr (apply (.gate1 t q) ts) h1
      simpa [mpsAfter, mpsStep, finalState, stepState, actAction, h2] using this
    | app2 t a b =>
      obtain ⟨g, hgG, hgg, hge⟩ := hev (.app2 t a b) (by simp) rfl
      have : g = .gate2 t a b := by cases g <;> simp_all [Event.ofInstr]
      subst this
      obtain ⟨h1, h2⟩ := hrep _ hgG hgg ts hlen
      have := ih hr (apply (.gate2 t a b) ts) h1
      simpa [mpsAfter, mpsStep, finalState, stepState, actAction, h2] using this
    | eval c => simpa [mpsAfter, mpsStep, finalState, stepState] using ih hr ts hlen
    | shots => simpa [mpsAfter, mpsStep, finalState, stepState] using ih hr ts hlen

/-- the gate applications of an event list that realises the schedule of `pre` are gates of `pre` -/
theorem apps_from_schedule (pre : List Instr) (evs : List Event)
    (h : evs.filter Event.isApp = (schedule pre).filterMap Event.ofInstr) :
    ∀ e ∈ evs, e.isApp = true → ∃ g ∈ pre, g.isGate = true ∧ Event.ofInstr g = some e := by
  intro e he ha
  have : e ∈ evs.filter Event.isApp := List.mem_filter.mpr ⟨he, ha⟩
  rw [h, List.mem_filterMap] at this
  obtain ⟨g, hg, hge⟩ := this
  have hg' : g ∈ gates pre := (schedule_perm_gates pre).mem_iff.mp hg
  exact ⟨g, (List.mem_filter.mp hg').1, (List.mem_filter.mp hg').2, hge⟩

/-! ## the written value is the dense expectation value -/

variable [StarRing K]

/-- `⟨Ψ| E |Ψ⟩ = Σ_c tr(Ψ(c)ᴴ · (EΨ)(c))` — for boundary bonds of dimension one: `Σ_c conj(ψ_c) (Eψ)_c` -/
def denseExpect {n : Nat} (E : Matrix (Fin n → Fin 2) (Fin n → Fin 2) K) (Ψ : (Fin n → Fin 2) → Matrix ι ι K) : K :=
  ∑ c, trace ((Ψ c)ᴴ * act E Ψ c)

omit [StarRing K] in
theorem chain_bridge (ts : List (Mps.Alg.Site (Fin 2) ι K)) (cfg : List (Fin 2)) :
    LocalExpect.chain ts cfg = Mps.Alg.chain ts cfg := by
  induction ts generalizing cfg with
  | nil => simp [LocalExpect.chain]
  | cons A r ih =>
    cases cfg with
    | nil => simp [LocalExpect.chain]
    | cons s c => rw [Mps.Alg.chain_cons, ← ih]; rfl

omit [StarRing K] in
theorem sumCfg_bridge (n : Nat) (F : List (Fin 2) → K) :
    LocalExpect.sumCfg n F = ∑ c : Fin n → Fin 2, F (List.ofFn c) := by
  rw [← sumCfg_eq_sum]
  induction n generalizing F with
  | zero => rfl
  | succ n ih =>
    simp only [LocalExpect.sumCfg, Mps.Alg.sumCfg]
    exact Finset.sum_congr rfl fun s _ => ih _

/-- the dense overlap of C11 in terms of `Psi` -/
theorem overlap_Psi (n : Nat) (X Y : List (Mps.Alg.Site (Fin 2) ι K)) (hX : X.length = n) (hY : Y.length = n) :
    LocalExpect.overlap X Y = ∑ c, trace ((Psi n X c)ᴴ * Psi n Y c) := by
  rw [LocalExpect.overlap_is_dense_sum X Y (by rw [hX, hY]), hX, sumCfg_bridge]
  simp only [Psi, chain_bridge]

/-- **one-site value**: with the centre on site `p` (environments act as the identity on the centre tensor `C`) the
    number `local_expect` computes is `⟨Ψ| O_p |Ψ⟩` of the dense state of the chain -/
theorem one_site_value (n : Nat) (pl pr : List (Mps.Alg.Site (Fin 2) ι K)) (C : Mps.Alg.Site (Fin 2) ι K)
    (O : Matrix (Fin 2) (Fin 2) K) (p : Fin n) (hp : (p : Nat) = pl.length) (hlen : (pl ++ C :: pr).length = n)
    (hL : ∀ s, LocalExpect.envL 1 pl * C s = C s) (hR : ∀ s, C s * LocalExpect.envR pr = C s) :
    LocalExpect.localContract C (LocalExpect.applyOp (fun s t => O s t) C)
      = denseExpect (embedL (siteLens p) O) (Psi n (pl ++ C :: pr)) := by
  rw [← LocalExpect.local_expect_dense pl pr C _ hL hR,
    overlap_Psi n _ _ hlen (by simpa using hlen)]
  unfold denseExpect
  refine Finset.sum_congr rfl fun c _ => ?_
  rw [← Psi_applySite n pl pr C O p hp]
  rfl

/-- **adjacent two-site value**: centre on the left site `p` of the pair, `q = p + 1`; `A'`, `B'` any split of the merged
    tensor with the 4×4 operator applied -/
theorem two_site_value (n : Nat) (pl pr : List (Mps.Alg.Site (Fin 2) ι K)) (A B A' B' : Mps.Alg.Site (Fin 2) ι K)
    (O : Matrix (Fin 2 × Fin 2) (Fin 2 × Fin 2) K) (p q : Fin n) (hp : (p : Nat) = pl.length)
    (hq : (q : Nat) = pl.length + 1) (hpq : p ≠ q) (hlen : (pl ++ A :: B :: pr).length = n)
    (hθ : ∀ a d, A' a * B' d = ∑ x : Fin 2 × Fin 2, O (a, d) x • (A x.1 * B x.2))
    (hL : ∀ s, LocalExpect.envL 1 pl * A s = A s) (hR : ∀ s, B s * LocalExpect.envR pr = B s) :
    (∑ a, ∑ d, trace ((A a * B d)ᴴ * (A' a * B' d)))
      = denseExpect (embedL (pairLens p q hpq) O) (Psi n (pl ++ A :: B :: pr)) := by
  rw [← LocalExpect.local_expect_dense_two_site pl pr A B A' B' (fun x y => O x y) hθ hL hR,
    overlap_Psi n _ _ hlen (by simpa using hlen)]
  unfold denseExpect
  refine Finset.sum_congr rfl fun c _ => ?_
  rw [← Psi_applyPair n pl pr A B A' B' O (fun s t => by rw [hθ]; rfl) p q hp hq hpq]

/-! ## observable objects and what `evaluate_observables` writes for them -/

/-- the operator an observable object carries: a 2×2 matrix on site `p`, or a 4×4 matrix on the adjacent pair `(p, p+1)`
    (row / column index `(value of site p, value of site p+1)`) -/
inductive ObsData (n : Nat) (K : Type*) where
  | one (p : Fin n) (O : Matrix (Fin 2) (Fin 2) K)
  | two (p q : Fin n) (hq : (q : Nat) = (p : Nat) + 1) (O : Matrix (Fin 2 × Fin 2) (Fin 2 × Fin 2) K)

/-- `sites[0]` -/
def ObsData.site {n : Nat} : ObsData n K → Nat
  | .one p _ => p
  | .two p _ _ _ => p

/-- the dense operator `1 ⊗ … ⊗ O ⊗ … ⊗ 1` on the whole register -/
def ObsData.op {n : Nat} : ObsData n K → Matrix (Fin n → Fin 2) (Fin n → Fin 2) K
  | .one p O => embedL (siteLens p) O
  | .two p q hq O => embedL (pairLens p q (fun e => by subst e; omega)) O

/-- `Written n ts centre d v`: `v` is the number `temp_state.expect(observable)` computes for the object `d` on a
    centre-walked copy of the chain `ts` — a chain `pl ++ C :: pr` with the same dense state as `ts` (gauge moves, C10),
    the orthogonality centre on site `centre = |pl|` (the environments act as the identity on the centre tensor), and `v`
    the site-local contraction of `MPS.local_expect` / `scalar_product(…, sites)`: one-site
    `contract("ijk,ijk", conj C, O·C)`, two-site `contract("abc,dce,abf,dfe->", conj A, conj B, A', B')` with `A'`, `B'`
    any split of the merged pair with `O` applied. -/
def Written (n : Nat) (ts : List (Mps.Alg.Site (Fin 2) ι K)) (centre : Nat) : ObsData n K → K → Prop
  | .one _ O, v => ∃ (pl pr : List (Mps.Alg.Site (Fin 2) ι K)) (C : Mps.Alg.Site (Fin 2) ι K),
      Psi n (pl ++ C :: pr) = Psi n ts ∧ (pl ++ C :: pr).length = n ∧ pl.length = centre ∧
      (∀ s, LocalExpect.envL 1 pl * C s = C s) ∧ (∀ s, C s * LocalExpect.envR pr = C s) ∧
      v = LocalExpect.localContract C (LocalExpect.applyOp (fun s t => O s t) C)
  | .two _ _ _ O, v => ∃ (pl pr : List (Mps.Alg.Site (Fin 2) ι K)) (A B A' B' : Mps.Alg.Site (Fin 2) ι K),
      Psi n (pl ++ A :: B :: pr) = Psi n ts ∧ (pl ++ A :: B :: pr).length = n ∧ pl.length = centre ∧
      (∀ a d, A' a * B' d = ∑ x : Fin 2 × Fin 2, O (a, d) x • (A x.1 * B x.2)) ∧
      (∀ s, LocalExpect.envL 1 pl * A s = A s) ∧ (∀ s, B s * LocalExpect.envR pr = B s) ∧
      v = ∑ a, ∑ d, trace ((A a * B d)ᴴ * (A' a * B' d))

/-- whatever chain the walk produced: if the centre is on the object's first site, the written number is the dense
    `⟨Ψ|O|Ψ⟩` of the state of `ts` (C11 `local_expect_dense`, `local_expect_dense_two_site`) -/
theorem written_dense (n : Nat) (ts : List (Mps.Alg.Site (Fin 2) ι K)) (centre : Nat) (d : ObsData n K) (v : K)
    (hc : d.site = centre) (h : Written n ts centre d v) : v = denseExpect d.op (Psi n ts) := by
  cases d with
  | one p O =>
    obtain ⟨pl, pr, C, hΨ, hlen, hpl, hL, hR, rfl⟩ := h
    rw [← hΨ]
    exact one_site_value n pl pr C O p (by rw [hpl, ← hc]; rfl) hlen hL hR
  | two p q hq O =>
    obtain ⟨pl, pr, A, B, A', B', hΨ, hlen, hpl, hθ, hL, hR, rfl⟩ := h
    rw [← hΨ]
    have hp : (p : Nat) = pl.length := by rw [hpl, ← hc]; rfl
    exact two_site_value n pl pr A B A' B' O p q hp (by rw [hq, hp]) _ hlen hθ hL hR

end Yaqs.ColumnValues

/-! ## concrete instances used by the non-vacuity examples of `Props/C16.lean` -/

namespace Yaqs.Layers.ColumnsExample
open Yaqs Yaqs.CRat

/-- one-qubit gates by tag over ℚ(i): 1 = X, 2 = Y, 3 = Z, otherwise the (unnormalised) Hadamard `[[1,1],[1,-1]]` -/
def g1 : Nat → Matrix (Fin 2) (Fin 2) CRat := fun t =>
  if t = 1 then !![0, 1; 1, 0] else if t = 2 then !![0, -CRat.I; CRat.I, 0] else if t = 3 then !![1, 0; 0, -1]
  else !![1, 1; 1, -1]

/-- two-qubit gates by tag, index `(value of qargs[0], value of qargs[1])`: 1 = CX (control = qargs[0]), otherwise CZ -/
def g2 : Nat → Matrix (Fin 2 × Fin 2) (Fin 2 × Fin 2) CRat := fun t =>
  if t = 1 then Matrix.of fun x y => if x.1 = y.1 ∧ x.2 = y.2 + y.1 then 1 else 0
  else Matrix.of fun x y => if x = y then (if x.1 = 1 ∧ x.2 = 1 then -1 else 1) else 0

/-- `h 1; x 0; cx 0 1; measure 2; y 2` — labelled barrier on `[2,0,1]` — `barrier 1; cz 2 1; z 0; cx 1 0` -/
def pre : List Instr := [.gate1 4 1, .gate1 1 0, .gate2 1 0 1, .measure 2 0, .gate1 2 2]
def post : List Instr := [.barrier [1], .gate2 2 2 1, .gate1 3 0, .gate2 1 1 0]
def ψ0 : (Fin 3 → Fin 2) → CRat := fun c => if c = 0 then 1 else 0

end Yaqs.Layers.ColumnsExample

namespace Yaqs.ColumnValues.Example
open Yaqs Yaqs.LocalOp Yaqs.Layers.ColumnsExample

/-- a two-site product chain with bond dimension one over ℤ: `|0⟩ ⊗ (2|0⟩ + 3|1⟩)` -/
def L0 : Mps.Alg.Site (Fin 2) (Fin 1) ℤ := fun s => if s = 0 then 1 else 0
def C0 : Mps.Alg.Site (Fin 2) (Fin 1) ℤ := fun s => if s = 0 then 2 • (1 : Matrix (Fin 1) (Fin 1) ℤ) else 3 • 1
def gz : Nat → Matrix (Fin 2) (Fin 2) ℤ := fun _ => !![0, 1; 1, 0]
def gzz : Nat → Matrix (Fin 2 × Fin 2) (Fin 2 × Fin 2) ℤ := fun _ => 1


/-- a second product chain `(|0⟩ + 2|1⟩) ⊗ (2|0⟩ + 3|1⟩)`, and `X ⊗ X` as a 4×4 matrix -/
def A0 : Mps.Alg.Site (Fin 2) (Fin 1) ℤ := fun s => if s = 0 then 1 else 2 • 1
def xx : Matrix (Fin 2 × Fin 2) (Fin 2 × Fin 2) ℤ := Matrix.of fun x y => if x.1 ≠ y.1 ∧ x.2 ≠ y.2 then 1 else 0
/-- `X` applied to a site tensor: the split of the merged pair with `X ⊗ X` applied is `(X·A, X·B)` -/
def flipS (T : Mps.Alg.Site (Fin 2) (Fin 1) ℤ) : Mps.Alg.Site (Fin 2) (Fin 1) ℤ := fun s => T (1 - s)

end Yaqs.ColumnValues.Example
