import YaqsModel.Model.LanczosH
import YaqsModel.Model.Krylov
import YaqsModel.Lemmas.LanczosH
import YaqsModel.Lemmas.CRat
import Mathlib.Analysis.Real.Sqrt
import Mathlib.Data.List.GetD
import Mathlib.Data.Complex.Basic
import Mathlib.Data.Complex.BigOperators
import Mathlib.Algebra.BigOperators.Fin
import Mathlib.Tactic.FieldSimp
import Mathlib.Tactic.Linarith

/-! Refinement of the executable recurrence `lanczosC` / `lanczosCLoop` (`Model/LanczosH.lean`, run by `Driver/Krylov.lean`, request
    `lanczosc`) to the relational specification `LanczosRun` the theorems of `Props/C19.lean` are about (xp19 extension).

    The model iterates *unnormalised* vectors over ℚ(i) (no square roots): `u₀ = v`, `u_{j+1} = A u_j − a_j u_j − (N_j / N_{j-1}) u_{j-1}`,
    `N_j = ⟨u_j, u_j⟩`, `a_j = Re⟨u_j, A u_j⟩ / N_j`, and returns `alpha = [a_j]`, `betaSq = [N_{j+1} / N_j]`.
    Layer A: over ℂ, the normalised vectors `v_j = u_j / √N_j` with `α_j = a_j`, `β_j = √(N_{j+1} / N_j)` form a `LanczosRun`.
    Layer B: the list operations of the model are the vector operations over ℂ under the embedding ℚ(i) → ℂ.
    Layer C: the loop with its accumulators is the iteration of one step function. -/
namespace Yaqs.Krylov

open Matrix

/-! ### Layer A — normalising an unnormalised run -/
section layerA
variable {n : Type*} [Fintype n]

/-- the unnormalised Hermitian Lanczos recurrence (exact arithmetic), `m` vectors, none of them zero -/
structure URun (A : Matrix n n ℂ) (u : ℕ → n → ℂ) (a N : ℕ → ℝ) (m : ℕ) : Prop where
  norm : ∀ j, j < m → ip (u j) (u j) = (N j : ℂ)
  pos : ∀ j, j < m → 0 < N j
  first : 1 < m → u 1 = A *ᵥ u 0 - (a 0 : ℂ) • u 0
  step : ∀ j, j + 2 < m →
    u (j + 2) = A *ᵥ u (j + 1) - (a (j + 1) : ℂ) • u (j + 1) - ((N (j + 1) / N j : ℝ) : ℂ) • u j
  alpha : ∀ j, j < m → a j = (ip (u j) (A *ᵥ u j)).re / N j

theorem ip_herm_real (A : Matrix n n ℂ) (hA : Aᴴ = A) (x : n → ℂ) :
    ip x (A *ᵥ x) = ((ip x (A *ᵥ x)).re : ℂ) := by
  have h : star (ip x (A *ᵥ x)) = ip x (A *ᵥ x) := by rw [← ip_conj, ip_herm A hA]
  exact (Complex.conj_eq_iff_re.mp h).symm

/-- Layer A: `v_j = u_j / √N_j`, `α_j = a_j`, `β_j = √N_{j+1} / √N_j` is a run of the loop of `expm_krylov` -/
theorem urun_normalise (A : Matrix n n ℂ) (hA : Aᴴ = A) (u : ℕ → n → ℂ) (a N : ℕ → ℝ) (m : ℕ)
    (h : URun A u a N m) :
    LanczosRun A (fun j => ((Real.sqrt (N j) : ℝ) : ℂ)⁻¹ • u j) (fun j => (a j : ℂ))
      (fun j => ((Real.sqrt (N (j + 1)) / Real.sqrt (N j) : ℝ) : ℂ)) m := by
  have spos : ∀ j, j < m → 0 < Real.sqrt (N j) := fun j hj => Real.sqrt_pos.mpr (h.pos j hj)
  have sne : ∀ j, j < m → ((Real.sqrt (N j) : ℝ) : ℂ) ≠ 0 := fun j hj =>
    Complex.ofReal_ne_zero.mpr (ne_of_gt (spos j hj))
  have ssq : ∀ j, j < m → ((Real.sqrt (N j) : ℝ) : ℂ) * ((Real.sqrt (N j) : ℝ) : ℂ) = (N j : ℂ) := by
    intro j hj
    rw [← Complex.ofReal_mul, Real.mul_self_sqrt (le_of_lt (h.pos j hj))]
  refine ⟨?_, ?_, ?_, ?_, ?_, ?_, ?_⟩
  · intro h1
    have s0 := sne 0 (by omega)
    have s1 := sne 1 h1
    funext x
    simp only [Pi.smul_apply, Pi.sub_apply, smul_eq_mul, mulVec_smul, h.first h1, Complex.ofReal_div]
    field_simp
  · intro j hj
    have s0 := sne j (by omega)
    have s1 := sne (j + 1) (by omega)
    have s2 := sne (j + 2) hj
    have hN : (N j : ℂ) ≠ 0 := Complex.ofReal_ne_zero.mpr (ne_of_gt (h.pos j (by omega)))
    funext x
    simp only [Pi.smul_apply, Pi.sub_apply, smul_eq_mul, mulVec_smul, h.step j hj, Complex.ofReal_div]
    rw [← ssq j (by omega), ← ssq (j + 1) (by omega)]
    field_simp
  · intro j hj
    have s0 := sne j hj
    have hN : (N j : ℂ) ≠ 0 := Complex.ofReal_ne_zero.mpr (ne_of_gt (h.pos j hj))
    rw [mulVec_smul, ip_smul_left, ip_smul_right, h.alpha j hj, ip_herm_real A hA (u j)]
    have hs : star (((Real.sqrt (N j) : ℝ) : ℂ)⁻¹) = ((Real.sqrt (N j) : ℝ) : ℂ)⁻¹ := by
      rw [star_inv₀, Complex.star_def, Complex.conj_ofReal]
    rw [hs, Complex.ofReal_div, ← ssq j hj]
    simp only [Complex.ofReal_re]
    field_simp
  · intro j hj
    have s0 := sne j hj
    rw [ip_smul_left, ip_smul_right, h.norm j hj]
    have hs : star (((Real.sqrt (N j) : ℝ) : ℂ)⁻¹) = ((Real.sqrt (N j) : ℝ) : ℂ)⁻¹ := by
      rw [star_inv₀, Complex.star_def, Complex.conj_ofReal]
    rw [hs, ← ssq j hj]
    field_simp
  · intro j hj
    have := spos j (by omega)
    have := spos (j + 1) hj
    exact Complex.ofReal_ne_zero.mpr (ne_of_gt (by positivity))
  · intro j; exact Complex.conj_ofReal _
  · intro j; exact Complex.conj_ofReal _

end layerA

/-! ### Layer B — the list operations of the model under the embedding ℚ(i) → ℂ -/

/-- the embedding ℚ(i) → ℂ -/
noncomputable def toC (z : CRat) : ℂ := ⟨(z.re : ℝ), (z.im : ℝ)⟩

@[simp] theorem toC_re (z : CRat) : (toC z).re = (z.re : ℝ) := rfl
@[simp] theorem toC_im (z : CRat) : (toC z).im = (z.im : ℝ) := rfl
theorem toC_zero : toC 0 = 0 := by apply Complex.ext <;> simp
theorem toC_add (z w : CRat) : toC (z + w) = toC z + toC w := by apply Complex.ext <;> simp
theorem toC_mul (z w : CRat) : toC (z * w) = toC z * toC w := by apply Complex.ext <;> simp
theorem toC_conj (z : CRat) : toC (CRat.conj z) = star (toC z) := by apply Complex.ext <;> simp
theorem toC_smul (q : Rat) (z : CRat) : toC (CRat.smul q z) = ((q : ℝ) : ℂ) * toC z := by
  apply Complex.ext <;> simp [CRat.smul]

/-- a list of length `n` as a vector -/
noncomputable def toVec (n : ℕ) (l : List CRat) : Fin n → ℂ := fun i => toC (l.getD i 0)

/-- a list of `n` rows of length `n` as a matrix -/
noncomputable def toMat (n : ℕ) (a : List (List CRat)) : Matrix (Fin n) (Fin n) ℂ :=
  Matrix.of fun i j => toC ((a.getD i []).getD j 0)

theorem vdotC_toC : ∀ (n : ℕ) (x y : List CRat), x.length = n → y.length = n →
    toC (vdotC x y) = ip (toVec n x) (toVec n y) := by
  intro n
  induction n with
  | zero =>
    intro x y hx hy
    have hx0 : x = [] := List.length_eq_zero_iff.mp hx
    subst hx0
    simp [vdotC, ip, dotProduct, toC_zero]
  | succ k ih =>
    intro x y hx hy
    match x, y, hx, hy with
    | a :: xs, b :: ys, hx, hy =>
      have hxs : xs.length = k := by simpa using hx
      have hys : ys.length = k := by simpa using hy
      have e := ih xs ys hxs hys
      simp only [ip, dotProduct] at e ⊢
      rw [Fin.sum_univ_succ]
      simp only [vdotC, toC_add, toC_mul, toC_conj, e]
      congr 1

theorem rowDotC_toC : ∀ (n : ℕ) (x y : List CRat), x.length = n → y.length = n →
    toC (rowDotC x y) = ∑ i : Fin n, toC (x.getD i 0) * toVec n y i := by
  intro n
  induction n with
  | zero =>
    intro x y hx hy
    have hx0 : x = [] := List.length_eq_zero_iff.mp hx
    subst hx0
    simp [rowDotC, toC_zero]
  | succ k ih =>
    intro x y hx hy
    match x, y, hx, hy with
    | a :: xs, b :: ys, hx, hy =>
      have hxs : xs.length = k := by simpa using hx
      have hys : ys.length = k := by simpa using hy
      have e := ih xs ys hxs hys
      rw [Fin.sum_univ_succ]
      simp only [rowDotC, toC_add, toC_mul, e]
      congr 1

theorem matVecC_length (a : List (List CRat)) (x : List CRat) : (matVecC a x).length = a.length := by
  simp [matVecC]

theorem matVecC_toVec (n : ℕ) (a : List (List CRat)) (x : List CRat) (ha : a.length = n)
    (hrows : ∀ row ∈ a, row.length = n) (hx : x.length = n) :
    toVec n (matVecC a x) = toMat n a *ᵥ toVec n x := by
  funext i
  have hi : (i : ℕ) < a.length := by rw [ha]; exact i.2
  have hget : (matVecC a x).getD i 0 = rowDotC (a.getD i []) x := by
    simp [matVecC, List.getD_eq_getElem?_getD, List.getElem?_map, List.getElem?_eq_getElem hi]
  have hrow : (a.getD i []).length = n := by
    rw [List.getD_eq_getElem _ _ hi]
    exact hrows _ (List.getElem_mem hi)
  simp only [toVec, hget, mulVec, dotProduct, toMat, Matrix.of_apply]
  exact rowDotC_toC n _ x hrow hx

theorem axpyC_length : ∀ (c : Rat) (x y : List CRat) (n : ℕ), x.length = n → y.length = n →
    (axpyC c x y).length = n := by
  intro c x
  induction x with
  | nil => intro y n hx hy; simpa [axpyC] using hx
  | cons a xs ih =>
    intro y n hx hy
    cases y with
    | nil =>
      exfalso
      simp only [List.length_cons, List.length_nil] at hx hy
      omega
    | cons b ys =>
      cases n with
      | zero => simp at hx
      | succ k =>
        simp only [axpyC, List.length_cons]
        rw [ih ys k (by simpa using hx) (by simpa using hy)]

theorem axpyC_toVec : ∀ (n : ℕ) (c : Rat) (x y : List CRat), x.length = n → y.length = n →
    toVec n (axpyC c x y) = toVec n y + ((c : ℝ) : ℂ) • toVec n x := by
  intro n
  induction n with
  | zero => intro c x y _ _; funext i; exact i.elim0
  | succ k ih =>
    intro c x y hx hy
    match x, y, hx, hy with
    | a :: xs, b :: ys, hx, hy =>
      have e := ih c xs ys (by simpa using hx) (by simpa using hy)
      funext i
      refine Fin.cases ?_ (fun j => ?_) i
      · simp [toVec, axpyC, toC_add, toC_smul]
      · have := congrFun e j
        simpa [toVec, axpyC] using this

/-! ### Layer C — the loop is the iteration of one step on the state `(uPrev, u)` -/

abbrev LState := Option (List CRat × Rat) × List CRat

/-- `N = ⟨u, u⟩` of the current vector -/
def nUOf (st : LState) : Rat := (vdotC st.2 st.2).re
/-- `a = Re⟨u, A u⟩ / N` -/
def ajOf (a : List (List CRat)) (st : LState) : Rat := (vdotC st.2 (matVecC a st.2)).re / nUOf st

/-- the body of `lanczosCLoop`: the next state -/
def stepC (a : List (List CRat)) (st : LState) : LState :=
  let w1 := axpyC (-(ajOf a st)) st.2 (matVecC a st.2)
  (some (st.2, nUOf st), match st.1 with
    | some (p, nP) => axpyC (-(nUOf st / nP)) p w1
    | none => w1)

def iterC (a : List (List CRat)) : ℕ → LState → LState
  | 0, st => st
  | j + 1, st => iterC a j (stepC a st)

theorem iterC_succ' (a : List (List CRat)) : ∀ (j : ℕ) (st : LState), iterC a (j + 1) st = stepC a (iterC a j st) := by
  intro j
  induction j with
  | zero => intro st; rfl
  | succ j ih => intro st; exact ih (stepC a st)

theorem lanczosCLoop_succ (a : List (List CRat)) (m : ℕ) (st : LState) :
    lanczosCLoop a (m + 1) st.1 st.2 =
      if nUOf st = 0 then ⟨[], []⟩
      else ⟨ajOf a st :: (lanczosCLoop a m (stepC a st).1 (stepC a st).2).alpha,
            (nUOf (stepC a st) / nUOf st) :: (lanczosCLoop a m (stepC a st).1 (stepC a st).2).betaSq⟩ := by
  obtain ⟨prev, u⟩ := st
  cases prev with
  | none => rfl
  | some q => obtain ⟨p, nP⟩ := q; rfl

/-- the lists the loop returns, when it did not stop at an exact breakdown: no `N_j` vanished, and the entries are the
    Rayleigh quotients and the ratios of consecutive `N`s along the iteration of `stepC` -/
theorem lanczosCLoop_spec (a : List (List CRat)) : ∀ (m : ℕ) (st : LState),
    (lanczosCLoop a m st.1 st.2).alpha.length = m →
    (∀ i, i < m → nUOf (iterC a i st) ≠ 0) ∧
    (∀ i, i < m → (lanczosCLoop a m st.1 st.2).alpha.getD i 0 = ajOf a (iterC a i st)) ∧
    (∀ i, i < m → (lanczosCLoop a m st.1 st.2).betaSq.getD i 0 =
      nUOf (iterC a (i + 1) st) / nUOf (iterC a i st)) := by
  intro m
  induction m with
  | zero => intro st _; exact ⟨fun i hi => absurd hi (by omega), fun i hi => absurd hi (by omega), fun i hi => absurd hi (by omega)⟩
  | succ m ih =>
    intro st hlen
    rw [lanczosCLoop_succ] at hlen ⊢
    by_cases h0 : nUOf st = 0
    · rw [if_pos h0] at hlen; simp at hlen
    · rw [if_neg h0] at hlen ⊢
      have hlen' : (lanczosCLoop a m (stepC a st).1 (stepC a st).2).alpha.length = m := by simpa using hlen
      obtain ⟨h1, h2, h3⟩ := ih (stepC a st) hlen'
      refine ⟨?_, ?_, ?_⟩
      · intro i hi
        cases i with
        | zero => exact h0
        | succ i => exact h1 i (by omega)
      · intro i hi
        cases i with
        | zero => rfl
        | succ i =>
          rw [List.getD_cons_succ]
          exact h2 i (by omega)
      · intro i hi
        cases i with
        | zero => rfl
        | succ i =>
          rw [List.getD_cons_succ]
          exact h3 i (by omega)

/-! ### assembling: the iteration of `stepC` is an unnormalised run over ℂ -/

theorem vdotC_self_re_nonneg : ∀ x : List CRat, 0 ≤ (vdotC x x).re := by
  intro x
  induction x with
  | nil => simp [vdotC]
  | cons a xs ih =>
    simp only [vdotC, CRat.add_re, CRat.mul_re, CRat.conj_re, CRat.conj_im]
    have h1 := mul_self_nonneg a.re
    have h2 := mul_self_nonneg a.im
    linarith

/-- `⟨x, x⟩` over ℂ is the real number the model computes -/
theorem ip_self_toVec (n : ℕ) (x : List CRat) (hx : x.length = n) :
    ip (toVec n x) (toVec n x) = (((vdotC x x).re : ℝ) : ℂ) := by
  have h : star (ip (toVec n x) (toVec n x)) = ip (toVec n x) (toVec n x) := (ip_conj _ _).symm
  rw [← Complex.conj_eq_iff_re.mp h, ← vdotC_toC n x x hx hx, toC_re]

def WFS (n : ℕ) (s : LState) : Prop := s.2.length = n ∧ ∀ p nP, s.1 = some (p, nP) → p.length = n

theorem stepC_wf (n : ℕ) (a : List (List CRat)) (ha : a.length = n) (s : LState) (h : WFS n s) : WFS n (stepC a s) := by
  obtain ⟨prev, u⟩ := s
  obtain ⟨hu, hp⟩ := h
  have hw : (matVecC a u).length = n := by rw [matVecC_length, ha]
  have hw1 : (axpyC (-(ajOf a (prev, u))) u (matVecC a u)).length = n := axpyC_length _ _ _ n hu hw
  refine ⟨?_, ?_⟩
  · cases prev with
    | none => exact hw1
    | some q =>
      obtain ⟨p, nP⟩ := q
      exact axpyC_length _ _ _ n (hp p nP rfl) hw1
  · intro p nP hh
    simp only [stepC, Option.some.injEq, Prod.mk.injEq] at hh
    rw [← hh.1]
    exact hu

theorem iterC_wf (n : ℕ) (a : List (List CRat)) (ha : a.length = n) (s : LState) (h : WFS n s) :
    ∀ j, WFS n (iterC a j s) := by
  intro j
  induction j with
  | zero => exact h
  | succ j ih => rw [iterC_succ']; exact stepC_wf n a ha _ ih

/-- the next vector of a step, over ℂ -/
theorem stepC_toVec (n : ℕ) (a : List (List CRat)) (ha : a.length = n) (hrows : ∀ row ∈ a, row.length = n)
    (s : LState) (h : WFS n s) :
    toVec n (stepC a s).2 =
      toMat n a *ᵥ toVec n s.2 - ((ajOf a s : ℝ) : ℂ) • toVec n s.2 -
        (match s.1 with
          | some (p, nP) => (((nUOf s / nP : ℚ) : ℝ) : ℂ) • toVec n p
          | none => 0) := by
  obtain ⟨prev, u⟩ := s
  obtain ⟨hu, hp⟩ := h
  have hw : (matVecC a u).length = n := by rw [matVecC_length, ha]
  have hw1 : (axpyC (-(ajOf a (prev, u))) u (matVecC a u)).length = n := axpyC_length _ _ _ n hu hw
  have e1 : toVec n (axpyC (-(ajOf a (prev, u))) u (matVecC a u)) =
      toMat n a *ᵥ toVec n u - ((ajOf a (prev, u) : ℝ) : ℂ) • toVec n u := by
    rw [axpyC_toVec n _ u _ hu hw, matVecC_toVec n a u ha hrows hu]
    push_cast
    rw [neg_smul, sub_eq_add_neg]
  cases prev with
  | none =>
    show toVec n (axpyC (-(ajOf a (none, u))) u (matVecC a u)) = _
    rw [e1]; simp
  | some q =>
    obtain ⟨p, nP⟩ := q
    show toVec n (axpyC (-(nUOf (some (p, nP), u) / nP)) p (axpyC (-(ajOf a (some (p, nP), u))) u (matVecC a u))) = _
    rw [axpyC_toVec n _ p _ (hp p nP rfl) hw1, e1]
    push_cast
    rw [neg_smul, sub_eq_add_neg]
    abel

/-- **refinement, unnormalised form**: if `lanczosC a v m` returns `m` Rayleigh quotients (no exact breakdown), the vectors it
    iterates form an unnormalised run over ℂ for the matrix and start vector it was given -/
theorem lanczosC_urun (n : ℕ) (a : List (List CRat)) (v : List CRat) (m : ℕ)
    (ha : a.length = n) (hrows : ∀ row ∈ a, row.length = n) (hv : v.length = n)
    (hlen : (lanczosC a v m).alpha.length = m) :
    URun (toMat n a) (fun j => toVec n (iterC a j (none, v)).2)
      (fun j => (((lanczosC a v m).alpha.getD j 0 : ℚ) : ℝ))
      (fun j => ((nUOf (iterC a j (none, v)) : ℚ) : ℝ)) m ∧
    (∀ j, j < m → (lanczosC a v m).betaSq.getD j 0 =
      nUOf (iterC a (j + 1) (none, v)) / nUOf (iterC a j (none, v))) := by
  have hspec := lanczosCLoop_spec a m (none, v) hlen
  obtain ⟨hne, hal, hbs⟩ := hspec
  have hwf0 : WFS n ((none, v) : LState) := ⟨hv, fun p nP h => by cases h⟩
  have hwf := iterC_wf n a ha _ hwf0
  refine ⟨⟨?_, ?_, ?_, ?_, ?_⟩, hbs⟩
  · intro j _
    exact ip_self_toVec n _ (hwf j).1
  · intro j hj
    have h0 := vdotC_self_re_nonneg (iterC a j (none, v)).2
    have h1 := hne j hj
    have : (0 : ℚ) < nUOf (iterC a j (none, v)) := lt_of_le_of_ne h0 (Ne.symm h1)
    exact_mod_cast this
  · intro h1
    have e := stepC_toVec n a ha hrows (none, v) hwf0
    have ea : (lanczosC a v m).alpha.getD 0 0 = ajOf a (none, v) := hal 0 (by omega)
    simp only [ea]
    show toVec n (stepC a (none, v)).2 = _
    rw [e]; simp [iterC]
  · intro j hj
    have e := stepC_toVec n a ha hrows (iterC a (j + 1) (none, v)) (hwf (j + 1))
    have hprev : (iterC a (j + 1) (none, v)).1 = some ((iterC a j (none, v)).2, nUOf (iterC a j (none, v))) := by
      rw [iterC_succ']; rfl
    have ea : (lanczosC a v m).alpha.getD (j + 1) 0 = ajOf a (iterC a (j + 1) (none, v)) := hal (j + 1) (by omega)
    simp only [ea]
    rw [iterC_succ' a (j + 1), e, hprev]
    push_cast
    rfl
  · intro j hj
    have ea : (lanczosC a v m).alpha.getD j 0 = ajOf a (iterC a j (none, v)) := hal j hj
    have hu := (hwf j).1
    have hw : (matVecC a (iterC a j (none, v)).2).length = n := by rw [matVecC_length, ha]
    simp only [ea]
    rw [← matVecC_toVec n a _ ha hrows hu, ← vdotC_toC n _ _ hu hw, toC_re]
    unfold ajOf
    push_cast
    rfl

/-- the matrix of a list of rows that is Hermitian entry by entry is Hermitian -/
theorem toMat_herm (n : ℕ) (a : List (List CRat))
    (hh : ∀ i j, i < n → j < n → (a.getD i []).getD j 0 = CRat.conj ((a.getD j []).getD i 0)) :
    (toMat n a)ᴴ = toMat n a := by
  ext i j
  rw [conjTranspose_apply]
  simp only [toMat, Matrix.of_apply]
  rw [hh i j i.2 j.2, toC_conj]

/-- **refinement, normalised form** (Layers A–C together) -/
theorem lanczosC_run_exists (n : ℕ) (a : List (List CRat)) (v : List CRat) (m : ℕ)
    (ha : a.length = n) (hrows : ∀ row ∈ a, row.length = n) (hv : v.length = n)
    (hherm : ∀ i j, i < n → j < n → (a.getD i []).getD j 0 = CRat.conj ((a.getD j []).getD i 0))
    (hlen : (lanczosC a v m).alpha.length = m) :
    ∃ (vv : ℕ → Fin n → ℂ) (α β : ℕ → ℂ),
      (toMat n a)ᴴ = toMat n a ∧ LanczosRun (toMat n a) vv α β m ∧
      (0 < m → ∃ s : ℝ, 0 < s ∧ (s : ℂ) • vv 0 = toVec n v) ∧
      (∀ j, j < m → α j = (((lanczosC a v m).alpha.getD j 0 : ℚ) : ℂ)) ∧
      (∀ j, j < m → β j ^ 2 = (((lanczosC a v m).betaSq.getD j 0 : ℚ) : ℂ)) := by
  obtain ⟨hrun, hbs⟩ := lanczosC_urun n a v m ha hrows hv hlen
  have hA := toMat_herm n a hherm
  refine ⟨_, _, _, hA, urun_normalise (toMat n a) hA _ _ _ m hrun, ?_, ?_, ?_⟩
  · intro hm
    have hp := hrun.pos 0 hm
    refine ⟨Real.sqrt ((nUOf (iterC a 0 (none, v)) : ℚ) : ℝ), Real.sqrt_pos.mpr hp, ?_⟩
    have hne : ((Real.sqrt ((nUOf (iterC a 0 (none, v)) : ℚ) : ℝ) : ℝ) : ℂ) ≠ 0 :=
      Complex.ofReal_ne_zero.mpr (ne_of_gt (Real.sqrt_pos.mpr hp))
    simp only [smul_smul, mul_inv_cancel₀ hne, one_smul]
    rfl
  · intro j _
    push_cast
    rfl
  · intro j hj
    have hp := hrun.pos j hj
    have hnn : (0 : ℝ) ≤ ((nUOf (iterC a (j + 1) (none, v)) : ℚ) : ℝ) := by
      exact_mod_cast vdotC_self_re_nonneg (iterC a (j + 1) (none, v)).2
    rw [hbs j hj]
    rw [← Complex.ofReal_pow, div_pow, Real.sq_sqrt hnn, Real.sq_sqrt (le_of_lt hp)]
    push_cast
    rfl

/-! ### the real-symmetric recurrence `lanczosRat` (`Model/Krylov.lean`, driver request `lanczosrat`) is `lanczosC` on real data -/

theorem ofRat_add (p q : Rat) : CRat.ofRat p + CRat.ofRat q = CRat.ofRat (p + q) := by apply CRat.ext <;> simp
theorem conj_ofRat_mul (p q : Rat) : CRat.conj (CRat.ofRat p) * CRat.ofRat q = CRat.ofRat (p * q) := by
  apply CRat.ext <;> simp
theorem ofRat_mul (p q : Rat) : CRat.ofRat p * CRat.ofRat q = CRat.ofRat (p * q) := by apply CRat.ext <;> simp
theorem ofRat_smul (c p q : Rat) : CRat.ofRat q + CRat.smul c (CRat.ofRat p) = CRat.ofRat (q + c * p) := by
  apply CRat.ext <;> simp [CRat.smul]

theorem vdotC_ofRat : ∀ x y : List Rat, vdotC (x.map CRat.ofRat) (y.map CRat.ofRat) = CRat.ofRat (dot x y) := by
  intro x
  induction x with
  | nil => intro y; rfl
  | cons a xs ih =>
    intro y
    cases y with
    | nil => rfl
    | cons b ys =>
      simp only [List.map_cons, vdotC, dot, ih ys, conj_ofRat_mul, ofRat_add]

theorem rowDotC_ofRat : ∀ x y : List Rat, rowDotC (x.map CRat.ofRat) (y.map CRat.ofRat) = CRat.ofRat (dot x y) := by
  intro x
  induction x with
  | nil => intro y; rfl
  | cons a xs ih =>
    intro y
    cases y with
    | nil => rfl
    | cons b ys =>
      simp only [List.map_cons, rowDotC, dot, ih ys, ofRat_mul, ofRat_add]

theorem matVecC_ofRat (a : List (List Rat)) (x : List Rat) :
    matVecC (a.map (fun row => row.map CRat.ofRat)) (x.map CRat.ofRat) = (matVec a x).map CRat.ofRat := by
  simp only [matVecC, matVec, List.map_map]
  refine List.map_congr_left (fun row _ => ?_)
  simp only [Function.comp_apply, rowDotC_ofRat]

theorem axpyC_ofRat (c : Rat) : ∀ x y : List Rat,
    axpyC c (x.map CRat.ofRat) (y.map CRat.ofRat) = (axpy c x y).map CRat.ofRat := by
  intro x
  induction x with
  | nil => intro y; rfl
  | cons a xs ih =>
    intro y
    cases y with
    | nil => rfl
    | cons b ys =>
      simp only [List.map_cons, axpyC, axpy, ih ys, ofRat_smul]

/-- embedding of the accumulator `uPrev` -/
def embPrev : Option (List Rat × Rat) → Option (List CRat × Rat)
  | none => none
  | some (p, nP) => some (p.map CRat.ofRat, nP)

theorem lanczosRatLoop_eq (a : List (List Rat)) : ∀ (m : ℕ) (uPrev : Option (List Rat × Rat)) (u : List Rat),
    (lanczosCLoop (a.map (fun row => row.map CRat.ofRat)) m (embPrev uPrev) (u.map CRat.ofRat)).alpha =
      (lanczosRatLoop a m uPrev u).alpha ∧
    (lanczosCLoop (a.map (fun row => row.map CRat.ofRat)) m (embPrev uPrev) (u.map CRat.ofRat)).betaSq =
      (lanczosRatLoop a m uPrev u).betaSq := by
  intro m
  induction m with
  | zero => intro uPrev u; exact ⟨rfl, rfl⟩
  | succ m ih =>
    intro uPrev u
    rw [lanczosCLoop, lanczosRatLoop]
    simp only [vdotC_ofRat, matVecC_ofRat, CRat.ofRat_re]
    by_cases h0 : dot u u = 0
    · simp only [h0, if_true, and_self]
    · simp only [h0, if_false]
      cases uPrev with
      | none =>
        simp only [embPrev, axpyC_ofRat, vdotC_ofRat, CRat.ofRat_re]
        have := ih (some (u, dot u u)) (axpy (-(dot u (matVec a u) / dot u u)) u (matVec a u))
        simp only [embPrev] at this
        exact ⟨by rw [this.1], by rw [this.2]⟩
      | some q =>
        obtain ⟨p, nP⟩ := q
        simp only [embPrev, axpyC_ofRat, vdotC_ofRat, CRat.ofRat_re]
        have := ih (some (u, dot u u))
          (axpy (-(dot u u / nP)) p (axpy (-(dot u (matVec a u) / dot u u)) u (matVec a u)))
        simp only [embPrev] at this
        exact ⟨by rw [this.1], by rw [this.2]⟩

/-- `lanczosRat` returns the coefficients `lanczosC` returns on the same (real) data -/
theorem lanczosRat_eq_lanczosC (a : List (List Rat)) (v : List Rat) (m : ℕ) :
    (lanczosRat a v m).alpha = (lanczosC (a.map (fun row => row.map CRat.ofRat)) (v.map CRat.ofRat) m).alpha ∧
    (lanczosRat a v m).betaSq = (lanczosC (a.map (fun row => row.map CRat.ofRat)) (v.map CRat.ofRat) m).betaSq := by
  have := lanczosRatLoop_eq a m none v
  exact ⟨this.1.symm, this.2.symm⟩

end Yaqs.Krylov
