import YaqsModel.Model.MpoUpdate
import YaqsModel.Lemmas.MpoConv
import YaqsModel.Lemmas.Verdict
import Mathlib.LinearAlgebra.Matrix.Kronecker
import Mathlib.Algebra.BigOperators.Fin
import Mathlib.Algebra.Star.BigOperators
import Mathlib.Algebra.Order.Field.Basic
import Mathlib.Tactic.Positivity

/-! helper lemmas for `Model/MpoUpdate.lean` (used by `Props/C04.lean`, part C): the einsums of `apply_gate` as matrix
    products on the two sites, temporal zones as ordered products, `decompose_theta` followed by the merge, the
    two-site block inside a chain, and the contraction loop of `check_if_identity` as a trace. -/
namespace Yaqs.MpoUpdate
open Yaqs.MpoConv (Site sumTo Dec sumTo_eq_sum)
open Matrix Finset
open scoped Kronecker

section semiring
variable {K : Type} [CommSemiring K]

/-- the two-site operator a `theta` block carries for fixed bond indices: rows `(σ₀, σ₁)`, columns `(σ'₀, σ'₁)` -/
def opMat (d : Nat) (θ : T6 K) (l r : Nat) : Matrix (Fin d × Fin d) (Fin d × Fin d) K :=
  fun x y => θ x.1 x.2 l y.1 y.2 r

/-- a one-site matrix read off a Nat-indexed array -/
def gateMat1 (d : Nat) (M : Nat → Nat → K) : Matrix (Fin d) (Fin d) K := fun i j => M i j

/-- a two-site gate tensor `G[i, j, k, l]` read as the matrix `⟨i j| G |k l⟩` -/
def gateMat2 (d : Nat) (G : T4 K) : Matrix (Fin d × Fin d) (Fin d × Fin d) K := fun x y => G x.1 x.2 y.1 y.2

/-- the operator on sites `(site0, site0+1)` a gate object stands for in `apply_gate`, with `c` applied entry-wise:
    identity for `name == "I"`, `M ⊗ 1` / `1 ⊗ M` for a one-site gate on the first / second site, the tensor read as a
    matrix for a two-site gate -/
def gateOpC (c : K → K) (d : Nat) (g : Gate K) (site0 : Nat) : Matrix (Fin d × Fin d) (Fin d × Fin d) K :=
  if g.isId then 1
  else if g.interaction = 1 then
    (if g.sites.headD 0 = site0 then gateMat1 d (fun i j => c (g.mat i j)) ⊗ₖ (1 : Matrix (Fin d) (Fin d) K)
     else (1 : Matrix (Fin d) (Fin d) K) ⊗ₖ gateMat1 d (fun i j => c (g.mat i j)))
  else gateMat2 d (fun i j k l => c (g.ten i j k l))

/-- the operator of a gate object (no entry-wise map) -/
def gateOp (d : Nat) (g : Gate K) (site0 : Nat) : Matrix (Fin d × Fin d) (Fin d × Fin d) K := gateOpC id d g site0

theorem sum_fin_prod (d : Nat) (f : Nat → Nat → K) :
    ∑ x : Fin d × Fin d, f x.1 x.2 = ∑ k ∈ range d, ∑ l ∈ range d, f k l := by
  rw [Fintype.sum_prod_type]
  rw [← Fin.sum_univ_eq_sum_range (fun k => ∑ l ∈ range d, f k l) d]
  refine Finset.sum_congr rfl fun k _ => ?_
  rw [← Fin.sum_univ_eq_sum_range (fun l => f k l) d]

theorem opMat_contractTwo (d : Nat) (G : T4 K) (θ : T6 K) (l r : Nat) :
    opMat d (contractTwo d G θ) l r = gateMat2 d G * opMat d θ l r := by
  ext x y
  simp only [opMat, contractTwo, gateMat2, Matrix.mul_apply, sumTo_eq_sum]
  rw [sum_fin_prod d (fun k m => G x.1 x.2 k m * θ k m l y.1 y.2 r)]

theorem opMat_contractOne0 (d : Nat) (M : Nat → Nat → K) (θ : T6 K) (l r : Nat) :
    opMat d (contractOne0 d M θ) l r = (gateMat1 d M ⊗ₖ (1 : Matrix (Fin d) (Fin d) K)) * opMat d θ l r := by
  ext x y
  simp only [opMat, contractOne0, gateMat1, Matrix.mul_apply, sumTo_eq_sum, Fintype.sum_prod_type,
    Matrix.kroneckerMap_apply, Matrix.one_apply]
  rw [← Fin.sum_univ_eq_sum_range (fun j => M x.1 j * θ j x.2 l y.1 y.2 r) d]
  refine Finset.sum_congr rfl fun j _ => ?_
  simp [Finset.sum_ite_eq]

theorem opMat_contractOne1 (d : Nat) (M : Nat → Nat → K) (θ : T6 K) (l r : Nat) :
    opMat d (contractOne1 d M θ) l r = ((1 : Matrix (Fin d) (Fin d) K) ⊗ₖ gateMat1 d M) * opMat d θ l r := by
  ext x y
  simp only [opMat, contractOne1, gateMat1, Matrix.mul_apply, sumTo_eq_sum, Fintype.sum_prod_type,
    Matrix.kroneckerMap_apply, Matrix.one_apply]
  rw [← Fin.sum_univ_eq_sum_range (fun j => M x.2 j * θ x.1 j l y.1 y.2 r) d]
  simp [Finset.sum_ite_eq]

omit [CommSemiring K] in
theorem opMat_swapLegs (d : Nat) (θ : T6 K) (l r : Nat) : opMat d (swapLegs θ) l r = (opMat d θ l r)ᵀ := by
  ext x y
  simp [opMat, swapLegs]

omit [CommSemiring K] in
theorem swapLegs_swapLegs [Zero K] [One K] [Add K] [Mul K] (θ : T6 K) : swapLegs (swapLegs θ) = θ := rfl

/-- the branch of `apply_gate` between the transposes multiplies the two-site operator from the left -/
theorem opMat_gateCore (c : K → K) (d : Nat) (g : Gate K) (site0 : Nat) (θ : T6 K) (l r : Nat) :
    opMat d (gateCore c d g site0 θ) l r = gateOpC c d g site0 * opMat d θ l r := by
  unfold gateCore gateOpC
  split_ifs
  · simp
  · exact opMat_contractOne0 d _ θ l r
  · exact opMat_contractOne1 d _ θ l r
  · exact opMat_contractTwo d _ θ l r

/-- `apply_gate(…, conjugate=False)`: the gate's operator times the block, for every pair of bond indices -/
theorem applyGate_top (cj : K → K) (d : Nat) (g : Gate K) (θ θ' : T6 K) (s0 s1 : Nat)
    (h : applyGate cj d g θ s0 s1 false = some θ') (l r : Nat) :
    opMat d θ' l r = gateOp d g s0 * opMat d θ l r := by
  unfold applyGate at h
  split at h
  · simp only [Bool.false_eq_true, if_false, Option.some.injEq] at h
    rw [← h]
    exact opMat_gateCore id d g s0 θ l r
  · simp at h

theorem applyGate_none_iff (cj : K → K) (d : Nat) (g : Gate K) (θ : T6 K) (s0 s1 : Nat) (conj : Bool) :
    applyGate cj d g θ s0 s1 conj = none ↔ gateOk g s0 s1 = false := by
  unfold applyGate
  split <;> simp_all

omit [CommSemiring K] in
/-- a gate with one or two sites, all of them in `{s0, s1}` (what C04.8c `iterate_zone_sites` guarantees for every gate a zone
    hands to `apply_gate`), passes the three assertions -/
theorem gateOk_of_sites (g : Gate K) (s0 s1 : Nat) (hlen : g.sites.length = g.interaction)
    (h12 : g.interaction = 1 ∨ g.interaction = 2) (hin : ∀ q ∈ g.sites, q = s0 ∨ q = s1) : gateOk g s0 s1 = true := by
  unfold gateOk
  rcases h12 with h1 | h2
  · rw [h1] at hlen
    obtain ⟨q, hq⟩ := List.length_eq_one_iff.mp hlen
    simp only [h1, if_true, hq, List.headD_cons, decide_eq_true_eq]
    exact hin q (by simp [hq])
  · rw [h2] at hlen
    obtain ⟨q0, q1, hq⟩ := List.length_eq_two.mp hlen
    simp only [h2, hq, List.headD_cons, List.tail_cons]
    simp only [show ¬ (2 = 1) by decide, if_false, if_true]
    simp only [decide_eq_true_eq]
    exact ⟨hin q0 (by simp [hq]), hin q1 (by simp [hq])⟩

/-- the loop of `apply_temporal_zone` from above: the ordered product of the gates (last gate leftmost) times the block -/
theorem zoneApply_top (cj : K → K) (d n : Nat) (gs : List (Gate K)) (θ θ' : T6 K)
    (h : zoneApply cj d n false gs θ = some θ') (l r : Nat) :
    opMat d θ' l r = ((gs.map fun g => gateOp d g n).reverse).prod * opMat d θ l r := by
  induction gs generalizing θ with
  | nil =>
    simp only [zoneApply, Option.some.injEq] at h
    simp [h]
  | cons g gs ih =>
    simp only [zoneApply] at h
    split at h
    · simp at h
    · rename_i θ1 h1
      rw [ih θ1 h, applyGate_top cj d g θ θ1 n (n + 1) h1 l r]
      simp [Matrix.mul_assoc]

end semiring

section star
variable {K : Type} [CommSemiring K] [StarRing K]

/-- entry-wise conjugation of the gate, transposed, is the adjoint of the gate's operator -/
theorem gateOpC_star_transpose (d : Nat) (g : Gate K) (s0 : Nat) : (gateOpC star d g s0)ᵀ = (gateOp d g s0)ᴴ := by
  unfold gateOp gateOpC
  split_ifs
  · simp
  · ext x y
    simp only [transpose_apply, conjTranspose_apply, kroneckerMap_apply, gateMat1, Matrix.one_apply, id]
    by_cases h : x.2 = y.2
    · simp [h]
    · have h' : ¬ y.2 = x.2 := fun e => h e.symm
      simp [h']
  · ext x y
    simp only [transpose_apply, conjTranspose_apply, kroneckerMap_apply, gateMat1, Matrix.one_apply, id]
    by_cases h : x.1 = y.1
    · simp [h]
    · have h' : ¬ y.1 = x.1 := fun e => h e.symm
      simp [h']
  · ext x y
    simp [gateMat2, conjTranspose_apply]

/-- `apply_gate(…, conjugate=True)`: the block times the adjoint of the gate's operator (conjugation *and* transposition:
    `np.conj` on the entries, and the contraction runs over the gate's second index pair against the block's lower legs) -/
theorem applyGate_bottom (d : Nat) (g : Gate K) (θ θ' : T6 K) (s0 s1 : Nat)
    (h : applyGate star d g θ s0 s1 true = some θ') (l r : Nat) :
    opMat d θ' l r = opMat d θ l r * (gateOp d g s0)ᴴ := by
  unfold applyGate at h
  split at h
  · simp only [if_true, Option.some.injEq] at h
    rw [← h, opMat_swapLegs, opMat_gateCore, opMat_swapLegs, transpose_mul, transpose_transpose,
      gateOpC_star_transpose]
  · simp at h

/-- the loop of `apply_temporal_zone` from below: the block times the adjoints in the order the gates are applied -/
theorem zoneApply_bottom (d n : Nat) (gs : List (Gate K)) (θ θ' : T6 K)
    (h : zoneApply star d n true gs θ = some θ') (l r : Nat) :
    opMat d θ' l r = opMat d θ l r * (gs.map fun g => (gateOp d g n)ᴴ).prod := by
  induction gs generalizing θ with
  | nil =>
    simp only [zoneApply, Option.some.injEq] at h
    simp [h]
  | cons g gs ih =>
    simp only [zoneApply] at h
    split at h
    · simp at h
    · rename_i θ1 h1
      rw [ih θ1 h, applyGate_bottom d g θ θ1 n (n + 1) h1 l r]
      simp [Matrix.mul_assoc]

/-- `update_mpo` before the split: `U₁ · Θ · U₂ᴴ` on the two sites, with `U₁` the ordered product of the zone of circuit 1
    and `U₂ᴴ` the product of the adjoints of the zone of circuit 2 -/
theorem updateTheta_op (d n : Nat) (A B : Site K) (gs1 gs2 : List (Gate K)) (θ' : T6 K)
    (h : updateTheta star d n A B gs1 gs2 = some θ') (l r : Nat) :
    opMat d θ' l r = ((gs1.map fun g => gateOp d g n).reverse).prod * opMat d (thetaOf A B) l r
      * (gs2.map fun g => (gateOp d g n)ᴴ).prod := by
  unfold updateTheta at h
  split at h
  · simp at h
  · rename_i θ1 h1
    rw [zoneApply_bottom d n gs2 θ1 θ' h l r, zoneApply_top star d n gs1 _ θ1 h1 l r]

/-- the same in the vocabulary of C04.10 `iterate_result`: the two zone events of one `update_mpo` act on the block as
    `Verdict.applyEv` says (circuit-1 gates from the left in the order consumed, adjoints of circuit-2 gates from the right) -/
theorem updateTheta_runEvs (d n : Nat) (A B : Site K) (gateOf : Verdict.Instr → Gate K) (is1 is2 : List Verdict.Instr)
    (θ' : T6 K) (h : updateTheta star d n A B (is1.map gateOf) (is2.map gateOf) = some θ') (l r : Nat) :
    opMat d θ' l r = Verdict.runEvs (fun i => gateOp d (gateOf i) n) (fun i => (gateOp d (gateOf i) n)ᴴ)
      (opMat d (thetaOf A B) l r) [.zone 1 n is1, .zone 2 n is2] := by
  rw [updateTheta_op d n A B _ _ θ' h l r]
  simp [Verdict.runEvs, Verdict.applyEv, Verdict.U, List.map_map, Function.comp_def]

end star

/-! ### `decompose_theta` followed by the merge -/

section split
open Yaqs.MpoConv (mul_add_div' mul_add_mod' toMat toMat_truncated)
variable {K : Type} [CommSemiring K]

omit [CommSemiring K] in
/-- the reshape of `decompose_theta` at a composite row / column index -/
theorem thetaMatrix_apply (d Dl Dr : Nat) (θ : T6 K) (a b l e f g : Nat) (hb : b < d) (hl : l < Dl) (hf : f < d)
    (hg : g < Dr) : thetaMatrix d Dl Dr θ ((a * d + b) * Dl + l) ((e * d + f) * Dr + g) = θ a e l b f g := by
  simp only [thetaMatrix, mul_add_div' _ _ _ hl, mul_add_mod' _ _ _ hl, mul_add_div' _ _ _ hb, mul_add_mod' _ _ _ hb,
    mul_add_div' _ _ _ hg, mul_add_mod' _ _ _ hg, mul_add_div' _ _ _ hf, mul_add_mod' _ _ _ hf]

/-- merging the two tensors `decompose_theta` returns and flattening again gives `u[:, :keep] · diag(s[:keep]) · vh[:keep]`
    (no hypothesis: pure index arithmetic of the reshapes and the transpose `(1, 2, 0, 3)`) -/
theorem thetaMatrix_merge (d Dl Dr keep : Nat) (U Vh : Nat → Nat → K) (sv : Nat → K) (i j : Nat) :
    thetaMatrix d Dl Dr (thetaOf (dtLeft d Dl keep U) (dtRight d Dr keep sv Vh)) i j
      = ∑ p ∈ range keep, U i p * (sv p * Vh p j) := by
  simp only [thetaMatrix, thetaOf, dtLeft, dtRight, sumTo_eq_sum]
  refine Finset.sum_congr rfl fun p _ => ?_
  have h1 : (i / Dl / d * d + i / Dl % d) * Dl + i % Dl = i := by
    rw [Nat.div_add_mod' (i / Dl) d, Nat.div_add_mod' i Dl]
  have h2 : (j / Dr / d * d + j / Dr % d) * Dr + j % Dr = j := by
    rw [Nat.div_add_mod' (j / Dr) d, Nat.div_add_mod' j Dr]
  rw [h1, h2]

/-- if the kept part of the SVD reconstructs the flattened block, merging the two returned tensors gives the block back
    (every in-range entry) -/
theorem split_merge_exact (d Dl Dr keep : Nat) (θ : T6 K) (U Vh : Nat → Nat → K) (sv : Nat → K)
    (hspec : ∀ i, i < d * d * Dl → ∀ j, j < d * d * Dr →
      thetaMatrix d Dl Dr θ i j = ∑ p ∈ range keep, U i p * (sv p * Vh p j))
    (a e l b f g : Nat) (ha : a < d) (he : e < d) (hl : l < Dl) (hb : b < d) (hf : f < d) (hg : g < Dr) :
    thetaOf (dtLeft d Dl keep U) (dtRight d Dr keep sv Vh) a e l b f g = θ a e l b f g := by
  have h1 := thetaMatrix_apply d Dl Dr (thetaOf (dtLeft d Dl keep U) (dtRight d Dr keep sv Vh)) a b l e f g hb hl hf hg
  have h2 := thetaMatrix_apply d Dl Dr θ a b l e f g hb hl hf hg
  rw [← h1, ← h2, thetaMatrix_merge]
  exact (hspec _ (MpoConv.two_digit_lt _ _ _ _ (MpoConv.two_digit_lt _ _ _ _ ha hb) hl) _
    (MpoConv.two_digit_lt _ _ _ _ (MpoConv.two_digit_lt _ _ _ _ he hf) hg)).symm

end split

section splitErr
open Yaqs.MpoConv (toMat toMat_truncated)
open Yaqs.Split
variable {K : Type} [CommRing K] [StarRing K]

/-- **split then merge, with truncation**: from the SVD spec of the flattened block, the block of the two tensors
    `decompose_theta` returns differs from the input block by exactly the discarded singular weight (C09 `c09_split_error`
    through the reshape) -/
theorem split_merge_error (d Dl Dr kf keep : Nat) (hkeep : keep ≤ kf) (θ : T6 K) (dec : Dec K)
    (hspec : toMat (d * d * Dl) (d * d * Dr) (thetaMatrix d Dl Dr θ)
      = toMat (d * d * Dl) kf dec.U * diagonal (fun p : Fin kf => dec.sv p) * toMat kf (d * d * Dr) dec.Vh)
    (hU : (toMat (d * d * Dl) kf dec.U)ᴴ * toMat (d * d * Dl) kf dec.U = 1)
    (hV : toMat kf (d * d * Dr) dec.Vh * (toMat kf (d * d * Dr) dec.Vh)ᴴ = 1) :
    frobSq (toMat (d * d * Dl) (d * d * Dr) (thetaMatrix d Dl Dr θ)
        - toMat (d * d * Dl) (d * d * Dr)
            (thetaMatrix d Dl Dr (thetaOf (dtLeft d Dl keep dec.U) (dtRight d Dr keep dec.sv dec.Vh))))
      = ∑ p : Fin kf, if (p : Nat) < keep then 0 else star (dec.sv p) * dec.sv p := by
  have hnew : toMat (d * d * Dl) (d * d * Dr)
        (thetaMatrix d Dl Dr (thetaOf (dtLeft d Dl keep dec.U) (dtRight d Dr keep dec.sv dec.Vh)))
      = toMat (d * d * Dl) (d * d * Dr) (fun i j => ∑ p ∈ Finset.range keep, dec.U i p * (dec.sv p * dec.Vh p j)) := by
    ext i j
    simp only [toMat, thetaMatrix_merge]
  rw [hnew, toMat_truncated _ _ kf keep hkeep, hspec]
  exact c09_split_error _ _ _ hU hV _

end splitErr

/-! ### the two-site block inside a chain -/

section chain
open Yaqs.MpoConv (vals lastDr vals_cons)
variable {K : Type} [CommSemiring K]

/-- path values of a chain whose sites `|pre|, |pre|+1` are given as a two-site block `B l w` (already evaluated at the
    physical indices of the configuration) and whose part to the right of the block is given by its path values `pv` -/
def valsB : List (Site K) → (Nat → Nat → K) → Nat → (Nat → K) → List Nat → List Nat → Nat → K
  | [], B, Dr, pv, _, _ => fun l => ∑ w ∈ range Dr, B l w * pv w
  | t :: pre, B, Dr, pv, σ, σ' => fun l =>
      ∑ r ∈ range t.dr, t.e (σ.headD 0) (σ'.headD 0) l r * valsB pre B Dr pv σ.tail σ'.tail r

/-- the path values of a chain depend on two neighbouring tensors only through their merged block `thetaOf` -/
theorem vals_eq_valsB (a b : Site K) (post : List (Site K)) (i j i' j' : Nat) (sq sq' : List Nat) :
    ∀ (pre : List (Site K)) (sp sp' : List Nat), sp.length = pre.length → sp'.length = pre.length → ∀ l,
    vals (pre ++ a :: b :: post) (sp ++ i :: j :: sq) (sp' ++ i' :: j' :: sq') l
      = valsB pre (fun l w => thetaOf a b i j l i' j' w) b.dr (vals post sq sq') sp sp' l
  | [], [], [], _, _, l => by
    simp only [List.nil_append, valsB, vals_cons, thetaOf, sumTo_eq_sum, Finset.mul_sum, Finset.sum_mul]
    rw [Finset.sum_comm]
    refine Finset.sum_congr rfl fun w _ => Finset.sum_congr rfl fun x _ => ?_
    ring
  | t :: pre, s :: sp, s' :: sp', h, h', l => by
    simp only [List.cons_append, vals_cons, valsB, List.headD_cons, List.tail_cons]
    refine Finset.sum_congr rfl fun r _ => ?_
    rw [vals_eq_valsB a b post i j i' j' sq sq' pre sp sp' (by simpa using h) (by simpa using h') r]
  | [], _ :: _, _, h, _, _ => by simp at h
  | [], [], _ :: _, _, h, _ => by simp at h
  | _ :: _, [], _, h, _, _ => by simp at h
  | _ :: _, _ :: _, [], _, h, _ => by simp at h

/-- `valsB` reads the block only at bond indices the chain can reach -/
theorem valsB_congr (B B' : Nat → Nat → K) (Dl Dr : Nat) (pv : Nat → K)
    (hB : ∀ l, l < Dl → ∀ w, w < Dr → B l w = B' l w) :
    ∀ (pre : List (Site K)) (σ σ' : List Nat) (n : Nat), lastDr n pre = Dl → ∀ l, l < n →
    valsB pre B Dr pv σ σ' l = valsB pre B' Dr pv σ σ' l
  | [], σ, σ', n, hn, l, hl => by
    simp only [lastDr] at hn
    subst hn
    simp only [valsB]
    exact Finset.sum_congr rfl fun w hw => by rw [hB l hl w (Finset.mem_range.mp hw)]
  | t :: pre, σ, σ', n, hn, l, _ => by
    simp only [lastDr] at hn
    simp only [valsB]
    refine Finset.sum_congr rfl fun r hr => ?_
    rw [valsB_congr B B' Dl Dr pv hB pre σ.tail σ'.tail t.dr hn r (Finset.mem_range.mp hr)]

/-- `valsB` is linear in the block -/
theorem valsB_sum {ι : Type} (s : Finset ι) (c : ι → K) (B : ι → Nat → Nat → K) (Dr : Nat) (pv : Nat → K) :
    ∀ (pre : List (Site K)) (σ σ' : List Nat) (l : Nat),
    valsB pre (fun l w => ∑ x ∈ s, c x * B x l w) Dr pv σ σ' l = ∑ x ∈ s, c x * valsB pre (B x) Dr pv σ σ' l
  | [], σ, σ', l => by
    simp only [valsB, Finset.sum_mul, Finset.mul_sum]
    rw [Finset.sum_comm]
    refine Finset.sum_congr rfl fun x _ => Finset.sum_congr rfl fun w _ => ?_
    ring
  | t :: pre, σ, σ', l => by
    simp only [valsB]
    simp only [valsB_sum s c B Dr pv pre, Finset.mul_sum]
    rw [Finset.sum_comm]
    refine Finset.sum_congr rfl fun x _ => Finset.sum_congr rfl fun r _ => ?_
    ring

/-- **a two-site update inside a chain**: if the new pair `(a', b')` carries, for every reachable pair of bond indices, the
    two-site operator `L · Θ · R` of the old pair's block `Θ`, then every path value — every entry of `to_matrix()` — of
    the new chain is the corresponding entry of `(1 ⊗ L ⊗ 1) · O · (1 ⊗ R ⊗ 1)`: the sum over the two local row indices
    `x` and column indices `y` of `L[(i,j), x] · ⟨…x…| O |…y…⟩ · R[y, (i',j')]`. -/
theorem vals_two_site_update (d : Nat) (a b a' b' : Site K) (post : List (Site K)) (hdr : b'.dr = b.dr)
    (L R : Matrix (Fin d × Fin d) (Fin d × Fin d) K)
    (hop : ∀ l, l < a.dl → ∀ w, w < b.dr → opMat d (thetaOf a' b') l w = L * opMat d (thetaOf a b) l w * R)
    (pre : List (Site K)) (sp sp' sq sq' : List Nat) (hsp : sp.length = pre.length) (hsp' : sp'.length = pre.length)
    (i j i' j' : Fin d) (n : Nat) (hn : lastDr n pre = a.dl) (l : Nat) (hl : l < n) :
    vals (pre ++ a' :: b' :: post) (sp ++ (i : Nat) :: (j : Nat) :: sq) (sp' ++ (i' : Nat) :: (j' : Nat) :: sq') l
      = ∑ x : Fin d × Fin d, ∑ y : Fin d × Fin d, (L (i, j) x * R y (i', j')) *
          vals (pre ++ a :: b :: post) (sp ++ (x.1 : Nat) :: (x.2 : Nat) :: sq)
            (sp' ++ (y.1 : Nat) :: (y.2 : Nat) :: sq') l := by
  rw [vals_eq_valsB a' b' post i j i' j' sq sq' pre sp sp' hsp hsp' l, hdr]
  have hB : ∀ l, l < a.dl → ∀ w, w < b.dr → thetaOf a' b' i j l i' j' w
      = ∑ p : (Fin d × Fin d) × (Fin d × Fin d),
          (L (i, j) p.1 * R p.2 (i', j')) * thetaOf a b p.1.1 p.1.2 l p.2.1 p.2.2 w := by
    intro l hl w hw
    have := congrFun (congrFun (hop l hl w hw) (i, j)) (i', j')
    simp only [opMat, Matrix.mul_apply, Finset.sum_mul] at this
    rw [this]
    symm
    rw [Fintype.sum_prod_type, Finset.sum_comm]
    apply Finset.sum_congr rfl; intro x _
    apply Finset.sum_congr rfl; intro y _
    ring
  rw [valsB_congr _ _ a.dl b.dr _ hB pre sp sp' n hn l hl]
  rw [valsB_sum Finset.univ (fun p : (Fin d × Fin d) × (Fin d × Fin d) => L (i, j) p.1 * R p.2 (i', j'))
    (fun p l w => thetaOf a b p.1.1 p.1.2 l p.2.1 p.2.2 w) b.dr (vals post sq sq') pre sp sp' l]
  rw [Fintype.sum_prod_type]
  apply Finset.sum_congr rfl; intro x _
  apply Finset.sum_congr rfl; intro y _
  rw [vals_eq_valsB a b post x.1 x.2 y.1 y.2 sq sq' pre sp sp' hsp hsp' l]

end chain

/-! ### one whole `update_mpo` inside a chain, when nothing is discarded -/

section chainUpdate
open Yaqs.MpoConv (vals lastDr)
variable {K : Type} [CommSemiring K] [StarRing K]

/-- **`update_mpo` on a chain, untruncated spec**: if the kept part of the SVD reconstructs the flattened block, the chain
    with the two tensors `decompose_theta` returns stands for `(1 ⊗ U₁ ⊗ 1) · O · (1 ⊗ U₂ᴴ ⊗ 1)` — entry by entry, for every
    chain length, position of the pair and bond dimensions — where `U₁` is the ordered product of the zone of circuit 1 and
    `U₂ᴴ` the product of the adjoints of the zone of circuit 2. -/
theorem updateMpo_chain (d n : Nat) (A B : Site K) (gs1 gs2 : List (Gate K)) (θ' : T6 K) (dec : Svd K) (thr : Rat)
    (hθ : updateTheta star d n A B gs1 gs2 = some θ')
    (hspec : ∀ i, i < d * d * A.dl → ∀ j, j < d * d * B.dr →
      thetaMatrix d A.dl B.dr θ' i j = ∑ p ∈ range (Rank.keepTheta dec.s thr), dec.U i p * (dec.sv p * dec.Vh p j))
    (pre post : List (Site K)) (sp sp' sq sq' : List Nat) (hsp : sp.length = pre.length) (hsp' : sp'.length = pre.length)
    (i j i' j' : Fin d) (m : Nat) (hm : lastDr m pre = A.dl) (l : Nat) (hl : l < m) :
    vals (pre ++ (decomposeTheta d A.dl B.dr dec thr).1 :: (decomposeTheta d A.dl B.dr dec thr).2 :: post)
        (sp ++ (i : Nat) :: (j : Nat) :: sq) (sp' ++ (i' : Nat) :: (j' : Nat) :: sq') l
      = ∑ x : Fin d × Fin d, ∑ y : Fin d × Fin d,
          (((gs1.map fun g => gateOp d g n).reverse).prod (i, j) x * (gs2.map fun g => (gateOp d g n)ᴴ).prod y (i', j')) *
            vals (pre ++ A :: B :: post) (sp ++ (x.1 : Nat) :: (x.2 : Nat) :: sq)
              (sp' ++ (y.1 : Nat) :: (y.2 : Nat) :: sq') l := by
  refine vals_two_site_update d A B (decomposeTheta d A.dl B.dr dec thr).1 (decomposeTheta d A.dl B.dr dec thr).2 post rfl
    _ _ ?_ pre sp sp' sq sq' hsp hsp' i j i' j' m hm l hl
  intro l hl w hw
  rw [← updateTheta_op d n A B gs1 gs2 θ' hθ l w]
  ext x y
  simp only [opMat, decomposeTheta]
  exact split_merge_exact d A.dl B.dr _ θ' dec.U dec.Vh dec.sv hspec x.1 x.2 l y.1 y.2 w x.1.isLt x.2.isLt hl y.1.isLt
    y.2.isLt hw

end chainUpdate

/-! ### the contraction loop of `check_if_identity` is the trace -/

section trace
open Yaqs.MpoConv (vals vals_cons lastDr chainFrom wellFormed physDims toMatrixEntry toMatrixCode toMatrixCode_entry identitySite
  identityMpo mul_add_div' mul_add_mod' unflat_cons_apply)
open Yaqs.Index (dimProd unflat kronIdx kronIdx_unflat)

variable {K : Type} [CommSemiring K]

/-- the trace of the operator a chain stands for, as a bond path sum: every tensor contributes its partial trace
    `Σ_a W[a, a, l, r]` -/
def pathTrace : List (Site K) → Nat → K
  | [] => fun _ => 1
  | t :: ts => fun l => ∑ r ∈ range t.dr, (∑ a ∈ range t.d, t.e a a l r) * pathTrace ts r

/-- summing the diagonal path values over all configurations (enumerated by their Kronecker index) gives the path trace -/
theorem sum_diag_vals : ∀ (ts : List (Site K)) (l : Nat),
    ∑ i ∈ range (dimProd (physDims ts)), vals ts (unflat (physDims ts) i) (unflat (physDims ts) i) l = pathTrace ts l
  | [], l => by simp [physDims, dimProd, vals, pathTrace]
  | t :: ts, l => by
    simp only [physDims, List.map_cons, dimProd, pathTrace]
    rw [MpoConv.sum_range_mul]
    have ih := sum_diag_vals ts
    simp only [physDims] at ih
    calc ∑ a ∈ range t.d, ∑ i ∈ range (dimProd (List.map (fun x => x.d) ts)),
          vals (t :: ts) (unflat (t.d :: List.map (fun x => x.d) ts) (a * dimProd (List.map (fun x => x.d) ts) + i))
            (unflat (t.d :: List.map (fun x => x.d) ts) (a * dimProd (List.map (fun x => x.d) ts) + i)) l
        = ∑ a ∈ range t.d, ∑ i ∈ range (dimProd (List.map (fun x => x.d) ts)),
            ∑ r ∈ range t.dr, t.e a a l r * vals ts (unflat (List.map (fun x => x.d) ts) i)
              (unflat (List.map (fun x => x.d) ts) i) r := by
          refine Finset.sum_congr rfl fun a ha => Finset.sum_congr rfl fun i hi => ?_
          rw [unflat_cons_apply _ _ _ _ (Finset.mem_range.mp ha) (Finset.mem_range.mp hi), vals_cons]
      _ = ∑ a ∈ range t.d, ∑ r ∈ range t.dr, t.e a a l r * pathTrace ts r := by
          refine Finset.sum_congr rfl fun a _ => ?_
          rw [Finset.sum_comm]
          refine Finset.sum_congr rfl fun r _ => ?_
          rw [← Finset.mul_sum, ih r]
      _ = _ := by
          rw [Finset.sum_comm]
          refine Finset.sum_congr rfl fun r _ => ?_
          rw [Finset.sum_mul]

end trace

section traceStar
open Yaqs.MpoConv (vals vals_cons lastDr chainFrom wellFormed physDims toMatrixEntry toMatrixCode toMatrixCode_entry identitySite
  identityMpo mul_add_div' mul_add_mod')
open Yaqs.Index (dimProd unflat kronIdx kronIdx_unflat)
variable {K : Type} [CommSemiring K] [StarRing K]

/-- one site of the scalar product with the identity MPS: `Σ_p conj(A[p, c, c']) · 1[p]` is the conjugated partial trace -/
theorem spTheta_identity (t : Site K) (c c' : Nat) :
    spTheta star (toMps t) (toMps (identitySite t.d)) c 0 c' 0 = star (∑ a ∈ range t.d, t.e a a c c') := by
  simp only [spTheta, toMps, identitySite, sumTo_eq_sum]
  rw [MpoConv.sum_range_mul, star_sum]
  refine Finset.sum_congr rfl fun a _ => ?_
  rw [Finset.sum_eq_single_of_mem a ‹_›]
  · have ha : a < t.d := Finset.mem_range.mp ‹_›
    simp [mul_add_div' _ _ _ ha, mul_add_mod' _ _ _ ha]
  · intro b hb hba
    have hb' : b < t.d := Finset.mem_range.mp hb
    simp only [mul_add_div' _ _ _ hb', mul_add_mod' _ _ _ hb']
    simp [Ne.symm hba]

/-- invariant of the loop of `scalar_product` against the identity MPS: absorbing the remaining sites multiplies the running
    4-leg `result` by the conjugated path trace of the remaining chain -/
theorem spLoop_identity (d : Nat) : ∀ (ts : List (Site K)) (R : T4 K) (Dc : Nat),
    (∀ t ∈ ts, t.d = d) → chainFrom Dc ts = true → lastDr Dc ts = 1 → ∀ a b,
    spLoop star R Dc 1 ((ts.map toMps).zip ((identityMpo ts.length d).map toMps)) a b 0 0
      = ∑ c ∈ range Dc, R a b c 0 * star (pathTrace ts c)
  | [], R, Dc, _, _, hl, a, b => by
    simp only [lastDr] at hl
    subst hl
    simp [spLoop, pathTrace]
  | t :: ts, R, Dc, hd, hc, hl, a, b => by
    simp only [chainFrom, Bool.and_eq_true, decide_eq_true_eq] at hc
    simp only [lastDr] at hl
    have htd : t.d = d := hd t (by simp)
    subst htd
    have hd' : ∀ t' ∈ ts, t'.d = t.d := fun t' ht' => hd t' (by simp [ht'])
    simp only [List.map_cons, List.length_cons, identityMpo, List.replicate_succ, List.zip_cons_cons, spLoop]
    have ih := spLoop_identity t.d ts (spStep Dc 1 R (spTheta star (toMps t) (toMps (identitySite t.d)))) t.dr hd' hc.2 hl a b
    simp only [identityMpo] at ih
    have e1 : (toMps t).dr = t.dr := rfl
    have e2 : (toMps (identitySite t.d : Site K)).dr = 1 := rfl
    rw [e1, e2, ih]
    simp only [spStep, sumTo_eq_sum, Finset.sum_range_one, pathTrace]
    simp only [spTheta_identity, star_sum, star_mul', Finset.sum_mul, Finset.mul_sum]
    rw [Finset.sum_comm]
    refine Finset.sum_congr rfl fun c _ => Finset.sum_congr rfl fun x _ => ?_
    refine Finset.sum_congr rfl fun y _ => ?_
    ring

/-- **the scalar `check_if_identity` computes**: on a well-formed chain of qubit tensors the contraction loop of
    `to_mps().scalar_product(identity.to_mps())` returns the complex conjugate of the path trace -/
theorem identityTrace_eq (ts : List (Site K)) (hw : wellFormed ts = true) (hd : ∀ t ∈ ts, t.d = 2) :
    identityTrace star ts = some (star (pathTrace ts 0)) := by
  cases ts with
  | nil => simp [wellFormed] at hw
  | cons t rest =>
    simp only [wellFormed, Bool.and_eq_true, decide_eq_true_eq] at hw
    obtain ⟨⟨h1, hc⟩, hl⟩ := hw
    have htd : t.d = 2 := hd t (by simp)
    have hd' : ∀ t' ∈ rest, t'.d = 2 := fun t' ht' => hd t' (by simp [ht'])
    simp only [identityTrace, scalarProduct, List.map_cons, List.length_cons, identityMpo, List.replicate_succ,
      List.zip_cons_cons]
    have e1 : (toMps t).dr = t.dr := rfl
    have e2 : (toMps (identitySite 2 : Site K)).dr = 1 := rfl
    have key := spLoop_identity 2 rest (spTheta star (toMps t) (toMps (identitySite 2))) t.dr hd' hc hl 0 0
    simp only [identityMpo] at key
    rw [e1, e2, key]
    congr 1
    simp only [pathTrace, star_sum, star_mul']
    refine Finset.sum_congr rfl fun c _ => ?_
    rw [← htd, spTheta_identity, star_sum]

/-- … which is the conjugate of the trace of the matrix `to_matrix()` returns (every length, any bond dimensions) -/
theorem identityTrace_matrix (ts : List (Site K)) (hw : wellFormed ts = true) (hd : ∀ t ∈ ts, t.d = 2) :
    ∃ M, toMatrixCode ts = some M ∧ M.rows = 2 ^ ts.length ∧
      identityTrace star ts = some (star (∑ i ∈ range M.rows, M.e i i)) := by
  have hne : ts ≠ [] := by rintro rfl; simp [wellFormed] at hw
  obtain ⟨t, rest, rfl⟩ := List.exists_cons_of_ne_nil hne
  have hM : toMatrixCode (t :: rest) = some ⟨(MpoConv.denseAcc t rest).rows, (MpoConv.denseAcc t rest).cols,
      fun i j => (MpoConv.denseAcc t rest).e i j 0 0⟩ := by simp only [toMatrixCode, hw, if_true]
  have hrows : (MpoConv.denseAcc t rest).rows = dimProd (physDims (t :: rest)) := by
    have := (MpoConv.foldl_denseStep_shape rest (MpoConv.accOfSite t)).1
    simpa [MpoConv.denseAcc, physDims, dimProd, MpoConv.accOfSite] using this
  have hdims : physDims (t :: rest) = List.replicate (t :: rest).length 2 := by
    simp only [physDims]
    apply List.eq_replicate_iff.mpr
    refine ⟨by simp, ?_⟩
    intro x hx
    simp only [List.mem_map] at hx
    obtain ⟨y, hy, rfl⟩ := hx
    exact hd y hy
  refine ⟨_, hM, ?_, ?_⟩
  · simp only [hrows, hdims, Index.dimProd_replicate]
  · rw [identityTrace_eq _ hw hd, ← sum_diag_vals]
    simp only [hrows]
    congr 2
    refine Finset.sum_congr rfl fun i hi => ?_
    obtain ⟨hv, hk⟩ := kronIdx_unflat (physDims (t :: rest)) i (Finset.mem_range.mp hi)
    obtain ⟨M', hM', _, _, he⟩ := toMatrixCode_entry (t :: rest) _ _ hw hv hv
    rw [hM] at hM'
    rw [hk] at he
    rw [← toMatrixEntry, ← he, ← Option.some.inj hM']

end traceStar

/-! ### the decision of `check_if_identity` on the exact trace is `Verdict.verdict` on its modulus -/

theorem identityDecision_eq_verdict (tr : CRat) (n : Nat) (f t : Rat) (ht : 0 ≤ t) (hsq : t * t = CRat.normSq tr) :
    identityDecision tr n f = Verdict.verdict t n f := by
  unfold identityDecision Verdict.verdict
  have hP : (0 : Rat) < (2 : Rat) ^ n := by positivity
  have hiff : (0 < f ∧ CRat.normSq tr < (f * (2 : Rat) ^ n) * (f * (2 : Rat) ^ n)) ↔ t / (2 : Rat) ^ n < f := by
    rw [div_lt_iff₀ hP, ← hsq]
    constructor
    · rintro ⟨hf, h⟩
      have hfp : 0 ≤ f * (2 : Rat) ^ n := le_of_lt (mul_pos hf hP)
      exact lt_of_mul_self_lt_mul_self₀ hfp h
    · intro h
      have hfp : 0 < f * (2 : Rat) ^ n := lt_of_le_of_lt ht h
      refine ⟨pos_of_mul_pos_left hfp (le_of_lt hP), mul_self_lt_mul_self ht h⟩
  by_cases h : t / (2 : Rat) ^ n < f
  · have := hiff.mpr h
    simp [h, this.1, this.2]
  · have h' : ¬ (0 < f ∧ CRat.normSq tr < (f * (2 : Rat) ^ n) * (f * (2 : Rat) ^ n)) := fun hc => h (hiff.mp hc)
    simp only [h, decide_false, Bool.not_false]
    by_cases hf : 0 < f
    · have : ¬ CRat.normSq tr < (f * (2 : Rat) ^ n) * (f * (2 : Rat) ^ n) := fun hc => h' ⟨hf, hc⟩
      simp [hf, this]
    · simp [hf]

/-! ### the einsums of `apply_long_range_layer` -/

section longrange
open Yaqs.MpoConv (mul_add_div' mul_add_mod')
variable {K : Type} [CommSemiring K]

/-- the site product at composite bond indices: for fixed bond indices of the two factors it is the matrix product of
    the two local operators (first factor on top) -/
theorem mulSite_apply (G W : Site K) (a b lg lw rg rw : Nat) (hlw : lw < W.dl) (hrw : rw < W.dr) :
    (mulSite G W).e a b (lg * W.dl + lw) (rg * W.dr + rw) = ∑ c ∈ range W.d, G.e a c lg rg * W.e c b lw rw := by
  simp only [mulSite, sumTo_eq_sum, mul_add_div' _ _ _ hlw, mul_add_mod' _ _ _ hlw, mul_add_div' _ _ _ hrw,
    mul_add_mod' _ _ _ hrw]

/-- the non-conjugate pair einsum + reshape of `apply_long_range_layer` is the merged block of the two site products
    `G₀·W₀`, `G₁·W₁` (gate on top, gate bond most significant) -/
theorem lrPairTop_eq (G0 G1 W0 W1 : Site K) (hW : W1.dl = W0.dr) :
    lrPairTop G0 G1 W0 W1 = thetaOf (mulSite G0 W0) (mulSite G1 W1) := by
  funext a e L i k R
  simp only [lrPairTop, thetaOf, mulSite, sumTo_eq_sum, hW]
  rw [MpoConv.sum_range_mul]
  simp only [Finset.sum_mul, Finset.mul_sum]
  -- left: c dd f j      right: dd j c f
  rw [Finset.sum_comm]
  refine Finset.sum_congr rfl fun dd _ => ?_
  calc ∑ c ∈ range W0.d, ∑ f ∈ range W1.d, ∑ j ∈ range W0.dr,
        G0.e a c (L / W0.dl) dd * G1.e e f dd (R / W1.dr) * W0.e c i (L % W0.dl) j * W1.e f k j (R % W1.dr)
      = ∑ c ∈ range W0.d, ∑ j ∈ range W0.dr, ∑ f ∈ range W1.d,
        G0.e a c (L / W0.dl) dd * G1.e e f dd (R / W1.dr) * W0.e c i (L % W0.dl) j * W1.e f k j (R % W1.dr) :=
        Finset.sum_congr rfl fun _ _ => Finset.sum_comm
    _ = ∑ j ∈ range W0.dr, ∑ c ∈ range W0.d, ∑ f ∈ range W1.d,
        G0.e a c (L / W0.dl) dd * G1.e e f dd (R / W1.dr) * W0.e c i (L % W0.dl) j * W1.e f k j (R % W1.dr) :=
        Finset.sum_comm
    _ = _ := by
        refine Finset.sum_congr rfl fun j hj => ?_
        have hj' : j < W0.dr := Finset.mem_range.mp hj
        rw [Finset.sum_comm]
        refine Finset.sum_congr rfl fun f _ => Finset.sum_congr rfl fun c _ => ?_
        rw [mul_add_div' _ _ _ hj', mul_add_mod' _ _ _ hj']
        ring

/-- the conjugate pair einsum + reshape is the merged block of the two site products with the gate tensors *below*
    (`lrHangBottom`: `Σ_c W[σ, c] · G[σ', c]`, MPO bond most significant) -/
theorem lrPairBottom_eq (G0 G1 W0 W1 : Site K) (hG : G1.dl = G0.dr) :
    lrPairBottom G0 G1 W0 W1 = thetaOf (lrHangBottom G0 W0) (lrHangBottom G1 W1) := by
  funext i k L a e R
  simp only [lrPairBottom, thetaOf, lrHangBottom, sumTo_eq_sum, hG]
  rw [MpoConv.sum_range_mul]
  simp only [Finset.sum_mul, Finset.mul_sum]
  -- left: c dd f j      right: j dd c f
  calc ∑ c ∈ range W0.d, ∑ dd ∈ range G0.dr, ∑ f ∈ range W1.d, ∑ j ∈ range W0.dr,
        G0.e a c (L % G0.dl) dd * G1.e e f dd (R % G1.dr) * W0.e i c (L / G0.dl) j * W1.e k f j (R / G1.dr)
      = ∑ c ∈ range W0.d, ∑ dd ∈ range G0.dr, ∑ j ∈ range W0.dr, ∑ f ∈ range W1.d,
        G0.e a c (L % G0.dl) dd * G1.e e f dd (R % G1.dr) * W0.e i c (L / G0.dl) j * W1.e k f j (R / G1.dr) :=
        Finset.sum_congr rfl fun _ _ => Finset.sum_congr rfl fun _ _ => Finset.sum_comm
    _ = ∑ c ∈ range W0.d, ∑ j ∈ range W0.dr, ∑ dd ∈ range G0.dr, ∑ f ∈ range W1.d,
        G0.e a c (L % G0.dl) dd * G1.e e f dd (R % G1.dr) * W0.e i c (L / G0.dl) j * W1.e k f j (R / G1.dr) :=
        Finset.sum_congr rfl fun _ _ => Finset.sum_comm
    _ = ∑ j ∈ range W0.dr, ∑ c ∈ range W0.d, ∑ dd ∈ range G0.dr, ∑ f ∈ range W1.d,
        G0.e a c (L % G0.dl) dd * G1.e e f dd (R % G1.dr) * W0.e i c (L / G0.dl) j * W1.e k f j (R / G1.dr) :=
        Finset.sum_comm
    _ = _ := by
        refine Finset.sum_congr rfl fun j _ => ?_
        rw [Finset.sum_comm]
        refine Finset.sum_congr rfl fun dd hdd => ?_
        have hdd' : dd < G0.dr := Finset.mem_range.mp hdd
        rw [Finset.sum_comm]
        refine Finset.sum_congr rfl fun c _ => Finset.sum_congr rfl fun f _ => ?_
        rw [mul_add_div' _ _ _ hdd', mul_add_mod' _ _ _ hdd']
        ring

/-- the conjugated long-range branch at composite bond indices, with the gate tensor as stored after
    `gate_mpo.rotate(conjugate=True)`: `Σ_c W[σ, c] · conj(G[c, σ'])` — the local operator `W · conj(G)` -/
theorem lrHangBottom_rotate_apply [StarRing K] (G W : Site K) (f a lw lg rw rg : Nat) (hlg : lg < G.dl) (hrg : rg < G.dr) :
    (lrHangBottom (MpoConv.rotateSite star G) W).e f a (lw * G.dl + lg) (rw * G.dr + rg)
      = ∑ c ∈ range W.d, W.e f c lw rw * star (G.e c a lg rg) := by
  simp only [lrHangBottom, MpoConv.rotateSite, sumTo_eq_sum, mul_add_div' _ _ _ hlg, mul_add_mod' _ _ _ hlg,
    mul_add_div' _ _ _ hrg, mul_add_mod' _ _ _ hrg]
  exact Finset.sum_congr rfl fun c _ => mul_comm _ _

end longrange

/-! ### materialisation: the array-backed loop the driver runs computes the same in-range entries -/

section memo
open Yaqs.MpoConv (mul_add_div' mul_add_mod' two_digit_lt sumTo_congr)
variable {K : Type} [CommSemiring K]

/-- two 6-leg arrays agree on all entries of the shape `(d, d, Dl, d, d, Dr)` -/
def EqOn6 (d Dl Dr : Nat) (θ θ' : T6 K) : Prop :=
  ∀ i0, i0 < d → ∀ i1, i1 < d → ∀ i2, i2 < Dl → ∀ i3, i3 < d → ∀ i4, i4 < d → ∀ i5, i5 < Dr →
    θ i0 i1 i2 i3 i4 i5 = θ' i0 i1 i2 i3 i4 i5

/-- writing all entries of an array of shape `(n0, …, n5)` and reading them back is the identity on in-range indices -/
theorem ofTab6_tab6 (n0 n1 n2 n3 n4 n5 : Nat) (θ : T6 K) (i0 i1 i2 i3 i4 i5 : Nat) (h0 : i0 < n0) (h1 : i1 < n1)
    (h2 : i2 < n2) (h3 : i3 < n3) (h4 : i4 < n4) (h5 : i5 < n5) :
    ofTab6 n1 n2 n3 n4 n5 (tab6 n0 n1 n2 n3 n4 n5 θ) i0 i1 i2 i3 i4 i5 = θ i0 i1 i2 i3 i4 i5 := by
  have hlt : ((((i0 * n1 + i1) * n2 + i2) * n3 + i3) * n4 + i4) * n5 + i5 < n0 * n1 * n2 * n3 * n4 * n5 :=
    two_digit_lt _ _ _ _ (two_digit_lt _ _ _ _ (two_digit_lt _ _ _ _ (two_digit_lt _ _ _ _ (two_digit_lt _ _ _ _ h0 h1) h2) h3) h4) h5
  simp only [ofTab6, tab6, Array.getD, Array.size_ofFn, hlt, dif_pos, Array.getInternal_eq_getElem, Array.getElem_ofFn,
    mul_add_div' _ _ _ h5, mul_add_mod' _ _ _ h5, mul_add_div' _ _ _ h4, mul_add_mod' _ _ _ h4, mul_add_div' _ _ _ h3,
    mul_add_mod' _ _ _ h3, mul_add_div' _ _ _ h2, mul_add_mod' _ _ _ h2, mul_add_div' _ _ _ h1, mul_add_mod' _ _ _ h1]

omit [CommSemiring K] in
theorem EqOn6.swap [Zero K] [One K] [Add K] [Mul K] {d Dl Dr : Nat} {θ θ' : T6 K} (h : EqOn6 d Dl Dr θ θ') :
    EqOn6 d Dl Dr (swapLegs θ) (swapLegs θ') :=
  fun i0 h0 i1 h1 i2 h2 i3 h3 i4 h4 i5 h5 => h i3 h3 i4 h4 i2 h2 i0 h0 i1 h1 i5 h5

theorem EqOn6.gateCore {d Dl Dr : Nat} {θ θ' : T6 K} (h : EqOn6 d Dl Dr θ θ') (c : K → K) (g : Gate K) (s0 : Nat) :
    EqOn6 d Dl Dr (gateCore c d g s0 θ) (gateCore c d g s0 θ') := by
  intro i0 h0 i1 h1 i2 h2 i3 h3 i4 h4 i5 h5
  unfold MpoUpdate.gateCore
  split_ifs
  · exact h i0 h0 i1 h1 i2 h2 i3 h3 i4 h4 i5 h5
  · exact sumTo_congr _ _ _ fun j hj => by rw [h j hj i1 h1 i2 h2 i3 h3 i4 h4 i5 h5]
  · exact sumTo_congr _ _ _ fun j hj => by rw [h i0 h0 j hj i2 h2 i3 h3 i4 h4 i5 h5]
  · exact sumTo_congr _ _ _ fun k hk => sumTo_congr _ _ _ fun l hl => by rw [h k hk l hl i2 h2 i3 h3 i4 h4 i5 h5]

/-- relation between the array-backed and the pure result of a zone -/
def OptEqOn6 (d Dl Dr : Nat) : Option (Array K) → Option (T6 K) → Prop
  | some a, some θ => EqOn6 d Dl Dr (ofTab6 d Dl d d Dr a) θ
  | none, none => True
  | _, _ => False

theorem applyGate_congr {d Dl Dr : Nat} {θ θ' : T6 K} (h : EqOn6 d Dl Dr θ θ') (cj : K → K) (g : Gate K) (s0 s1 : Nat)
    (conj : Bool) :
    match applyGate cj d g θ s0 s1 conj, applyGate cj d g θ' s0 s1 conj with
    | some t, some t' => EqOn6 d Dl Dr t t'
    | none, none => True
    | _, _ => False := by
  unfold applyGate
  by_cases hok : gateOk g s0 s1 = true
  · simp only [hok, if_true]
    cases conj
    · simpa using h.gateCore id g s0
    · simpa using (h.swap.gateCore cj g s0).swap
  · simp only [hok]
    trivial

/-- **the driver's array-backed zone loop computes the model's `zoneApply`** on every in-range entry (and raises exactly
    when it does) -/
theorem zoneApplyM_eq (cj : K → K) (d Dl Dr n : Nat) (conj : Bool) : ∀ (gs : List (Gate K)) (a : Array K) (θ : T6 K),
    EqOn6 d Dl Dr (ofTab6 d Dl d d Dr a) θ →
    OptEqOn6 d Dl Dr (zoneApplyM cj d Dl Dr n conj gs a) (zoneApply cj d n conj gs θ)
  | [], a, θ, h => by simpa [zoneApplyM, zoneApply, OptEqOn6] using h
  | g :: gs, a, θ, h => by
    have hc := applyGate_congr h cj g n (n + 1) conj
    simp only [zoneApplyM, zoneApply]
    revert hc
    cases h1 : applyGate cj d g (ofTab6 d Dl d d Dr a) n (n + 1) conj <;>
      cases h2 : applyGate cj d g θ n (n + 1) conj <;> intro hc
    · simp [OptEqOn6]
    · exact hc.elim
    · exact hc.elim
    · rename_i t t'
      apply zoneApplyM_eq cj d Dl Dr n conj gs
      intro i0 h0 i1 h1' i2 h2' i3 h3 i4 h4 i5 h5
      rw [ofTab6_tab6 d d Dl d d Dr t i0 i1 i2 i3 i4 i5 h0 h1' h2' h3 h4 h5]
      exact hc i0 h0 i1 h1' i2 h2' i3 h3 i4 h4 i5 h5

/-- the array-backed `update_mpo` (up to the split) computes the model's `updateTheta` -/
theorem updateThetaM_eq (cj : K → K) (d n : Nat) (A B : Site K) (gs1 gs2 : List (Gate K)) :
    OptEqOn6 d A.dl B.dr (updateThetaM cj d n A B gs1 gs2) (updateTheta cj d n A B gs1 gs2) := by
  unfold updateThetaM updateTheta
  have h0 : EqOn6 d A.dl B.dr (ofTab6 d A.dl d d B.dr (tab6 d d A.dl d d B.dr (thetaOf A B))) (thetaOf A B) :=
    fun i0 h0 i1 h1 i2 h2 i3 h3 i4 h4 i5 h5 => ofTab6_tab6 d d A.dl d d B.dr _ i0 i1 i2 i3 i4 i5 h0 h1 h2 h3 h4 h5
  have h1 := zoneApplyM_eq cj d A.dl B.dr n false gs1 _ _ h0
  revert h1
  cases zoneApplyM cj d A.dl B.dr n false gs1 (tab6 d d A.dl d d B.dr (thetaOf A B)) <;>
    cases zoneApply cj d n false gs1 (thetaOf A B) <;> intro h1
  · simp [OptEqOn6]
  · exact h1.elim
  · exact h1.elim
  · exact zoneApplyM_eq cj d A.dl B.dr n true gs2 _ _ h1

end memo

end Yaqs.MpoUpdate
