import YaqsModel.Lemmas.BornGlobal
import YaqsModel.Lemmas.LocalOp
import YaqsModel.Model.WeakCounts
import Mathlib.Tactic.Ring
import Mathlib.Tactic.Linarith

/-!
# What a noise-free weak run returns (C12 extension, helper lemmas)

Part A glues the Born model (`Model/Born.lean`, executable `Mat`/`Site` over ℚ(i)) to the dense-state layer of
`Lemmas/LocalOp.lean` (`Psi`, `act`, `Represents`): in the Z basis the amplitude matrix of the chain rule is the chain
product `Psi n (sites.map toMS) σ`.  Part B is about the histogram and about `shots` independent draws.
-/
namespace Yaqs.Born
open Yaqs.CB Matrix Yaqs.LocalOp

/-! ## Part A: Z-basis amplitude = chain product = dense amplitude -/

/-- squared Frobenius norm of a Mathlib matrix over ℚ(i) (for boundary bonds of dimension one: `|amplitude|²`) -/
def frobM {m : Nat} (M : Matrix (Fin m) (Fin m) CB.CRat) : Rat := ∑ i, ∑ j, (M i j).normSq

theorem frob_eq_frobM {m : Nat} (M : Mat m) : frob M = frobM (toM M) := by
  simp [frob, frobM, sumFin_eq]

theorem mmul_oneMat {m : Nat} (X : Mat m) : mmul X (oneMat m) = X :=
  toM_injective (by rw [mmul_eq, toM_oneMat, Matrix.mul_one])

theorem ampFrom_Z {m : Nat} (X : Mat m) (rest : List (Site m)) (σ : List (Fin 2)) :
    ampFrom basisZ.R X rest σ = mmul X (chainS rest σ) := by
  induction rest generalizing X σ with
  | nil => simp [ampFrom, chainS, mmul_oneMat]
  | cons B rest ih =>
    cases σ with
    | nil => simp [ampFrom, chainS, mmul_oneMat]
    | cons a σ => simp only [ampFrom, chainS]; rw [ih, rotT_Z, mmul_assoc]

/-- in the computational basis the amplitude matrix of `chain_rule` is the chain product -/
theorem ampMat_Z {m : Nat} (sites : List (Site m)) (σ : List (Fin 2)) : ampMat basisZ sites σ = chainS sites σ := by
  cases sites with
  | nil => cases σ <;> rfl
  | cons A rest =>
    cases σ with
    | nil => rfl
    | cons a σ => simp only [ampMat, chainS]; rw [ampFrom_Z, rotT_Z]

/-- the two chain products of the library (`LocalExpect.chain`, `Mps.Alg.chain`) agree -/
theorem chain_bridge {m : Nat} (ts : List (Mps.Alg.Site (Fin 2) (Fin m) CB.CRat)) (cfg : List (Fin 2)) :
    LocalExpect.chain ts cfg = Mps.Alg.chain ts cfg := by
  induction ts generalizing cfg with
  | nil => simp [LocalExpect.chain]
  | cons A r ih =>
    cases cfg with
    | nil => simp [LocalExpect.chain]
    | cons s c => rw [Mps.Alg.chain_cons, ← ih]; rfl

/-- the chain product of the executable model is the dense amplitude `Psi` of `Lemmas/LocalOp.lean` -/
theorem toM_chainS_Psi {m : Nat} (sites : List (Site m)) (n : Nat) (c : Fin n → Fin 2) :
    toM (chainS sites (List.ofFn c)) = Psi n (sites.map toMS) c := by
  rw [toM_chainS, chain_bridge]; rfl

/-- a matrix with the single entry `(0,0)` (boundary bonds of dimension one, zero-padded) -/
theorem frobM_scalar {m : Nat} (M : Matrix (Fin (m + 1)) (Fin (m + 1)) CB.CRat)
    (h : ∀ i j, (i ≠ 0 ∨ j ≠ 0) → M i j = 0) : frobM M = (M 0 0).normSq := by
  unfold frobM
  rw [Finset.sum_eq_single 0, Finset.sum_eq_single 0]
  · intro j _ hj; rw [h 0 j (Or.inr hj)]; simp [CB.CRat.normSq]
  · simp
  · intro i _ hi
    apply Finset.sum_eq_zero
    intro j _; rw [h i j (Or.inl hi)]; simp [CB.CRat.normSq]
  · simp

/-- an operator on the configuration index keeps the boundary-bond support of the amplitudes -/
theorem act_scalar {m n : Nat} (U : Matrix (Fin n → Fin 2) (Fin n → Fin 2) CB.CRat)
    (Ψ : (Fin n → Fin 2) → Matrix (Fin m) (Fin m) CB.CRat) (i j : Fin m) (h : ∀ c, Ψ c i j = 0) (c : Fin n → Fin 2) :
    act U Ψ c i j = 0 := by
  rw [act_apply]
  have : (fun t => Ψ t i j) = 0 := funext h
  rw [this, Matrix.mulVec_zero]; rfl

/-! ## Part B: the histogram -/

theorem countOf_bump (k k' : Nat) (cs : List (Nat × Nat)) :
    countOf k (bump k' cs) = countOf k cs + (if k' = k then 1 else 0) := by
  induction cs with
  | nil => by_cases h : k' = k <;> simp [bump, countOf, h]
  | cons p cs ih =>
    obtain ⟨k'', c⟩ := p
    unfold bump
    by_cases h1 : k'' = k'
    · rw [if_pos h1]
      by_cases h2 : k' = k
      · subst h1 h2; simp [countOf]; omega
      · have : ¬ k'' = k := by rw [h1]; exact h2
        simp [countOf, h2, this]
    · rw [if_neg h1]
      have e : ∀ r, countOf k ((k'', c) :: r) = (if k'' = k then c else 0) + countOf k r := by
        intro r; by_cases h : k'' = k <;> simp [countOf, h]
      rw [e, e, ih]; omega

theorem countOf_fold (k : Nat) (ks : List Nat) (acc : List (Nat × Nat)) :
    countOf k (ks.foldl (fun acc k => bump k acc) acc) = countOf k acc + ks.count k := by
  induction ks generalizing acc with
  | nil => simp
  | cons a ks ih =>
    rw [List.foldl_cons, ih, countOf_bump, List.count_cons]
    by_cases h : a = k <;> simp [h] <;> omega

theorem countOf_tally (k : Nat) (ks : List Nat) : countOf k (tally ks) = ks.count k := by
  unfold tally; rw [countOf_fold]; simp [countOf]

theorem total_bump (k : Nat) (cs : List (Nat × Nat)) : total (bump k cs) = total cs + 1 := by
  induction cs with
  | nil => simp [bump, total]
  | cons p cs ih =>
    obtain ⟨k', c⟩ := p
    unfold bump
    by_cases h : k' = k
    · rw [if_pos h]; simp [total]; omega
    · rw [if_neg h]
      have e : ∀ r, total ((k', c) :: r) = c + total r := by intro r; simp [total]
      rw [e, e, ih]; omega

theorem total_fold (ks : List Nat) (acc : List (Nat × Nat)) :
    total (ks.foldl (fun acc k => bump k acc) acc) = total acc + ks.length := by
  induction ks generalizing acc with
  | nil => simp
  | cons a ks ih => rw [List.foldl_cons, ih, total_bump, List.length_cons]; omega

theorem total_tally (ks : List Nat) : total (tally ks) = ks.length := by
  unfold tally; rw [total_fold]; simp [total]

theorem mem_bump (k : Nat) (cs : List (Nat × Nat)) (p : Nat × Nat) (h : p ∈ bump k cs) :
    (p.1 = k ∧ 0 < p.2) ∨ p ∈ cs := by
  induction cs with
  | nil => simp [bump] at h; subst h; simp
  | cons q cs ih =>
    obtain ⟨k', c⟩ := q
    unfold bump at h
    by_cases h1 : k' = k
    · rw [if_pos h1] at h
      rcases List.mem_cons.mp h with h | h
      · subst h; left; exact ⟨h1, by simp⟩
      · right; exact List.mem_cons_of_mem _ h
    · rw [if_neg h1] at h
      rcases List.mem_cons.mp h with h | h
      · right; rw [h]; exact List.mem_cons_self
      · rcases ih h with h | h
        · left; exact h
        · right; exact List.mem_cons_of_mem _ h

theorem mem_fold (ks : List Nat) (acc : List (Nat × Nat)) (p : Nat × Nat)
    (h : p ∈ ks.foldl (fun acc k => bump k acc) acc) : (p.1 ∈ ks ∧ 0 < p.2) ∨ p ∈ acc := by
  induction ks generalizing acc with
  | nil => right; simpa using h
  | cons a ks ih =>
    rw [List.foldl_cons] at h
    rcases ih _ h with h | h
    · left; exact ⟨List.mem_cons_of_mem _ h.1, h.2⟩
    · rcases mem_bump a acc p h with h | h
      · left; exact ⟨by rw [h.1]; exact List.mem_cons_self, h.2⟩
      · right; exact h

theorem mem_tally (ks : List Nat) (p : Nat × Nat) (h : p ∈ tally ks) : p.1 ∈ ks ∧ 0 < p.2 := by
  rcases mem_fold ks [] p h with h | h
  · exact h
  · simp at h

/-! ## Part B: independent draws -/

open Yaqs.Dist in
theorem expect_const {α : Type} (d : Dist α) (c : Rat) : expect d (fun _ => c) = c * mass d := by
  rw [mass_eq_expect_one, ← expect_const_mul]
  exact expect_congr d _ _ (fun _ => by ring)

open Yaqs.Dist in
theorem mass_draws {α : Type} (d : Dist α) (h : mass d = 1) (s : Nat) : mass (draws d s) = 1 := by
  induction s with
  | zero => exact mass_point _
  | succ s ih =>
    unfold draws
    rw [mass_bind_of_mass_one d _ (fun a => by rw [mass_mapD, ih]), h]

open Yaqs.Dist in
theorem draws_length {α : Type} (d : Dist α) (s : Nat) : ∀ p ∈ draws d s, p.2.length = s := by
  induction s with
  | zero => intro p hp; simp [draws, Dist.point] at hp; subst hp; rfl
  | succ s ih =>
    have hscale : ∀ (c : Rat) (e : Dist (List α)) (P : List α → Prop), (∀ p ∈ e, P p.2) → ∀ p ∈ Dist.scale c e, P p.2 := by
      intro c e P he
      induction e with
      | nil => intro p hp; simp [Dist.scale] at hp
      | cons x e ihe =>
        obtain ⟨w, a⟩ := x
        intro p hp
        simp only [Dist.scale, List.mem_cons] at hp
        rcases hp with hp | hp
        · subst hp; exact he (w, a) List.mem_cons_self
        · exact ihe (fun p hp => he p (List.mem_cons_of_mem _ hp)) p hp
    have hmap : ∀ (a : α) (e : Dist (List α)), (∀ p ∈ e, p.2.length = s) →
        ∀ p ∈ Dist.mapD (fun l => a :: l) e, p.2.length = s + 1 := by
      intro a e he
      induction e with
      | nil => intro p hp; simp [Dist.mapD] at hp
      | cons x e ihe =>
        obtain ⟨w, l⟩ := x
        intro p hp
        simp only [Dist.mapD, List.mem_cons] at hp
        rcases hp with hp | hp
        · subst hp; simp [he (w, l) List.mem_cons_self]
        · exact ihe (fun p hp => he p (List.mem_cons_of_mem _ hp)) p hp
    have hbind : ∀ (d' : Dist α), ∀ p ∈ Dist.bind d' (fun a => mapD (fun l => a :: l) (draws d s)), p.2.length = s + 1 := by
      intro d'
      induction d' with
      | nil => intro p hp; simp [Dist.bind] at hp
      | cons x d' ihd =>
        obtain ⟨w, a⟩ := x
        intro p hp
        simp only [Dist.bind, List.mem_append] at hp
        rcases hp with hp | hp
        · exact hscale w _ (fun l => l.length = s + 1) (hmap a _ ih) p hp
        · exact ihd p hp
    exact hbind d

open Yaqs.Dist in
/-- **expected count**: over `s` independent draws from a distribution of mass one, the expected number of draws that
    satisfy `g` is `s · P(g)` -/
theorem expect_draws_countP {α : Type} (d : Dist α) (h : mass d = 1) (g : α → Bool) (s : Nat) :
    expect (draws d s) (fun l => ((l.countP g : Nat) : Rat)) = s * expect d (fun a => if g a then 1 else 0) := by
  induction s with
  | zero => simp [draws, expect_point]
  | succ s ih =>
    unfold draws
    rw [expect_bind]
    have step : ∀ a, expect (mapD (fun l => a :: l) (draws d s)) (fun l => ((l.countP g : Nat) : Rat))
        = (s : Rat) * expect d (fun a => if g a then 1 else 0) + (if g a then 1 else 0) := by
      intro a
      rw [expect_mapD]
      have : ∀ l : List α, (((a :: l).countP g : Nat) : Rat) = ((l.countP g : Nat) : Rat) + (if g a then 1 else 0) := by
        intro l; rw [List.countP_cons]; by_cases hg : g a <;> simp [hg]
      rw [expect_congr _ _ _ this, expect_add, ih, expect_const, mass_draws d h, mul_one]
    rw [expect_congr _ _ _ step, expect_add, expect_const, h]
    push_cast; ring

/-! ## Part B: the distribution of one shot -/

theorem allBits_length (L : Nat) : ∀ σ ∈ allBits L, σ.length = L := by
  induction L with
  | zero => intro σ h; simp [allBits] at h; subst h; rfl
  | succ L ih =>
    intro σ h
    simp only [allBits, List.mem_append, List.mem_map] at h
    rcases h with ⟨τ, hτ, rfl⟩ | ⟨τ, hτ, rfl⟩ <;> simp [ih τ hτ]

theorem encode_injective : ∀ (σ τ : List (Fin 2)), σ.length = τ.length → encode σ = encode τ → σ = τ := by
  intro σ
  induction σ with
  | nil => intro τ hl _; exact (List.length_eq_zero_iff.mp hl.symm).symm
  | cons a σ ih =>
    intro τ hl he
    cases τ with
    | nil => simp at hl
    | cons b τ =>
      rw [encode_cons, encode_cons] at he
      have ha := a.isLt
      have hb := b.isLt
      have h1 : a = b := Fin.ext (by omega)
      have h2 : encode σ = encode τ := by omega
      rw [h1, ih τ (by simpa using hl) h2]

open Yaqs.Dist in
theorem mass_map_pair {α : Type} (l : List α) (f : α → Rat) : mass (l.map fun a => (f a, a)) = (l.map f).sum := by
  induction l with
  | nil => rfl
  | cons a l ih => simp [mass, ih]

open Yaqs.Dist in
theorem expect_map_pair {α : Type} (l : List α) (f g : α → Rat) :
    expect (l.map fun a => (f a, a)) g = (l.map fun a => f a * g a).sum := by
  induction l with
  | nil => rfl
  | cons a l ih => simp [expect, ih]

/-- `Σ_{σ of length L} f σ · [σ = σ0] = f σ0` -/
theorem sum_allBits_indicator (L : Nat) : ∀ (f : List (Fin 2) → Rat) (σ0 : List (Fin 2)), σ0.length = L →
    ((allBits L).map fun σ => f σ * (if σ = σ0 then 1 else 0)).sum = f σ0 := by
  induction L with
  | zero =>
    intro f σ0 h
    have : σ0 = [] := List.length_eq_zero_iff.mp h
    subst this; simp [allBits]
  | succ L ih =>
    intro f σ0 h
    cases σ0 with
    | nil => simp at h
    | cons a τ =>
      have hτ : τ.length = L := by simpa using h
      simp only [allBits, List.map_append, List.map_map, List.sum_append, Function.comp_def, List.cons.injEq]
      have ha : a = 0 ∨ a = 1 := by omega
      rcases ha with rfl | rfl
      · have e1 := ih (fun σ => f (0 :: σ)) τ hτ
        simp only [true_and, show ((1 : Fin 2) = 0) = False by simp, false_and, if_false, mul_zero]
        rw [e1]; simp
      · have e1 := ih (fun σ => f (1 :: σ)) τ hτ
        simp only [true_and, show ((0 : Fin 2) = 1) = False by simp, false_and, if_false, mul_zero]
        rw [e1]; simp

end Yaqs.Born
