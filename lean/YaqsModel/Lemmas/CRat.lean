import YaqsModel.Basic.CRat
import Mathlib.Algebra.Order.Ring.Rat
import Mathlib.Algebra.Star.Basic
import Mathlib.Tactic.Ring

/-! `CRat` is a commutative ring with conjugation as its star (instances for the theorems of C18 and the dense models) -/
namespace Yaqs.CRat

instance : CommRing CRat where
  add := (· + ·)
  mul := (· * ·)
  neg := Neg.neg
  sub := (· - ·)
  zero := 0
  one := 1
  add_assoc a b c := by apply ext <;> simp <;> ring
  zero_add a := by apply ext <;> simp
  add_zero a := by apply ext <;> simp
  add_comm a b := by apply ext <;> simp <;> ring
  mul_assoc a b c := by apply ext <;> simp <;> ring
  one_mul a := by apply ext <;> simp
  mul_one a := by apply ext <;> simp
  mul_comm a b := by apply ext <;> simp <;> ring
  left_distrib a b c := by apply ext <;> simp <;> ring
  right_distrib a b c := by apply ext <;> simp <;> ring
  zero_mul a := by apply ext <;> simp
  mul_zero a := by apply ext <;> simp
  neg_add_cancel a := by apply ext <;> simp
  sub_eq_add_neg a b := by apply ext <;> simp <;> ring
  nsmul := nsmulRec
  zsmul := zsmulRec

instance : StarRing CRat where
  star := conj
  star_involutive a := by apply ext <;> simp
  star_mul a b := by apply ext <;> simp <;> ring
  star_add a b := by
    apply ext
    · simp
    · simp; ring

@[simp] theorem star_def (z : CRat) : star z = conj z := rfl

theorem I_mul_I : I * I = -1 := by decide +kernel

theorem two_mul_half : (2 : CRat) * ⟨1/2, 0⟩ = 1 := by
  have h2 : (2 : CRat) = 1 + 1 := by norm_num
  rw [h2]; decide +kernel

end Yaqs.CRat
