import YaqsModel.Lemmas.LanczosH
import Mathlib.Algebra.Polynomial.AlgebraMap
import Mathlib.Algebra.BigOperators.Fin
import Mathlib.Data.Matrix.Mul
import Mathlib.Data.Matrix.Basic

/-! Polynomial exactness of a Krylov basis (xp19 extension): if `A V = V H` holds on every column but the last and `H` is
    upper Hessenberg, then `A^k V e₀ = V H^k e₀` for every `k < m` (`m` = number of basis vectors), hence
    `p(A) V e₀ = V p(H) e₀` for every polynomial of degree `< m`.  Only the recurrence is used — neither symmetry of `A`
    nor orthogonality of the basis.  Instances: the Lanczos run of `expm_krylov` (`H = tri α β`), the Arnoldi run of
    `expm_arnoldi` (`H = h[:m, :m]`).  Helper lemmas for `Props/C19.lean`. -/
namespace Yaqs.Krylov

open Matrix

section
variable {n K : Type*} [Fintype n] [CommRing K] {m : ℕ}

/-- upper Hessenberg: nothing below the first sub-diagonal -/
def IsHess (H : Matrix (Fin m) (Fin m) K) : Prop := ∀ i j : Fin m, (j : ℕ) + 1 < (i : ℕ) → H i j = 0

/-- the coefficient vector `x` only involves the basis vectors `0 … s` -/
def SuppLe (x : Fin m → K) (s : ℕ) : Prop := ∀ i : Fin m, s < (i : ℕ) → x i = 0

theorem hess_supp (H : Matrix (Fin m) (Fin m) K) (hH : IsHess H) (x : Fin m → K) (s : ℕ) (hx : SuppLe x s) :
    SuppLe (H *ᵥ x) (s + 1) := by
  intro i hi
  rw [mulVec, dotProduct]
  refine Finset.sum_eq_zero (fun j _ => ?_)
  by_cases hj : s < (j : ℕ)
  · rw [hx j hj, mul_zero]
  · rw [hH i j (by omega), zero_mul]

/-- `A V = V H` on the columns `j` with `j + 1 < m` carries over to every combination of the basis vectors `0 … s`,
    `s + 1 < m` -/
theorem krylov_step (A : Matrix n n K) (V : Matrix n (Fin m) K) (H : Matrix (Fin m) (Fin m) K)
    (hcol : ∀ j : Fin m, (j : ℕ) + 1 < m → ∀ r, (A * V) r j = (V * H) r j)
    (x : Fin m → K) (s : ℕ) (hx : SuppLe x s) (hs : s + 1 < m) :
    A *ᵥ (V *ᵥ x) = V *ᵥ (H *ᵥ x) := by
  rw [mulVec_mulVec, mulVec_mulVec]
  funext r
  rw [mulVec, mulVec, dotProduct, dotProduct]
  refine Finset.sum_congr rfl (fun j _ => ?_)
  by_cases hj : s < (j : ℕ)
  · rw [hx j hj, mul_zero, mul_zero]
  · rw [hcol j (by omega) r]

theorem suppLe_single (hm : 0 < m) : SuppLe (Pi.single (⟨0, hm⟩ : Fin m) (1 : K)) 0 := by
  intro i hi
  rw [Pi.single_apply, if_neg]
  intro h
  rw [h] at hi
  exact absurd hi (by simp)

/-- `A^k V e₀ = V H^k e₀` and `H^k e₀` only involves the first `k + 1` basis vectors, for `k < m` -/
theorem krylov_pow [DecidableEq n] (A : Matrix n n K) (V : Matrix n (Fin m) K) (H : Matrix (Fin m) (Fin m) K)
    (hH : IsHess H) (hcol : ∀ j : Fin m, (j : ℕ) + 1 < m → ∀ r, (A * V) r j = (V * H) r j) (hm : 0 < m) :
    ∀ k, k < m → SuppLe ((H ^ k) *ᵥ Pi.single (⟨0, hm⟩ : Fin m) (1 : K)) k ∧
      (A ^ k) *ᵥ (V *ᵥ Pi.single (⟨0, hm⟩ : Fin m) (1 : K)) =
        V *ᵥ ((H ^ k) *ᵥ Pi.single (⟨0, hm⟩ : Fin m) (1 : K)) := by
  intro k
  induction k with
  | zero =>
    intro _
    rw [pow_zero, pow_zero, one_mulVec, one_mulVec]
    exact ⟨suppLe_single hm, rfl⟩
  | succ k ih =>
    intro hk
    obtain ⟨hs, he⟩ := ih (by omega)
    rw [pow_succ', pow_succ', ← mulVec_mulVec, ← mulVec_mulVec, he]
    exact ⟨hess_supp H hH _ k hs, krylov_step A V H hcol _ k hs hk⟩

/-- polynomial exactness: `p(A) V e₀ = V p(H) e₀` for `natDegree p < m` -/
theorem krylov_aeval [DecidableEq n] (A : Matrix n n K) (V : Matrix n (Fin m) K) (H : Matrix (Fin m) (Fin m) K)
    (hH : IsHess H) (hcol : ∀ j : Fin m, (j : ℕ) + 1 < m → ∀ r, (A * V) r j = (V * H) r j) (hm : 0 < m)
    (p : Polynomial K) (hp : p.natDegree < m) :
    (Polynomial.aeval A p) *ᵥ (V *ᵥ Pi.single (⟨0, hm⟩ : Fin m) (1 : K)) =
      V *ᵥ ((Polynomial.aeval H p) *ᵥ Pi.single (⟨0, hm⟩ : Fin m) (1 : K)) := by
  rw [Polynomial.aeval_eq_sum_range' hp, Polynomial.aeval_eq_sum_range' hp, sum_mulVec, sum_mulVec, mulVec_sum]
  refine Finset.sum_congr rfl (fun k hk => ?_)
  rw [smul_mulVec, smul_mulVec, mulVec_smul, (krylov_pow A V H hH hcol hm k (Finset.mem_range.mp hk)).2]

/-- the same for explicit coefficient sums `∑_{k<N} c_k A^k`, `N ≤ m` (Taylor partial sums) -/
theorem krylov_powers [DecidableEq n] (A : Matrix n n K) (V : Matrix n (Fin m) K) (H : Matrix (Fin m) (Fin m) K)
    (hH : IsHess H) (hcol : ∀ j : Fin m, (j : ℕ) + 1 < m → ∀ r, (A * V) r j = (V * H) r j) (hm : 0 < m)
    (c : ℕ → K) (N : ℕ) (hN : N ≤ m) :
    (∑ k ∈ Finset.range N, c k • A ^ k) *ᵥ (V *ᵥ Pi.single (⟨0, hm⟩ : Fin m) (1 : K)) =
      V *ᵥ ((∑ k ∈ Finset.range N, c k • H ^ k) *ᵥ Pi.single (⟨0, hm⟩ : Fin m) (1 : K)) := by
  rw [sum_mulVec, sum_mulVec, mulVec_sum]
  refine Finset.sum_congr rfl (fun k hk => ?_)
  have hk' : k < m := lt_of_lt_of_le (Finset.mem_range.mp hk) hN
  rw [smul_mulVec, smul_mulVec, mulVec_smul, (krylov_pow A V H hH hcol hm k hk').2]

end

/-! ### the Lanczos run of `expm_krylov` is an instance -/
section
variable {n K : Type*} [Fintype n] [Field K] [StarRing K]

/-- the basis matrix `V = [v_0 … v_{m-1}]` (`v[:, :m]` of the code) -/
def basisMat (v : ℕ → n → K) (m : ℕ) : Matrix n (Fin m) K := Matrix.of fun x (i : Fin m) => v i x

/-- the matrix handed to `eigh_tridiagonal` -/
def triMat (α β : ℕ → K) (m : ℕ) : Matrix (Fin m) (Fin m) K := Matrix.of fun i j : Fin m => tri α β i j

omit [StarRing K] in
theorem triMat_hess (α β : ℕ → K) (m : ℕ) : IsHess (triMat α β m) := by
  intro i j hij
  simp only [triMat, Matrix.of_apply, tri]
  rw [if_neg (by omega), if_neg (by omega), if_neg (by omega)]

omit [Fintype n] [StarRing K] in
/-- `Σ_{i<m} v_i · T[i, j]` has at most three terms -/
theorem basis_tri_col (v : ℕ → n → K) (α β : ℕ → K) (m : ℕ) (j : ℕ) (hj : j + 1 < m) (r : n) :
    ∑ i ∈ Finset.range m, v i r * tri α β i j =
      β j * v (j + 1) r + α j * v j r + shiftB β j * shiftV v j r := by
  have split : ∀ i, v i r * tri α β i j =
      (if i = j then α j * v j r else 0) + (if i = j + 1 then β j * v (j + 1) r else 0) +
        (if i + 1 = j then β i * v i r else 0) := by
    intro i
    unfold tri
    by_cases h1 : i = j
    · subst h1
      rw [if_pos rfl, if_pos rfl, if_neg (by omega), if_neg (by omega)]
      ring
    · rw [if_neg h1, if_neg h1]
      by_cases h2 : i + 1 = j
      · rw [if_pos h2, if_neg (by omega), if_pos h2]
        ring
      · rw [if_neg h2, if_neg h2]
        by_cases h3 : j + 1 = i
        · subst h3
          rw [if_pos rfl, if_pos rfl]
          ring
        · rw [if_neg h3, if_neg (fun h => h3 h.symm)]
          ring
  rw [Finset.sum_congr rfl (fun i _ => split i), Finset.sum_add_distrib, Finset.sum_add_distrib,
    Finset.sum_ite_eq' (Finset.range m) j, Finset.sum_ite_eq' (Finset.range m) (j + 1),
    if_pos (Finset.mem_range.mpr (by omega)), if_pos (Finset.mem_range.mpr hj)]
  cases j with
  | zero =>
    have : ∀ i ∈ Finset.range m, (if i + 1 = 0 then β i * v i r else 0) = 0 := fun i _ => if_neg (by omega)
    rw [Finset.sum_eq_zero this]
    simp only [shiftB, shiftV, zero_mul, Pi.zero_apply]
    ring
  | succ j =>
    have : ∀ i, (if i + 1 = j + 1 then β i * v i r else 0) = if i = j then β j * v j r else 0 := by
      intro i
      by_cases h : i = j
      · subst h; rw [if_pos rfl, if_pos rfl]
      · rw [if_neg h, if_neg (by omega)]
    rw [Finset.sum_congr rfl (fun i _ => this i), Finset.sum_ite_eq' (Finset.range m) j,
      if_pos (Finset.mem_range.mpr (by omega))]
    simp only [shiftB, shiftV]
    ring

/-- the three-term recurrence says `A V = V T` on every column but the last -/
theorem lanczos_col (A : Matrix n n K) (v : ℕ → n → K) (α β : ℕ → K) (m : ℕ) (h : LanczosRun A v α β m)
    (j : Fin m) (hj : (j : ℕ) + 1 < m) (r : n) :
    (A * basisMat v m) r j = (basisMat v m * triMat α β m) r j := by
  have hA : (A * basisMat v m) r j = (A *ᵥ v j) r := by
    rw [Matrix.mul_apply]
    rfl
  rw [hA, lanczosH_Av A v α β m h j hj, Matrix.mul_apply]
  simp only [basisMat, triMat, Matrix.of_apply]
  rw [Fin.sum_univ_eq_sum_range (fun i => v i r * tri α β i j) m, basis_tri_col v α β m j hj r]
  simp only [Pi.add_apply, Pi.smul_apply, smul_eq_mul]

omit [Fintype n] [StarRing K] in
theorem basisMat_single (v : ℕ → n → K) (m : ℕ) (hm : 0 < m) :
    basisMat v m *ᵥ Pi.single (⟨0, hm⟩ : Fin m) (1 : K) = v 0 := by
  rw [mulVec_single_one]
  rfl

end

/-! ### the Arnoldi run of `expm_arnoldi` is an instance -/
section
variable {n K : Type*} [Fintype n] [CommRing K]

/-- one run of the Arnoldi loop of `expm_arnoldi` that produced `m` vectors (exact arithmetic): modified Gram–Schmidt
    `h[i,j] = ⟨v_i, w⟩`, `w -= h[i,j] v_i` (`i ≤ j`), `h[j+1,j] = ‖w‖`, `v_{j+1} = w / h[j+1,j]` — so
    `A v_j = Σ_{i ≤ j+1} h[i,j] v_i`.  (Only this relation is needed for polynomial exactness.) -/
structure ArnoldiRun (A : Matrix n n K) (v : ℕ → n → K) (h : ℕ → ℕ → K) (m : ℕ) : Prop where
  step : ∀ j, j + 1 < m → A *ᵥ v j = ∑ i ∈ Finset.range (j + 2), h i j • v i

/-- `h[:m, :m]` as the code slices it — entries below the sub-diagonal are never written and stay zero -/
def hessMat (h : ℕ → ℕ → K) (m : ℕ) : Matrix (Fin m) (Fin m) K :=
  Matrix.of fun i j : Fin m => if (i : ℕ) ≤ (j : ℕ) + 1 then h i j else 0

theorem hessMat_hess (h : ℕ → ℕ → K) (m : ℕ) : IsHess (hessMat h m) := by
  intro i j hij
  simp only [hessMat, Matrix.of_apply]
  rw [if_neg (by omega)]

theorem arnoldi_col (A : Matrix n n K) (v : ℕ → n → K) (h : ℕ → ℕ → K) (m : ℕ) (hr : ArnoldiRun A v h m)
    (j : Fin m) (hj : (j : ℕ) + 1 < m) (r : n) :
    (A * (Matrix.of fun x (i : Fin m) => v i x)) r j =
      ((Matrix.of fun x (i : Fin m) => v i x) * hessMat h m) r j := by
  have hA : (A * (Matrix.of fun x (i : Fin m) => v i x)) r j = (A *ᵥ v j) r := by
    rw [Matrix.mul_apply]
    rfl
  rw [hA, hr.step j hj, Matrix.mul_apply]
  simp only [hessMat, Matrix.of_apply]
  rw [Fin.sum_univ_eq_sum_range (fun i => v i r * if i ≤ (j : ℕ) + 1 then h i j else 0) m, Finset.sum_apply]
  have hsub : Finset.range ((j : ℕ) + 2) ⊆ Finset.range m := by
    intro i hi
    rw [Finset.mem_range] at hi ⊢
    omega
  rw [← Finset.sum_subset hsub]
  · refine Finset.sum_congr rfl (fun i hi => ?_)
    rw [if_pos (by rw [Finset.mem_range] at hi; omega), Pi.smul_apply, smul_eq_mul, mul_comm]
  · intro i _ hi
    rw [if_neg (by rw [Finset.mem_range] at hi; omega), mul_zero]

end

end Yaqs.Krylov
