import YaqsModel.Model.ColumnsExec
import YaqsModel.Lemmas.ColumnsValues
import Mathlib.Logic.Equiv.Fin.Basic
import Mathlib.Algebra.BigOperators.Fin

/-!
# The executable column values are the dense ones (C16 extension x16d, helper lemmas)

`Model/ColumnsExec.lean` tabulates amplitudes in a binary tree and writes the lenses out by hand.  Here: the tree is a
faithful table (`get_build`), `app1` / `app2` are `embedL (siteLens …)` / `embedL (pairLens …)` acting by `mulVec`
(`app1_eq`, `app2_eq`, `semExec_eq`), the recursive sum is the sum over all configurations (`sumCfg_eq`), hence the states
of `colStatesExec` are the `colStates` of the dense instance (`colStatesExec_get`) and `expectExec` is `ψ† (O ψ)`
(`expectExec_eq`).
-/
namespace Yaqs.ColumnsExec

open Matrix Yaqs Yaqs.Embed Yaqs.Layers Yaqs.ColumnValues

/-- the gate tables as Mathlib matrices -/
def mat1 (g1 : Nat → M2) : Nat → Matrix (Fin 2) (Fin 2) CRat := fun t => Matrix.of (g1 t)
def mat2 (g2 : Nat → M4) : Nat → Matrix (Fin 2 × Fin 2) (Fin 2 × Fin 2) CRat := fun t => Matrix.of (g2 t)

theorem consBit_tail {n : Nat} (c : Cfg (n + 1)) : consBit (c 0) (fun i => c i.succ) = c := by
  funext i
  unfold consBit
  split
  · next h => exact congrArg c (Fin.ext h.symm)
  · next h => exact congrArg c (Fin.ext (by simp; omega))

theorem consBit_eq_cons {n : Nat} (b : Fin 2) (c : Cfg n) : consBit b c = Fin.cons b c := by
  funext i
  refine Fin.cases ?_ (fun j => ?_) i
  · simp [consBit]
  · simp [consBit]

theorem get_build (n : Nat) (f : Cfg n → CRat) : Vec.get n (Vec.build n f) = f := by
  induction n with
  | zero =>
    funext c
    simp only [Vec.get, Vec.build]
    exact congrArg f (funext fun i => i.elim0)
  | succ n ih =>
    funext c
    simp only [Vec.get, Vec.build]
    split
    · next h => rw [ih, ← h, consBit_tail]
    · next h =>
      have h1 : c 0 = 1 := by
        have := (c 0).isLt
        apply Fin.ext
        have h0 : (c 0).val ≠ 0 := fun e => h (Fin.ext e)
        simp; omega
      rw [ih, ← h1, consBit_tail]

theorem setBit_eq {n : Nat} (c : Cfg n) (q : Fin n) (x : Fin 2) : setBit c q x = Function.update c q x := by
  funext i
  simp [setBit, Function.update_apply]

theorem app1_eq {n : Nat} (G : M2) (q : Fin n) (ψ : Cfg n → CRat) :
    app1 G q ψ = embedL (siteLens q) (Matrix.of G) *ᵥ ψ := by
  funext c
  simp only [Matrix.mulVec, dotProduct]
  rw [sum_embedL_left]
  simp [app1, sum2, Fin.sum_univ_two, siteLens, setBit_eq]

theorem app2_eq {n : Nat} (G : M4) (a b : Fin n) (h : a ≠ b) (ψ : Cfg n → CRat) :
    app2 G a b ψ = embedL (pairLens a b h) (Matrix.of G) *ᵥ ψ := by
  funext c
  simp only [Matrix.mulVec, dotProduct]
  rw [sum_embedL_left]
  simp [app2, sum2, Fintype.sum_prod_type, Fin.sum_univ_two, pairLens_get, pairLens_put, setBit_eq]

theorem semExec_eq (n : Nat) (g1 : Nat → M2) (g2 : Nat → M4) (i : Instr) (ψ : Cfg n → CRat) :
    semExec n g1 g2 i ψ = denseSem n (mat1 g1) (mat2 g2) i *ᵥ ψ := by
  cases i with
  | gate1 t q =>
    simp only [semExec, denseSem, mat1]
    split
    · exact app1_eq _ _ _
    · exact (Matrix.one_mulVec ψ).symm
  | gate2 t a b =>
    simp only [semExec, denseSem, mat2]
    split
    · exact app2_eq _ _ _ _ _
    · exact (Matrix.one_mulVec ψ).symm
  | measure q c => exact (Matrix.one_mulVec ψ).symm
  | barrier qs => exact (Matrix.one_mulVec ψ).symm
  | sbarrier qs => exact (Matrix.one_mulVec ψ).symm

theorem stepVec_get (n : Nat) (g1 : Nat → M2) (g2 : Nat → M4) (i : Instr) (v : Vec n) :
    Vec.get n (stepVec n g1 g2 i v) = denseSem n (mat1 g1) (mat2 g2) i *ᵥ Vec.get n v := by
  rw [stepVec, get_build, semExec_eq]

/-- the tabulated states of the executable fold are the `colStates` of the dense-operator instance over ℚ(i) -/
theorem colStatesExec_get (n : Nat) (g1 : Nat → M2) (g2 : Nat → M4) (v : Vec n) (evs : List Event) :
    (colStatesExec n g1 g2 v evs).map (fun p => (p.1, Vec.get n p.2))
      = colStates (mulVecAction _) (denseSem n (mat1 g1) (mat2 g2)) (Vec.get n v) evs := by
  induction evs generalizing v with
  | nil => rfl
  | cons e r ih =>
    cases e with
    | app1 t q =>
      simp only [colStatesExec, colStates]
      rw [ih, stepVec_get]; rfl
    | app2 t a b =>
      simp only [colStatesExec, colStates]
      rw [ih, stepVec_get]; rfl
    | eval c => simp only [colStatesExec, colStates, List.map_cons, ih]
    | shots => simp only [colStatesExec, colStates, ih]

theorem sumCfg_eq (n : Nat) (F : Cfg n → CRat) : sumCfg n F = ∑ c, F c := by
  induction n with
  | zero =>
    simp only [sumCfg]
    rw [Fintype.sum_unique]
    exact congrArg F (funext fun i => i.elim0)
  | succ n ih =>
    rw [sumCfg, ih, ih, ← (Fin.consEquiv (fun _ => Fin 2)).sum_comp, Fintype.sum_prod_type, Fin.sum_univ_two]
    simp [consBit_eq_cons, Fin.consEquiv]

/-- the observable object of `Lemmas/ColumnsValues.lean` (whose `.op` is the dense operator `1 ⊗ … ⊗ O ⊗ … ⊗ 1`) -/
def ObsExec.toData {n : Nat} : ObsExec n → ObsData n CRat
  | .one p O => .one p (Matrix.of O)
  | .two p h O => .two p ⟨p.val + 1, h⟩ rfl (Matrix.of O)

theorem apply_eq {n : Nat} (o : ObsExec n) (ψ : Cfg n → CRat) : o.apply ψ = o.toData.op *ᵥ ψ := by
  cases o with
  | one p O => exact app1_eq _ _ _
  | two p h O => exact app2_eq _ _ _ _ _

/-- `expectExec` is `ψ† (O ψ)` with the dense operator of the object -/
theorem expectExec_eq {n : Nat} (o : ObsExec n) (ψ : Cfg n → CRat) :
    expectExec o ψ = star ψ ⬝ᵥ (o.toData.op *ᵥ ψ) := by
  rw [expectExec, sumCfg_eq, apply_eq]
  rfl

/-- the values written for one recorded state: `re ψ† (O_o ψ)` for every object of the list, in the list's order -/
def denseValues {n : Nat} (obs : List (ObsExec n)) (p : Nat × (Cfg n → CRat)) : Nat × List Rat :=
  (p.1, obs.map fun o => (star p.2 ⬝ᵥ (o.toData.op *ᵥ p.2)).re)

/-- the executable table, rewritten with the dense-operator semantics of `Lemmas/ColumnsDense.lean` -/
theorem colValuesExec_eq (n : Nat) (g1 : Nat → M2) (g2 : Nat → M4) (v0 : Vec n) (raw : List RawInstr)
    (obs : List (ObsExec n)) :
    colValuesExec n g1 g2 v0 raw obs = (runCircuit .strongSample raw).map fun evs =>
      (colStates (mulVecAction _) (denseSem n (mat1 g1) (mat2 g2)) (Vec.get n v0) evs).map (denseValues obs) := by
  unfold colValuesExec
  congr 1
  funext evs
  rw [← colStatesExec_get, List.map_map]
  refine List.map_congr_left fun p _ => ?_
  simp only [denseValues, Function.comp, expectExec_eq]

end Yaqs.ColumnsExec
