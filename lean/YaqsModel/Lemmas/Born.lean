import YaqsModel.Model.Born
import Mathlib.Tactic.Ring
import Mathlib.Tactic.Linarith
import Mathlib.Tactic.FieldSimp
import Mathlib.Tactic.LinearCombination
import Mathlib.Algebra.Order.Ring.Rat
import Mathlib.Algebra.Star.Basic
import Mathlib.Data.Matrix.Basic
import Mathlib.Data.Matrix.Mul
import Mathlib.LinearAlgebra.Matrix.ConjTranspose
import Mathlib.LinearAlgebra.Matrix.Trace
import Mathlib.Algebra.BigOperators.Fin

/-! helper lemmas for the Born model: ring structure of ℚ(i), bridge to Mathlib matrices, norm identities -/
namespace Yaqs.CB.CRat

instance : CommRing CRat where
  add := (· + ·)
  add_assoc a b c := by apply ext <;> simp <;> ring
  zero := 0
  zero_add a := by apply ext <;> simp
  add_zero a := by apply ext <;> simp
  nsmul := nsmulRec
  neg := Neg.neg
  sub := Sub.sub
  sub_eq_add_neg a b := by apply ext <;> simp <;> ring
  zsmul := zsmulRec
  neg_add_cancel a := by apply ext <;> simp
  add_comm a b := by apply ext <;> simp <;> ring
  mul := (· * ·)
  left_distrib a b c := by apply ext <;> simp <;> ring
  right_distrib a b c := by apply ext <;> simp <;> ring
  zero_mul a := by apply ext <;> simp
  mul_zero a := by apply ext <;> simp
  mul_assoc a b c := by apply ext <;> simp <;> ring
  one := 1
  one_mul a := by apply ext <;> simp
  mul_one a := by apply ext <;> simp
  mul_comm a b := by apply ext <;> simp <;> ring

instance : StarRing CRat where
  star := conj
  star_involutive a := by apply ext <;> simp
  star_mul a b := by apply ext <;> simp <;> ring
  star_add a b := by apply ext <;> simp <;> ring

theorem star_def (a : CRat) : star a = conj a := rfl

end Yaqs.CB.CRat

namespace Yaqs.Born
open Yaqs.CB Matrix

theorem sumFin_eq {α : Type} [AddCommMonoid α] {n : Nat} (f : Fin n → α) : sumFin f = ∑ i, f i := by
  unfold sumFin; exact (Fin.sum_univ_def f).symm

/-! ### the data representation -/

@[simp] theorem Mat.get_ofFn {n : Nat} (f : Fin n → Fin n → CRat) (i j : Fin n) : (Mat.ofFn f).get i j = f i j := by
  simp [Mat.get, Mat.ofFn]

theorem Mat.ext' {n : Nat} {A B : Mat n} (h : ∀ i j, A.get i j = B.get i j) : A = B := by
  apply Vector.ext; intro i hi
  apply Vector.ext; intro j hj
  exact h ⟨i, hi⟩ ⟨j, hj⟩

@[simp] theorem Site.get_zero {n : Nat} (T : Site n) : T.get 0 = T.t0 := rfl
@[simp] theorem Site.get_one {n : Nat} (T : Site n) : T.get 1 = T.t1 := rfl

@[simp] theorem Site.get_ofFn {n : Nat} (f : Fin 2 → Mat n) (s : Fin 2) : (Site.ofFn f).get s = f s := by
  have : s = 0 ∨ s = 1 := by omega
  rcases this with h | h <;> subst h <;> rfl

theorem Site.ext' {n : Nat} {A B : Site n} (h : ∀ s, A.get s = B.get s) : A = B := by
  cases A; cases B
  have h0 := h 0; have h1 := h 1
  simp only [Site.get_zero, Site.get_one] at h0 h1
  subst h0; subst h1; rfl

@[simp] theorem zeroMat_get {n : Nat} (i j : Fin n) : (zeroMat n).get i j = 0 := by simp [zeroMat]

/-- view a model matrix as a Mathlib matrix -/
abbrev toM {n : Nat} (A : Mat n) : Matrix (Fin n) (Fin n) CRat := Matrix.of A.get

theorem toM_injective {n : Nat} {A B : Mat n} (h : toM A = toM B) : A = B :=
  Mat.ext' fun i j => congrFun (congrFun h i) j

/-- the model's product is Mathlib's matrix product -/
theorem mmul_eq {n : Nat} (A B : Mat n) : toM (mmul A B) = toM A * toM B := by
  ext i j
  simp [mmul, sumFin_eq, Matrix.mul_apply]

theorem ofRat_injective : Function.Injective CRat.ofRat := by
  intro a b h; have := congrArg CRat.re h; simpa using this

@[simp] theorem ofRat_add (a b : Rat) : CRat.ofRat (a + b) = CRat.ofRat a + CRat.ofRat b := by
  apply CRat.ext <;> simp
@[simp] theorem ofRat_zero : CRat.ofRat 0 = 0 := rfl

theorem ofRat_sum {ι : Type} (s : Finset ι) (f : ι → Rat) :
    CRat.ofRat (∑ i ∈ s, f i) = ∑ i ∈ s, CRat.ofRat (f i) := by
  induction s using Finset.cons_induction with
  | empty => simp
  | cons a s ha ih => simp [Finset.sum_cons, ih]

theorem mul_star_eq (z : CRat) : z * star z = CRat.ofRat z.normSq := by
  apply CRat.ext <;> simp [CRat.star_def, CRat.normSq] <;> ring

/-- `‖M‖_F² = tr(M Mᴴ)` -/
theorem ofRat_frob {n : Nat} (M : Mat n) : CRat.ofRat (frob M) = Matrix.trace (toM M * (toM M)ᴴ) := by
  simp only [frob, sumFin_eq, ofRat_sum, Matrix.trace, Matrix.diag_apply, Matrix.mul_apply,
    Matrix.conjTranspose_apply, Matrix.of_apply, mul_star_eq]

@[simp] theorem smulQ_re (q : Rat) (z : CRat) : (CRat.smulQ q z).re = q * z.re := rfl
@[simp] theorem smulQ_im (q : Rat) (z : CRat) : (CRat.smulQ q z).im = q * z.im := rfl

/-- a unitary rotation of the physical index preserves `|x|² + |y|²` -/
theorem rot_normSq (b : Basis) (hu : b.IsUnitary) (x y : CRat) :
    b.rsq * ((b.R 0 0 * x + b.R 0 1 * y).normSq + (b.R 1 0 * x + b.R 1 1 * y).normSq)
      = x.normSq + y.normSq := by
  have c00 := hu.col 0 0
  have c11 := hu.col 1 1
  have c01 := hu.col 0 1
  rw [if_pos rfl] at c00 c11
  rw [if_neg (by decide)] at c01
  have h00 := congrArg CRat.re c00
  have h11 := congrArg CRat.re c11
  have h01r := congrArg CRat.re c01
  have h01i := congrArg CRat.im c01
  simp only [smulQ_re, smulQ_im, CRat.add_re, CRat.add_im, CRat.mul_re, CRat.mul_im, CRat.conj_re,
    CRat.conj_im, CRat.one_re, CRat.zero_re, CRat.zero_im] at h00 h11 h01r h01i
  simp only [CRat.normSq, CRat.add_re, CRat.add_im, CRat.mul_re, CRat.mul_im]
  linear_combination (x.re * x.re + x.im * x.im) * h00 + (y.re * y.re + y.im * y.im) * h11
    + 2 * (x.re * y.re + x.im * y.im) * h01r + 2 * (x.im * y.re - x.re * y.im) * h01i

/-- a unitary rotation of the physical index preserves the squared norm of a site tensor -/
theorem frob_rot_sum {n : Nat} (b : Basis) (hu : b.IsUnitary) (T : Site n) :
    b.rsq * (frob (rotT b.R T 0) + frob (rotT b.R T 1)) = siteNorm T := by
  simp only [frob, siteNorm, sumFin_eq, rotT, Mat.get_ofFn, ← Finset.sum_add_distrib, Finset.mul_sum]
  refine Finset.sum_congr rfl fun i _ => Finset.sum_congr rfl fun j _ => ?_
  exact rot_normSq b hu (T.t0.get i j) (T.t1.get i j)

theorem toM_gram {n : Nat} (A : Site n) :
    toM (gram A) = toM A.t0 * (toM A.t0)ᴴ + toM A.t1 * (toM A.t1)ᴴ := by
  ext i j
  simp [gram, sumFin_eq, Matrix.mul_apply, Finset.sum_add_distrib, CRat.star_def]

/-- `Σ_s ‖V A[s]‖² = ‖V‖²` when `V` lives where `A` is a right isometry -/
theorem frob_mmul_sum {n : Nat} (V : Mat n) (A : Site n) (h : mmul V (gram A) = V) :
    frob (mmul V A.t0) + frob (mmul V A.t1) = frob V := by
  apply ofRat_injective
  have h' : toM V * toM (gram A) = toM V := by rw [← mmul_eq, h]
  rw [ofRat_add, ofRat_frob, ofRat_frob, ofRat_frob, mmul_eq, mmul_eq, Matrix.conjTranspose_mul,
    Matrix.conjTranspose_mul, ← Matrix.trace_add]
  have : toM V * toM A.t0 * ((toM A.t0)ᴴ * (toM V)ᴴ) + toM V * toM A.t1 * ((toM A.t1)ᴴ * (toM V)ᴴ)
      = (toM V * toM (gram A)) * (toM V)ᴴ := by
    rw [toM_gram]; simp only [Matrix.mul_add, Matrix.add_mul, Matrix.mul_assoc]
  rw [this, h']

theorem normSq_nonneg (z : CRat) : 0 ≤ z.normSq := by
  unfold CRat.normSq; nlinarith [mul_self_nonneg z.re, mul_self_nonneg z.im]

theorem normSq_eq_zero {z : CRat} (h : z.normSq = 0) : z = 0 := by
  unfold CRat.normSq at h
  have h1 : z.re * z.re = 0 := by nlinarith [mul_self_nonneg z.re, mul_self_nonneg z.im]
  have h2 : z.im * z.im = 0 := by nlinarith [mul_self_nonneg z.re, mul_self_nonneg z.im]
  apply CRat.ext
  · simpa using mul_self_eq_zero.mp h1
  · simpa using mul_self_eq_zero.mp h2

theorem frob_nonneg {n : Nat} (M : Mat n) : 0 ≤ frob M := by
  simp only [frob, sumFin_eq]
  exact Finset.sum_nonneg fun i _ => Finset.sum_nonneg fun j _ => normSq_nonneg _

theorem frob_eq_zero {n : Nat} {M : Mat n} (h : frob M = 0) : M = zeroMat n := by
  simp only [frob, sumFin_eq] at h
  apply Mat.ext'; intro i j
  have h1 := (Finset.sum_eq_zero_iff_of_nonneg
    (fun i _ => Finset.sum_nonneg fun j _ => normSq_nonneg (M.get i j))).mp h i (Finset.mem_univ i)
  have h2 := (Finset.sum_eq_zero_iff_of_nonneg (fun j _ => normSq_nonneg (M.get i j))).mp h1 j (Finset.mem_univ j)
  rw [zeroMat_get]
  exact normSq_eq_zero h2

@[simp] theorem frob_zero (n : Nat) : frob (zeroMat n) = 0 := by
  simp [frob, sumFin_eq, CRat.normSq]

@[simp] theorem mmul_zero_left {n : Nat} (B : Mat n) : mmul (zeroMat n) B = zeroMat n := by
  apply Mat.ext'; intro i j; simp [mmul, sumFin_eq]

theorem mmul_assoc {n : Nat} (A B C : Mat n) : mmul (mmul A B) C = mmul A (mmul B C) := by
  apply toM_injective; simp only [mmul_eq, Matrix.mul_assoc]

/-- the rotation acts on the physical index only: it commutes with a bond matrix from the left -/
theorem rotT_mmul {n : Nat} (R : Fin 2 → Fin 2 → CRat) (Y : Mat n) (B : Site n) (a : Fin 2) :
    rotT R (Site.ofFn fun s => mmul Y (B.get s)) a = mmul Y (rotT R B a) := by
  apply Mat.ext'; intro i j
  simp only [rotT, mmul, Mat.get_ofFn, Site.ofFn, Site.get_zero, Site.get_one, sumFin_eq, Finset.mul_sum,
    ← Finset.sum_add_distrib]
  refine Finset.sum_congr rfl fun k _ => ?_
  ring

/-- … and with a bond matrix from the right -/
theorem rotT_mmul_right {n : Nat} (R : Fin 2 → Fin 2 → CRat) (T : Site n) (G : Mat n) (a : Fin 2) :
    mmul (rotT R T a) G = rotT R (Site.ofFn fun s => mmul (T.get s) G) a := by
  apply Mat.ext'; intro i j
  simp only [rotT, mmul, Mat.get_ofFn, Site.ofFn, Site.get_zero, Site.get_one, sumFin_eq, Finset.mul_sum,
    ← Finset.sum_add_distrib]
  refine Finset.sum_congr rfl fun k _ => ?_
  ring

theorem rotT_supported {n : Nat} (R : Fin 2 → Fin 2 → CRat) (T : Site n) (G : Mat n)
    (h : ∀ s, mmul (T.get s) G = T.get s) (a : Fin 2) : mmul (rotT R T a) G = rotT R T a := by
  rw [rotT_mmul_right]
  congr 1
  apply Site.ext'; intro s; rw [Site.get_ofFn]; exact h s

theorem ampFrom_zero {n : Nat} (R : Fin 2 → Fin 2 → CRat) (rest : List (Site n)) (σ : List (Fin 2)) :
    ampFrom R (zeroMat n) rest σ = zeroMat n := by
  induction rest generalizing σ with
  | nil => cases σ <;> rfl
  | cons B rest ih =>
    cases σ with
    | nil => rfl
    | cons a σ => simp only [ampFrom, mmul_zero_left, ih]

/-! ### the loop of `measure_single_shot` -/

theorem probTotal_eq {n : Nat} (b : Basis) (hu : b.IsUnitary) (c : Carry n) :
    probTotal b c = siteNorm c.cur / c.scaleSq := by
  unfold probTotal probsRaw
  rw [← frob_rot_sum b hu c.cur]; ring

theorem condP_eq {n : Nat} (b : Basis) (hu : b.IsUnitary) (c : Carry n) (hs : c.scaleSq ≠ 0)
    (hN : siteNorm c.cur ≠ 0) (a : Fin 2) :
    condP b c a = b.rsq * frob (rotT b.R c.cur a) / siteNorm c.cur := by
  unfold condP
  rw [probTotal_eq b hu]
  unfold probsRaw
  field_simp

/-- product of the conditional probabilities of the forced outcomes along the trace -/
def prodTrace {n : Nat} (b : Basis) (c : Carry n) (rest : List (Site n)) (σ : List (Fin 2)) : Rat :=
  (List.zipWith (fun p a => p a) (shotTrace b c rest σ) σ).prod

theorem ampMat_step {n : Nat} (b : Basis) (cur B : Site n) (a : Fin 2) (rest : List (Site n)) (σ : List (Fin 2))
    (hσ : σ ≠ []) :
    ampMat b ((Site.ofFn fun s => mmul (rotT b.R cur a) (B.get s)) :: rest) σ
      = ampMat b (cur :: B :: rest) (a :: σ) := by
  cases σ with
  | nil => exact absurd rfl hσ
  | cons a' σ' => simp only [ampMat, ampFrom, rotT_mmul]

theorem siteNorm_step {n : Nat} (Y : Mat n) (B : Site n) (hY : mmul Y (gram B) = Y) :
    siteNorm (Site.ofFn fun s => mmul Y (B.get s)) = frob Y := by
  unfold siteNorm; simp only [Site.ofFn, Site.get_zero, Site.get_one]; exact frob_mmul_sum _ B hY

/-- facts shared by the two inductions over the loop: what one `step` does to the invariants -/
theorem step_facts {n : Nat} (b : Basis) (hu : b.IsUnitary) (c : Carry n) (a : Fin 2) (B : Site n)
    (rest : List (Site n)) (hs : c.scaleSq ≠ 0)
    (hsuppB : ∀ s, mmul (c.cur.get s) (gram B) = c.cur.get s) (hcanon : RightCanon (B :: rest))
    (hz : probsRaw b c a ≠ 0) :
    (step b c a B).scaleSq ≠ 0 ∧
    siteNorm (step b c a B).cur = frob (rotT b.R c.cur a) ∧
    frob (rotT b.R c.cur a) ≠ 0 ∧
    (∀ C ∈ rest.head?, ∀ s, mmul ((step b c a B).cur.get s) (gram C) = (step b c a B).cur.get s) ∧
    RightCanon rest := by
  have hr : b.rsq ≠ 0 := ne_of_gt hu.pos
  have hY : mmul (rotT b.R c.cur a) (gram B) = rotT b.R c.cur a := rotT_supported _ _ _ hsuppB a
  have hcur' : (step b c a B).cur = Site.ofFn fun s => mmul (rotT b.R c.cur a) (B.get s) := rfl
  refine ⟨?_, ?_, ?_, ?_, ?_⟩
  · unfold step; simp only
    exact div_ne_zero (mul_ne_zero hs hz) hr
  · rw [hcur']; exact siteNorm_step _ B hY
  · intro h; apply hz; unfold probsRaw; rw [h]; simp
  · intro C hC s
    rw [hcur', Site.get_ofFn]
    cases rest with
    | nil => simp at hC
    | cons C' rest' =>
      simp at hC; subst hC
      rw [mmul_assoc, hcanon.1 s]
  · cases rest with
    | nil => trivial
    | cons C' rest' => exact hcanon.2

/-- telescoping: `Π_k p_k[σ_k] · ‖cur‖² = rsq^len · ‖amplitude matrix‖²` -/
theorem shot_telescope {n : Nat} (b : Basis) (hu : b.IsUnitary) :
    ∀ (rest : List (Site n)) (σ : List (Fin 2)) (c : Carry n),
      σ.length = rest.length + 1 → c.scaleSq ≠ 0 → siteNorm c.cur ≠ 0 →
      (∀ B ∈ rest.head?, ∀ s, mmul (c.cur.get s) (gram B) = c.cur.get s) → RightCanon rest →
      prodTrace b c rest σ * siteNorm c.cur = b.rsq ^ σ.length * frob (ampMat b (c.cur :: rest) σ) := by
  have hr : b.rsq ≠ 0 := ne_of_gt hu.pos
  intro rest
  induction rest with
  | nil =>
    intro σ c hlen hs hN _ _
    match σ, hlen with
    | [a], _ =>
      have hT : probTotal b c ≠ 0 := by
        rw [probTotal_eq b hu]; exact div_ne_zero hN hs
      simp only [prodTrace, shotTrace, hT, if_false, List.zipWith_cons_cons, List.zipWith_nil_left,
        List.prod_cons, List.prod_nil, mul_one, condP_eq b hu c hs hN, ampMat, ampFrom, List.length_singleton,
        pow_one]
      field_simp
  | cons B rest ih =>
    intro σ c hlen hs hN hsupp hcanon
    match σ, hlen with
    | a :: σ', hlen =>
      have hlen' : σ'.length = rest.length + 1 := by simpa using hlen
      have hσ' : σ' ≠ [] := by intro h; rw [h] at hlen'; simp at hlen'
      have hT : probTotal b c ≠ 0 := by
        rw [probTotal_eq b hu]; exact div_ne_zero hN hs
      have hsuppB : ∀ s, mmul (c.cur.get s) (gram B) = c.cur.get s := hsupp B (by simp)
      by_cases hz : probsRaw b c a = 0
      · -- the forced outcome has probability 0: the trace stops and the amplitude vanishes
        have hf : frob (rotT b.R c.cur a) = 0 := by
          unfold probsRaw at hz
          rcases div_eq_zero_iff.mp hz with h | h
          · rcases mul_eq_zero.mp h with h | h
            · exact absurd h hr
            · exact h
          · exact absurd h hs
        have hzero := frob_eq_zero hf
        simp only [prodTrace, shotTrace, hT, if_false, hz, if_true, List.zipWith_cons_cons,
          List.zipWith_nil_left, List.prod_cons, List.prod_nil, mul_one, condP_eq b hu c hs hN, hf, ampMat,
          hzero, ampFrom_zero, frob_zero]
        simp
      · obtain ⟨hs', hN'eq, hf, hsupp', hcanon'⟩ := step_facts b hu c a B rest hs hsuppB hcanon hz
        have hN' : siteNorm (step b c a B).cur ≠ 0 := by rw [hN'eq]; exact hf
        have IH := ih σ' (step b c a B) hlen' hs' hN' hsupp' hcanon'
        have hamp : ampMat b ((step b c a B).cur :: rest) σ' = ampMat b (c.cur :: B :: rest) (a :: σ') :=
          ampMat_step b c.cur B a rest σ' hσ'
        rw [hamp, hN'eq] at IH
        have hP : prodTrace b c (B :: rest) (a :: σ') = condP b c a * prodTrace b (step b c a B) rest σ' := by
          simp only [prodTrace, shotTrace, hT, if_false, hz, List.zipWith_cons_cons, List.prod_cons]
        rw [hP, condP_eq b hu c hs hN, List.length_cons, pow_succ]
        have : b.rsq * frob (rotT b.R c.cur a) / siteNorm c.cur * prodTrace b (step b c a B) rest σ' * siteNorm c.cur
            = b.rsq * (prodTrace b (step b c a B) rest σ' * frob (rotT b.R c.cur a)) := by
          field_simp
        rw [this, IH]; ring

theorem condP_sum {n : Nat} (b : Basis) (c : Carry n) (hT : probTotal b c ≠ 0) : condP b c 0 + condP b c 1 = 1 := by
  unfold condP
  rw [← add_div]
  exact div_self hT

/-- the branch probabilities of all `2^L` forced branches add up to one -/
theorem sum_branches {n : Nat} (b : Basis) (hu : b.IsUnitary) :
    ∀ (rest : List (Site n)) (c : Carry n),
      c.scaleSq ≠ 0 → siteNorm c.cur ≠ 0 →
      (∀ B ∈ rest.head?, ∀ s, mmul (c.cur.get s) (gram B) = c.cur.get s) → RightCanon rest →
      ((allBits (rest.length + 1)).map (prodTrace b c rest)).sum = 1 := by
  intro rest
  induction rest with
  | nil =>
    intro c hs hN _ _
    have hT : probTotal b c ≠ 0 := by
      rw [probTotal_eq b hu]; exact div_ne_zero hN hs
    simp only [List.length_nil, allBits, List.map_cons, List.map_nil, List.cons_append, List.nil_append,
      prodTrace, shotTrace, hT, if_false, List.zipWith_cons_cons, List.zipWith_nil_left, List.prod_cons,
      List.prod_nil, mul_one, List.sum_cons, List.sum_nil, add_zero]
    exact condP_sum b c hT
  | cons B rest ih =>
    intro c hs hN hsupp hcanon
    have hT : probTotal b c ≠ 0 := by
      rw [probTotal_eq b hu]; exact div_ne_zero hN hs
    have hsuppB : ∀ s, mmul (c.cur.get s) (gram B) = c.cur.get s := hsupp B (by simp)
    have key : ∀ a : Fin 2,
        ((allBits (rest.length + 1)).map (fun σ' => prodTrace b c (B :: rest) (a :: σ'))).sum = condP b c a := by
      intro a
      by_cases hz : probsRaw b c a = 0
      · have hc : condP b c a = 0 := by unfold condP; rw [hz]; simp
        have : ∀ σ', prodTrace b c (B :: rest) (a :: σ') = 0 := by
          intro σ'
          simp only [prodTrace, shotTrace, hT, if_false, hz, if_true, List.zipWith_cons_cons,
            List.zipWith_nil_left, List.prod_cons, List.prod_nil, mul_one, hc]
        simp only [this, hc]
        simp
      · obtain ⟨hs', hN'eq, hf, hsupp', hcanon'⟩ := step_facts b hu c a B rest hs hsuppB hcanon hz
        have hN' : siteNorm (step b c a B).cur ≠ 0 := by rw [hN'eq]; exact hf
        have IH := ih (step b c a B) hs' hN' hsupp' hcanon'
        have : ∀ σ', prodTrace b c (B :: rest) (a :: σ') = condP b c a * prodTrace b (step b c a B) rest σ' := by
          intro σ'
          simp only [prodTrace, shotTrace, hT, if_false, hz, List.zipWith_cons_cons, List.prod_cons]
        simp only [this]
        rw [List.sum_map_mul_left, IH, mul_one]
    have h0 := key 0
    have h1 := key 1
    rw [show (B :: rest).length + 1 = (rest.length + 1) + 1 from rfl, allBits, List.map_append, List.sum_append,
      List.map_map, List.map_map]
    simp only [Function.comp_def]
    rw [h0, h1]
    exact condP_sum b c hT

/-! ### bit encoding of the outcome -/

theorem encodeFrom_eq (i : Nat) (cs : List (Fin 2)) : encodeFrom i cs = 2 ^ i * encodeFrom 0 cs := by
  induction cs generalizing i with
  | nil => simp [encodeFrom]
  | cons c cs ih =>
    simp only [encodeFrom, Nat.shiftLeft_eq, Nat.zero_add, Nat.pow_zero, Nat.mul_one]
    rw [ih (i + 1), ih 1]; ring

theorem encode_cons (c : Fin 2) (cs : List (Fin 2)) : encode (c :: cs) = c.val + 2 * encode cs := by
  simp only [encode, encodeFrom, Nat.shiftLeft_eq, Nat.zero_add, Nat.pow_zero, Nat.mul_one]
  rw [encodeFrom_eq 1]; ring

theorem testBit_encode (cs : List (Fin 2)) (i : Nat) :
    (encode cs).testBit i = decide (cs[i]? = some 1) := by
  induction cs generalizing i with
  | nil => simp [encode, encodeFrom]
  | cons c cs ih =>
    rw [encode_cons]
    cases i with
    | zero =>
      rw [Nat.testBit_zero]
      have hc := c.isLt
      rcases (by omega : c.val = 0 ∨ c.val = 1) with h | h
      · have : c = 0 := Fin.ext h
        subst this; simp
      · have : c = 1 := Fin.ext h
        subst this; simp
    | succ i =>
      rw [Nat.testBit_succ]
      have : (c.val + 2 * encode cs) / 2 = encode cs := by have := c.isLt; omega
      rw [this, ih i]; simp

theorem encode_lt (cs : List (Fin 2)) : encode cs < 2 ^ cs.length := by
  induction cs with
  | nil => simp [encode, encodeFrom]
  | cons c cs ih =>
    rw [encode_cons, List.length_cons, pow_succ]
    have := c.isLt; omega

/-! ### `MPS.measure` -/

theorem normSq_mul (z w : CRat) : (z * w).normSq = z.normSq * w.normSq := by
  simp only [CRat.normSq, CRat.mul_re, CRat.mul_im]; ring

theorem frob_smul {n : Nat} (z : CRat) (M : Mat n) :
    frob (Mat.ofFn fun i j => z * M.get i j) = z.normSq * frob M := by
  simp only [frob, sumFin_eq, Mat.get_ofFn, normSq_mul, Finset.mul_sum]

theorem row_norm (b : Basis) (hu : b.IsUnitary) (a : Fin 2) :
    b.rsq * ((b.R a 0).normSq + (b.R a 1).normSq) = 1 := by
  have h := congrArg CRat.re (hu.row a a)
  rw [if_pos rfl] at h
  simp only [smulQ_re, CRat.add_re, CRat.mul_re, CRat.conj_re, CRat.conj_im, CRat.one_re] at h
  simp only [CRat.normSq]; linear_combination h

theorem projected_norm {n : Nat} (b : Basis) (hu : b.IsUnitary) (T : Site n) (a : Fin 2) :
    siteNorm (projectedSite b T a) = b.rsq * frob (rotT b.R T a) := by
  unfold siteNorm projectedSite
  simp only [Site.ofFn]
  rw [frob_smul, frob_smul]
  have h := row_norm b hu a
  simp only [CRat.normSq, smulQ_re, smulQ_im, CRat.conj_re, CRat.conj_im] at h ⊢
  linear_combination (b.rsq * frob (rotT b.R T a)) * h

theorem projected_entry {n : Nat} (b : Basis) (T : Site n) (a s : Fin 2) (i j : Fin n) :
    ((projectedSite b T a).get s).get i j
      = projector b a s 0 * T.t0.get i j + projector b a s 1 * T.t1.get i j := by
  unfold projectedSite
  rw [Site.get_ofFn, Mat.get_ofFn]
  apply CRat.ext <;>
    simp only [projector, rotT, Mat.get_ofFn, smulQ_re, smulQ_im, CRat.add_re, CRat.add_im, CRat.mul_re,
      CRat.mul_im, CRat.conj_re, CRat.conj_im] <;> ring

end Yaqs.Born
