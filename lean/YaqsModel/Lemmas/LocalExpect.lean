import Mathlib.Data.Matrix.Basic
import Mathlib.Data.Matrix.Mul
import Mathlib.LinearAlgebra.Matrix.ConjTranspose
import Mathlib.LinearAlgebra.Matrix.Trace
import Mathlib.Algebra.Star.Basic
import Mathlib.Algebra.BigOperators.Fin

/-!
  Dense meaning of the site-local contractions of `MPS.scalar_product(…, sites)` / `MPS.local_expect`
  (Mathlib matrices over any commutative star ring; one uniform bond index type `ι`, physical index type `σ`).

  A site tensor is `σ → Matrix ι ι K`.  The dense overlap of two chains of equal length is
  `⟨X|Y⟩ = Σ_τ tr((Π_k X_k[τ_k])ᴴ · Π_k Y_k[τ_k])` — for chains with boundary bonds of dimension 1 (zero-padded) the
  product matrix has the single entry `(0,0)`, the amplitude, so this is `Σ_τ conj(x_τ) y_τ`.
-/
namespace Yaqs.LocalExpect
open Matrix

variable {K : Type*} [CommRing K] [StarRing K] {ι σ : Type*} [Fintype ι] [DecidableEq ι] [Fintype σ]

abbrev MSite (σ ι K : Type*) := σ → Matrix ι ι K

/-- `E ↦ Σ_s X[s]ᴴ · E · Y[s]` — one step of `oe.contract("abc,ade->bdce", conj x, y)` followed by the chain contraction -/
def transfer (X Y : MSite σ ι K) (E : Matrix ι ι K) : Matrix ι ι K := ∑ s, (X s)ᴴ * E * Y s

/-- dense overlap with a metric `E` on the left boundary: `Σ_τ tr((Π X[τ])ᴴ E (Π Y[τ]))`, written as the recursion over
    the sites that it is (sum over the physical index of the first site, then the rest) -/
def overlapFrom : Matrix ι ι K → List (MSite σ ι K) → List (MSite σ ι K) → K
  | E, X :: Xs, Y :: Ys => overlapFrom (transfer X Y E) Xs Ys
  | E, _, _ => trace E

/-- dense overlap `⟨X|Y⟩` -/
def overlap (X Y : List (MSite σ ι K)) : K := overlapFrom 1 X Y

/-- left environment of a prefix: `Σ_τ (Π pre[τ])ᴴ (Π pre[τ])` -/
def envL : Matrix ι ι K → List (MSite σ ι K) → Matrix ι ι K
  | E, [] => E
  | E, B :: rest => envL (transfer B B E) rest

/-- right environment of a suffix: `Σ_τ (Π post[τ]) (Π post[τ])ᴴ` -/
def envR : List (MSite σ ι K) → Matrix ι ι K
  | [] => 1
  | B :: rest => ∑ s, B s * envR rest * (B s)ᴴ

/-- the recursion really is the sum over all configurations: unfolding one site -/
theorem overlapFrom_cons (E : Matrix ι ι K) (X Y : MSite σ ι K) (Xs Ys : List (MSite σ ι K)) :
    overlapFrom E (X :: Xs) (Y :: Ys) = overlapFrom (∑ s, (X s)ᴴ * E * Y s) Xs Ys := rfl

theorem overlapFrom_add (E F : Matrix ι ι K) (Xs Ys : List (MSite σ ι K)) :
    overlapFrom (E + F) Xs Ys = overlapFrom E Xs Ys + overlapFrom F Xs Ys := by
  induction Xs generalizing E F Ys with
  | nil => simp [overlapFrom, trace_add]
  | cons X Xs ih =>
    cases Ys with
    | nil => simp [overlapFrom, trace_add]
    | cons Y Ys =>
      simp only [overlapFrom, transfer]
      rw [← ih]
      congr 1
      simp only [Matrix.mul_add, Matrix.add_mul, Finset.sum_add_distrib]

theorem overlapFrom_zero (Xs Ys : List (MSite σ ι K)) : overlapFrom (0 : Matrix ι ι K) Xs Ys = 0 := by
  induction Xs generalizing Ys with
  | nil => simp [overlapFrom]
  | cons X Xs ih =>
    cases Ys with
    | nil => simp [overlapFrom]
    | cons Y Ys =>
      simp only [overlapFrom, transfer, Matrix.mul_zero, Matrix.zero_mul, Finset.sum_const_zero]
      exact ih Ys

theorem overlapFrom_sum {α : Type*} (s : Finset α) (E : α → Matrix ι ι K) (Xs Ys : List (MSite σ ι K)) :
    overlapFrom (∑ a ∈ s, E a) Xs Ys = ∑ a ∈ s, overlapFrom (E a) Xs Ys := by
  classical
  induction s using Finset.induction_on with
  | empty => simp [overlapFrom_zero]
  | insert a s ha ih => rw [Finset.sum_insert ha, Finset.sum_insert ha, overlapFrom_add, ih]

/-- a common prefix only transports the left metric -/
theorem overlapFrom_prefix (E : Matrix ι ι K) (pre Xs Ys : List (MSite σ ι K)) :
    overlapFrom E (pre ++ Xs) (pre ++ Ys) = overlapFrom (envL E pre) Xs Ys := by
  induction pre generalizing E with
  | nil => rfl
  | cons B pre ih => simp only [List.cons_append, overlapFrom, envL, ih]

/-- a common suffix closes with its right environment -/
theorem overlapFrom_same (E : Matrix ι ι K) (Z : List (MSite σ ι K)) :
    overlapFrom E Z Z = trace (E * envR Z) := by
  induction Z generalizing E with
  | nil => simp [overlapFrom, envR]
  | cons B rest ih =>
    simp only [overlapFrom, transfer, envR]
    rw [ih, Matrix.sum_mul, Matrix.mul_sum, trace_sum, trace_sum]
    refine Finset.sum_congr rfl fun s _ => ?_
    rw [Matrix.mul_assoc, Matrix.mul_assoc, trace_mul_comm, Matrix.mul_assoc, Matrix.mul_assoc]


/-! ### the recursion is the sum over all configurations -/

/-- `Π_k X_k[τ_k]` -/
def chain : List (MSite σ ι K) → List σ → Matrix ι ι K
  | B :: rest, s :: τ => B s * chain rest τ
  | _, _ => 1

/-- `Σ` over all configurations `τ ∈ σ^L` -/
def sumCfg : Nat → (List σ → K) → K
  | 0, f => f []
  | L + 1, f => ∑ s, sumCfg L fun τ => f (s :: τ)

theorem overlapFrom_eq_sum (E : Matrix ι ι K) (X Y : List (MSite σ ι K)) (h : X.length = Y.length) :
    overlapFrom E X Y = sumCfg X.length fun τ => trace ((chain X τ)ᴴ * E * chain Y τ) := by
  induction X generalizing E Y with
  | nil =>
    cases Y with
    | nil => simp [overlapFrom, sumCfg, chain]
    | cons Y Ys => simp at h
  | cons B Xs ih =>
    cases Y with
    | nil => simp at h
    | cons C Ys =>
      simp only [overlapFrom, transfer, List.length_cons, sumCfg]
      rw [overlapFrom_sum]
      refine Finset.sum_congr rfl fun s _ => ?_
      rw [ih _ Ys (by simpa using h)]
      congr 1
      funext τ
      simp only [chain, Matrix.conjTranspose_mul, Matrix.mul_assoc]

/-! ### environments of isometric chains -/

theorem envL_one_of_leftIso (pre : List (MSite σ ι K)) (h : ∀ B ∈ pre, ∑ s, (B s)ᴴ * B s = 1) :
    envL (1 : Matrix ι ι K) pre = 1 := by
  induction pre with
  | nil => rfl
  | cons B rest ih =>
    simp only [envL, transfer, Matrix.mul_one]
    rw [h B (by simp)]
    exact ih fun C hC => h C (List.mem_cons_of_mem _ hC)

theorem envR_one_of_rightIso (post : List (MSite σ ι K)) (h : ∀ B ∈ post, ∑ s, B s * (B s)ᴴ = 1) :
    envR post = 1 := by
  induction post with
  | nil => rfl
  | cons B rest ih =>
    simp only [envR]
    rw [ih fun C hC => h C (List.mem_cons_of_mem _ hC)]
    simp only [Matrix.mul_one]
    exact h B (by simp)

/-- `oe.contract("ab, bcd->acd", O, a)`: an operator on the physical index -/
def applyOp (O : σ → σ → K) (A : MSite σ ι K) : MSite σ ι K := fun s => ∑ t, O s t • A t

/-- `oe.contract("ijk,ijk", conj a, b)`: the site-local overlap of `scalar_product(…, site)` -/
def localContract (A A' : MSite σ ι K) : K := ∑ s, trace ((A s)ᴴ * A' s)

theorem applyOp_left (O : σ → σ → K) (A : MSite σ ι K) (E : Matrix ι ι K) (h : ∀ s, E * A s = A s) (s : σ) :
    E * applyOp O A s = applyOp O A s := by
  simp only [applyOp, Matrix.mul_sum, Matrix.mul_smul, h]

theorem applyOp_right (O : σ → σ → K) (A : MSite σ ι K) (E : Matrix ι ι K) (h : ∀ s, A s * E = A s) (s : σ) :
    applyOp O A s * E = applyOp O A s := by
  simp only [applyOp, Matrix.sum_mul, Matrix.smul_mul, h]

/-- overlap of two chains that differ in one site, in terms of the environments of that site -/
theorem overlap_one_site (pre post : List (MSite σ ι K)) (A A' : MSite σ ι K) :
    overlap (pre ++ A :: post) (pre ++ A' :: post)
      = ∑ s, trace ((A s)ᴴ * envL 1 pre * A' s * envR post) := by
  unfold overlap
  rw [overlapFrom_prefix]
  simp only [overlapFrom]
  rw [overlapFrom_same, transfer, Matrix.sum_mul, trace_sum]

end Yaqs.LocalExpect
