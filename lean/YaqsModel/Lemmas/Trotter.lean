import YaqsModel.Model.Trotter
import Mathlib.Algebra.Ring.Defs
import Mathlib.Tactic.Ring
import Mathlib.Tactic.Linarith
import Mathlib.Data.List.Nodup

/-! helper lemmas for the model library (C07): automaton of `from_pauli_sum`, bond lists, snake order -/
namespace Yaqs.Trotter

/-! ### the insertion-ordered state table -/

theorem mem_foldl_insertNew (sigs : List Sig) (acc : List Sig) (s : Sig) :
    s ∈ sigs.foldl insertNew acc ↔ s ∈ acc ∨ s ∈ sigs := by
  induction sigs generalizing acc with
  | nil => simp
  | cons x xs ih =>
    simp only [List.foldl_cons, ih, List.mem_cons]
    unfold insertNew
    by_cases hx : x ∈ acc
    · simp only [hx, if_true]
      constructor
      · rintro (h | h); exact Or.inl h; exact Or.inr (Or.inr h)
      · rintro (h | h | h); exact Or.inl h; exact Or.inl (h ▸ hx); exact Or.inr h
    · simp only [hx, if_false, List.mem_append, List.mem_singleton]
      constructor
      · rintro ((h | h) | h); exact Or.inl h; exact Or.inr (Or.inl h); exact Or.inr (Or.inr h)
      · rintro (h | h | h); exact Or.inl (Or.inl h); exact Or.inl (Or.inr h); exact Or.inr h

theorem mem_table (sigs : List Sig) (s : Sig) : s ∈ table sigs ↔ s ∈ sigs := by
  unfold table; rw [mem_foldl_insertNew]; simp

/-- no signature is stored twice: ids are unique -/
theorem nodup_foldl_insertNew (sigs acc : List Sig) (h : acc.Nodup) : (sigs.foldl insertNew acc).Nodup := by
  induction sigs generalizing acc with
  | nil => simpa
  | cons x xs ih =>
    simp only [List.foldl_cons]
    apply ih
    unfold insertNew
    by_cases hx : x ∈ acc
    · simpa [hx]
    · simp only [hx, if_false]
      rw [List.nodup_append]
      refine ⟨h, by simp, ?_⟩
      intro a ha b hb
      simp only [List.mem_singleton] at hb
      rintro rfl
      exact hx (hb ▸ ha)

theorem nodup_table (sigs : List Sig) : (table sigs).Nodup := nodup_foldl_insertNew sigs [] List.nodup_nil

theorem getD_map_idxOf {β : Type} (tbl : List Sig) (F : Sig → β) (d : β) (s : Sig) (h : s ∈ tbl) :
    (tbl.map F).getD (tbl.idxOf s) d = F s := by
  have hlt : tbl.idxOf s < tbl.length := List.idxOf_lt_length_of_mem h
  simp [List.getD_eq_getElem?_getD, List.getElem?_map, List.getElem?_eq_getElem hlt, List.getElem_idxOf]

theorem zip_map_self {τ β : Type} (l : List τ) (h : τ → β) : l.zip (l.map h) = l.map fun t => (t, h t) := by
  induction l with
  | nil => rfl
  | cons x xs ih => simp [ih]

/-! ### per-term state function -/

/-- state id of the term with operator list `o` at bond `i` (closed form of the trajectory table) -/
def stateOf (ops : List (List Op)) : Nat → Nat → List Op → Nat
  | _, 0, _ => 0
  | i, n + 1, o =>
    (table ((colAt ops i).zip (sweep ops (i + 1) n).2)).idxOf (o.getD i Op.I, stateOf ops (i + 1) n o)

theorem sweep_snd (ops : List (List Op)) (i n : Nat) : (sweep ops i n).2 = ops.map (stateOf ops i n) := by
  induction n generalizing i with
  | zero => simp [sweep, stateOf]
  | succ n ih =>
    simp only [sweep, stateOf, colAt, ih, List.zip_map', List.map_map]
    apply List.map_congr_left
    intro o _
    rfl

theorem sig_mem (ops : List (List Op)) (i n : Nat) (o : List Op) (ho : o ∈ ops) :
    (o.getD i Op.I, stateOf ops (i + 1) n o) ∈ (colAt ops i).zip (sweep ops (i + 1) n).2 := by
  rw [sweep_snd, colAt, List.zip_map']
  exact List.mem_map.2 ⟨o, ho, rfl⟩

section fsm
variable {K : Type} [CommSemiring K] {α : Type}

theorem rowDot_eq (P : Op → α → α → K) (a b : α) (sg : Sig) (k : Nat) (v : List K) :
    rowDot P a b sg k v = if k ≤ sg.2 then P sg.1 a b * v.getD (sg.2 - k) 0 else 0 := by
  induction v generalizing k with
  | nil => simp [rowDot]
  | cons y ys ih =>
    simp only [rowDot, ih, entry]
    rcases Nat.lt_trichotomy sg.2 k with h | h | h
    · have h1 : ¬ sg.2 = k := by omega
      have h2 : ¬ k + 1 ≤ sg.2 := by omega
      have h3 : ¬ k ≤ sg.2 := by omega
      simp [h1, h2, h3]
    · have h2 : ¬ k + 1 ≤ sg.2 := by omega
      have h3 : k ≤ sg.2 := by omega
      simp [h]
    · have h1 : ¬ sg.2 = k := by omega
      have h2 : k + 1 ≤ sg.2 := by omega
      have h3 : k ≤ sg.2 := by omega
      have h4 : sg.2 - k = (sg.2 - (k + 1)) + 1 := by omega
      simp only [h1, h2, h3, if_false, if_true, zero_mul, zero_add]
      rw [h4, List.getD_cons_succ]

theorem rowDot_zero (P : Op → α → α → K) (a b : α) (sg : Sig) (v : List K) :
    rowDot P a b sg 0 v = P sg.1 a b * v.getD sg.2 0 := by
  rw [rowDot_eq]; simp

/-- the value of a term's state is the product of the term's local matrix elements over the remaining sites -/
theorem vals_state (P : Op → α → α → K) (σ σ' : Nat → α) (ops : List (List Op)) (n i : Nat) (o : List Op)
    (ho : o ∈ ops) :
    (vals P σ σ' (sweep ops i n).1 i).getD (stateOf ops i n o) 0 = termProd P o σ σ' i n := by
  induction n generalizing i with
  | zero => simp [sweep, vals, stateOf, termProd]
  | succ n ih =>
    simp only [sweep, vals, stateOf, termProd]
    have hm := (mem_table _ _).2 (sig_mem ops i n o ho)
    rw [getD_map_idxOf _ _ _ _ hm, rowDot_zero, ih]

theorem addAt_length (w : List K) (k : Nat) (x : K) : (addAt w k x).length = w.length := by
  induction w generalizing k with
  | nil => simp [addAt]
  | cons y ys ih => cases k <;> simp [addAt, ih]

theorem dot_addAt (w v : List K) (k : Nat) (x : K) (h : w.length = v.length) :
    dot (addAt w k x) v = dot w v + x * v.getD k 0 := by
  induction w generalizing v k with
  | nil =>
    cases v with
    | nil => simp [addAt, dot]
    | cons z zs => simp at h
  | cons y ys ih =>
    cases v with
    | nil => simp at h
    | cons z zs =>
      simp only [List.length_cons, Nat.add_right_cancel_iff] at h
      cases k with
      | zero => simp only [addAt, dot, List.getD_cons_zero]; ring
      | succ k => simp only [addAt, dot, List.getD_cons_succ, ih zs k h]; ring

theorem dot_replicate_zero (d : Nat) (v : List K) : dot (List.replicate d (0 : K)) v = 0 := by
  induction d generalizing v with
  | zero => simp [dot]
  | succ d ih => cases v <;> simp [List.replicate_succ, dot, ih]

theorem dot_foldl_addAt {τ : Type} (ts : List τ) (c : τ → K) (h : τ → Nat) (w v : List K) (hl : w.length = v.length) :
    dot (ts.foldl (fun w t => addAt w (h t) (c t)) w) v = dot w v + (ts.map fun t => c t * v.getD (h t) 0).sum := by
  induction ts generalizing w with
  | nil => simp
  | cons t ts ih =>
    simp only [List.foldl_cons, List.map_cons, List.sum_cons]
    rw [ih _ (by rw [addAt_length]; exact hl), dot_addAt _ _ _ _ hl]
    ring

end fsm

/-! ### parsing -/

theorem parseSpec_eq (spec : Spec) :
    parseSpec spec = if (spec.map (·.2)).Nodup then some (spec.map fun t => (t.2, t.1)) else none := by
  induction spec with
  | nil => simp [parseSpec]
  | cons t rest ih =>
    obtain ⟨o, s⟩ := t
    simp only [parseSpec, ih, List.map_cons, List.nodup_cons]
    by_cases hn : (rest.map (·.2)).Nodup
    · simp only [hn, if_true, and_true]
      by_cases hs : s ∈ rest.map (·.2)
      · have : rest.any (fun t => decide (t.2 = s)) = true := by
          simp only [List.any_eq_true, decide_eq_true_eq]
          simp only [List.mem_map] at hs
          obtain ⟨a, ha, rfl⟩ := hs
          exact ⟨a, ha, rfl⟩
        simp [this, hs]
      · have : rest.any (fun t => decide (t.2 = s)) = false := by
          rw [Bool.eq_false_iff]
          intro h
          simp only [List.any_eq_true, decide_eq_true_eq] at h
          obtain ⟨a, ha, rfl⟩ := h
          exact hs (List.mem_map.2 ⟨a, ha, rfl⟩)
        simp [this, hs]
    · simp [hn]

/-- `from_pauli_sum` accepts a spec iff no site repeats and every site is inside the chain -/
theorem opList_isSome_iff (L : Nat) (spec : Spec) :
    (opList L spec).isSome ↔ (spec.map (·.2)).Nodup ∧ ∀ t ∈ spec, t.2 < L := by
  unfold opList
  rw [parseSpec_eq]
  by_cases hn : (spec.map (·.2)).Nodup
  · simp only [hn, if_true, true_and]
    by_cases hr : (spec.map fun t => (t.2, t.1)).any (fun t => decide (L ≤ t.1)) = true
    · simp only [hr, if_true, Option.isSome_none, Bool.false_eq_true, false_iff]
      simp only [List.any_eq_true, List.mem_map, decide_eq_true_eq] at hr
      obtain ⟨x, ⟨t, ht, rfl⟩, hx⟩ := hr
      intro h
      have := h t ht
      simp only at hx
      omega
    · simp only [hr, Bool.false_eq_true, if_false, Option.isSome_some, true_iff]
      intro t ht
      by_contra hlt
      apply hr
      simp only [List.any_eq_true, List.mem_map, decide_eq_true_eq]
      exact ⟨(t.2, t.1), ⟨t, ht, rfl⟩, by simp only; omega⟩
  · simp [hn]

/-- the dense operator list of an accepted spec carries the spec's label on the sites it mentions and `I` elsewhere -/
theorem opList_getD (L : Nat) (spec : Spec) (ops : List Op) (h : opList L spec = some ops) (i : Nat) (hi : i < L) :
    ops.getD i Op.I = specOp spec i := by
  unfold opList at h
  rw [parseSpec_eq] at h
  by_cases hn : (spec.map (·.2)).Nodup
  · simp only [hn, if_true] at h
    split at h
    · exact absurd h (by simp)
    · simp only [Option.some.injEq] at h
      subst h
      simp only [List.getD_eq_getElem?_getD, List.getElem?_map, List.getElem?_range hi, Option.map_some, Option.getD_some,
        specOp, List.find?_map, Function.comp_def, Option.map_map]
  · simp [hn] at h

section fsm2
variable {K : Type} [CommSemiring K] {α : Type}

theorem termProd_eq_specProd (P : Op → α → α → K) (L : Nat) (spec : Spec) (ops : List Op) (h : opList L spec = some ops)
    (σ σ' : Nat → α) (n i : Nat) (hin : i + n ≤ L) : termProd P ops σ σ' i n = specProd P spec σ σ' i n := by
  induction n generalizing i with
  | zero => rfl
  | succ n ih =>
    simp only [termProd, specProd]
    rw [opList_getD L spec ops h i (by omega), ih (i + 1) (by omega)]

end fsm2

/-! ### bond dimensions -/

theorem length_foldl_insertNew (sigs acc : List Sig) : (sigs.foldl insertNew acc).length ≤ acc.length + sigs.length := by
  induction sigs generalizing acc with
  | nil => simp
  | cons x xs ih =>
    simp only [List.foldl_cons, List.length_cons]
    have := ih (insertNew acc x)
    have h2 : (insertNew acc x).length ≤ acc.length + 1 := by
      unfold insertNew; split <;> simp
    omega

theorem length_table_le (sigs : List Sig) : (table sigs).length ≤ sigs.length := by
  have := length_foldl_insertNew sigs []
  simpa [table] using this

theorem sweep_snd_length (ops : List (List Op)) (i n : Nat) : (sweep ops i n).2.length = ops.length := by
  rw [sweep_snd]; simp

theorem sweep_table_length_le (ops : List (List Op)) (n i : Nat) : ∀ tbl ∈ (sweep ops i n).1, tbl.length ≤ ops.length := by
  induction n generalizing i with
  | zero => simp [sweep]
  | succ n ih =>
    intro tbl ht
    simp only [sweep, List.mem_cons] at ht
    rcases ht with rfl | ht
    · refine (length_table_le _).trans ?_
      simp [colAt, sweep_snd_length]
    · exact ih (i + 1) tbl ht

theorem sweep_table_nodup (ops : List (List Op)) (n i : Nat) : ∀ tbl ∈ (sweep ops i n).1, tbl.Nodup := by
  induction n generalizing i with
  | zero => simp [sweep]
  | succ n ih =>
    intro tbl ht
    simp only [sweep, List.mem_cons] at ht
    rcases ht with rfl | ht
    · exact nodup_table _
    · exact ih (i + 1) tbl ht

end Yaqs.Trotter
