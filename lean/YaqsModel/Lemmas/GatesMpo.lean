import YaqsModel.Model.Gates
import Mathlib.Algebra.BigOperators.Ring.Finset
import Mathlib.Algebra.BigOperators.Intervals
import Mathlib.Tactic.Ring

/-! helper lemmas for the MPO form of a gate (`extend_gate`): contraction through bond-diagonal identity tensors -/
namespace Yaqs.Gates

variable {K : Type} [CommRing K]

theorem sumTo_eq_sum (n : Nat) (f : Nat → K) : sumTo n f = ∑ k ∈ Finset.range n, f k := by
  induction n with
  | zero => simp [sumTo]
  | succ n ih => simp [sumTo, Finset.sum_range_succ, ih]

theorem sumTo_congr (n : Nat) (f g : Nat → K) (h : ∀ k, k < n → f k = g k) : sumTo n f = sumTo n g := by
  rw [sumTo_eq_sum, sumTo_eq_sum]
  exact Finset.sum_congr rfl (fun k hk => h k (Finset.mem_range.mp hk))

theorem sumTo_zero_fun (n : Nat) : sumTo n (fun _ => (0 : K)) = 0 := by
  rw [sumTo_eq_sum]; simp

theorem vget_map_range (n : Nat) (f : Nat → K) (k : Nat) :
    vget ((List.range n).map f) k = if k < n then f k else 0 := by
  unfold vget
  by_cases hk : k < n
  · simp [List.getD_eq_getElem?_getD, hk]
  · simp [List.getD_eq_getElem?_getD, hk]

/-- absorbing an identity tensor multiplies the boundary vector by `δ(out, in)` (and cuts it to the bond range) -/
theorem vget_absorb_id (chi : Nat) (v : List K) (o i : Fin 2) (k' : Nat) :
    vget (absorb v (idSite chi) o i) k' = if o = i ∧ k' < chi then vget v k' else 0 := by
  unfold absorb
  rw [vget_map_range]
  simp only [idSite]
  by_cases hk : k' < chi
  · simp only [hk, if_true, and_true]
    rw [sumTo_eq_sum]
    by_cases hoi : o = i
    · simp only [hoi, true_and, mul_ite, mul_one, mul_zero, if_true]
      rw [Finset.sum_ite_eq' (Finset.range chi) k' (vget v)]
      simp [hk]
    · simp [hoi]
  · simp [hk]

/-- the chain `[id, …, id, last]` (any number `n` of identity tensors) applied to a boundary vector -/
theorem chainVec_ids (chi : Nat) (t2 : Fin 2 → Fin 2 → Nat → K) :
    ∀ (n : Nat) (os is : List (Fin 2)), os.length = n → is.length = n → ∀ (v : List K) (b d : Fin 2),
      vget (chainVec (List.replicate n (idSite chi) ++ [lastSite chi t2]) (os ++ [b]) (is ++ [d]) v) 0
        = (if os = is then 1 else 0) * sumTo chi (fun k => vget v k * t2 b d k) := by
  intro n
  induction n with
  | zero =>
    intro os is ho hi v b d
    have ho' : os = [] := List.length_eq_zero_iff.mp ho
    have hi' : is = [] := List.length_eq_zero_iff.mp hi
    subst ho' hi'
    simp only [List.replicate_zero, List.nil_append, chainVec, if_true, one_mul]
    unfold absorb
    rw [vget_map_range]
    simp [lastSite]
  | succ n ih =>
    intro os is ho hi v b d
    obtain ⟨o, os', rfl⟩ := List.exists_cons_of_length_eq_add_one ho
    obtain ⟨i, is', rfl⟩ := List.exists_cons_of_length_eq_add_one hi
    simp only [List.length_cons, Nat.add_right_cancel_iff] at ho hi
    simp only [List.replicate_succ, List.cons_append, chainVec]
    rw [ih os' is' ho hi]
    have hs : sumTo chi (fun k => vget (absorb v (idSite chi) o i) k * t2 b d k)
        = (if o = i then 1 else 0) * sumTo chi (fun k => vget v k * t2 b d k) := by
      by_cases hoi : o = i
      · simp only [hoi, if_true, one_mul]
        apply sumTo_congr
        intro k hk
        rw [vget_absorb_id]; simp [hk]
      · simp only [hoi, if_false, zero_mul]
        rw [← sumTo_zero_fun (K := K) chi]
        apply sumTo_congr
        intro k _
        rw [vget_absorb_id]; simp [hoi]
    rw [hs]
    by_cases hoi : o = i
    · subst hoi; simp
    · simp [hoi]

theorem idSite_swapBonds (chi : Nat) : (idSite chi : Site K).swapBonds = idSite chi := by
  unfold Site.swapBonds idSite
  simp only [Site.mk.injEq, true_and]
  funext o i k k'
  simp [eq_comm]

theorem vget_absorb_first (chi : Nat) (t1 : Fin 2 → Fin 2 → Nat → K) (a c : Fin 2) (k : Nat) :
    vget (absorb [1] (firstSite chi t1) a c) k = if k < chi then t1 a c k else 0 := by
  unfold absorb
  rw [vget_map_range]
  simp [firstSite, sumTo, vget]

/-- forward orientation, any number of identity tensors -/
theorem mpoEntry_fwd (chi : Nat) (t1 t2 : Fin 2 → Fin 2 → Nat → K) (n : Nat) (os is : List (Fin 2))
    (ho : os.length = n) (hi : is.length = n) (a b c d : Fin 2) :
    mpoEntry (firstSite chi t1 :: (List.replicate n (idSite chi) ++ [lastSite chi t2]))
        (a :: (os ++ [b])) (c :: (is ++ [d]))
      = (if os = is then 1 else 0) * sumTo chi (fun k => t1 a c k * t2 b d k) := by
  unfold mpoEntry
  simp only [chainVec]
  rw [chainVec_ids chi t2 n os is ho hi]
  congr 1
  apply sumTo_congr
  intro k hk
  rw [vget_absorb_first]; simp [hk]

theorem extendGate_rev (chi : Nat) (t1 t2 : Fin 2 → Fin 2 → Nat → K) (n : Nat) :
    extendGate chi t1 t2 n true
      = firstSite chi t2 :: (List.replicate n (idSite chi) ++ [lastSite chi t1]) := by
  unfold extendGate
  simp only [if_true, List.reverse_cons, List.reverse_append, List.reverse_replicate, List.map_append,
    List.map_cons, List.map_nil, List.map_replicate, idSite_swapBonds, List.reverse_nil, List.nil_append,
    List.cons_append]
  rfl

end Yaqs.Gates
