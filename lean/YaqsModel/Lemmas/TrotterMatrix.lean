import YaqsModel.Lemmas.TrotterLimit
import Mathlib.Analysis.Normed.Algebra.MatrixExponential
import Mathlib.Analysis.CStarAlgebra.Matrix
import Mathlib.Analysis.Calculus.Deriv.Mul
import Mathlib.Analysis.Calculus.Deriv.Add
import Mathlib.Analysis.Calculus.Deriv.Slope
import Mathlib.Analysis.SpecificLimits.Basic
import Mathlib.Analysis.Complex.Basic
import Mathlib.Topology.Algebra.Module.FiniteDimension

/-!
# Lemmas.TrotterMatrix — the product formula for complex matrices (xt07 extension of C07)

`prodExp As t = exp(t A₁) ⋯ exp(t A_m)` for a list of `n × n` complex matrices and a real step `t` — one Trotter step of
step size `t` whose generators are `A_k` (`A_k = -i c_k P_k` in the application).

* derivative part (statements mention no norm; the proofs use the `ℓ∞` operator norm as a local instance, as Mathlib's
  `MatrixExponential` does): `prodExp_zero`, `hasDerivAt_prodExp` (`F(0) = 1`, `F'(0) = Σ A_k` — product rule, induction on
  the list), `prodExp_first_order` (`(F(t) − exp(t ΣA)) / t → 0`)
* norm part, with the spectral norm (`ℓ²` operator norm, in which unitaries are contractions):
  `prodExp_second_order` (`‖F(t) − exp(t ΣA)‖ ≤ t² s² e^{|t| s}`), `exp_skew_unitary`, `trotter_global_bound`
  (`‖F(T/N)^N − exp(T ΣA)‖ ≤ T² s² e^{|T| s} / N` for skew-Hermitian `A_k`), `trotter_tendsto` (the limit `N → ∞`).
-/
namespace Yaqs.TrotterLimit

open Matrix NormedSpace Filter Topology

variable {n : Type*} [Fintype n] [DecidableEq n]

noncomputable section

/-- one product-formula step of size `t`: `exp(t A₁) ⋯ exp(t A_m)` in list order -/
def prodExp (As : List (Matrix n n ℂ)) (t : ℝ) : Matrix n n ℂ := (As.map fun A => exp (t • A)).prod

omit [Fintype n] [DecidableEq n] in
theorem real_smul_eq_complex (t : ℝ) (A : Matrix n n ℂ) : t • A = (t : ℂ) • A := by
  ext i j
  simp [Matrix.smul_apply]

theorem prodExp_nil (t : ℝ) : prodExp ([] : List (Matrix n n ℂ)) t = 1 := by simp [prodExp]

theorem prodExp_cons (A : Matrix n n ℂ) (As : List (Matrix n n ℂ)) (t : ℝ) :
    prodExp (A :: As) t = exp (t • A) * prodExp As t := by simp [prodExp]

theorem prodExp_zero (As : List (Matrix n n ℂ)) : prodExp As 0 = 1 := by
  induction As with
  | nil => exact prodExp_nil 0
  | cons A As ih => rw [prodExp_cons, ih, zero_smul, exp_zero, mul_one]

/-- `exp` of a skew-Hermitian matrix is unitary -/
theorem exp_skew_unitary {A : Matrix n n ℂ} (hA : Aᴴ = -A) : (exp A)ᴴ * exp A = 1 := by
  rw [← Matrix.exp_conjTranspose, hA, ← Matrix.exp_add_of_commute _ _ ((Commute.refl A).neg_left), neg_add_cancel,
    exp_zero]

omit [Fintype n] [DecidableEq n] in
theorem skew_real_smul {A : Matrix n n ℂ} (hA : Aᴴ = -A) (t : ℝ) : ((t : ℂ) • A)ᴴ = -((t : ℂ) • A) := by
  rw [Matrix.conjTranspose_smul, hA, smul_neg]
  simp

omit [Fintype n] [DecidableEq n] in
theorem skew_list_sum (As : List (Matrix n n ℂ)) (h : ∀ A ∈ As, Aᴴ = -A) : (As.sum)ᴴ = -As.sum := by
  induction As with
  | nil => simp
  | cons A As ih =>
    rw [List.sum_cons, Matrix.conjTranspose_add, h A List.mem_cons_self,
      ih fun B hB => h B (List.mem_cons_of_mem _ hB), neg_add]

section deriv
open scoped Matrix.Norms.Operator

theorem hasDerivAt_exp_real_smul_zero (X : Matrix n n ℂ) : HasDerivAt (fun s : ℝ => exp (s • X)) X 0 := by
  have h := hasDerivAt_exp_smul_const (𝕂 := ℝ) X (0 : ℝ)
  rwa [zero_smul, exp_zero, one_mul] at h

/-- **first-order consistency of the product formula**: `F(0) = 1` and `F'(0) = A₁ + … + A_m`, for every list of
    matrices in every order (product rule, induction on the list) -/
theorem hasDerivAt_prodExp (As : List (Matrix n n ℂ)) : HasDerivAt (prodExp As) As.sum 0 := by
  induction As with
  | nil =>
    have e : prodExp ([] : List (Matrix n n ℂ)) = fun _ => 1 := funext prodExp_nil
    rw [e, List.sum_nil]
    exact hasDerivAt_const (0 : ℝ) (1 : Matrix n n ℂ)
  | cons A As ih =>
    have h := HasDerivAt.mul (𝔸 := Matrix n n ℂ) (hasDerivAt_exp_real_smul_zero A) ih
    have e : prodExp (A :: As) = fun t => exp (t • A) * prodExp As t := funext (prodExp_cons A As)
    rw [e, List.sum_cons]
    rw [prodExp_zero, zero_smul, exp_zero, mul_one, one_mul] at h
    exact h

/-- the product formula and the exponential of the sum agree to first order: `(F(t) − exp(t ΣA)) / t → 0` as `t → 0` -/
theorem prodExp_first_order (As : List (Matrix n n ℂ)) :
    Tendsto (fun t : ℝ => t⁻¹ • (prodExp As t - exp (t • As.sum))) (𝓝[≠] 0) (𝓝 0) := by
  have h1 := hasDerivAt_prodExp As
  have h2 := hasDerivAt_exp_real_smul_zero As.sum
  have h : HasDerivAt (fun t : ℝ => prodExp As t - exp (t • As.sum)) (As.sum - As.sum) 0 := h1.sub h2
  rw [sub_self] at h
  have ht := hasDerivAt_iff_tendsto_slope.mp h
  refine ht.congr fun t => ?_
  rw [slope_def_module, prodExp_zero, zero_smul, exp_zero, sub_self, sub_zero, sub_zero]

end deriv

section l2
open scoped Matrix.Norms.L2Operator

theorem l2_norm_one_le : ‖(1 : Matrix n n ℂ)‖ ≤ 1 := by
  have h := Matrix.l2_opNorm_conjTranspose_mul_self (1 : Matrix n n ℂ)
  rw [conjTranspose_one, one_mul] at h
  by_contra hc
  rw [not_le] at hc
  nlinarith [norm_nonneg (1 : Matrix n n ℂ)]

/-- a unitary matrix has spectral norm at most 1 -/
theorem l2_norm_le_one_of_unitary {U : Matrix n n ℂ} (h : Uᴴ * U = 1) : ‖U‖ ≤ 1 := by
  have h1 := Matrix.l2_opNorm_conjTranspose_mul_self U
  rw [h] at h1
  have h2 := l2_norm_one_le (n := n)
  by_contra hc
  rw [not_le] at hc
  nlinarith [norm_nonneg U]

theorem prodExp_eq_complex (As : List (Matrix n n ℂ)) (t : ℝ) :
    prodExp As t = (As.map fun A => exp ((t : ℂ) • A)).prod := by
  unfold prodExp
  simp only [real_smul_eq_complex]

/-- **second-order local error** in the spectral norm: `‖F(t) − exp(t ΣA)‖ ≤ t² s² e^{|t| s}`, `s = Σ ‖A_k‖`, for every
    real `t` (so `≤ (s² e^s) t²` for `|t| ≤ 1`) -/
theorem prodExp_second_order (As : List (Matrix n n ℂ)) (t : ℝ) :
    ‖prodExp As t - exp (t • As.sum)‖ ≤ t ^ 2 * (As.map norm).sum ^ 2 * Real.exp (|t| * (As.map norm).sum) := by
  have h := norm_prod_exp_smul_sub_le (t : ℂ) As
  rw [prodExp_eq_complex, real_smul_eq_complex]
  rw [Complex.norm_real, Real.norm_eq_abs, sq_abs] at h
  exact h

/-- **global error of the Trotter product**: for skew-Hermitian generators (unitary factors) the error of `N` steps of
    size `T/N` is at most `N` times the local error: `‖F(T/N)^N − exp(T ΣA)‖ ≤ T² s² e^{|T| s} / N` -/
theorem trotter_global_bound (As : List (Matrix n n ℂ)) (hskew : ∀ A ∈ As, Aᴴ = -A) (T : ℝ) (N : ℕ) (hN : 0 < N) :
    ‖prodExp As (T / N) ^ N - exp (T • As.sum)‖
      ≤ T ^ 2 * (As.map norm).sum ^ 2 * Real.exp (|T| * (As.map norm).sum) / N := by
  have hN' : (0 : ℝ) < N := Nat.cast_pos.mpr hN
  have hNc : (N : ℂ) ≠ 0 := Nat.cast_ne_zero.mpr hN.ne'
  set τ : ℂ := ((T / N : ℝ) : ℂ) with hτ
  have hE : exp (T • As.sum) = exp (τ • As.sum) ^ N := by
    rw [← Matrix.exp_nsmul, real_smul_eq_complex, ← Nat.cast_smul_eq_nsmul ℂ, smul_smul]
    congr 2
    rw [hτ]
    push_cast
    field_simp
  have hF1 : ‖(As.map fun A => exp (τ • A)).prod‖ ≤ 1 := by
    apply norm_list_prod_le_one As (fun A => exp (τ • A)) l2_norm_one_le
    intro A hA
    exact l2_norm_le_one_of_unitary (exp_skew_unitary (skew_real_smul (hskew A hA) _))
  have hE1 : ‖exp (τ • As.sum)‖ ≤ 1 :=
    l2_norm_le_one_of_unitary (exp_skew_unitary (skew_real_smul (skew_list_sum As hskew) _))
  have h := norm_trotter_pow_sub_le τ As N hF1 hE1
  rw [prodExp_eq_complex, hE]
  refine h.trans ?_
  have hs := list_sum_norm_nonneg As
  generalize (As.map norm).sum = s at hs ⊢
  have hτn : ‖τ‖ = |T| / N := by
    rw [hτ, Complex.norm_real, Real.norm_eq_abs, abs_div, Nat.abs_cast]
  rw [hτn]
  have hle : |T| / N * s ≤ |T| * s := by
    apply mul_le_mul_of_nonneg_right _ hs
    exact div_le_self (abs_nonneg T) (by exact_mod_cast hN)
  have hexp := Real.exp_le_exp.mpr hle
  have e : (N : ℝ) * ((|T| / N) ^ 2 * s ^ 2 * Real.exp (|T| / N * s))
      = T ^ 2 * s ^ 2 * Real.exp (|T| / N * s) / N := by
    rw [← sq_abs T]
    field_simp
  rw [e]
  apply div_le_div_of_nonneg_right _ hN'.le
  exact mul_le_mul_of_nonneg_left hexp (by positivity)

/-- **the Trotter product converges**: for skew-Hermitian generators `(exp(T A₁/N) ⋯ exp(T A_m/N))^N → exp(T ΣA)` -/
theorem trotter_tendsto (As : List (Matrix n n ℂ)) (hskew : ∀ A ∈ As, Aᴴ = -A) (T : ℝ) :
    Tendsto (fun N : ℕ => prodExp As (T / N) ^ N) atTop (𝓝 (exp (T • As.sum))) := by
  rw [tendsto_iff_norm_sub_tendsto_zero]
  refine squeeze_zero' (Eventually.of_forall fun _ => norm_nonneg _) ?_
    (tendsto_const_div_atTop_nhds_zero_nat (T ^ 2 * (As.map norm).sum ^ 2 * Real.exp (|T| * (As.map norm).sum)))
  filter_upwards [eventually_gt_atTop 0] with N hN using trotter_global_bound As hskew T N hN

end l2

end

end Yaqs.TrotterLimit
