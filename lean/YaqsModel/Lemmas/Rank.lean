import YaqsModel.Model.Rank
import Mathlib.Tactic.Linarith
import Mathlib.Tactic.Ring
import Mathlib.Algebra.Order.Ring.Rat

/-! helper lemmas for the rank rules (kept apart from the property theorems) -/
namespace Yaqs.Rank

theorem sqsum_nonneg (l : List Rat) : 0 ≤ sqsum l := by
  induction l with
  | nil => simp [sqsum]
  | cons x xs ih => simp only [sqsum]; have := mul_self_nonneg x; linarith

theorem sqsum_append (a b : List Rat) : sqsum (a ++ b) = sqsum a + sqsum b := by
  induction a with
  | nil => simp [sqsum]
  | cons x xs ih => simp only [List.cons_append, sqsum, ih]; ring

theorem sqsum_reverse (l : List Rat) : sqsum l.reverse = sqsum l := by
  induction l with
  | nil => simp [sqsum]
  | cons x xs ih => simp only [List.reverse_cons, sqsum_append, ih, sqsum]; ring

theorem dropGT_le (thr : Rat) (l : List Rat) (d : Rat) : dropGT thr l d ≤ l.length := by
  induction l generalizing d with
  | nil => simp [dropGT]
  | cons x xs ih =>
    simp only [dropGT]; split
    · simp
    · have := ih (d + x * x); simp only [List.length_cons]; omega

theorem dropGE_le (thr : Rat) (l : List Rat) (d : Rat) : dropGE thr l d ≤ l.length := by
  induction l generalizing d with
  | nil => simp [dropGE]
  | cons x xs ih =>
    simp only [dropGE]; split
    · simp
    · have := ih (d + x * x); simp only [List.length_cons]; omega

/-- what the loop has discarded never exceeds the threshold -/
theorem dropGT_weight (thr : Rat) (l : List Rat) (d : Rat) (hd : d ≤ thr) :
    d + sqsum (l.take (dropGT thr l d)) ≤ thr := by
  induction l generalizing d with
  | nil => simp [dropGT, sqsum, hd]
  | cons x xs ih =>
    simp only [dropGT]; split
    · simp [sqsum, hd]
    · rename_i h
      have h' : d + x * x ≤ thr := not_lt.mp h
      have := ih (d + x * x) h'
      rw [Nat.add_comm, List.take_succ_cons]
      simp only [sqsum]; linarith

/-- at a `break`, discarding one more value would exceed the threshold -/
theorem dropGT_maximal (thr : Rat) (l : List Rat) (d : Rat) (hb : brokeGT thr l d = true) :
    thr < d + sqsum (l.take (dropGT thr l d + 1)) := by
  induction l generalizing d with
  | nil => simp [brokeGT] at hb
  | cons x xs ih =>
    simp only [brokeGT] at hb
    simp only [dropGT]
    split
    · rename_i h
      simp only [Nat.zero_add, List.take_succ_cons, List.take_zero, sqsum]; linarith
    · rename_i h
      simp only [h, if_false] at hb
      have := ih (d + x * x) hb
      rw [Nat.add_comm 1, List.take_succ_cons]
      simp only [sqsum]; linarith

theorem brokeGT_false_drop (thr : Rat) (l : List Rat) (d : Rat) (hb : brokeGT thr l d = false) :
    dropGT thr l d = l.length := by
  induction l generalizing d with
  | nil => simp [dropGT]
  | cons x xs ih =>
    simp only [brokeGT] at hb
    simp only [dropGT]
    split
    · rename_i h; simp [h] at hb
    · rename_i h
      simp only [h, if_false] at hb
      rw [ih _ hb]; simp [Nat.add_comm]

/-- strict version for the `>=` loops: what was discarded is strictly below the threshold -/
theorem dropGE_weight (thr : Rat) (l : List Rat) (d : Rat) (hd : d < thr) :
    d + sqsum (l.take (dropGE thr l d)) < thr := by
  induction l generalizing d with
  | nil => simp [dropGE, sqsum, hd]
  | cons x xs ih =>
    simp only [dropGE]; split
    · simp [sqsum, hd]
    · rename_i h
      have h' : d + x * x < thr := not_le.mp h
      have := ih (d + x * x) h'
      rw [Nat.add_comm, List.take_succ_cons]
      simp only [sqsum]; linarith

/-- the weight of the last `n` entries of `s` is the weight of the first `n` of the reversed list -/
theorem tailWeight_eq_take_reverse (s : List Rat) (n : Nat) :
    tailWeight s (s.length - n) = sqsum (s.reverse.take n) := by
  unfold tailWeight
  rw [List.take_reverse, sqsum_reverse]

theorem tailWeight_anti (s : List Rat) {j k : Nat} (h : j ≤ k) : tailWeight s k ≤ tailWeight s j := by
  unfold tailWeight
  obtain ⟨m, rfl⟩ := Nat.exists_eq_add_of_le h
  rw [← List.drop_drop]
  generalize s.drop j = t
  have : sqsum t = sqsum (t.take m) + sqsum (t.drop m) := by
    rw [← sqsum_append, List.take_append_drop]
  have := sqsum_nonneg (t.take m)
  linarith

theorem countRel_le (smax thr : Rat) (l : List Rat) : countRel smax thr l ≤ l.length := by
  induction l with
  | nil => simp [countRel]
  | cons x xs ih => simp only [countRel, List.length_cons]; split <;> omega

theorem countGT_le (tol : Rat) (l : List Rat) : countGT tol l ≤ l.length := by
  induction l with
  | nil => simp [countGT]
  | cons x xs ih => simp only [countGT, List.length_cons]; split <;> omega

/-- if the first `n` values (smallest first) together stay strictly below the threshold, the `>=` loop discards at
    least `n` of them -/
theorem dropGE_ge (thr : Rat) (l : List Rat) (d : Rat) (n : Nat) (hn : n ≤ l.length)
    (h : d + sqsum (l.take n) < thr) : n ≤ dropGE thr l d := by
  induction l generalizing d n with
  | nil => simp at hn; omega
  | cons x xs ih =>
    cases n with
    | zero => omega
    | succ m =>
      rw [List.take_succ_cons] at h
      simp only [sqsum] at h
      have hnn := sqsum_nonneg (xs.take m)
      have hx : ¬ (d + x * x ≥ thr) := by
        intro hc; linarith
      simp only [dropGE, hx, if_false]
      have := ih (d + x * x) m (by simpa using hn) (by linarith)
      omega

/-- a state whose total weight reaches the threshold makes the `>=` loop break -/
theorem brokeGE_of_total (thr : Rat) (l : List Rat) (d : Rat) (hd : d < thr) (h : thr ≤ d + sqsum l) :
    brokeGE thr l d = true := by
  induction l generalizing d with
  | nil => simp [sqsum] at h; linarith
  | cons x xs ih =>
    simp only [brokeGE]
    split
    · rfl
    · rename_i hx
      simp only [sqsum] at h
      exact ih (d + x * x) (not_le.mp hx) (by linarith)

/-- when the loop reaches its `break`, the break index is a valid position -/
theorem dropGE_lt_of_broke (thr : Rat) (l : List Rat) (d : Rat) (hb : brokeGE thr l d = true) :
    dropGE thr l d < l.length := by
  induction l generalizing d with
  | nil => simp [brokeGE] at hb
  | cons x xs ih =>
    unfold dropGE
    unfold brokeGE at hb
    split
    · simp
    · rename_i hx
      simp only [hx, if_false] at hb
      have := ih (d + x * x) hb
      simp only [List.length_cons]
      omega

end Yaqs.Rank
