import Mathlib.Analysis.SpecialFunctions.Log.Basic
import YaqsModel.Model.Schmidt

/-!
# The number `MPS.get_entropy` returns, over `ℝ`

`entropyCode` of `Model/Schmidt.lean` instantiated with `Real.log`: it is `−Σ p_k log(p_k + ε)` with
`p_k = s_k² / Σ s²`; the `ε = np.finfo(float64).tiny` inside the logarithm makes the terms with `p_k = 0` vanish
exactly (`0 · log ε = 0`, no NaN from `0 · log 0`) and moves every other term by at most `ε`.
-/

namespace Yaqs.Schmidt

/-- `get_entropy` over the reals -/
noncomputable def entropyR (eps : ℝ) (bond : ℕ) (s : List ℝ) : ℝ := entropyCode Real.log eps bond s

/-- the von Neumann entropy `−Σ p log p` of a probability list (`0 · log 0 = 0` by `Real.log 0 = 0`) -/
noncomputable def shannon (p : List ℝ) : ℝ := -(p.map fun x => x * Real.log x).sum

theorem entropyR_bond_one (eps : ℝ) (s : List ℝ) : entropyR eps 1 s = 0 := by
  simp [entropyR, entropyCode]

theorem entropyR_zero_norm (eps : ℝ) (bond : ℕ) (s : List ℝ) (h : sumSq s = 0) : entropyR eps bond s = 0 := by
  simp [entropyR, entropyCode, h]

theorem entropyR_formula (eps : ℝ) (bond : ℕ) (s : List ℝ) (hb : bond ≠ 1) (hn : sumSq s ≠ 0) :
    entropyR eps bond s = -((probs s).map fun p => p * Real.log (p + eps)).sum := by
  simp [entropyR, entropyCode, hb, hn]

theorem sumSq_nonneg (s : List ℝ) : 0 ≤ sumSq s := by
  unfold sumSq
  induction s with
  | nil => simp
  | cons x xs ih => simp only [List.map_cons, List.sum_cons]; nlinarith [mul_self_nonneg x]

theorem probs_nonneg (s : List ℝ) : ∀ p ∈ probs s, 0 ≤ p := by
  intro p hp
  unfold probs at hp
  obtain ⟨x, _, rfl⟩ := List.mem_map.mp hp
  exact div_nonneg (mul_self_nonneg x) (sumSq_nonneg s)

theorem sum_map_div (l : List ℝ) (c : ℝ) : (l.map fun x => x * x / c).sum = (l.map fun x => x * x).sum / c := by
  induction l with
  | nil => simp
  | cons x xs ih => simp only [List.map_cons, List.sum_cons, ih]; ring

/-- the `p_k` sum to one: the code evaluates the entropy of the *normalised* state -/
theorem probs_sum (s : List ℝ) (hn : sumSq s ≠ 0) : (probs s).sum = 1 := by
  unfold probs
  rw [sum_map_div]
  exact div_self hn

/-- one term: adding `ε` inside the logarithm changes `p · log p` by something in `[0, ε]` -/
theorem term_eps (p eps : ℝ) (hp : 0 ≤ p) (he : 0 < eps) :
    0 ≤ p * Real.log (p + eps) - p * Real.log p ∧ p * Real.log (p + eps) - p * Real.log p ≤ eps := by
  rcases hp.eq_or_lt with h0 | hpos
  · subst h0; simp [he.le]
  · have hlog : Real.log (p + eps) - Real.log p = Real.log ((p + eps) / p) := by
      rw [Real.log_div (by linarith) hpos.ne']
    have hge : Real.log p ≤ Real.log (p + eps) := Real.log_le_log hpos (by linarith)
    have hle : Real.log ((p + eps) / p) ≤ (p + eps) / p - 1 := Real.log_le_sub_one_of_pos (by positivity)
    have hfrac : (p + eps) / p - 1 = eps / p := by field_simp; ring
    constructor
    · have : 0 ≤ p * (Real.log (p + eps) - Real.log p) := mul_nonneg hpos.le (by linarith)
      linarith [mul_sub p (Real.log (p + eps)) (Real.log p)]
    · have h1 : p * (Real.log (p + eps) - Real.log p) ≤ p * (eps / p) := by
        rw [hlog]; exact mul_le_mul_of_nonneg_left (hfrac ▸ hle) hpos.le
      have h2 : p * (eps / p) = eps := by field_simp
      linarith [mul_sub p (Real.log (p + eps)) (Real.log p)]

theorem sum_eps (l : List ℝ) (eps : ℝ) (hl : ∀ p ∈ l, 0 ≤ p) (he : 0 < eps) :
    0 ≤ (l.map fun p => p * Real.log (p + eps)).sum - (l.map fun p => p * Real.log p).sum ∧
    (l.map fun p => p * Real.log (p + eps)).sum - (l.map fun p => p * Real.log p).sum ≤ l.length * eps := by
  induction l with
  | nil => simp
  | cons x xs ih =>
    have hx := term_eps x eps (hl x (by simp)) he
    have hxs := ih fun p hp => hl p (List.mem_cons_of_mem _ hp)
    simp only [List.map_cons, List.sum_cons, List.length_cons, Nat.cast_add, Nat.cast_one]
    constructor <;> nlinarith [hx.1, hx.2, hxs.1, hxs.2]

/-- a single non-zero singular value has entropy `log(1 + ε)·1`, i.e. `0` for `ε = 0`: the `a.shape[2] == 1`
    shortcut returns what the general branch would -/
theorem entropyR_single (bond : ℕ) (x : ℝ) (hx : x ≠ 0) : entropyR 0 bond [x] = 0 := by
  by_cases hb : bond = 1
  · subst hb; exact entropyR_bond_one _ _
  · have hn : sumSq [x] ≠ 0 := by simp [sumSq, hx]
    rw [entropyR_formula _ _ _ hb hn]
    have : x * x / (x * x) = 1 := div_self (mul_ne_zero hx hx)
    simp [probs, sumSq, this]

end Yaqs.Schmidt
