import YaqsModel.Props.C09
import YaqsModel.Props.C10
import YaqsModel.Lemmas.CheckerEmbed
import Mathlib.LinearAlgebra.Matrix.Kronecker
import YaqsModel.Model.SJump
import YaqsModel.Model.LocalOp
import YaqsModel.Model.Index

/-!
# Applying a local operator to an MPS is applying the dense operator (helper layer; the obligations are in `Props/C14.lean`)

Setting of `Lemmas/Mps.lean`: a site tensor is `σ → Matrix ι ι K` (physical index `σ`, one uniform bond index type `ι`,
any commutative ring `K`), the amplitude of a configuration is an entry of `chain ts cfg`.

* `applySite X A` — `oe.contract("ab, bcd->acd", X, A)`: the contraction every one-site application of the code performs
  (`apply_single_qubit_gate`, `stochastic_process`, `apply_scheduled_jumps`, `apply_dissipation`);
* `mergeSite A B` — `merge_mps_tensors(A, B)` with the merged physical index kept as the pair `(s, t)` (`s` the index of the
  LEFT site; the flat index of the code is `s·d_right + t`, see `Model/LocalOp.lean` and `merge_convention`);
* `psi n ts a b` — the dense vector of a chain of `n` sites as a function of the configuration `Fin n → σ`
  (entry `(a, b)` of the chain product; with boundary bonds of dimension one there is only one such entry);
* `Yaqs.Embed.embedL (siteLens p) X` — the operator `1 ⊗ … ⊗ X ⊗ … ⊗ 1` on configurations (the definition C04's `embed1`
  unfolds to); `embedL (pairLens p q) M` — a two-site operator with rows/columns `(σ_p, σ_q)` (C04's `embed2`).
-/

set_option linter.unusedSectionVars false

namespace Yaqs.LocalOp

open Matrix Yaqs.Mps.Alg Yaqs.Embed

variable {K : Type*} [CommRing K] {ι σ : Type*} [Fintype ι] [DecidableEq ι]

/-! ## one site -/

section one
variable {τ : Type*} [Fintype τ]

/-- `oe.contract("ab, bcd->acd", X, A)`: `new[a] = Σ_b X[a, b] · A[b]` (the ROW index of the operator is the new physical
    index) -/
def applySite (X : Matrix τ τ K) (A : Site τ ι K) : Site τ ι K := fun s => ∑ b, X s b • A b

/-- the transposed contraction `"ba, bcd->acd"` — what a slip of the two operator indices would compute -/
def applySiteT (X : Matrix τ τ K) (A : Site τ ι K) : Site τ ι K := fun s => ∑ b, X b s • A b

theorem applySite_one [DecidableEq τ] (A : Site τ ι K) : applySite (1 : Matrix τ τ K) A = A := by
  funext s
  simp [applySite, Matrix.one_apply]

theorem applySite_mul (X Y : Matrix τ τ K) (A : Site τ ι K) :
    applySite X (applySite Y A) = applySite (X * Y) A := by
  funext s
  simp only [applySite, Matrix.mul_apply, Finset.smul_sum, smul_smul, Finset.sum_smul]
  rw [Finset.sum_comm]

end one

/-! ## linear replacement of one / two neighbouring site tensors (any physical index type, finite index sets) -/

section lin
variable {ρ : Type*}

theorem chain_replace_lin (pre post : List (Site ρ ι K)) (A A' : Site ρ ι K) (S : Finset ρ) (x : ρ → K)
    (c1 c2 : List ρ) (s : ρ) (h : c1.length = pre.length) (hs : A' s = ∑ b ∈ S, x b • A b) :
    chain (pre ++ A' :: post) (c1 ++ s :: c2) = ∑ b ∈ S, x b • chain (pre ++ A :: post) (c1 ++ b :: c2) := by
  have key : ∀ (T : Site ρ ι K) (y : ρ), chain (pre ++ T :: post) (c1 ++ y :: c2) = chain pre c1 * (T y * chain post c2) := by
    intro T y
    rw [chain_append _ _ _ (by simp [h]), ← h, List.take_left', List.drop_left', chain_cons] <;> rfl
  rw [key, hs]
  simp only [key, Finset.sum_mul, Finset.mul_sum, Matrix.smul_mul, Matrix.mul_smul]

theorem chain_replace2_lin (pre post : List (Site ρ ι K)) (A B A' B' : Site ρ ι K) (S : Finset (ρ × ρ)) (x : ρ × ρ → K)
    (c1 c2 : List ρ) (s t : ρ) (h : c1.length = pre.length) (hs : A' s * B' t = ∑ p ∈ S, x p • (A p.1 * B p.2)) :
    chain (pre ++ A' :: B' :: post) (c1 ++ s :: t :: c2)
      = ∑ p ∈ S, x p • chain (pre ++ A :: B :: post) (c1 ++ p.1 :: p.2 :: c2) := by
  have key : ∀ (T U : Site ρ ι K) (y z : ρ),
      chain (pre ++ T :: U :: post) (c1 ++ y :: z :: c2) = chain pre c1 * (T y * U z * chain post c2) := by
    intro T U y z
    rw [chain_append _ _ _ (by simp [h]), ← h, List.take_left', List.drop_left', chain_cons, chain_cons, Matrix.mul_assoc]
      <;> rfl
  rw [key, hs]
  simp only [key, Finset.sum_mul, Finset.mul_sum, Matrix.smul_mul, Matrix.mul_smul]

end lin

variable [Fintype σ]

/-- core form: the configuration split at the site -/
theorem chain_applySite (pre post : List (Site σ ι K)) (A : Site σ ι K) (X : Matrix σ σ K) (c1 c2 : List σ) (s : σ)
    (h : c1.length = pre.length) :
    chain (pre ++ applySite X A :: post) (c1 ++ s :: c2) = ∑ b, X s b • chain (pre ++ A :: post) (c1 ++ b :: c2) := by
  have key : ∀ (T : Site σ ι K) (x : σ), chain (pre ++ T :: post) (c1 ++ x :: c2) = chain pre c1 * (T x * chain post c2) := by
    intro T x
    rw [chain_append _ _ _ (by simp [h]), ← h, List.take_left', List.drop_left', chain_cons] <;> rfl
  rw [key]
  simp only [key, applySite, Finset.sum_mul, Finset.mul_sum, Matrix.smul_mul, Matrix.mul_smul]


/-- `Σ_b X[σ_i, b] · amp(old, σ[i := b])` — the configuration as one list -/
theorem chain_applySite_set (pre post : List (Site σ ι K)) (A : Site σ ι K) (X : Matrix σ σ K) (cfg : List σ)
    (h : pre.length < cfg.length) :
    chain (pre ++ applySite X A :: post) cfg =
      ∑ b, X cfg[pre.length] b • chain (pre ++ A :: post) (cfg.set pre.length b) := by
  have hs : ∀ b, cfg.set pre.length b = cfg.take pre.length ++ b :: cfg.drop (pre.length + 1) := by
    intro b; rw [List.set_eq_take_append_cons_drop, if_pos h]
  have hc : cfg = cfg.take pre.length ++ cfg[pre.length] :: cfg.drop (pre.length + 1) := by
    rw [List.getElem_cons_drop, List.take_append_drop]
  simp only [hs]
  conv_lhs => rw [hc]
  exact chain_applySite pre post A X _ _ _ (by simp; omega)

/-! ## the dense vector and dense operators on it -/

/-- the dense "vector" of a chain of `n` sites: configuration ↦ chain product (a matrix over the two boundary bonds — in the
    code both have dimension one and its single entry is the amplitude) -/
def Psi (n : Nat) (ts : List (Site σ ι K)) : (Fin n → σ) → Matrix ι ι K := fun c => chain ts (List.ofFn c)

/-- the amplitudes at boundary indices `(a, b)` as an ordinary vector indexed by configurations -/
def psi (n : Nat) (ts : List (Site σ ι K)) (a b : ι) : (Fin n → σ) → K := fun c => Psi n ts c a b

/-- a dense operator acting on a dense vector (matrix-valued entries: the operator acts on the configuration index only) -/
def act {n : Nat} (E : Matrix (Fin n → σ) (Fin n → σ) K) (V : (Fin n → σ) → Matrix ι ι K) : (Fin n → σ) → Matrix ι ι K :=
  fun c => ∑ t, E c t • V t

theorem act_apply {n : Nat} (E : Matrix (Fin n → σ) (Fin n → σ) K) (V : (Fin n → σ) → Matrix ι ι K) (c : Fin n → σ)
    (a b : ι) : act E V c a b = (E *ᵥ fun t => V t a b) c := by
  simp [act, Matrix.mulVec, dotProduct, Matrix.sum_apply]

theorem act_psi {n : Nat} (E : Matrix (Fin n → σ) (Fin n → σ) K) (ts : List (Site σ ι K)) (a b : ι) :
    (fun c => act E (Psi n ts) c a b) = E *ᵥ psi n ts a b := by
  funext c; exact act_apply E _ c a b

variable [DecidableEq σ]

theorem act_one {n : Nat} (V : (Fin n → σ) → Matrix ι ι K) : act (1 : Matrix (Fin n → σ) (Fin n → σ) K) V = V := by
  funext c
  simp [act, Matrix.one_apply]

theorem act_mul {n : Nat} (E F : Matrix (Fin n → σ) (Fin n → σ) K) (V : (Fin n → σ) → Matrix ι ι K) :
    act (E * F) V = act E (act F V) := by
  funext c
  simp only [act, Matrix.mul_apply, Finset.sum_smul, Finset.smul_sum, smul_smul]
  rw [Finset.sum_comm]

theorem ofFn_update {n : Nat} (c : Fin n → σ) (p : Fin n) (x : σ) :
    List.ofFn (Function.update c p x) = (List.ofFn c).set p x := by
  apply List.ext_getElem
  · simp
  · intro k h1 h2
    simp only [List.getElem_ofFn, List.getElem_set]
    by_cases hk : (p : Nat) = k
    · subst hk; simp
    · rw [if_neg hk, Function.update_of_ne]
      intro e
      exact hk (by rw [← e])

/-- a sum against a row of an embedded operator is a sum over the local values (matrix-valued summands) -/
theorem act_embedL {n : Nat} {X : Type*} [Fintype X] (L : Lens (Fin n → σ) X) (G : Matrix X X K)
    (V : (Fin n → σ) → Matrix ι ι K) (c : Fin n → σ) :
    act (embedL L G) V c = ∑ x, G (L.get c) x • V (L.put c x) := by
  ext a b
  rw [act_apply, Matrix.mulVec, dotProduct, sum_embedL_left]
  simp [Matrix.sum_apply]

/-- **one site, dense form**: the chain with `X` contracted into site `p` represents `(1 ⊗ … ⊗ X ⊗ … ⊗ 1)|ψ⟩` -/
theorem Psi_applySite (n : Nat) (pre post : List (Site σ ι K)) (A : Site σ ι K) (X : Matrix σ σ K) (p : Fin n)
    (hp : (p : Nat) = pre.length) :
    Psi n (pre ++ applySite X A :: post) = act (embedL (siteLens p) X) (Psi n (pre ++ A :: post)) := by
  obtain ⟨p, hlt⟩ := p
  simp only at hp
  subst hp
  funext c
  rw [act_embedL]
  simp only [Psi]
  rw [chain_applySite_set _ _ _ _ _ (by simpa using hlt)]
  simp [siteLens, ofFn_update]

/-! ## two adjacent sites: merge, apply, split -/

/-- `merge_mps_tensors(A, B)` with the merged physical index kept as the pair `(s, t)`: `s` is the index of the LEFT tensor
    (the code's flat index is `s·d_right + t`), value `Σ_k A[s,l,k]·B[t,k,r]` -/
def mergeSite (A B : Site σ ι K) : Site (σ × σ) ι K := fun st => A st.1 * B st.2

/-- the merged index with the two sites exchanged (`t·d_left + s`) — what a slip in the einsum/reshape would compute -/
def mergeSiteSwapped (A B : Site σ ι K) : Site (σ × σ) ι K := fun st => A st.2 * B st.1

theorem chain_pair (pre post : List (Site σ ι K)) (A B : Site σ ι K) (c1 c2 : List σ) (s t : σ)
    (h : c1.length = pre.length) :
    chain (pre ++ A :: B :: post) (c1 ++ s :: t :: c2) = chain pre c1 * (A s * B t * chain post c2) := by
  rw [chain_append _ _ _ (by simp [h]), ← h, List.take_left', List.drop_left', chain_cons, chain_cons, Matrix.mul_assoc]
    <;> rfl

/-- core form of the two-site application: ANY pair `(A', B')` whose two-site block is the merged tensor with `M` applied
    (the untruncated split, whatever the distribution of the singular values) gives
    `Σ_{b,c} M[(σ_i,σ_{i+1}),(b,c)] · amp(old, σ[i:=b, i+1:=c])` -/
theorem chain_applyPair (pre post : List (Site σ ι K)) (A B A' B' : Site σ ι K) (M : Matrix (σ × σ) (σ × σ) K)
    (hsplit : ∀ s t, A' s * B' t = applySite M (mergeSite A B) (s, t)) (c1 c2 : List σ) (s t : σ)
    (h : c1.length = pre.length) :
    chain (pre ++ A' :: B' :: post) (c1 ++ s :: t :: c2)
      = ∑ x : σ × σ, M (s, t) x • chain (pre ++ A :: B :: post) (c1 ++ x.1 :: x.2 :: c2) := by
  rw [chain_pair _ _ _ _ _ _ _ _ h, hsplit]
  simp only [chain_pair _ _ _ _ _ _ _ _ h, applySite, mergeSite, Finset.sum_mul, Finset.mul_sum, Matrix.smul_mul,
    Matrix.mul_smul]

theorem list_split2 {α : Type*} (l : List α) (p : Nat) (h : p + 1 < l.length) :
    l = l.take p ++ l[p] :: l[p + 1] :: l.drop (p + 2) := by
  apply List.ext_getElem
  · simp <;> omega
  · intro k h1 h2
    grind

theorem list_set2 {α : Type*} (l : List α) (p : Nat) (x y : α) (h : p + 1 < l.length) :
    (l.set p x).set (p + 1) y = l.take p ++ x :: y :: l.drop (p + 2) := by
  apply List.ext_getElem
  · simp; omega
  · intro k h1 h2
    grind

/-- **two adjacent sites, dense form** (exact split): the new chain represents `(1 ⊗ … ⊗ M ⊗ … ⊗ 1)|ψ⟩`, the rows and
    columns of `M` being indexed by `(σ_p, σ_{p+1})` — site `p` is the major index -/
theorem Psi_applyPair (n : Nat) (pre post : List (Site σ ι K)) (A B A' B' : Site σ ι K) (M : Matrix (σ × σ) (σ × σ) K)
    (hsplit : ∀ s t, A' s * B' t = applySite M (mergeSite A B) (s, t)) (p q : Fin n) (hp : (p : Nat) = pre.length)
    (hq : (q : Nat) = pre.length + 1) (hpq : p ≠ q) :
    Psi n (pre ++ A' :: B' :: post) = act (embedL (pairLens p q hpq) M) (Psi n (pre ++ A :: B :: post)) := by
  obtain ⟨p, hlt⟩ := p
  obtain ⟨q, hlt'⟩ := q
  simp only at hp hq
  subst hp hq
  funext c
  rw [act_embedL]
  simp only [Psi, pairLens_get, pairLens_put, ofFn_update]
  have hl : pre.length + 1 < (List.ofFn c).length := by simpa using hlt'
  have e0 := list_split2 (List.ofFn c) pre.length hl
  have e1 : ∀ x : σ × σ, ((List.ofFn c).set pre.length x.1).set (pre.length + 1) x.2
      = (List.ofFn c).take pre.length ++ x.1 :: x.2 :: (List.ofFn c).drop (pre.length + 2) :=
    fun x => list_set2 _ _ _ _ hl
  simp only [e1]
  conv_lhs => rw [e0]
  rw [chain_applyPair pre post A B A' B' M hsplit _ _ _ _ (by simp; omega)]
  simp

/-! ### what a truncating split costs (link to C09 `c09_split_error`) -/

section trunc
open Yaqs.Split
variable [StarRing K] {κ : Type*} [Fintype κ] [DecidableEq κ]

/-- the matrix `split_mps_tensor` hands to the SVD: `tensor.reshape(d0, d1, D0, D2).transpose(0, 2, 1, 3).reshape(d0·D0, d1·D2)`
    — rows `(s, l)`, columns `(t, r)` -/
def thetaOf (T : Site (σ × σ) ι K) : Matrix (σ × ι) (σ × ι) K := fun sl tr => T (sl.1, tr.1) sl.2 tr.2

/-- the two tensors `split_mps_tensor(…, "right", …)` returns for SVD factors `U`, `sv`, `V` and a kept set (discarded
    singular values zeroed instead of sliced away — the same product): `left[s] = U[(s,·), ·]`,
    `right[t] = diag(sv_kept) · V[·, (t,·)]` -/
def splitLeft (U : Matrix (σ × ι) κ K) : σ → Matrix ι κ K := fun s => Matrix.of fun l j => U (s, l) j

def splitRight (sv : κ → K) (V : Matrix κ (σ × ι) K) : σ → Matrix κ ι K :=
  fun t => Matrix.of fun j r => sv j * V j (t, r)

/-- the two-site block of a split result, in the layout of `thetaOf` -/
def blockOf (A' : σ → Matrix ι κ K) (B' : σ → Matrix κ ι K) : Matrix (σ × ι) (σ × ι) K :=
  fun sl tr => (A' sl.1 * B' tr.1) sl.2 tr.2

theorem blockOf_split (U : Matrix (σ × ι) κ K) (sv : κ → K) (V : Matrix κ (σ × ι) K) :
    blockOf (splitLeft U) (splitRight sv V) = U * diagonal sv * V := by
  ext ⟨s, l⟩ ⟨t, r⟩
  simp [blockOf, splitLeft, splitRight, Matrix.mul_apply, Matrix.diagonal_apply, mul_assoc]

/-- **two-site application with a truncating split**: from the SVD spec of the merged-and-operated tensor, the two-site block
    of the tensors written back differs from `M · merged` by exactly the discarded singular weight — C09's `c09_split_error`
    through the reshape of `split_mps_tensor` -/
theorem applyPair_truncation_error (A B : Site σ ι K) (M : Matrix (σ × σ) (σ × σ) K)
    (U : Matrix (σ × ι) κ K) (sv : κ → K) (V : Matrix κ (σ × ι) K)
    (hspec : thetaOf (applySite M (mergeSite A B)) = U * diagonal sv * V) (hU : Uᴴ * U = 1) (hV : V * Vᴴ = 1)
    (kept : κ → Prop) [DecidablePred kept] :
    frobSq (thetaOf (applySite M (mergeSite A B)) - blockOf (splitLeft U) (splitRight (maskKept kept sv) V))
      = ∑ j, if kept j then 0 else star (sv j) * sv j := by
  rw [blockOf_split, hspec]
  exact c09_split_error U V sv hU hV kept

/-- with nothing discarded the split is exact: the block is `M · merged` (the hypothesis `hsplit` of `chain_applyPair`) -/
theorem applyPair_exact_split (A B : Site σ ι K) (M : Matrix (σ × σ) (σ × σ) K)
    (U : Matrix (σ × ι) κ K) (sv : κ → K) (V : Matrix κ (σ × ι) K)
    (hspec : thetaOf (applySite M (mergeSite A B)) = U * diagonal sv * V) (s t : σ) :
    splitLeft U s * splitRight sv V t = applySite M (mergeSite A B) (s, t) := by
  ext l r
  have := congrFun (congrFun hspec (s, l)) (t, r)
  rw [← blockOf_split] at this
  exact this.symm

end trunc


/-! ## a long-range Pauli pair: two one-site applications -/

/-- core form: `factors[0]` on site `i`, `factors[1]` on site `j > i` -/
theorem chain_applyFactors (pre mid post : List (Site σ ι K)) (A B : Site σ ι K) (X Y : Matrix σ σ K)
    (c1 cm c2 : List σ) (s t : σ) (h1 : c1.length = pre.length) (hm : cm.length = mid.length) :
    chain (pre ++ applySite X A :: (mid ++ applySite Y B :: post)) (c1 ++ s :: (cm ++ t :: c2))
      = ∑ b, ∑ c, (X s b * Y t c) • chain (pre ++ A :: (mid ++ B :: post)) (c1 ++ b :: (cm ++ c :: c2)) := by
  rw [chain_applySite _ _ _ _ _ _ _ h1]
  refine Finset.sum_congr rfl fun b _ => ?_
  have e1 : ∀ T : Site σ ι K, pre ++ A :: (mid ++ T :: post) = (pre ++ A :: mid) ++ T :: post := by intro T; simp
  have e2 : ∀ x : σ, c1 ++ b :: (cm ++ x :: c2) = (c1 ++ b :: cm) ++ x :: c2 := by intro x; simp
  rw [e1, e2, chain_applySite _ _ _ _ _ _ _ (by simp [h1, hm]), Finset.smul_sum]
  refine Finset.sum_congr rfl fun c _ => ?_
  rw [smul_smul, e1, e2]

/-- **long-range pair, dense form**: `embed_i(X) · embed_j(Y)` -/
theorem Psi_applyFactors (n : Nat) (pre mid post : List (Site σ ι K)) (A B : Site σ ι K) (X Y : Matrix σ σ K)
    (p q : Fin n) (hp : (p : Nat) = pre.length) (hq : (q : Nat) = pre.length + 1 + mid.length) :
    Psi n (pre ++ applySite X A :: (mid ++ applySite Y B :: post))
      = act (embedL (siteLens p) X * embedL (siteLens q) Y) (Psi n (pre ++ A :: (mid ++ B :: post))) := by
  rw [Psi_applySite n pre _ A X p hp, act_mul]
  congr 1
  have e1 : ∀ T : Site σ ι K, pre ++ A :: (mid ++ T :: post) = (pre ++ A :: mid) ++ T :: post := by intro T; simp
  rw [e1, e1]
  exact Psi_applySite n _ post B Y q (by simp [hq]; omega)

/-- the two embedded factors commute (they sit on different sites) and their product is `X ⊗ Y` on the pair `(p, q)` -/
theorem embed_factors (n : Nat) (p q : Fin n) (hpq : p ≠ q) (X Y : Matrix σ σ K) :
    Commute (embedL (siteLens p : Lens (Fin n → σ) σ) X) (embedL (siteLens q) Y) ∧
    embedL (pairLens p q hpq : Lens (Fin n → σ) (σ × σ)) (Matrix.kroneckerMap (· * ·) X Y)
      = embedL (siteLens p) X * embedL (siteLens q) Y := by
  refine ⟨embedL_commute _ _ (siteLens_indep hpq) X Y, ?_⟩
  ext c d
  rw [embedL_mul_indep _ _ (siteLens_indep hpq)]
  rfl

/-! ## the applications as functions on the tensor list -/

/-- `state.tensors[i] = oe.contract("ab, bcd->acd", X, state.tensors[i])` -/
def applyAt (X : Matrix σ σ K) : Nat → List (Site σ ι K) → List (Site σ ι K)
  | _, [] => []
  | 0, A :: ts => applySite X A :: ts
  | i + 1, A :: ts => A :: applyAt X i ts

/-- `split_mps_tensor` as a black box with the spec of an untruncated split (any distribution of the singular values):
    the product of the two returned tensors is the merged tensor -/
structure Splitter (σ ι K : Type*) [Fintype ι] [CommRing K] where
  split : Site (σ × σ) ι K → Site σ ι K × Site σ ι K
  spec : ∀ T s t, (split T).1 s * (split T).2 t = T (s, t)

/-- `merged = merge_mps_tensors(T[i], T[i+1]); merged = contract("ab, bcd->acd", M, merged); T[i], T[i+1] = split(merged)` -/
def applyPairAt (sp : Splitter σ ι K) (M : Matrix (σ × σ) (σ × σ) K) : Nat → List (Site σ ι K) → List (Site σ ι K)
  | _, [] => []
  | _, [A] => [A]
  | 0, A :: B :: ts =>
    (sp.split (applySite M (mergeSite A B))).1 :: (sp.split (applySite M (mergeSite A B))).2 :: ts
  | i + 1, A :: ts => A :: applyPairAt sp M i ts

@[simp] theorem applyAt_length (X : Matrix σ σ K) (i : Nat) (ts : List (Site σ ι K)) :
    (applyAt X i ts).length = ts.length := by
  induction ts generalizing i with
  | nil => simp [applyAt]
  | cons A ts ih => cases i <;> simp [applyAt, ih]

@[simp] theorem applyPairAt_length (sp : Splitter σ ι K) (M : Matrix (σ × σ) (σ × σ) K) (i : Nat)
    (ts : List (Site σ ι K)) : (applyPairAt sp M i ts).length = ts.length := by
  induction ts generalizing i with
  | nil => simp [applyPairAt]
  | cons A ts ih =>
    cases i with
    | zero => cases ts <;> simp [applyPairAt]
    | succ i => cases ts <;> simp [applyPairAt, ih]

theorem applyAt_append (X : Matrix σ σ K) (pre post : List (Site σ ι K)) (A : Site σ ι K) :
    applyAt X pre.length (pre ++ A :: post) = pre ++ applySite X A :: post := by
  induction pre with
  | nil => simp [applyAt]
  | cons P pre ih => simp [applyAt, ih]

theorem applyPairAt_append (sp : Splitter σ ι K) (M : Matrix (σ × σ) (σ × σ) K) (pre post : List (Site σ ι K))
    (A B : Site σ ι K) :
    applyPairAt sp M pre.length (pre ++ A :: B :: post) =
      pre ++ (sp.split (applySite M (mergeSite A B))).1 :: (sp.split (applySite M (mergeSite A B))).2 :: post := by
  induction pre with
  | nil => simp [applyPairAt]
  | cons P pre ih =>
    simp only [List.cons_append, List.length_cons]
    cases h : pre ++ A :: B :: post with
    | nil => simp at h
    | cons Q rest =>
      rw [applyPairAt]
      · rw [← h, ih]
      · simp

theorem split_at {α : Type*} (ts : List α) (i : Nat) (h : i < ts.length) :
    ∃ pre A post, ts = pre ++ A :: post ∧ pre.length = i :=
  ⟨ts.take i, ts[i], ts.drop (i + 1), by rw [List.getElem_cons_drop, List.take_append_drop], by simp; omega⟩

/-- applications at two different sites commute as functions on the tensor list -/
theorem applyAt_comm (X Y : Matrix σ σ K) (i j : Nat) (hij : i ≠ j) (ts : List (Site σ ι K)) :
    applyAt X i (applyAt Y j ts) = applyAt Y j (applyAt X i ts) := by
  induction ts generalizing i j with
  | nil => simp [applyAt]
  | cons A ts ih =>
    cases i with
    | zero =>
      cases j with
      | zero => exact absurd rfl hij
      | succ j => simp [applyAt]
    | succ i =>
      cases j with
      | zero => simp [applyAt]
      | succ j => simp only [applyAt]; rw [ih i j (by omega)]

/-- `f` acts on the dense vector of every chain of `n` sites as the matrix `E` (and keeps the number of sites) -/
def Represents (n : Nat) (f : List (Site σ ι K) → List (Site σ ι K)) (E : Matrix (Fin n → σ) (Fin n → σ) K) : Prop :=
  ∀ ts, ts.length = n → (f ts).length = n ∧ Psi n (f ts) = act E (Psi n ts)

theorem represents_id (n : Nat) : Represents n (id : List (Site σ ι K) → _) 1 :=
  fun ts h => ⟨h, (act_one _).symm⟩

theorem Represents.comp {n : Nat} {f g : List (Site σ ι K) → List (Site σ ι K)} {E F : Matrix (Fin n → σ) (Fin n → σ) K}
    (hf : Represents n f E) (hg : Represents n g F) : Represents n (g ∘ f) (F * E) := by
  intro ts h
  obtain ⟨h1, h2⟩ := hf ts h
  obtain ⟨h3, h4⟩ := hg (f ts) h1
  exact ⟨h3, by rw [Function.comp_apply, h4, h2, act_mul]⟩

theorem represents_applyAt (n i : Nat) (hi : i < n) (X : Matrix σ σ K) :
    Represents n (applyAt (ι := ι) X i) (embedL (siteLens (⟨i, hi⟩ : Fin n)) X) := by
  intro ts h
  refine ⟨by simp [h], ?_⟩
  obtain ⟨pre, A, post, rfl, rfl⟩ := split_at ts i (by omega)
  rw [applyAt_append]
  exact Psi_applySite n pre post A X _ rfl

theorem represents_applyPairAt (n i : Nat) (hi : i + 1 < n) (sp : Splitter σ ι K) (M : Matrix (σ × σ) (σ × σ) K) :
    Represents n (applyPairAt sp M i)
      (embedL (pairLens (⟨i, by omega⟩ : Fin n) ⟨i + 1, hi⟩ (by simp)) M) := by
  intro ts h
  refine ⟨by simp [h], ?_⟩
  obtain ⟨pre, A, post0, rfl, rfl⟩ := split_at ts i (by omega)
  cases post0 with
  | nil => simp at h; omega
  | cons B post =>
    rw [applyPairAt_append]
    exact Psi_applyPair n pre post A B _ _ M (fun s t => sp.spec _ s t) _ _ rfl rfl _


/-! ## renormalising after the application (`state.normalize("B")`) -/

section norm
variable [StarRing K]

theorem sumCfg_conj (n : Nat) (P Q : Matrix ι ι K) (G : List σ → Matrix ι ι K) :
    sumCfg n (fun cfg => P * G cfg * Q) = P * sumCfg n G * Q := by
  induction n generalizing G with
  | zero => rfl
  | succ n ih => simp only [sumCfg, ih, Finset.mul_sum, Finset.sum_mul]

/-- a chain of right-isometric sites has unit norm: `Σ_cfg (chain cfg)(chain cfg)ᴴ = 1` (the mirror image of C10's
    `c10_left_canonical_unit_norm`; `normalize("B")` produces such a chain) -/
theorem right_canonical_norm (ts : List (Site σ ι K)) (h : ∀ A ∈ ts, RightIso A) :
    sumCfg ts.length (fun cfg => chain ts cfg * (chain ts cfg)ᴴ) = 1 := by
  induction ts with
  | nil => simp [sumCfg]
  | cons A ts ih =>
    simp only [List.length_cons, sumCfg, chain_cons]
    have key : ∀ s cfg, (A s * chain ts cfg) * (A s * chain ts cfg)ᴴ
        = A s * (chain ts cfg * (chain ts cfg)ᴴ) * (A s)ᴴ := by
      intro s cfg
      rw [Matrix.conjTranspose_mul]
      simp only [Matrix.mul_assoc]
    simp only [key, sumCfg_conj, ih (fun B hB => h B (by simp [hB])), Matrix.mul_one]
    exact h A (by simp)

/-- the recursive sum over configuration lists is the sum over configurations `Fin n → σ` -/
theorem sumCfg_eq_sum {M : Type*} [AddCommMonoid M] (n : Nat) (F : List σ → M) :
    sumCfg n F = ∑ c : Fin n → σ, F (List.ofFn c) := by
  induction n generalizing F with
  | zero => simp [sumCfg]
  | succ n ih =>
    simp only [sumCfg, ih]
    rw [← (Fin.consEquiv fun _ : Fin (n + 1) => σ).sum_comp, Fintype.sum_prod_type]
    refine Finset.sum_congr rfl fun s _ => Finset.sum_congr rfl fun c _ => ?_
    simp [Fin.consEquiv, List.ofFn_succ]

/-- **normalize("B") after an application**: the applied-to vector is `Rᵀ ·` the normalised one, `R = (d.qr A).2` the factor
    the last QR of `normalize` throws away (1×1 in the code: a scalar) -/
theorem normalize_after (n : Nat) (hpos : 0 < n) (d : Dec σ ι K) (u : Bool) (f : List (Site σ ι K) → List (Site σ ι K))
    (E : Matrix (Fin n → σ) (Fin n → σ) K) (hf : Represents n f E) (ts : List (Site σ ι K)) (hn : ts.length = n) :
    ∃ A : Site σ ι K, ∀ c, act E (Psi n ts) c = ((d.qr A).2)ᵀ * Psi n (normalize d u true (f ts)) c := by
  obtain ⟨hl, hE⟩ := hf ts hn
  have hne : f ts ≠ [] := by
    intro h0; rw [h0] at hl; simp at hl; omega
  obtain ⟨A, hA⟩ := c10_normalize_B d u (f ts) hne
  refine ⟨A, fun c => ?_⟩
  rw [← hE]
  exact hA (List.ofFn c) (by simp [hl])

theorem normalize_length (d : Dec σ ι K) (u b : Bool) (ts : List (Site σ ι K)) :
    (normalize d u b ts).length = ts.length := by
  cases b <;> simp [Yaqs.Mps.Alg.normalize]

/-- … and the normalised chain has unit norm when the decompositions return isometries (their documented spec) -/
theorem normalize_B_unit_norm (n : Nat) (d : Dec σ ι K) (u : Bool)
    (hq : ∀ A, LeftIso (d.qr A).1) (hs : ∀ A B, LeftIso (d.svd A B).1) (ts : List (Site σ ι K)) (hn : ts.length = n) :
    ∑ c : Fin n → σ, Psi n (normalize d u true ts) c * (Psi n (normalize d u true ts) c)ᴴ = 1 := by
  have hlen : (normalize d u true ts).length = n := by rw [normalize_length, hn]
  have := right_canonical_norm (normalize d u true ts) (fun A hA => by
    obtain ⟨j, hj⟩ := List.mem_iff_getElem?.mp hA
    have hjl : j < ts.length := by
      by_contra hcon
      rw [List.getElem?_eq_none (by rw [normalize_length]; omega)] at hj
      exact absurd hj (by simp)
    obtain ⟨X, hX, hg⟩ := c10_normalize_B_isometries d u hq hs ts j hjl
    rw [hX] at hj
    cases hj
    exact hg)
  rw [hlen, sumCfg_eq_sum] at this
  exact this

/-- when column `a0` of the dropped factor is `r·e_{a0}` (the code: `R` is the 1×1 matrix `(r)`), `Rᵀ ·` is multiplication of
    row `a0` by the scalar `r` -/
theorem dropped_RT_is_a_scalar (M R : Matrix ι ι K) (a0 b : ι) (hcol : ∀ j, j ≠ a0 → R j a0 = 0) :
    (Rᵀ * M) a0 b = R a0 a0 * M a0 b := by
  rw [Matrix.mul_apply]
  simp only [Matrix.transpose_apply]
  exact Finset.sum_eq_single a0 (fun j _ hj => by rw [hcol j hj, zero_mul]) (fun h => absurd (Finset.mem_univ _) h)

end norm

/-! ## the loop of `apply_scheduled_jumps` -/

/-- one entry of `noise_model.scheduled_jumps` as `apply_scheduled_jumps` uses it: its time, what the loop body does to the
    tensor list for it (one-site contraction, or merge / contract / split), and the dense operator that this represents -/
structure SchedJump (n : Nat) (σ ι K : Type*) [Fintype ι] [CommRing K] where
  time : Rat
  run : List (Site σ ι K) → List (Site σ ι K)
  op : Matrix (Fin n → σ) (Fin n → σ) K

/-- the loop `for jump in scheduled_jumps: if isclose(jump.time, t): <apply>` — `SJump.applied` is the list of positions whose
    time matches, in list order -/
def sjBody {n : Nat} (jumps : List (SchedJump n σ ι K)) (t dt : Rat) (ts : List (Site σ ι K)) : List (Site σ ι K) :=
  (SJump.applied (jumps.map (·.time)) t dt).foldl (fun s i => match jumps[i]? with | some j => j.run s | none => s) ts

/-- the dense operator of the loop: the matching operators multiplied in list order (a later one acts after, i.e. stands to
    the left) -/
def prodOps {n : Nat} (jumps : List (SchedJump n σ ι K)) (idx : List Nat) : Matrix (Fin n → σ) (Fin n → σ) K :=
  idx.foldl (fun E i => match jumps[i]? with | some j => j.op * E | none => E) 1

def sjOp {n : Nat} (jumps : List (SchedJump n σ ι K)) (t dt : Rat) : Matrix (Fin n → σ) (Fin n → σ) K :=
  prodOps jumps (SJump.applied (jumps.map (·.time)) t dt)

/-- `apply_scheduled_jumps(state, noise_model, t, sim_params)`: nothing at all without scheduled jumps, else the loop and
    `state.normalize("B")` (QR) — also when no time matched -/
def applyScheduledJumps {n : Nat} (d : Dec σ ι K) (jumps : List (SchedJump n σ ι K)) (t dt : Rat) (ts : List (Site σ ι K)) :
    List (Site σ ι K) :=
  if jumps.isEmpty then ts else normalize d false true (sjBody jumps t dt ts)

theorem prodOps_nil {n : Nat} (jumps : List (SchedJump n σ ι K)) : prodOps jumps [] = 1 := rfl

/-- exactly one matching jump: the loop applies its operator once -/
theorem prodOps_single {n : Nat} (jumps : List (SchedJump n σ ι K)) (i : Nat) (j : SchedJump n σ ι K)
    (h : jumps[i]? = some j) : prodOps jumps [i] = j.op := by
  simp [prodOps, h]

/-- two matching jumps (equal times): list order, the later one acts second -/
theorem prodOps_pair {n : Nat} (jumps : List (SchedJump n σ ι K)) (i i' : Nat) (j j' : SchedJump n σ ι K)
    (h : jumps[i]? = some j) (h' : jumps[i']? = some j') : prodOps jumps [i, i'] = j'.op * j.op := by
  simp [prodOps, h, h']

theorem fold_represents {n : Nat} (jumps : List (SchedJump n σ ι K)) (hj : ∀ j ∈ jumps, Represents n j.run j.op) (idx : List Nat)
    (f0 : List (Site σ ι K) → List (Site σ ι K)) (E0 : Matrix (Fin n → σ) (Fin n → σ) K) (h0 : Represents n f0 E0) :
    Represents n (fun ts => idx.foldl (fun s i => match jumps[i]? with | some j => j.run s | none => s) (f0 ts))
      (idx.foldl (fun E i => match jumps[i]? with | some j => j.op * E | none => E) E0) := by
  induction idx generalizing f0 E0 with
  | nil => simpa using h0
  | cons i idx ih =>
    simp only [List.foldl_cons]
    cases hji : jumps[i]? with
    | none => simpa [hji] using ih f0 E0 h0
    | some j =>
      have hmem : j ∈ jumps := List.mem_of_getElem? hji
      have := ih (j.run ∘ f0) (j.op * E0) (h0.comp (hj j hmem))
      simpa [hji] using this

/-- the loop represents the ordered product of the operators whose time matches -/
theorem sjBody_represents {n : Nat} (jumps : List (SchedJump n σ ι K)) (hj : ∀ j ∈ jumps, Represents n j.run j.op) (t dt : Rat) :
    Represents n (sjBody jumps t dt) (sjOp jumps t dt) :=
  fold_represents jumps hj _ id 1 (represents_id n)

/-! ## the value of an observable on the renormalised jump branch (what C01's lottery assumes) -/

section value
variable [StarRing K] {C : Type*} [Fintype C]

/-- if `φ = r · ψ'` (the jumped vector is the scalar `r` times the renormalised one) then `⟨φ|O|φ⟩ = r̄ r ⟨ψ'|O|ψ'⟩` and
    `⟨φ|φ⟩ = r̄ r ⟨ψ'|ψ'⟩` -/
theorem scaled_forms (O : Matrix C C K) (φ ψ' : C → K) (r : K) (h : φ = r • ψ') :
    star φ ⬝ᵥ O *ᵥ φ = star r * r * (star ψ' ⬝ᵥ O *ᵥ ψ') ∧ star φ ⬝ᵥ φ = star r * r * (star ψ' ⬝ᵥ ψ') := by
  subst h
  constructor
  · simp only [dotProduct, Matrix.mulVec, Pi.smul_apply, Pi.star_apply, smul_eq_mul, star_mul', Finset.mul_sum]
    refine Finset.sum_congr rfl fun i _ => Finset.sum_congr rfl fun j _ => ?_
    ring
  · simp only [dotProduct, Pi.smul_apply, Pi.star_apply, smul_eq_mul, star_mul', Finset.mul_sum]
    refine Finset.sum_congr rfl fun i _ => ?_
    ring

end value


/-! ## the executable list model (`Model/LocalOp.lean`) does the same -/

section exec
open Yaqs.Mps

theorem applyOne_length (op : Mat) (t : Tensor) : (applyOne op t).length = op.length := by simp [applyOne]

theorem applyOne_getD (op : Mat) (t : Tensor) (s : Nat) (hs : s < op.length) :
    (applyOne op t).getD s [] = (List.range (leftDim t)).map fun l => (List.range (rightDim t)).map fun r =>
      dot (op.getD s []) (t.map fun m => entry m l r) := by
  rw [getD_of_lt _ _ (by simpa [applyOne_length] using hs), getD_of_lt _ _ hs]
  simp [applyOne]

theorem map_entry_getD (t : Tensor) (i j k : Nat) : (t.map fun m => entry m i j).getD k 0 = entry (t.getD k []) i j := by
  by_cases hk : k < t.length
  · simp [List.getD_eq_getElem?_getD, List.getElem?_eq_getElem hk]
  · simp [List.getD_eq_getElem?_getD, List.getElem?_eq_none (by omega : t.length ≤ k), entry_nil]

/-- entries of `applyOne`: `new[s][i][j] = Σ_k op[s][k] · T[k][i][j]` -/
theorem entry_applyOne (op : Mat) (t : Tensor) (ht : wellShaped t = true) (s i j : Nat) (hs : s < op.length) :
    entry ((applyOne op t).getD s []) i j = ∑ k ∈ Finset.range t.length, entry op s k * entry (t.getD k []) i j := by
  obtain ⟨_, _, _, hall⟩ := (wellShaped_iff t).mp ht
  rw [applyOne_getD op t s hs]
  by_cases hi : i < leftDim t
  · by_cases hj : j < rightDim t
    · have : entry ((List.range (leftDim t)).map fun l => (List.range (rightDim t)).map fun r =>
          dot (op.getD s []) (t.map fun m => entry m l r)) i j = dot (op.getD s []) (t.map fun m => entry m i j) := by
        simp [entry, List.getD_eq_getElem?_getD, hi, hj]
      rw [this, dot_eq_sum _ _ t.length (by simp)]
      refine Finset.sum_congr rfl fun k _ => ?_
      rw [map_entry_getD]
      rfl
    · have : entry ((List.range (leftDim t)).map fun l => (List.range (rightDim t)).map fun r =>
          dot (op.getD s []) (t.map fun m => entry m l r)) i j = 0 := by
        simp [entry, List.getD_eq_getElem?_getD, hi, hj]
      rw [this]
      symm
      refine Finset.sum_eq_zero fun k hk => ?_
      have hk' : k < t.length := Finset.mem_range.mp hk
      have hm := getD_mem t hk'
      rw [entry_of_le_cols _ (rows_le_of_wellShaped ht _ hm) i j (by rw [ncols_of_wellShaped ht hm]; omega), mul_zero]
  · have : entry ((List.range (leftDim t)).map fun l => (List.range (rightDim t)).map fun r =>
        dot (op.getD s []) (t.map fun m => entry m l r)) i j = 0 := by
      simp [entry, List.getD_eq_getElem?_getD, hi]
    rw [this]
    symm
    refine Finset.sum_eq_zero fun k hk => ?_
    have hk' : k < t.length := Finset.mem_range.mp hk
    rw [entry_of_le_rows _ i j (by rw [(hall _ (getD_mem t hk')).1]; omega), mul_zero]

/-- **Matrix reading of `applyOne`**: the slice `s` of the new tensor is `Σ_k op[s][k] · (slice k of the old one)` -/
theorem toSite_applyOne (n : Nat) (op : Mat) (t : Tensor) (ht : wellShaped t = true) (s : Nat) (hs : s < op.length) :
    toSite n (applyOne op t) s = ∑ k ∈ Finset.range t.length, entry op s k • toSite n t k := by
  ext i j
  simp only [toSite_eq, toMat_apply, Matrix.sum_apply, Matrix.smul_apply, smul_eq_mul]
  exact entry_applyOne op t ht s i.val j.val hs

/-- `applyOne` keeps the bond dimensions; the new physical dimension is the number of rows of the operator -/
theorem applyOne_shape (op : Mat) (t : Tensor) (ht : wellShaped t = true) (hop : 1 ≤ op.length) :
    wellShaped (applyOne op t) = true ∧ leftDim (applyOne op t) = leftDim t ∧ rightDim (applyOne op t) = rightDim t := by
  obtain ⟨_, hl, hr, _⟩ := (wellShaped_iff t).mp ht
  refine wellShaped_of_shape _ _ _ (by rw [applyOne_length]; exact hop) hl hr ?_
  intro m hm
  simp only [applyOne, List.mem_map] at hm
  obtain ⟨row, _, rfl⟩ := hm
  refine ⟨by simp, ?_⟩
  intro r hr'
  simp only [List.mem_map, List.mem_range] at hr'
  obtain ⟨l, _, rfl⟩ := hr'
  simp

/-- replacing one tensor of a well-shaped chain by a well-shaped one with the same bond dimensions -/
theorem replace1_wellShapedChain (n : Nat) (pre post : List Tensor) (t t' : Tensor)
    (hws : wellShapedChain n (pre ++ t :: post) = true) (ht' : wellShaped t' = true) (hl : leftDim t' = leftDim t)
    (hr : rightDim t' = rightDim t) : wellShapedChain n (pre ++ t' :: post) = true := by
  obtain ⟨hall, hbm, hhead, hlast⟩ := (wellShapedChain_iff n _).mp hws
  have htt := hall t (by simp)
  refine (wellShapedChain_iff n _).mpr ⟨?_, ?_, ?_, ?_⟩
  · intro u hu
    simp only [List.mem_append, List.mem_cons] at hu
    rcases hu with hu | rfl | hu
    · exact hall u (by simp [hu])
    · exact ⟨ht', by rw [hl]; exact htt.2.1, by rw [hr]; exact htt.2.2⟩
    · exact hall u (by simp [hu])
  · rw [bondsMatch_iff, List.isChain_append] at hbm ⊢
    obtain ⟨h1, h2, h3⟩ := hbm
    refine ⟨h1, (isChain_cons_congr _ t post hr).mpr h2, ?_⟩
    intro x hx y hy
    simp only [List.head?_cons, Option.mem_def, Option.some.injEq] at hy
    subst hy
    rw [hl]
    exact h3 x hx t (by simp)
  · rw [headD_append_cons] at hhead ⊢
    by_cases hp : pre = []
    · simp only [hp, if_true] at hhead ⊢; rw [hl]; exact hhead
    · simpa only [hp, if_false] using hhead
  · rw [lastRight_append _ _ (by simp)] at hlast ⊢
    rw [lastRight_cons_congr _ t post hr]; exact hlast

theorem cfgOK_append (pre ts : List Tensor) (c1 cs : List Nat) (h : cfgOK pre c1 = true) :
    cfgOK (pre ++ ts) (c1 ++ cs) = cfgOK ts cs := by
  induction pre generalizing c1 with
  | nil =>
    cases c1 with
    | nil => rfl
    | cons x c1 => simp [cfgOK] at h
  | cons p pre ih =>
    cases c1 with
    | nil => simp [cfgOK] at h
    | cons x c1 =>
      simp only [cfgOK, Bool.and_eq_true, decide_eq_true_eq] at h
      simp only [List.cons_append, cfgOK, h.1, decide_true, Bool.true_and]
      exact ih c1 h.2

theorem toMatrixChain_append1' (n : Nat) (pre post : List Tensor) (a : Tensor) :
    toMatrixChain n (pre ++ a :: post) = toMatrixChain n pre ++ toSite n a :: toMatrixChain n post := by
  simp [toMatrixChain]

/-- **`applyOne` inside a chain, amplitudes** (the executable form of `apply_one_site_dense`): for every well-shaped chain,
    every square operator on the physical index of site `|pre|` and every valid configuration, the amplitude of the list model
    after `applyOne` is `Σ_k op[σ_i][k] · amp(old, σ[i := k])` -/
theorem amp_applyOne (n : Nat) (hn : 0 < n) (pre post : List Tensor) (t : Tensor) (op : Mat)
    (hws : wellShapedChain n (pre ++ t :: post) = true) (hop : op.length = t.length) (c1 c2 : List Nat) (s : Nat)
    (hc1 : cfgOK pre c1 = true) (hs : s < t.length) (hc2 : cfgOK post c2 = true) :
    amp (pre ++ applyOne op t :: post) (c1 ++ s :: c2) =
      some (∑ k ∈ Finset.range t.length, entry op s k * (amp (pre ++ t :: post) (c1 ++ k :: c2)).getD 0) := by
  obtain ⟨hall, -⟩ := (wellShapedChain_iff n _).mp hws
  have ht := (hall t (by simp)).1
  have hone : 1 ≤ op.length := by rw [hop]; exact ((wellShaped_iff t).mp ht).1
  obtain ⟨hw', hl', hr'⟩ := applyOne_shape op t ht hone
  have hws' := replace1_wellShapedChain n pre post t (applyOne op t) hws hw' hl' hr'
  have hlen1 : c1.length = (toMatrixChain n pre).length := by
    rw [toMatrixChain_length]; exact cfgOK_length _ _ hc1
  have hcfg : ∀ (u : Tensor) (k : Nat), k < u.length → cfgOK (pre ++ u :: post) (c1 ++ k :: c2) = true := by
    intro u k hk
    rw [cfgOK_append _ _ _ _ hc1]
    simp [cfgOK, hk, hc2]
  rw [amp_eq_chain n hn _ _ hws' (hcfg _ s (by rw [applyOne_length, hop]; exact hs)), toMatrixChain_append1',
    chain_replace_lin _ _ (toSite n t) _ (Finset.range t.length) (fun k => entry op s k) c1 c2 s hlen1
      (toSite_applyOne n op t ht s (by rw [hop]; exact hs))]
  congr 1
  rw [Matrix.sum_apply]
  refine Finset.sum_congr rfl fun k hk => ?_
  rw [amp_eq_chain n hn _ _ hws (hcfg t k (Finset.mem_range.mp hk)), toMatrixChain_append1']
  simp [Matrix.smul_apply]


/-! ### `merge_mps_tensors`, the merged contraction and the matrix handed to the SVD -/

theorem mergeKet2_inner (a b : Tensor) : ∀ m ∈ a.map (fun am => b.map fun bm => matMul am bm), m.length = b.length := by
  intro m hm
  simp only [List.mem_map] at hm
  obtain ⟨x, _, rfl⟩ := hm
  simp

theorem mergeKet2_length (a b : Tensor) : (mergeKet2 a b).length = a.length * b.length := by
  unfold mergeKet2
  rw [length_flatten_uniform b.length _ (mergeKet2_inner a b)]
  simp

/-- **index convention of `merge_mps_tensors`**: slice `s·|B| + t` of the merged tensor is `A[s] @ B[t]` — the LEFT tensor's
    physical index is the major one -/
theorem mergeKet2_getD (a b : Tensor) (s t : Nat) (hs : s < a.length) (ht : t < b.length) :
    (mergeKet2 a b).getD (s * b.length + t) [] = matMul (a.getD s []) (b.getD t []) := by
  unfold mergeKet2
  rw [getD_flatten_uniform b.length [] _ (mergeKet2_inner a b) s t ht]
  simp [List.getD_eq_getElem?_getD, hs, ht]

/-- … entry by entry: `merged[s·d_j + t][l][r] = Σ_k A[s][l][k] · B[t][k][r]` -/
theorem entry_mergeKet2 (a b : Tensor) (ha : wellShaped a = true) (hb : wellShaped b = true) (s t l r : Nat)
    (hs : s < a.length) (ht : t < b.length) (N : Nat) (hN : rightDim a ≤ N) :
    entry ((mergeKet2 a b).getD (s * b.length + t) []) l r
      = ∑ k ∈ Finset.range N, entry (a.getD s []) l k * entry (b.getD t []) k r := by
  obtain ⟨_, _, _, halla⟩ := (wellShaped_iff a).mp ha
  rw [mergeKet2_getD a b s t hs ht]
  exact entry_matMul_sum _ _ N l r (fun row hrow => by rw [(halla _ (getD_mem a hs)).2 row hrow]; exact hN)
    (rows_le_of_wellShaped hb _ (getD_mem b ht))

theorem toSite_mergeKet2 (n : Nat) (a b : Tensor) (ha : wellShaped a = true) (hb : wellShaped b = true)
    (hra : rightDim a ≤ n) (s t : Nat) (hs : s < a.length) (ht : t < b.length) :
    toSite n (mergeKet2 a b) (s * b.length + t) = toSite n a s * toSite n b t := by
  obtain ⟨_, _, _, halla⟩ := (wellShaped_iff a).mp ha
  rw [toSite_eq, mergeKet2_getD a b s t hs ht, toSite_eq, toSite_eq]
  exact toMat_matMul n _ _ (fun row hrow => by rw [(halla _ (getD_mem a hs)).2 row hrow]; exact hra)
    (rows_le_of_wellShaped hb _ (getD_mem b ht))

theorem mergeKet2_shape (a b : Tensor) (ha : wellShaped a = true) (hb : wellShaped b = true) :
    wellShaped (mergeKet2 a b) = true ∧ leftDim (mergeKet2 a b) = leftDim a ∧ rightDim (mergeKet2 a b) = rightDim b := by
  obtain ⟨ha1, hal, _, halla⟩ := (wellShaped_iff a).mp ha
  obtain ⟨hb1, _, hbr, _⟩ := (wellShaped_iff b).mp hb
  refine wellShaped_of_shape _ _ _ (by rw [mergeKet2_length]; exact Nat.mul_pos ha1 hb1) hal hbr ?_
  intro m hm
  simp only [mergeKet2, List.mem_flatten, List.mem_map] at hm
  obtain ⟨l, ⟨am, ham, rfl⟩, hm⟩ := hm
  simp only [List.mem_map] at hm
  obtain ⟨bm, hbm, rfl⟩ := hm
  refine ⟨by rw [matMul_length]; exact (halla am ham).1, fun row hrow => ?_⟩
  rw [matMul_row_length _ _ row hrow, ncols_of_wellShaped hb hbm]

/-- **Matrix reading of `applyTwoMerged`**: slice `q` of the merged-and-operated tensor is
    `Σ_{x,y} op[q][x·|B| + y] · A[x] @ B[y]` -/
theorem toSite_applyTwoMerged (n : Nat) (op : Mat) (a b : Tensor) (ha : wellShaped a = true) (hb : wellShaped b = true)
    (hra : rightDim a ≤ n) (q : Nat) (hq : q < op.length) :
    toSite n (applyTwoMerged op a b) q = ∑ x ∈ Finset.range a.length, ∑ y ∈ Finset.range b.length,
      entry op q (x * b.length + y) • (toSite n a x * toSite n b y) := by
  unfold applyTwoMerged
  rw [toSite_applyOne n op _ (mergeKet2_shape a b ha hb).1 q hq, mergeKet2_length, sum_range_mul]
  refine Finset.sum_congr rfl fun x hx => Finset.sum_congr rfl fun y hy => ?_
  rw [toSite_mergeKet2 n a b ha hb hra x y (Finset.mem_range.mp hx) (Finset.mem_range.mp hy)]

theorem flatMap_eq_flatten_map {α β : Type*} (l : List α) (f : α → List β) : l.flatMap f = (l.map f).flatten := by
  induction l with
  | nil => rfl
  | cons x l ih => simp [List.flatMap_cons, ih]

/-- entries of the matrix `split_mps_tensor` decomposes: row `s·D0 + l`, column `t·D2 + r` is `merged[s·dR + t][l][r]` -/
theorem entry_splitTheta (dL dR : Nat) (T : Tensor) (s l t r : Nat) (hs : s < dL) (hl : l < leftDim T) (ht : t < dR)
    (hr : r < rightDim T) :
    entry (splitTheta dL dR T) (s * leftDim T + l) (t * rightDim T + r) = entry (T.getD (s * dR + t) []) l r := by
  unfold splitTheta
  rw [entry_eq, flatMap_eq_flatten_map, getD_flatten_uniform (leftDim T) [] _ (by
    intro m hm
    simp only [List.mem_map, List.mem_range] at hm
    obtain ⟨x, _, rfl⟩ := hm
    simp) s l hl]
  have e1 : ((List.range dL).map fun s => (List.range (leftDim T)).map fun l =>
      (List.range dR).flatMap fun t => (List.range (rightDim T)).map fun r => entry (T.getD (s * dR + t) []) l r).getD s []
      = (List.range (leftDim T)).map fun l =>
      (List.range dR).flatMap fun t => (List.range (rightDim T)).map fun r => entry (T.getD (s * dR + t) []) l r := by
    simp [List.getD_eq_getElem?_getD, hs]
  rw [e1]
  have e2 : ((List.range (leftDim T)).map fun l =>
      (List.range dR).flatMap fun t => (List.range (rightDim T)).map fun r => entry (T.getD (s * dR + t) []) l r).getD l []
      = (List.range dR).flatMap fun t => (List.range (rightDim T)).map fun r => entry (T.getD (s * dR + t) []) l r := by
    simp [List.getD_eq_getElem?_getD, hl]
  rw [e2, flatMap_eq_flatten_map, getD_flatten_uniform (rightDim T) 0 _ (by
    intro m hm
    simp only [List.mem_map, List.mem_range] at hm
    obtain ⟨x, _, rfl⟩ := hm
    simp) t r hr]
  simp [List.getD_eq_getElem?_getD, ht, hr]

/-- **the matrix the split decomposes is C10's two-site matrix**: for the merged tensor of `(A, B)` the SVD input of
    `split_mps_tensor` equals `thetaMat A B`, the SVD input of `two_site_svd` (so the exact / truncated split theorems of C10 —
    `c10_exec_svd_*` — apply to `split_mps_tensor` as they stand) -/
theorem splitTheta_mergeKet2 (a b : Tensor) (ha : wellShaped a = true) (hb : wellShaped b = true) (s l t r : Nat)
    (hs : s < a.length) (hl : l < leftDim a) (ht : t < b.length) (hr : r < rightDim b) :
    entry (splitTheta a.length b.length (mergeKet2 a b)) (s * leftDim a + l) (t * rightDim b + r)
      = entry (thetaMat a b) (s * leftDim a + l) (t * rightDim b + r) := by
  obtain ⟨_, hL, hR⟩ := mergeKet2_shape a b ha hb
  have := entry_splitTheta a.length b.length (mergeKet2 a b) s l t r hs (by rw [hL]; exact hl) ht (by rw [hR]; exact hr)
  rw [hL, hR] at this
  rw [this, entry_mergeKet2 a b ha hb s t l r hs ht (rightDim a) (le_refl _),
    entry_thetaMat a b ha hb s l t r hs hl ht hr (rightDim a) (Nat.min_le_left _ _)]

/-- **`applyTwoMerged` + exact split inside a chain, amplitudes** (the executable form of `apply_two_site_dense`): if the pair
    `(a', b')` written back has the frame of `(a, b)` and its slices multiply to the slices of the merged-and-operated tensor
    (what an untruncated `split_mps_tensor` returns, whatever the distribution of the singular values), the new amplitudes are
    `Σ_{x,y} op[σ_i·d_j + σ_{i+1}][x·d_j + y] · amp(old, σ[i := x, i+1 := y])` -/
theorem amp_applyTwo (n : Nat) (hn : 0 < n) (pre post : List Tensor) (a b a' b' : Tensor) (op : Mat)
    (hws : wellShapedChain n (pre ++ a :: b :: post) = true) (hf : sameFrame n a b a' b' = true)
    (hop : op.length = a.length * b.length)
    (hsplit : ∀ s t, s < a.length → t < b.length →
      matMul (a'.getD s []) (b'.getD t []) = (applyTwoMerged op a b).getD (s * b.length + t) [])
    (c1 c2 : List Nat) (s t : Nat) (hc1 : cfgOK pre c1 = true) (hs : s < a.length) (ht : t < b.length)
    (hc2 : cfgOK post c2 = true) :
    amp (pre ++ a' :: b' :: post) (c1 ++ s :: t :: c2) =
      some (∑ x ∈ Finset.range a.length, ∑ y ∈ Finset.range b.length,
        entry op (s * b.length + t) (x * b.length + y) * (amp (pre ++ a :: b :: post) (c1 ++ x :: y :: c2)).getD 0) := by
  obtain ⟨hall, -⟩ := (wellShapedChain_iff n _).mp hws
  obtain ⟨ha', hb', h1, h2, _, _, _, h6⟩ := (sameFrame_iff n a b a' b').mp hf
  have ha := hall a (by simp)
  have hb := hall b (by simp)
  have hws' := replace2_wellShapedChain n pre post a b a' b' hws hf
  have hlen1 : c1.length = (toMatrixChain n pre).length := by
    rw [toMatrixChain_length]; exact cfgOK_length _ _ hc1
  have hcfg : ∀ (u v : Tensor) (x y : Nat), x < u.length → y < v.length →
      cfgOK (pre ++ u :: v :: post) (c1 ++ x :: y :: c2) = true := by
    intro u v x y hx hy
    rw [cfgOK_append _ _ _ _ hc1]
    simp [cfgOK, hx, hy, hc2]
  obtain ⟨_, _, _, halla'⟩ := (wellShaped_iff a').mp ha'
  have hq : s * b.length + t < op.length := by rw [hop]; exact mul_lt_of_lt hs ht
  have hblock : toSite n a' s * toSite n b' t = ∑ p ∈ Finset.range a.length ×ˢ Finset.range b.length,
      entry op (s * b.length + t) (p.1 * b.length + p.2) • (toSite n a p.1 * toSite n b p.2) := by
    rw [toSite_eq, toSite_eq, ← toMat_matMul n _ _
      (fun row hrow => by rw [(halla' _ (getD_mem a' (by rw [h1]; exact hs))).2 row hrow]; exact h6)
      (rows_le_of_wellShaped hb' _ (getD_mem b' (by rw [h2]; exact ht))), hsplit s t hs ht, ← toSite_eq,
      toSite_applyTwoMerged n op a b ha.1 hb.1 ha.2.2 _ hq, Finset.sum_product]
  rw [amp_eq_chain n hn _ _ hws' (hcfg a' b' s t (by rw [h1]; exact hs) (by rw [h2]; exact ht)), toMatrixChain_append2,
    chain_replace2_lin _ _ (toSite n a) (toSite n b) _ _ _ (fun p => entry op (s * b.length + t) (p.1 * b.length + p.2))
      c1 c2 s t hlen1 hblock, Finset.sum_product]
  congr 1
  rw [Matrix.sum_apply]
  refine Finset.sum_congr rfl fun x hx => ?_
  rw [Matrix.sum_apply]
  refine Finset.sum_congr rfl fun y hy => ?_
  rw [amp_eq_chain n hn _ _ hws (hcfg a b x y (Finset.mem_range.mp hx) (Finset.mem_range.mp hy)), toMatrixChain_append2]
  simp [Matrix.smul_apply]


/-! ### positions in the dense vector `to_vec()` (site 0 least significant) -/

/-- `Model.Mps.vecIndex` is C06's `toVecIdx` (so `toVec_is_reversed` applies: it is the Kronecker index of the reversed chain) -/
theorem vecIndex_eq_toVecIdx : ∀ (d c : List Nat), vecIndex d c = Yaqs.Index.toVecIdx d c
  | [], _ => by simp [vecIndex, Yaqs.Index.toVecIdx]
  | _ :: _, [] => by simp [vecIndex, Yaqs.Index.toVecIdx]
  | d :: ds, s :: c => by simp [vecIndex, Yaqs.Index.toVecIdx, vecIndex_eq_toVecIdx ds c]

theorem foldl_mul_one (a : Nat) (l : List Nat) : l.foldl (· * ·) a = a * l.foldl (· * ·) 1 := by
  induction l generalizing a with
  | nil => simp
  | cons x l ih => rw [List.foldl_cons, List.foldl_cons, ih, ih (1 * x)]; ring

theorem cfgOfIndex_vecIndex : ∀ (ts : List Tensor) (cfg : List Nat), cfgOK ts cfg = true →
    cfgOfIndex (ts.map physDim) (vecIndex (ts.map physDim) cfg) = cfg ∧
      vecIndex (ts.map physDim) cfg < (ts.map physDim).foldl (· * ·) 1
  | [], [], _ => by simp [cfgOfIndex, vecIndex]
  | [], _ :: _, h => by simp [cfgOK] at h
  | _ :: _, [], h => by simp [cfgOK] at h
  | t :: ts, s :: cfg, h => by
    simp only [cfgOK, Bool.and_eq_true, decide_eq_true_eq] at h
    obtain ⟨ih1, ih2⟩ := cfgOfIndex_vecIndex ts cfg h.2
    have hs : s < physDim t := h.1
    simp only [List.map_cons, vecIndex, cfgOfIndex, List.foldl_cons]
    refine ⟨?_, ?_⟩
    · rw [Nat.add_mul_mod_self_left, Nat.mod_eq_of_lt hs, Nat.add_mul_div_left _ _ (by omega : 0 < physDim t),
        Nat.div_eq_of_lt hs, Nat.zero_add, ih1]
    · rw [foldl_mul_one, Nat.one_mul]
      calc s + physDim t * vecIndex (ts.map physDim) cfg
          < physDim t + physDim t * vecIndex (ts.map physDim) cfg := by omega
        _ = physDim t * (vecIndex (ts.map physDim) cfg + 1) := by ring
        _ ≤ physDim t * (ts.map physDim).foldl (· * ·) 1 := Nat.mul_le_mul_left _ ih2

/-- the entry of `toVec` at the little-endian position of a configuration is the amplitude of that configuration -/
theorem toVec_at (ts : List Tensor) (cfg : List Nat) (h : cfgOK ts cfg = true) :
    (toVec ts)[Yaqs.Index.toVecIdx (ts.map physDim) cfg]? = some (amp ts cfg) := by
  obtain ⟨h1, h2⟩ := cfgOfIndex_vecIndex ts cfg h
  rw [← vecIndex_eq_toVecIdx]
  unfold toVec
  simp only [List.getElem?_map, List.getElem?_range h2, Option.map_some, h1]

end exec

end Yaqs.LocalOp
