import YaqsModel.Lemmas.FlowStability
import YaqsModel.Lemmas.TrotterLimit

/-!
# Lemmas.LocalUniform — an explicit local error constant, uniform over the unit vectors (xu03 extension of C03/C01)

For the exponential no-jump family `A(t) = exp(t·G)`, `G = −iH − ½K`, `K = Σ_k γ_k L_k†L_k`, `γ_k ≥ 0`, `H` Hermitian, the one-step
trajectory average `pureAverage Ls (A t ψ)` and the exact Lindblad flow `exp(t𝓛)(ψψ†)` differ by at most `C·t²` for every unit
vector `ψ`, with ONE constant `C = localC H Ls` (closed formula in `‖G‖`, `‖G†‖`, `‖K‖`, `Σ|γ_k|‖L_k‖‖L_k†‖`, `‖𝓛‖`, `card n`),
for `0 ≤ t`, `t·(‖G‖+‖G†‖) ≤ 1`, `t·‖𝓛‖ ≤ 1`.  Norm: `ℓ∞` operator norm of matrices (`Matrix.Norms.Operator`).

Structure of the proof
* `norm_exp_sub_one_sub_le_real`  `‖e^X − 1 − X‖ ≤ e^{‖X‖} − 1 − ‖X‖` in a *real* Banach algebra (series, first two terms split off)
* `lindFlow_taylor2`              `‖exp(t𝓛)ρ − ρ − t𝓛ρ‖ ≤ (3/2)(t‖𝓛‖)²‖ρ‖` for `t‖𝓛‖ ≤ 1`
* `sandwich_bounds`               `‖e^X ρ e^Y − ρ‖ ≤ 8s‖ρ‖`, `‖e^X ρ e^Y − ρ − (Xρ + ρY)‖ ≤ 7s²‖ρ‖` for `‖X‖,‖Y‖ ≤ s ≤ 1`
* `norm_trace_le`, `norm_vecMulVec_self_le`, `norm_jumpSum_le`, `norm_jumpSum_pure_le`  the `ℓ∞`-operator-norm facts:
  `|tr M| ≤ N‖M‖`, `‖φφ†‖ ≤ N‖φ‖₂²`, `‖Σγ L X L†‖ ≤ (Σ|γ|‖L‖‖L†‖)‖X‖`, `‖Σγ (Lφ)(Lφ)†‖ ≤ N·|Σγ‖Lφ‖²|`  (the last one is what keeps
  the normalised jump state bounded — uniformity in `ψ` — and needs `γ ≥ 0`)
* `avg_expand`                    the quantitative first-order expansion of the branch average
* `local_error_uniform`           the result; `local_error_explicit` with the closed formula `N(15N²+17)Λ²`, `Λ = 2‖H‖+2Σ|γ|‖L‖‖L†‖`
* `average_expand_family`, `local_error_family`   the same for ANY one-step propagator `B = 1 + tG + O((tg)²)` (and `B†`)
* `prodFamily_bounds`, `prodFamily_conjTranspose`, `local_error_prodFamily`   products `Π_k exp(tX_k)` with `ΣX_k = G`
* `order1_eq_prodFamily`, `order1Gens_sum`, `local_error_order1`   the code's order-1 step `dissStep Ls t * unitaryStep H t`
* `order2_eq_prodFamily`, `order2Gens_sum`, `local_error_order2`   the order-2 (Strang) step `dissStep(t/2)·unitaryStep(t)·dissStep(t/2)`
-/
namespace Yaqs.Consistency

open NormedSpace
open scoped Nat

/-! ### scalar facts -/

theorem exp_one_le_three : Real.exp 1 ≤ 3 := by
  have := exp_le_one_add_two_mul (x := 1) zero_le_one le_rfl
  linarith

/-- `e^s − 1 ≤ 2s` on `[0,1]` -/
theorem exp_sub_one_le_two_mul {s : ℝ} (h0 : 0 ≤ s) (h1 : s ≤ 1) : Real.exp s - 1 ≤ 2 * s := by
  have := exp_le_one_add_two_mul h0 h1
  linarith

/-- `e^s − 1 − s ≤ (3/2) s²` on `[0,1]` -/
theorem exp_sub_one_sub_le_sq {s : ℝ} (h0 : 0 ≤ s) (h1 : s ≤ 1) : Real.exp s - 1 - s ≤ 3 / 2 * s ^ 2 := by
  have h := Yaqs.TrotterLimit.two_mul_exp_sub_le h0
  have he : Real.exp s ≤ 3 := (Real.exp_le_exp.mpr h1).trans exp_one_le_three
  have : s ^ 2 * Real.exp s ≤ s ^ 2 * 3 := mul_le_mul_of_nonneg_left he (sq_nonneg s)
  linarith

/-! ### second-order Taylor remainder in a real Banach algebra -/

/-- `‖exp X − 1 − X‖ ≤ e^{‖X‖} − 1 − ‖X‖` in a real Banach algebra (power series with the first two terms split off) -/
theorem norm_exp_sub_one_sub_le_real {𝔸 : Type*} [NormedRing 𝔸] [NormedAlgebra ℝ 𝔸] [CompleteSpace 𝔸] (X : 𝔸) :
    ‖exp X - 1 - X‖ ≤ Real.exp ‖X‖ - 1 - ‖X‖ := by
  have hs : HasSum (fun n : ℕ => ((n ! : ℝ)⁻¹) • X ^ n) (exp X) := exp_series_hasSum_exp' (𝕂 := ℝ) X
  have hr : HasSum (fun n : ℕ => ((n ! : ℝ)⁻¹) • ‖X‖ ^ n) (exp ‖X‖) := exp_series_hasSum_exp' (𝕂 := ℝ) ‖X‖
  have hs2 := (hasSum_nat_add_iff' 2).mpr hs
  have hr2 := (hasSum_nat_add_iff' 2).mpr hr
  have e1 : ∑ i ∈ Finset.range 2, ((i ! : ℝ)⁻¹) • X ^ i = 1 + X := by
    simp [Finset.sum_range_succ]
  have e2 : ∑ i ∈ Finset.range 2, ((i ! : ℝ)⁻¹) • ‖X‖ ^ i = 1 + ‖X‖ := by
    simp [Finset.sum_range_succ]
  rw [e1] at hs2
  rw [e2, ← Real.exp_eq_exp_ℝ] at hr2
  have hb : ∀ i : ℕ, ‖(((i + 2) ! : ℝ)⁻¹) • X ^ (i + 2)‖ ≤ (((i + 2) ! : ℝ)⁻¹) • ‖X‖ ^ (i + 2) := by
    intro i
    rw [norm_smul, smul_eq_mul, Real.norm_of_nonneg (by positivity)]
    exact mul_le_mul_of_nonneg_left (norm_pow_le' X (by omega)) (by positivity)
  have h := hs2.norm_le_of_bounded hr2 hb
  rw [sub_add_eq_sub_sub, sub_add_eq_sub_sub] at h
  exact h

/-! ### the sandwich `e^X ρ e^Y` in a complex Banach algebra -/

section sandwich
variable {𝔸 : Type*} [NormedRing 𝔸] [NormedAlgebra ℂ 𝔸] [CompleteSpace 𝔸]

/-- for `‖X‖, ‖Y‖ ≤ s ≤ 1`: `‖e^X ρ e^Y − ρ‖ ≤ 8 s ‖ρ‖` and `‖e^X ρ e^Y − ρ − (Xρ + ρY)‖ ≤ 7 s² ‖ρ‖` -/
theorem sandwich_bounds (X Y ρ : 𝔸) (s : ℝ) (hs0 : 0 ≤ s) (hs1 : s ≤ 1) (hX : ‖X‖ ≤ s) (hY : ‖Y‖ ≤ s) :
    ‖exp X * ρ * exp Y - ρ‖ ≤ 8 * s * ‖ρ‖ ∧ ‖exp X * ρ * exp Y - ρ - (X * ρ + ρ * Y)‖ ≤ 7 * s ^ 2 * ‖ρ‖ := by
  have ha : ‖exp X - 1‖ ≤ 2 * s :=
    (Yaqs.TrotterLimit.norm_exp_sub_one_le X).trans
      ((sub_le_sub_right (Real.exp_le_exp.mpr hX) 1).trans (exp_sub_one_le_two_mul hs0 hs1))
  have hb : ‖exp Y - 1‖ ≤ 2 * s :=
    (Yaqs.TrotterLimit.norm_exp_sub_one_le Y).trans
      ((sub_le_sub_right (Real.exp_le_exp.mpr hY) 1).trans (exp_sub_one_le_two_mul hs0 hs1))
  have hE : ‖exp X - 1 - X‖ ≤ 3 / 2 * s ^ 2 :=
    (Yaqs.TrotterLimit.norm_exp_sub_one_sub_le X).trans
      ((Yaqs.TrotterLimit.exp_sub_one_sub_mono (norm_nonneg X) hX).trans (exp_sub_one_sub_le_sq hs0 hs1))
  have hF : ‖exp Y - 1 - Y‖ ≤ 3 / 2 * s ^ 2 :=
    (Yaqs.TrotterLimit.norm_exp_sub_one_sub_le Y).trans
      ((Yaqs.TrotterLimit.exp_sub_one_sub_mono (norm_nonneg Y) hY).trans (exp_sub_one_sub_le_sq hs0 hs1))
  generalize exp X = P at *
  generalize exp Y = Q at *
  have hr := norm_nonneg ρ
  have h1 : ‖(P - 1) * ρ‖ ≤ 2 * s * ‖ρ‖ := (norm_mul_le _ _).trans (mul_le_mul_of_nonneg_right ha hr)
  have h2 : ‖ρ * (Q - 1)‖ ≤ 2 * s * ‖ρ‖ := by
    calc ‖ρ * (Q - 1)‖ ≤ ‖ρ‖ * ‖Q - 1‖ := norm_mul_le _ _
      _ ≤ ‖ρ‖ * (2 * s) := mul_le_mul_of_nonneg_left hb hr
      _ = 2 * s * ‖ρ‖ := by ring
  have h3 : ‖(P - 1) * ρ * (Q - 1)‖ ≤ 4 * s ^ 2 * ‖ρ‖ := by
    calc ‖(P - 1) * ρ * (Q - 1)‖ ≤ ‖(P - 1) * ρ‖ * ‖Q - 1‖ := norm_mul_le _ _
      _ ≤ (2 * s * ‖ρ‖) * (2 * s) := mul_le_mul h1 hb (norm_nonneg _) (by positivity)
      _ = 4 * s ^ 2 * ‖ρ‖ := by ring
  have h4 : ‖(P - 1 - X) * ρ‖ ≤ 3 / 2 * s ^ 2 * ‖ρ‖ := (norm_mul_le _ _).trans (mul_le_mul_of_nonneg_right hE hr)
  have h5 : ‖ρ * (Q - 1 - Y)‖ ≤ 3 / 2 * s ^ 2 * ‖ρ‖ := by
    calc ‖ρ * (Q - 1 - Y)‖ ≤ ‖ρ‖ * ‖Q - 1 - Y‖ := norm_mul_le _ _
      _ ≤ ‖ρ‖ * (3 / 2 * s ^ 2) := mul_le_mul_of_nonneg_left hF hr
      _ = 3 / 2 * s ^ 2 * ‖ρ‖ := by ring
  have hss : s ^ 2 * ‖ρ‖ ≤ s * ‖ρ‖ := by
    apply mul_le_mul_of_nonneg_right _ hr
    nlinarith
  constructor
  · have e : P * ρ * Q - ρ = (P - 1) * ρ + ρ * (Q - 1) + (P - 1) * ρ * (Q - 1) := by noncomm_ring
    rw [e]
    calc ‖(P - 1) * ρ + ρ * (Q - 1) + (P - 1) * ρ * (Q - 1)‖
        ≤ ‖(P - 1) * ρ‖ + ‖ρ * (Q - 1)‖ + ‖(P - 1) * ρ * (Q - 1)‖ := norm_add₃_le
      _ ≤ 8 * s * ‖ρ‖ := by linarith
  · have e : P * ρ * Q - ρ - (X * ρ + ρ * Y) = (P - 1 - X) * ρ + ρ * (Q - 1 - Y) + (P - 1) * ρ * (Q - 1) := by
      noncomm_ring
    rw [e]
    calc ‖(P - 1 - X) * ρ + ρ * (Q - 1 - Y) + (P - 1) * ρ * (Q - 1)‖
        ≤ ‖(P - 1 - X) * ρ‖ + ‖ρ * (Q - 1 - Y)‖ + ‖(P - 1) * ρ * (Q - 1)‖ := norm_add₃_le
      _ ≤ 7 * s ^ 2 * ‖ρ‖ := by linarith

/-- the same for any two factors `P`, `Q` that are `1 + X + O(s²)`, `1 + Y + O(s²)` (no exponential needed) -/
theorem sandwich_bounds_gen {𝔹 : Type*} [NormedRing 𝔹] (P Q X Y ρ : 𝔹) (s : ℝ) (hs0 : 0 ≤ s) (hs1 : s ≤ 1)
    (ha : ‖P - 1‖ ≤ 2 * s) (hb : ‖Q - 1‖ ≤ 2 * s) (hE : ‖P - 1 - X‖ ≤ 3 / 2 * s ^ 2) (hF : ‖Q - 1 - Y‖ ≤ 3 / 2 * s ^ 2) :
    ‖P * ρ * Q - ρ‖ ≤ 8 * s * ‖ρ‖ ∧ ‖P * ρ * Q - ρ - (X * ρ + ρ * Y)‖ ≤ 7 * s ^ 2 * ‖ρ‖ := by
  have hr := norm_nonneg ρ
  have h1 : ‖(P - 1) * ρ‖ ≤ 2 * s * ‖ρ‖ := (norm_mul_le _ _).trans (mul_le_mul_of_nonneg_right ha hr)
  have h2 : ‖ρ * (Q - 1)‖ ≤ 2 * s * ‖ρ‖ := by
    calc ‖ρ * (Q - 1)‖ ≤ ‖ρ‖ * ‖Q - 1‖ := norm_mul_le _ _
      _ ≤ ‖ρ‖ * (2 * s) := mul_le_mul_of_nonneg_left hb hr
      _ = 2 * s * ‖ρ‖ := by ring
  have h3 : ‖(P - 1) * ρ * (Q - 1)‖ ≤ 4 * s ^ 2 * ‖ρ‖ := by
    calc ‖(P - 1) * ρ * (Q - 1)‖ ≤ ‖(P - 1) * ρ‖ * ‖Q - 1‖ := norm_mul_le _ _
      _ ≤ (2 * s * ‖ρ‖) * (2 * s) := mul_le_mul h1 hb (norm_nonneg _) (by positivity)
      _ = 4 * s ^ 2 * ‖ρ‖ := by ring
  have h4 : ‖(P - 1 - X) * ρ‖ ≤ 3 / 2 * s ^ 2 * ‖ρ‖ := (norm_mul_le _ _).trans (mul_le_mul_of_nonneg_right hE hr)
  have h5 : ‖ρ * (Q - 1 - Y)‖ ≤ 3 / 2 * s ^ 2 * ‖ρ‖ := by
    calc ‖ρ * (Q - 1 - Y)‖ ≤ ‖ρ‖ * ‖Q - 1 - Y‖ := norm_mul_le _ _
      _ ≤ ‖ρ‖ * (3 / 2 * s ^ 2) := mul_le_mul_of_nonneg_left hF hr
      _ = 3 / 2 * s ^ 2 * ‖ρ‖ := by ring
  have hss : s ^ 2 * ‖ρ‖ ≤ s * ‖ρ‖ := by
    apply mul_le_mul_of_nonneg_right _ hr
    nlinarith
  constructor
  · have e : P * ρ * Q - ρ = (P - 1) * ρ + ρ * (Q - 1) + (P - 1) * ρ * (Q - 1) := by noncomm_ring
    rw [e]
    calc ‖(P - 1) * ρ + ρ * (Q - 1) + (P - 1) * ρ * (Q - 1)‖
        ≤ ‖(P - 1) * ρ‖ + ‖ρ * (Q - 1)‖ + ‖(P - 1) * ρ * (Q - 1)‖ := norm_add₃_le
      _ ≤ 8 * s * ‖ρ‖ := by linarith
  · have e : P * ρ * Q - ρ - (X * ρ + ρ * Y) = (P - 1 - X) * ρ + ρ * (Q - 1 - Y) + (P - 1) * ρ * (Q - 1) := by
      noncomm_ring
    rw [e]
    calc ‖(P - 1 - X) * ρ + ρ * (Q - 1 - Y) + (P - 1) * ρ * (Q - 1)‖
        ≤ ‖(P - 1 - X) * ρ‖ + ‖ρ * (Q - 1 - Y)‖ + ‖(P - 1) * ρ * (Q - 1)‖ := norm_add₃_le
      _ ≤ 7 * s ^ 2 * ‖ρ‖ := by linarith

end sandwich

/-! ### `ℓ∞`-operator-norm facts on `Matrix n n ℂ` -/

section matrix
open Matrix Yaqs.MasterEq
open scoped Matrix.Norms.Operator NNReal

variable {n : Type} [Fintype n] [DecidableEq n]

noncomputable section

theorem norm_entry_le (M : Matrix n n ℂ) (i j : n) : ‖M i j‖ ≤ ‖M‖ := by
  have h1 : ‖M i j‖₊ ≤ ∑ j, ‖M i j‖₊ :=
    Finset.single_le_sum (f := fun j => ‖M i j‖₊) (fun _ _ => by positivity) (Finset.mem_univ j)
  have h2 : (∑ j, ‖M i j‖₊) ≤ (Finset.univ : Finset n).sup fun i => ∑ j, ‖M i j‖₊ :=
    Finset.le_sup (f := fun i => ∑ j, ‖M i j‖₊) (Finset.mem_univ i)
  have h3 := h1.trans h2
  rw [← linfty_opNNNorm_def] at h3
  exact_mod_cast h3

/-- `|tr M| ≤ N·‖M‖` -/
theorem norm_trace_le (M : Matrix n n ℂ) : ‖trace M‖ ≤ Fintype.card n * ‖M‖ := by
  rw [Matrix.trace]
  calc ‖∑ i, diag M i‖ ≤ ∑ i, ‖diag M i‖ := norm_sum_le _ _
    _ ≤ ∑ _i : n, ‖M‖ := Finset.sum_le_sum (fun i _ => norm_entry_le M i i)
    _ = Fintype.card n * ‖M‖ := by simp

theorem norm_le_of_rows (M : Matrix n n ℂ) (r : ℝ) (hr : 0 ≤ r) (h : ∀ i, ∑ j, ‖M i j‖ ≤ r) : ‖M‖ ≤ r := by
  have h' : ‖M‖₊ ≤ (⟨r, hr⟩ : ℝ≥0) := by
    rw [linfty_opNNNorm_def]
    apply Finset.sup_le
    intro i _
    refine NNReal.coe_le_coe.mp ?_
    push_cast
    exact h i
  exact NNReal.coe_le_coe.mpr h'

omit [DecidableEq n] in
theorem normSqVec_nonneg (v : n → ℂ) : 0 ≤ normSqVec v :=
  Finset.sum_nonneg (fun _ _ => Complex.normSq_nonneg _)

/-- `‖χχ†‖ ≤ N·‖χ‖₂²` -/
theorem norm_vecMulVec_self_le (v : n → ℂ) : ‖vecMulVec v (star v)‖ ≤ Fintype.card n * normSqVec v := by
  have hS := normSqVec_nonneg v
  have hk : ∀ k, ‖v k‖ ^ 2 ≤ normSqVec v := by
    intro k
    rw [← Complex.normSq_eq_norm_sq]
    exact Finset.single_le_sum (f := fun i => Complex.normSq (v i)) (fun i _ => Complex.normSq_nonneg _)
      (Finset.mem_univ k)
  apply norm_le_of_rows _ _ (mul_nonneg (Nat.cast_nonneg _) hS)
  intro i
  calc ∑ j, ‖vecMulVec v (star v) i j‖ ≤ ∑ _j : n, normSqVec v := by
        apply Finset.sum_le_sum
        intro j _
        rw [vecMulVec_apply, Pi.star_apply, norm_mul, norm_star]
        nlinarith [hk i, hk j, norm_nonneg (v i), norm_nonneg (v j), sq_nonneg (‖v i‖ - ‖v j‖)]
    _ = Fintype.card n * normSqVec v := by simp

/-- `Σ_k γ_k ‖L_kχ‖²` as a real number -/
def wSum (Ls : List (Proc (Matrix n n ℂ))) (χ : n → ℂ) : ℝ :=
  (Ls.map fun p => ((p.gamma : ℚ) : ℝ) * normSqVec (p.op *ᵥ χ)).sum

omit [DecidableEq n] in
theorem cSum_eq (Ls : List (Proc (Matrix n n ℂ))) (χ : n → ℂ) :
    (Ls.map fun p => rateC p.gamma * (star (p.op *ᵥ χ) ⬝ᵥ (p.op *ᵥ χ))).sum = ((wSum Ls χ : ℝ) : ℂ) := by
  unfold wSum
  induction Ls with
  | nil => simp
  | cons p ps ih =>
    simp only [List.map_cons, List.sum_cons]
    rw [ih, star_dot_self]
    simp [rateC]

omit [DecidableEq n] in
theorem wSum_nonneg (Ls : List (Proc (Matrix n n ℂ))) (hγ : ∀ p ∈ Ls, 0 ≤ p.gamma) (χ : n → ℂ) : 0 ≤ wSum Ls χ := by
  unfold wSum
  apply List.sum_nonneg
  intro x hx
  obtain ⟨p, hp, rfl⟩ := List.mem_map.mp hx
  exact mul_nonneg (by exact_mod_cast hγ p hp) (normSqVec_nonneg _)

theorem norm_jumpList_le (Ls : List (Proc (Matrix n n ℂ))) (hγ : ∀ p ∈ Ls, 0 ≤ p.gamma) (χ : n → ℂ) :
    ‖(Ls.map fun p => rateC p.gamma • vecMulVec (p.op *ᵥ χ) (star (p.op *ᵥ χ))).sum‖
      ≤ Fintype.card n * wSum Ls χ := by
  unfold wSum
  induction Ls with
  | nil => simp
  | cons p ps ih =>
    simp only [List.map_cons, List.sum_cons]
    have hp : (0 : ℝ) ≤ ((p.gamma : ℚ) : ℝ) := by exact_mod_cast hγ p List.mem_cons_self
    have e : rateC p.gamma = (((p.gamma : ℚ) : ℝ) : ℂ) := by simp [rateC]
    have h1 : ‖rateC p.gamma • vecMulVec (p.op *ᵥ χ) (star (p.op *ᵥ χ))‖
        ≤ ((p.gamma : ℚ) : ℝ) * (Fintype.card n * normSqVec (p.op *ᵥ χ)) := by
      rw [norm_smul, e, Complex.norm_real, Real.norm_of_nonneg hp]
      exact mul_le_mul_of_nonneg_left (norm_vecMulVec_self_le _) hp
    have h2 := ih (fun q hq => hγ q (List.mem_cons_of_mem _ hq))
    calc _ ≤ _ + _ := norm_add_le _ _
      _ ≤ ((p.gamma : ℚ) : ℝ) * (Fintype.card n * normSqVec (p.op *ᵥ χ)) + _ := add_le_add h1 h2
      _ = _ := by ring

/-- **boundedness of the normalised jump state**: `‖Σ_k γ_k (L_kχ)(L_kχ)†‖ ≤ N·|tr(K χχ†)|` when all `γ_k ≥ 0` -/
theorem norm_jumpSum_pure_le (Ls : List (Proc (Matrix n n ℂ))) (hγ : ∀ p ∈ Ls, 0 ≤ p.gamma) (χ : n → ℂ) :
    ‖jumpSum Ls (vecMulVec χ (star χ))‖ ≤ Fintype.card n * ‖trace (genK Ls * vecMulVec χ (star χ))‖ := by
  rw [jumpSum_pure, traceK_pure, cSum_eq, Complex.norm_real, Real.norm_of_nonneg (wSum_nonneg Ls hγ χ)]
  exact norm_jumpList_le Ls hγ χ

/-- `Σ_k |γ_k|·‖L_k‖·‖L_k†‖`, a bound of the jump superoperator `X ↦ Σ_k γ_k L_k X L_k†` -/
def jumpBound (Ls : List (Proc (Matrix n n ℂ))) : ℝ :=
  (Ls.map fun p => ‖rateC p.gamma‖ * (‖p.op‖ * ‖p.opᴴ‖)).sum

theorem jumpBound_nonneg (Ls : List (Proc (Matrix n n ℂ))) : 0 ≤ jumpBound Ls := by
  unfold jumpBound
  apply List.sum_nonneg
  intro x hx
  obtain ⟨p, _, rfl⟩ := List.mem_map.mp hx
  positivity

theorem norm_jumpSum_le (Ls : List (Proc (Matrix n n ℂ))) (X : Matrix n n ℂ) :
    ‖jumpSum Ls X‖ ≤ jumpBound Ls * ‖X‖ := by
  unfold jumpSum jumpBound
  induction Ls with
  | nil => simp
  | cons p ps ih =>
    simp only [List.map_cons, List.sum_cons]
    have h1 : ‖rateC p.gamma • (p.op * X * p.opᴴ)‖ ≤ ‖rateC p.gamma‖ * (‖p.op‖ * ‖p.opᴴ‖) * ‖X‖ := by
      rw [norm_smul]
      calc ‖rateC p.gamma‖ * ‖p.op * X * p.opᴴ‖ ≤ ‖rateC p.gamma‖ * (‖p.op‖ * ‖X‖ * ‖p.opᴴ‖) := by
            apply mul_le_mul_of_nonneg_left _ (norm_nonneg _)
            exact (norm_mul_le _ _).trans (mul_le_mul_of_nonneg_right (norm_mul_le _ _) (norm_nonneg _))
        _ = _ := by ring
    calc _ ≤ _ + _ := norm_add_le _ _
      _ ≤ ‖rateC p.gamma‖ * (‖p.op‖ * ‖p.opᴴ‖) * ‖X‖ + _ := add_le_add h1 ih
      _ = _ := by ring

omit [DecidableEq n] in
theorem jumpSum_sub (Ls : List (Proc (Matrix n n ℂ))) (a b : Matrix n n ℂ) :
    jumpSum Ls (a - b) = jumpSum Ls a - jumpSum Ls b :=
  (jumpSumLin Ls).map_sub a b

/-! ### the quantitative expansion of the branch average -/

/-- `σ + ((1 − tr σ)/tr(Kσ))·J(σ)` against `ρ + t(D + J(ρ))` when `σ = ρ + tD + O(d₂)`, `σ = ρ + O(d₁)`, `tr ρ = 1`,
    `tr D = −tr(Kρ)`, and `J(σ)`, `J(ρ)` are bounded by `N` times their traces.  The vanishing-denominator case
    (`tr(Kσ) = 0`, where Lean's division returns `0`) is covered: then `J(σ) = 0` and `‖J(ρ)‖ ≤ N|tr(Kρ) − tr(Kσ)|`. -/
theorem avg_expand (Ls : List (Proc (Matrix n n ℂ))) (ρ σ D : Matrix n n ℂ) (t d1 d2 : ℝ) (ht : 0 ≤ t)
    (hρ : trace ρ = 1) (hD : trace D = -trace (genK Ls * ρ))
    (hJσ : ‖jumpSum Ls σ‖ ≤ Fintype.card n * ‖trace (genK Ls * σ)‖)
    (hJρ : ‖jumpSum Ls ρ‖ ≤ Fintype.card n * ‖trace (genK Ls * ρ)‖)
    (h1 : ‖σ - ρ‖ ≤ d1) (h2 : ‖σ - ρ - (t : ℂ) • D‖ ≤ d2) :
    ‖σ + ((1 - trace σ) / trace (genK Ls * σ)) • jumpSum Ls σ - (ρ + (t : ℂ) • (D + jumpSum Ls ρ))‖
      ≤ d2 + (Fintype.card n * (Fintype.card n * d2 + t * (Fintype.card n * (‖genK Ls‖ * d1)))
          + t * (jumpBound Ls * d1)) := by
  generalize hN : (Fintype.card n : ℝ) = N at *
  have hN0 : 0 ≤ N := by rw [← hN]; exact Nat.cast_nonneg _
  have htn : ‖(t : ℂ)‖ = t := by rw [Complex.norm_real, Real.norm_of_nonneg ht]
  set ct := trace (genK Ls * σ) with hct
  set c0 := trace (genK Ls * ρ) with hc0
  have a1 : ‖1 - trace σ - (t : ℂ) * c0‖ ≤ N * d2 := by
    have e : 1 - trace σ - (t : ℂ) * c0 = -trace (σ - ρ - (t : ℂ) • D) := by
      rw [trace_sub, trace_sub, trace_smul, hD, hρ, smul_eq_mul]; ring
    rw [e, norm_neg]
    have := norm_trace_le (σ - ρ - (t : ℂ) • D)
    rw [hN] at this
    exact this.trans (mul_le_mul_of_nonneg_left h2 hN0)
  have a2 : ‖c0 - ct‖ ≤ N * (‖genK Ls‖ * d1) := by
    have e : c0 - ct = trace (genK Ls * (ρ - σ)) := by rw [Matrix.mul_sub, trace_sub]
    rw [e]
    have := norm_trace_le (genK Ls * (ρ - σ))
    rw [hN] at this
    refine this.trans (mul_le_mul_of_nonneg_left ?_ hN0)
    calc ‖genK Ls * (ρ - σ)‖ ≤ ‖genK Ls‖ * ‖ρ - σ‖ := norm_mul_le _ _
      _ ≤ ‖genK Ls‖ * d1 := mul_le_mul_of_nonneg_left (by rwa [norm_sub_rev]) (norm_nonneg _)
  have a3 : ‖1 - trace σ - (t : ℂ) * ct‖ ≤ N * d2 + t * (N * (‖genK Ls‖ * d1)) := by
    have e : 1 - trace σ - (t : ℂ) * ct = (1 - trace σ - (t : ℂ) * c0) + (t : ℂ) * (c0 - ct) := by ring
    rw [e]
    refine (norm_add_le _ _).trans (add_le_add a1 ?_)
    rw [norm_mul, htn]
    exact mul_le_mul_of_nonneg_left a2 ht
  have a4 : ‖jumpSum Ls σ - jumpSum Ls ρ‖ ≤ jumpBound Ls * d1 := by
    rw [← jumpSum_sub]
    exact (norm_jumpSum_le Ls _).trans (mul_le_mul_of_nonneg_left h1 (jumpBound_nonneg Ls))
  have hd2 : 0 ≤ d2 := (norm_nonneg _).trans h2
  have ha4 : 0 ≤ jumpBound Ls * d1 := (norm_nonneg _).trans a4
  have ha2 : 0 ≤ N * (‖genK Ls‖ * d1) := (norm_nonneg _).trans a2
  have key : ‖((1 - trace σ) / ct) • jumpSum Ls σ - (t : ℂ) • jumpSum Ls ρ‖
      ≤ N * (N * d2 + t * (N * (‖genK Ls‖ * d1))) + t * (jumpBound Ls * d1) := by
    by_cases hc : ct = 0
    · have hz : jumpSum Ls σ = 0 := by
        rw [hc, norm_zero, mul_zero] at hJσ
        exact norm_le_zero_iff.mp hJσ
      rw [hz, smul_zero, zero_sub, norm_neg, norm_smul, htn]
      have h0 : ‖c0‖ ≤ N * (‖genK Ls‖ * d1) := by
        have := a2
        rwa [hc, sub_zero] at this
      have h3 : ‖jumpSum Ls ρ‖ ≤ N * (N * (‖genK Ls‖ * d1)) := hJρ.trans (mul_le_mul_of_nonneg_left h0 hN0)
      have h4 : t * ‖jumpSum Ls ρ‖ ≤ t * (N * (N * (‖genK Ls‖ * d1))) := mul_le_mul_of_nonneg_left h3 ht
      have h5 : 0 ≤ N * (N * d2) := by positivity
      have h6 : 0 ≤ t * (jumpBound Ls * d1) := mul_nonneg ht ha4
      calc t * ‖jumpSum Ls ρ‖ ≤ t * (N * (N * (‖genK Ls‖ * d1))) := h4
        _ ≤ N * (N * d2 + t * (N * (‖genK Ls‖ * d1))) + t * (jumpBound Ls * d1) := by nlinarith
    · have hr : (1 - trace σ) / ct = (t : ℂ) + (1 - trace σ - (t : ℂ) * ct) / ct := by
        field_simp
        ring
      have e : ((1 - trace σ) / ct) • jumpSum Ls σ - (t : ℂ) • jumpSum Ls ρ
          = ((1 - trace σ - (t : ℂ) * ct) / ct) • jumpSum Ls σ + (t : ℂ) • (jumpSum Ls σ - jumpSum Ls ρ) := by
        rw [hr, add_smul, smul_sub]; abel
      rw [e]
      have hcp : 0 < ‖ct‖ := norm_pos_iff.mpr hc
      have b1 : ‖((1 - trace σ - (t : ℂ) * ct) / ct) • jumpSum Ls σ‖ ≤ N * ‖1 - trace σ - (t : ℂ) * ct‖ := by
        rw [norm_smul, norm_div]
        calc ‖1 - trace σ - (t : ℂ) * ct‖ / ‖ct‖ * ‖jumpSum Ls σ‖
            ≤ ‖1 - trace σ - (t : ℂ) * ct‖ / ‖ct‖ * (N * ‖ct‖) :=
              mul_le_mul_of_nonneg_left hJσ (div_nonneg (norm_nonneg _) hcp.le)
          _ = N * ‖1 - trace σ - (t : ℂ) * ct‖ := by field_simp
      have b2 : ‖(t : ℂ) • (jumpSum Ls σ - jumpSum Ls ρ)‖ ≤ t * (jumpBound Ls * d1) := by
        rw [norm_smul, htn]
        exact mul_le_mul_of_nonneg_left a4 ht
      exact (norm_add_le _ _).trans (add_le_add (b1.trans (mul_le_mul_of_nonneg_left a3 hN0)) b2)
  have e : σ + ((1 - trace σ) / ct) • jumpSum Ls σ - (ρ + (t : ℂ) • (D + jumpSum Ls ρ))
      = (σ - ρ - (t : ℂ) • D) + (((1 - trace σ) / ct) • jumpSum Ls σ - (t : ℂ) • jumpSum Ls ρ) := by
    rw [smul_add]; abel
  rw [e]
  exact (norm_add_le _ _).trans (add_le_add h2 key)

/-! ### the flow and the exponential no-jump family -/

set_option backward.isDefEq.respectTransparency false in
/-- second-order Taylor remainder of the exact flow: `‖exp(t𝓛)ρ − ρ − t·𝓛ρ‖ ≤ (e^{t‖𝓛‖} − 1 − t‖𝓛‖)·‖ρ‖` for `t ≥ 0` -/
theorem lindFlow_taylor2_exp (H : Matrix n n ℂ) (Ls : List (Proc (Matrix n n ℂ))) (t : ℝ) (ht : 0 ≤ t) (ρ : Matrix n n ℂ) :
    ‖lindFlow H Ls t ρ - ρ - t • lind H Ls ρ‖
      ≤ (Real.exp (t * ‖lindCLM H Ls‖) - 1 - t * ‖lindCLM H Ls‖) * ‖ρ‖ := by
  have h := norm_exp_sub_one_sub_le_real (t • lindCLM H Ls)
  rw [norm_smul, Real.norm_of_nonneg ht] at h
  have e : lindFlow H Ls t ρ - ρ - t • lind H Ls ρ
      = (exp (t • lindCLM H Ls) - 1 - t • lindCLM H Ls) ρ := by
    unfold lindFlow
    rfl
  rw [e]
  exact (ContinuousLinearMap.le_opNorm _ _).trans (mul_le_mul_of_nonneg_right h (norm_nonneg _))

set_option backward.isDefEq.respectTransparency false in
/-- `‖exp(t𝓛)ρ − ρ − t·𝓛ρ‖ ≤ (3/2)(t‖𝓛‖)²·‖ρ‖` for `0 ≤ t`, `t‖𝓛‖ ≤ 1` -/
theorem lindFlow_taylor2 (H : Matrix n n ℂ) (Ls : List (Proc (Matrix n n ℂ))) (t : ℝ) (ht : 0 ≤ t)
    (hs : t * ‖lindCLM H Ls‖ ≤ 1) (ρ : Matrix n n ℂ) :
    ‖lindFlow H Ls t ρ - ρ - t • lind H Ls ρ‖ ≤ 3 / 2 * (t * ‖lindCLM H Ls‖) ^ 2 * ‖ρ‖ :=
  (lindFlow_taylor2_exp H Ls t ht ρ).trans
    (mul_le_mul_of_nonneg_right (exp_sub_one_sub_le_sq (mul_nonneg ht (norm_nonneg _)) hs) (norm_nonneg _))

/-- the exponential no-jump family `A(t) = exp(t·G)`, `G = −iH − ½K` -/
def expFamily (H : Matrix n n ℂ) (Ls : List (Proc (Matrix n n ℂ))) (t : ℝ) : Matrix n n ℂ := exp (t • genG H Ls)

/-- it is a no-jump family in xa01's sense (value `1`, derivative `G` at `0`) -/
theorem noJump_expFamily (H : Matrix n n ℂ) (Ls : List (Proc (Matrix n n ℂ))) : IsNoJumpFamily H Ls (expFamily H Ls) :=
  ⟨by simp [expFamily], hasDerivAt_exp_smul_zero _⟩

/-- size of the generator: `‖G‖ + ‖G†‖` (the `ℓ∞` operator norm is not `†`-invariant) -/
def gB (H : Matrix n n ℂ) (Ls : List (Proc (Matrix n n ℂ))) : ℝ := ‖genG H Ls‖ + ‖(genG H Ls)ᴴ‖

set_option backward.isDefEq.respectTransparency false in
/-- **the uniform local constant**:
    `C = N·(7g²(1+N²) + 8N²‖K‖g + 8·jB·g + (3/2)‖𝓛‖²)`, `N = card n`, `g = ‖G‖+‖G†‖`, `jB = Σ|γ_k|‖L_k‖‖L_k†‖` -/
def localC (H : Matrix n n ℂ) (Ls : List (Proc (Matrix n n ℂ))) : ℝ :=
  Fintype.card n * (7 * gB H Ls ^ 2 * (1 + (Fintype.card n : ℝ) ^ 2) + 8 * (Fintype.card n : ℝ) ^ 2 * ‖genK Ls‖ * gB H Ls
    + 8 * jumpBound Ls * gB H Ls + 3 / 2 * ‖lindCLM H Ls‖ ^ 2)

theorem final_arith (r t g k j l N : ℝ) (hrN : r ≤ N) (hg : 0 ≤ g) (hk : 0 ≤ k) (hj : 0 ≤ j) (hN : 0 ≤ N) :
    7 * (t * g) ^ 2 * r + (N * (N * (7 * (t * g) ^ 2 * r) + t * (N * (k * (8 * (t * g) * r)))) + t * (j * (8 * (t * g) * r)))
      + 3 / 2 * (t * l) ^ 2 * r
      ≤ N * (7 * g ^ 2 * (1 + N ^ 2) + 8 * N ^ 2 * k * g + 8 * j * g + 3 / 2 * l ^ 2) * t ^ 2 := by
  have hQ : 0 ≤ t ^ 2 * (7 * g ^ 2 * (1 + N ^ 2) + 8 * N ^ 2 * k * g + 8 * j * g + 3 / 2 * l ^ 2) := by positivity
  calc _ = r * (t ^ 2 * (7 * g ^ 2 * (1 + N ^ 2) + 8 * N ^ 2 * k * g + 8 * j * g + 3 / 2 * l ^ 2)) := by ring
    _ ≤ N * (t ^ 2 * (7 * g ^ 2 * (1 + N ^ 2) + 8 * N ^ 2 * k * g + 8 * j * g + 3 / 2 * l ^ 2)) :=
        mul_le_mul_of_nonneg_right hrN hQ
    _ = _ := by ring

/-- the constant of the average expansion: `C₁ = N·(7g²(1+N²) + 8N²‖K‖g + 8·jB·g)` -/
def localC1 (H : Matrix n n ℂ) (Ls : List (Proc (Matrix n n ℂ))) : ℝ :=
  Fintype.card n * (7 * gB H Ls ^ 2 * (1 + (Fintype.card n : ℝ) ^ 2) + 8 * (Fintype.card n : ℝ) ^ 2 * ‖genK Ls‖ * gB H Ls
    + 8 * jumpBound Ls * gB H Ls)

theorem arith1 (r t g k j N : ℝ) (hrN : r ≤ N) (hg : 0 ≤ g) (hk : 0 ≤ k) (hj : 0 ≤ j) (hN : 0 ≤ N) :
    7 * (t * g) ^ 2 * r + (N * (N * (7 * (t * g) ^ 2 * r) + t * (N * (k * (8 * (t * g) * r)))) + t * (j * (8 * (t * g) * r)))
      ≤ N * (7 * g ^ 2 * (1 + N ^ 2) + 8 * N ^ 2 * k * g + 8 * j * g) * t ^ 2 := by
  have h := final_arith r t g k j 0 N hrN hg hk hj hN
  simpa using h

set_option backward.isDefEq.respectTransparency false in
/-- **quantitative expansion of the one-step average, uniform in `ψ`**: for `H` Hermitian, all `γ_k ≥ 0`, every unit vector `ψ`,
    every `t ≥ 0` with `t(‖G‖+‖G†‖) ≤ 1`:  `pureAverage Ls (e^{tG}ψ) = ψψ† + t·𝓛(ψψ†) + R`, `‖R‖ ≤ localC1·t²`. -/
theorem average_expand_uniform (H : Matrix n n ℂ) (hH : Hᴴ = H) (Ls : List (Proc (Matrix n n ℂ)))
    (hγ : ∀ p ∈ Ls, 0 ≤ p.gamma) (ψ : n → ℂ) (hψ : star ψ ⬝ᵥ ψ = 1) (t : ℝ) (ht : 0 ≤ t)
    (hg : t * gB H Ls ≤ 1) :
    ‖pureAverage Ls (expFamily H Ls t *ᵥ ψ) - (vecMulVec ψ (star ψ) + t • lind H Ls (vecMulVec ψ (star ψ)))‖
      ≤ localC1 H Ls * t ^ 2 := by
  set ρ := vecMulVec ψ (star ψ) with hρdef
  set G := genG H Ls with hGdef
  have hnψ : normSqVec ψ = 1 := by
    have := star_dot_self ψ
    rw [hψ] at this
    exact_mod_cast this.symm
  have hRρ : ‖ρ‖ ≤ Fintype.card n := by
    have := norm_vecMulVec_self_le ψ
    rwa [hnψ, mul_one] at this
  have htr : trace ρ = 1 := by rw [hρdef, trace_pure, hψ]
  -- the propagated state
  have hX : t • G = (t : ℂ) • G := (Complex.coe_smul t G).symm
  have hAH : (exp ((t : ℂ) • G))ᴴ = exp ((t : ℂ) • Gᴴ) := by
    rw [← Matrix.exp_conjTranspose, conjTranspose_smul]
    simp
  have hσ : sigma (expFamily H Ls) ρ t = exp ((t : ℂ) • G) * ρ * exp ((t : ℂ) • Gᴴ) := by
    unfold sigma expFamily
    rw [← hGdef, hX, hAH]
  have htn : ‖(t : ℂ)‖ = t := by rw [Complex.norm_real, Real.norm_of_nonneg ht]
  have hgG : ‖G‖ ≤ gB H Ls := by unfold gB; linarith [norm_nonneg (genG H Ls)ᴴ]
  have hgG' : ‖Gᴴ‖ ≤ gB H Ls := by unfold gB; linarith [norm_nonneg (genG H Ls)]
  have hgB0 : 0 ≤ gB H Ls := (norm_nonneg _).trans hgG
  have hXn : ‖(t : ℂ) • G‖ ≤ t * gB H Ls := by
    rw [norm_smul, htn]; exact mul_le_mul_of_nonneg_left hgG ht
  have hYn : ‖(t : ℂ) • Gᴴ‖ ≤ t * gB H Ls := by
    rw [norm_smul, htn]; exact mul_le_mul_of_nonneg_left hgG' ht
  obtain ⟨b1, b2⟩ := sandwich_bounds ((t : ℂ) • G) ((t : ℂ) • Gᴴ) ρ (t * gB H Ls) (mul_nonneg ht hgB0) hg hXn hYn
  have hDe : ((t : ℂ) • G) * ρ + ρ * ((t : ℂ) • Gᴴ) = (t : ℂ) • (G * ρ + ρ * Gᴴ) := by
    rw [Matrix.smul_mul, Matrix.mul_smul, smul_add]
  rw [hDe, ← hσ] at b2
  rw [← hσ] at b1
  have hDtr : trace (G * ρ + ρ * Gᴴ) = -trace (genK Ls * ρ) := by
    rw [hGdef, genG_sandwich H hH Ls ρ, trace_noJump_deriv]
  have hlind : lind H Ls ρ = (G * ρ + ρ * Gᴴ) + jumpSum Ls ρ := by
    rw [lind_eq, hGdef, genG_sandwich H hH Ls ρ]
  have hJσ : ‖jumpSum Ls (sigma (expFamily H Ls) ρ t)‖
      ≤ Fintype.card n * ‖trace (genK Ls * sigma (expFamily H Ls) ρ t)‖ := by
    rw [hρdef, sigma_pure]
    exact norm_jumpSum_pure_le Ls hγ _
  have hJρ : ‖jumpSum Ls ρ‖ ≤ Fintype.card n * ‖trace (genK Ls * ρ)‖ := norm_jumpSum_pure_le Ls hγ ψ
  have hav := avg_expand Ls ρ (sigma (expFamily H Ls) ρ t) (G * ρ + ρ * Gᴴ) t _ _ ht htr hDtr hJσ hJρ b1 b2
  have hpa : pureAverage Ls (expFamily H Ls t *ᵥ ψ)
      = sigma (expFamily H Ls) ρ t
        + ((1 - trace (sigma (expFamily H Ls) ρ t)) / trace (genK Ls * sigma (expFamily H Ls) ρ t))
          • jumpSum Ls (sigma (expFamily H Ls) ρ t) := by
    rw [← avgState_pure]
    rfl
  rw [hpa, hlind, ← Complex.coe_smul t]
  refine hav.trans ?_
  unfold localC1
  exact arith1 ‖ρ‖ t (gB H Ls) ‖genK Ls‖ (jumpBound Ls) (Fintype.card n) hRρ hgB0 (norm_nonneg _)
    (jumpBound_nonneg Ls) (Nat.cast_nonneg _)

set_option backward.isDefEq.respectTransparency false in
theorem localC_eq (H : Matrix n n ℂ) (Ls : List (Proc (Matrix n n ℂ))) :
    localC H Ls = localC1 H Ls + Fintype.card n * (3 / 2 * ‖lindCLM H Ls‖ ^ 2) := by
  unfold localC localC1; ring

set_option backward.isDefEq.respectTransparency false in
/-- **uniform local error**: for `H` Hermitian, all `γ_k ≥ 0`, every unit vector `ψ`, every `t ≥ 0` with `t(‖G‖+‖G†‖) ≤ 1` and
    `t‖𝓛‖ ≤ 1`: `‖pureAverage Ls (e^{tG}ψ) − exp(t𝓛)(ψψ†)‖ ≤ localC·t²`. -/
theorem local_error_uniform (H : Matrix n n ℂ) (hH : Hᴴ = H) (Ls : List (Proc (Matrix n n ℂ)))
    (hγ : ∀ p ∈ Ls, 0 ≤ p.gamma) (ψ : n → ℂ) (hψ : star ψ ⬝ᵥ ψ = 1) (t : ℝ) (ht : 0 ≤ t)
    (hg : t * gB H Ls ≤ 1) (hL : t * ‖lindCLM H Ls‖ ≤ 1) :
    ‖pureAverage Ls (expFamily H Ls t *ᵥ ψ) - lindFlow H Ls t (vecMulVec ψ (star ψ))‖ ≤ localC H Ls * t ^ 2 := by
  have hav := average_expand_uniform H hH Ls hγ ψ hψ t ht hg
  have hfl := lindFlow_taylor2 H Ls t ht hL (vecMulVec ψ (star ψ))
  have hnψ : normSqVec ψ = 1 := by
    have := star_dot_self ψ
    rw [hψ] at this
    exact_mod_cast this.symm
  have hRρ : ‖vecMulVec ψ (star ψ)‖ ≤ Fintype.card n := by
    have := norm_vecMulVec_self_le ψ
    rwa [hnψ, mul_one] at this
  generalize vecMulVec ψ (star ψ) = ρ at *
  generalize pureAverage Ls (expFamily H Ls t *ᵥ ψ) = P at *
  have e : P - lindFlow H Ls t ρ
      = (P - (ρ + t • lind H Ls ρ)) - (lindFlow H Ls t ρ - ρ - t • lind H Ls ρ) := by abel
  rw [e, localC_eq]
  refine (norm_sub_le _ _).trans ((add_le_add hav hfl).trans ?_)
  have : 3 / 2 * (t * ‖lindCLM H Ls‖) ^ 2 * ‖ρ‖ ≤ 3 / 2 * (t * ‖lindCLM H Ls‖) ^ 2 * Fintype.card n :=
    mul_le_mul_of_nonneg_left hRρ (by positivity)
  nlinarith [this]

/-! ### a closed formula in `‖H‖`, the strengths, `‖L_k‖`, `‖L_k†‖` and `card n` -/

theorem norm_genK_le (Ls : List (Proc (Matrix n n ℂ))) : ‖genK Ls‖ ≤ jumpBound Ls := by
  unfold genK gammaSum jumpBound
  induction Ls with
  | nil => simp
  | cons p ps ih =>
    simp only [List.map_cons, List.sum_cons]
    have h1 : ‖rateC p.gamma • (p.opᴴ * p.op)‖ ≤ ‖rateC p.gamma‖ * (‖p.op‖ * ‖p.opᴴ‖) := by
      rw [norm_smul, mul_comm ‖p.op‖]
      exact mul_le_mul_of_nonneg_left (norm_mul_le _ _) (norm_nonneg _)
    exact (norm_add_le _ _).trans (add_le_add h1 ih)

/-- `Λ = 2‖H‖ + 2 Σ_k |γ_k|‖L_k‖‖L_k†‖` bounds `‖G‖+‖G†‖`, `‖K‖`, the jump bound and `‖𝓛‖` -/
def lamB (H : Matrix n n ℂ) (Ls : List (Proc (Matrix n n ℂ))) : ℝ := 2 * ‖H‖ + 2 * jumpBound Ls

theorem gB_le (H : Matrix n n ℂ) (hH : Hᴴ = H) (Ls : List (Proc (Matrix n n ℂ))) : gB H Ls ≤ lamB H Ls := by
  have hK := norm_genK_le Ls
  have h1 : ‖genG H Ls‖ ≤ ‖H‖ + 1 / 2 * ‖genK Ls‖ := by
    unfold genG
    refine (norm_add_le _ _).trans (add_le_add ?_ ?_)
    · rw [norm_smul]; simp
    · rw [norm_smul]; simp
  have h2 : ‖(genG H Ls)ᴴ‖ ≤ ‖H‖ + 1 / 2 * ‖genK Ls‖ := by
    unfold genG
    rw [conjTranspose_add, conjTranspose_smul, conjTranspose_smul, hH, genK_hermitian]
    refine (norm_add_le _ _).trans (add_le_add ?_ ?_)
    · rw [norm_smul]; simp
    · rw [norm_smul]; simp
  unfold gB lamB
  linarith [jumpBound_nonneg Ls]

set_option backward.isDefEq.respectTransparency false in
theorem norm_lindCLM_le (H : Matrix n n ℂ) (Ls : List (Proc (Matrix n n ℂ))) : ‖lindCLM H Ls‖ ≤ lamB H Ls := by
  have hK := norm_genK_le Ls
  have hj := jumpBound_nonneg Ls
  apply ContinuousLinearMap.opNorm_le_bound _ (by unfold lamB; positivity)
  intro ρ
  rw [lindCLM_apply, lind_eq]
  have hr := norm_nonneg ρ
  have a1 : ‖(-Complex.I) • (H * ρ - ρ * H)‖ ≤ 2 * ‖H‖ * ‖ρ‖ := by
    rw [norm_smul, norm_neg, Complex.norm_I, one_mul]
    refine (norm_sub_le _ _).trans ?_
    have := norm_mul_le H ρ
    have := norm_mul_le ρ H
    nlinarith
  have a2 : ‖(1 / 2 : ℂ) • (genK Ls * ρ + ρ * genK Ls)‖ ≤ jumpBound Ls * ‖ρ‖ := by
    rw [norm_smul]
    have e : ‖(1 / 2 : ℂ)‖ = 1 / 2 := by simp
    rw [e]
    have h0 := norm_add_le (genK Ls * ρ) (ρ * genK Ls)
    have h1 := norm_mul_le (genK Ls) ρ
    have h2 := norm_mul_le ρ (genK Ls)
    have h3 : ‖genK Ls‖ * ‖ρ‖ ≤ jumpBound Ls * ‖ρ‖ := mul_le_mul_of_nonneg_right hK hr
    nlinarith
  have a3 := norm_jumpSum_le Ls ρ
  calc _ ≤ ‖(-Complex.I) • (H * ρ - ρ * H) - (1 / 2 : ℂ) • (genK Ls * ρ + ρ * genK Ls)‖ + ‖jumpSum Ls ρ‖ := norm_add_le _ _
    _ ≤ (‖(-Complex.I) • (H * ρ - ρ * H)‖ + ‖(1 / 2 : ℂ) • (genK Ls * ρ + ρ * genK Ls)‖) + ‖jumpSum Ls ρ‖ :=
        add_le_add (norm_sub_le _ _) le_rfl
    _ ≤ lamB H Ls * ‖ρ‖ := by unfold lamB; linarith

/-- the closed-form constant `N·(15N² + 17)·Λ²` -/
def explicitC (H : Matrix n n ℂ) (Ls : List (Proc (Matrix n n ℂ))) : ℝ :=
  Fintype.card n * (15 * (Fintype.card n : ℝ) ^ 2 + 17) * lamB H Ls ^ 2

theorem arith2 (g k j l N Λ : ℝ) (hg0 : 0 ≤ g) (hk0 : 0 ≤ k) (hj0 : 0 ≤ j) (hl0 : 0 ≤ l) (hN : 0 ≤ N)
    (hg : g ≤ Λ) (hk : k ≤ Λ) (hj : j ≤ Λ) (hl : l ≤ Λ) :
    N * (7 * g ^ 2 * (1 + N ^ 2) + 8 * N ^ 2 * k * g + 8 * j * g + 3 / 2 * l ^ 2) ≤ N * (15 * N ^ 2 + 17) * Λ ^ 2 := by
  have hΛ : 0 ≤ Λ := hg0.trans hg
  have h1 : g ^ 2 ≤ Λ ^ 2 := pow_le_pow_left₀ hg0 hg 2
  have h2 : l ^ 2 ≤ Λ ^ 2 := pow_le_pow_left₀ hl0 hl 2
  have h3 : k * g ≤ Λ ^ 2 := by rw [sq]; exact mul_le_mul hk hg hg0 hΛ
  have h4 : j * g ≤ Λ ^ 2 := by rw [sq]; exact mul_le_mul hj hg hg0 hΛ
  have hN2 : 0 ≤ N ^ 2 := sq_nonneg N
  have : 7 * g ^ 2 * (1 + N ^ 2) + 8 * N ^ 2 * k * g + 8 * j * g + 3 / 2 * l ^ 2 ≤ (15 * N ^ 2 + 17) * Λ ^ 2 := by
    have e1 : 7 * g ^ 2 * (1 + N ^ 2) ≤ 7 * Λ ^ 2 * (1 + N ^ 2) := by
      apply mul_le_mul_of_nonneg_right _ (by positivity); linarith
    have e2 : 8 * N ^ 2 * k * g ≤ 8 * N ^ 2 * Λ ^ 2 := by
      rw [mul_assoc]; exact mul_le_mul_of_nonneg_left h3 (by positivity)
    have : 0 ≤ Λ ^ 2 := sq_nonneg Λ
    nlinarith
  calc _ ≤ N * ((15 * N ^ 2 + 17) * Λ ^ 2) := mul_le_mul_of_nonneg_left this hN
    _ = _ := by ring

set_option backward.isDefEq.respectTransparency false in
theorem localC_le_explicitC (H : Matrix n n ℂ) (hH : Hᴴ = H) (Ls : List (Proc (Matrix n n ℂ))) :
    localC H Ls ≤ explicitC H Ls := by
  have hg := gB_le H hH Ls
  have hg0 : 0 ≤ gB H Ls := by unfold gB; positivity
  have hj0 := jumpBound_nonneg Ls
  have hH0 := norm_nonneg H
  unfold localC explicitC
  exact arith2 (gB H Ls) ‖genK Ls‖ (jumpBound Ls) ‖lindCLM H Ls‖ (Fintype.card n) (lamB H Ls) hg0 (norm_nonneg _) hj0
    (norm_nonneg _) (Nat.cast_nonneg _) hg ((norm_genK_le Ls).trans (by unfold lamB; linarith))
    (by unfold lamB; linarith) (norm_lindCLM_le H Ls)

set_option backward.isDefEq.respectTransparency false in
/-- **uniform local error, closed-form constant**: for `H` Hermitian, `γ_k ≥ 0`, unit `ψ`, `0 ≤ t`, `t·Λ ≤ 1`
    (`Λ = 2‖H‖ + 2Σ_k|γ_k|‖L_k‖‖L_k†‖`): `‖pureAverage Ls (e^{tG}ψ) − exp(t𝓛)(ψψ†)‖ ≤ N(15N²+17)Λ²·t²`. -/
theorem local_error_explicit (H : Matrix n n ℂ) (hH : Hᴴ = H) (Ls : List (Proc (Matrix n n ℂ)))
    (hγ : ∀ p ∈ Ls, 0 ≤ p.gamma) (ψ : n → ℂ) (hψ : star ψ ⬝ᵥ ψ = 1) (t : ℝ) (ht : 0 ≤ t)
    (hΛ : t * lamB H Ls ≤ 1) :
    ‖pureAverage Ls (expFamily H Ls t *ᵥ ψ) - lindFlow H Ls t (vecMulVec ψ (star ψ))‖ ≤ explicitC H Ls * t ^ 2 := by
  have hg : t * gB H Ls ≤ 1 := (mul_le_mul_of_nonneg_left (gB_le H hH Ls) ht).trans hΛ
  have hL : t * ‖lindCLM H Ls‖ ≤ 1 := (mul_le_mul_of_nonneg_left (norm_lindCLM_le H Ls) ht).trans hΛ
  exact (local_error_uniform H hH Ls hγ ψ hψ t ht hg hL).trans
    (mul_le_mul_of_nonneg_right (localC_le_explicitC H hH Ls) (sq_nonneg t))

/-! ### any propagator that is `1 + tG + O(t²)`: the product families of the code -/

/-- the constant of the average expansion for a family of size `g`: `N·(7g²(1+N²) + 8N²‖K‖g + 8·jB·g)` -/
def famC (g : ℝ) (Ls : List (Proc (Matrix n n ℂ))) : ℝ :=
  Fintype.card n * (7 * g ^ 2 * (1 + (Fintype.card n : ℝ) ^ 2) + 8 * (Fintype.card n : ℝ) ^ 2 * ‖genK Ls‖ * g
    + 8 * jumpBound Ls * g)

set_option backward.isDefEq.respectTransparency false in
/-- the average expansion for ANY one-step propagator `B` with `B = 1 + tG + O((tg)²)`, `B† = 1 + tG† + O((tg)²)` -/
theorem average_expand_family (H : Matrix n n ℂ) (hH : Hᴴ = H) (Ls : List (Proc (Matrix n n ℂ)))
    (hγ : ∀ p ∈ Ls, 0 ≤ p.gamma) (B : Matrix n n ℂ) (ψ : n → ℂ) (hψ : star ψ ⬝ᵥ ψ = 1) (t g : ℝ) (ht : 0 ≤ t)
    (hg0 : 0 ≤ g) (hg : t * g ≤ 1)
    (hP1 : ‖B - 1‖ ≤ 2 * (t * g)) (hQ1 : ‖Bᴴ - 1‖ ≤ 2 * (t * g))
    (hP2 : ‖B - 1 - (t : ℂ) • genG H Ls‖ ≤ 3 / 2 * (t * g) ^ 2)
    (hQ2 : ‖Bᴴ - 1 - (t : ℂ) • (genG H Ls)ᴴ‖ ≤ 3 / 2 * (t * g) ^ 2) :
    ‖pureAverage Ls (B *ᵥ ψ) - (vecMulVec ψ (star ψ) + t • lind H Ls (vecMulVec ψ (star ψ)))‖
      ≤ famC g Ls * t ^ 2 := by
  set ρ := vecMulVec ψ (star ψ) with hρdef
  set G := genG H Ls with hGdef
  have hnψ : normSqVec ψ = 1 := by
    have := star_dot_self ψ
    rw [hψ] at this
    exact_mod_cast this.symm
  have hRρ : ‖ρ‖ ≤ Fintype.card n := by
    have := norm_vecMulVec_self_le ψ
    rwa [hnψ, mul_one] at this
  have htr : trace ρ = 1 := by rw [hρdef, trace_pure, hψ]
  have hσ : sigma (fun _ => B) ρ t = B * ρ * Bᴴ := rfl
  obtain ⟨b1, b2⟩ := sandwich_bounds_gen B Bᴴ ((t : ℂ) • G) ((t : ℂ) • Gᴴ) ρ (t * g) (mul_nonneg ht hg0) hg hP1 hQ1 hP2 hQ2
  have hDe : ((t : ℂ) • G) * ρ + ρ * ((t : ℂ) • Gᴴ) = (t : ℂ) • (G * ρ + ρ * Gᴴ) := by
    rw [Matrix.smul_mul, Matrix.mul_smul, smul_add]
  rw [hDe, ← hσ] at b2
  rw [← hσ] at b1
  have hDtr : trace (G * ρ + ρ * Gᴴ) = -trace (genK Ls * ρ) := by
    rw [hGdef, genG_sandwich H hH Ls ρ, trace_noJump_deriv]
  have hlind : lind H Ls ρ = (G * ρ + ρ * Gᴴ) + jumpSum Ls ρ := by
    rw [lind_eq, hGdef, genG_sandwich H hH Ls ρ]
  have hJσ : ‖jumpSum Ls (sigma (fun _ => B) ρ t)‖
      ≤ Fintype.card n * ‖trace (genK Ls * sigma (fun _ => B) ρ t)‖ := by
    rw [hρdef, sigma_pure]
    exact norm_jumpSum_pure_le Ls hγ _
  have hJρ : ‖jumpSum Ls ρ‖ ≤ Fintype.card n * ‖trace (genK Ls * ρ)‖ := norm_jumpSum_pure_le Ls hγ ψ
  have hav := avg_expand Ls ρ (sigma (fun _ => B) ρ t) (G * ρ + ρ * Gᴴ) t _ _ ht htr hDtr hJσ hJρ b1 b2
  have hpa : pureAverage Ls (B *ᵥ ψ)
      = sigma (fun _ => B) ρ t
        + ((1 - trace (sigma (fun _ => B) ρ t)) / trace (genK Ls * sigma (fun _ => B) ρ t))
          • jumpSum Ls (sigma (fun _ => B) ρ t) := by
    have := avgState_pure Ls (fun _ => B) ψ t
    rw [← this]
    rfl
  rw [hpa, hlind, ← Complex.coe_smul t]
  refine hav.trans ?_
  unfold famC
  exact arith1 ‖ρ‖ t g ‖genK Ls‖ (jumpBound Ls) (Fintype.card n) hRρ hg0 (norm_nonneg _)
    (jumpBound_nonneg Ls) (Nat.cast_nonneg _)

set_option backward.isDefEq.respectTransparency false in
/-- … and against the exact flow: `‖pureAverage Ls (Bψ) − exp(t𝓛)(ψψ†)‖ ≤ (famC g + N·(3/2)‖𝓛‖²)·t²` -/
theorem local_error_family (H : Matrix n n ℂ) (hH : Hᴴ = H) (Ls : List (Proc (Matrix n n ℂ)))
    (hγ : ∀ p ∈ Ls, 0 ≤ p.gamma) (B : Matrix n n ℂ) (ψ : n → ℂ) (hψ : star ψ ⬝ᵥ ψ = 1) (t g : ℝ) (ht : 0 ≤ t)
    (hg0 : 0 ≤ g) (hg : t * g ≤ 1) (hL : t * ‖lindCLM H Ls‖ ≤ 1)
    (hP1 : ‖B - 1‖ ≤ 2 * (t * g)) (hQ1 : ‖Bᴴ - 1‖ ≤ 2 * (t * g))
    (hP2 : ‖B - 1 - (t : ℂ) • genG H Ls‖ ≤ 3 / 2 * (t * g) ^ 2)
    (hQ2 : ‖Bᴴ - 1 - (t : ℂ) • (genG H Ls)ᴴ‖ ≤ 3 / 2 * (t * g) ^ 2) :
    ‖pureAverage Ls (B *ᵥ ψ) - lindFlow H Ls t (vecMulVec ψ (star ψ))‖
      ≤ (famC g Ls + Fintype.card n * (3 / 2 * ‖lindCLM H Ls‖ ^ 2)) * t ^ 2 := by
  have hav := average_expand_family H hH Ls hγ B ψ hψ t g ht hg0 hg hP1 hQ1 hP2 hQ2
  have hfl := lindFlow_taylor2 H Ls t ht hL (vecMulVec ψ (star ψ))
  have hnψ : normSqVec ψ = 1 := by
    have := star_dot_self ψ
    rw [hψ] at this
    exact_mod_cast this.symm
  have hRρ : ‖vecMulVec ψ (star ψ)‖ ≤ Fintype.card n := by
    have := norm_vecMulVec_self_le ψ
    rwa [hnψ, mul_one] at this
  generalize vecMulVec ψ (star ψ) = ρ at *
  generalize pureAverage Ls (B *ᵥ ψ) = P at *
  have e : P - lindFlow H Ls t ρ
      = (P - (ρ + t • lind H Ls ρ)) - (lindFlow H Ls t ρ - ρ - t • lind H Ls ρ) := by abel
  rw [e]
  refine (norm_sub_le _ _).trans ((add_le_add hav hfl).trans ?_)
  have : 3 / 2 * (t * ‖lindCLM H Ls‖) ^ 2 * ‖ρ‖ ≤ 3 / 2 * (t * ‖lindCLM H Ls‖) ^ 2 * Fintype.card n :=
    mul_le_mul_of_nonneg_left hRρ (by positivity)
  nlinarith [this]

/-- a product of exponentials `Π_k exp(t·X_k)` in list order -/
def prodFamily (Xs : List (Matrix n n ℂ)) (t : ℝ) : Matrix n n ℂ := ((Xs.map fun X => (t : ℂ) • X).map exp).prod

/-- `‖P − 1‖ ≤ 2tg`, `‖P − 1 − t·ΣX_k‖ ≤ (3/2)(tg)²` for `Σ‖X_k‖ ≤ g`, `tg ≤ 1` -/
theorem prodFamily_bounds (Xs : List (Matrix n n ℂ)) (t g : ℝ) (ht : 0 ≤ t) (hgs : (Xs.map norm).sum ≤ g) (hg : t * g ≤ 1) :
    ‖prodFamily Xs t - 1‖ ≤ 2 * (t * g) ∧ ‖prodFamily Xs t - 1 - (t : ℂ) • Xs.sum‖ ≤ 3 / 2 * (t * g) ^ 2 := by
  obtain ⟨h1, h2⟩ := Yaqs.TrotterLimit.prod_exp_bounds (Xs.map fun X => (t : ℂ) • X)
  rw [Yaqs.TrotterLimit.sum_norm_smul, Complex.norm_real, Real.norm_of_nonneg ht] at h1 h2
  have hsum : (Xs.map fun X => (t : ℂ) • X).sum = (t : ℂ) • Xs.sum := by
    rw [List.smul_sum]
  rw [hsum] at h2
  have hs0 : 0 ≤ t * (Xs.map norm).sum := mul_nonneg ht (Yaqs.TrotterLimit.list_sum_norm_nonneg Xs)
  have hsg : t * (Xs.map norm).sum ≤ t * g := mul_le_mul_of_nonneg_left hgs ht
  have htg0 : 0 ≤ t * g := hs0.trans hsg
  constructor
  · exact h1.trans ((sub_le_sub_right (Real.exp_le_exp.mpr hsg) 1).trans (exp_sub_one_le_two_mul htg0 hg))
  · exact h2.trans ((Yaqs.TrotterLimit.exp_sub_one_sub_mono hs0 hsg).trans (exp_sub_one_sub_le_sq htg0 hg))

/-- `(Π_k exp(tX_k))† = Π_k exp(tX_k†)` in reversed order -/
theorem prodFamily_conjTranspose (Xs : List (Matrix n n ℂ)) (t : ℝ) :
    (prodFamily Xs t)ᴴ = prodFamily (Xs.map conjTranspose).reverse t := by
  unfold prodFamily
  rw [Matrix.conjTranspose_list_prod]
  simp only [List.map_map, List.map_reverse]
  congr 2
  apply List.map_congr_left
  intro X _
  simp only [Function.comp_apply]
  rw [← Matrix.exp_conjTranspose, conjTranspose_smul]
  simp

/-- size of a product family: `Σ‖X_k‖ + Σ‖X_k†‖` -/
def gP (Xs : List (Matrix n n ℂ)) : ℝ := (Xs.map norm).sum + ((Xs.map conjTranspose).reverse.map norm).sum

set_option backward.isDefEq.respectTransparency false in
/-- **uniform local error of a product family** whose generators sum to `G`: constant `famC (gP Xs) + N(3/2)‖𝓛‖²` -/
theorem local_error_prodFamily (H : Matrix n n ℂ) (hH : Hᴴ = H) (Ls : List (Proc (Matrix n n ℂ)))
    (hγ : ∀ p ∈ Ls, 0 ≤ p.gamma) (Xs : List (Matrix n n ℂ)) (hsum : Xs.sum = genG H Ls)
    (ψ : n → ℂ) (hψ : star ψ ⬝ᵥ ψ = 1) (t : ℝ) (ht : 0 ≤ t)
    (hg : t * gP Xs ≤ 1) (hL : t * ‖lindCLM H Ls‖ ≤ 1) :
    ‖pureAverage Ls (prodFamily Xs t *ᵥ ψ) - lindFlow H Ls t (vecMulVec ψ (star ψ))‖
      ≤ (famC (gP Xs) Ls + Fintype.card n * (3 / 2 * ‖lindCLM H Ls‖ ^ 2)) * t ^ 2 := by
  have hn1 := Yaqs.TrotterLimit.list_sum_norm_nonneg Xs
  have hn2 := Yaqs.TrotterLimit.list_sum_norm_nonneg (Xs.map conjTranspose).reverse
  have hg0 : 0 ≤ gP Xs := add_nonneg hn1 hn2
  obtain ⟨p1, p2⟩ := prodFamily_bounds Xs t (gP Xs) ht (by unfold gP; linarith) hg
  obtain ⟨q1, q2⟩ := prodFamily_bounds (Xs.map conjTranspose).reverse t (gP Xs) ht (by unfold gP; linarith) hg
  have hs' : (Xs.map conjTranspose).reverse.sum = (genG H Ls)ᴴ := by
    rw [List.sum_reverse, ← Matrix.conjTranspose_list_sum, hsum]
  rw [hsum] at p2
  rw [hs'] at q2
  rw [← prodFamily_conjTranspose] at q1 q2
  exact local_error_family H hH Ls hγ (prodFamily Xs t) ψ hψ t (gP Xs) ht hg0 hg hL p1 q1 p2 q2

/-- the generators of the code's order-1 step `dissStep Ls t * unitaryStep H t` (`analog_tjm_1`): one `−(γ_k/2)L_k†L_k` per
    process, in list order, then `−iH` -/
def order1Gens (H : Matrix n n ℂ) (Ls : List (Proc (Matrix n n ℂ))) : List (Matrix n n ℂ) :=
  (Ls.map fun p => (-(rateC p.gamma / 2)) • (p.opᴴ * p.op)) ++ [(-Complex.I) • H]

theorem order1_eq_prodFamily (H : Matrix n n ℂ) (Ls : List (Proc (Matrix n n ℂ))) (t : ℝ) :
    dissStep Ls t * unitaryStep H t = prodFamily (order1Gens H Ls) t := by
  unfold prodFamily order1Gens dissStep unitaryStep dissFactor
  simp only [List.map_append, List.prod_append, List.map_cons, List.map_nil, List.prod_cons, List.prod_nil, mul_one,
    List.map_map]
  congr 2

omit [DecidableEq n] in
theorem order1Gens_sum (H : Matrix n n ℂ) (Ls : List (Proc (Matrix n n ℂ))) : (order1Gens H Ls).sum = genG H Ls := by
  unfold order1Gens genG
  rw [List.sum_append, List.sum_cons, List.sum_nil, add_zero, add_comm]
  congr 1
  unfold genK gammaSum
  induction Ls with
  | nil => simp
  | cons p ps ih =>
    simp only [List.map_cons, List.sum_cons, ih, smul_add, smul_smul]
    congr 2
    ring

set_option backward.isDefEq.respectTransparency false in
/-- **uniform local error of the code's order-1 step** (`analog_tjm_1`: exact unitary step, then the per-process dissipation
    factors in list order) -/
theorem local_error_order1 (H : Matrix n n ℂ) (hH : Hᴴ = H) (Ls : List (Proc (Matrix n n ℂ)))
    (hγ : ∀ p ∈ Ls, 0 ≤ p.gamma) (ψ : n → ℂ) (hψ : star ψ ⬝ᵥ ψ = 1) (t : ℝ) (ht : 0 ≤ t)
    (hg : t * gP (order1Gens H Ls) ≤ 1) (hL : t * ‖lindCLM H Ls‖ ≤ 1) :
    ‖pureAverage Ls ((dissStep Ls t * unitaryStep H t) *ᵥ ψ) - lindFlow H Ls t (vecMulVec ψ (star ψ))‖
      ≤ (famC (gP (order1Gens H Ls)) Ls + Fintype.card n * (3 / 2 * ‖lindCLM H Ls‖ ^ 2)) * t ^ 2 := by
  rw [order1_eq_prodFamily]
  exact local_error_prodFamily H hH Ls hγ _ (order1Gens_sum H Ls) ψ hψ t ht hg hL

/-! ### the order-2 (Strang) step `dissStep Ls (t/2) * unitaryStep H t * dissStep Ls (t/2)` of `analog_tjm_2` -/

theorem prodFamily_append (Xs Ys : List (Matrix n n ℂ)) (t : ℝ) :
    prodFamily (Xs ++ Ys) t = prodFamily Xs t * prodFamily Ys t := by
  unfold prodFamily
  rw [List.map_append, List.map_append, List.prod_append]

/-- the half-step dissipation generators `−(γ_k/4)L_k†L_k` -/
def halfGens (Ls : List (Proc (Matrix n n ℂ))) : List (Matrix n n ℂ) :=
  Ls.map fun p => (-(rateC p.gamma / 4)) • (p.opᴴ * p.op)

theorem dissStep_half (Ls : List (Proc (Matrix n n ℂ))) (t : ℝ) : dissStep Ls (t / 2) = prodFamily (halfGens Ls) t := by
  unfold dissStep prodFamily halfGens dissFactor
  simp only [List.map_map]
  congr 1
  apply List.map_congr_left
  intro p _
  simp only [Function.comp_apply]
  congr 1
  rw [← Complex.coe_smul, smul_smul, smul_smul]
  congr 1
  push_cast
  ring

theorem unitaryStep_eq (H : Matrix n n ℂ) (t : ℝ) : unitaryStep H t = prodFamily [(-Complex.I) • H] t := by
  unfold unitaryStep prodFamily
  simp only [List.map_cons, List.map_nil, List.prod_cons, List.prod_nil, mul_one]
  rw [← Complex.coe_smul t]

/-- generators of the order-2 step: half dissipation, `−iH`, half dissipation -/
def order2Gens (H : Matrix n n ℂ) (Ls : List (Proc (Matrix n n ℂ))) : List (Matrix n n ℂ) :=
  halfGens Ls ++ ([(-Complex.I) • H] ++ halfGens Ls)

theorem order2_eq_prodFamily (H : Matrix n n ℂ) (Ls : List (Proc (Matrix n n ℂ))) (t : ℝ) :
    dissStep Ls (t / 2) * unitaryStep H t * dissStep Ls (t / 2) = prodFamily (order2Gens H Ls) t := by
  unfold order2Gens
  rw [prodFamily_append, prodFamily_append, dissStep_half, unitaryStep_eq, mul_assoc]

omit [DecidableEq n] in
theorem halfGens_sum (Ls : List (Proc (Matrix n n ℂ))) : (halfGens Ls).sum = (-(1 / 4 : ℂ)) • genK Ls := by
  unfold halfGens genK gammaSum
  induction Ls with
  | nil => simp
  | cons p ps ih =>
    simp only [List.map_cons, List.sum_cons, ih, smul_add, smul_smul]
    congr 2
    ring

omit [DecidableEq n] in
theorem order2Gens_sum (H : Matrix n n ℂ) (Ls : List (Proc (Matrix n n ℂ))) : (order2Gens H Ls).sum = genG H Ls := by
  unfold order2Gens genG
  rw [List.sum_append, List.sum_append, List.sum_cons, List.sum_nil, add_zero, halfGens_sum]
  have e : (-(1 / 2 : ℂ)) • genK Ls = (-(1 / 4 : ℂ)) • genK Ls + (-(1 / 4 : ℂ)) • genK Ls := by
    rw [← add_smul]; congr 1; ring
  rw [e]
  abel

set_option backward.isDefEq.respectTransparency false in
/-- **uniform local error of the code's order-2 (Strang) step** (`analog_tjm_2`) -/
theorem local_error_order2 (H : Matrix n n ℂ) (hH : Hᴴ = H) (Ls : List (Proc (Matrix n n ℂ)))
    (hγ : ∀ p ∈ Ls, 0 ≤ p.gamma) (ψ : n → ℂ) (hψ : star ψ ⬝ᵥ ψ = 1) (t : ℝ) (ht : 0 ≤ t)
    (hg : t * gP (order2Gens H Ls) ≤ 1) (hL : t * ‖lindCLM H Ls‖ ≤ 1) :
    ‖pureAverage Ls ((dissStep Ls (t / 2) * unitaryStep H t * dissStep Ls (t / 2)) *ᵥ ψ)
        - lindFlow H Ls t (vecMulVec ψ (star ψ))‖
      ≤ (famC (gP (order2Gens H Ls)) Ls + Fintype.card n * (3 / 2 * ‖lindCLM H Ls‖ ^ 2)) * t ^ 2 := by
  rw [order2_eq_prodFamily]
  exact local_error_prodFamily H hH Ls hγ _ (order2Gens_sum H Ls) ψ hψ t ht hg hL

end

end matrix

end Yaqs.Consistency
