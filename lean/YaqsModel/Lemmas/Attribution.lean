import YaqsModel.Model.Attribution
import Mathlib.Tactic.Ring
import Mathlib.Tactic.Linarith
import Mathlib.Algebra.Order.Ring.Rat
import Mathlib.Data.List.Basic

/-! helper lemmas for the attribution model -/
namespace Yaqs.Attribution

/-! ### the stable sort -/

theorem insertSorted_perm (o : Obs) (l : List Obs) : (insertSorted o l).Perm (o :: l) := by
  induction l with
  | nil => exact List.Perm.refl _
  | cons x xs ih =>
    simp only [insertSorted]
    split
    · exact List.Perm.refl _
    · exact ((List.Perm.cons x ih).trans (List.Perm.swap o x xs))

theorem sortBySite_perm (l : List Obs) : (sortBySite l).Perm l := by
  induction l with
  | nil => exact List.Perm.refl _
  | cons o os ih => exact (insertSorted_perm o _).trans (List.Perm.cons o ih)

theorem insertSorted_sorted (o : Obs) (l : List Obs) (h : l.Pairwise fun a b => a.site ≤ b.site) :
    (insertSorted o l).Pairwise fun a b => a.site ≤ b.site := by
  induction l with
  | nil => simp [insertSorted]
  | cons x xs ih =>
    rw [List.pairwise_cons] at h
    simp only [insertSorted]
    split
    · next hle =>
      refine List.pairwise_cons.mpr ⟨?_, List.pairwise_cons.mpr h⟩
      intro y hy
      rcases List.mem_cons.mp hy with rfl | hy
      · exact hle
      · exact Nat.le_trans hle (h.1 y hy)
    · next hgt =>
      refine List.pairwise_cons.mpr ⟨?_, ih h.2⟩
      intro y hy
      have := (insertSorted_perm o xs).mem_iff.mp hy
      rcases List.mem_cons.mp this with rfl | hy'
      · omega
      · exact h.1 y hy'

theorem sortBySite_sorted (l : List Obs) : (sortBySite l).Pairwise fun a b => a.site ≤ b.site := by
  induction l with
  | nil => simp [sortBySite]
  | cons o os ih => exact insertSorted_sorted o _ ih

/-- stability: among the observables on one site the listing order is kept -/
theorem insertSorted_filter (o : Obs) (l : List Obs) (v : Nat)
    (h : l.Pairwise fun a b => a.site ≤ b.site) :
    (insertSorted o l).filter (fun x => x.site = v) = (o :: l).filter (fun x => x.site = v) := by
  induction l with
  | nil => simp [insertSorted]
  | cons x xs ih =>
    rw [List.pairwise_cons] at h
    simp only [insertSorted]
    split
    · rfl
    · next hgt =>
      have hx : x.site < o.site := by omega
      rw [List.filter_cons, ih h.2]
      by_cases hov : o.site = v
      · have hxv : ¬ x.site = v := by omega
        simp [List.filter_cons, hov, hxv]
      · simp [List.filter_cons, hov]

theorem sortBySite_filter (l : List Obs) (v : Nat) :
    (sortBySite l).filter (fun x => x.site = v) = l.filter (fun x => x.site = v) := by
  induction l with
  | nil => rfl
  | cons o os ih =>
    simp only [sortBySite]
    rw [insertSorted_filter o _ v (sortBySite_sorted os), List.filter_cons, ih, List.filter_cons]

theorem unsorted_not_moves {k : Kind} (h : k.unsorted = true) : k.moves = false := by
  cases k <;> simp_all [Kind.unsorted, Kind.moves]

/-! ### the centre walk -/

theorem rowsOf_shifts (l : List Nat) (es : List Ev) : rowsOf (l.map Ev.shift ++ es) = rowsOf es := by
  induction l with
  | nil => rfl
  | cons x xs ih => simpa [rowsOf] using ih

theorem shiftsOf_shifts (l : List Nat) (es : List Ev) : shiftsOf (l.map Ev.shift ++ es) = l ++ shiftsOf es := by
  induction l with
  | nil => rfl
  | cons x xs ih => simp [shiftsOf, ih]

theorem centresFrom_shifts (l : List Nat) (n : Nat) (es : List Ev) :
    centresFrom n (l.map Ev.shift ++ es) = centresFrom (n + l.length) es := by
  induction l generalizing n with
  | nil => rfl
  | cons x xs ih =>
    simp only [List.map_cons, List.cons_append, centresFrom, List.length_cons]
    rw [ih]; congr 1; omega

/-- row `k` of `results` is written for `sorted[k]`, whatever the list -/
theorem rowsOf_walk (l : List Obs) (last row : Nat) :
    rowsOf (walk last row l) = (l.zipIdx row).map fun p => (p.2, p.1.id) := by
  induction l generalizing last row with
  | nil => rfl
  | cons o os ih =>
    simp only [walk, List.zipIdx_cons, List.map_cons]
    split
    · split
      · rw [rowsOf_shifts]; simp [rowsOf, ih]
      · simp [rowsOf, ih]
    · simp [rowsOf, ih]

/-- where the tracked centre ends up -/
def finalCentre : Nat → List Obs → Nat
  | last, [] => last
  | last, o :: os => if o.kind.moves ∧ o.site > last then finalCentre o.site os else finalCentre last os

theorem finalCentre_ge (l : List Obs) (last : Nat) : last ≤ finalCentre last l := by
  induction l generalizing last with
  | nil => exact Nat.le_refl _
  | cons o os ih =>
    simp only [finalCentre]
    split
    · next h => exact Nat.le_trans (Nat.le_of_lt h.2) (ih o.site)
    · exact ih last

/-- the shifts are `last, last+1, …`: each one is issued at the current centre, none goes left — for every list -/
theorem shiftsOf_walk (l : List Obs) (last row : Nat) :
    shiftsOf (walk last row l) = List.range' last (finalCentre last l - last) := by
  induction l generalizing last row with
  | nil => simp [walk, shiftsOf, finalCentre]
  | cons o os ih =>
    simp only [walk, finalCentre]
    by_cases hm : o.kind.moves = true
    · simp only [hm, if_true, true_and]
      by_cases hgt : o.site > last
      · simp only [hgt, if_true]
        rw [shiftsOf_shifts]
        simp only [shiftsOf]
        rw [ih]
        have h1 := finalCentre_ge os o.site
        have : finalCentre o.site os - last = (o.site - last) + (finalCentre o.site os - o.site) := by omega
        rw [this, ← List.range'_append_1]
        congr 2; omega
      · simp only [hgt, if_false]
        simp only [shiftsOf]
        exact ih last (row + 1)
    · simp only [hm, Bool.false_eq_true, if_false, false_and]
      simp only [shiftsOf]
      exact ih last (row + 1)

/-- movable observables come in non-decreasing site order, none left of `last` -/
def MovSorted (last : Nat) (l : List Obs) : Prop :=
  (∀ o ∈ l, o.kind.moves = true → last ≤ o.site) ∧
  l.Pairwise fun a b => a.kind.moves = true → b.kind.moves = true → a.site ≤ b.site

theorem MovSorted.tail {last : Nat} {o : Obs} {os : List Obs} (h : MovSorted last (o :: os)) :
    MovSorted last os :=
  ⟨fun x hx => h.1 x (List.mem_cons_of_mem _ hx), (List.pairwise_cons.mp h.2).2⟩

theorem MovSorted.tail_moved {last : Nat} {o : Obs} {os : List Obs} (h : MovSorted last (o :: os))
    (hm : o.kind.moves = true) : MovSorted o.site os :=
  ⟨fun x hx hxm => (List.pairwise_cons.mp h.2).1 x hx hm hxm, (List.pairwise_cons.mp h.2).2⟩

/-- on a list whose movable observables are in site order, every local observable is evaluated with the tracked
    centre at its own first site, and that many shifts have been issued -/
theorem centresFrom_walk (l : List Obs) (last row n0 : Nat) (h : MovSorted last l) :
    centresFrom n0 (walk last row l)
      = (l.filter fun o => o.kind.moves).map fun o => (o.id, o.site, n0 + (o.site - last)) := by
  induction l generalizing last row n0 with
  | nil => rfl
  | cons o os ih =>
    simp only [walk]
    by_cases hm : o.kind.moves = true
    · have hlast : last ≤ o.site := h.1 o (List.mem_cons_self) hm
      have htail := h.tail_moved hm
      simp only [hm, if_true, List.filter_cons, List.map_cons]
      by_cases hgt : o.site > last
      · simp only [hgt, if_true]
        rw [centresFrom_shifts]
        simp only [centresFrom, List.length_range']
        rw [ih o.site (row + 1) _ htail]
        congr 1
        apply List.map_congr_left
        intro x hx
        have hxm : x.kind.moves = true := by simpa using (List.mem_filter.mp hx).2
        have := htail.1 x (List.mem_filter.mp hx).1 hxm
        congr 2; omega
      · have heq : o.site = last := by omega
        simp only [hgt, if_false, centresFrom]
        rw [ih last (row + 1) n0 h.tail]
        congr 1
        · rw [heq]; simp
    · simp only [hm, Bool.false_eq_true, if_false, centresFrom, List.filter_cons]
      exact ih last (row + 1) n0 h.tail

/-! ### stitching -/

theorem stitchRow_other_traj (i : Nat) (os : List Obs) (vs : List Rat) (st : Store) (id t : Nat) (ht : t ≠ i) :
    stitchRow i os vs st id t = st id t := by
  induction os generalizing vs st with
  | nil => cases vs <;> rfl
  | cons o os ih =>
    cases vs with
    | nil => rfl
    | cons v vs =>
      simp only [stitchRow]
      rw [ih]
      simp [Store.set, ht]

theorem stitchRow_other_id (i : Nat) (os : List Obs) (vs : List Rat) (st : Store) (id t : Nat)
    (hid : id ∉ os.map (·.id)) : stitchRow i os vs st id t = st id t := by
  induction os generalizing vs st with
  | nil => cases vs <;> rfl
  | cons o os ih =>
    cases vs with
    | nil => rfl
    | cons v vs =>
      simp only [stitchRow]
      simp only [List.map_cons, List.mem_cons, not_or] at hid
      rw [ih _ _ hid.2]
      simp [Store.set, hid.1]

theorem stitchRow_written (i : Nat) (os : List Obs) (vs : List Rat) (st : Store)
    (hlen : os.length = vs.length) (hnd : (os.map (·.id)).Nodup) (k : Nat) (hk : k < os.length) :
    stitchRow i os vs st (os[k]).id i = some (vs[k]'(hlen ▸ hk)) := by
  induction os generalizing vs st k with
  | nil => simp at hk
  | cons o os ih =>
    cases vs with
    | nil => simp at hlen
    | cons v vs =>
      simp only [stitchRow]
      simp only [List.map_cons, List.nodup_cons] at hnd
      cases k with
      | zero =>
        simp only [List.getElem_cons_zero]
        rw [stitchRow_other_id _ _ _ _ _ _ hnd.1]
        simp [Store.set]
      | succ k =>
        simp only [List.getElem_cons_succ]
        exact ih vs _ (by simpa using hlen) hnd.2 k (by simpa using hk)

theorem stitchAll_earlier (sorted : List Obs) (rs : List (List Rat)) (i0 : Nat) (st : Store) (id t : Nat)
    (ht : t < i0) : stitchAll sorted i0 rs st id t = st id t := by
  induction rs generalizing i0 st with
  | nil => rfl
  | cons r rs ih =>
    simp only [stitchAll]
    rw [ih (i0 + 1) _ (by omega), stitchRow_other_traj _ _ _ _ _ _ (by omega)]

theorem stitchAll_written (sorted : List Obs) (hnd : (sorted.map (·.id)).Nodup) (rs : List (List Rat)) (i0 : Nat)
    (st : Store) (hshape : ∀ r ∈ rs, r.length = sorted.length)
    (j : Nat) (hj : j < rs.length) (k : Nat) (hk : k < sorted.length) :
    stitchAll sorted i0 rs st (sorted[k]).id (i0 + j)
      = some ((rs[j])[k]'(by rw [hshape _ (List.getElem_mem hj)]; exact hk)) := by
  induction rs generalizing i0 st j with
  | nil => simp at hj
  | cons r rs ih =>
    simp only [stitchAll]
    cases j with
    | zero =>
      rw [Nat.add_zero, stitchAll_earlier _ _ _ _ _ _ (by omega)]
      exact stitchRow_written i0 sorted r st (hshape r (by simp)).symm hnd k hk
    | succ j =>
      have := ih (i0 + 1) (stitchRow i0 sorted r st) (fun r' hr' => hshape r' (List.mem_cons_of_mem _ hr')) j
        (by simpa using hj)
      rw [show i0 + (j + 1) = i0 + 1 + j by omega]
      simpa using this

end Yaqs.Attribution
