import YaqsModel.Lemmas.Krylov
import YaqsModel.Lemmas.KrylovPoly
import YaqsModel.Lemmas.ExpTail
import Mathlib.Analysis.CStarAlgebra.Matrix
import Mathlib.Analysis.Normed.Algebra.MatrixExponential

/-! A-priori error bound of the Lanczos approximation of `exp(z A) v` (xp19 extension; helper lemmas for `Props/C19.lean`):
    subtract the Taylor polynomial of degree `m − 1` on both sides (exact by `krylov_powers`), bound the two remainders
    by the tail of the exponential series.  Spectral norm of matrices, Euclidean norm of vectors. -/
namespace Yaqs.Krylov

open Matrix
open scoped Nat

/-- the spectral formula of `_compute_krylov_result` is the matrix exponential: for unitary `Q`,
    `exp(z · Q diag(λ) Qᴴ) = Q diag(e^{z λ}) Qᴴ` -/
theorem exp_spectral {k : Type*} [Fintype k] [DecidableEq k] (Q : Matrix k k ℂ) (hQ : Qᴴ * Q = 1) (lam : k → ℂ)
    (z : ℂ) :
    NormedSpace.exp (z • (Q * diagonal lam * Qᴴ)) = Q * diagonal (fun i => Complex.exp (z * lam i)) * Qᴴ := by
  have hQ' : Q * Qᴴ = 1 := mul_eq_one_comm.mp hQ
  have hinv : Q⁻¹ = Qᴴ := Matrix.inv_eq_right_inv hQ'
  have hU : IsUnit Q := ⟨⟨Q, Qᴴ, hQ', hQ⟩, rfl⟩
  have h1 : z • (Q * diagonal lam * Qᴴ) = Q * diagonal (z • lam) * Q⁻¹ := by
    rw [hinv, diagonal_smul, Matrix.mul_smul, Matrix.smul_mul]
  have hd : NormedSpace.exp (z • lam) = fun i => Complex.exp (z * lam i) := by
    funext i
    rw [Pi.coe_exp, ← Complex.exp_eq_exp_ℂ]
    rfl
  rw [h1, Matrix.exp_conj Q _ hU, Matrix.exp_diagonal, hinv, hd]

open scoped Matrix.Norms.L2Operator

/-- Euclidean norm of a plain vector -/
noncomputable def enorm {n : Type*} [Fintype n] (x : n → ℂ) : ℝ := ‖(WithLp.toLp 2 x : EuclideanSpace ℂ n)‖

section
variable {n k : Type*} [Fintype n] [Fintype k] [DecidableEq n] [DecidableEq k]

omit [DecidableEq n] in
theorem enorm_mulVec_le (M : Matrix n k ℂ) (x : k → ℂ) : enorm (M *ᵥ x) ≤ ‖M‖ * enorm x :=
  l2_opNorm_mulVec M (WithLp.toLp 2 x)

omit [DecidableEq n] in
theorem enorm_sub_le (x y : n → ℂ) : enorm (x - y) ≤ enorm x + enorm y := by
  unfold enorm
  rw [WithLp.toLp_sub]
  exact norm_sub_le _ _

omit [DecidableEq n] in
theorem enorm_smul (c : ℂ) (x : n → ℂ) : enorm (c • x) = ‖c‖ * enorm x := by
  unfold enorm
  rw [WithLp.toLp_smul]
  exact norm_smul _ _

omit [DecidableEq n] in
theorem enorm_of_dot (x : n → ℂ) (h : star x ⬝ᵥ x = 1) : enorm x = 1 := by
  have := norm_of_dot x 1 (by simpa using h)
  simpa [enorm] using this

omit [DecidableEq n] in
/-- a matrix with orthonormal columns has spectral norm at most one -/
theorem l2norm_le_one_of_gram (V : Matrix n k ℂ) (hV : Vᴴ * V = 1) : ‖V‖ ≤ 1 := by
  have h1 : ‖V‖ * ‖V‖ = ‖(1 : Matrix k k ℂ)‖ := by rw [← l2_opNorm_conjTranspose_mul_self, hV]
  have h2 : ‖(1 : Matrix k k ℂ)‖ * ‖(1 : Matrix k k ℂ)‖ = ‖(1 : Matrix k k ℂ)‖ := by
    have := l2_opNorm_conjTranspose_mul_self (1 : Matrix k k ℂ)
    rw [conjTranspose_one, Matrix.one_mul] at this
    exact this.symm
  have h4 : ‖(1 : Matrix k k ℂ)‖ ≤ 1 := by
    by_contra hc
    rw [not_le] at hc
    have hp : 0 < ‖(1 : Matrix k k ℂ)‖ := lt_trans zero_lt_one hc
    have := mul_lt_mul_of_pos_left hc hp
    rw [h2, mul_one] at this
    exact lt_irrefl _ this
  by_contra hc
  rw [not_le] at hc
  have := mul_lt_mul'' hc hc zero_le_one zero_le_one
  rw [h1, one_mul] at this
  exact absurd h4 (not_le.mpr this)

/-- the projected matrix is no larger than the operator -/
theorem l2norm_proj_le (A : Matrix n n ℂ) (V : Matrix n k ℂ) (hV : Vᴴ * V = 1) : ‖Vᴴ * A * V‖ ≤ ‖A‖ := by
  have hV1 := l2norm_le_one_of_gram V hV
  have hVh : ‖Vᴴ‖ ≤ 1 := by rw [l2_opNorm_conjTranspose]; exact hV1
  calc ‖Vᴴ * A * V‖ ≤ ‖Vᴴ * A‖ * ‖V‖ := l2_opNorm_mul _ _
    _ ≤ (‖Vᴴ‖ * ‖A‖) * ‖V‖ := mul_le_mul_of_nonneg_right (l2_opNorm_mul _ _) (norm_nonneg _)
    _ ≤ (1 * ‖A‖) * 1 := by
        apply mul_le_mul _ hV1 (norm_nonneg _) (by positivity)
        exact mul_le_mul_of_nonneg_right hVh (norm_nonneg _)
    _ = ‖A‖ := by ring

/-- Taylor remainder of the matrix exponential in the spectral norm -/
theorem matrix_exp_remainder (X : Matrix k k ℂ) (m : ℕ) (hm : 0 < m) :
    ‖NormedSpace.exp X - ∑ j ∈ Finset.range m, ((j ! : ℂ)⁻¹) • X ^ j‖ ≤ expTail m ‖X‖ :=
  norm_exp_sub_partial_le X m hm

end

section
variable {n : Type*} [Fintype n] [DecidableEq n]

/-- **error identity and bound, abstract form**: orthonormal `V` (`m` columns), upper Hessenberg `H = Vᴴ A V` with
    `A V = V H` on all columns but the last.  Then for every complex `z`
    `‖exp(zA) V e₀ − V exp(zH) e₀‖ ≤ tail_m(|z|‖A‖) + tail_m(|z|‖H‖) ≤ 2 tail_m(|z|‖A‖)`. -/
theorem krylov_exp_bound {m : ℕ} (A : Matrix n n ℂ) (V : Matrix n (Fin m) ℂ) (H : Matrix (Fin m) (Fin m) ℂ)
    (hH : IsHess H) (hcol : ∀ j : Fin m, (j : ℕ) + 1 < m → ∀ r, (A * V) r j = (V * H) r j) (hm : 0 < m)
    (hV : Vᴴ * V = 1) (z : ℂ) :
    -- the algebraic error identity: error = remainder_A · v₀ − V · remainder_H · e₀
    (NormedSpace.exp (z • A) *ᵥ (V *ᵥ Pi.single (⟨0, hm⟩ : Fin m) (1 : ℂ)) -
        V *ᵥ (NormedSpace.exp (z • H) *ᵥ Pi.single (⟨0, hm⟩ : Fin m) (1 : ℂ)) =
      (NormedSpace.exp (z • A) - ∑ j ∈ Finset.range m, ((j ! : ℂ)⁻¹) • (z • A) ^ j) *ᵥ
          (V *ᵥ Pi.single (⟨0, hm⟩ : Fin m) (1 : ℂ)) -
        V *ᵥ ((NormedSpace.exp (z • H) - ∑ j ∈ Finset.range m, ((j ! : ℂ)⁻¹) • (z • H) ^ j) *ᵥ
          Pi.single (⟨0, hm⟩ : Fin m) (1 : ℂ))) ∧
    enorm (NormedSpace.exp (z • A) *ᵥ (V *ᵥ Pi.single (⟨0, hm⟩ : Fin m) (1 : ℂ)) -
        V *ᵥ (NormedSpace.exp (z • H) *ᵥ Pi.single (⟨0, hm⟩ : Fin m) (1 : ℂ))) ≤
      expTail m (‖z‖ * ‖A‖) + expTail m (‖z‖ * ‖H‖) := by
  set e0 : Fin m → ℂ := Pi.single (⟨0, hm⟩ : Fin m) (1 : ℂ) with he0
  -- the Taylor polynomials agree
  have hpoly : (∑ j ∈ Finset.range m, ((j ! : ℂ)⁻¹) • (z • A) ^ j) *ᵥ (V *ᵥ e0) =
      V *ᵥ ((∑ j ∈ Finset.range m, ((j ! : ℂ)⁻¹) • (z • H) ^ j) *ᵥ e0) := by
    have h := krylov_powers A V H hH hcol hm (fun j => ((j ! : ℂ)⁻¹) * z ^ j) m (le_refl _)
    simp only [smul_pow, smul_smul]
    exact h
  have hid : NormedSpace.exp (z • A) *ᵥ (V *ᵥ e0) - V *ᵥ (NormedSpace.exp (z • H) *ᵥ e0) =
      (NormedSpace.exp (z • A) - ∑ j ∈ Finset.range m, ((j ! : ℂ)⁻¹) • (z • A) ^ j) *ᵥ (V *ᵥ e0) -
        V *ᵥ ((NormedSpace.exp (z • H) - ∑ j ∈ Finset.range m, ((j ! : ℂ)⁻¹) • (z • H) ^ j) *ᵥ e0) := by
    rw [sub_mulVec, sub_mulVec, mulVec_sub, hpoly]
    abel
  refine ⟨hid, ?_⟩
  rw [hid]
  have he : enorm e0 = 1 := enorm_of_dot e0 (by simp [he0, dotProduct_single])
  have hVe : enorm (V *ᵥ e0) ≤ 1 := by
    refine (enorm_mulVec_le V e0).trans ?_
    rw [he, mul_one]
    exact l2norm_le_one_of_gram V hV
  have hV1 := l2norm_le_one_of_gram V hV
  have hzA : ‖z • A‖ = ‖z‖ * ‖A‖ := norm_smul z A
  have hzH : ‖z • H‖ = ‖z‖ * ‖H‖ := norm_smul z H
  have hRA := matrix_exp_remainder (z • A) m hm
  have hRH := matrix_exp_remainder (z • H) m hm
  rw [hzA] at hRA
  rw [hzH] at hRH
  refine (enorm_sub_le _ _).trans (add_le_add ?_ ?_)
  · refine (enorm_mulVec_le _ _).trans ?_
    calc _ ≤ expTail m (‖z‖ * ‖A‖) * 1 :=
          mul_le_mul hRA hVe (by unfold enorm; exact norm_nonneg _) (expTail_nonneg m (by positivity))
      _ = _ := mul_one _
  · refine (enorm_mulVec_le _ _).trans ?_
    have h2 : enorm ((NormedSpace.exp (z • H) - ∑ j ∈ Finset.range m, ((j ! : ℂ)⁻¹) • (z • H) ^ j) *ᵥ e0) ≤
        expTail m (‖z‖ * ‖H‖) := by
      refine (enorm_mulVec_le _ _).trans ?_
      rw [he, mul_one]
      exact hRH
    calc _ ≤ 1 * expTail m (‖z‖ * ‖H‖) :=
          mul_le_mul hV1 h2 (by unfold enorm; exact norm_nonneg _) zero_le_one
      _ = _ := one_mul _

end

/-! ### the Lanczos run over ℂ -/
section
variable {n : Type*} [Fintype n] [DecidableEq n]

omit [DecidableEq n] in
theorem basis_gram (A : Matrix n n ℂ) (hA : Aᴴ = A) (v : ℕ → n → ℂ) (α β : ℕ → ℂ) (m : ℕ)
    (h : LanczosRun A v α β m) : (basisMat v m)ᴴ * basisMat v m = 1 := by
  ext i j
  have e := lanczosH_orthonormal A hA v α β m h i j i.2 j.2
  rw [Matrix.mul_apply, Matrix.one_apply]
  simp only [basisMat, Matrix.conjTranspose_apply, Matrix.of_apply, Fin.ext_iff]
  exact e

omit [DecidableEq n] in
theorem basis_proj (A : Matrix n n ℂ) (hA : Aᴴ = A) (v : ℕ → n → ℂ) (α β : ℕ → ℂ) (m : ℕ)
    (h : LanczosRun A v α β m) : (basisMat v m)ᴴ * A * basisMat v m = triMat α β m := by
  ext i j
  have e := lanczosH_tri A hA v α β m h i j i.2 j.2
  rw [Matrix.mul_assoc, Matrix.mul_apply]
  simp only [basisMat, triMat, Matrix.conjTranspose_apply, Matrix.of_apply]
  exact e

/-- `‖T‖₂ ≤ ‖A‖₂` for the tridiagonal matrix of a Lanczos run -/
theorem triMat_norm_le (A : Matrix n n ℂ) (hA : Aᴴ = A) (v : ℕ → n → ℂ) (α β : ℕ → ℂ) (m : ℕ)
    (h : LanczosRun A v α β m) : ‖triMat α β m‖ ≤ ‖A‖ := by
  rw [← basis_proj A hA v α β m h]
  exact l2norm_proj_le A _ (basis_gram A hA v α β m h)

/-- the two-tail bound for a Lanczos run, start vector `c • v₀`, any complex step `z` -/
theorem lanczos_exp_bound (A : Matrix n n ℂ) (hA : Aᴴ = A) (v : ℕ → n → ℂ) (α β : ℕ → ℂ) (m : ℕ) (hm : 0 < m)
    (h : LanczosRun A v α β m) (z c : ℂ) :
    enorm (NormedSpace.exp (z • A) *ᵥ (c • v 0) -
        c • (basisMat v m *ᵥ (NormedSpace.exp (z • triMat α β m) *ᵥ Pi.single (⟨0, hm⟩ : Fin m) (1 : ℂ)))) ≤
      ‖c‖ * (expTail m (‖z‖ * ‖A‖) + expTail m (‖z‖ * ‖triMat α β m‖)) := by
  have hb := (krylov_exp_bound A (basisMat v m) (triMat α β m) (triMat_hess α β m) (lanczos_col A v α β m h) hm
    (basis_gram A hA v α β m h) z).2
  rw [basisMat_single] at hb
  rw [mulVec_smul, ← smul_sub, enorm_smul]
  exact mul_le_mul_of_nonneg_left hb (norm_nonneg c)

/-- the single-tail bound: `‖T‖ ≤ ‖A‖` and monotonicity of the tail -/
theorem lanczos_exp_bound' (A : Matrix n n ℂ) (hA : Aᴴ = A) (v : ℕ → n → ℂ) (α β : ℕ → ℂ) (m : ℕ) (hm : 0 < m)
    (h : LanczosRun A v α β m) (z c : ℂ) :
    enorm (NormedSpace.exp (z • A) *ᵥ (c • v 0) -
        c • (basisMat v m *ᵥ (NormedSpace.exp (z • triMat α β m) *ᵥ Pi.single (⟨0, hm⟩ : Fin m) (1 : ℂ)))) ≤
      ‖c‖ * (2 * expTail m (‖z‖ * ‖A‖)) := by
  refine (lanczos_exp_bound A hA v α β m hm h z c).trans (mul_le_mul_of_nonneg_left ?_ (norm_nonneg c))
  have hT := triMat_norm_le A hA v α β m h
  have := expTail_mono m (mul_nonneg (norm_nonneg z) (norm_nonneg (triMat α β m)))
    (mul_le_mul_of_nonneg_left hT (norm_nonneg z))
  linarith

theorem norm_neg_I_mul (τ : ℝ) : ‖(-(Complex.I * (τ : ℂ)))‖ = |τ| := by
  rw [norm_neg, norm_mul, Complex.norm_I, one_mul, Complex.norm_real, Real.norm_eq_abs]

end

end Yaqs.Krylov
