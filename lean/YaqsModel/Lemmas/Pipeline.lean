import YaqsModel.Model.Pipeline
import Mathlib.Tactic.Linarith

/-! helper lemmas for the time-step pipelines: what each loop writes, column by column -/
namespace Yaqs.Pipeline
open Frac Op Reg Ev

theorem runFrom_append (s : St) (a b : List Ev) : runFrom s (a ++ b) = runFrom (runFrom s a) b := by
  simp [runFrom, List.foldl_append]

@[simp] theorem runFrom_nil (s : St) : runFrom s [] = s := rfl

theorem run_init (J : List Nat) (s : St) :
    runFrom s (tjmInit J) = { s with main := s.main ++ [D half, noiseOp J 0] } := by
  simp [runFrom, tjmInit, noiseStep, stepEv]

theorem run_step (J : List Nat) (k : Nat) (s : St) :
    runFrom s (stepThrough J k) = { s with main := s.main ++ [U, D full, noiseOp J k] } := by
  simp [runFrom, stepThrough, noiseStep, stepEv]

theorem run_sample (J : List Nat) (samp : Bool) (j : Nat) (s : St) :
    runFrom s (sample J samp j) =
      { main := s.main, copy := s.main ++ [U, D half, noiseOp J j],
        cols := s.cols ++ [(if samp then j else 0, s.main ++ [U, D half, noiseOp J j])] } := by
  simp [runFrom, sample, noiseStep, stepEv, St.reg]

/-! ### order 2 -/

/-- sampling on: iteration `j = i+2 … i+1+r` of the loop, entered with `phi` = `phiHist J i` -/
theorem tjm2Loop_samp (J : List Nat) (n : Nat) : ∀ (r i : Nat) (s : St), s.main = phiHist J i →
    (runFrom s (tjm2Loop J true n (i + 2) r)).main = phiHist J (i + r) ∧
    (runFrom s (tjm2Loop J true n (i + 2) r)).cols
      = s.cols ++ (List.range' (i + 2) r).map (fun j => (j, strang J j)) := by
  intro r
  induction r with
  | zero => intro i s h; simp [tjm2Loop, h]
  | succ r ih =>
    intro i s h
    have hs : (i + 2 - 1) = i + 1 := by omega
    simp only [tjm2Loop, Bool.true_or, if_true, runFrom_append, run_step, run_sample, hs]
    have := ih (i + 1) { main := s.main ++ [U, D full, noiseOp J (i + 1)],
                         copy := s.main ++ [U, D full, noiseOp J (i + 1)] ++ [U, D half, noiseOp J (i + 2)],
                         cols := s.cols ++ [(i + 2, s.main ++ [U, D full, noiseOp J (i + 1)] ++ [U, D half, noiseOp J (i + 2)])] }
      (by simp [h, phiHist, phiHistW])
    obtain ⟨h1, h2⟩ := this
    constructor
    · rw [h1]; congr 1; omega
    · rw [h2]
      simp only [List.range'_succ, List.map_cons, List.append_assoc, List.cons_append, List.nil_append, h,
        strang, strangW, phiHist, phiHistW]

/-- sampling off: the loop that ends at `j = n-1` writes column 0 exactly once, in its last iteration -/
theorem tjm2Loop_nosamp (J : List Nat) (n : Nat) : ∀ (r i : Nat) (s : St), s.main = phiHist J i →
    i + 2 + r = n →
    (runFrom s (tjm2Loop J false n (i + 2) r)).cols
      = s.cols ++ (if r = 0 then [] else [(0, strang J (n - 1))]) := by
  intro r
  induction r with
  | zero => intro i s _ _; simp [tjm2Loop]
  | succ r ih =>
    intro i s h hn
    have hs : (i + 2 - 1) = i + 1 := by omega
    simp only [tjm2Loop, Bool.false_or, runFrom_append, run_step, hs]
    by_cases hr : r = 0
    · subst hr
      have hlast : (i + 2 == n - 1) = true := by simp; omega
      simp only [hlast, if_true, run_sample, tjm2Loop, runFrom_nil]
      have hn1 : n - 1 = (i + 1) + 1 := by omega
      simp [h, hn1, strang, strangW, phiHist, phiHistW]
    · have hlast : (i + 2 == n - 1) = false := by simp; omega
      simp only [hlast, Bool.false_eq_true, if_false, runFrom_nil]
      have := ih (i + 1) { s with main := s.main ++ [U, D full, noiseOp J (i + 1)] }
        (by simp [h, phiHist, phiHistW]) (by omega)
      rw [this]
      simp [hr]

theorem range_eq_two (n : Nat) (hn : 2 ≤ n) : List.range n = 0 :: 1 :: List.range' 2 (n - 2) := by
  obtain ⟨k, rfl⟩ : ∃ k, n = k + 2 := ⟨n - 2, by omega⟩
  simp [List.range_eq_range', List.range'_succ]

theorem range_eq_one (n : Nat) (hn : 1 ≤ n) : List.range n = 0 :: List.range' 1 (n - 1) := by
  obtain ⟨k, rfl⟩ : ∃ k, n = k + 1 := ⟨n - 1, by omega⟩
  simp [List.range_eq_range', List.range'_succ]

/-- order 2, sampling on: column `j` is written once, with the Strang history of `j` steps -/
theorem writes_tjm2_samp (J : List Nat) (n : Nat) (hn : 2 ≤ n) :
    writes (tjm2Trace J true n) = (List.range n).map (fun j => (j, strang J j)) := by
  unfold writes run tjm2Trace
  simp only [if_true, Bool.true_or, runFrom_append, run_init, run_sample]
  have h := (tjm2Loop_samp J n (n - 2) 0
    { main := ([] : List Op) ++ [D half, noiseOp J 0],
      copy := ([] : List Op) ++ [D half, noiseOp J 0] ++ [U, D half, noiseOp J 1],
      cols := [(0, [])] ++ [(1, ([] : List Op) ++ [D half, noiseOp J 0] ++ [U, D half, noiseOp J 1])] }
    (by simp [phiHist, phiHistW])).2
  have e : runFrom ({} : St) [eval main 0] = { cols := [(0, [])] } := by
    simp [runFrom, stepEv, St.reg]
  rw [e]
  simp only [Nat.zero_add] at h
  simp only [List.nil_append] at h ⊢
  rw [h, range_eq_two n hn]
  simp [strang, strangW, phiHistW]

/-- order 2, sampling off: the only write is column 0 with the history of all `n-1` steps (incl. `n = 2`, D19) -/
theorem writes_tjm2_nosamp (J : List Nat) (n : Nat) (hn : 2 ≤ n) :
    writes (tjm2Trace J false n) = [(0, strang J (n - 1))] := by
  unfold writes run tjm2Trace
  simp only [Bool.false_eq_true, if_false, Bool.false_or, List.nil_append, runFrom_append, run_init]
  by_cases h2 : n = 2
  · subst h2
    simp [run_sample, tjm2Loop, strang, strangW, phiHistW]
  · have hb : (n == 2) = false := by simp [h2]
    simp only [hb, Bool.false_eq_true, if_false, runFrom_nil]
    have h := tjm2Loop_nosamp J n (n - 2) 0 { main := ([] : List Op) ++ [D half, noiseOp J 0] }
      (by simp [phiHist, phiHistW]) (by omega)
    simp only [Nat.zero_add, List.nil_append] at h
    rw [h]
    have : ¬ (n - 2 = 0) := by omega
    simp [this]

/-! ### order 1 -/

theorem run_tjm1Body_samp (J : List Nat) (n j : Nat) (s : St) :
    runFrom s (tjm1Body J true true n j) =
      { s with main := s.main ++ [U, D full, noiseOp J j],
               cols := s.cols ++ [(j, s.main ++ [U, D full, noiseOp J j])] } := by
  simp [runFrom, tjm1Body, noiseStep, stepEv, St.reg]

theorem run_tjm1Body_samp_nonoise (J : List Nat) (n j : Nat) (s : St) :
    runFrom s (tjm1Body J true false n j) =
      { s with main := s.main ++ [U], cols := s.cols ++ [(j, s.main ++ [U])] } := by
  simp [runFrom, tjm1Body, stepEv, St.reg]

theorem tjm1Loop_samp (J : List Nat) (n : Nat) : ∀ (r i : Nat) (s : St), s.main = lie J i →
    (runFrom s (tjm1Loop J true true n (i + 1) r)).cols
      = s.cols ++ (List.range' (i + 1) r).map (fun j => (j, lie J j)) := by
  intro r
  induction r with
  | zero => intro i s _; simp [tjm1Loop]
  | succ r ih =>
    intro i s h
    simp only [tjm1Loop, runFrom_append, run_tjm1Body_samp]
    rw [ih (i + 1) _ (by simp [h, lie, lieW])]
    simp [List.range'_succ, h, lie, lieW]

theorem tjm1Loop_samp_nonoise (J : List Nat) (n : Nat) : ∀ (r i : Nat) (s : St), s.main = rep [U] i →
    (runFrom s (tjm1Loop J true false n (i + 1) r)).cols
      = s.cols ++ (List.range' (i + 1) r).map (fun j => (j, rep [U] j)) := by
  intro r
  induction r with
  | zero => intro i s _; simp [tjm1Loop]
  | succ r ih =>
    intro i s h
    simp only [tjm1Loop, runFrom_append, run_tjm1Body_samp_nonoise]
    rw [ih (i + 1) _ (by simp [h, rep])]
    simp [List.range'_succ, h, rep]

theorem tjm1Loop_nosamp (J : List Nat) (n : Nat) : ∀ (r i : Nat) (s : St), s.main = lie J i →
    i + 1 + r = n →
    (runFrom s (tjm1Loop J false true n (i + 1) r)).cols
      = s.cols ++ (if r = 0 then [] else [(0, lie J (n - 1))]) := by
  intro r
  induction r with
  | zero => intro i s _ _; simp [tjm1Loop]
  | succ r ih =>
    intro i s h hn
    simp only [tjm1Loop, runFrom_append]
    by_cases hr : r = 0
    · subst hr
      have hlast : (i + 1 == n - 1) = true := by simp; omega
      have hn1 : n - 1 = i + 1 := by omega
      simp [tjm1Body, tjm1Loop, runFrom, noiseStep, stepEv, St.reg, h, hn1, lie, lieW]
    · have hlast : (i + 1 == n - 1) = false := by simp; omega
      have hb : runFrom s (tjm1Body J false true n (i + 1))
          = { s with main := s.main ++ [U, D full, noiseOp J (i + 1)] } := by
        simp [tjm1Body, hlast, runFrom, noiseStep, stepEv]
      rw [hb, ih (i + 1) _ (by simp [h, lie, lieW]) (by omega)]
      simp [hr]

theorem tjm1Loop_nosamp_nonoise (J : List Nat) (n : Nat) : ∀ (r i : Nat) (s : St), s.main = rep [U] i →
    i + 1 + r = n →
    (runFrom s (tjm1Loop J false false n (i + 1) r)).cols
      = s.cols ++ (if r = 0 then [] else [(0, rep [U] (n - 1))]) := by
  intro r
  induction r with
  | zero => intro i s _ _; simp [tjm1Loop]
  | succ r ih =>
    intro i s h hn
    simp only [tjm1Loop, runFrom_append]
    by_cases hr : r = 0
    · subst hr
      have hlast : (i + 1 == n - 1) = true := by simp; omega
      have hn1 : n - 1 = i + 1 := by omega
      simp [tjm1Body, tjm1Loop, runFrom, stepEv, St.reg, h, hn1, rep]
    · have hlast : (i + 1 == n - 1) = false := by simp; omega
      have hb : runFrom s (tjm1Body J false false n (i + 1)) = { s with main := s.main ++ [U] } := by
        simp [tjm1Body, hlast, runFrom, stepEv]
      rw [hb, ih (i + 1) _ (by simp [h, rep]) (by omega)]
      simp [hr]

theorem run_eval0 : runFrom ({} : St) [eval main 0] = { cols := [(0, [])] } := by
  simp [runFrom, stepEv, St.reg]

theorem writes_tjm1_samp (J : List Nat) (n : Nat) (hn : 1 ≤ n) :
    writes (tjm1Trace J true true n) = (List.range n).map (fun j => (j, lie J j)) := by
  unfold writes run tjm1Trace
  simp only [if_true, runFrom_append, run_eval0]
  rw [tjm1Loop_samp J n (n - 1) 0 _ (by simp [lie, lieW]), range_eq_one n hn]
  simp [lie, lieW]

theorem writes_tjm1_samp_nonoise (J : List Nat) (n : Nat) (hn : 1 ≤ n) :
    writes (tjm1Trace J true false n) = (List.range n).map (fun j => (j, rep [U] j)) := by
  unfold writes run tjm1Trace
  simp only [if_true, runFrom_append, run_eval0]
  rw [tjm1Loop_samp_nonoise J n (n - 1) 0 _ (by simp [rep]), range_eq_one n hn]
  simp [rep]

theorem writes_tjm1_nosamp (J : List Nat) (n : Nat) (hn : 2 ≤ n) :
    writes (tjm1Trace J false true n) = [(0, lie J (n - 1))] := by
  unfold writes run tjm1Trace
  simp only [Bool.false_eq_true, if_false, List.nil_append]
  rw [tjm1Loop_nosamp J n (n - 1) 0 _ (by simp [lie, lieW]) (by omega)]
  have : ¬ (n - 1 = 0) := by omega
  simp [this]

theorem writes_tjm1_nosamp_nonoise (J : List Nat) (n : Nat) (hn : 2 ≤ n) :
    writes (tjm1Trace J false false n) = [(0, rep [U] (n - 1))] := by
  unfold writes run tjm1Trace
  simp only [Bool.false_eq_true, if_false, List.nil_append]
  rw [tjm1Loop_nosamp_nonoise J n (n - 1) 0 _ (by simp [rep]) (by omega)]
  have : ¬ (n - 1 = 0) := by omega
  simp [this]

/-! ### MCWF, Lindblad -/

theorem mcwfLoop_samp (n : Nat) : ∀ (r i : Nat) (s : St), s.main = rep [Ueff, Lot] i →
    (runFrom s (mcwfLoop true n (i + 1) r)).cols
      = s.cols ++ (List.range' (i + 1) r).map (fun j => (j, rep [Ueff, Lot] j)) := by
  intro r
  induction r with
  | zero => intro i s _; simp [mcwfLoop]
  | succ r ih =>
    intro i s h
    simp only [mcwfLoop, Bool.true_or, if_true, runFrom_append]
    have hb : runFrom (runFrom s [op main Ueff, op main Lot]) [eval main (i + 1)]
        = { s with main := s.main ++ [Ueff, Lot], cols := s.cols ++ [(i + 1, s.main ++ [Ueff, Lot])] } := by
      simp [runFrom, stepEv, St.reg]
    rw [hb, ih (i + 1) _ (by simp [h, rep])]
    simp [List.range'_succ, h, rep]

theorem mcwfLoop_nosamp (n : Nat) : ∀ (r i : Nat) (s : St), s.main = rep [Ueff, Lot] i →
    i + 1 + r = n →
    (runFrom s (mcwfLoop false n (i + 1) r)).cols
      = s.cols ++ (if r = 0 then [] else [(n - 1, rep [Ueff, Lot] (n - 1))]) := by
  intro r
  induction r with
  | zero => intro i s _ _; simp [mcwfLoop]
  | succ r ih =>
    intro i s h hn
    simp only [mcwfLoop, Bool.false_or, runFrom_append]
    by_cases hr : r = 0
    · subst hr
      have hlast : (i + 1 == n - 1) = true := by simp; omega
      have hn1 : n - 1 = i + 1 := by omega
      simp [mcwfLoop, runFrom, stepEv, St.reg, h, hn1, rep]
    · have hlast : (i + 1 == n - 1) = false := by simp; omega
      have hb : runFrom (runFrom s [op main Ueff, op main Lot]) (if (i + 1 == n - 1) = true then [eval main (i + 1)] else [])
          = { s with main := s.main ++ [Ueff, Lot] } := by
        simp [hlast, runFrom, stepEv]
      rw [hb, ih (i + 1) _ (by simp [h, rep]) (by omega)]
      simp [hr]

theorem writes_mcwf_samp (n : Nat) (hn : 1 ≤ n) :
    writes (mcwfTrace true n) = (List.range n).map (fun j => (j, rep [Ueff, Lot] j)) := by
  unfold writes run mcwfTrace
  simp only [if_true, runFrom_append, run_eval0]
  rw [mcwfLoop_samp n (n - 1) 0 _ (by simp [rep]), range_eq_one n hn]
  simp [rep]

theorem writes_mcwf_nosamp (n : Nat) (hn : 2 ≤ n) :
    writes (mcwfTrace false n) = [(n - 1, rep [Ueff, Lot] (n - 1))] := by
  unfold writes run mcwfTrace
  simp only [Bool.false_eq_true, if_false, List.nil_append]
  rw [mcwfLoop_nosamp n (n - 1) 0 _ (by simp [rep]) (by omega)]
  have : ¬ (n - 1 = 0) := by omega
  simp [this]

theorem lindbladLoop_cols : ∀ (r i : Nat) (s : St), s.main = rep [Flow] i →
    (runFrom s (lindbladLoop (i + 1) r)).cols
      = s.cols ++ (List.range' (i + 1) r).map (fun j => (j, rep [Flow] j)) := by
  intro r
  induction r with
  | zero => intro i s _; simp [lindbladLoop]
  | succ r ih =>
    intro i s h
    simp only [lindbladLoop, runFrom_append]
    have hb : runFrom s [op main Flow, eval main (i + 1)]
        = { s with main := s.main ++ [Flow], cols := s.cols ++ [(i + 1, s.main ++ [Flow])] } := by
      simp [runFrom, stepEv, St.reg]
    rw [hb, ih (i + 1) _ (by simp [h, rep])]
    simp [List.range'_succ, h, rep]

theorem writes_lindblad (n : Nat) (hn : 1 ≤ n) :
    writes (lindbladTrace n) = (List.range n).map (fun j => (j, rep [Flow] j)) := by
  unfold writes run lindbladTrace
  have : (eval main 0 :: lindbladLoop 1 (n - 1)) = [eval main 0] ++ lindbladLoop 1 (n - 1) := rfl
  rw [this, runFrom_append, run_eval0, lindbladLoop_cols (n - 1) 0 _ (by simp [rep]), range_eq_one n hn]
  simp [rep]

/-! ### from the list of writes to the returned columns -/

theorem find_rev_range (f : Nat → List Op) (n c : Nat) (hc : c < n) :
    (((List.range n).map (fun j => (j, f j))).reverse.find? (fun w => w.1 == c)) = some (c, f c) := by
  induction n with
  | zero => omega
  | succ n ih =>
    rw [List.range_succ, List.map_append, List.reverse_append]
    simp only [List.map_cons, List.map_nil, List.reverse_cons, List.reverse_nil, List.nil_append,
      List.cons_append, List.find?_cons]
    by_cases h : n = c
    · subst h; simp
    · have : (n == c) = false := by simp [h]
      simp only [this]
      exact ih (by omega)

theorem colHist_of_range (tr : List Ev) (f : Nat → List Op) (n : Nat)
    (h : writes tr = (List.range n).map (fun j => (j, f j))) (c : Nat) (hc : c < n) :
    colHist tr c = some (f c) := by
  unfold colHist
  rw [h, find_rev_range f n c hc]
  rfl

theorem output_of_range (tr : List Ev) (f : Nat → List Op) (n : Nat)
    (h : writes tr = (List.range n).map (fun j => (j, f j))) :
    output tr (List.range n) = (List.range n).map (fun j => some (f j)) := by
  unfold output
  apply List.map_congr_left
  intro c hc
  exact colHist_of_range tr f n h c (List.mem_range.mp hc)

theorem colHist_single (tr : List Ev) (c : Nat) (hist : List Op) (h : writes tr = [(c, hist)]) :
    colHist tr c = some hist := by
  unfold colHist
  rw [h]
  simp

/-! ### the returned arrays -/

theorem tjm2Out_samp (J : List Nat) (n : Nat) (hn : 2 ≤ n) :
    tjm2Out J true n = (List.range n).map (fun j => some (strang J j)) := by
  unfold tjm2Out tjmWidth
  simp only [if_true]
  exact output_of_range _ _ n (writes_tjm2_samp J n hn)

theorem tjm2Out_nosamp (J : List Nat) (n : Nat) (hn : 2 ≤ n) :
    tjm2Out J false n = [some (strang J (n - 1))] := by
  unfold tjm2Out tjmWidth output
  simp [List.range_succ, colHist_single _ 0 _ (writes_tjm2_nosamp J n hn)]

theorem tjm1Out_samp (J : List Nat) (n : Nat) (hn : 1 ≤ n) :
    tjm1Out J true true n = (List.range n).map (fun j => some (lie J j)) := by
  unfold tjm1Out tjmWidth
  simp only [if_true]
  exact output_of_range _ _ n (writes_tjm1_samp J n hn)

theorem tjm1Out_samp_nonoise (J : List Nat) (n : Nat) (hn : 1 ≤ n) :
    tjm1Out J true false n = (List.range n).map (fun j => some (rep [U] j)) := by
  unfold tjm1Out tjmWidth
  simp only [if_true]
  exact output_of_range _ _ n (writes_tjm1_samp_nonoise J n hn)

theorem tjm1Out_nosamp (J : List Nat) (n : Nat) (hn : 2 ≤ n) :
    tjm1Out J false true n = [some (lie J (n - 1))] := by
  unfold tjm1Out tjmWidth output
  simp [List.range_succ, colHist_single _ 0 _ (writes_tjm1_nosamp J n hn)]

theorem tjm1Out_nosamp_nonoise (J : List Nat) (n : Nat) (hn : 2 ≤ n) :
    tjm1Out J false false n = [some (rep [U] (n - 1))] := by
  unfold tjm1Out tjmWidth output
  simp [List.range_succ, colHist_single _ 0 _ (writes_tjm1_nosamp_nonoise J n hn)]

theorem mcwfOut_samp (n : Nat) (hn : 1 ≤ n) :
    mcwfOut true n = (List.range n).map (fun j => some (rep [Ueff, Lot] j)) := by
  unfold mcwfOut sliceOut
  simp only [if_true]
  exact output_of_range _ _ n (writes_mcwf_samp n hn)

theorem mcwfOut_nosamp (n : Nat) (hn : 2 ≤ n) :
    mcwfOut false n = [some (rep [Ueff, Lot] (n - 1))] := by
  unfold mcwfOut sliceOut output
  simp [colHist_single _ (n - 1) _ (writes_mcwf_nosamp n hn)]

theorem lindbladOut_samp (n : Nat) (hn : 1 ≤ n) :
    lindbladOut true n = (List.range n).map (fun j => some (rep [Flow] j)) := by
  unfold lindbladOut sliceOut
  simp only [if_true]
  exact output_of_range _ _ n (writes_lindblad n hn)

theorem lindbladOut_nosamp (n : Nat) (hn : 1 ≤ n) :
    lindbladOut false n = [some (rep [Flow] (n - 1))] := by
  unfold lindbladOut sliceOut output
  simp [colHist_of_range _ _ n (writes_lindblad n hn) (n - 1) (by omega)]

end Yaqs.Pipeline
