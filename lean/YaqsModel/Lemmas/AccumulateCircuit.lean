import YaqsModel.Lemmas.AccumulateEnsemble
import Mathlib.Analysis.Matrix.Normed
import Mathlib.LinearAlgebra.Matrix.Trace
import Mathlib.LinearAlgebra.Matrix.ConjTranspose

/-!
# Lemmas.AccumulateCircuit — the fan of `Lemmas/AccumulateEnsemble.lean` with an ideal gate layer before every noise step

The circuit form of C03: between two noise steps the state is conjugated by the ideal gate layer `G_k` (a step-dependent
unitary).  Exact reference `ρ_{k+1} = exp(s𝓛)(G_k ρ_k G_k†)` (`circuitRef`); the scheme applies `G_k` to every ensemble member
(`ensGate`) and then the noise lottery (`ensStep`).  The exact one-layer map `F_k = exp(s𝓛) ∘ (G_k · G_k†)` is linear, so the
flow-stable fan `accumulate_flow_seminorm` (which already allows step-dependent maps) applies; what is needed on top is that
the gate conjugation is non-expansive in the seminorm.  For the Frobenius seminorm (`frobSeminorm`, `‖X‖_F² = Σ|x_ij|² =
re tr(X†X)`) it is an isometry by cyclicity of the trace (`frob_conj_unitary`), so the gate layers cost nothing.
-/
namespace Yaqs.Consistency

open Matrix NormedSpace Yaqs.MasterEq

variable {n : Type} [Fintype n] [DecidableEq n]

noncomputable section

/-! ### the Frobenius seminorm and its unitary invariance -/

section Frob
attribute [local instance] Matrix.frobeniusSeminormedAddCommGroup Matrix.frobeniusNormedSpace

/-- `(Σ_{i,j} |M i j|²)^{1/2}` as a seminorm on matrices -/
def frobSeminorm : Seminorm ℝ (Matrix n n ℂ) := normSeminorm ℝ (Matrix n n ℂ)

omit [DecidableEq n] in
/-- `‖X‖_F² = Σ_{i,j} |x_ij|²` -/
theorem frobSeminorm_sq (X : Matrix n n ℂ) : frobSeminorm X ^ 2 = ∑ i, ∑ j, ‖X i j‖ ^ 2 := by
  show ‖X‖ ^ 2 = _
  rw [Matrix.frobenius_norm_def]
  have h0 : 0 ≤ ∑ i, ∑ j, ‖X i j‖ ^ (2 : ℝ) :=
    Finset.sum_nonneg fun i _ => Finset.sum_nonneg fun j _ => Real.rpow_nonneg (norm_nonneg _) _
  rw [← Real.rpow_natCast, ← Real.rpow_mul h0]
  norm_num

end Frob

omit [DecidableEq n] in
/-- `re tr(X†X) = Σ_{i,j} |x_ij|²` -/
theorem trace_conjTranspose_mul_self_re (X : Matrix n n ℂ) : (trace (Xᴴ * X)).re = ∑ i, ∑ j, ‖X i j‖ ^ 2 := by
  simp only [trace, diag_apply, mul_apply, conjTranspose_apply, Complex.re_sum]
  rw [Finset.sum_comm]
  refine Finset.sum_congr rfl fun i _ => Finset.sum_congr rfl fun j _ => ?_
  rw [Complex.star_def, Complex.conj_mul', ← Complex.ofReal_pow, Complex.ofReal_re]

omit [DecidableEq n] in
/-- `‖X‖_F² = re tr(X†X)` -/
theorem frobSeminorm_sq_trace (X : Matrix n n ℂ) : frobSeminorm X ^ 2 = (trace (Xᴴ * X)).re := by
  rw [frobSeminorm_sq, trace_conjTranspose_mul_self_re]

/-- unitary invariance of the Frobenius seminorm under conjugation: `U†U = 1 ⇒ ‖U X U†‖_F = ‖X‖_F`
    (on a finite index type `U†U = 1` already gives `UU† = 1`; only `U†U = 1` is used, twice, with trace cyclicity) -/
theorem frob_conj_unitary (U X : Matrix n n ℂ) (hU : Uᴴ * U = 1) : frobSeminorm (U * X * Uᴴ) = frobSeminorm X := by
  rw [← sq_eq_sq₀ (apply_nonneg _ _) (apply_nonneg _ _), frobSeminorm_sq_trace, frobSeminorm_sq_trace]
  congr 1
  have e : (U * X * Uᴴ)ᴴ * (U * X * Uᴴ) = U * (Xᴴ * X * Uᴴ) := by
    rw [conjTranspose_mul, conjTranspose_mul, conjTranspose_conjTranspose]
    calc U * (Xᴴ * Uᴴ) * (U * X * Uᴴ) = U * (Xᴴ * ((Uᴴ * U) * X) * Uᴴ) := by simp only [Matrix.mul_assoc]
      _ = U * (Xᴴ * X * Uᴴ) := by rw [hU, Matrix.one_mul]
  rw [e, trace_mul_comm, Matrix.mul_assoc, hU, Matrix.mul_one]

/-! ### the gate layer on ensembles -/

/-- the ideal gate layer acts on every ensemble member, `ψ_i ↦ G ψ_i`, weights unchanged -/
def ensGate (G : Matrix n n ℂ) (ens : Ens n) : Ens n := ens.map fun e => (e.1, G *ᵥ e.2)

omit [DecidableEq n] in
theorem vecMulVec_gate (G : Matrix n n ℂ) (ψ : n → ℂ) :
    vecMulVec (G *ᵥ ψ) (star (G *ᵥ ψ)) = G * vecMulVec ψ (star ψ) * Gᴴ := by
  rw [star_mulVec, mul_vecMulVec, vecMulVec_mul]

omit [DecidableEq n] in
/-- the state of the gate-conjugated ensemble is the conjugated state, `Σ w_i (Gψ_i)(Gψ_i)† = G (Σ w_i ψ_iψ_i†) G†` -/
theorem ensState_gate (G : Matrix n n ℂ) (ens : Ens n) : ensState (ensGate G ens) = G * ensState ens * Gᴴ := by
  induction ens with
  | nil => simp [ensState, ensGate]
  | cons e t ih =>
    have ih' : (List.map (fun e : ℝ × (n → ℂ) => e.1 • vecMulVec e.2 (star e.2)) (ensGate G t)).sum
        = G * (List.map (fun e : ℝ × (n → ℂ) => e.1 • vecMulVec e.2 (star e.2)) t).sum * Gᴴ := ih
    simp only [ensState, ensGate, List.map_cons, List.sum_cons] at ih' ⊢
    rw [ih', vecMulVec_gate, Matrix.mul_add, Matrix.add_mul, Matrix.mul_smul, Matrix.smul_mul]

/-- a gate with `G†G = 1` keeps unit vectors unit -/
theorem gate_unit (G : Matrix n n ℂ) (hG : Gᴴ * G = 1) (ψ : n → ℂ) : star (G *ᵥ ψ) ⬝ᵥ (G *ᵥ ψ) = star ψ ⬝ᵥ ψ := by
  rw [star_mulVec, dotProduct_mulVec, vecMul_vecMul, hG, vecMul_one]

/-- … hence maps ensembles to ensembles -/
theorem isEnsemble_gate (G : Matrix n n ℂ) (hG : Gᴴ * G = 1) (ens : Ens n) (h : IsEnsemble ens) :
    IsEnsemble (ensGate G ens) := by
  refine ⟨fun e he => ?_, ?_⟩
  · simp only [ensGate, List.mem_map] at he
    obtain ⟨e0, he0, rfl⟩ := he
    exact ⟨(h.1 e0 he0).1, by rw [gate_unit G hG]; exact (h.1 e0 he0).2⟩
  · have : (ensGate G ens).map Prod.fst = ens.map Prod.fst := by
      simp [ensGate, List.map_map, Function.comp_def]
    rw [this]; exact h.2

/-- conjugation by `G` as an `ℝ`-linear map on matrices -/
def conjL (G : Matrix n n ℂ) : Matrix n n ℂ →ₗ[ℝ] Matrix n n ℂ where
  toFun M := G * M * Gᴴ
  map_add' := by intro a b; simp [Matrix.mul_add, Matrix.add_mul]
  map_smul' := by intro r a; simp

@[simp] theorem conjL_apply (G M : Matrix n n ℂ) : conjL G M = G * M * Gᴴ := rfl

/-- the exact circuit reference on the layer grid: `ρ_0 = ρ₀`, `ρ_{k+1} = exp(s𝓛)(G_k ρ_k G_k†)` -/
def circuitRef (H : Matrix n n ℂ) (Ls : List (Proc (Matrix n n ℂ))) (s : ℝ) (G : ℕ → Matrix n n ℂ) (ρ₀ : Matrix n n ℂ) :
    ℕ → Matrix n n ℂ
  | 0 => ρ₀
  | k + 1 => lindFlow H Ls s (G k * circuitRef H Ls s G ρ₀ k * (G k)ᴴ)

/-- global error of the ensemble average through `m` layers (gate, then noise step), any seminorm in which the gate
    conjugations are non-expansive: fan with the step-dependent linear maps `F ∘ (G_k · G_k†)` -/
theorem ens_global_circuit (N : Seminorm ℝ (Matrix n n ℂ)) (F : Matrix n n ℂ →ₗ[ℝ] Matrix n n ℂ)
    (Ls : List (Proc (Matrix n n ℂ))) (B : Matrix n n ℂ) (G : ℕ → Matrix n n ℂ) (dt K C : ℝ)
    (hK : 0 ≤ K) (hdt : 0 ≤ dt) (hC : 0 ≤ C)
    (m : ℕ) (ens : ℕ → Ens n) (y : ℕ → Matrix n n ℂ)
    (hG : ∀ k < m, (G k)ᴴ * G k = 1)
    (hinv : ∀ k < m, ∀ M, N (G k * M * (G k)ᴴ) ≤ N M)
    (hens : ∀ k < m, IsEnsemble (ens k))
    (hstep : ∀ k < m, ensState (ens (k + 1)) = ensStep Ls B (ensGate (G k) (ens k)))
    (hy : ∀ k < m, y (k + 1) = F (G k * y k * (G k)ᴴ))
    (hloc : ∀ ψ : n → ℂ, star ψ ⬝ᵥ ψ = 1 → N (pureAverage Ls (B *ᵥ ψ) - F (vecMulVec ψ (star ψ))) ≤ C * dt ^ 2)
    (hstab : ∀ M, N (F M) ≤ (1 + K * dt) * N M) :
    N (ensState (ens m) - y m)
      ≤ Real.exp (K * (m * dt)) * (N (ensState (ens 0) - y 0) + C * (m * dt) * dt) := by
  have hu : 0 ≤ K * dt := mul_nonneg hK hdt
  have hg : 0 ≤ 1 + K * dt := by linarith
  have h1 := Yaqs.Accumulate.accumulate_flow_seminorm N (fun k => F.comp (conjL (G k))) (fun k => ensState (ens k)) y
    (1 + K * dt) (C * dt ^ 2) hg m
    (fun k hk => by rw [hy k hk]; rfl)
    (fun k hk u => by
      show N (F (G k * u * (G k)ᴴ)) ≤ (1 + K * dt) * N u
      exact (hstab _).trans (mul_le_mul_of_nonneg_left (hinv k hk u) hg))
    (fun k hk => by
      show N (ensState (ens (k + 1)) - F (G k * ensState (ens k) * (G k)ᴴ)) ≤ C * dt ^ 2
      rw [hstep k hk, ← ensState_gate]
      exact ens_local_one N F Ls B _ hloc _ (isEnsemble_gate (G k) (hG k hk) _ (hens k hk)))
  have h2 := Yaqs.Accumulate.fan_le_exp (K * dt) (N (ensState (ens 0) - y 0)) (C * dt ^ 2) hu
    (apply_nonneg N _) (by positivity) m
  refine (h1.trans h2).trans (le_of_eq ?_)
  have e1 : (m : ℝ) * (K * dt) = K * (m * dt) := by ring
  have e2 : (m : ℝ) * (C * dt ^ 2) = C * (m * dt) * dt := by ring
  rw [e1, e2]

/-! ### the noise-free instance (used for the non-vacuity example of `Props/C03.lean::c03_first_order_global_circuit`) -/

omit [DecidableEq n] in
/-- no processes: the branch average of `φ` is `φφ†` -/
theorem pureAverage_nil (φ : n → ℂ) : pureAverage ([] : List (Proc (Matrix n n ℂ))) φ = vecMulVec φ (star φ) := by
  simp [pureAverage]

open scoped Matrix.Norms.Operator in
omit [DecidableEq n] in
set_option backward.isDefEq.respectTransparency false in
/-- no Hamiltonian, no processes: the exact flow is the identity -/
theorem lindFlow_nil (s : ℝ) (M : Matrix n n ℂ) : lindFlow (0 : Matrix n n ℂ) [] s M = M := by
  unfold lindFlow
  have h0 : s • lindCLM (0 : Matrix n n ℂ) [] = 0 := by
    ext x i j
    simp [lindCLM_apply, lind, lindbladian]
  rw [h0]
  have h1 : exp (0 : Matrix n n ℂ →L[ℝ] Matrix n n ℂ) = 1 := exp_zero
  rw [h1]
  rfl

/-- no processes, identity no-jump propagator: the noise step leaves the ensemble state unchanged -/
theorem ensStep_nil (ens : Ens n) : ensStep ([] : List (Proc (Matrix n n ℂ))) 1 ens = ensState ens := by
  simp [ensStep, ensState, pureAverage_nil]

end

end Yaqs.Consistency
