import YaqsModel.Model.Krylov
import Mathlib.Tactic.Linarith
import Mathlib.Tactic.Ring
import Mathlib.LinearAlgebra.Matrix.NonsingularInverse
import Mathlib.Analysis.Complex.Exponential
import Mathlib.Algebra.Polynomial.AlgebraMap
import Mathlib.Algebra.Star.Pi
import Mathlib.Analysis.InnerProductSpace.PiL2

/-! helper lemmas for the Krylov exit logic and the reconstruction (kept apart from the property theorems) -/
namespace Yaqs.Krylov

-- needed only by the `decide +kernel` non-vacuity examples of `Props/C19.lean`
deriving instance DecidableEq for Exit

/-! ### exit logic of the Lanczos loop -/

theorem mem_slice {k i : Nat} (h : i ∈ slice k) : i + 1 < k := by
  unfold slice at h
  rw [List.mem_range] at h
  omega

/-- what the loop guarantees about its `Exit` (reads and writes kept apart; `exit_logic` joins them) -/
def LanczosSpec (mMax : Nat) (epsCut tol : Rat) (β φ : Nat → Rat) (e : Exit) : Prop :=
  ((∃ j, lanczosStops mMax epsCut tol β φ j ∧ (∀ i, i < j → ¬ lanczosStops mMax epsCut tol β φ i) ∧
      e.k = j + 1 ∧ (e.kind = .breakdown ↔ β j < epsCut) ∧ (e.kind = .converged ↔ ¬ β j < epsCut))
    ∨ ((∀ j, ¬ lanczosStops mMax epsCut tol β φ j) ∧ e.k = mMax ∧ e.kind = .exhausted))
  ∧ (∀ i ∈ e.reads, i + 1 < mMax) ∧ (∀ i ∈ e.writes, i + 1 < mMax) ∧ 1 ≤ e.k ∧ e.k ≤ mMax

theorem lanczosLoop_spec (mMax : Nat) (epsCut tol : Rat) (β φ : Nat → Rat) (hm : 1 ≤ mMax) :
    ∀ (n j : Nat) (rd wr : List Nat) (ns : Nat), n + j = mMax →
      (∀ i ∈ rd, i + 1 < mMax) → (∀ i ∈ wr, i + 1 < mMax) →
      (∀ i, i < j → ¬ lanczosStops mMax epsCut tol β φ i) →
      LanczosSpec mMax epsCut tol β φ (lanczosLoop mMax epsCut tol β φ n j rd wr ns) := by
  intro n
  induction n with
  | zero =>
    intro j rd wr ns hnj hrd hwr hno
    have hnone : ∀ i, ¬ lanczosStops mMax epsCut tol β φ i := by
      intro i hi
      by_cases h : i < j
      · exact hno i h hi
      · have := hi.1; omega
    rw [lanczosLoop]
    split
    · exact ⟨Or.inr ⟨hnone, rfl, rfl⟩, hrd, hwr, hm, Nat.le_refl _⟩
    · refine ⟨Or.inr ⟨hnone, rfl, rfl⟩, ?_, hwr, hm, Nat.le_refl _⟩
      intro i hi
      rcases List.mem_append.mp hi with h | h
      · exact hrd i h
      · exact mem_slice h
  | succ n ih =>
    intro j rd wr ns hnj hrd hwr hno
    have hjm : j < mMax := by omega
    have hrd1 : ∀ i ∈ (if j > 0 then rd ++ [j - 1] else rd), i + 1 < mMax := by
      intro i hi
      split at hi
      · rcases List.mem_append.mp hi with h | h
        · exact hrd i h
        · have := List.mem_singleton.mp h; omega
      · exact hrd i hi
    have hwr1 : ∀ i ∈ (if j < mMax - 1 then wr ++ [j] else wr), i + 1 < mMax := by
      intro i hi
      split at hi
      · rcases List.mem_append.mp hi with h | h
        · exact hwr i h
        · have := List.mem_singleton.mp h; omega
      · exact hwr i hi
    have hsl : ∀ i ∈ slice (j + 1), i + 1 < mMax := fun i hi => by have := mem_slice hi; omega
    have happ : ∀ (a b : List Nat), (∀ i ∈ a, i + 1 < mMax) → (∀ i ∈ b, i + 1 < mMax) →
        ∀ i ∈ a ++ b, i + 1 < mMax := by
      intro a b ha hb i hi
      rcases List.mem_append.mp hi with h | h
      · exact ha i h
      · exact hb i h
    -- the recursive call: iteration `j` does not stop
    have hrec : ¬ lanczosStops mMax epsCut tol β φ j →
        ∀ i, i < j + 1 → ¬ lanczosStops mMax epsCut tol β φ i := by
      intro hj i hi
      by_cases h : i = j
      · rw [h]; exact hj
      · exact hno i (by omega)
    rw [lanczosLoop]
    simp only
    by_cases hbd : j < mMax - 1 ∧ β j < epsCut
    · -- breakdown
      rw [if_pos hbd]
      refine ⟨Or.inl ⟨j, ⟨hbd.1, Or.inl hbd.2⟩, hno, rfl, ?_, ?_⟩, happ _ _ hrd1 hsl, hwr1, by simp, hjm⟩
      · exact ⟨fun _ => hbd.2, fun _ => rfl⟩
      · exact ⟨fun h => Kind.noConfusion h, fun h => absurd hbd.2 h⟩
    · rw [if_neg hbd]
      by_cases hj1 : j ≥ 1
      · rw [if_pos hj1]
        by_cases hlt : j < mMax - 1
        · rw [if_pos hlt]
          have hnb : ¬ β j < epsCut := fun h => hbd ⟨hlt, h⟩
          have hj' : ∀ i ∈ [j], i + 1 < mMax := by
            intro i hi; have := List.mem_singleton.mp hi; omega
          by_cases hc : β j * φ j < tol
          · -- converged
            rw [if_pos hc]
            refine ⟨Or.inl ⟨j, ⟨hlt, Or.inr ⟨hj1, hc⟩⟩, hno, rfl, ?_, ?_⟩,
              happ _ _ (happ _ _ hrd1 hsl) hj', hwr1, by simp, hjm⟩
            · exact ⟨fun h => Kind.noConfusion h, fun h => absurd h hnb⟩
            · exact ⟨fun _ => hnb, fun _ => rfl⟩
          · rw [if_neg hc]
            apply ih (j + 1) _ _ _ (by omega) (happ _ _ (happ _ _ hrd1 hsl) hj') hwr1
            apply hrec
            intro hs
            rcases hs.2 with h | h
            · exact hnb h
            · exact hc h.2
        · rw [if_neg hlt]
          apply ih (j + 1) _ _ _ (by omega) (happ _ _ hrd1 hsl) hwr1
          apply hrec
          intro hs
          exact hlt hs.1
      · rw [if_neg hj1]
        apply ih (j + 1) _ _ _ (by omega) hrd1 hwr1
        apply hrec
        intro hs
        rcases hs.2 with h | h
        · exact hbd ⟨hs.1, h⟩
        · omega

/-! ### exit logic of the Arnoldi loop -/

def ArnoldiSpec (mMax : Nat) (thr tol : Rat) (η φ : Nat → Rat) (e : Exit) : Prop :=
  ((∃ j, arnoldiStops mMax thr tol η φ j ∧ (∀ i, i < j → ¬ arnoldiStops mMax thr tol η φ i) ∧
      e.k = j + 1 ∧ (e.kind = .breakdown ↔ η j < thr) ∧ (e.kind = .converged ↔ ¬ η j < thr))
    ∨ ((∀ j, ¬ arnoldiStops mMax thr tol η φ j) ∧ e.k = mMax ∧ e.kind = .exhausted))
  ∧ e.k ≤ mMax ∧ (∀ c ∈ e.writes, c ≤ mMax) ∧ e.reads = []

theorem arnoldiLoop_spec (mMax : Nat) (thr tol : Rat) (η φ : Nat → Rat) :
    ∀ (n j : Nat) (cols : List Nat) (ns : Nat), n + j = mMax →
      (∀ c ∈ cols, c ≤ mMax) →
      (∀ i, i < j → ¬ arnoldiStops mMax thr tol η φ i) →
      ArnoldiSpec mMax thr tol η φ (arnoldiLoop mMax thr tol η φ n j cols ns) := by
  intro n
  induction n with
  | zero =>
    intro j cols ns hnj hc hno
    have hnone : ∀ i, ¬ arnoldiStops mMax thr tol η φ i := by
      intro i hi
      by_cases h : i < j
      · exact hno i h hi
      · have := hi.1; omega
    rw [arnoldiLoop]
    exact ⟨Or.inr ⟨hnone, rfl, rfl⟩, Nat.le_refl _, hc, rfl⟩
  | succ n ih =>
    intro j cols ns hnj hc hno
    have hjm : j < mMax := by omega
    have hc1 : ∀ c ∈ cols ++ [j + 1], c ≤ mMax := by
      intro c hi
      rcases List.mem_append.mp hi with h | h
      · exact hc c h
      · have := List.mem_singleton.mp h; omega
    have hrec : ¬ arnoldiStops mMax thr tol η φ j →
        ∀ i, i < j + 1 → ¬ arnoldiStops mMax thr tol η φ i := by
      intro hj i hi
      by_cases h : i = j
      · rw [h]; exact hj
      · exact hno i (by omega)
    rw [arnoldiLoop]
    simp only
    by_cases hbd : η j < thr
    · rw [if_pos hbd]
      refine ⟨Or.inl ⟨j, ⟨hjm, Or.inl hbd⟩, hno, rfl, ?_, ?_⟩, hjm, hc, rfl⟩
      · exact ⟨fun _ => hbd, fun _ => rfl⟩
      · exact ⟨fun h => Kind.noConfusion h, fun h => absurd hbd h⟩
    · rw [if_neg hbd]
      by_cases hj1 : j ≥ 1
      · rw [if_pos hj1]
        by_cases hcv : η j * φ j < tol
        · rw [if_pos hcv]
          refine ⟨Or.inl ⟨j, ⟨hjm, Or.inr ⟨hj1, hcv⟩⟩, hno, rfl, ?_, ?_⟩, hjm, hc1, rfl⟩
          · exact ⟨fun h => Kind.noConfusion h, fun h => absurd h hbd⟩
          · exact ⟨fun _ => hbd, fun _ => rfl⟩
        · rw [if_neg hcv]
          apply ih (j + 1) _ _ (by omega) hc1
          apply hrec
          intro hs
          rcases hs.2 with h | h
          · exact hbd h
          · exact hcv h.2
      · rw [if_neg hj1]
        apply ih (j + 1) _ _ (by omega) hc1
        apply hrec
        intro hs
        rcases hs.2 with h | h
        · exact hbd h
        · omega

/-! ### the reconstruction `nrm • V (Q diag(d) Qᴴ) e₁` (Mathlib matrices) -/

open Matrix

/-- a matrix with orthonormal columns preserves the (sesquilinear) square norm -/
theorem gram_mulVec {n k : Type*} [Fintype n] [Fintype k] [DecidableEq k]
    (V : Matrix n k ℂ) (hV : Vᴴ * V = 1) (x : k → ℂ) :
    star (V *ᵥ x) ⬝ᵥ (V *ᵥ x) = star x ⬝ᵥ x := by
  rw [star_mulVec, ← dotProduct_mulVec, mulVec_mulVec, hV, one_mulVec]

/-- `Q diag(d) Qᴴ` is unitary when `Q` is and all `d i` have modulus one -/
theorem spectral_unitary {k : Type*} [Fintype k] [DecidableEq k]
    (Q : Matrix k k ℂ) (hQ : Qᴴ * Q = 1) (d : k → ℂ) (hd : ∀ i, star (d i) * d i = 1) :
    (Q * diagonal d * Qᴴ)ᴴ * (Q * diagonal d * Qᴴ) = 1 := by
  have hQ' : Q * Qᴴ = 1 := mul_eq_one_comm.mp hQ
  have hdd : diagonal (star d) * diagonal d = (1 : Matrix k k ℂ) := by
    rw [diagonal_mul_diagonal, ← diagonal_one]
    congr 1
    funext i
    exact hd i
  rw [conjTranspose_mul, conjTranspose_mul, conjTranspose_conjTranspose, diagonal_conjTranspose]
  calc Q * (diagonal (star d) * Qᴴ) * (Q * diagonal d * Qᴴ)
      = Q * (diagonal (star d) * (Qᴴ * Q) * diagonal d) * Qᴴ := by simp only [Matrix.mul_assoc]
    _ = 1 := by rw [hQ, Matrix.mul_one, hdd, Matrix.mul_one, hQ']

theorem smul_norm_sq {n : Type*} [Fintype n] (c : ℝ) (x : n → ℂ) :
    star ((c : ℂ) • x) ⬝ᵥ ((c : ℂ) • x) = (c : ℂ) ^ 2 * (star x ⬝ᵥ x) := by
  rw [star_smul, smul_dotProduct, dotProduct_smul]
  simp only [smul_eq_mul, Complex.star_def, Complex.conj_ofReal]
  ring

/-! ### exactness on an invariant subspace -/

theorem pow_intertwine {n k K : Type*} [Fintype n] [Fintype k] [DecidableEq n] [DecidableEq k] [CommRing K]
    (A : Matrix n n K) (T : Matrix k k K) (V : Matrix n k K) (h : A * V = V * T) (m : ℕ) :
    A ^ m * V = V * T ^ m := by
  induction m with
  | zero => simp
  | succ m ih => rw [pow_succ, Matrix.mul_assoc, h, ← Matrix.mul_assoc, ih, Matrix.mul_assoc, ← pow_succ]

theorem aeval_intertwine {n k K : Type*} [Fintype n] [Fintype k] [DecidableEq n] [DecidableEq k] [CommRing K]
    (A : Matrix n n K) (T : Matrix k k K) (V : Matrix n k K) (h : A * V = V * T) (p : Polynomial K) :
    (Polynomial.aeval A p) * V = V * (Polynomial.aeval T p) := by
  rw [Polynomial.aeval_eq_sum_range, Polynomial.aeval_eq_sum_range, Matrix.sum_mul, Matrix.mul_sum]
  refine Finset.sum_congr rfl (fun i _ => ?_)
  rw [Matrix.smul_mul, Matrix.mul_smul, pow_intertwine A T V h]

/-- a polynomial of a diagonal matrix is taken entrywise -/
theorem aeval_diagonal {k K : Type*} [Fintype k] [DecidableEq k] [CommRing K] (lam : k → K) (p : Polynomial K) :
    Polynomial.aeval (diagonal lam) p = diagonal (fun i => p.eval (lam i)) := by
  have h1 := Polynomial.aeval_algHom_apply (Matrix.diagonalAlgHom K) lam p
  rw [Matrix.diagonalAlgHom_apply, Matrix.diagonalAlgHom_apply] at h1
  rw [h1]
  congr 1
  funext i
  have h2 := Polynomial.aeval_algHom_apply (Pi.evalAlgHom K (fun _ : k => K) i) lam p
  simp only [Pi.evalAlgHom_apply] at h2
  rw [← h2, Polynomial.coe_aeval_eq_eval]

theorem conj_pow' {k K : Type*} [Fintype k] [DecidableEq k] [CommRing K] (Q Qi D : Matrix k k K)
    (hQ : Qi * Q = 1) (m : ℕ) : (Q * D * Qi) ^ m = Q * D ^ m * Qi := by
  have hQ' : Q * Qi = 1 := mul_eq_one_comm.mp hQ
  induction m with
  | zero => simp [hQ']
  | succ m ih =>
    rw [pow_succ, ih, pow_succ]
    calc Q * D ^ m * Qi * (Q * D * Qi) = Q * D ^ m * (Qi * Q) * D * Qi := by simp only [Matrix.mul_assoc]
      _ = Q * (D ^ m * D) * Qi := by rw [hQ, Matrix.mul_one]; simp only [Matrix.mul_assoc]

theorem aeval_conj {k K : Type*} [Fintype k] [DecidableEq k] [CommRing K] (Q Qi D : Matrix k k K)
    (hQ : Qi * Q = 1) (p : Polynomial K) :
    Polynomial.aeval (Q * D * Qi) p = Q * Polynomial.aeval D p * Qi := by
  rw [Polynomial.aeval_eq_sum_range, Polynomial.aeval_eq_sum_range, Matrix.mul_sum, Matrix.sum_mul]
  refine Finset.sum_congr rfl (fun i _ => ?_)
  rw [conj_pow' Q Qi D hQ, Matrix.mul_smul, Matrix.smul_mul]

/-- the spectral calculus the code uses (`Q diag(f(λ)) Qᴴ`) agrees with every polynomial of `T = Q diag(λ) Qᴴ` -/
theorem aeval_spectral {k K : Type*} [Fintype k] [DecidableEq k] [CommRing K] (Q Qi : Matrix k k K)
    (hQ : Qi * Q = 1) (lam : k → K) (p : Polynomial K) :
    Polynomial.aeval (Q * diagonal lam * Qi) p = Q * diagonal (fun i => p.eval (lam i)) * Qi := by
  rw [aeval_conj Q Qi _ hQ, aeval_diagonal]

/-- the sesquilinear square `star y ⬝ᵥ y = c²` is the Euclidean norm statement `‖y‖ = |c|` -/
theorem norm_of_dot {n : Type*} [Fintype n] (y : n → ℂ) (c : ℝ) (h : star y ⬝ᵥ y = (c : ℂ) ^ 2) :
    ‖(WithLp.toLp 2 y : EuclideanSpace ℂ n)‖ = |c| := by
  rw [EuclideanSpace.norm_eq, ← Real.sqrt_sq_eq_abs]
  congr 1
  have h2 : ((∑ i, ‖y i‖ ^ 2 : ℝ) : ℂ) = ((c ^ 2 : ℝ) : ℂ) := by
    rw [← Complex.ofReal_pow] at h
    rw [← h, dotProduct, Complex.ofReal_sum]
    refine Finset.sum_congr rfl (fun i _ => ?_)
    rw [Pi.star_apply, Complex.star_def, Complex.conj_mul']
    push_cast
    rfl
  exact_mod_cast h2

/-! ### the three-term recurrence produces orthogonal vectors (exact arithmetic, symmetric `A`) -/

theorem dot_symm_mulVec {n K : Type*} [Fintype n] [CommRing K] (A : Matrix n n K) (hA : Aᵀ = A) (x y : n → K) :
    x ⬝ᵥ A *ᵥ y = A *ᵥ x ⬝ᵥ y := by
  rw [dotProduct_mulVec, ← mulVec_transpose, hA]

/-- three-term recurrence with the convention `w 0 = 0` (`w (j+1)` is the `j`-th Lanczos vector) -/
theorem lanczos_orth_aux {n K : Type*} [Fintype n] [CommRing K] (A : Matrix n n K) (hA : Aᵀ = A)
    (w : ℕ → n → K) (a b : ℕ → K) (hw0 : w 0 = 0)
    (hrec : ∀ j, w (j + 2) = A *ᵥ w (j + 1) - a j • w (j + 1) - b j • w j) (m : ℕ)
    (ha : ∀ j, j < m → a j * (w (j + 1) ⬝ᵥ w (j + 1)) = w (j + 1) ⬝ᵥ A *ᵥ w (j + 1))
    (hb : ∀ j, 1 ≤ j → j < m → b j * (w j ⬝ᵥ w j) = w (j + 1) ⬝ᵥ w (j + 1)) :
    ∀ i j, i < j → j ≤ m + 1 → w i ⬝ᵥ w j = 0 := by
  induction m with
  | zero =>
    intro i j hij hj
    have : i = 0 := by omega
    rw [this, hw0, zero_dotProduct]
  | succ m ih =>
    have IH := ih (fun j hj => ha j (by omega)) (fun j h1 hj => hb j h1 (by omega))
    intro i j hij hj
    by_cases hjm : j ≤ m + 1
    · exact IH i j hij hjm
    have hj2 : j = m + 2 := by omega
    subst hj2
    -- `A w_i` expanded by the recurrence, for `1 ≤ i ≤ m + 1`
    have hAw : ∀ i', i' + 1 ≤ m → w (i' + 1) ⬝ᵥ A *ᵥ w (m + 1) = w (i' + 2) ⬝ᵥ w (m + 1) := by
      intro i' hi'
      have e1 : A *ᵥ w (i' + 1) = w (i' + 2) + a i' • w (i' + 1) + b i' • w i' := by
        rw [hrec i']; abel
      rw [dot_symm_mulVec A hA, e1, add_dotProduct, add_dotProduct, smul_dotProduct, smul_dotProduct,
        IH (i' + 1) (m + 1) (by omega) (le_refl _), IH i' (m + 1) (by omega) (le_refl _)]
      simp
    rw [hrec m, dotProduct_sub, dotProduct_sub, dotProduct_smul, dotProduct_smul]
    rcases Nat.eq_zero_or_pos i with hi0 | hipos
    · rw [hi0, hw0]; simp
    obtain ⟨i', rfl⟩ : ∃ i', i = i' + 1 := ⟨i - 1, by omega⟩
    by_cases him : i' + 1 = m + 1
    · -- i = m + 1
      rw [him, ← ha m (by omega), dotProduct_comm (w (m + 1)) (w m), IH m (m + 1) (by omega) (le_refl _)]
      simp
    · have hle : i' + 1 ≤ m := by omega
      rw [hAw i' hle, IH (i' + 1) (m + 1) (by omega) (le_refl _)]
      by_cases him2 : i' + 1 = m
      · -- i = m
        subst him2
        have hbm := hb (i' + 1) (by omega) (by omega)
        rw [smul_eq_mul, smul_eq_mul, hbm]
        simp
      · rw [IH (i' + 2) (m + 1) (by omega) (le_refl _), IH (i' + 1) m (by omega) (by omega)]
        simp

/-- shift: `shiftVec u 0 = 0` plays the role of `u_{-1} = 0`, `shiftVec u (j+1) = u j` -/
def shiftVec {n K : Type*} [Zero K] (u : ℕ → n → K) : ℕ → n → K
  | 0 => 0
  | j + 1 => u j

theorem lanczos_orth_mul {n K : Type*} [Fintype n] [CommRing K] (A : Matrix n n K) (hA : Aᵀ = A)
    (u : ℕ → n → K) (a b : ℕ → K) (m : ℕ)
    (h0 : u 1 = A *ᵥ u 0 - a 0 • u 0)
    (hrec : ∀ j, u (j + 2) = A *ᵥ u (j + 1) - a (j + 1) • u (j + 1) - b (j + 1) • u j)
    (ha : ∀ j, j < m → a j * (u j ⬝ᵥ u j) = u j ⬝ᵥ A *ᵥ u j)
    (hb : ∀ j, j + 1 < m → b (j + 1) * (u j ⬝ᵥ u j) = u (j + 1) ⬝ᵥ u (j + 1)) :
    ∀ i j, i < j → j ≤ m → u i ⬝ᵥ u j = 0 := by
  intro i j hij hj
  have key := lanczos_orth_aux A hA (shiftVec u) a b rfl ?_ m ?_ ?_ (i + 1) (j + 1) (by omega) (by omega)
  · exact key
  · intro j
    cases j with
    | zero => simp only [shiftVec]; rw [h0]; simp
    | succ j => simp only [shiftVec]; exact hrec j
  · intro j hj; simp only [shiftVec]; exact ha j hj
  · intro j h1 hj
    obtain ⟨j', rfl⟩ : ∃ j', j = j' + 1 := ⟨j - 1, by omega⟩
    simp only [shiftVec]; exact hb j' hj

theorem lanczos_Au {n K : Type*} [Fintype n] [CommRing K] (A : Matrix n n K)
    (u : ℕ → n → K) (a b : ℕ → K)
    (h0 : u 1 = A *ᵥ u 0 - a 0 • u 0)
    (hrec : ∀ j, u (j + 2) = A *ᵥ u (j + 1) - a (j + 1) • u (j + 1) - b (j + 1) • u j) (i : ℕ) :
    A *ᵥ u i = u (i + 1) + a i • u i + b i • shiftVec u i := by
  cases i with
  | zero => rw [h0]; simp [shiftVec]
  | succ i => rw [hrec i]; simp only [shiftVec]; abel

end Yaqs.Krylov
