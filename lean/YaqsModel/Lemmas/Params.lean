import YaqsModel.Model.Params
import Mathlib.Tactic.Ring
import Mathlib.Tactic.Linarith
import Mathlib.Algebra.Order.Ring.Rat

/-! helper lemmas for `Model.Params` (C20) -/
namespace Yaqs.Params

/-! ### counting -/

theorem total_nil : total [] = 0 := rfl

theorem total_cons (kv : Nat × Nat) (c : Counts) : total (kv :: c) = kv.2 + total c := by
  simp [total]

theorem total_addCount (c : Counts) (k v : Nat) : total (addCount c k v) = total c + v := by
  induction c with
  | nil => simp [addCount, total]
  | cons x xs ih =>
    obtain ⟨k', v'⟩ := x
    simp only [addCount]
    split
    · simp [total_cons]; omega
    · simp [total_cons, ih]; omega

theorem total_addAll (acc d : Counts) : total (addAll acc d) = total acc + total d := by
  unfold addAll
  induction d generalizing acc with
  | nil => simp [total]
  | cons x xs ih => simp only [List.foldl_cons]; rw [ih, total_addCount, total_cons]; omega

theorem total_insertSorted (kv : Nat × Nat) (c : Counts) : total (insertSorted kv c) = kv.2 + total c := by
  induction c with
  | nil => simp [insertSorted, total]
  | cons x xs ih =>
    simp only [insertSorted]
    split
    · simp [total_cons]
    · simp [total_cons, ih]; omega

theorem total_sortCounts (c : Counts) : total (sortCounts c) = total c := by
  unfold sortCounts
  induction c with
  | nil => rfl
  | cons x xs ih => simp only [List.foldr_cons]; rw [total_insertSorted, ih, total_cons]

theorem total_filter_nonzero (c : Counts) : total (c.filter (·.2 ≠ 0)) = total c := by
  induction c with
  | nil => rfl
  | cons x xs ih =>
    simp only [ne_eq, decide_not] at ih ⊢
    by_cases h : x.2 = 0
    · simp [List.filter, h, total_cons, ih]
    · simp [List.filter, h, total_cons, ih]

theorem total_foldl_addAll (l : List Counts) (acc : Counts) :
    total (l.foldl addAll acc) = total acc + (l.map total).sum := by
  induction l generalizing acc with
  | nil => simp
  | cons x xs ih => simp only [List.foldl_cons, List.map_cons, List.sum_cons]; rw [ih, total_addAll]; omega

theorem sum_map_eq_length {β : Type} (l : List β) (g : β → Nat) (h : ∀ x ∈ l, g x = 1) :
    (l.map g).sum = l.length := by
  induction l with
  | nil => rfl
  | cons x xs ih =>
    simp only [List.map_cons, List.sum_cons, List.length_cons]
    rw [h x (by simp), ih (fun y hy => h y (by simp [hy]))]; omega

/-! ### the store-filling loop -/

theorem set_append_mid {β : Type} (pre : List β) (x y : β) (rest : List β) :
    (pre ++ x :: rest).set pre.length y = pre ++ y :: rest := by
  induction pre with
  | nil => rfl
  | cons a as ih => simp [ih]

/-- looping over `a, a+1, …, a+m-1` fills exactly these slots and never fails when the slots exist -/
theorem fillLoop_range' {β : Type} (f : Nat → β) : ∀ (m a : Nat) (pre suf : List (Option β)) (ex : List Nat),
    pre.length = a →
    fillLoop f (List.range' a m) (pre ++ List.replicate m none ++ suf) ex
      = (pre ++ (List.range' a m).map (fun i => some (f i)) ++ suf, ex.reverse ++ List.range' a m, false)
  | 0, a, pre, suf, ex, _ => by simp [fillLoop]
  | m + 1, a, pre, suf, ex, h => by
    have hlt : a < (pre ++ List.replicate (m + 1) none ++ suf).length := by
      simp [h]
    have hset : (pre ++ List.replicate (m + 1) none ++ suf).set a (some (f a))
        = (pre ++ [some (f a)]) ++ List.replicate m none ++ suf := by
      rw [List.replicate_succ, List.append_assoc, List.cons_append, ← h, set_append_mid]
      simp
    rw [List.range'_succ]
    simp only [fillLoop, hlt, if_true]
    rw [hset, fillLoop_range' f m (a + 1) (pre ++ [some (f a)]) suf (a :: ex) (by simp [h])]
    simp

theorem fillLoop_range {β : Type} (f : Nat → β) (n : Nat) (suf : List (Option β)) :
    fillLoop f (List.range n) (List.replicate n none ++ suf) []
      = ((List.range n).map (fun i => some (f i)) ++ suf, List.range n, false) := by
  have := fillLoop_range' f n 0 [] suf [] rfl
  simpa [List.range_eq_range'] using this

theorem fillLoop_empty_store {β : Type} (f : Nat → β) (i : Nat) (is ex : List Nat) :
    fillLoop f (i :: is) [] ex = ([], (i :: ex).reverse, true) := by
  simp [fillLoop]

/-! ### aggregation -/

theorem any_isNone_map_some {β γ : Type} (l : List β) (g : β → γ) :
    (l.map (fun i => some (g i))).any (·.isNone) = false := by
  induction l with
  | nil => rfl
  | cons x xs ih => simp [ih]

theorem filterMap_id_map_some {β γ : Type} (l : List β) (g : β → γ) :
    (l.map (fun i => some (g i))).filterMap id = l.map g := by
  induction l with
  | nil => rfl
  | cons x xs ih => simp [ih]

theorem aggregate_all_some (l : List Nat) (g : Nat → Counts) :
    aggregate (l.map (fun i => some (g i))) = .ok (sortCounts ((l.map g).foldl addAll [])) := by
  unfold aggregate
  rw [any_isNone_map_some, filterMap_id_map_some]
  simp

theorem aggregate_head_some (c : Counts) (n : Nat) :
    ∃ r, aggregate (some c :: List.replicate n none) = .ok r ∧ total r = total c := by
  unfold aggregate
  cases n with
  | zero =>
    refine ⟨sortCounts (addAll [] c), ?_, ?_⟩
    · simp
    · rw [total_sortCounts, total_addAll]; simp [total]
  | succ n =>
    refine ⟨sortCounts c, ?_, total_sortCounts c⟩
    simp [List.replicate_succ]

/-! ### means -/

theorem meanRows_single (x : Rat) : meanRows [some x] = some x := by
  simp [meanRows, sumRows]

end Yaqs.Params

namespace Yaqs.Params

/-! ### closed forms of one run -/

/-- number of trajectories a strong / analog run executes -/
def trajCount (p : Obj) (single : Bool) : Nat := if single then 1 else p.numTraj

theorem runTraj_ok (restore : Bool) (p : Obj) (single : Bool) (be : Nat → Rat)
    (h : single = true ∨ p.getState = false) :
    runTraj restore p single be =
      ⟨{ p with numTraj := if restore then p.numTraj else trajCount p single,
                rows := (List.range (trajCount p single)).map (fun i => some (be i)),
                results := meanRows ((List.range (trajCount p single)).map (fun i => some (be i))) },
       List.range (trajCount p single), p.shots, none⟩ := by
  have hb : (!single && p.getState) = false := by
    rcases h with h | h <;> simp [h]
  have hf := fillLoop_range be (trajCount p single) []
  simp only [List.append_nil] at hf
  unfold runTraj
  simp only [hb, Bool.false_eq_true, if_false]
  cases single <;> cases restore <;> simp [trajCount] at hf ⊢ <;> simp [hf]

theorem runTraj_err (restore : Bool) (p : Obj) (be : Nat → Rat) (h : p.getState = true) :
    runTraj restore p false be = ⟨p, [], p.shots, some .assertGetState⟩ := by
  unfold runTraj
  simp [h]

/-- the measurement store after a weak run -/
def weakStore (nf : Bool) (s : Nat) (bw : Nat → Nat → Counts) : List (Option Counts) :=
  if nf then some (bw 0 s) :: List.replicate (s - 1) none else (List.range s).map (fun i => some (bw i 1))

theorem aggregate_weakStore (nf : Bool) (s : Nat) (bw : Nat → Nat → Counts) :
    ∃ c, aggregate (weakStore nf s bw) = .ok c ∧
      total c = if nf then total (bw 0 s) else ((List.range s).map (fun i => total (bw i 1))).sum := by
  cases nf with
  | true =>
    obtain ⟨r, h1, h2⟩ := aggregate_head_some (bw 0 s) (s - 1)
    exact ⟨r, by simpa [weakStore] using h1, by simpa using h2⟩
  | false =>
    refine ⟨_, by simpa [weakStore] using aggregate_all_some (List.range s) (fun i => bw i 1), ?_⟩
    rw [total_sortCounts, total_foldl_addAll]
    simp [total, List.map_map, Function.comp_def]

theorem runWeak_ok (p : Obj) (nf : Bool) (bw : Nat → Nat → Counts)
    (hg : nf = true ∨ p.getState = false) (hs : nf = true → 0 < p.shots) :
    ∃ c, aggregate (weakStore nf p.shots bw) = .ok c ∧
      runWeak p nf bw =
        ⟨{ p with measurements := weakStore nf p.shots bw, numTraj := if nf then 1 else p.shots, counts := c },
         List.range (if nf then 1 else p.shots), if nf then p.shots else 1, none⟩ := by
  obtain ⟨c, hc, _⟩ := aggregate_weakStore nf p.shots bw
  refine ⟨c, hc, ?_⟩
  have hb : (!nf && p.getState) = false := by
    rcases hg with h | h <;> simp [h]
  unfold runWeak runWeakG
  simp only [if_true, hb, Bool.false_and, Bool.false_eq_true, if_false]
  cases nf with
  | true =>
    obtain ⟨s', hs'⟩ : ∃ s', p.shots = s' + 1 := ⟨p.shots - 1, by have := hs rfl; omega⟩
    have hf : fillLoop (fun i => bw i (s' + 1)) [0] (List.replicate (s' + 1) none) []
        = (some (bw 0 (s' + 1)) :: List.replicate s' none, [0], false) := by
      simp [fillLoop, List.replicate_succ]
    simp only [weakStore, if_true, hs', Nat.add_sub_cancel] at hc
    simp [hf, weakStore, hs', hc]
  | false =>
    have hf := fillLoop_range (fun i => bw i 1) p.shots []
    simp only [List.append_nil] at hf
    simp only [weakStore, Bool.false_eq_true, if_false] at hc
    simp [hf, weakStore, hc]

theorem runWeak_getstate_err (p : Obj) (bw : Nat → Nat → Counts) (h : p.getState = true) :
    runWeak p false bw =
      ⟨{ p with measurements := List.replicate p.shots none }, [], p.shots, some .assertGetState⟩ := by
  unfold runWeak runWeakG
  simp [h]

theorem runWeakAssertLate_getstate_err (p : Obj) (bw : Nat → Nat → Counts) (h : p.getState = true) :
    runWeakAssertLate p false bw =
      ⟨{ p with measurements := List.replicate p.shots none, numTraj := p.shots, shots := 1 }, [], 1,
       some .assertGetState⟩ := by
  unfold runWeakAssertLate runWeakG
  simp [h]

theorem runWeak_zero_shots_err (p : Obj) (bw : Nat → Nat → Counts) (h : p.shots = 0) :
    (runWeak p true bw).err = some .indexError ∧
    (runWeak p true bw).obj = { p with measurements := [], numTraj := 1 } := by
  unfold runWeak runWeakG
  simp [h, fillLoop, List.range, List.range.loop]

end Yaqs.Params

namespace Yaqs.Params

/-! ### one `simulator.run` on an object -/

/-- the constructor arguments of a parameter object that a run may depend on -/
def SameArgs (p q : Obj) : Prop :=
  p.kind = q.kind ∧ p.getState = q.getState ∧ p.lindblad = q.lindblad ∧
  (p.kind ≠ .weak → p.numTraj = q.numTraj) ∧ (p.kind = .weak → p.shots = q.shots)

theorem SameArgs.refl (p : Obj) : SameArgs p p := ⟨rfl, rfl, rfl, fun _ => rfl, fun _ => rfl⟩

theorem SameArgs.trans {p q r : Obj} (h1 : SameArgs p q) (h2 : SameArgs q r) : SameArgs p r := by
  obtain ⟨a1, a2, a3, a4, a5⟩ := h1
  obtain ⟨b1, b2, b3, b4, b5⟩ := h2
  refine ⟨a1.trans b1, a2.trans b2, a3.trans b3, fun h => (a4 h).trans (b4 (a1 ▸ h)), fun h => (a5 h).trans (b5 (a1 ▸ h))⟩

theorem SameArgs.symm {p q : Obj} (h : SameArgs p q) : SameArgs q p := by
  obtain ⟨a1, a2, a3, a4, a5⟩ := h
  exact ⟨a1.symm, a2.symm, a3.symm, fun h => (a4 (a1 ▸ h)).symm, fun h => (a5 (a1 ▸ h)).symm⟩

/-- what the caller reads off the object after a run -/
def delivered (o : Out) : Option Rat × Counts :=
  match o.obj.kind with
  | .weak => (none, o.obj.counts)
  | _ => (o.obj.results, [])

/-- "this call needs one trajectory only" -/
def single (p : Obj) (a : Arg) : Bool :=
  match p.kind with
  | .strong => isNoiseFree a.noise
  | .analog => isNoiseFree a.noise || p.lindblad
  | .weak => isNoiseFree a.noise

/-- the call is one the code accepts: no final state from a stochastic run, at least one shot for the one-shot path -/
def Accepts (p : Obj) (a : Arg) : Prop :=
  (single p a = true ∨ p.getState = false) ∧ (p.kind = .weak → single p a = true → 0 < p.shots)

theorem expected_eq (p : Obj) (a : Arg) :
    expected p a = if single p a then 1 else (if p.kind = .weak then p.shots else p.numTraj) := by
  unfold expected single
  cases p.kind <;> simp

/-- closed form of an accepted call -/
theorem runObj_accepts (p : Obj) (a : Arg) (h : Accepts p a) :
    (runObj p a).err = none ∧ (runObj p a).executed = List.range (expected p a) ∧
    SameArgs (runObj p a).obj p ∧
    (p.kind = .weak → (runObj p a).shotsSeen = (if single p a then p.shots else 1) ∧
      ∃ c, aggregate (weakStore (single p a) p.shots a.bw) = .ok c ∧ (runObj p a).obj.counts = c) ∧
    (p.kind ≠ .weak → (runObj p a).obj.results
        = meanRows ((List.range (expected p a)).map (fun i => some (a.be i)))) := by
  obtain ⟨hg, hs⟩ := h
  rw [expected_eq]
  unfold runObj
  cases hk : p.kind with
  | strong =>
    simp only [single, hk] at hg hs ⊢
    rw [runStrong, runTraj_ok true p _ a.be hg]
    simp [trajCount, SameArgs, hk]
  | analog =>
    simp only [single, hk] at hg hs ⊢
    rw [runAnalog, runTraj_ok true p _ a.be hg]
    simp [trajCount, SameArgs, hk]
  | weak =>
    have hs' := hs hk
    simp only [single, hk] at hg hs' ⊢
    obtain ⟨c, hc, hrun⟩ := runWeak_ok p (isNoiseFree a.noise) a.bw hg hs'
    rw [hrun]
    simp [SameArgs, hk, hc]

/-- a call that is not accepted raises, and what it leaves behind -/
theorem runObj_rejects (p : Obj) (a : Arg) (h : ¬ Accepts p a) : (runObj p a).err ≠ none := by
  unfold Accepts at h
  unfold runObj
  cases hk : p.kind with
  | strong =>
    simp only [single, hk] at h
    have hs : isNoiseFree a.noise = false ∧ p.getState = true := by
      cases h1 : isNoiseFree a.noise <;> cases h2 : p.getState <;> simp_all
    rw [runStrong, hs.1, runTraj_err true p a.be hs.2]; simp
  | analog =>
    simp only [single, hk] at h
    have hs : (isNoiseFree a.noise || p.lindblad) = false ∧ p.getState = true := by
      cases h1 : (isNoiseFree a.noise || p.lindblad) <;> cases h2 : p.getState <;> simp_all
    rw [runAnalog, hs.1, runTraj_err true p a.be hs.2]; simp
  | weak =>
    simp only [single, hk] at h
    cases h1 : isNoiseFree a.noise with
    | false =>
      have h2 : p.getState = true := by
        cases h2 : p.getState <;> simp_all
      rw [runWeak_getstate_err p a.bw h2]; simp
    | true =>
      have h0 : p.shots = 0 := by
        by_contra hne
        apply h
        refine ⟨Or.inl h1, ?_⟩
        intros
        exact Nat.pos_of_ne_zero hne
      rw [(runWeak_zero_shots_err p a.bw h0).1]; simp

theorem runObj_err_iff (p : Obj) (a : Arg) : (runObj p a).err = none ↔ Accepts p a := by
  constructor
  · intro h; by_contra hn; exact runObj_rejects p a hn h
  · intro h; exact (runObj_accepts p a h).1

/-- whatever happens — accepted or refused — the constructor arguments survive the call -/
theorem runObj_sameArgs (p : Obj) (a : Arg) : SameArgs (runObj p a).obj p := by
  by_cases hacc : Accepts p a
  · exact (runObj_accepts p a hacc).2.2.1
  · unfold Accepts at hacc
    unfold runObj
    cases hk : p.kind with
    | strong =>
      simp only [single, hk] at hacc
      have hs : isNoiseFree a.noise = false ∧ p.getState = true := by
        cases h1 : isNoiseFree a.noise <;> cases h2 : p.getState <;> simp_all
      rw [runStrong, hs.1, runTraj_err true p a.be hs.2]; exact SameArgs.refl p
    | analog =>
      simp only [single, hk] at hacc
      have hs : (isNoiseFree a.noise || p.lindblad) = false ∧ p.getState = true := by
        cases h1 : (isNoiseFree a.noise || p.lindblad) <;> cases h2 : p.getState <;> simp_all
      rw [runAnalog, hs.1, runTraj_err true p a.be hs.2]; exact SameArgs.refl p
    | weak =>
      simp only [single, hk] at hacc
      cases h1 : isNoiseFree a.noise with
      | false =>
        have h2 : p.getState = true := by
          cases h2 : p.getState <;> simp_all
        rw [runWeak_getstate_err p a.bw h2]
        exact ⟨rfl, rfl, rfl, fun _ => rfl, fun _ => rfl⟩
      | true =>
        have h0 : p.shots = 0 := by
          by_contra hne
          apply hacc
          refine ⟨Or.inl h1, ?_⟩
          intros
          exact Nat.pos_of_ne_zero hne
        rw [(runWeak_zero_shots_err p a.bw h0).2]
        exact ⟨rfl, rfl, rfl, fun h => absurd hk h, fun _ => rfl⟩

theorem single_congr {p q : Obj} (h : SameArgs p q) (a : Arg) : single p a = single q a := by
  obtain ⟨a1, _, a3, _, _⟩ := h
  unfold single
  rw [← a1, ← a3]

theorem expected_congr {p q : Obj} (h : SameArgs p q) (a : Arg) : expected p a = expected q a := by
  rw [expected_eq, expected_eq, single_congr h a]
  obtain ⟨a1, _, _, a4, a5⟩ := h
  cases hk : p.kind <;> simp_all

theorem accepts_congr {p q : Obj} (h : SameArgs p q) (a : Arg) : Accepts p a ↔ Accepts q a := by
  unfold Accepts
  rw [single_congr h a]
  obtain ⟨a1, a2, _, _, a5⟩ := h
  rw [a2, a1]
  constructor
  · intro ⟨h1, h2⟩; exact ⟨h1, fun hw hsg => by rw [← a5 (a1 ▸ hw)]; exact h2 hw hsg⟩
  · intro ⟨h1, h2⟩; exact ⟨h1, fun hw hsg => by rw [a5 (a1 ▸ hw)]; exact h2 hw hsg⟩

theorem runObj_kind (p : Obj) (a : Arg) (h : Accepts p a) : (runObj p a).obj.kind = p.kind :=
  (runObj_accepts p a h).2.2.1.1

/-- two objects constructed with the same arguments deliver the same for the same call -/
theorem runObj_congr {p q : Obj} (h : SameArgs p q) (a : Arg) (hp : Accepts p a) :
    (runObj q a).err = none ∧ (runObj p a).executed = (runObj q a).executed ∧
    delivered (runObj p a) = delivered (runObj q a) := by
  have hq : Accepts q a := (accepts_congr h a).mp hp
  obtain ⟨_, e1, s1, w1, r1⟩ := runObj_accepts p a hp
  obtain ⟨e0, e2, s2, w2, r2⟩ := runObj_accepts q a hq
  refine ⟨e0, by rw [e1, e2, expected_congr h a], ?_⟩
  unfold delivered
  rw [s1.1, s2.1, ← h.1]
  cases hk : p.kind with
  | weak =>
    have hkq : q.kind = .weak := h.1 ▸ hk
    obtain ⟨_, c1, hc1, hd1⟩ := w1 hk
    obtain ⟨_, c2, hc2, hd2⟩ := w2 hkq
    rw [single_congr h a, h.2.2.2.2 hk, hc2] at hc1
    simp only [hd1, hd2]
    injection hc1 with hc1
    rw [hc1]
  | strong =>
    have hkq : q.kind ≠ .weak := by rw [← h.1, hk]; simp
    simp only [r1 (by rw [hk]; simp), r2 hkq, expected_congr h a]
  | analog =>
    have hkq : q.kind ≠ .weak := by rw [← h.1, hk]; simp
    simp only [r1 (by rw [hk]; simp), r2 hkq, expected_congr h a]

end Yaqs.Params
