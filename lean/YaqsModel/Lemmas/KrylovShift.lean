import YaqsModel.Lemmas.KrylovBound

/-! Shift invariance of the Lanczos approximation (xp19 extension; helper lemmas for `Props/C19.lean`): the run for `A − c·1`
    (`c` real) has the same vectors and `β`, and `α − c`; both exponentials pick up the same scalar phase `e^{−zc}`, of modulus one for
    `z = −iτ`.  So the a-priori bound holds with `‖A − c·1‖` — half the spectral width for the best `c` — in place of `‖A‖`. -/
namespace Yaqs.Krylov

open Matrix

section
variable {n K : Type*} [Fintype n] [DecidableEq n] [Field K] [StarRing K]

omit [StarRing K] in
theorem shift_mulVec (A : Matrix n n K) (c : K) (x : n → K) : (A - c • (1 : Matrix n n K)) *ᵥ x = A *ᵥ x - c • x := by
  rw [sub_mulVec, smul_mulVec, one_mulVec]

/-- the run of the shifted operator -/
theorem lanczosRun_shift (A : Matrix n n K) (v : ℕ → n → K) (α β : ℕ → K) (m : ℕ) (h : LanczosRun A v α β m)
    (c : K) (hc : star c = c) : LanczosRun (A - c • (1 : Matrix n n K)) v (fun j => α j - c) β m := by
  refine ⟨?_, ?_, ?_, h.unit, h.nobreak, ?_, h.beta_real⟩
  · intro h1
    rw [shift_mulVec, h.first h1, sub_smul]
    abel
  · intro j hj
    rw [shift_mulVec, h.step j hj, sub_smul]
    abel
  · intro j hj
    rw [shift_mulVec, ip_sub_right, ip_smul_right, h.unit j hj, ← h.alpha j hj, mul_one]
  · intro j
    rw [star_sub, h.alpha_real j, hc]

omit [Fintype n] [DecidableEq n] [StarRing K] in
theorem triMat_shift (α β : ℕ → K) (m : ℕ) (c : K) :
    triMat (fun j => α j - c) β m = triMat α β m - c • (1 : Matrix (Fin m) (Fin m) K) := by
  ext i j
  simp only [triMat, Matrix.of_apply, tri, Matrix.sub_apply, Matrix.smul_apply, Matrix.one_apply, Fin.ext_iff,
    smul_eq_mul]
  by_cases hij : (i : ℕ) = (j : ℕ)
  · rw [if_pos hij, if_pos hij, if_pos hij, mul_one]
  · rw [if_neg hij, if_neg hij, if_neg hij, mul_zero, sub_zero]

end

section
variable {k : Type*} [Fintype k] [DecidableEq k]

/-- `exp(z (X − c·1)) = e^{−zc} · exp(zX)` -/
theorem exp_shift (X : Matrix k k ℂ) (z c : ℂ) :
    NormedSpace.exp (z • (X - c • (1 : Matrix k k ℂ))) = Complex.exp (-(z * c)) • NormedSpace.exp (z • X) := by
  have hsplit : z • (X - c • (1 : Matrix k k ℂ)) = diagonal (fun _ : k => -(z * c)) + z • X := by
    rw [smul_sub, smul_smul, sub_eq_neg_add, ← neg_smul, ← Matrix.smul_one_eq_diagonal]
  have hcomm : Commute (diagonal (fun _ : k => -(z * c))) (z • X) := by
    rw [← Matrix.smul_one_eq_diagonal]
    exact (Commute.one_left _).smul_left _
  have hd : NormedSpace.exp (fun _ : k => -(z * c)) = fun _ : k => Complex.exp (-(z * c)) := by
    funext i
    rw [Pi.coe_exp, ← Complex.exp_eq_exp_ℂ]
  rw [hsplit, Matrix.exp_add_of_commute _ _ hcomm, Matrix.exp_diagonal, hd, ← Matrix.smul_one_eq_diagonal,
    Matrix.smul_mul, Matrix.one_mul]

theorem norm_exp_neg_I_mul (τ c : ℝ) : ‖Complex.exp (-(-(Complex.I * (τ : ℂ)) * (c : ℂ)))‖ = 1 := by
  have : -(-(Complex.I * (τ : ℂ)) * (c : ℂ)) = ((τ * c : ℝ) : ℂ) * Complex.I := by
    push_cast; ring
  rw [this, Complex.norm_exp_ofReal_mul_I]

end

section
variable {n : Type*} [Fintype n] [DecidableEq n]

open scoped Matrix.Norms.L2Operator

/-- the a-priori bound with the shifted norm, any step `z` for which the phase `e^{−zc}` has modulus one -/
theorem lanczos_exp_bound_shift_gen (A : Matrix n n ℂ) (hA : Aᴴ = A) (v : ℕ → n → ℂ) (α β : ℕ → ℂ) (m : ℕ) (hm : 0 < m)
    (h : LanczosRun A v α β m) (z : ℂ) (c : ℝ) (hphase : ‖Complex.exp (-(z * (c : ℂ)))‖ = 1) (c0 : ℂ) :
    enorm (NormedSpace.exp (z • A) *ᵥ (c0 • v 0) -
        c0 • (basisMat v m *ᵥ (NormedSpace.exp (z • triMat α β m) *ᵥ Pi.single (⟨0, hm⟩ : Fin m) (1 : ℂ)))) ≤
      ‖c0‖ * (2 * expTail m (‖z‖ * ‖A - (c : ℂ) • (1 : Matrix n n ℂ)‖)) := by
  have hcr : star (c : ℂ) = (c : ℂ) := Complex.conj_ofReal c
  have hA' : (A - (c : ℂ) • (1 : Matrix n n ℂ))ᴴ = A - (c : ℂ) • (1 : Matrix n n ℂ) := by
    rw [conjTranspose_sub, conjTranspose_smul, conjTranspose_one, hA, hcr]
  have hrun := lanczosRun_shift A v α β m h (c : ℂ) hcr
  have hb := lanczos_exp_bound' (A - (c : ℂ) • (1 : Matrix n n ℂ)) hA' v (fun j => α j - (c : ℂ)) β m hm hrun z c0
  rw [triMat_shift, exp_shift, exp_shift] at hb
  -- the common phase factors out
  have hfac : (Complex.exp (-(z * (c : ℂ))) • NormedSpace.exp (z • A)) *ᵥ (c0 • v 0) -
      c0 • (basisMat v m *ᵥ ((Complex.exp (-(z * (c : ℂ))) • NormedSpace.exp (z • triMat α β m)) *ᵥ
        Pi.single (⟨0, hm⟩ : Fin m) (1 : ℂ))) =
      Complex.exp (-(z * (c : ℂ))) • (NormedSpace.exp (z • A) *ᵥ (c0 • v 0) -
        c0 • (basisMat v m *ᵥ (NormedSpace.exp (z • triMat α β m) *ᵥ Pi.single (⟨0, hm⟩ : Fin m) (1 : ℂ)))) := by
    rw [smul_mulVec (Complex.exp (-(z * (c : ℂ)))) (NormedSpace.exp (z • A)),
      smul_mulVec (Complex.exp (-(z * (c : ℂ)))) (NormedSpace.exp (z • triMat α β m)),
      mulVec_smul (basisMat v m), smul_comm c0 (Complex.exp (-(z * (c : ℂ)))), ← smul_sub]
  rw [hfac, enorm_smul, hphase, one_mul] at hb
  exact hb

/-- … for the step `z = −iτ` of `expm_krylov` -/
theorem lanczos_exp_bound_shift (A : Matrix n n ℂ) (hA : Aᴴ = A) (v : ℕ → n → ℂ) (α β : ℕ → ℂ) (m : ℕ) (hm : 0 < m)
    (h : LanczosRun A v α β m) (τ c : ℝ) (c0 : ℂ) :
    enorm (NormedSpace.exp ((-(Complex.I * (τ : ℂ))) • A) *ᵥ (c0 • v 0) -
        c0 • (basisMat v m *ᵥ (NormedSpace.exp ((-(Complex.I * (τ : ℂ))) • triMat α β m) *ᵥ
          Pi.single (⟨0, hm⟩ : Fin m) (1 : ℂ)))) ≤
      ‖c0‖ * (2 * expTail m (|τ| * ‖A - (c : ℂ) • (1 : Matrix n n ℂ)‖)) := by
  have hb := lanczos_exp_bound_shift_gen A hA v α β m hm h (-(Complex.I * (τ : ℂ))) c (norm_exp_neg_I_mul τ c) c0
  rw [norm_neg_I_mul] at hb
  exact hb

end

end Yaqs.Krylov
