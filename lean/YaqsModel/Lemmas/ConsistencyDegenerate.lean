import YaqsModel.Lemmas.Consistency
import Mathlib.Analysis.Calculus.Deriv.Prod
import Mathlib.Analysis.Complex.Norm
import Mathlib.Tactic.Linarith
import Mathlib.Tactic.Positivity

/-!
# Lemmas.ConsistencyDegenerate — the case `⟨ψ|K|ψ⟩ = 0` of the first-order consistency

If the total jump rate `Σ_k γ_k‖L_kψ‖²` of the initial state vanishes (every process with `γ_k > 0` annihilates `ψ`) the
ratio `(1−n(t))/c(t)` has no limit `1` any more (`c(0) = 0`), but the jump term is still negligible: every entry of
`((1−n)/c)·Σ_k γ_k (L_kφ)(L_kφ)†` is bounded by `|1−n|` (`jump_term_entry_le`, uses `γ_k ≥ 0`), and `1 − n(t) = o(t)`.
-/
namespace Yaqs.Consistency

open Matrix NormedSpace Yaqs.MasterEq
open scoped Matrix.Norms.Operator

variable {n : Type} [Fintype n] [DecidableEq n]

noncomputable section

omit [DecidableEq n] in
theorem hasDerivAt_entries {f : ℝ → Matrix n n ℂ} {f' : Matrix n n ℂ} {t : ℝ}
    (h : ∀ i j, HasDerivAt (fun s => f s i j) (f' i j) t) : HasDerivAt f f' t := by
  have h1 : ∀ i, HasDerivAt (fun s => f s i) (f' i) t := fun i => hasDerivAt_pi.mpr (h i)
  have h2 := hasDerivAt_pi.mpr h1
  exact h2

omit [DecidableEq n] in
theorem hasDerivAt_entry {f : ℝ → Matrix n n ℂ} {f' : Matrix n n ℂ} {t : ℝ}
    (h : HasDerivAt f f' t) (i j : n) : HasDerivAt (fun s => f s i j) (f' i j) t := by
  have h2 : HasDerivAt (fun s => (f s : n → n → ℂ)) f' t := h
  have h1 := hasDerivAt_pi.mp h2 i
  exact hasDerivAt_pi.mp h1 j

omit [DecidableEq n] in
theorem normSqVec_nonneg (v : n → ℂ) : 0 ≤ normSqVec v :=
  Finset.sum_nonneg fun _ _ => Complex.normSq_nonneg _

omit [DecidableEq n] in
/-- `|v_i · conj v_j| ≤ ‖v‖²` -/
theorem entry_le_normSq (v : n → ℂ) (i j : n) : ‖v i * star (v j)‖ ≤ normSqVec v := by
  rw [norm_mul, norm_star]
  have hi : ‖v i‖ ^ 2 ≤ normSqVec v := by
    rw [← Complex.normSq_eq_norm_sq]
    exact Finset.single_le_sum (f := fun i => Complex.normSq (v i)) (fun _ _ => Complex.normSq_nonneg _)
      (Finset.mem_univ i)
  have hj : ‖v j‖ ^ 2 ≤ normSqVec v := by
    rw [← Complex.normSq_eq_norm_sq]
    exact Finset.single_le_sum (f := fun i => Complex.normSq (v i)) (fun _ _ => Complex.normSq_nonneg _)
      (Finset.mem_univ j)
  nlinarith [sq_nonneg (‖v i‖ - ‖v j‖)]

omit [DecidableEq n] in
theorem norm_rateC {q : Rat} (hq : 0 ≤ q) : ‖rateC q‖ = (q : ℝ) := by
  have : rateC q = ((q : ℝ) : ℂ) := by simp [rateC]
  rw [this, Complex.norm_real, Real.norm_eq_abs, abs_of_nonneg]
  exact_mod_cast hq

/-- the total jump rate as a real number -/
def rateSum (Ls : List (Proc (Matrix n n ℂ))) (φ : n → ℂ) : ℝ :=
  (Ls.map fun p => (p.gamma : ℝ) * normSqVec (p.op *ᵥ φ)).sum

omit [DecidableEq n] in
theorem rateSum_nonneg (Ls : List (Proc (Matrix n n ℂ))) (hγ : ∀ p ∈ Ls, 0 ≤ p.gamma) (φ : n → ℂ) :
    0 ≤ rateSum Ls φ := by
  unfold rateSum
  apply List.sum_nonneg
  intro x hx
  obtain ⟨p, hp, rfl⟩ := List.mem_map.mp hx
  have : (0 : ℝ) ≤ (p.gamma : ℝ) := by exact_mod_cast hγ p hp
  exact mul_nonneg this (normSqVec_nonneg _)

omit [DecidableEq n] in
/-- `c = Σ_k γ_k ‖L_kφ‖²` is (the cast of) a real number -/
theorem rate_sum_eq (Ls : List (Proc (Matrix n n ℂ))) (φ : n → ℂ) :
    (Ls.map fun p => rateC p.gamma * (star (p.op *ᵥ φ) ⬝ᵥ (p.op *ᵥ φ))).sum = (rateSum Ls φ : ℂ) := by
  unfold rateSum
  induction Ls with
  | nil => simp
  | cons p ps ih =>
    rw [List.map_cons, List.sum_cons, ih, List.map_cons, List.sum_cons, star_dot_self]
    push_cast
    simp [rateC]

omit [DecidableEq n] in
/-- every entry of `Σ_k γ_k (L_kφ)(L_kφ)†` is bounded by the total rate `Σ_k γ_k‖L_kφ‖²` (needs `γ_k ≥ 0`) -/
theorem jump_entry_le (Ls : List (Proc (Matrix n n ℂ))) (hγ : ∀ p ∈ Ls, 0 ≤ p.gamma) (φ : n → ℂ) (i j : n) :
    ‖((Ls.map fun p => rateC p.gamma • vecMulVec (p.op *ᵥ φ) (star (p.op *ᵥ φ))).sum) i j‖ ≤ rateSum Ls φ := by
  unfold rateSum
  induction Ls with
  | nil => simp
  | cons p ps ih =>
    simp only [List.map_cons, List.sum_cons, Matrix.add_apply, Matrix.smul_apply, vecMulVec_apply, smul_eq_mul]
    refine (norm_add_le _ _).trans (add_le_add ?_ (ih fun q hq => hγ q (List.mem_cons_of_mem _ hq)))
    rw [norm_mul, norm_rateC (hγ p List.mem_cons_self)]
    have : (0 : ℝ) ≤ (p.gamma : ℝ) := by exact_mod_cast hγ p List.mem_cons_self
    exact mul_le_mul_of_nonneg_left (entry_le_normSq _ i j) this

omit [DecidableEq n] in
/-- every entry of the jump part of the lottery average is bounded by the jump probability `|1 − ‖φ‖²|` -/
theorem jump_term_entry_le (Ls : List (Proc (Matrix n n ℂ))) (hγ : ∀ p ∈ Ls, 0 ≤ p.gamma) (φ : n → ℂ) (i j : n) :
    ‖(pureAverage Ls φ - vecMulVec φ (star φ)) i j‖ ≤ ‖1 - star φ ⬝ᵥ φ‖ := by
  unfold pureAverage
  rw [add_sub_cancel_left, Matrix.smul_apply, smul_eq_mul, norm_mul, rate_sum_eq, norm_div]
  have hc := rateSum_nonneg Ls hγ φ
  have hJ := jump_entry_le Ls hγ φ i j
  rw [Complex.norm_real, Real.norm_eq_abs, abs_of_nonneg hc]
  by_cases h0 : rateSum Ls φ = 0
  · rw [h0, div_zero, zero_mul]; exact norm_nonneg _
  · have hpos : 0 < rateSum Ls φ := lt_of_le_of_ne hc (Ne.symm h0)
    calc ‖1 - star φ ⬝ᵥ φ‖ / rateSum Ls φ * ‖_‖
        ≤ ‖1 - star φ ⬝ᵥ φ‖ / rateSum Ls φ * rateSum Ls φ :=
          mul_le_mul_of_nonneg_left hJ (div_nonneg (norm_nonneg _) hc)
      _ = ‖1 - star φ ⬝ᵥ φ‖ := by field_simp

/-- a complex curve squeezed by a curve that vanishes to first order at `0` vanishes to first order -/
theorem hasDerivAt_zero_of_norm_le {f g : ℝ → ℂ} (hfg : ∀ t, ‖f t‖ ≤ ‖g t‖) (hg0 : g 0 = 0)
    (hg : HasDerivAt g 0 0) : f 0 = 0 ∧ HasDerivAt f 0 0 := by
  have hf0 : f 0 = 0 := by
    have := hfg 0
    rw [hg0, norm_zero] at this
    exact norm_le_zero_iff.mp this
  refine ⟨hf0, ?_⟩
  rw [hasDerivAt_iff_isLittleO_nhds_zero] at hg ⊢
  simp only [zero_add, hg0, hf0, sub_zero, smul_zero] at hg ⊢
  exact (Asymptotics.IsBigO.of_bound 1 (Filter.Eventually.of_forall fun t => by simpa using hfg t)).trans_isLittleO hg

/-- **first-order consistency, degenerate case** `⟨ψ|K|ψ⟩ = 0` (pure state, `γ_k ≥ 0`): the derivative of the one-step
    average at `0` is still `𝓛ρ` (and `𝓛ρ = −i[H,ρ] − ½{K,ρ}`: the jump term `Σ γ_k L_kρL_k†` vanishes). -/
theorem hasDerivAt_avgState_degenerate {H : Matrix n n ℂ} {Ls : List (Proc (Matrix n n ℂ))} {A : ℝ → Matrix n n ℂ}
    (hA : IsNoJumpFamily H Ls A) (hH : Hᴴ = H) (hγ : ∀ p ∈ Ls, 0 ≤ p.gamma) (ψ : n → ℂ)
    (hψ : star ψ ⬝ᵥ ψ = 1) (hκ : star ψ ⬝ᵥ (genK Ls *ᵥ ψ) = 0) :
    jumpSum Ls (vecMulVec ψ (star ψ)) = 0 ∧
    pureAverage Ls (A 0 *ᵥ ψ) = vecMulVec ψ (star ψ) ∧
    HasDerivAt (fun t => pureAverage Ls (A t *ᵥ ψ)) (lind H Ls (vecMulVec ψ (star ψ))) 0 := by
  set ρ := vecMulVec ψ (star ψ) with hρdef
  have hκ' : trace (genK Ls * ρ) = 0 := by rw [hρdef, trace_mul_pure, hκ]
  have hρ1 : trace ρ = 1 := by rw [hρdef, trace_pure, hψ]
  -- the jump term of the Lindbladian vanishes
  have hJ0 : jumpSum Ls ρ = 0 := by
    rw [hρdef, jumpSum_pure]
    have hr : rateSum Ls ψ = 0 := by
      have := rate_sum_eq Ls ψ
      rw [← traceK_pure, ← hρdef, hκ'] at this
      exact_mod_cast this.symm
    ext i j
    have := jump_entry_le Ls hγ ψ i j
    rw [hr] at this
    simpa using norm_le_zero_iff.mp this
  have hn := hasDerivAt_nrm hA hH ρ
  rw [hκ', neg_zero] at hn
  have hg : HasDerivAt (fun t => 1 - nrm A ρ t) 0 0 := by
    have := HasDerivAt.const_sub (1 : ℂ) hn
    rw [neg_zero] at this
    exact this
  have hg0 : (fun t => 1 - nrm A ρ t) 0 = 0 := by
    show 1 - nrm A ρ 0 = 0
    rw [nrm_zero hA.zero, hρ1, sub_self]
  have hs := hasDerivAt_sigma_noJump hA hH ρ
  -- the jump part, entry by entry
  have hF : ∀ i j, (pureAverage Ls (A 0 *ᵥ ψ) - sigma A ρ 0) i j = 0 ∧
      HasDerivAt (fun t => (pureAverage Ls (A t *ᵥ ψ) - sigma A ρ t) i j) 0 0 := by
    intro i j
    refine hasDerivAt_zero_of_norm_le (f := fun t => (pureAverage Ls (A t *ᵥ ψ) - sigma A ρ t) i j)
      (g := fun t => 1 - nrm A ρ t) (fun t => ?_) hg0 hg
    show ‖(pureAverage Ls (A t *ᵥ ψ) - sigma A ρ t) i j‖ ≤ ‖1 - nrm A ρ t‖
    rw [hρdef, sigma_pure, nrm_pure]
    exact jump_term_entry_le Ls hγ _ i j
  have hFd : HasDerivAt (fun t => pureAverage Ls (A t *ᵥ ψ) - sigma A ρ t) 0 0 :=
    hasDerivAt_entries fun i j => (hF i j).2
  refine ⟨hJ0, ?_, ?_⟩
  · have : pureAverage Ls (A 0 *ᵥ ψ) - sigma A ρ 0 = 0 := by
      ext i j; exact (hF i j).1
    rw [sub_eq_zero] at this
    rw [this, sigma_zero hA.zero]
  · have h := hasDerivAt_addM hFd hs
    rw [zero_add] at h
    have e : (fun s => pureAverage Ls (A s *ᵥ ψ) - sigma A ρ s + sigma A ρ s)
        = fun t => pureAverage Ls (A t *ᵥ ψ) := by
      funext s; abel
    rw [e] at h
    rw [← noJump_add_jump_eq_lind, hJ0, add_zero]
    exact h

/-- **first-order consistency for every unit vector** (no assumption on the jump rate): the two cases combined. -/
theorem hasDerivAt_pureAverage {H : Matrix n n ℂ} {Ls : List (Proc (Matrix n n ℂ))} {A : ℝ → Matrix n n ℂ}
    (hA : IsNoJumpFamily H Ls A) (hH : Hᴴ = H) (hγ : ∀ p ∈ Ls, 0 ≤ p.gamma) (ψ : n → ℂ)
    (hψ : star ψ ⬝ᵥ ψ = 1) :
    pureAverage Ls (A 0 *ᵥ ψ) = vecMulVec ψ (star ψ) ∧
    HasDerivAt (fun t => pureAverage Ls (A t *ᵥ ψ)) (lind H Ls (vecMulVec ψ (star ψ))) 0 := by
  by_cases hκ : star ψ ⬝ᵥ (genK Ls *ᵥ ψ) = 0
  · exact (hasDerivAt_avgState_degenerate hA hH hγ ψ hψ hκ).2
  · have hρ1 : trace (vecMulVec ψ (star ψ)) = 1 := by rw [trace_pure, hψ]
    have hκ' : trace (genK Ls * vecMulVec ψ (star ψ)) ≠ 0 := by rwa [trace_mul_pure]
    obtain ⟨h0, hd⟩ := hasDerivAt_avgState hA hH _ hρ1 hκ'
    rw [avgState_pure] at h0
    have e : avgState Ls A (vecMulVec ψ (star ψ)) = fun t => pureAverage Ls (A t *ᵥ ψ) := by
      funext t; exact avgState_pure Ls A ψ t
    rw [e] at hd
    exact ⟨h0, hd⟩

/-- real-valued form of the norm derivative: `d/dt ‖A(t)ψ‖² |₀ = −⟨ψ|K|ψ⟩` -/
theorem hasDerivAt_normSqVec {H : Matrix n n ℂ} {Ls : List (Proc (Matrix n n ℂ))} {A : ℝ → Matrix n n ℂ}
    (hA : IsNoJumpFamily H Ls A) (hH : Hᴴ = H) (ψ : n → ℂ) :
    HasDerivAt (fun t => normSqVec (A t *ᵥ ψ)) (-(rateSum Ls ψ)) 0 := by
  have hn := hasDerivAt_nrm hA hH (vecMulVec ψ (star ψ))
  rw [traceK_pure, rate_sum_eq] at hn
  have e : nrm A (vecMulVec ψ (star ψ)) = fun t => ((normSqVec (A t *ᵥ ψ) : ℝ) : ℂ) := by
    funext t; rw [nrm_pure, star_dot_self]
  rw [e] at hn
  have h2 := HasFDerivAt.comp_hasDerivAt (0 : ℝ) Complex.reCLM.hasFDerivAt hn
  have e2 : (⇑Complex.reCLM ∘ fun t => ((normSqVec (A t *ᵥ ψ) : ℝ) : ℂ)) = fun t => normSqVec (A t *ᵥ ψ) := by
    funext t; simp
  have e3 : Complex.reCLM (-(rateSum Ls ψ : ℂ)) = -(rateSum Ls ψ) := by simp
  rw [e2, e3] at h2
  exact h2

end

end Yaqs.Consistency
