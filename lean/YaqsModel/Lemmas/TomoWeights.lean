import YaqsModel.Lemmas.TomoRing
import Mathlib.Analysis.Real.Sqrt
import Mathlib.Algebra.Module.LinearMap.Defs
import Mathlib.Algebra.Order.BigOperators.Group.Finset
import Mathlib.Tactic.FieldSimp
import Mathlib.Tactic.NormNum

/-! branch weights of the forced projection / re-preparation (helper lemmas for `Props/C17.lean`) -/
namespace Yaqs.Tomo
open Yaqs CRatT

theorem psiScale_pos (m : Fin 4) : 0 < psiScale m := by
  unfold psiScale; split <;> norm_num

theorem thr15_pos : 0 < thr15 := by unfold thr15; norm_num

theorem conj_ofRat (q : Rat) : conj (ofRat q) = ofRat q := by ext <;> simp

theorem ofRat_mul (a b : Rat) : ofRat a * ofRat b = ofRat (a * b) := by ext <;> simp

theorem ofRat_add (a b : Rat) : ofRat (a + b) = ofRat a + ofRat b := by ext <;> simp

theorem ofRat_sum {ι : Type*} (s : Finset ι) (f : ι → Rat) : ofRat (∑ i ∈ s, f i) = ∑ i ∈ s, ofRat (f i) := by
  classical
  induction s using Finset.induction_on with
  | empty => simp only [Finset.sum_empty]; rfl
  | insert a s ha ih => rw [Finset.sum_insert ha, Finset.sum_insert ha, ofRat_add, ih]

theorem mul_conj_self (z : CRatT) : z * conj z = ofRat (normSq z) := by
  ext <;> simp [normSq]; ring

/-- `scale_m · e e†  =  ⟨m| ρ |m⟩` for `ρ = |ψ⟩⟨ψ|` -/
theorem env_outer (d : Nat) (m : Fin 4) (ψ : Fin 2 → Fin d → CRatT) (c c' : Fin d) :
    rsmul (psiScale m) (envRaw d m ψ c * conj (envRaw d m ψ c')) =
      fsum 2 (fun t => fsum 2 (fun t' => eff m t' t * (ψ t c * conj (ψ t' c')))) := by
  simp only [envRaw, eff, rho, fsum_eq_sum, Fin.sum_univ_two, rsmul_eq_mul, ← star_def, star_add, star_mul,
    star_star]
  ring

theorem envRaw_eq_zero_of_prob (d : Nat) (m : Fin 4) (ψ : Fin 2 → Fin d → CRatT) (h : prob d m ψ = 0)
    (c : Fin d) : envRaw d m ψ c = 0 := by
  unfold prob at h
  have hs : fsum d (fun c => normSq (envRaw d m ψ c)) = 0 := by
    rcases mul_eq_zero.mp h with h1 | h1
    · exact absurd h1 (ne_of_gt (psiScale_pos m))
    · exact h1
  rw [fsum_eq_sum] at hs
  have := (Finset.sum_eq_zero_iff_of_nonneg (fun i _ => normSq_nonneg _)).mp hs c (Finset.mem_univ c)
  exact normSq_eq_zero this

/-- one forced re-preparation: probability × re-prepared state = the unnormalised comb entry
    `(A_{p,m} ⊗ id)(|ψ⟩⟨ψ|)`; in the window `0 < prob ≤ 1e-15` the code does not normalise (the branch is
    treated as dead there), hence the hypothesis -/
theorem reprep_weight (d : Nat) (m p : Fin 4) (ψ : Fin 2 → Fin d → CRatT)
    (h : prob d m ψ = 0 ∨ thr15 < prob d m ψ) (x y : Fin 2 × Fin d) :
    rsmul (prob d m ψ) (reprepDensity d m p ψ x y) = applyBasisMap d m p (outer d ψ) x y := by
  unfold reprepDensity applyBasisMap outer
  simp only
  rw [← env_outer]
  rcases h with h | h
  · have hx := envRaw_eq_zero_of_prob d m ψ h x.2
    rw [h, hx]
    ext <;> simp
  · have hne : prob d m ψ ≠ 0 := ne_of_gt (lt_trans thr15_pos h)
    rw [if_pos h]
    simp only [rsmul_eq_mul]
    have : ofRat (prob d m ψ) * (ofRat (psiScale m / prob d m ψ) *
        (rho p x.1 y.1 * (envRaw d m ψ x.2 * conj (envRaw d m ψ y.2)))) =
        (ofRat (prob d m ψ) * ofRat (psiScale m / prob d m ψ)) *
        (rho p x.1 y.1 * (envRaw d m ψ x.2 * conj (envRaw d m ψ y.2))) := by ring
    rw [this, ofRat_mul, mul_div_cancel₀ _ hne]
    ring

/-! ### the weight bookkeeping -/

theorem seqWalk_alive : ∀ (ps : List Rat) (w : Rat) (n : Nat) (w' : Rat) (n' : Nat),
    seqWalk ps w n = (w', n', false) → w' = w * weightProd ps ∧ n' = n + ps.length
  | [], w, n, w', n', h => by
    simp only [seqWalk, Prod.mk.injEq] at h
    simp [weightProd, ← h.1, ← h.2.1]
  | p :: ps, w, n, w', n', h => by
    simp only [seqWalk] at h
    split at h
    · simp at h
    · have := seqWalk_alive ps (w * p) (n + 1) w' n' h
      simp only [weightProd, List.length_cons]
      refine ⟨by rw [this.1]; ring, by rw [this.2]; ring⟩

theorem seqWalk_dead : ∀ (ps : List Rat) (w : Rat) (n : Nat) (w' : Rat) (n' : Nat),
    seqWalk ps w n = (w', n', true) → w' < thr15 ∧ n' ≤ n + ps.length ∧
      w' = w * weightProd (ps.take (n' - n))
  | [], w, n, w', n', h => by simp [seqWalk] at h
  | p :: ps, w, n, w', n', h => by
    simp only [seqWalk] at h
    split at h
    · rename_i hlt
      simp only [Prod.mk.injEq, and_true] at h
      obtain ⟨h1, h2⟩ := h
      subst h1; subst h2
      refine ⟨hlt, by simp, ?_⟩
      simp [weightProd]
    · have := seqWalk_dead ps (w * p) (n + 1) w' n' h
      obtain ⟨h1, h2, h3⟩ := this
      have hn : n + 1 ≤ n' := by
        clear h1 h2 h3
        -- the counter only grows
        have : ∀ (ps : List Rat) (w : Rat) (n : Nat), n ≤ (seqWalk ps w n).2.1 := by
          intro ps
          induction ps with
          | nil => intro w n; simp [seqWalk]
          | cons q qs ih =>
            intro w n
            simp only [seqWalk]
            split
            · simp
            · exact le_trans (Nat.le_succ n) (ih _ _)
        have := this ps (w * p) (n + 1)
        rw [h] at this
        exact this
      refine ⟨h1, by simp only [List.length_cons]; omega, ?_⟩
      have : n' - n = (n' - (n + 1)) + 1 := by omega
      rw [this, List.take_succ_cons, weightProd, h3]
      ring

/-! ### the whole sequence, abstractly

`V` is the (real) vector space of chain states, a segment is a pair `(K, U)` of linear maps — the probe
`K = |ψ_p⟩⟨ψ_m| ⊗ 1` followed by the segment evolution `U` —, `nsq` the squared norm and `q` the quadratic
read-out `φ ↦ Tr_env |φ⟩⟨φ|` (`_get_rho_site_zero`). -/
section Abstract
variable {V W : Type*} [AddCommGroup V] [Module ℝ V] [AddCommGroup W] [Module ℝ W]

/-- the worker loop: project, record `p = ‖Kφ‖²`, renormalise by `√p`, evolve -/
noncomputable def workerRun (nsq : V → ℝ) : List ((V →ₗ[ℝ] V) × (V →ₗ[ℝ] V)) → ℝ × V → ℝ × V
  | [], s => s
  | KU :: rest, s =>
    workerRun nsq rest (s.1 * nsq (KU.1 s.2), KU.2 ((Real.sqrt (nsq (KU.1 s.2)))⁻¹ • KU.1 s.2))

/-- the same sequence without any normalisation: `U_k K_k … U_1 K_1 ψ` -/
def rawRun : List ((V →ₗ[ℝ] V) × (V →ₗ[ℝ] V)) → V → V
  | [], ψ => ψ
  | KU :: rest, ψ => rawRun rest (KU.2 (KU.1 ψ))

theorem workerRun_invariant (nsq : V → ℝ) (q : V → W) (hq : ∀ (r : ℝ) (v : V), q (r • v) = r ^ 2 • q v)
    (hn0 : ∀ v, 0 ≤ nsq v) (hdef : ∀ v, nsq v = 0 → v = 0) :
    ∀ (steps : List ((V →ₗ[ℝ] V) × (V →ₗ[ℝ] V))) (w : ℝ) (φ : V) (r : ℝ), 0 ≤ r → r ^ 2 = w →
      (workerRun nsq steps (w, φ)).1 • q (workerRun nsq steps (w, φ)).2 = q (rawRun steps (r • φ))
  | [], w, φ, r, _, hr => by simp only [workerRun, rawRun]; rw [hq, hr]
  | KU :: rest, w, φ, r, hr0, hr => by
    simp only [workerRun, rawRun]
    set p := nsq (KU.1 φ) with hp
    have hp0 : 0 ≤ p := hn0 _
    have key := workerRun_invariant nsq q hq hn0 hdef rest (w * p)
      (KU.2 ((Real.sqrt p)⁻¹ • KU.1 φ)) (r * Real.sqrt p) (mul_nonneg hr0 (Real.sqrt_nonneg p))
      (by rw [mul_pow, Real.sq_sqrt hp0, hr])
    rw [key]
    congr 2
    simp only [map_smul, smul_smul]
    by_cases hz : p = 0
    · have : KU.1 φ = 0 := hdef _ (hp ▸ hz)
      simp [this]
    · have : Real.sqrt p ≠ 0 := fun h => hz ((Real.sqrt_eq_zero hp0).mp h)
      rw [mul_assoc, mul_inv_cancel₀ this, mul_one]

end Abstract

end Yaqs.Tomo
