import Mathlib.Data.List.GetD
import Mathlib.Data.List.FinRange
import Mathlib.Logic.Equiv.Fin.Basic
import YaqsModel.Model.Schmidt
import YaqsModel.Lemmas.Schmidt

/-!
# The executable list model of `Model/Schmidt.lean` refines the matrix model of `Lemmas/Schmidt.lean`

`thetaMat` (what the driver runs on the real tensors) is the matrix `thetaM` of the theorems, with rows and
columns enumerated in the order numpy's C-order `reshape` gives them; `schmidtPad` facts.
-/

namespace Yaqs.Schmidt
open Matrix

variable {K : Type} [CommRing K]

/-- a site tensor `σ → Matrix (Fin χl) (Fin χ) K` as the nested list `t[σ][l][c]` (numpy axes `(phys, left, right)`) -/
def tensorList {d χl χ : ℕ} (A : Fin d → Matrix (Fin χl) (Fin χ) K) : List (List (List K)) :=
  List.ofFn fun s => List.ofFn fun l => List.ofFn fun c => A s l c

theorem dot_ofFn {n : ℕ} (u v : Fin n → K) : dot (List.ofFn u) (List.ofFn v) = ∑ c, u c * v c := by
  unfold dot
  induction n with
  | zero => simp
  | succ n ih =>
    rw [List.ofFn_succ, List.ofFn_succ, List.zipWith_cons_cons, List.sum_cons, ih, Fin.sum_univ_succ]

theorem range_map_eq_ofFn {β : Type*} (n : ℕ) (g : ℕ → β) : (List.range n).map g = List.ofFn fun i : Fin n => g i := by
  rw [List.ofFn_eq_map, ← List.map_coe_finRange_eq_range, List.map_map]
  rfl

theorem colOf_ofFn {χ χr : ℕ} (M : Matrix (Fin χ) (Fin χr) K) (r : Fin χr) :
    colOf (List.ofFn fun c => List.ofFn fun r' => M c r') r = List.ofFn fun c => M c r := by
  unfold colOf
  rw [List.map_ofFn]
  congr 1
  funext c
  simp only [Function.comp]
  rw [List.getD_eq_getElem _ _ (by simp)]
  simp

theorem theta4_refines {d d' χl χ χr : ℕ} (A : Fin d → Matrix (Fin χl) (Fin χ) K)
    (B : Fin d' → Matrix (Fin χ) (Fin χr) K) :
    theta4 χr (tensorList A) (tensorList B)
      = List.ofFn fun s => List.ofFn fun l => List.ofFn fun t => List.ofFn fun r => (A s * B t) l r := by
  unfold theta4 tensorList
  rw [List.map_ofFn]
  congr 1; funext s
  simp only [Function.comp]
  rw [List.map_ofFn]
  congr 1; funext l
  simp only [Function.comp]
  rw [List.map_ofFn]
  congr 1; funext t
  simp only [Function.comp]
  rw [range_map_eq_ofFn]
  congr 1; funext r
  rw [colOf_ofFn (B t) r, dot_ofFn, Matrix.mul_apply]

theorem flatten_ofFn_ofFn {β : Type*} {m n : ℕ} (g : Fin m → Fin n → β) :
    (List.ofFn fun i => List.ofFn fun j => g i j).flatten
      = List.ofFn fun k : Fin (m * n) => g (finProdFinEquiv.symm k).1 (finProdFinEquiv.symm k).2 := by
  rw [List.ofFn_mul]
  congr 1
  congr 1; funext i
  congr 1; funext j
  have hn : 0 < n := Nat.pos_of_ne_zero (fun h => by subst h; exact j.elim0)
  congr 1
  · apply Fin.ext
    simp only [finProdFinEquiv_symm_apply, Fin.divNat]
    rw [Nat.add_comm, Nat.add_mul_div_right _ _ hn, Nat.div_eq_of_lt j.isLt, Nat.zero_add]
  · apply Fin.ext
    simp only [finProdFinEquiv_symm_apply, Fin.modNat]
    rw [Nat.add_comm, Nat.add_mul_mod_self_right, Nat.mod_eq_of_lt j.isLt]

/-- **the list model is the matrix model**: the matrix the driver computes from the nested lists of the two site
    tensors is `thetaM A B` of the theorems, row `σ·χ_l + l` ↔ `(σ, l)`, column `τ·χ_r + r` ↔ `(τ, r)`
    (`finProdFinEquiv`: the first component is the major one) -/
theorem thetaMat_refines {d d' χl χ χr : ℕ} (A : Fin d → Matrix (Fin χl) (Fin χ) K)
    (B : Fin d' → Matrix (Fin χ) (Fin χr) K) :
    thetaMat χr (tensorList A) (tensorList B)
      = List.ofFn fun i : Fin (d * χl) => List.ofFn fun j : Fin (d' * χr) =>
          thetaM A B (finProdFinEquiv.symm i) (finProdFinEquiv.symm j) := by
  unfold thetaMat
  rw [theta4_refines, flatten_ofFn_ofFn, List.map_ofFn]
  congr 1; funext i
  simp only [Function.comp]
  rw [flatten_ofFn_ofFn]
  rfl

/-! ### `schmidtPad` -/

theorem schmidtPad_length {α : Type} [One α] (top bond : ℕ) (s : List α) : (schmidtPad top bond s).length = top := by
  unfold schmidtPad
  split
  · simp
  · simp only [List.length_append, List.length_map, List.length_take, List.length_replicate]; omega

theorem schmidtPad_getElem_lt {α : Type} [One α] (top bond : ℕ) (s : List α) (hb : bond ≠ 1) (k : ℕ)
    (hk : k < top) (hks : k < s.length) : (schmidtPad top bond s)[k]? = some (some s[k]) := by
  unfold schmidtPad
  rw [if_neg hb, List.getElem?_append_left (by simp; omega)]
  simp [hk, hks]

theorem schmidtPad_getElem_ge {α : Type} [One α] (top bond : ℕ) (s : List α) (hb : bond ≠ 1) (k : ℕ)
    (hk : k < top) (hks : s.length ≤ k) : (schmidtPad top bond s)[k]? = some none := by
  unfold schmidtPad
  rw [if_neg hb, List.getElem?_append_right (by simp; omega)]
  simp only [List.length_map, List.length_take]
  rw [List.getElem?_replicate, if_pos (by omega)]

end Yaqs.Schmidt
