import Mathlib.Data.Matrix.Basic
import Mathlib.Data.Matrix.Block
import Mathlib.LinearAlgebra.Matrix.ConjTranspose
import Mathlib.LinearAlgebra.Matrix.Trace
import Mathlib.Algebra.BigOperators.Group.List.Basic
import YaqsModel.Model.Mps

/-!
# Algebra of MPS gauge moves (helper layer for C10)

A site tensor is `σ → Matrix ι ι K` (`σ` physical index, `ι` one *uniform* bond index type: every bond is
zero-padded to a common dimension — that padding is harmless is `pad_chain` below; a site whose physical
dimension is smaller than `|σ|` simply never sees the larger indices in a configuration).  The vector
represented by a chain is `cfg ↦ chain ts cfg` (the amplitude is one entry of that matrix).  `K` is any
commutative ring; the numerical factorisations are hypotheses (`A s = Q s * R`, …), never computed.
-/

set_option linter.unusedSectionVars false

namespace Yaqs.Mps.Alg

open Matrix

variable {K : Type*} [CommRing K] {ι σ : Type*} [Fintype ι] [DecidableEq ι]

abbrev Site (σ ι K : Type*) := σ → Matrix ι ι K

/-- `T₀[s₀] * T₁[s₁] * ⋯` -/
def chain (ts : List (Site σ ι K)) (cfg : List σ) : Matrix ι ι K :=
  (List.zipWith (fun A s => A s) ts cfg).prod

@[simp] theorem chain_nil_left (cfg : List σ) : chain ([] : List (Site σ ι K)) cfg = 1 := by simp [chain]
@[simp] theorem chain_nil_right (ts : List (Site σ ι K)) : chain ts ([] : List σ) = 1 := by simp [chain]

theorem chain_cons (A : Site σ ι K) (ts : List (Site σ ι K)) (s : σ) (cfg : List σ) :
    chain (A :: ts) (s :: cfg) = A s * chain ts cfg := by simp [chain]

/-- the chain of a concatenation splits at the matching position of the configuration -/
theorem chain_append (pre ts : List (Site σ ι K)) (cfg : List σ) (h : pre.length ≤ cfg.length) :
    chain (pre ++ ts) cfg = chain pre (cfg.take pre.length) * chain ts (cfg.drop pre.length) := by
  induction pre generalizing cfg with
  | nil => simp
  | cons P pre ih =>
    match cfg, h with
    | s :: cfg, h =>
      simp only [List.cons_append, chain_cons, List.length_cons, List.take_succ_cons, List.drop_succ_cons]
      rw [ih cfg (by simpa using h), Matrix.mul_assoc]

/-- **two-site replacement**: any pair `(A', B')` with the same two-site block `A' s * B' t = A s * B t`
    represents the same vector.  QR shift, SVD shift and left shift are instances. -/
theorem two_site_replace (pre post : List (Site σ ι K)) (A B A' B' : Site σ ι K)
    (h : ∀ s t, A' s * B' t = A s * B t) (cfg : List σ) (hlen : pre.length + 2 ≤ cfg.length) :
    chain (pre ++ A' :: B' :: post) cfg = chain (pre ++ A :: B :: post) cfg := by
  rw [chain_append _ _ _ (by omega), chain_append _ _ _ (by omega)]
  congr 1
  have : 2 ≤ (cfg.drop pre.length).length := by simp; omega
  match hc : cfg.drop pre.length, this with
  | s :: t :: rest, _ =>
    simp only [chain_cons, ← Matrix.mul_assoc, h]

/-- at the last site the `R` factor is not contracted into anything: it multiplies the chain from the right -/
theorem last_site_factor (pre : List (Site σ ι K)) (A Q : Site σ ι K) (R : Matrix ι ι K)
    (h : ∀ s, A s = Q s * R) (cfg : List σ) (hlen : cfg.length = pre.length + 1) :
    chain (pre ++ [A]) cfg = chain (pre ++ [Q]) cfg * R := by
  rw [chain_append _ _ _ (by omega), chain_append _ _ _ (by omega)]
  have : (cfg.drop pre.length).length = 1 := by simp; omega
  match hc : cfg.drop pre.length, this with
  | [s], _ =>
    simp only [chain_cons, chain_nil_left, Matrix.mul_one, h, Matrix.mul_assoc]

/-! ### flip -/

/-- `np.transpose(tensor, (0, 2, 1))` -/
def flipSite (A : Site σ ι K) : Site σ ι K := fun s => (A s)ᵀ

/-- `flip_network` -/
def flip (ts : List (Site σ ι K)) : List (Site σ ι K) := (ts.map flipSite).reverse

@[simp] theorem flipSite_flipSite (A : Site σ ι K) : flipSite (flipSite A) = A := by
  funext s; simp [flipSite]

@[simp] theorem flip_length (ts : List (Site σ ι K)) : (flip ts).length = ts.length := by simp [flip]

@[simp] theorem flip_flip (ts : List (Site σ ι K)) : flip (flip ts) = ts := by
  simp [flip, List.map_reverse, Function.comp_def]

theorem flip_chain (ts : List (Site σ ι K)) (cfg : List σ) (h : cfg.length = ts.length) :
    chain (flip ts) cfg.reverse = (chain ts cfg)ᵀ := by
  unfold chain flip
  rw [Matrix.transpose_list_prod, ← List.reverse_zipWith (by simpa using h.symm)]
  congr 1
  rw [List.zipWith_map_left, List.map_zipWith]
  rfl

/-- version with the configuration on the other side -/
theorem flip_chain' (ts : List (Site σ ι K)) (cfg : List σ) (h : cfg.length = ts.length) :
    chain (flip ts) cfg = (chain ts cfg.reverse)ᵀ := by
  have := flip_chain ts cfg.reverse (by simpa using h)
  simpa using this

theorem getElem?_flip (ts : List (Site σ ι K)) (k : Nat) (hk : k < ts.length) :
    (flip ts)[k]? = (ts[ts.length - 1 - k]?).map flipSite := by
  unfold flip
  rw [List.getElem?_reverse (by simpa using hk)]
  simp

/-! ### zero padding -/

section pad
variable {κ : Type*} [Fintype κ] [DecidableEq κ]

/-- `new = zeros; new[:, :chi_l, :chi_r] = tensor` on the uniform bond type `ι ⊕ κ` -/
def padSite (A : Site σ ι K) : Site σ (ι ⊕ κ) K := fun s => Matrix.fromBlocks (A s) 0 0 0

theorem pad_chain (A : Site σ ι K) (ts : List (Site σ ι K)) (s : σ) (cfg : List σ) :
    chain ((A :: ts).map (padSite (κ := κ))) (s :: cfg) = Matrix.fromBlocks (chain (A :: ts) (s :: cfg)) 0 0 0 := by
  induction ts generalizing A s cfg with
  | nil => simp [chain_cons, padSite]
  | cons B ts ih =>
    match cfg with
    | [] => simp [chain_cons, padSite]
    | t :: cfg =>
      rw [List.map_cons, chain_cons, ih B t cfg, chain_cons]
      simp [padSite, Matrix.fromBlocks_multiply, chain_cons]

end pad

/-! ### the moves as functions of a decomposition oracle, and the folds built from them -/

/-- the numerical routines as a black box with exactly the documented spec:
    `qr A = (Q, R)` with `A s = Q s * R` (`right_qr`); `svd A B = (A', B')` with the same two-site block
    (`two_site_svd` when nothing is truncated) -/
structure Dec (σ ι K : Type*) [Fintype ι] [CommRing K] where
  qr : Site σ ι K → Site σ ι K × Matrix ι ι K
  svd : Site σ ι K → Site σ ι K → Site σ ι K × Site σ ι K
  qr_spec : ∀ A s, A s = (qr A).1 s * (qr A).2
  svd_spec : ∀ A B s t, (svd A B).1 s * (svd A B).2 t = A s * B t

/-- `shift_orthogonality_center_right(i, decomposition)`; `useSvd = true` is `decomposition = "SVD"`.
    (`decomposition == "QR" or i == length - 1` → QR, and at the last site `R` is thrown away.) -/
def shiftRight (d : Dec σ ι K) (useSvd : Bool) : Nat → List (Site σ ι K) → List (Site σ ι K)
  | 0, [A] => [(d.qr A).1]
  | 0, A :: B :: post =>
    if useSvd then (d.svd A B).1 :: (d.svd A B).2 :: post
    else (d.qr A).1 :: (fun u => (d.qr A).2 * B u) :: post
  | i + 1, A :: ts => A :: shiftRight d useSvd i ts
  | _, [] => []

/-- `sweep_decomposition(n, …)` for `n ≤ length`: sites `0 … n-1` -/
def sweep (d : Dec σ ι K) (useSvd : Bool) (n : Nat) (ts : List (Site σ ι K)) : List (Site σ ι K) :=
  (List.range n).foldl (fun t i => shiftRight d useSvd i t) ts

/-- `set_canonical_form(c, decomposition)` -/
def setCanonical (d : Dec σ ι K) (useSvd : Bool) (c : Nat) (ts : List (Site σ ι K)) : List (Site σ ι K) :=
  flip (sweep d useSvd (ts.length - 1 - c) (flip (sweep d useSvd c ts)))

/-- `shift_orthogonality_center_left(i, decomposition)` -/
def shiftLeft (d : Dec σ ι K) (useSvd : Bool) (i : Nat) (ts : List (Site σ ι K)) : List (Site σ ι K) :=
  flip (shiftRight d useSvd (ts.length - i - 1) (flip ts))

/-- `normalize(form, decomposition)`; `formB = true` is `form = "B"` -/
def normalize (d : Dec σ ι K) (useSvd formB : Bool) (ts : List (Site σ ι K)) : List (Site σ ι K) :=
  let t0 := if formB then flip ts else ts
  let t2 := shiftRight d useSvd (ts.length - 1) (setCanonical d useSvd (ts.length - 1) t0)
  if formB then flip t2 else t2

@[simp] theorem shiftRight_length (d : Dec σ ι K) (u : Bool) (i : Nat) (ts : List (Site σ ι K)) :
    (shiftRight d u i ts).length = ts.length := by
  induction i generalizing ts with
  | zero =>
    match ts with
    | [] => simp [shiftRight]
    | [A] => simp [shiftRight]
    | A :: B :: post => by_cases hu : u <;> simp [shiftRight, hu]
  | succ i ih =>
    match ts with
    | [] => simp [shiftRight]
    | A :: ts => simp [shiftRight, ih]

@[simp] theorem sweep_length (d : Dec σ ι K) (u : Bool) (n : Nat) (ts : List (Site σ ι K)) :
    (sweep d u n ts).length = ts.length := by
  unfold sweep
  induction n with
  | zero => simp
  | succ n ih => simp [List.range_succ, List.foldl_append, ih]

theorem sweep_succ (d : Dec σ ι K) (u : Bool) (n : Nat) (ts : List (Site σ ι K)) :
    sweep d u (n + 1) ts = shiftRight d u n (sweep d u n ts) := by
  simp [sweep, List.range_succ, List.foldl_append]

@[simp] theorem setCanonical_length (d : Dec σ ι K) (u : Bool) (c : Nat) (ts : List (Site σ ι K)) :
    (setCanonical d u c ts).length = ts.length := by simp [setCanonical]

/-- a centre shift with a right neighbour leaves every amplitude unchanged -/
theorem shiftRight_chain (d : Dec σ ι K) (u : Bool) (i : Nat) (ts : List (Site σ ι K)) (cfg : List σ)
    (hi : i + 1 < ts.length) (hc : cfg.length = ts.length) :
    chain (shiftRight d u i ts) cfg = chain ts cfg := by
  induction i generalizing ts cfg with
  | zero =>
    match ts, hi with
    | A :: B :: post, _ =>
      by_cases hu : u
      · simp only [shiftRight, hu, if_true]
        exact two_site_replace [] post A B _ _ (d.svd_spec A B) cfg (by simp at hc ⊢; omega)
      · simp only [shiftRight, hu]
        refine two_site_replace [] post A B _ _ (fun s t => ?_) cfg (by simp at hc ⊢; omega)
        rw [← Matrix.mul_assoc, ← d.qr_spec]
  | succ i ih =>
    match ts, cfg, hi, hc with
    | A :: ts, s :: cfg, hi, hc =>
      simp only [shiftRight, chain_cons]
      rw [ih ts cfg (by simpa using hi) (by simpa using hc)]

theorem sweep_chain (d : Dec σ ι K) (u : Bool) (n : Nat) (ts : List (Site σ ι K)) (cfg : List σ)
    (hn : n + 1 ≤ ts.length) (hc : cfg.length = ts.length) :
    chain (sweep d u n ts) cfg = chain ts cfg := by
  induction n with
  | zero => simp [sweep]
  | succ n ih =>
    rw [sweep_succ, shiftRight_chain d u n _ cfg (by simp; omega) (by simpa using hc), ih (by omega)]

/-- the right shift at the last site: the list keeps its prefix and the last tensor becomes `Q` -/
theorem shiftRight_last (d : Dec σ ι K) (u : Bool) (pre : List (Site σ ι K)) (A : Site σ ι K) :
    shiftRight d u pre.length (pre ++ [A]) = pre ++ [(d.qr A).1] := by
  induction pre with
  | nil => simp [shiftRight]
  | cons P pre ih => simp [shiftRight, ih]

/-! ### which sites a move touches, and what it leaves there -/

theorem shiftRight_getElem?_other (d : Dec σ ι K) (u : Bool) (i j : Nat) (ts : List (Site σ ι K))
    (h1 : j ≠ i) (h2 : j ≠ i + 1) : (shiftRight d u i ts)[j]? = ts[j]? := by
  induction i generalizing ts j with
  | zero =>
    match ts with
    | [] => simp [shiftRight]
    | [A] =>
      match j with
      | 0 => exact absurd rfl h1
      | j + 1 => simp [shiftRight]
    | A :: B :: post =>
      match j with
      | 0 => exact absurd rfl h1
      | 1 => exact absurd rfl h2
      | j + 2 => by_cases hu : u <;> simp [shiftRight, hu]
  | succ i ih =>
    match ts with
    | [] => simp [shiftRight]
    | A :: ts =>
      match j with
      | 0 => simp [shiftRight]
      | j + 1 =>
        simp only [shiftRight, List.getElem?_cons_succ]
        exact ih j ts (by omega) (by omega)

/-- the shifted-over site is the first factor of a decomposition -/
theorem shiftRight_getElem?_self (d : Dec σ ι K) (u : Bool) (Good : Site σ ι K → Prop)
    (hq : ∀ A, Good (d.qr A).1) (hs : ∀ A B, Good (d.svd A B).1)
    (i : Nat) (ts : List (Site σ ι K)) (hi : i < ts.length) :
    ∃ X, (shiftRight d u i ts)[i]? = some X ∧ Good X := by
  induction i generalizing ts with
  | zero =>
    match ts, hi with
    | [A], _ => exact ⟨_, by simp [shiftRight], hq A⟩
    | A :: B :: post, _ =>
      by_cases hu : u
      · exact ⟨_, by simp [shiftRight, hu], hs A B⟩
      · exact ⟨_, by simp [shiftRight, hu], hq A⟩
  | succ i ih =>
    match ts, hi with
    | A :: ts, hi =>
      obtain ⟨X, hX, hg⟩ := ih ts (by simpa using hi)
      exact ⟨X, by simpa [shiftRight] using hX, hg⟩

theorem sweep_getElem?_above (d : Dec σ ι K) (u : Bool) (n k : Nat) (ts : List (Site σ ι K)) (hk : n < k) :
    (sweep d u n ts)[k]? = ts[k]? := by
  induction n with
  | zero => simp [sweep]
  | succ n ih =>
    rw [sweep_succ, shiftRight_getElem?_other d u n k _ (by omega) (by omega), ih (by omega)]

theorem sweep_good (d : Dec σ ι K) (u : Bool) (Good : Site σ ι K → Prop)
    (hq : ∀ A, Good (d.qr A).1) (hs : ∀ A B, Good (d.svd A B).1)
    (n : Nat) (ts : List (Site σ ι K)) (hn : n ≤ ts.length) (j : Nat) (hj : j < n) :
    ∃ X, (sweep d u n ts)[j]? = some X ∧ Good X := by
  induction n with
  | zero => omega
  | succ n ih =>
    rw [sweep_succ]
    by_cases hjn : j = n
    · subst hjn
      exact shiftRight_getElem?_self d u Good hq hs j _ (by simp; omega)
    · obtain ⟨X, hX, hg⟩ := ih (by omega) (by omega)
      exact ⟨X, by rw [shiftRight_getElem?_other d u n j _ hjn (by omega)]; exact hX, hg⟩

/-- conjugating a length- and chain-preserving move with `flip` preserves the chain -/
theorem flip_conj (f : List (Site σ ι K) → List (Site σ ι K)) (ts : List (Site σ ι K)) (cfg : List σ)
    (hc : cfg.length = ts.length) (hlen : (f (flip ts)).length = ts.length)
    (hf : chain (f (flip ts)) cfg.reverse = chain (flip ts) cfg.reverse) :
    chain (flip (f (flip ts))) cfg = chain ts cfg := by
  rw [flip_chain' _ _ (by rw [hlen, hc]), hf, flip_chain _ _ hc, Matrix.transpose_transpose]

theorem setCanonical_chain (d : Dec σ ι K) (u : Bool) (c : Nat) (ts : List (Site σ ι K)) (cfg : List σ)
    (hcL : c < ts.length) (hc : cfg.length = ts.length) :
    chain (setCanonical d u c ts) cfg = chain ts cfg := by
  unfold setCanonical
  have h1 : chain (sweep d u c ts) cfg = chain ts cfg := sweep_chain d u c ts cfg (by omega) hc
  have hl : (sweep d u c ts).length = ts.length := sweep_length d u c ts
  rw [← h1, ← hl]
  refine flip_conj (sweep d u ((sweep d u c ts).length - 1 - c)) (sweep d u c ts) cfg (by rw [hl, hc]) (by simp) ?_
  exact sweep_chain d u _ _ _ (by simp; omega) (by simp [hc])

theorem shiftLeft_chain (d : Dec σ ι K) (u : Bool) (i : Nat) (ts : List (Site σ ι K)) (cfg : List σ)
    (h0 : 0 < i) (hi : i < ts.length) (hc : cfg.length = ts.length) :
    chain (shiftLeft d u i ts) cfg = chain ts cfg := by
  unfold shiftLeft
  refine flip_conj (shiftRight d u (ts.length - i - 1)) ts cfg hc (by simp) ?_
  exact shiftRight_chain d u _ _ _ (by simp; omega) (by simp [hc])

/-- `set_canonical_form(c)`: every site left of `c` is a first factor of a decomposition -/
theorem setCanonical_left (d : Dec σ ι K) (u : Bool) (Good : Site σ ι K → Prop)
    (hq : ∀ A, Good (d.qr A).1) (hs : ∀ A B, Good (d.svd A B).1)
    (c : Nat) (ts : List (Site σ ι K)) (hc : c < ts.length) (j : Nat) (hj : j < c) :
    ∃ X, (setCanonical d u c ts)[j]? = some X ∧ Good X := by
  obtain ⟨X, hX, hg⟩ := sweep_good d u Good hq hs c ts (by omega) j hj
  refine ⟨X, ?_, hg⟩
  unfold setCanonical
  rw [getElem?_flip _ j (by simp; omega)]
  simp only [sweep_length, flip_length]
  rw [sweep_getElem?_above d u _ _ _ (by omega), getElem?_flip _ _ (by simp; omega)]
  simp only [sweep_length]
  have : ts.length - 1 - (ts.length - 1 - j) = j := by omega
  rw [this, hX]
  simp

/-- `set_canonical_form(c)`: every site right of `c` is, in the flipped network, a first factor of a decomposition -/
theorem setCanonical_right (d : Dec σ ι K) (u : Bool) (Good : Site σ ι K → Prop)
    (hq : ∀ A, Good (d.qr A).1) (hs : ∀ A B, Good (d.svd A B).1)
    (c : Nat) (ts : List (Site σ ι K)) (j : Nat) (hj : c < j) (hjL : j < ts.length) :
    ∃ X, (setCanonical d u c ts)[j]? = some X ∧ Good (flipSite X) := by
  obtain ⟨Y, hY, hg⟩ := sweep_good d u Good hq hs (ts.length - 1 - c) (flip (sweep d u c ts)) (by simp; omega)
    (ts.length - 1 - j) (by omega)
  refine ⟨flipSite Y, ?_, by simpa using hg⟩
  unfold setCanonical
  rw [getElem?_flip _ j (by simp; omega)]
  simp only [sweep_length, flip_length]
  rw [hY]
  simp

/-! ### the recorded primitive calls (`Model.Mps.Ev`) interpreted on the algebraic chain -/

/-- a primitive call of the code as a move on the chain (`qrDrop` and `qr` are the same function of the code,
    `svdT` is the two-site SVD with the caller's threshold) -/
def runEv (d : Dec σ ι K) : Ev → List (Site σ ι K) → List (Site σ ι K)
  | .flip, ts => flip ts
  | .qr i, ts => shiftRight d false i ts
  | .qrDrop i, ts => shiftRight d false i ts
  | .svd i, ts => shiftRight d true i ts
  | .svdT i, ts => shiftRight d true i ts

def runEvs (d : Dec σ ι K) (evs : List Ev) (ts : List (Site σ ι K)) : List (Site σ ι K) :=
  evs.foldl (fun t e => runEv d e t) ts

theorem runEvs_append (d : Dec σ ι K) (e1 e2 : List Ev) (ts : List (Site σ ι K)) :
    runEvs d (e1 ++ e2) ts = runEvs d e2 (runEvs d e1 ts) := by simp [runEvs, List.foldl_append]

/-- at the last site the SVD request falls back to QR -/
theorem shiftRight_last_indep (d : Dec σ ι K) (i : Nat) (ts : List (Site σ ι K)) (h : i + 1 = ts.length) :
    shiftRight d true i ts = shiftRight d false i ts := by
  induction i generalizing ts with
  | zero =>
    match ts, h with
    | [A], _ => simp [shiftRight]
  | succ i ih =>
    match ts, h with
    | A :: ts, h => simp only [shiftRight]; rw [ih ts (by simpa using h)]

theorem shiftRightEv_run (d : Dec σ ι K) (dec : String) (hdec : dec = "QR" ∨ dec = "SVD") (i : Nat)
    (ts : List (Site σ ι K)) (_hi : i < ts.length) :
    runEvs d (shiftRightEv ts.length i dec) ts = shiftRight d (decide (dec = "SVD")) i ts := by
  rcases hdec with rfl | rfl
  · have : decide ("QR" = "SVD") = false := by decide
    rw [this]
    unfold shiftRightEv
    by_cases h : i + 1 < ts.length <;> simp [h, runEvs, runEv]
  · have h1 : decide ("SVD" = "SVD") = true := by decide
    have h2 : ¬ ("SVD" = "QR") := by decide
    rw [h1]
    unfold shiftRightEv
    by_cases h : i + 1 = ts.length
    · have h3 : ¬ (i + 1 < ts.length) := by omega
      simp [h, runEvs, runEv, shiftRight_last_indep d i ts h]
    · simp [h, h2, runEvs, runEv]

theorem sweepEv_run (d : Dec σ ι K) (dec : String) (hdec : dec = "QR" ∨ dec = "SVD") (len n : Nat)
    (ts : List (Site σ ι K)) (hL : ts.length = len) (hn : n ≤ len) :
    runEvs d ((List.range n).flatMap (fun site => shiftRightEv len site dec)) ts =
      sweep d (decide (dec = "SVD")) n ts := by
  induction n with
  | zero => simp [runEvs, sweep]
  | succ n ih =>
    rw [List.range_succ, List.flatMap_append, runEvs_append, ih (by omega), sweep_succ]
    simp only [List.flatMap_cons, List.flatMap_nil, List.append_nil]
    have hl : (sweep d (decide (dec = "SVD")) n ts).length = len := by simp [hL]
    rw [← hl]
    exact shiftRightEv_run d dec hdec n _ (by omega)

@[simp] theorem runEvs_nil (d : Dec σ ι K) (ts : List (Site σ ι K)) : runEvs d [] ts = ts := rfl
@[simp] theorem runEvs_flip (d : Dec σ ι K) (ts : List (Site σ ι K)) : runEvs d [Ev.flip] ts = flip ts := rfl

/-- the event list of `set_canonical_form` is the fold `setCanonical` -/
theorem setCanonEv_run (d : Dec σ ι K) (dec : String) (hdec : dec = "QR" ∨ dec = "SVD") (c : Nat)
    (ts : List (Site σ ι K)) (hc : c < ts.length) :
    runEvs d (setCanonEv ts.length c dec) ts = setCanonical d (decide (dec = "SVD")) c ts := by
  unfold setCanonEv sweepEv setCanonical
  have h1 : c + 1 ≤ ts.length := by omega
  simp only [h1, if_true, runEvs_append]
  have hm1 : min c ts.length = c := by omega
  have hm2 : min (ts.length - 1 - c) ts.length = ts.length - 1 - c := by omega
  rw [hm1, hm2, sweepEv_run d dec hdec ts.length c ts rfl (by omega), runEvs_flip, runEvs_flip]
  rw [sweepEv_run d dec hdec ts.length (ts.length - 1 - c) (flip (sweep d (decide (dec = "SVD")) c ts))
    (by simp) (by omega)]

theorem shiftLeftEv_run (d : Dec σ ι K) (dec : String) (hdec : dec = "QR" ∨ dec = "SVD") (i : Nat)
    (ts : List (Site σ ι K)) (hi : i < ts.length) :
    runEvs d (shiftLeftEv ts.length i dec) ts = shiftLeft d (decide (dec = "SVD")) i ts := by
  unfold shiftLeftEv shiftLeft
  simp only [runEvs_append, runEvs_flip]
  have := shiftRightEv_run d dec hdec (ts.length - i - 1) (flip ts) (by simp; omega)
  rw [flip_length] at this
  rw [this]

theorem normalizeEv_run (d : Dec σ ι K) (dec : String) (hdec : dec = "QR" ∨ dec = "SVD") (form : String)
    (ts : List (Site σ ι K)) (hne : 0 < ts.length) :
    runEvs d (normalizeEv ts.length form dec) ts =
      normalize d (decide (dec = "SVD")) (decide (form = "B")) ts := by
  unfold normalizeEv normalize
  by_cases hf : form = "B"
  · simp only [hf, if_true, runEvs_append, decide_true, runEvs_flip]
    have h1 := setCanonEv_run d dec hdec (ts.length - 1) (flip ts) (by simp; omega)
    rw [flip_length] at h1
    rw [h1]
    have h2 := shiftRightEv_run d dec hdec (ts.length - 1)
      (setCanonical d (decide (dec = "SVD")) (ts.length - 1) (flip ts)) (by simp; omega)
    rw [setCanonical_length, flip_length] at h2
    rw [h2]
  · simp only [hf, if_false, runEvs_append, decide_false, List.nil_append, List.append_nil,
      Bool.false_eq_true]
    have h1 := setCanonEv_run d dec hdec (ts.length - 1) ts (by omega)
    rw [h1]
    have h2 := shiftRightEv_run d dec hdec (ts.length - 1)
      (setCanonical d (decide (dec = "SVD")) (ts.length - 1) ts) (by simp; omega)
    rw [setCanonical_length] at h2
    rw [h2]

/-! ### isometry conditions -/

section star
variable [StarRing K] [Fintype σ]

/-- `oe.contract("ijk, ijl->kl", conj T, T) = 1` -/
def LeftIso (A : Site σ ι K) : Prop := ∑ s, (A s)ᴴ * A s = 1

/-- `oe.contract("ijk, ilk->jl", T, conj T) = 1` -/
def RightIso (A : Site σ ι K) : Prop := ∑ s, A s * (A s)ᴴ = 1

theorem leftIso_flipSite (A : Site σ ι K) : LeftIso (flipSite A) ↔ RightIso A := by
  unfold LeftIso RightIso flipSite
  have : ∀ s, ((A s)ᵀ)ᴴ * (A s)ᵀ = (A s * (A s)ᴴ)ᵀ := by
    intro s
    rw [Matrix.transpose_mul, Matrix.conjTranspose_transpose, Matrix.transpose_conjTranspose]
  simp only [this]
  rw [← Matrix.transpose_sum]
  constructor
  · intro h
    have := congrArg Matrix.transpose h
    simpa using this
  · intro h
    rw [h]; simp

/-- sum of `F` over all configurations of length `n` (outermost site first) -/
def sumCfg {M : Type*} [AddCommMonoid M] : Nat → (List σ → M) → M
  | 0, F => F []
  | n + 1, F => ∑ s, sumCfg n (fun cfg => F (s :: cfg))

theorem sumCfg_sum {M : Type*} [AddCommMonoid M] {τ : Type*} (t : Finset τ) (n : Nat) (F : τ → List σ → M) :
    sumCfg n (fun cfg => ∑ x ∈ t, F x cfg) = ∑ x ∈ t, sumCfg n (F x) := by
  induction n generalizing F with
  | zero => simp [sumCfg]
  | succ n ih =>
    simp only [sumCfg]
    rw [Finset.sum_comm]
    exact Finset.sum_congr rfl (fun s _ => ih (fun x cfg => F x (s :: cfg)))

/-- a chain of left-isometric sites has unit norm: `Σ_cfg (chain cfg)ᴴ (chain cfg) = 1`
    (for boundary bonds of dimension 1 this is `Σ_cfg |amp cfg|² = 1`) -/
theorem left_canonical_norm (ts : List (Site σ ι K)) (h : ∀ A ∈ ts, LeftIso A) :
    sumCfg ts.length (fun cfg => (chain ts cfg)ᴴ * chain ts cfg) = 1 := by
  induction ts with
  | nil => simp [sumCfg]
  | cons A ts ih =>
    simp only [List.length_cons, sumCfg, chain_cons]
    have hA : LeftIso A := h A (by simp)
    have key : ∀ s cfg, (A s * chain ts cfg)ᴴ * (A s * chain ts cfg) =
        (chain ts cfg)ᴴ * ((A s)ᴴ * A s) * chain ts cfg := by
      intro s cfg
      rw [Matrix.conjTranspose_mul]
      simp only [Matrix.mul_assoc]
    simp only [key]
    rw [← sumCfg_sum Finset.univ ts.length (fun s cfg => (chain ts cfg)ᴴ * ((A s)ᴴ * A s) * chain ts cfg)]
    have : ∀ cfg, ∑ s, (chain ts cfg)ᴴ * ((A s)ᴴ * A s) * chain ts cfg = (chain ts cfg)ᴴ * chain ts cfg := by
      intro cfg
      rw [← Finset.sum_mul, ← Finset.mul_sum]
      unfold LeftIso at hA
      rw [hA, Matrix.mul_one]
    simp only [this]
    exact ih (fun B hB => h B (by simp [hB]))

/-- after `normalize(form = "A")` every site is a first factor of a decomposition -/
theorem normalize_A_good (d : Dec σ ι K) (u : Bool) (Good : Site σ ι K → Prop)
    (hq : ∀ A, Good (d.qr A).1) (hs : ∀ A B, Good (d.svd A B).1)
    (ts : List (Site σ ι K)) (j : Nat) (hj : j < ts.length) :
    ∃ X, (normalize d u false ts)[j]? = some X ∧ Good X := by
  simp only [normalize, Bool.false_eq_true, if_false]
  by_cases hjl : j = ts.length - 1
  · subst hjl
    exact shiftRight_getElem?_self d u Good hq hs _ _ (by simp; omega)
  · obtain ⟨X, hX, hg⟩ := setCanonical_left d u Good hq hs (ts.length - 1) ts (by omega) j (by omega)
    exact ⟨X, by rw [shiftRight_getElem?_other d u _ j _ hjl (by omega)]; exact hX, hg⟩

/-- reshaping a tall isometry `Q : (phys·left) × new` to a site tensor gives a left-isometric site
    (rectangular on purpose: this is the index bookkeeping of `q_mat.reshape(phys, left, new)`) -/
theorem reshape_isometry {κ : Type*} [Fintype κ] [DecidableEq κ] (Qm : Matrix (σ × ι) κ K) (h : Qmᴴ * Qm = 1) :
    ∑ s, (Matrix.of fun l k => Qm (s, l) k)ᴴ * (Matrix.of fun l k => Qm (s, l) k) = 1 := by
  ext a b
  have := congrFun (congrFun h a) b
  simp only [Matrix.mul_apply, Matrix.conjTranspose_apply, Fintype.sum_prod_type] at this
  simp only [Matrix.sum_apply, Matrix.mul_apply, Matrix.conjTranspose_apply, Matrix.of_apply]
  exact this

/-- Frobenius error of a truncated SVD of the two-site block = discarded weight -/
theorem svd_truncation_error (U V : Matrix ι ι K) (sv : ι → K) (keep : ι → Prop) [DecidablePred keep]
    (hU : Uᴴ * U = 1) (hV : V * Vᴴ = 1) :
    Matrix.trace ((U * Matrix.diagonal sv * V - U * Matrix.diagonal (fun j => if keep j then sv j else 0) * V)ᴴ *
      (U * Matrix.diagonal sv * V - U * Matrix.diagonal (fun j => if keep j then sv j else 0) * V)) =
    ∑ j, if keep j then 0 else star (sv j) * sv j := by
  have hE : U * Matrix.diagonal sv * V - U * Matrix.diagonal (fun j => if keep j then sv j else 0) * V =
      U * Matrix.diagonal (fun j => if keep j then 0 else sv j) * V := by
    rw [← Matrix.sub_mul, ← Matrix.mul_sub, Matrix.diagonal_sub]
    congr 3
    funext j
    by_cases hk : keep j <;> simp [hk]
  rw [hE]
  set D := Matrix.diagonal (fun j => if keep j then 0 else sv j) with hD
  have h1 : (U * D * V)ᴴ * (U * D * V) = Vᴴ * (Dᴴ * D) * V := by
    rw [Matrix.conjTranspose_mul, Matrix.conjTranspose_mul]
    calc Vᴴ * (Dᴴ * Uᴴ) * (U * D * V) = Vᴴ * (Dᴴ * (Uᴴ * U) * D) * V := by
          simp only [Matrix.mul_assoc]
      _ = Vᴴ * (Dᴴ * D) * V := by rw [hU, Matrix.mul_one]
  rw [h1, Matrix.trace_mul_cycle, hV, Matrix.one_mul, hD, Matrix.diagonal_conjTranspose,
    Matrix.diagonal_mul_diagonal, Matrix.trace_diagonal]
  refine Finset.sum_congr rfl (fun j _ => ?_)
  by_cases hk : keep j <;> simp [hk]

end star

end Yaqs.Mps.Alg

/-! ### the truth-table logic of `check_canonical_form` (core model) -/

namespace Yaqs.Mps

theorem all_take_iff (a : List Bool) (i : Nat) :
    (a.take i).all id = true ↔ ∀ j, j < i → j < a.length → a[j]? = some true := by
  induction a generalizing i with
  | nil => simp
  | cons x xs ih =>
    match i with
    | 0 => simp
    | i + 1 =>
      simp only [List.take_succ_cons, List.all_cons, id, Bool.and_eq_true, ih i, List.length_cons]
      constructor
      · rintro ⟨hx, h⟩ j hj hjl
        match j with
        | 0 => simp [hx]
        | j + 1 => simpa using h j (by omega) (by omega)
      · intro h
        refine ⟨by simpa using h 0 (by omega) (by omega), fun j hj hjl => ?_⟩
        simpa using h (j + 1) (by omega) (by omega)

theorem all_drop_iff (b : List Bool) (k : Nat) :
    (b.drop k).all id = true ↔ ∀ j, k ≤ j → j < b.length → b[j]? = some true := by
  induction b generalizing k with
  | nil => simp
  | cons x xs ih =>
    match k with
    | 0 =>
      simp only [List.drop_zero, List.all_cons, id, Bool.and_eq_true, List.length_cons]
      have := ih 0
      simp only [List.drop_zero] at this
      rw [this]
      constructor
      · rintro ⟨hx, h⟩ j _ hjl
        match j with
        | 0 => simp [hx]
        | j + 1 => simpa using h j (by omega) (by omega)
      · intro h
        refine ⟨by simpa using h 0 (by omega) (by omega), fun j _ hjl => ?_⟩
        simpa using h (j + 1) (by omega) (by omega)
    | k + 1 =>
      simp only [List.drop_succ_cons, ih k, List.length_cons]
      constructor
      · intro h j hj hjl
        match j with
        | 0 => omega
        | j + 1 => simpa using h j (by omega) (by omega)
      · intro h j hj hjl
        simpa using h (j + 1) (by omega) (by omega)

end Yaqs.Mps
